#!/bin/bash
# Offline build of the framework from files on disk.
set -e
cd "$(dirname "$0")"
export GOFLAGS=-mod=mod GOPROXY=off GOSUMDB=off GOTOOLCHAIN=local
mkdir -p build evidence
if [ -d tools/goextract ]; then (cd tools/goextract && go build -o ../../build/goextract . && ../../build/goextract -repo /repo -out ../../coq/gen/Extracted.v); fi
(cd coq && coq_makefile -f _CoqProject -o Makefile >/dev/null && timeout 3000 make -j16 >../build/coq-build.log 2>&1 || { tail -50 ../build/coq-build.log; exit 1; })
cp /repo/go.sum harness/go.sum
(cd harness && (go build -tags verif -o ../build/vh . || go build -o ../build/vh .))
echo setup ok
