(* Alias.v — topic aliases.
   Outbound: connection/writer.go setTopicAlias (the broker as sender); the receiver-side alias
   table is the SPECIFICATION from MQTT 5 §3.3.2.3.4.  Inbound: the alias part of
   connection.go onPublish (the broker as receiver).  Topics are abstract ([N]). No proofs here. *)
From Coq Require Import List NArith Bool.
Import ListNotations.
Open Scope N_scope.

Definition topic := N.

Fixpoint alookup (t : topic) (m : list (topic * N)) : option N :=
  match m with [] => None | (t', a) :: m' => if t =? t' then Some a else alookup t m' end.

(* ---------------- outbound (sender) ---------------- *)
Record al := mkAl { amap : list (topic * N); acur : N; amax : N }.

(* what goes on the wire: topic present?, alias property *)
Record wpkt := mkW { wtopic : option topic; walias : option N }.

Definition set_alias (s : al) (t : topic) : al * wpkt :=
  if amax s =? 0 then (s, mkW (Some t) None) else
  match alookup t (amap s) with
  | Some a => (s, mkW None (Some a))
  | None =>
      if acur s <? amax s
      then (mkAl ((t, acur s + 1) :: amap s) (acur s + 1) (amax s), mkW (Some t) (Some (acur s + 1)))
      else (s, mkW (Some t) None)          (* all aliases bound: send the topic, no alias *)
  end.

Fixpoint send_all (s : al) (ts : list topic) : al * list wpkt :=
  match ts with
  | [] => (s, [])
  | t :: r => let '(s1, p) := set_alias s t in let '(s2, ps) := send_all s1 r in (s2, p :: ps)
  end.

(* ---------------- receiver table (specification) ---------------- *)
Fixpoint tlookup (a : N) (tbl : list (N * topic)) : option topic :=
  match tbl with [] => None | (a', t) :: r => if a =? a' then Some t else tlookup a r end.

Definition rx_resolve (tbl : list (N * topic)) (p : wpkt) : option topic * list (N * topic) :=
  match wtopic p, walias p with
  | Some t, None => (Some t, tbl)
  | Some t, Some a => (Some t, (a, t) :: tbl)
  | None, Some a => (tlookup a tbl, tbl)
  | None, None => (None, tbl)
  end.

Fixpoint rx_all (tbl : list (N * topic)) (ps : list wpkt) : list (option topic) * list (N * topic) :=
  match ps with
  | [] => ([], tbl)
  | p :: r => let '(t, tbl1) := rx_resolve tbl p in let '(ts, tbl2) := rx_all tbl1 r in (t :: ts, tbl2)
  end.

(* ---------------- inbound (the broker as receiver) ---------------- *)
Inductive rxout := RRoute (t : topic) | RDrop (* not authorised: nothing routed *) | RTerminate.

(* [auth] = ACL verdict for the topic carried by the packet.  The table keeps it with the topic: a packet that carries
   topic and alias binds the alias whether its message is authorised or not [MQTT-3.3.2.3.4], and a packet that names
   its topic through the alias gets the verdict of THAT topic (the [auth] of an alias-only packet says nothing) *)
Fixpoint tlookup2 (a : N) (tbl : list (N * (topic * bool))) : option (topic * bool) :=
  match tbl with [] => None | (a', x) :: r => if a =? a' then Some x else tlookup2 a r end.

Definition rx_step (maxrx : N) (tbl : list (N * (topic * bool))) (p : wpkt) (auth : bool)
  : list (N * (topic * bool)) * rxout :=
  match walias p with
  | None =>
      match wtopic p with
      | Some t => (tbl, if auth then RRoute t else RDrop)
      | None => (tbl, RTerminate)            (* empty topic without alias: rejected (by the packet decoder) *)
      end
  | Some a =>
      if (a =? 0) || (maxrx <? a) then (tbl, RTerminate) else
      match wtopic p with
      | None => match tlookup2 a tbl with
                | Some (t, au) => (tbl, if au then RRoute t else RDrop)
                | None => (tbl, RTerminate)
                end
      | Some t => ((a, (t, auth)) :: tbl, if auth then RRoute t else RDrop)
      end
  end.

Fixpoint rx_run (maxrx : N) (tbl : list (N * (topic * bool))) (ps : list (wpkt * bool)) : list rxout :=
  match ps with
  | [] => []
  | (p, au) :: r =>
      let '(tbl1, o) := rx_step maxrx tbl p au in
      match o with RTerminate => [o] | _ => o :: rx_run maxrx tbl1 r end
  end.

(* ---------------- the shape of setTopicAlias before the repair ---------------- *)
(* [r] is the result of rand.Intn(max): 0 <= r < max *)
Definition set_alias_old (s : al) (t : topic) (r : N) : al * wpkt :=
  if amax s =? 0 then (s, mkW (Some t) None) else
  match alookup t (amap s) with
  | Some a => (s, mkW None (Some a))
  | None =>
      if acur s <? amax s
      then (mkAl ((t, acur s + 1) :: amap s) (acur s + 1) (amax s), mkW (Some t) (Some (acur s + 1)))
      else (mkAl ((t, r) :: amap s) (acur s) (amax s), mkW (Some t) (Some r))
  end.
