(* Auth.v — authentication and ACLs.
   (1) auth/manager.go Manager.Password: the configured authenticators are tried in order, the
       first that allows wins and becomes the connection's permission object.
   (2) cmd/volantmq/auth.go newSimpleAuth / ACL: the built-in user database.  Regular expressions
       enter through [pmatch]; the correspondence run uses patterns of the form ^<prefix>.*$, for
       which matching is a prefix test.  A nil *regexp.Regexp is [PNil]: matching against it panics.
   No proofs in this file. *)
From Coq Require Import List NArith Bool.
Import ListNotations.
Open Scope N_scope.

(* ---------------- (1) the chain ---------------- *)
Fixpoint password_chain (verdicts : list bool) (i : nat) : option nat :=
  match verdicts with
  | [] => None
  | v :: r => if v then Some i else password_chain r (S i)
  end.

(* ---------------- (2) the built-in database ---------------- *)
Definition str := list N.
Fixpoint str_eqb (a b : str) : bool :=
  match a, b with
  | [], [] => true
  | x :: a', y :: b' => (x =? y) && str_eqb a' b'
  | _, _ => false
  end.
Fixpoint is_prefix (p t : str) : bool :=
  match p, t with
  | [], _ => true
  | x :: p', y :: t' => (x =? y) && is_prefix p' t'
  | _ :: _, [] => false
  end.

(* a compiled pattern: ^prefix.*$, or the nil pointer *)
Inductive pat := PPrefix (p : str) | PNil.
Inductive verdict := Allow | Deny | Panic.
Definition pmatch (p : pat) (topic : str) : verdict :=
  match p with
  | PPrefix pre => if is_prefix pre topic then Allow else Deny
  | PNil => Panic
  end.

(* configuration: None = the key is absent / empty *)
Record acl_cfg := mkACL { c_read : option str; c_write : option str }.
Record enh_user := mkEnh { eu_name : str; eu_hash : str; eu_acl : acl_cfg }.
Record auth_cfg := mkCfg {
  users : list (str * str);          (* plain users: name -> password hash; they get the default ACL *)
  enh_users : list enh_user;         (* users with their own (possibly partial) ACL *)
  file_users : list enh_user;        (* the users file, loaded after the inline ones *)
  default_acl : acl_cfg
}.

Record cred := mkCred { cr_hash : str; cr_read : pat; cr_write : pat }.

Definition default_pat (o : option str) : pat := match o with Some p => PPrefix p | None => PPrefix [] end.   (* "^.*$" *)

Definition put (u : str) (c : cred) (m : list (str * cred)) : list (str * cred) :=
  (u, c) :: filter (fun x => negb (str_eqb (fst x) u)) m.
Fixpoint lookup (u : str) (m : list (str * cred)) : option cred :=
  match m with [] => None | (u', c) :: r => if str_eqb u u' then Some c else lookup u r end.

Definition load_enh (dr dw : pat) (m : list (str * cred)) (e : enh_user) : list (str * cred) :=
  let r := match c_read (eu_acl e) with Some p => PPrefix p | None => dr end in
  let w := match c_write (eu_acl e) with Some p => PPrefix p | None => dw end in
  put (eu_name e) (mkCred (eu_hash e) r w) m.

Definition build_users (c : auth_cfg) : list (str * cred) :=
  let dr := default_pat (c_read (default_acl c)) in
  let dw := default_pat (c_write (default_acl c)) in
  let m0 := fold_left (fun m up => put (fst up) (mkCred (snd up) dr dw) m) (users c) [] in
  let m1 := fold_left (load_enh dr dw) (enh_users c) m0 in
  fold_left (load_enh dr dw) (file_users c) m1.

(* cmd/volantmq/main.go configureSimpleAuth: a configuration without any user gets the user "guest" with the password
   "guest" (the hash below is the hexadecimal SHA-256 of "guest") and the default rules *)
Definition guest_name : str := [103; 117; 101; 115; 116].
Definition guest_hash : str :=
  [56; 52; 57; 56; 51; 99; 54; 48; 102; 55; 100; 97; 97; 100; 99; 49; 99; 98; 56; 54; 57; 56; 54; 50; 49; 102; 56; 48; 50; 99; 48; 100;
   57; 102; 57; 97; 51; 99; 51; 99; 50; 57; 53; 99; 56; 49; 48; 55; 52; 56; 102; 98; 48; 52; 56; 49; 49; 53; 99; 49; 56; 54; 101; 99].
Definition build (c : auth_cfg) : list (str * cred) :=
  match build_users c with
  | [] => [(guest_name, mkCred guest_hash (default_pat (c_read (default_acl c))) (default_pat (c_write (default_acl c))))]
  | m => m
  end.

Definition acl (m : list (str * cred)) (user topic : str) (write : bool) : verdict :=
  match lookup user m with
  | None => Deny
  | Some c => pmatch (if write then cr_write c else cr_read c) topic
  end.

Definition password (m : list (str * cred)) (user hash_of_given_password : str) : verdict :=
  match lookup user m with
  | Some c => if str_eqb (cr_hash c) hash_of_given_password then Allow else Deny
  | None => Deny
  end.

(* ---- the shape of newSimpleAuth before the repair: a missing write rule overwrote the READ rule
        with the default write rule and left the write rule nil ---- *)
Definition load_enh_old (dr dw : pat) (m : list (str * cred)) (e : enh_user) : list (str * cred) :=
  let r0 := match c_read (eu_acl e) with Some p => PPrefix p | None => dr end in
  let '(r, w) := match c_write (eu_acl e) with Some p => (r0, PPrefix p) | None => (dw, PNil) end in
  put (eu_name e) (mkCred (eu_hash e) r w) m.

(* ---- inbound Topic Alias under the write ACL (connection.go onPublish) ----
   A PUBLISH carries a topic (Some t) and possibly an alias a > 0, or only an alias (None).  A packet that carries
   both (re)binds the alias whatever becomes of the message [MQTT-3.3.2.3.4]; the ACL is consulted for EVERY
   publish on the topic it resolves to, also when it names the topic through an alias. *)
Inductive averdict := ARouted (t : N) | ADenied | AProtoErr.

Fixpoint alias_get (a : N) (tbl : list (N * N)) : option N :=
  match tbl with [] => None | (x, t) :: r => if N.eqb x a then Some t else alias_get a r end.

Definition alias_pub (allowed : N -> bool) (tbl : list (N * N)) (t : option N) (a : N) : list (N * N) * averdict :=
  match t with
  | Some tp =>
      ((if N.eqb a 0 then tbl else (a, tp) :: tbl), if allowed tp then ARouted tp else ADenied)
  | None =>
      match alias_get a tbl with
      | Some tp => (tbl, if allowed tp then ARouted tp else ADenied)
      | None => (tbl, AProtoErr)
      end
  end.

(* the shape the code had: an alias is (re)bound only when the publish that carries it was authorised and an
   alias-only publish is not checked again - safe against the ACL, but a refused (topic, alias) packet leaves the
   alias on its OLD topic: the alias-only publish that follows is routed there *)
Definition alias_pub_guarded (allowed : N -> bool) (tbl : list (N * N)) (t : option N) (a : N) : list (N * N) * averdict :=
  match t with
  | Some tp =>
      if allowed tp then ((if N.eqb a 0 then tbl else (a, tp) :: tbl), ARouted tp) else (tbl, ADenied)
  | None =>
      match alias_get a tbl with
      | Some tp => (tbl, ARouted tp)
      | None => (tbl, AProtoErr)
      end
  end.

Fixpoint alias_run (allowed : N -> bool) (tbl : list (N * N)) (ps : list (option N * N)) : list averdict :=
  match ps with
  | [] => []
  | (t, a) :: r =>
      let '(tbl', v) := alias_pub allowed tbl t a in
      v :: match v with AProtoErr => [] | _ => alias_run allowed tbl' r end      (* a protocol error ends the connection *)
  end.

(* the shape a change could give it: the alias is bound before the ACL is consulted *)
Definition alias_pub_early (allowed : N -> bool) (tbl : list (N * N)) (t : option N) (a : N) : list (N * N) * averdict :=
  match t with
  | Some tp =>
      let tbl' := if N.eqb a 0 then tbl else (a, tp) :: tbl in
      if allowed tp then (tbl', ARouted tp) else (tbl', ADenied)
  | None =>
      match alias_get a tbl with
      | Some tp => (tbl, ARouted tp)
      | None => (tbl, AProtoErr)
      end
  end.
