(* Inbound.v — connection.go onPublish / onAck(PUBREL): the broker as receiver of a client's
   PUBLISH / PUBREL packets.  [pin] is the ackQueue pubIn (id -> stored message tag),
   [rxq] the remaining receive quota.  No proofs in this file. *)
From Coq Require Import List NArith ZArith Bool.
Import ListNotations.
Open Scope N_scope.

Inductive reason := RSuccess | RNotAuthorized | RIdInUse | RIdNotFound.
Inductive term := TProtocolError | TRecvMaxExceeded.
Inductive iout :=
| IPuback (id : N) (r : reason)
| IPubrec (id : N) (r : reason)
| IPubcomp (id : N) (r : reason)
| IForward (tag : N)
| ITerminate (t : term).

Record inb := mkInb { pin : list (N * N); rxq : Z }.

Definition pin_has (id : N) (s : inb) : bool := existsb (fun x => fst x =? id) (pin s).
Definition pin_del (id : N) (l : list (N * N)) := filter (fun x => negb (fst x =? id)) l.

Inductive ev :=
| EPublish (qos id tag : N) (authorized : bool)
| EPubrel (id : N).

Definition on_publish (s : inb) (qos id tag : N) (authorized : bool) : inb * list iout :=
  match qos with
  | 2 =>
      if id =? 0 then (s, [ITerminate TProtocolError]) else
      if authorized then
        if pin_has id s then (s, [IPubrec id RIdInUse])
        else if (rxq s =? 0)%Z then (s, [ITerminate TRecvMaxExceeded])
        else (mkInb ((id, tag) :: pin s) (rxq s - 1)%Z, [IPubrec id RSuccess])
      else (s, [IPubrec id RNotAuthorized])
  | 1 =>
      if id =? 0 then (s, [ITerminate TProtocolError]) else
      if authorized then
        if (rxq s =? 0)%Z then (s, [ITerminate TRecvMaxExceeded])
        else (s, [IPuback id RSuccess; IForward tag])
      else (s, [IPuback id RNotAuthorized])
  | _ => (s, if authorized then [IForward tag] else [])
  end.

Definition on_pubrel (s : inb) (id : N) : inb * list iout :=
  match find (fun x => fst x =? id) (pin s) with
  | Some (_, tag) => (mkInb (pin_del id (pin s)) (rxq s + 1)%Z, [IForward tag; IPubcomp id RSuccess])
  | None => (s, [IPubcomp id RIdNotFound])
  end.

Definition step (s : inb) (e : ev) : inb * list iout :=
  match e with
  | EPublish q id tag a => on_publish s q id tag a
  | EPubrel id => on_pubrel s id
  end.

Definition is_term (o : iout) : bool := match o with ITerminate _ => true | _ => false end.

(* the connection processes packets until it terminates; nothing after that takes effect *)
Fixpoint run (s : inb) (es : list ev) : inb * list iout :=
  match es with
  | [] => (s, [])
  | e :: r =>
      let '(s1, o) := step s e in
      if existsb is_term o then (s1, o)
      else let '(s2, o2) := run s1 r in (s2, o ++ o2)
  end.

Definition init (rm : Z) : inb := mkInb [] rm.

(* The shape of onPublish before the repair: the quota was taken before the duplicate test. *)
Definition on_publish_old (s : inb) (qos id tag : N) (authorized : bool) : inb * list iout :=
  match qos with
  | 2 =>
      if id =? 0 then (s, [ITerminate TProtocolError]) else
      if authorized then
        if (rxq s =? 0)%Z then (s, [ITerminate TRecvMaxExceeded]) else
        let s1 := mkInb (pin s) (rxq s - 1)%Z in
        if pin_has id s1 then (s1, [IPubrec id RIdInUse])
        else (mkInb ((id, tag) :: pin s1) (rxq s1), [IPubrec id RSuccess])
      else (s, [IPubrec id RNotAuthorized])
  | _ => on_publish s qos id tag authorized
  end.
