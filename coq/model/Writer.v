(* Writer.v — connection/writer.go for one client id across network connections:
   the transmit queues, one popPackets round, the expiry skip of routine(), acknowledgements
   (connection.go onAck + writer.go onReleaseOut/releaseID), close (getQueuedPackets +
   PacketsStore) and open (newWriter + wrQuota + start/packetLoader), and the offline path
   (clients.sessionPersistPublish).  Generic (non-PUBLISH/PUBREL) packets are not modelled.
   No proofs in this file. *)
From Coq Require Import List NArith ZArith Bool.
Import ListNotations.
From VMQ Require Import model.Flow.
Open Scope N_scope.

Inductive kind := KPub (qos : N) | KPubrel.
Record pkt := mkPkt { pk : kind; pid : N; ptag : N; pexp : option Z; pdup : bool }.

Record writer := mkWriter {
  fl : flow;
  q0 : list pkt; q12 : list pkt;
  qrel : list pkt;                  (* pubrelMessages: PUBRELs and re-loaded unacknowledged PUBLISHes *)
  pubout : list (N * pkt);          (* ackQueue pubOut, keyed by identifier *)
  alive : bool;
  p_q0 : list pkt; p_q12 : list pkt; p_unack : list pkt;   (* persistence entry of the client id *)
  offq0 : bool                       (* OfflineQoS0 option *)
}.

Definition expired (now : Z) (p : pkt) : bool :=
  match pexp p with Some e => (e - now <? 1)%Z | None => false end.
Definition is_pub (p : pkt) : bool := match pk p with KPub _ => true | KPubrel => false end.
Definition qos_of (p : pkt) : N := match pk p with KPub q => q | KPubrel => 1 end.
Definition store (id : N) (p : pkt) (m : list (N * pkt)) := (id, p) :: filter (fun x => negb (fst x =? id)) m.
Definition del_out (id : N) (m : list (N * pkt)) := filter (fun x => negb (fst x =? id)) m.
Definition in_out (id : N) (m : list (N * pkt)) : bool := existsb (fun x => fst x =? id) m.
Definition with_id (p : pkt) (id : N) := mkPkt (pk p) id (ptag p) (pexp p) (pdup p).
Definition with_dup (p : pkt) := mkPkt (pk p) (pid p) (ptag p) (pexp p) true.

Inductive ack := APuback (id : N) | APubrec (id : N) (err : bool) | APubcomp (id : N).

Inductive ev :=
| ESend (now : Z) (p : pkt) (* a matching publish handed to this client's subscriber *)
| EPop (now : Z)           (* one round of the writer routine *)
| EAck (v5 : bool) (a : ack)
| EClose (now : Z)         (* the network connection ends; the session is durable *)
| EOpen (rm : Z).          (* reconnect announcing Receive Maximum rm *)

Inductive outcome := Fine | Stuck (why : N).   (* Stuck 1 = OutOfFuel, 2 = quota error *)

(* ---- send ---- *)
Definition send (now : Z) (w : writer) (p : pkt) : writer :=
  if alive w then
    match pk p with
    | KPub 0 => mkWriter (fl w) (q0 w ++ [p]) (q12 w) (qrel w) (pubout w) true (p_q0 w) (p_q12 w) (p_unack w) (offq0 w)
    | _ => mkWriter (fl w) (q0 w) (q12 w ++ [p]) (qrel w) (pubout w) true (p_q0 w) (p_q12 w) (p_unack w) (offq0 w)
    end
  else (* offline: clients.sessionPersistPublish *)
    if expired now p then w else
    match pk p with
    | KPub 0 => mkWriter (fl w) (q0 w) (q12 w) (qrel w) (pubout w) false (p_q0 w ++ [with_id p 0]) (p_q12 w) (p_unack w) (offq0 w)
    | _ => mkWriter (fl w) (q0 w) (q12 w) (qrel w) (pubout w) false (p_q0 w) (p_q12 w ++ [with_id p 0]) (p_unack w) (offq0 w)
    end.

(* ---- one popPackets round followed by the expiry test of routine() ---- *)
Definition wr_set (w : writer) (f : flow) (a b c : list pkt) (o : list (N * pkt)) : writer :=
  mkWriter f a b c o (alive w) (p_q0 w) (p_q12 w) (p_unack w) (offq0 w).

Definition pop_round (now : Z) (w : writer) : outcome * writer * list pkt :=
  if negb (alive w) then (Fine, w, []) else
  (* 1. retransmit / PUBREL queue *)
  let '(o1, qrel1, out1) :=
    match qrel w with
    | [] => ([], [], pubout w)
    | p :: r => ([p], r, store (pid p) p (pubout w))
    end in
  (* 2. one QoS 1/2 publish if quota is available - and nothing waits for retransmission: what was sent before
        (in an earlier connection) goes out again before anything that has never been sent *)
  let r2 :=
    match (match qrel w with [] => q12 w | _ :: _ => [] end) with
    | p :: r =>
        if quota_available (fl w) then
          match acquire (fl w) with
          | Ok (id, f') =>
              let p' := with_id p id in
              if expired now p'
              then (Fine, release f' id, r, out1, [])            (* skipped: identifier and slot returned *)
              else (Fine, f', r, store id p' out1, [p'])
          | QuotaExceeded => (Stuck 2, fl w, q12 w, out1, [])
          | OutOfFuel => (Stuck 1, fl w, q12 w, out1, [])
          end
        else (Fine, fl w, q12 w, out1, [])
    | [] => (Fine, fl w, q12 w, out1, [])
    end in
  let '(oc, f2, q12', out2, o2) := r2 in
  (* 3. one QoS 0 publish *)
  let '(o3, q0') :=
    match q0 w with
    | [] => ([], [])
    | p :: r => (if expired now p then [] else [p], r)
    end in
  (oc, wr_set w f2 q0' q12' qrel1 out2, o1 ++ o2 ++ o3).

(* ---- acknowledgements from the client ---- *)
Definition mk_pubrel (id : N) : pkt := mkPkt KPubrel id 0 None false.

Definition on_ack (v5 : bool) (w : writer) (a : ack) : writer :=
  match a with
  | APuback id | APubcomp id =>
      if in_out id (pubout w)
      then wr_set w (release (fl w) id) (q0 w) (q12 w) (qrel w) (del_out id (pubout w))
      else w
  | APubrec id err =>
      let o := del_out id (pubout w) in
      if in_out id (pubout w)             (* a PUBREC for something that is not outstanding frees nothing and starts nothing *)
      then (if v5 && err
            then wr_set w (release (fl w) id) (q0 w) (q12 w) (qrel w) o
            else wr_set w (fl w) (q0 w) (q12 w) (qrel w ++ [mk_pubrel id]) o)
      else w
  end.

(* ---- close: getQueuedPackets + PacketsStore (appends) ---- *)
Definition enc_queued (now : Z) (p : pkt) : list pkt :=
  if expired now p then [] else [with_id p 0].
(* an unacknowledged PUBLISH is persisted with DUP set and without its expiry *)
Definition enc_unack (p : pkt) : pkt := if is_pub p then mkPkt (pk p) (pid p) (ptag p) None true else p.

Definition close (now : Z) (w : writer) : writer :=
  if negb (alive w) then w else
  mkWriter (fl w) [] [] [] [] false
    (p_q0 w ++ (if offq0 w then flat_map (enc_queued now) (q0 w) else []))
    (p_q12 w ++ flat_map (enc_queued now) (q12 w))
    (* what has been transmitted in this connection, oldest transmission first ([pubout] holds the latest first), then
       what still waits for its retransmission: a PUBLISH that waits there was sent (in an earlier connection) AFTER
       everything this connection has sent again, and before anything it has sent for the first time - which, with
       retransmissions served first, is nothing while they wait *)
    (p_unack w ++ map (fun x => enc_unack (snd x)) (rev (pubout w)) ++ map enc_unack (qrel w))
    (offq0 w).

(* ---- open: a new writer over what persistence holds ---- *)
Fixpoint reacquire_all (f : flow) (l : list pkt) : flow :=
  match l with
  | [] => f
  | p :: r => match reacquire f (pid p) with Ok f' => reacquire_all f' r | _ => reacquire_all f r end
  end.

Definition open (rm : Z) (w : writer) : writer :=
  if alive w then w else
  let f := reacquire_all (mkFlow rm [] 0) (p_unack w) in
  mkWriter f (p_q0 w) (p_q12 w) (p_unack w) [] true [] [] [] (offq0 w).

Definition step (w : writer) (e : ev) : outcome * writer * list pkt :=
  match e with
  | ESend now p => (Fine, send now w p, [])
  | EPop now => pop_round now w
  | EAck v5 a => (Fine, if alive w then on_ack v5 w a else w, [])
  | EClose now => (Fine, close now w, [])
  | EOpen rm => (Fine, open rm w, [])
  end.

Fixpoint run (w : writer) (es : list ev) : outcome * writer * list (list pkt) :=
  match es with
  | [] => (Fine, w, [])
  | e :: r =>
      let '(oc, w1, o) := step w e in
      match oc with
      | Fine => let '(oc2, w2, os) := run w1 r in (oc2, w2, o :: os)
      | _ => (oc, w1, [o])
      end
  end.

Definition init (rm : Z) (offline_q0 : bool) : writer :=
  mkWriter (mkFlow rm [] 0) [] [] [] [] true [] [] [] offline_q0.
