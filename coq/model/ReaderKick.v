(* ReaderKick.v — how a connection's close sequence gets the reader goroutine out of its read, one access per step:
   connection/reader.go routine (arm the keep-alive deadline, look at quit, read, process) against
   connection/connection.go onConnectionCloseStage2 (close quit, put a deadline of a microsecond on the read).
   variant 0 = the reader looks at quit after arming (the code as it is), 1 = it does not (the code as it was).
   The deadline in force is all that matters about time: a read under the close sequence's deadline returns at once,
   a read under the keep-alive deadline waits for the client.  No proofs in this file. *)
From Coq Require Import List Bool.
Import ListNotations.

Inductive dl := DKeepAlive | DKick | DNone.           (* the read deadline in force *)
Inductive rpc := RArm | RCheck | RRead | RProcess | RGone.
Inductive cpc := CStart | CQuit | CKicked.

Record st := mkSt { rd : rpc; cl : cpc; deadline : dl; quit : bool;
                    waits : bool   (* the reader is inside a read that waits for the client under the keep-alive deadline *) }.

Inductive ev :=
| Reader          (* the reader goroutine takes its next step *)
| Closer          (* the close sequence takes its next step *)
| Packet.         (* the client sends a packet: a reader waiting in its read gets it *)

Definition rstep (variant : nat) (keepalive : bool) (s : st) : st :=
  match rd s with
  | RArm => mkSt (match variant with 0 => RCheck | _ => RRead end) (cl s) (if keepalive then DKeepAlive else deadline s) (quit s) false
  | RCheck => if quit s then mkSt RGone (cl s) (deadline s) (quit s) false else mkSt RRead (cl s) (deadline s) (quit s) false
  | RRead =>
      match deadline s with
      | DKick => mkSt RGone (cl s) (deadline s) (quit s) false                   (* the read returns at once: timeout *)
      | _ => mkSt RRead (cl s) (deadline s) (quit s) true                         (* nothing to read: it waits *)
      end
  | RProcess => mkSt RArm (cl s) (deadline s) (quit s) false
  | RGone => s
  end.

Definition cstep (s : st) : st :=
  match cl s with
  | CStart => mkSt (rd s) CQuit (deadline s) true (waits s)
  | CQuit => mkSt (rd s) CKicked DKick (quit s) (waits s)                        (* SetReadDeadline(now + 1us) *)
  | CKicked => s
  end.

Definition step (variant : nat) (keepalive : bool) (s : st) (e : ev) : st :=
  match e with
  | Reader => rstep variant keepalive s
  | Closer => cstep s
  | Packet => match rd s with
              | RRead => mkSt RProcess (cl s) (deadline s) (quit s) false         (* a packet arrives: it is processed *)
              | _ => s
              end
  end.

Definition run (variant : nat) (keepalive : bool) (s : st) (es : list ev) : st := fold_left (step variant keepalive) es s.

(* any point of the reader's loop, no close sequence yet *)
Definition start (r : rpc) (d : dl) : st := mkSt r CStart d false false.

(* after the close sequence has finished, the reader is stuck iff it sits in a read that waits for the client *)
Definition stuck (s : st) : bool :=
  match cl s, rd s with
  | CKicked, RRead => match deadline s with DKick => false | _ => true end
  | _, _ => false
  end.

(* ---- the order of the accesses in the two Go functions, in the token language of tools/goextract (callOrder);
   gen/Extracted.v (reader_shape) is re-read from the source on every run ---- *)
From Coq Require Import String.
From VMQ Require Import model.LFShape.
Open Scope string_scope.
Definition rshape : list (string * list string) := [
  (* RArm, RCheck, RRead, RProcess *)
  ("routine", [".conn.SetReadDeadline"; "recv s.quit"; ".readPacket"; ".processIncoming"]);
  (* CStart -> CQuit (close quit), CQuit -> CKicked (the microsecond deadline); then it waits for the reader *)
  ("onConnectionCloseStage2", ["close s.quit"; ".conn.SetReadDeadline"; ".rx.shutdown"; ".rx.shutdown"])
].
Definition rshape_diff (extracted : list (string * list string)) : list (string * option (list string)) :=
  flat_map (fun kv => match lookup (fst kv) extracted with
                      | Some v => if toks_eqb v (snd kv) then [] else [(fst kv, Some v)]
                      | None => [(fst kv, None)]
                      end) rshape.
Definition rshape_ok (extracted : list (string * list string)) : bool :=
  match rshape_diff extracted with [] => Nat.eqb (List.length extracted) (List.length rshape) | _ => false end.
Close Scope string_scope.
