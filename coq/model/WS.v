(* WS.v — executable model of transport/websocket.go wsConn.Read.
   State: [rem] = bytes of an already received frame not yet handed out;
   [frames] = payloads of the client's binary frames not yet received.
   A read with a buffer of [blen] bytes returns [None] when the frame source is
   exhausted (ReadClientBinary fails), otherwise the bytes handed out and the
   new state.  No proofs in this file. *)
From Coq Require Import List Arith.
Import ListNotations.

Section WS.
  Context {B : Type}.

  (* the next frame that carries something: an EMPTY binary frame hands nothing to the reader and is passed over (a read
     that returned "no bytes, no error" a hundred times in a row makes bufio give the connection up) *)
  Fixpoint next_frame (frames : list (list B)) : option (list B * list (list B)) :=
    match frames with
    | [] => None
    | [] :: fs => next_frame fs
    | (x :: d) :: fs => Some (x :: d, fs)
    end.

  Definition ws_read (rem : list B) (frames : list (list B)) (blen : nat)
    : option (list B * list B * list (list B)) :=
    match rem with
    | _ :: _ => Some (firstn blen rem, skipn blen rem, frames)
    | [] =>
        match next_frame frames with
        | None => None
        | Some (d, fs) => Some (firstn blen d, skipn blen d, fs)
        end
    end.

  (* One result per requested read; the run stops at the first failed read. *)
  Inductive rres := RBytes (bs : list B) | REof.

  Fixpoint ws_run (rem : list B) (frames : list (list B)) (sizes : list nat)
    : list rres * list B * list (list B) :=
    match sizes with
    | [] => ([], rem, frames)
    | b :: sz =>
        match ws_read rem frames b with
        | None => ([REof], rem, frames)
        | Some (out, rem', frames') =>
            let '(rs, r, f) := ws_run rem' frames' sz in
            (RBytes out :: rs, r, f)
        end
    end.

  Definition bytes_of (r : rres) : list B :=
    match r with RBytes bs => bs | REof => [] end.

  Definition delivered (rs : list rres) : list B := concat (map bytes_of rs).

  (* The shape of wsConn.Read before the repair (kept for refute/C17.v):
     a remainder consumed exactly is not cleared, and after serving remainder
     bytes the read goes on to wait for a further frame. *)
  Definition ws_read_old (rem : list B) (frames : list (list B)) (blen : nat)
    : option (list B * list B * list (list B)) :=
    let n := Nat.min blen (length rem) in
    let out1 := firstn n rem in
    let rem1 := if Nat.ltb n (length rem) then skipn n rem else rem in
    if Nat.ltb n blen then
      match frames with
      | [] => match out1 with [] => None | _ => Some (out1, rem1, []) end
      | d :: fs =>
          let n1 := Nat.min (blen - n) (length d) in
          Some (out1 ++ firstn n1 d,
                (if Nat.ltb n1 (length d) then skipn n1 d else rem1), fs)
      end
    else Some (out1, rem1, frames).
End WS.
Arguments rres : clear implicits.
