(* KeepAlive.v — keep-alive and connect timeouts.  The deadline formula is the expression found in
   connection/options.go KeepAlive (gen/Extracted.v, keepalive_secs); the reader loop
   (connection/reader.go routine) re-arms the read deadline at the start of every iteration, i.e.
   after each processed packet.  Times are integers (milliseconds in the correspondence run, any
   unit in the theorems).  No proofs here. *)
From Coq Require Import List ZArith Bool.
Import ListNotations.
From VMQ Require Import gen.Extracted.
Open Scope Z_scope.

(* effective keep-alive of a session: clients/sessions.go newSession *)
Definition effective_keepalive (force : bool) (period client_k : Z) : Z :=
  if force then period else client_k.

(* deadline span in the unit of [scale] per second (0 = no deadline) *)
Definition deadline (scale k : Z) : Z := keepalive_secs k * scale.

(* [start] = when the loop was entered; [arrivals] = times at which packets arrive (ascending).
   Returns the time at which the broker closes the connection for inactivity, None if it does not
   (within the given arrivals + the observation horizon [horizon]). *)
Fixpoint closes_at (d : Z) (last : Z) (arrivals : list Z) (horizon : Z) : option Z :=
  if d <=? 0 then None else
  match arrivals with
  | [] => if last + d <=? horizon then Some (last + d) else None
  | t :: r => if t <? last + d then closes_at d t r horizon else Some (last + d)
  end.
