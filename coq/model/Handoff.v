(* Handoff.v — where a message routed to a durable session goes while the session's connection ends and while
   the next one is set up (connection/connection.go Acknowledge and onConnectionCloseStage2, connection/writer.go
   send/start, clients/session.go SignalOffline/SignalConnectionClose, subscriber.Publish).  One step = one critical
   section of the subscriber's lock / one hand-over.  Messages are opaque tags; acknowledgements and the send quota
   are C02/C03's subject and are left out: a transmitted message is simply appended to [sent].
   The repaired order of steps and the two orders the code had before are all here, selected by [variant].
   No proofs in this file. *)
From Coq Require Import List Bool.
Import ListNotations.

Section M.
Variable msg : Type.

Inductive mode := MLive | MWait | MDirect.
Inductive phase := Connected | Closing | Offline | Connecting.

Record st := mkSt {
  ph : phase;
  md : mode;             (* what the subscriber's publisher is at the moment *)
  started : bool;        (* the connection's writer has loaded the backlog *)
  txq : list msg;        (* the writer's queue: accepted, not yet transmitted *)
  held : list msg;       (* senders waiting in writer.send for the backlog load *)
  waiting : list msg;    (* publishers waiting for the hand-over at connection end *)
  store : list msg;      (* persistence, in its order *)
  sent : list msg        (* first transmissions, all connections, in wire order *)
}.

Definition init : st := mkSt Offline MDirect false [] [] [] [] [].

Inductive ev :=
| Route (m : msg)        (* the routing worker hands m to the session's subscriber *)
| Send                   (* the writer transmits the head of its queue *)
| CloseBegin             (* the connection ends: the subscriber leaves the writer (SignalOffline), the writer stops *)
| CloseEnd               (* the writer's queue is persisted (PacketsStore), waiting publishers are let go *)
| OpenBegin              (* CONNACK written; the subscriber is pointed at the new connection's writer (SignalOnline) *)
| OpenEnd.               (* the writer loads the backlog and starts (tx.start) *)

(* variant 0: the repaired code.
   variant 1: connection end as it was: the subscriber persists directly from CloseBegin on.
   variant 2: connection set-up as it was: OpenBegin loads the backlog and starts the writer, OpenEnd switches the
              subscriber (messages routed in between are still persisted directly). *)
Variable variant : nat.

Definition step (s : st) (e : ev) : st :=
  match e with
  | Route m =>
      match md s with
      | MLive => if started s then mkSt (ph s) (md s) (started s) (txq s ++ [m]) (held s) (waiting s) (store s) (sent s)
                 else mkSt (ph s) (md s) (started s) (txq s) (held s ++ [m]) (waiting s) (store s) (sent s)
      | MWait => mkSt (ph s) (md s) (started s) (txq s) (held s) (waiting s ++ [m]) (store s) (sent s)
      | MDirect => mkSt (ph s) (md s) (started s) (txq s) (held s) (waiting s) (store s ++ [m]) (sent s)
      end
  | Send =>
      match ph s, started s, txq s with
      | Connected, true, m :: r => mkSt (ph s) (md s) (started s) r (held s) (waiting s) (store s) (sent s ++ [m])
      | _, _, _ => s
      end
  | CloseBegin =>
      match ph s with
      | Connected => mkSt Closing (match variant with 1 => MDirect | _ => MWait end) false (txq s) (held s) (waiting s) (store s) (sent s)
      | _ => s
      end
  | CloseEnd =>
      match ph s with
      | Closing => mkSt Offline MDirect false [] [] [] (store s ++ txq s ++ waiting s) (sent s)
      | _ => s
      end
  | OpenBegin =>
      match ph s with
      | Offline =>
          match variant with
          | 2 => mkSt Connecting MDirect true (txq s ++ store s) (held s) (waiting s) [] (sent s)
          | _ => mkSt Connecting MLive false (txq s) (held s) (waiting s) (store s) (sent s)
          end
      | _ => s
      end
  | OpenEnd =>
      match ph s with
      | Connecting =>
          match variant with
          | 2 => mkSt Connected MLive true (txq s) (held s) (waiting s) (store s) (sent s)
          | _ => mkSt Connected MLive true (txq s ++ store s ++ held s) [] (waiting s) [] (sent s)
          end
      | _ => s
      end
  end.

Definition run (s : st) (es : list ev) : st := fold_left step es s.

(* everything handed to the session so far, in the order of the hand-over *)
Fixpoint routed (es : list ev) : list msg :=
  match es with [] => [] | Route m :: r => m :: routed r | _ :: r => routed r end.

(* what is accepted and not yet transmitted, in the order in which it will be *)
Definition pending (s : st) : list msg := txq s ++ store s ++ held s ++ waiting s.

End M.

Arguments Route {msg}. Arguments Send {msg}. Arguments CloseBegin {msg}. Arguments CloseEnd {msg}.
Arguments OpenBegin {msg}. Arguments OpenEnd {msg}.
Arguments mkSt {msg}. Arguments ph {msg}. Arguments md {msg}. Arguments started {msg}. Arguments txq {msg}.
Arguments held {msg}. Arguments waiting {msg}. Arguments store {msg}. Arguments sent {msg}.
Arguments init {msg}. Arguments step {msg}. Arguments run {msg}. Arguments routed {msg}. Arguments pending {msg}.
