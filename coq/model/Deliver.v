(* Deliver.v — how one published message is turned into the copies sent to ONE session:
   topics/*/node.go overlappingSubscribers / nonOverlappingSubscribers + topicSubscriber.acquire
   (collection over the matching subscriptions, in walk order), subscriber.go Publish (QoS, RETAIN,
   subscription identifiers), and the retained-on-subscribe path of clients/session.go.
   No proofs in this file. *)
From Coq Require Import List NArith Bool.
Import ListNotations.
From VMQ Require Import model.Trie.
Open Scope N_scope.

Record delivery := mkD { d_qos : N; d_retain : bool; d_dup : bool; d_ids : list N }.

Definition ids_of (sp : sparams) : list N := if 0 <? sp_id sp then [sp_id sp] else [].

(* one collected entry: options of the subscription that created it, granted QoS so far, ids so far *)
Record entry := mkE { e_rap : bool; e_qos : N; e_ids : list N }.

(* nonOverlappingSubscribers: one entry per matching subscription, unless No-Local and own publish *)
Definition collect_each (self : bool) (subs : list sparams) : list entry :=
  flat_map (fun sp => if sp_nl sp && self then [] else [mkE (sp_rap sp) (sp_qos sp) (ids_of sp)]) subs.

(* overlappingSubscribers: a No-Local subscription is passed over for the session's own publish; of the others the
   first creates the entry, later ones only raise the granted QoS and add their identifiers *)
Fixpoint collect_merge (self : bool) (subs : list sparams) (cur : option entry) : option entry :=
  match subs with
  | [] => cur
  | sp :: r =>
      if sp_nl sp && self then collect_merge self r cur else
      match cur with
      | Some e => collect_merge self r (Some (mkE (e_rap e) (N.max (e_qos e) (sp_qos sp)) (e_ids e ++ ids_of sp)))
      | None => collect_merge self r (Some (mkE (sp_rap sp) (sp_qos sp) (ids_of sp)))
      end
  end.

(* the merge as it was: No-Local was looked at only while no entry existed - a No-Local subscription visited after
   another one of the session was merged into the copy of the session's own publish (kept for refute/C08.v) *)
Fixpoint collect_merge_old (self : bool) (subs : list sparams) (cur : option entry) : option entry :=
  match subs with
  | [] => cur
  | sp :: r =>
      match cur with
      | Some e => collect_merge_old self r (Some (mkE (e_rap e) (N.max (e_qos e) (sp_qos sp)) (e_ids e ++ ids_of sp)))
      | None => if sp_nl sp && self then collect_merge_old self r None
                else collect_merge_old self r (Some (mkE (sp_rap sp) (sp_qos sp) (ids_of sp)))
      end
  end.

(* subscriber.Publish: the copy that is handed to the session's writer *)
Definition to_delivery (pq : N) (pr : bool) (e : entry) : delivery :=
  mkD (N.min pq (e_qos e)) (e_rap e && pr) false (e_ids e).

Definition deliveries (overlap self : bool) (subs : list sparams) (pq : N) (pr : bool) : list delivery :=
  if overlap then match collect_merge self subs None with Some e => [to_delivery pq pr e] | None => [] end
  else map (to_delivery pq pr) (collect_each self subs).

(* retained message (stored QoS rq) sent because of a new subscription: RETAIN=1, QoS min(rq, granted),
   the identifier of that subscription [MQTT-3.3.4-3] *)
Definition retained_delivery (sp : sparams) (rq : N) : delivery :=
  mkD (N.min rq (sp_qos sp)) true false (ids_of sp).

(* ---- the shape of subscriber.Publish before the repair (kept for refute/C08.v) ---- *)
Definition to_delivery_old (pq : N) (pr : bool) (e : entry) : delivery :=
  mkD (if (e_qos e =? 1) && (pq =? 2) then 1 else pq) pr false (e_ids e).
