(* ConnSM.v — per-connection protocol state machine: connection.go processIncoming / onConnect /
   onAuth, the two-stage close, sessions.go processConnect.  Which packet types are admissible in a
   state is NOT written here: it is looked up in the table extracted from the source
   (gen/Extracted.v, expected_packet_type).  No proofs in this file. *)
From Coq Require Import List NArith Bool String.
Import ListNotations.
From VMQ Require Import gen.Extracted.
Open Scope N_scope.

Inductive ptype := CONNECT | CONNACK | PUBLISH | PUBACK | PUBREC | PUBREL | PUBCOMP | SUBSCRIBE
                 | SUBACK | UNSUBSCRIBE | UNSUBACK | PINGREQ | PINGRESP | DISCONNECT | AUTH.

Definition pname (t : ptype) : string :=
  match t with
  | CONNECT => "CONNECT" | CONNACK => "CONNACK" | PUBLISH => "PUBLISH" | PUBACK => "PUBACK"
  | PUBREC => "PUBREC" | PUBREL => "PUBREL" | PUBCOMP => "PUBCOMP" | SUBSCRIBE => "SUBSCRIBE"
  | SUBACK => "SUBACK" | UNSUBSCRIBE => "UNSUBSCRIBE" | UNSUBACK => "UNSUBACK" | PINGREQ => "PINGREQ"
  | PINGRESP => "PINGRESP" | DISCONNECT => "DISCONNECT" | AUTH => "AUTH"
  end%string.
Definition pcode (t : ptype) : N :=
  match t with
  | CONNECT => 1 | CONNACK => 2 | PUBLISH => 3 | PUBACK => 4 | PUBREC => 5 | PUBREL => 6 | PUBCOMP => 7
  | SUBSCRIBE => 8 | SUBACK => 9 | UNSUBSCRIBE => 10 | UNSUBACK => 11 | PINGREQ => 12 | PINGRESP => 13
  | DISCONNECT => 14 | AUTH => 15
  end.

Inductive cstate := SConnecting | SConnected | SClosed.
Definition sname (s : cstate) : string :=
  match s with SConnecting => "stateConnecting" | SConnected => "stateConnected" | SClosed => "stateDisconnected" end%string.

Fixpoint assoc (k : string) (l : list (string * list string)) : list string :=
  match l with [] => [] | (k', v) :: r => if String.eqb k k' then v else assoc k r end.
Definition admissible (s : cstate) (t : ptype) : bool :=
  existsb (String.eqb (pname t)) (assoc (sname s) expected_packet_type).

(* what the model needs to know of a packet *)
Record pkt := mkP {
  ty : ptype;
  pid : N;              (* packet identifier where the type has one *)
  nfilt : nat;          (* SUBSCRIBE / UNSUBSCRIBE: number of filters *)
  pqos : N;             (* PUBLISH *)
  flag : bool           (* CONNECT: carries an Authentication Method / credentials refused; SUBSCRIBE: carries a Subscription Identifier *)
}.

Record copts := mkO { v5 : bool; version_allowed : bool; subs_id : bool }.

(* responses: (packet type code, packet id, number of codes or reason code) *)
Definition resp := (N * N * N)%type.

Definition proto_error (o : copts) : cstate * list resp :=
  (SClosed, if v5 o then [(14, 0, 130)] else []).

Definition step (o : copts) (s : cstate) (p : pkt) : cstate * list resp :=
  match s with
  | SClosed => (SClosed, [])
  | SConnecting =>
      if negb (admissible SConnecting (ty p)) then (SClosed, [])          (* closed, nothing is sent *)
      else (* CONNECT *)
        if negb (version_allowed o) then (SClosed, [(2, 0, if v5 o then 132 else 1)])
        else if flag p then (SClosed, [(2, 0, if v5 o then 140 else 5)])  (* auth method not supported / not authorised *)
        else (SConnected, [(2, 0, 0)])
  | SConnected =>
      if negb (admissible SConnected (ty p)) then proto_error o
      else match ty p with
           | CONNECT => proto_error o                                     (* second CONNECT: once-flag in onConnect *)
           | PUBLISH => if pqos p =? 0 then (SConnected, [])
                        else if pid p =? 0 then proto_error o
                        else (SConnected, [(if pqos p =? 1 then 4 else 5, pid p, 0)])
           | PUBACK | PUBCOMP | PUBREC => (SConnected, [])                (* nothing outstanding: ignored *)
           | PUBREL => (SConnected, [(7, pid p, if v5 o then 146 else 0)])
           | SUBSCRIBE => if pid p =? 0 then proto_error o
                          else if flag p && v5 o && negb (subs_id o) then (SClosed, [(14, 0, 161)])
                          (* pqos of a SUBSCRIBE: 1 = its LAST filter is a shared subscription with No Local set,
                             a protocol error [MQTT-3.8.3-4] whatever precedes it in the packet *)
                          else if v5 o && (pqos p =? 1) then proto_error o
                          else (SConnected, [(9, pid p, N.of_nat (nfilt p))])
           | UNSUBSCRIBE => if pid p =? 0 then proto_error o
                            else (SConnected, [(11, pid p, if v5 o then N.of_nat (nfilt p) else 0)])
           | PINGREQ => (SConnected, [(13, 0, 0)])
           | DISCONNECT => (SClosed, [])
           | AUTH => proto_error o                                        (* unsolicited: no authentication method was negotiated *)
           | _ => proto_error o
           end
  end.

Fixpoint run (o : copts) (s : cstate) (ps : list pkt) : cstate * list (list resp) :=
  match ps with
  | [] => (s, [])
  | p :: r => let '(s1, x) := step o s p in let '(s2, xs) := run o s1 r in (s2, x :: xs)
  end.

(* ---- specification table: what a CLIENT may send, per MQTT 3.1.1 / 5.0 ---- *)
Definition legal_c2s (s : cstate) : list ptype :=
  match s with
  | SConnecting => [CONNECT]
  | SConnected => [PUBLISH; PUBACK; PUBREC; PUBREL; PUBCOMP; SUBSCRIBE; UNSUBSCRIBE; PINGREQ; DISCONNECT; AUTH]
  | SClosed => []
  end.
Definition all_types : list ptype :=
  [CONNECT; CONNACK; PUBLISH; PUBACK; PUBREC; PUBREL; PUBCOMP; SUBSCRIBE; SUBACK; UNSUBSCRIBE; UNSUBACK; PINGREQ; PINGRESP; DISCONNECT; AUTH].
Definition ptype_eqb (a b : ptype) : bool := pcode a =? pcode b.
Definition table_is_spec : bool :=
  forallb (fun s => forallb (fun t => Bool.eqb (admissible s t) (existsb (ptype_eqb t) (legal_c2s s))) all_types)
          [SConnecting; SConnected].
