(* HandoffShape.v — the order of the steps in the Go functions that model/Handoff.v's events stand for, in the token
   language of tools/goextract (callOrder).  gen/Extracted.v (handoff_shape) is re-read from the source on every run;
   props/C13.v requires the two to be equal.  Next to each function: the event of Handoff.v it implements. *)
From Coq Require Import List String.
Import ListNotations.
From VMQ Require Import model.LFShape.
Open Scope string_scope.

Definition hshape : list (string * list string) := [
  (* OpenBegin = the CONNACK and SignalOnline, OpenEnd = tx.start; the reader starts after both *)
  ("Acknowledge", [".SignalOnline"; ".tx.start"; ".rx.run"]);
  (* CloseBegin = SignalOffline and tx.stop (bounded by the write deadline); CloseEnd is inside SignalConnectionClose *)
  ("onConnectionCloseStage2", [".conn.SetWriteDeadline"; ".rx.shutdown"; ".SignalOffline"; ".tx.stop"; ".rx.shutdown";
                               ".tx.getQueuedPackets"; ".SignalConnectionClose"]);
  (* Route in mode MLive: nothing is queued before the backlog is loaded *)
  ("send", [".wgStarted.Wait"; ".sendQoS0"; ".sendQoS12"]);
  (* CloseBegin: not durable - the subscriber is shut down; durable - its publisher waits for the hand-over, then persists *)
  ("SignalOffline", [".subscriber.Offline"; ".subscriber.Online"; "recv handedOver"; "persist"]);
  (* CloseEnd: the queue is persisted, the waiting publishers are let go, the subscriber persists directly; only then the Will *)
  ("SignalConnectionClose", [".persistence.PacketsStore"; "close s.handedOver"; ".subscriber.Offline"; ".messenger.Publish"; ".sessionOffline"])
].

Definition hshape_diff (extracted : list (string * list string)) : list (string * option (list string)) :=
  flat_map (fun kv => match lookup (fst kv) extracted with
                      | Some v => if toks_eqb v (snd kv) then [] else [(fst kv, Some v)]
                      | None => [(fst kv, None)]
                      end) hshape.
Definition hshape_ok (extracted : list (string * list string)) : bool :=
  match hshape_diff extracted with [] => Nat.eqb (List.length extracted) (List.length hshape) | _ => false end.
