(* Flow.v — connection/flowControl.go: send quota and packet-identifier allocation.
   The Go counter is a uint32 that is incremented and truncated to uint16, skipping 0; the
   identifiers it yields are exactly the cycle 1,2,...,65535,1,...: that cycle is what is
   modelled ([cur] = last identifier issued, 0 before the first).  No proofs here. *)
From Coq Require Import List NArith ZArith Bool.
Import ListNotations.
Open Scope N_scope.

Record flow := mkFlow { quota : Z; inuse : list N; cur : N }.

Definition next_id (x : N) : N := if 65535 <=? x then 1 else x + 1.
Definition mem (x : N) (l : list N) : bool := existsb (N.eqb x) l.
Definition remove_id (x : N) (l : list N) : list N := filter (fun y => negb (y =? x)) l.

(* the for-loop of acquire(): at most 65536 candidates *)
Fixpoint acquire_loop (fuel : nat) (c : N) (used : list N) : option N :=
  match fuel with
  | O => None
  | S k => let id := next_id c in if mem id used then acquire_loop k id used else Some id
  end.
Definition acquire_fuel : nat := N.to_nat 65536.

Inductive res (A : Type) := Ok (a : A) | QuotaExceeded | OutOfFuel.
Arguments Ok {A}. Arguments QuotaExceeded {A}. Arguments OutOfFuel {A}.

Definition acquire (f : flow) : res (N * flow) :=
  if (quota f =? 0)%Z then QuotaExceeded else
  match acquire_loop acquire_fuel (cur f) (inuse f) with
  | Some id => Ok (id, mkFlow (quota f - 1)%Z (id :: inuse f) id)
  | None => OutOfFuel   (* the Go loop would fall out with an identifier that is in use *)
  end.

Definition reacquire (f : flow) (id : N) : res flow :=
  if (quota f =? 0)%Z then QuotaExceeded
  else Ok (mkFlow (quota f - 1)%Z (id :: remove_id id (inuse f)) (cur f)).   (* sync.Map Store: a set *)

Definition release (f : flow) (id : N) : flow :=
  mkFlow (quota f + 1)%Z (remove_id id (inuse f)) (cur f).

Definition quota_available (f : flow) : bool := (0 <? quota f)%Z.
