(* Prims.v — types.OnceWait.Do (types/types.go) and types.Pool (types/pool.go) as small-step machines:
   one synchronisation operation (mutex, compare-and-swap, WaitGroup, channel) per step, any number
   of threads, an explicit scheduler.  No proofs in this file. *)
From Coq Require Import List Arith Bool.
Import ListNotations.

(* ================= OnceWait.Do =================
     o.lock.Lock(); res := CAS(&o.val, 0, 1); if res { o.wait.Add(1) }; o.lock.Unlock()
     if res { f(); o.wait.Done() } else { o.wait.Wait() }; return res                      *)
Inductive opc :=
| OStart      (* about to Lock *)
| OCas        (* holds the lock, about to compare-and-swap *)
| OWgAdd        (* won: about to wait.Add(1) *)
| OUnlockW    (* won: about to Unlock *)
| OUnlockL    (* lost: about to Unlock *)
| ORun        (* won: about to call f *)
| OEnd        (* inside f: about to return from it *)
| ODone       (* won: about to wait.Done() *)
| OWait       (* lost: in wait.Wait() *)
| ORetT       (* returned true *)
| ORetF.      (* returned false *)

Record ost := mkOst {
  oval : bool;            (* o.val *)
  owg : nat;              (* WaitGroup counter *)
  olock : option nat;     (* holder of o.lock *)
  ofcount : nat;          (* how many times f has been entered *)
  ofdone : bool;          (* f has returned *)
  opcs : list opc
}.

Fixpoint setp {A} (l : list A) (i : nat) (x : A) : list A :=
  match l, i with
  | [], _ => []
  | _ :: t, O => x :: t
  | y :: t, S j => y :: setp t j x
  end.

Definition ostep (s : ost) (i : nat) : ost :=
  match nth_error (opcs s) i with
  | None => s
  | Some pc =>
      let go pc' := setp (opcs s) i pc' in
      match pc with
      | OStart => match olock s with
                  | None => mkOst (oval s) (owg s) (Some i) (ofcount s) (ofdone s) (go OCas)
                  | Some _ => s                                                   (* blocked *)
                  end
      | OCas => if oval s then mkOst true (owg s) (olock s) (ofcount s) (ofdone s) (go OUnlockL)
                else mkOst true (owg s) (olock s) (ofcount s) (ofdone s) (go OWgAdd)
      | OWgAdd => mkOst (oval s) (S (owg s)) (olock s) (ofcount s) (ofdone s) (go OUnlockW)
      | OUnlockW => mkOst (oval s) (owg s) None (ofcount s) (ofdone s) (go ORun)
      | OUnlockL => mkOst (oval s) (owg s) None (ofcount s) (ofdone s) (go OWait)
      | ORun => mkOst (oval s) (owg s) (olock s) (S (ofcount s)) (ofdone s) (go OEnd)
      | OEnd => mkOst (oval s) (owg s) (olock s) (ofcount s) true (go ODone)
      | ODone => mkOst (oval s) (pred (owg s)) (olock s) (ofcount s) (ofdone s) (go ORetT)
      | OWait => if Nat.eqb (owg s) 0 then mkOst (oval s) (owg s) (olock s) (ofcount s) (ofdone s) (go ORetF) else s
      | ORetT | ORetF => s
      end
  end.

Definition oinit (n : nat) : ost := mkOst false 0 None 0 false (repeat OStart n).
Definition orun (s : ost) (sched : list nat) : ost := fold_left ostep sched s.
Definition oreturned (pc : opc) : bool := match pc with ORetT | ORetF => true | _ => false end.

(* the shape without the mutex (a plain Once extended by a WaitGroup): kept for refute/C18.v *)
Definition ostep_nolock (s : ost) (i : nat) : ost :=
  match nth_error (opcs s) i with
  | Some OStart => mkOst (oval s) (owg s) (olock s) (ofcount s) (ofdone s) (setp (opcs s) i OCas)
  | Some OUnlockW => mkOst (oval s) (owg s) (olock s) (ofcount s) (ofdone s) (setp (opcs s) i ORun)
  | Some OUnlockL => mkOst (oval s) (owg s) (olock s) (ofcount s) (ofdone s) (setp (opcs s) i OWait)
  | _ => ostep s i
  end.

(* ================= Pool =================
     Schedule: select { case p.work <- task ; case p.sem <- struct{}{}: go p.worker(task) }
     worker(task): task(); for t := range p.work { t() }; <-p.sem                          *)
Inductive wpc :=
| WRun (t : nat)      (* about to run task t *)
| WIdle               (* between tasks: receiving from p.work *)
| WExit               (* leaving: about to receive from p.sem *)
| WGone.              (* has left *)

Record pst := mkPst {
  psize : nat; pqueue : nat;       (* capacities of sem and work *)
  psem : nat;                      (* tokens in p.sem *)
  pwork : list nat;                (* p.work, oldest first *)
  pclosed : bool;
  pworkers : list wpc;             (* live worker goroutines *)
  pexec : list nat                 (* tasks executed, in order of completion *)
}.

Inductive pev :=
| PSchedQ (t : nat)                (* Schedule took the branch  p.work <- task  *)
| PSchedW (t : nat)                (* Schedule took the branch  p.sem <- {} ; go worker(task) *)
| PWorker (i : nat)                (* worker i makes a step *)
| PClose.

(* the result of an event: new state and whether the event was possible (a Schedule that can take
   neither branch blocks: not an event) *)
Definition pstep (s : pst) (e : pev) : option pst :=
  match e with
  | PSchedQ t =>
      if negb (pclosed s) && (length (pwork s) <? pqueue s)
      then Some (mkPst (psize s) (pqueue s) (psem s) (pwork s ++ [t]) false (pworkers s) (pexec s)) else None
  | PSchedW t =>
      if negb (pclosed s) && (psem s <? psize s)
      then Some (mkPst (psize s) (pqueue s) (S (psem s)) (pwork s) false (pworkers s ++ [WRun t]) (pexec s)) else None
  | PWorker i =>
      match nth_error (pworkers s) i with
      | Some (WRun t) => Some (mkPst (psize s) (pqueue s) (psem s) (pwork s) (pclosed s) (setp (pworkers s) i WIdle) (pexec s ++ [t]))
      | Some WIdle =>
          match pwork s with
          | t :: r => Some (mkPst (psize s) (pqueue s) (psem s) r (pclosed s) (setp (pworkers s) i (WRun t)) (pexec s))
          | [] => if pclosed s then Some (mkPst (psize s) (pqueue s) (psem s) [] true (setp (pworkers s) i WExit) (pexec s)) else None
          end
      | Some WExit => Some (mkPst (psize s) (pqueue s) (pred (psem s)) (pwork s) (pclosed s) (setp (pworkers s) i WGone) (pexec s))
      | Some WGone | None => None
      end
  | PClose => if pclosed s then None else Some (mkPst (psize s) (pqueue s) (psem s) (pwork s) true (pworkers s) (pexec s))
  end.

Definition pinit (size queue : nat) : pst := mkPst size queue 0 [] false [] [].

Fixpoint prun (s : pst) (es : list pev) : pst :=
  match es with
  | [] => s
  | e :: r => match pstep s e with Some s' => prun s' r | None => prun s r end
  end.

Definition wrunning (w : wpc) : list nat := match w with WRun t => [t] | _ => [] end.
Definition wlive (w : wpc) : bool := match w with WGone => false | _ => true end.
Definition accepted (es : list pev) (s0 : pst) : list nat :=
  (fix go (s : pst) (es : list pev) : list nat :=
     match es with
     | [] => []
     | e :: r =>
         match pstep s e with
         | Some s' => (match e with PSchedQ t | PSchedW t => [t] | _ => [] end) ++ go s' r
         | None => go s r
         end
     end) s0 es.
