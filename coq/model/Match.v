(* Match.v — SPECIFICATION of MQTT topic matching, written from the text of property C01 (not from
   the code): '+' = exactly one level, a trailing '#' = the parent level and all deeper levels, a
   topic whose first level starts with '$' is matched only by a filter with the same literal first
   level, and the filter '#' alone does not match a topic whose first level is empty. *)
From Coq Require Import List NArith Bool.
Import ListNotations.
From VMQ Require Import model.Trie.
Open Scope N_scope.

Fixpoint mlev (f t : list lvl) : bool :=
  match f, t with
  | [h], _ => if is_hash h then true
              else match t with
                   | [x] => is_plus h || lvl_eqb h x
                   | _ => false
                   end
  | [], [] => true
  | h :: f', x :: t' => (is_plus h || lvl_eqb h x) && mlev f' t'
  | _, _ => false
  end.

Definition matches (f t : list lvl) : bool :=
  match t with
  | x :: t' =>
      if is_dollar x then
        match f with h :: f' => lvl_eqb h x && mlev f' t' | [] => false end
      else if is_emptyl x then
        match f with [h] => if is_hash h then false else mlev f t | _ => mlev f t end
      else mlev f t
  | [] => mlev f t
  end.

(* the abstract subscription map after a history: (filter levels, session) -> params *)
Definition skey := (list lvl * N)%type.
Fixpoint path_eqb (a b : list lvl) : bool :=
  match a, b with
  | [], [] => true
  | x :: a', y :: b' => lvl_eqb x y && path_eqb a' b'
  | _, _ => false
  end.
Definition skey_eqb (a b : skey) : bool := path_eqb (fst a) (fst b) && (snd a =? snd b).

Definition abs_step (m : list (skey * sparams)) (o : op) : list (skey * sparams) :=
  match o with
  | OSub f s sp => ((split f, s), sp) :: filter (fun x => negb (skey_eqb (fst x) (split f, s))) m
  | OUnsub f s => filter (fun x => negb (skey_eqb (fst x) (split f, s))) m
  | ORetain _ _ _ _ => m
  end.
Definition abs_subs (h : list op) : list (skey * sparams) := fold_left abs_step h [].

(* who must receive a publish on topic t: one entry per matching subscription *)
Definition spec_deliver (m : list (skey * sparams)) (t : list lvl) : list (N * sparams) :=
  map (fun x => (snd (fst x), snd x)) (filter (fun x => matches (fst (fst x)) t) m).

(* specification of the retained store: last non-empty retained publish per topic *)
Definition abs_ret_step (m : list (list lvl * msg)) (o : op) : list (list lvl * msg) :=
  match o with
  | ORetain t mg e _ =>
      let m' := filter (fun x => negb (path_eqb (fst x) (split t))) m in
      if e then m' else (split t, mg) :: m'
  | _ => m
  end.
Definition abs_rets (h : list op) : list (list lvl * msg) := fold_left abs_ret_step h [].
