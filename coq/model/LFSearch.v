(* LFSearch.v — the lock-free SEARCH of topics/memlockfree/node.go (subscriptionRecurseSearch) beside the
   writers of LFProto.v.  The search takes no lock.  For a topic it visits every filter path that matches
   (literal levels, "+" and "#" are ordinary keys of the children maps): each such visit is a walk
   root -> ... -> node, one children.Load per level, followed by a Range over the node's subs.  The walks
   of one search share their common prefixes (the Load of a shared prefix is done once), which is the same
   as each walk reading the same values at the same instants: the reader below is ONE such walk, and the
   theorems quantify over its path, the writers and the schedule.
   subs.Range is not a snapshot, but sync.Map guarantees that a key which is present (absent) during the whole
   call is (is not) visited; the theorems are stated for exactly such keys, so reading the set in one step is
   faithful for them.  No proofs in this file. *)
From Coq Require Import List NArith ZArith Bool Arith.
Import ListNotations.
From VMQ Require Import model.LFProto.

Fixpoint walk (h : heap) (cur : nat) (p : list N) : option nat :=
  match p with
  | [] => Some cur
  | l :: r => match kid l (n_kids (getn h cur)) with Some c => walk h c r | None => None end
  end.
Definition node_at (h : heap) (p : list N) : option nat := walk h 0 p.
(* the subscribers registered at the literal path p *)
Definition subs_at (h : heap) (p : list N) : list N :=
  match node_at h p with Some n => n_subs (getn h n) | None => [] end.

Inductive rpc := RWalk (cur : nat) (rest : list N) | RDone (res : list N).

(* one atomic access of the reader *)
Definition rstep (h : heap) (r : rpc) : rpc :=
  match r with
  | RWalk cur [] => RDone (n_subs (getn h cur))
  | RWalk cur (l :: rest) =>
      match kid l (n_kids (getn h cur)) with Some c => RWalk c rest | None => RDone [] end
  | RDone res => RDone res
  end.

Inductive ev := W (i : nat) | R.

Definition step2 (x : cfg * rpc) (e : ev) : cfg * rpc :=
  match e with
  | W i => (step (fst x) i, snd x)
  | R => (fst x, rstep (hp (fst x)) (snd x))
  end.
Definition run2 (x : cfg * rpc) (es : list ev) : cfg * rpc := fold_left step2 es x.

Definition opath (o : opk) : list N := match o with OpIns p _ => p | OpRem p _ => p end.
Definition osub (o : opk) : N := match o with OpIns _ s => s | OpRem _ s => s end.
Definition is_rem (o : opk) : bool := match o with OpRem _ _ => true | _ => false end.
