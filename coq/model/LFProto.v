(* LFProto.v — the node protocol of topics/memlockfree/node.go as a small-step machine:
   leafInsertNode / subscriptionInsert, leafSearchNode / subscriptionRemove / nodesCleanup, one atomic
   access (sync.Map operation, atomic counter operation, WaitGroup operation, callback) per step, with
   an explicit scheduler (a schedule is a list of thread numbers).  Filters are literal paths here
   (wildcards play no part in the protocol; matching is C01's subject).
   [locked]: the repaired code takes the provider's structure mutex around every such operation.
   No proofs in this file. *)
From Coq Require Import List NArith ZArith Bool Arith.
Import ListNotations.

Record nd := mkNd {
  n_par : option nat;            (* parent node *)
  n_lev : N;                     (* its name in the parent's children map *)
  n_subs : list N;               (* subs (sync.Map): subscriber hashes *)
  n_kids : list (N * nat);       (* children (sync.Map) *)
  n_kc : Z;                      (* kidsCount *)
  n_sc : Z;                      (* subsCount *)
  n_ret : bool;                  (* a retained message is stored *)
  n_rem : bool;                  (* remove flag *)
  n_wg : Z                       (* wgDeleted counter *)
}.

Definition heap := list nd.      (* node number = position; the root is node 0 *)
Definition root_nd : nd := mkNd None 0%N [] [] 0 0 false false 0.
Definition heap0 : heap := [root_nd].

Definition getn (h : heap) (i : nat) : nd := nth i h root_nd.
Fixpoint setn (h : heap) (i : nat) (x : nd) : heap :=
  match h, i with
  | [], _ => []
  | _ :: t, O => x :: t
  | y :: t, S j => y :: setn t j x
  end.

Definition upd (h : heap) (i : nat) (f : nd -> nd) : heap := setn h i (f (getn h i)).

Fixpoint kid (l : N) (ks : list (N * nat)) : option nat :=
  match ks with [] => None | (x, c) :: r => if N.eqb x l then Some c else kid l r end.
Definition delkid (l : N) (ks : list (N * nat)) := filter (fun x => negb (N.eqb (fst x) l)) ks.

Definition with_kc (d : Z) (x : nd) := mkNd (n_par x) (n_lev x) (n_subs x) (n_kids x) (n_kc x + d) (n_sc x) (n_ret x) (n_rem x) (n_wg x).
Definition with_sc (d : Z) (x : nd) := mkNd (n_par x) (n_lev x) (n_subs x) (n_kids x) (n_kc x) (n_sc x + d) (n_ret x) (n_rem x) (n_wg x).
Definition with_subs (s : list N) (x : nd) := mkNd (n_par x) (n_lev x) s (n_kids x) (n_kc x) (n_sc x) (n_ret x) (n_rem x) (n_wg x).
Definition with_kids (k : list (N * nat)) (x : nd) := mkNd (n_par x) (n_lev x) (n_subs x) k (n_kc x) (n_sc x) (n_ret x) (n_rem x) (n_wg x).
Definition with_mark (x : nd) := mkNd (n_par x) (n_lev x) (n_subs x) (n_kids x) (n_kc x) (n_sc x) (n_ret x) true (n_wg x + 1).
Definition with_done (x : nd) := mkNd (n_par x) (n_lev x) (n_subs x) (n_kids x) (n_kc x) (n_sc x) (n_ret x) (n_rem x) (n_wg x - 1).

Inductive opk := OpIns (path : list N) (s : N) | OpRem (path : list N) (s : N).

Inductive pc :=
| PStart
(* subscriptionInsert *)
| PInsInc (cur : nat) (rest : list N)            (* atomic.AddInt32(&root.kidsCount, 1) *)
| PInsLoad (cur : nat) (rest : list N)           (* root.children.LoadOrStore(level, newNode(root)) *)
| PInsDec (cur c : nat) (rest : list N)          (* found: atomic.AddInt32(&root.kidsCount, -1) *)
| PInsChk (cur c : nat) (rest : list N)          (* atomic.LoadInt32(&n.remove) *)
| PInsWait (cur c : nat) (rest : list N)         (* n.wgDeleted.Wait(), then the level is tried again *)
| PInsStore (leaf : nat)                         (* sub.Hash(); leaf.subs.LoadOrStore *)
| PInsCnt (leaf : nat)                           (* atomic.AddInt32(&leaf.subsCount, 1) *)
(* subscriptionRemove *)
| PRemWalk (cur : nat) (rest : list N)           (* root.children.Load(token) *)
| PRemLoad (leaf : nat)                          (* sub.Hash(); leaf.subs.Load *)
| PRemDec (leaf : nat)                           (* atomic.AddInt32(&leaf.subsCount, -1) *)
| PRemDel (leaf : nat)                           (* sub.Hash(); leaf.subs.Delete *)
(* nodesCleanup *)
| PClnChk (n : nat)                              (* the three loads of the condition *)
| PClnMark (n : nat)                             (* wgDeleted.Add(1); atomic.StoreInt32(&remove, 1) *)
| PClnCb (n : nat)                               (* onCleanUnsubscribe *)
| PClnUnlink (n : nat)                           (* parent.children.Delete(level) *)
| PClnDecP (n : nat)                             (* atomic.AddInt32(&parent.kidsCount, -1) *)
| PClnDone (n : nat)                             (* wgDeleted.Done(); leafNode = leafNode.parent *)
| PDone.

Definition is_done (p : pc) : bool := match p with PDone => true | _ => false end.

Definition first_pc (o : opk) : pc :=
  match o with
  | OpIns [] _ => PInsStore 0
  | OpIns p _ => PInsInc 0 p
  | OpRem p _ => PRemWalk 0 p
  end.

Definition descend (c : nat) (rest : list N) : pc :=
  match rest with [] => PInsStore c | _ => PInsInc c rest end.

Definition has (s : N) (l : list N) : bool := existsb (N.eqb s) l.

(* one atomic access of a thread that is inside its operation; None = the thread cannot move now *)
Definition local_step (h : heap) (o : opk) (p : pc) : option (heap * pc) :=
  let s := match o with OpIns _ s => s | OpRem _ s => s end in
  match p with
  | PStart | PDone => None
  | PInsInc cur rest => Some (upd h cur (with_kc 1), PInsLoad cur rest)
  | PInsLoad cur rest =>
      match rest with
      | [] => Some (h, PInsStore cur)
      | l :: rest' =>
          match kid l (n_kids (getn h cur)) with
          | Some c => Some (h, PInsDec cur c rest)
          | None =>
              let c := length h in
              let h1 := upd h cur (fun x => with_kids (n_kids x ++ [(l, c)]) x) in
              Some (h1 ++ [mkNd (Some cur) l [] [] 0 0 false false 0], descend c rest')
          end
      end
  | PInsDec cur c rest => Some (upd h cur (with_kc (-1)), PInsChk cur c rest)
  | PInsChk cur c rest =>
      if n_rem (getn h c) then Some (h, PInsWait cur c rest)
      else Some (h, descend c (tl rest))
  | PInsWait cur c rest => if (n_wg (getn h c) =? 0)%Z then Some (h, PInsInc cur rest) else None
  | PInsStore leaf =>
      if has s (n_subs (getn h leaf)) then Some (h, PDone)
      else Some (upd h leaf (fun x => with_subs (n_subs x ++ [s]) x), PInsCnt leaf)
  | PInsCnt leaf => Some (upd h leaf (with_sc 1), PDone)
  | PRemWalk cur rest =>
      match rest with
      | [] => Some (h, PRemLoad cur)
      | l :: rest' =>
          match kid l (n_kids (getn h cur)) with
          | Some c => Some (h, PRemWalk c rest')
          | None => Some (h, PDone)
          end
      end
  | PRemLoad leaf => if has s (n_subs (getn h leaf)) then Some (h, PRemDec leaf) else Some (h, PClnChk leaf)
  | PRemDec leaf => Some (upd h leaf (with_sc (-1)), PRemDel leaf)
  | PRemDel leaf => Some (upd h leaf (fun x => with_subs (filter (fun y => negb (N.eqb y s)) (n_subs x)) x), PClnChk leaf)
  | PClnChk n =>
      let x := getn h n in
      if (n_sc x =? 0)%Z && (n_kc x =? 0)%Z && negb (n_ret x) then Some (h, PClnMark n) else Some (h, PDone)
  | PClnMark n => Some (upd h n with_mark, PClnCb n)
  | PClnCb n => Some (h, match n_par (getn h n) with Some _ => PClnUnlink n | None => PClnDone n end)
  | PClnUnlink n =>
      match n_par (getn h n) with
      | Some q => Some (upd h q (fun x => with_kids (delkid (n_lev (getn h n)) (n_kids x)) x), PClnDecP n)
      | None => Some (h, PClnDone n)
      end
  | PClnDecP n =>
      match n_par (getn h n) with
      | Some q => Some (upd h q (with_kc (-1)), PClnDone n)
      | None => Some (h, PClnDone n)
      end
  | PClnDone n =>
      Some (upd h n with_done, match n_par (getn h n) with Some q => PClnChk q | None => PDone end)
  end.

Record cfg := mkCfg { hp : heap; thr : list (opk * pc); lock : option nat; locked : bool }.

Fixpoint set_thr (l : list (opk * pc)) (i : nat) (p : pc) : list (opk * pc) :=
  match l, i with
  | [], _ => []
  | (o, _) :: t, O => (o, p) :: t
  | x :: t, S j => x :: set_thr t j p
  end.

(* thread i makes one step (or nothing happens: it is finished, blocked on the mutex, or waiting) *)
Definition step (c : cfg) (i : nat) : cfg :=
  match nth_error (thr c) i with
  | None => c
  | Some (o, p) =>
      match p with
      | PDone => c
      | PStart =>
          if locked c then
            match lock c with
            | None => mkCfg (hp c) (set_thr (thr c) i (first_pc o)) (Some i) true
            | Some _ => c
            end
          else mkCfg (hp c) (set_thr (thr c) i (first_pc o)) (lock c) false
      | _ =>
          match local_step (hp c) o p with
          | None => c
          | Some (h', p') =>
              mkCfg h' (set_thr (thr c) i p') (if is_done p' && locked c then None else lock c) (locked c)
          end
      end
  end.

Definition run (c : cfg) (sched : list nat) : cfg := fold_left step sched c.

Definition all_done (c : cfg) : bool := forallb (fun x => is_done (snd x)) (thr c).

(* what a search walk finds at a literal path, at quiescence *)
Fixpoint find (fuel : nat) (h : heap) (cur : nat) (p : list N) : list N :=
  match p with
  | [] => n_subs (getn h cur)
  | l :: r => match fuel with
              | O => []
              | S f => match kid l (n_kids (getn h cur)) with Some c => find f h c r | None => [] end
              end
  end.
Definition receivers (c : cfg) (p : list N) : list N := find (S (length p)) (hp c) 0 p.

(* running one operation alone to its end (fuel: number of steps allowed) *)
Fixpoint solo (fuel : nat) (h : heap) (o : opk) (p : pc) : heap :=
  match fuel with
  | O => h
  | S f => match local_step h o p with Some (h', p') => solo f h' o p' | None => h end
  end.
Definition apply_op (h : heap) (o : opk) : heap := solo 200 h o (first_pc o).
Definition start (is_locked : bool) (h : heap) (ops : list opk) : cfg :=
  mkCfg h (map (fun o => (o, PStart)) ops) None is_locked.
