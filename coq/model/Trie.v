(* Trie.v — the topic index: topics/memlockfree/node.go and topics/mem/node.go executed one
   operation at a time (both have the same sequential semantics once the lock-free counters are
   read as "number of subscriptions / children").  A level is the byte string between two '/'.
   No proofs in this file. *)
From Coq Require Import List NArith ZArith Bool.
Import ListNotations.
Open Scope N_scope.

Definition lvl := list N.

Fixpoint lvl_eqb (a b : lvl) : bool :=
  match a, b with
  | [], [] => true
  | x :: a', y :: b' => (x =? y) && lvl_eqb a' b'
  | _, _ => false
  end.

Definition LPlus : lvl := [43].
Definition LHash : lvl := [35].
Definition is_plus (l : lvl) : bool := lvl_eqb l LPlus.
Definition is_hash (l : lvl) : bool := lvl_eqb l LHash.
Definition is_dollar (l : lvl) : bool := match l with 36 :: _ => true | _ => false end.  (* strings.HasPrefix(level, "$") *)
Definition is_emptyl (l : lvl) : bool := match l with [] => true | _ => false end.

(* strings.Split(s, "/") *)
Fixpoint split_aux (cur : lvl) (s : list N) : list lvl :=
  match s with
  | [] => [rev cur]
  | c :: r => if c =? 47 then rev cur :: split_aux [] r else split_aux (c :: cur) r
  end.
Definition split (s : list N) : list lvl := split_aux [] s.

Record sparams := mkSP { sp_qos : N; sp_nl : bool; sp_rap : bool; sp_rh : N; sp_id : N }.
Record msg := mkMsg { m_tag : N; m_qos : N; m_expired : bool }.

Inductive node := Node (subs : list (N * sparams)) (ret : option msg) (kids : list (lvl * node)).

Definition nsubs (n : node) := match n with Node s _ _ => s end.
Definition nret (n : node) := match n with Node _ r _ => r end.
Definition nkids (n : node) := match n with Node _ _ k => k end.
Definition empty_node : node := Node [] None [].
Definition is_empty (n : node) : bool :=
  match n with Node [] None [] => true | _ => false end.

Fixpoint findk (l : lvl) (ks : list (lvl * node)) : option node :=
  match ks with
  | [] => None
  | (l', c) :: r => if lvl_eqb l l' then Some c else findk l r
  end.
Fixpoint setk (l : lvl) (c : node) (ks : list (lvl * node)) : list (lvl * node) :=
  match ks with
  | [] => [(l, c)]
  | (l', c') :: r => if lvl_eqb l l' then (l, c) :: r else (l', c') :: setk l c r
  end.
Fixpoint delk (l : lvl) (ks : list (lvl * node)) : list (lvl * node) :=
  match ks with
  | [] => []
  | (l', c') :: r => if lvl_eqb l l' then r else (l', c') :: delk l r
  end.

Definition has_sub (s : N) (ss : list (N * sparams)) : bool := existsb (fun x => fst x =? s) ss.
Definition set_sub (s : N) (p : sparams) (ss : list (N * sparams)) :=
  (s, p) :: filter (fun x => negb (fst x =? s)) ss.
Definition del_sub (s : N) (ss : list (N * sparams)) := filter (fun x => negb (fst x =? s)) ss.

(* ---- leafInsertNode + subs.LoadOrStore : returns the new tree and "already existed" ---- *)
Fixpoint insert (p : list lvl) (s : N) (sp : sparams) (n : node) : node * bool :=
  match p with
  | [] => (Node (set_sub s sp (nsubs n)) (nret n) (nkids n), has_sub s (nsubs n))
  | l :: p' =>
      let c := match findk l (nkids n) with Some c => c | None => empty_node end in
      let '(c', ex) := insert p' s sp c in
      (Node (nsubs n) (nret n) (setk l c' (nkids n)), ex)
  end.

(* ---- subscriptionRemove + nodesCleanup : new tree and "found" ---- *)
Fixpoint remove (p : list lvl) (s : N) (n : node) : node * bool :=
  match p with
  | [] => (Node (del_sub s (nsubs n)) (nret n) (nkids n), has_sub s (nsubs n))
  | l :: p' =>
      match findk l (nkids n) with
      | None => (n, false)                                      (* leafSearchNode fails: ErrNotFound, nothing touched *)
      | Some c =>
          let '(c', found) := remove p' s c in
          (Node (nsubs n) (nret n) (if is_empty c' then delk l (nkids n) else setk l c' (nkids n)), found)
      end
  end.

(* ---- retainInsert / retainRemove ---- *)
Fixpoint ret_insert (p : list lvl) (m : msg) (n : node) : node :=
  match p with
  | [] => Node (nsubs n) (Some m) (nkids n)
  | l :: p' =>
      let c := match findk l (nkids n) with Some c => c | None => empty_node end in
      Node (nsubs n) (nret n) (setk l (ret_insert p' m c) (nkids n))
  end.
Fixpoint ret_remove (p : list lvl) (n : node) : node :=
  match p with
  | [] => Node (nsubs n) None (nkids n)
  | l :: p' =>
      match findk l (nkids n) with
      | None => n
      | Some c =>
          let c' := ret_remove p' c in
          Node (nsubs n) (nret n) (if is_empty c' then delk l (nkids n) else setk l c' (nkids n))
      end
  end.
(* provider.retain: empty payload removes; otherwise overwrites.  A QoS 0 publish is "discard what was retained,
   then store the new one" [MQTT-3.3.1-7]: topics/mem does the two steps under its one lock ([overwrite] = false);
   the lock-free index, whose readers take no lock, stores the new message over the old one in ONE step
   ([overwrite] = true) - between a remove and an insert its readers would find the topic without a message *)
Definition retain (p : list lvl) (m : msg) (empty_payload overwrite : bool) (n : node) : node :=
  if empty_payload then ret_remove p n
  else if (m_qos m =? 0) && negb overwrite then ret_insert p m (ret_remove p n)
  else ret_insert p m n.

(* ---- subscriptionSearch ---- *)
Definition hash_subs (n : node) : list (N * sparams) :=
  match findk LHash (nkids n) with Some h => nsubs h | None => [] end.

Fixpoint search (atroot : bool) (t : list lvl) (n : node) : list (N * sparams) :=
  match t with
  | [] => nsubs n ++ hash_subs n
  | l :: t' =>
      (if atroot && is_emptyl l then [] else hash_subs n)
      ++ (match findk l (nkids n) with Some c => search false t' c | None => [] end)
      ++ (match findk LPlus (nkids n) with Some c => search false t' c | None => [] end)
  end.

Definition search_top (t : list lvl) (root : node) : list (N * sparams) :=
  match t with
  | l :: t' => if is_dollar l
               then match findk l (nkids root) with Some c => search false t' c | None => [] end
               else search true t root
  | [] => search true t root
  end.

(* ---- retainSearch ---- *)
Definition live_ret (n : node) : list msg :=
  match nret n with Some m => if m_expired m then [] else [m] | None => [] end.

Fixpoint all_ret (fuel : nat) (n : node) : list msg :=
  match fuel with
  | O => []
  | S k => live_ret n ++ flat_map (fun kc => all_ret k (snd kc)) (nkids n)
  end.

Fixpoint depth (n : node) : nat :=
  match n with Node _ _ ks => S (fold_right (fun kc acc => Nat.max (depth (snd kc)) acc) 0%nat ks) end.

Definition all_retained (n : node) : list msg := all_ret (depth n) n.

Fixpoint ret_search (atroot : bool) (f : list lvl) (n : node) : list msg :=
  match f with
  | [] => live_ret n ++ match findk LHash (nkids n) with Some h => all_retained h | None => [] end
  | l :: f' =>
      if is_hash l then all_retained n
      else if is_plus l then
        flat_map (fun kc => if atroot && is_dollar (fst kc) then [] else ret_search false f' (snd kc)) (nkids n)
      else match findk l (nkids n) with Some c => ret_search false f' c | None => [] end
  end.

Definition ret_search_top (f : list lvl) (root : node) : list msg :=
  match f with
  | l :: f' =>
      if is_hash l then
        flat_map (fun kc => if is_emptyl (fst kc) || is_dollar (fst kc) then [] else all_retained (snd kc)) (nkids root)
      else if is_dollar l then
        match findk l (nkids root) with Some c => ret_search false f' c | None => [] end
      else ret_search true f root
  | [] => ret_search true f root
  end.

(* ---- histories ---- *)
Inductive op :=
| OSub (f : list N) (s : N) (sp : sparams)
| OUnsub (f : list N) (s : N)
| ORetain (t : list N) (m : msg) (empty_payload overwrite : bool).

Definition step (n : node) (o : op) : node :=
  match o with
  | OSub f s sp => fst (insert (split f) s sp n)
  | OUnsub f s => fst (remove (split f) s n)
  | ORetain t m e ow => retain (split t) m e ow n
  end.
Definition run (h : list op) : node := fold_left step h empty_node.
