(* Route.v — routing workers of topics/memlockfree/topics.go as a labelled transition system.
   [n] worker goroutines take messages from one FIFO channel ([inbound]); the worker that took
   message m hands it, one subscriber at a time, to the matching subscribers ([dest m]), each of
   which appends it to its own FIFO (subscriber.Publish -> writer queue Add, atomic under the
   queue mutex).  [log] records the hand-overs in the order they happen.  No proofs here. *)
From Coq Require Import List Arith Bool.
Import ListNotations.

Section Route.
  Context {M Sb : Type}.
  Variable dest : M -> list Sb.
  Variable seqb : Sb -> Sb -> bool.

  Definition wstate := option (M * list Sb).     (* None = idle; Some (m, still to serve) *)

  Record st := mkSt { inbound : list M; ws : list wstate; log : list (Sb * M) }.

  Inductive label := Take (w : nat) | Deliver (w : nat).

  Fixpoint set_nth {A} (l : list A) (i : nat) (x : A) : list A :=
    match l, i with
    | [], _ => []
    | _ :: r, O => x :: r
    | y :: r, S j => y :: set_nth r j x
    end.

  Definition norm (m : M) (rest : list Sb) : wstate :=
    match rest with [] => None | _ => Some (m, rest) end.

  Definition step (s : st) (l : label) : option st :=
    match l with
    | Take w =>
        match nth_error (ws s) w, inbound s with
        | Some None, m :: r => Some (mkSt r (set_nth (ws s) w (norm m (dest m))) (log s))
        | _, _ => None
        end
    | Deliver w =>
        match nth_error (ws s) w with
        | Some (Some (m, d :: rest)) =>
            Some (mkSt (inbound s) (set_nth (ws s) w (norm m rest)) (log s ++ [(d, m)]))
        | _ => None
        end
    end.

  Fixpoint run (s : st) (ls : list label) : option st :=
    match ls with
    | [] => Some s
    | l :: r => match step s l with Some s' => run s' r | None => None end
    end.

  Definition init (n : nat) (msgs : list M) : st := mkSt msgs (repeat None n) [].

  (* what subscriber x has been handed, in order *)
  Definition queue_of (x : Sb) (lg : list (Sb * M)) : list M :=
    map snd (filter (fun p => seqb x (fst p)) lg).

  (* what subscriber x must eventually be handed for a list of published messages, in order *)
  Definition copies (x : Sb) (m : M) (d : list Sb) : list M :=
    map (fun _ => m) (filter (seqb x) d).
  Definition expected (x : Sb) (msgs : list M) : list M :=
    flat_map (fun m => copies x m (dest m)) msgs.
End Route.

Arguments mkSt {M Sb}.
