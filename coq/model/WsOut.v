(* WsOut.v — the WRITING side of a WebSocket connection (transport/websocket.go wsConn.Write and the control-frame
   answers of wsConn.Read): two goroutines put frames on one socket.  A frame is a header (opcode, length) and a payload;
   what reaches the socket is the concatenation of the UNITS the goroutines write, in some interleaving.  With the
   write lock a unit is a whole frame; without it a data frame is two units (header, payload).  No proofs in this file. *)
From Coq Require Import List NArith Bool.
Import ListNotations.
Local Open Scope N_scope.

Record frame := mkF { f_op : N; f_payload : list N }.

Definition header (f : frame) : list N := [f_op f; N.of_nat (length (f_payload f))].
Definition whole (f : frame) : list N := header f ++ f_payload f.
(* the two writes of wsutil.WriteServerBinary *)
Definition split (f : frame) : list (list N) := [header f; f_payload f].

(* what the client's frame reader makes of a byte stream (fuel: one unit per frame) *)
Fixpoint parse (fuel : nat) (bs : list N) : option (list frame) :=
  match fuel with
  | O => match bs with [] => Some [] | _ => None end
  | S k =>
      match bs with
      | [] => Some []
      | op :: r0 =>
          match r0 with
          | [] => None
          | len :: r =>
              let n := N.to_nat len in
              if Nat.ltb (length r) n then None
              else match parse k (skipn n r) with
                   | Some fs => Some (mkF op (firstn n r) :: fs)
                   | None => None
                   end
          end
      end
  end.

(* interleavings of the units of two writers *)
Inductive Interleave {A} : list A -> list A -> list A -> Prop :=
| IL_nil : Interleave [] [] []
| IL_left x a b l : Interleave a b l -> Interleave (x :: a) b (x :: l)
| IL_right y a b l : Interleave a b l -> Interleave a (y :: b) (y :: l).

Definition small (f : frame) : Prop := (length (f_payload f) < 256)%nat.

(* ---- the order of the accesses in the two Write functions of transport/websocket.go (the control-frame writer handed to
   the frame reader, and the connection's own Write), in the token language of tools/goextract (callOrder);
   gen/Extracted.v (ws_shape) is re-read from the source on every run ---- *)
From Coq Require Import String.
From VMQ Require Import model.LFShape.
Open Scope string_scope.
Definition wshape : list (string * list string) := [
  (* the PONG writer: lock, (deferred) unlock, one write;  the data writer: lock, the two writes of a frame, unlock *)
  ("Write", [".wmu.Lock"; ".wmu.Unlock"; ".Conn.Write"; ".wmu.Lock"; "wsutil.WriteServerBinary"; ".wmu.Unlock"])
].
Definition wshape_diff (extracted : list (string * list string)) : list (string * option (list string)) :=
  flat_map (fun kv => match lookup (fst kv) extracted with
                      | Some v => if toks_eqb v (snd kv) then [] else [(fst kv, Some v)]
                      | None => [(fst kv, None)]
                      end) wshape.
Definition wshape_ok (extracted : list (string * list string)) : bool :=
  match wshape_diff extracted with [] => Nat.eqb (List.length extracted) (List.length wshape) | _ => false end.
Close Scope string_scope.
