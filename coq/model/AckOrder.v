(* AckOrder.v — the acknowledgement of an outbound delivery against the writer's pop, one atomic access per step:
   connection/ack.go ackQueue.release (the entry of the unacknowledged set, the release callback),
   connection/writer.go onReleaseOut -> releaseID -> flow.release, qos12PopPacket (flow.acquire, pubOut.store).
   The reader goroutine runs the acknowledgement, the writer goroutine the pop: any interleaving.
   variant 0 = the repaired order (entry first, then the identifier), 1 = the order the code had.
   Identifier allocation is model/Flow.v's.  No proofs in this file. *)
From Coq Require Import List NArith ZArith Bool.
Import ListNotations.
From VMQ Require Import model.Flow.
Open Scope N_scope.

Inductive apc := AIdle | AFirst (id : N) | ASecond (id : N).

Record ast := mkA {
  reg : list (N * N);      (* the unacknowledged set: identifier -> message tag *)
  afl : flow;              (* send quota, identifiers in use, last identifier issued *)
  aq : list N;             (* messages waiting for their first transmission *)
  apcs : apc               (* where the acknowledgement in progress (if any) stands *)
}.

Definition reg_del (id : N) (r : list (N * N)) := filter (fun x => negb (fst x =? id)) r.
Definition reg_has (id : N) (r : list (N * N)) := existsb (fun x => fst x =? id) r.
Definition reg_put (id t : N) (r : list (N * N)) := reg_del id r ++ [(id, t)].   (* sync.Map Store *)

Inductive aev :=
| AckBegin (id : N)   (* an acknowledgement for id arrives: messages.Load(id) *)
| AckStep             (* the next of its two accesses *)
| Pop.                (* the writer: acquire an identifier for the head of the queue and register it *)

Definition astep (variant : nat) (s : ast) (e : aev) : ast :=
  match e with
  | AckBegin id =>
      match apcs s with
      | AIdle => if reg_has id (reg s) then mkA (reg s) (afl s) (aq s) (AFirst id) else s
      | _ => s
      end
  | AckStep =>
      match variant, apcs s with
      | 0%nat, AFirst id => mkA (reg_del id (reg s)) (afl s) (aq s) (ASecond id)          (* LoadAndDelete *)
      | 0%nat, ASecond id => mkA (reg s) (release (afl s) id) (aq s) AIdle                   (* onRelease *)
      | _, AFirst id => mkA (reg s) (release (afl s) id) (aq s) (ASecond id)                (* onRelease first *)
      | _, ASecond id => mkA (reg_del id (reg s)) (afl s) (aq s) AIdle                       (* Delete afterwards *)
      | _, AIdle => s
      end
  | Pop =>
      match aq s with
      | [] => s
      | t :: r =>
          match acquire (afl s) with
          | Ok (id, f) => mkA (reg_put id t (reg s)) f r (apcs s)
          | _ => s
          end
      end
  end.

Definition arun (variant : nat) (s : ast) (es : list aev) : ast := fold_left (astep variant) es s.

(* a connection with Receive Maximum rm that starts with the messages [unacked] re-acquired under their old
   identifiers (what packetLoader does at reconnect: the identifier counter stays at 0) and [waiting] queued *)
Definition astart (rm : Z) (unacked : list (N * N)) (waiting : list N) : ast :=
  mkA unacked (mkFlow (rm - Z.of_nat (length unacked)) (map fst unacked) 0) waiting AIdle.

(* ---- the order of the accesses in the Go functions the events stand for, in the token language of
   tools/goextract (callOrder); gen/Extracted.v (ack_shape) is re-read from the source on every run ---- *)
From Coq Require Import String.
From VMQ Require Import model.LFShape.
Open Scope string_scope.
Definition ashape : list (string * list string) := [
  (* AckStep/AFirst = messages.LoadAndDelete, AckStep/ASecond = the release callback *)
  ("release", [".messages.LoadAndDelete"; ".onRelease"]);
  (* the callback gives the identifier back *)
  ("releaseID", [".flow.release"]);
  (* Pop = acquire an identifier, take the message off the queue, register it *)
  ("qos12PopPacket", [".flow.quotaAvailable"; ".flow.acquire"; ".qos12Messages.Remove"; ".pubOut.store"])
].
Definition ashape_diff (extracted : list (string * list string)) : list (string * option (list string)) :=
  flat_map (fun kv => match lookup (fst kv) extracted with
                      | Some v => if toks_eqb v (snd kv) then [] else [(fst kv, Some v)]
                      | None => [(fst kv, None)]
                      end) ashape.
Definition ashape_ok (extracted : list (string * list string)) : bool :=
  match ashape_diff extracted with [] => Nat.eqb (List.length extracted) (List.length ashape) | _ => false end.
Close Scope string_scope.
