(* Queue.v — types/queue.go: ring buffer with power-of-two capacity, grow at full, shrink at 1/4.
   Cells hold values of type A; [nilv] is Go's nil (an emptied cell).  Every method of the Go type
   holds the queue's mutex for its whole body, so each function below is one atomic operation.
   No proofs in this file. *)
From Coq Require Import List Arith ZArith Bool.
Import ListNotations.
From VMQ Require Import gen.Extracted.
Local Open Scope nat_scope.
Local Open Scope bool_scope.

Section Queue.
  Context {A : Type}.
  Variable nilv : A.

  Record queue := mkQ { buf : list A; head : nat; tail : nat; count : nat }.

  Definition min_len : nat := Z.to_nat min_queue_len.          (* minQueueLen, from the source *)

  Definition new_queue : queue := mkQ (repeat nilv min_len) 0 0 0.

  Fixpoint upd (i : nat) (v : A) (l : list A) : list A :=
    match l, i with
    | [], _ => []
    | _ :: r, O => v :: r
    | y :: r, S j => y :: upd j v r
    end.

  Definition cap (q : queue) : nat := length (buf q).
  Definition mask (q : queue) (i : nat) : nat := Nat.land i (cap q - 1).    (* i & (len(buf)-1) *)

  (* resize(): newBuf := make(count<<1); copy the live range; head = 0; tail = count *)
  Definition resize (q : queue) : queue :=
    let live := if Nat.ltb (head q) (tail q)
                then firstn (tail q - head q) (skipn (head q) (buf q))
                else skipn (head q) (buf q) ++ firstn (tail q) (buf q) in
    let n := 2 * count q in
    mkQ (firstn n (live ++ repeat nilv n)) 0 (count q) (count q).

  Definition add (q : queue) (x : A) : queue :=
    let q1 := if Nat.eqb (count q) (cap q) then resize q else q in
    mkQ (upd (tail q1) x (buf q1)) (head q1) (mask q1 (tail q1 + 1)) (count q1 + 1).

  Definition peek (q : queue) : option A :=
    if Nat.eqb (count q) 0 then None else Some (nth (head q) (buf q) nilv).

  Definition remove (q : queue) : option A * queue :=
    if Nat.eqb (count q) 0 then (None, q) else
    let ret := nth (head q) (buf q) nilv in
    let q1 := mkQ (upd (head q) nilv (buf q)) (mask q (head q + 1)) (tail q) (count q - 1) in
    let q2 := if Nat.ltb min_len (cap q1) && Nat.eqb (4 * count q1) (cap q1) then resize q1 else q1 in
    (Some ret, q2).

  (* Get(i): negative indices count from the end; out of range panics (None) *)
  Definition get (q : queue) (i : Z) : option A :=
    let i' := if (i <? 0)%Z then (i + Z.of_nat (count q))%Z else i in
    if ((i' <? 0) || (Z.of_nat (count q) <=? i'))%Z then None
    else Some (nth (mask q (head q + Z.to_nat i')) (buf q) nilv).

  Inductive op := OAdd (x : A) | ORemove | OPeek | OLength | OGet (i : Z).
  Inductive out := RNone | RVal (x : A) | RNil | RLen (n : nat) | RPanic.

  Definition step (q : queue) (o : op) : queue * out :=
    match o with
    | OAdd x => (add q x, RNone)
    | ORemove => let '(r, q') := remove q in (q', match r with Some x => RVal x | None => RNil end)
    | OPeek => (q, match peek q with Some x => RVal x | None => RNil end)
    | OLength => (q, RLen (count q))
    | OGet i => (q, match get q i with Some x => RVal x | None => RPanic end)
    end.

  Fixpoint run (q : queue) (os : list op) : queue * list out :=
    match os with
    | [] => (q, [])
    | o :: r => let '(q1, x) := step q o in let '(q2, xs) := run q1 r in (q2, x :: xs)
    end.

  (* ---- the specification: a plain list FIFO ---- *)
  Definition spec_step (l : list A) (o : op) : list A * out :=
    match o with
    | OAdd x => (l ++ [x], RNone)
    | ORemove => match l with [] => ([], RNil) | x :: r => (r, RVal x) end
    | OPeek => (l, match l with [] => RNil | x :: _ => RVal x end)
    | OLength => (l, RLen (length l))
    | OGet i =>
        let i' := if (i <? 0)%Z then (i + Z.of_nat (length l))%Z else i in
        (l, if ((i' <? 0) || (Z.of_nat (length l) <=? i'))%Z then RPanic else RVal (nth (Z.to_nat i') l nilv))
    end.
  Fixpoint spec_run (l : list A) (os : list op) : list A * list out :=
    match os with
    | [] => (l, [])
    | o :: r => let '(l1, x) := spec_step l o in let '(l2, xs) := spec_run l1 r in (l2, x :: xs)
    end.

  (* abstraction: the live cells in queue order *)
  Definition rot (h : nat) (l : list A) : list A := skipn h l ++ firstn h l.
  Definition abs (q : queue) : list A := firstn (count q) (rot (head q) (buf q)).
End Queue.
