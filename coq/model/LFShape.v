(* LFShape.v — the order of atomic accesses (and the conditions that read shared state) in the functions of
   topics/memlockfree/node.go that model/LFProto.v and model/LFSearch.v were written against, in the token
   language of tools/goextract (accessShape).  The translator re-reads node.go on every run (gen/Extracted.v,
   lf_shape); props/C09.v requires the two to be equal.  Program counters of LFProto next to their access. *)
From Coq Require Import List String.
Import ListNotations.
Open Scope string_scope.

Definition shape : list (string * list string) := [
  ("leafInsertNode",
     ["add kidsCount 1";             (* PInsInc   *)
      "children.LoadOrStore";        (* PInsLoad  *)
      "add kidsCount -1";            (* PInsDec   *)
      "if (load remove == 1)"; "load remove";   (* PInsChk *)
      "wg.Wait"]);                   (* PInsWait, then the level is tried again *)
  ("leafSearchNode", ["children.Load"]);            (* PRemWalk *)
  ("subscriptionInsert",
     ["call leafInsertNode";
      "subs.LoadOrStore";            (* PInsStore *)
      "add subsCount 1"]);           (* PInsCnt   *)
  ("subscriptionRemove",
     ["call leafSearchNode";
      "subs.Range"; "add subsCount -1"; "subs.Delete";     (* sub == nil: remove all (not used by the broker's sessions) *)
      "subs.Load";                   (* PRemLoad *)
      "add subsCount -1";            (* PRemDec  *)
      "subs.Delete";                 (* PRemDel  *)
      "call nodesCleanup"]);
  ("nodesCleanup",
     ["if (((load subsCount == 0) && (load kidsCount == 0)) && (retained.Load.val == nil))";
      "load subsCount"; "load kidsCount"; "retained.Load";  (* PClnChk *)
      "wg.Add"; "store remove 1";    (* PClnMark *)
      "callback";                    (* PClnCb   *)
      "children.Delete";             (* PClnUnlink *)
      "add kidsCount -1";            (* PClnDecP *)
      "wg.Done"]);                   (* PClnDone, then the parent *)
  (* the search: a children.Load per level and key ("#", the literal level, "+"), the subscribers of the nodes reached *)
  ("subscriptionRecurseSearch",
     ["call nodeSubscribers"; "children.Load"; "call nodeSubscribers";
      "children.Load"; "call nodeSubscribers";
      "children.Load"; "call subscriptionRecurseSearch";
      "children.Load"; "call subscriptionRecurseSearch"]);
  ("subscriptionSearch", ["call subscriptionRecurseSearch"; "children.Load"; "call subscriptionRecurseSearch"])
].

(* the functions whose extracted token list differs from the one above (empty = all agree) *)
Fixpoint toks_eqb (a b : list string) : bool :=
  match a, b with
  | [], [] => true
  | x :: a', y :: b' => String.eqb x y && toks_eqb a' b'
  | _, _ => false
  end.
Fixpoint lookup (k : string) (m : list (string * list string)) : option (list string) :=
  match m with [] => None | (k', v) :: r => if String.eqb k k' then Some v else lookup k r end.
Definition shape_diff (extracted : list (string * list string)) : list (string * option (list string)) :=
  flat_map (fun kv => match lookup (fst kv) extracted with
                      | Some v => if toks_eqb v (snd kv) then [] else [(fst kv, Some v)]
                      | None => [(fst kv, None)]
                      end) shape.
Definition shape_ok (extracted : list (string * list string)) : bool :=
  match shape_diff extracted with [] => Nat.eqb (List.length extracted) (List.length shape) | _ => false end.
