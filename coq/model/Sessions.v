(* Sessions.v — the session manager (clients/sessions.go, session.go, container.go, expiry.go) as an
   executable machine over logical time, at the level the properties C05 / C10 / C11 / C16 / C20
   talk about: per client id the attached connection, the kept state (subscriptions, pending
   messages), the session-expiry deadline and the pending will with its deadline.
   Topics are matched by equality here (matching is C01's subject).  No proofs in this file. *)
From Coq Require Import List NArith ZArith Bool.
Import ListNotations.
Open Scope Z_scope.

Definition cid := N.      (* network connection *)
Definition sid := N.      (* client identifier *)
Definition topic := N.

Record will := mkWill { w_tag : N; w_topic : topic; w_delay : Z }.

Record srec := mkS {
  s_conn : option cid;                 (* the attached network connection, if any *)
  s_v5 : bool;
  s_durable : bool;                    (* state survives the end of the connection *)
  s_expiry : option Z;                 (* v5 Session Expiry Interval as last set (None: not given) *)
  s_subs : list topic;
  s_queue : list N;                    (* tags of messages pending for this client (offline / unacknowledged) *)
  s_present : bool;                    (* stored state exists (what CONNACK Session Present reports) *)
  s_expire_at : option Z;              (* absolute deadline of the offline session *)
  s_will : option will;
  s_will_at : option Z                 (* absolute deadline of a delayed will *)
}.

(* [retained]: the retained message (tag) per topic — kept by the topics provider, persisted at shutdown *)
Record st := mkSt { now : Z; sess : list (sid * srec); preempt : bool; stopped : bool; retained : list (topic * N) }.

Inductive closereason := RTakenOver | RShutdown.
Inductive out :=
| OConnack (c : cid) (present : bool) (code : N)     (* code 0 = accepted *)
| OClosed (c : cid) (r : closereason)                (* the broker closed an attached connection *)
| ODeliver (c : cid) (tag : N)                       (* a message handed to a connection *)
| OWill (id : sid) (tag : N)                         (* a will message published *)
| OStopReturned.

Inductive ev :=
| EConnect (c : cid) (id : sid) (v5 clean : bool) (expiry : option Z) (w : option will)
| ESubscribe (id : sid) (k : N)                      (* k = topic * 2 + (1 if No Local) *)
| EUnsubscribe (id : sid) (t : topic)                (* UNSUBSCRIBE: the subscription to that topic, if any, is removed *)
| EPublish (tag : N) (t : topic)                     (* by some other client, QoS 1 *)
| EPublishBy (id : sid) (tag : N) (t : topic)        (* by the session of identifier id *)
| ERetain (tag : N) (t : topic)                      (* the same with the RETAIN flag: also replaces the topic's retained message *)
| EUnretain (t : topic)                              (* retained publish with empty payload: the retained message is removed *)
| EDisconnect (id : sid) (with_will : bool) (expiry : option Z)   (* the client's DISCONNECT *)
| EDrop (id : sid)                                   (* the connection ends without DISCONNECT *)
| EDropC (c : cid) (id : sid)                        (* connection [c] ends without DISCONNECT (nothing happens if it is no longer attached) *)
| ETick (dt : Z)
| EStop                                              (* Manager.Stop + Shutdown *)
| ERestart.                                          (* a new Manager over the same persistence *)

Definition empty_rec : srec := mkS None false false None [] [] false None None None.

Fixpoint get (id : sid) (l : list (sid * srec)) : srec :=
  match l with [] => empty_rec | (i, r) :: t => if N.eqb i id then r else get id t end.
Fixpoint put (id : sid) (r : srec) (l : list (sid * srec)) : list (sid * srec) :=
  match l with
  | [] => [(id, r)]
  | (i, x) :: t => if N.eqb i id then (id, r) :: t else (i, x) :: put id r t
  end.

(* connection.go onConnect: durable unless v3 clean session / v5 without (or with zero) expiry *)
Definition durable_of (v5 clean : bool) (expiry : option Z) : bool :=
  if v5 then match expiry with Some e => negb (e =? 0) | None => false end else negb clean.

(* what is left of a session whose state is dropped *)
Definition wiped (r : srec) : srec := mkS None (s_v5 r) false None [] [] false None None None.

Definition refuse_code (v5 : bool) : N := if v5 then 133%N else 2%N.     (* 0x85 / identifier rejected *)

(* the end of a network connection.  [normal]: the client sent DISCONNECT (will discarded unless v5
   reason 0x04); [newexp]: expiry carried by DISCONNECT *)
Definition conn_end (s : st) (id : sid) (keep_will : bool) (newexp : option Z) : st * list out :=
  let r := get id (sess s) in
  match s_conn r with
  | None => (s, [])
  | Some _ =>
      let expiry := match newexp with Some e => Some e | None => s_expiry r end in
      let durable := if s_v5 r then (s_durable r && match expiry with Some e => negb (e =? 0) | None => false end)
                     else s_durable r in
      let wl := if keep_will then s_will r else None in
      (* the will: at once if it has no delay or if the session ends with the connection *)
      let now_will := match wl with
                      | Some x => if (w_delay x =? 0) || negb durable then [OWill id (w_tag x)] else []
                      | None => [] end in
      let pending := match wl with
                     | Some x => if (w_delay x =? 0) || negb durable then None else Some x
                     | None => None end in
      let r1 :=
        if durable then
          mkS None (s_v5 r) true expiry (s_subs r) (s_queue r) true
              (match expiry with Some e => if s_v5 r then Some (now s + e) else None | None => None end)
              pending
              (match pending with Some x => Some (now s + w_delay x) | None => None end)
        else wiped r in
      (mkSt (now s) (put id r1 (sess s)) (preempt s) (stopped s) (retained s), now_will)
  end.

(* CONNECT for a client id without an attached connection *)
Definition connect_free (s : st) (c : cid) (id : sid) (v5 clean : bool) (expiry : option Z) (w : option will)
  : st * list out :=
  let r := get id (sess s) in
  let r0 := if clean then wiped r else r in
  let present := s_present r0 in
  let r1 := mkS (Some c) v5 (durable_of v5 clean expiry) expiry (s_subs r0) [] true None w None in
  (mkSt (now s) (put id r1 (sess s)) (preempt s) (stopped s) (retained s),
   [OConnack c present 0%N] ++ map (ODeliver c) (s_queue r0)).

(* CONNECT: an identifier in use is taken over — the old connection ends first, as an abnormal end
   (its will is published at once unless it is delayed AND the session goes on; the new connection
   then suppresses a delayed one) — or the new connection is refused when pre-emption is off *)
Definition connect (s : st) (c : cid) (id : sid) (v5 clean : bool) (expiry : option Z) (w : option will)
  : st * list out :=
  match s_conn (get id (sess s)) with
  | Some old =>
      if preempt s then
        let '(s1, o1) := conn_end s id true None in
        let '(s2, o2) := connect_free s1 c id v5 clean expiry w in
        (s2, [OClosed old RTakenOver] ++ o1 ++ o2)
      else (s, [OConnack c false (refuse_code v5)])
  | None => connect_free s c id v5 clean expiry w
  end.

(* timers of one record at time t: the will fires at min(will_at, expire_at); expiry wipes the state *)
Definition fire (t : Z) (id : sid) (r : srec) : srec * list out :=
  match s_conn r with
  | Some _ => (r, [])
  | None =>
      let expired := match s_expire_at r with Some e => e <=? t | None => false end in
      let will_due := match s_will_at r with Some wt => wt <=? t | None => false end in
      let wout := match s_will r with
                  | Some x => if will_due || expired then [OWill id (w_tag x)] else []
                  | None => [] end in
      if expired then (wiped r, wout)
      else if will_due then (mkS None (s_v5 r) (s_durable r) (s_expiry r) (s_subs r) (s_queue r) (s_present r) (s_expire_at r) None None, wout)
      else (r, [])
  end.

Fixpoint fire_all (t : Z) (l : list (sid * srec)) : list (sid * srec) * list out :=
  match l with
  | [] => ([], [])
  | (i, r) :: rest =>
      let '(r', o) := fire t i r in
      let '(l', os) := fire_all t rest in
      ((i, r') :: l', o ++ os)
  end.

(* a subscription is kept as the number  topic * 2 + (1 if No Local) *)
Definition sub_topic (k : N) : topic := N.div2 k.
Definition sub_nl (k : N) : bool := N.odd k.
(* does subscription k receive a publish on topic t ([self]: published by the subscriber's own session) *)
Definition smatch (self : bool) (t : topic) (k : N) : bool := N.eqb (sub_topic k) t && negb (sub_nl k && self).
Definition is_self (who : option sid) (i : sid) : bool := match who with Some w => N.eqb w i | None => false end.

(* a QoS 1 publish on topic t, by another client (who = None) or by the session of identifier w *)
Definition publish_by (who : option sid) (s : st) (tag : N) (t : topic) : st * list out :=
  let step := fun (acc : list (sid * srec) * list out) (ir : sid * srec) =>
    let '(l, os) := acc in
    let '(i, r) := ir in
    if existsb (smatch (is_self who i) t) (s_subs r) then
      match s_conn r with
      | Some c => (l ++ [(i, r)], os ++ [ODeliver c tag])
      | None => (l ++ [(i, mkS None (s_v5 r) (s_durable r) (s_expiry r) (s_subs r) (s_queue r ++ [tag]) (s_present r) (s_expire_at r) (s_will r) (s_will_at r))], os)
      end
    else (l ++ [(i, r)], os) in
  let '(l, os) := fold_left step (sess s) ([], []) in
  (mkSt (now s) l (preempt s) (stopped s) (retained s), os).
Definition publish := publish_by None.

Definition retained_of (t : topic) (l : list (topic * N)) : list N :=
  map snd (filter (fun x => N.eqb (fst x) t) l).
Definition set_retained (t : topic) (tag : option N) (l : list (topic * N)) : list (topic * N) :=
  let l' := filter (fun x => negb (N.eqb (fst x) t)) l in
  match tag with Some g => l' ++ [(t, g)] | None => l' end.

(* SUBSCRIBE with subscription key k (also a repeated one: it replaces the subscription to that topic)
   hands the topic's retained message to the connection *)
Definition subscribe (s : st) (id : sid) (k : N) : st * list out :=
  let r := get id (sess s) in
  match s_conn r with
  | None => (s, [])
  | Some c =>
      let subs := filter (fun k' => negb (N.eqb (sub_topic k') (sub_topic k))) (s_subs r) ++ [k] in
      (mkSt (now s) (put id (mkS (s_conn r) (s_v5 r) (s_durable r) (s_expiry r) subs (s_queue r) (s_present r) (s_expire_at r) (s_will r) (s_will_at r)) (sess s)) (preempt s) (stopped s) (retained s),
       map (ODeliver c) (retained_of (sub_topic k) (retained s)))
  end.

Definition unsubscribe (s : st) (id : sid) (t : topic) : st * list out :=
  let r := get id (sess s) in
  match s_conn r with
  | None => (s, [])
  | Some _ =>
      let subs := filter (fun k' => negb (N.eqb (sub_topic k') t)) (s_subs r) in
      (mkSt (now s) (put id (mkS (s_conn r) (s_v5 r) (s_durable r) (s_expiry r) subs (s_queue r) (s_present r) (s_expire_at r) (s_will r) (s_will_at r)) (sess s)) (preempt s) (stopped s) (retained s), [])
  end.

(* Stop: every attached connection is closed (its will is published: the end is not a client
   DISCONNECT), timers are stopped and what they guard is handed to persistence *)
Definition stop (s : st) : st * list out :=
  let step := fun (acc : st * list out) (ir : sid * srec) =>
    let '(s0, os) := acc in
    match s_conn (snd ir) with
    | Some c => let '(s1, o) := conn_end s0 (fst ir) true None in (s1, os ++ [OClosed c RShutdown] ++ o)
    | None => acc
    end in
  let '(s1, os) := fold_left step (sess s) (s, []) in
  (mkSt (now s1) (sess s1) (preempt s1) true (retained s1), os ++ [OStopReturned]).

Definition step (s : st) (e : ev) : st * list out :=
  match e with
  | EConnect c id v5 clean expiry w => if stopped s then (s, []) else connect s c id v5 clean expiry w
  | ESubscribe id t => subscribe s id t
  | EUnsubscribe id t => unsubscribe s id t
  | EPublish tag t => publish s tag t
  | EPublishBy id tag t => publish_by (Some id) s tag t
  | ERetain tag t =>
      let '(s1, o) := publish s tag t in
      (mkSt (now s1) (sess s1) (preempt s1) (stopped s1) (set_retained t (Some tag) (retained s1)), o)
  | EUnretain t => (mkSt (now s) (sess s) (preempt s) (stopped s) (set_retained t None (retained s)), [])
  | EDisconnect id keep_will newexp => conn_end s id keep_will newexp
  | EDrop id => conn_end s id true None
  | EDropC c id =>
      match s_conn (get id (sess s)) with
      | Some c' => if N.eqb c c' then conn_end s id true None else (s, [])
      | None => (s, [])
      end
  | ETick dt =>
      let t := now s + dt in
      let '(l, os) := fire_all t (sess s) in
      (mkSt t l (preempt s) (stopped s) (retained s), os)
  | EStop => stop s
  | ERestart => (mkSt (now s) (sess s) (preempt s) false (retained s), [])
  end.

Fixpoint run (s : st) (es : list ev) : st * list (list out) :=
  match es with
  | [] => (s, [])
  | e :: r => let '(s1, o) := step s e in let '(s2, os) := run s1 r in (s2, o :: os)
  end.

Definition init (pre : bool) : st := mkSt 0 [] pre false [].
