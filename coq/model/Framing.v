(* Framing.v — connection/reader.go readPacket over a buffered reader (bufio.Reader) on top of a
   connection whose Read calls return arbitrarily sized chunks.  A stream state is (bytes already
   buffered, bytes not yet read from the connection); the chunk sizes are an adversarial oracle
   (a list of sizes, each used as max 1 k).  The CONNECT phase and the session phase use ONE
   buffered reader (the code after the repair); [drop_buffer] models the two readers of the code
   before the repair.  [Alloc n] is emitted where readPacket allocates the packet buffer.
   No proofs in this file. *)
From Coq Require Import List NArith Arith Bool.
Import ListNotations.
Local Open Scope nat_scope.

Definition byte := N.
Definition stream := (list byte * list byte)%type.          (* buffered, still in the connection *)
Definition logical (s : stream) : list byte := fst s ++ snd s.

Definition next_chunk (o : list nat) : nat * list nat :=
  match o with [] => (1, []) | k :: r => (Nat.max 1 k, r) end.

Definition fill (k : nat) (s : stream) : stream :=
  (fst s ++ firstn k (snd s), skipn k (snd s)).

(* bufio.Reader.Peek(n): fill until n bytes are buffered; None = the connection ended first *)
Fixpoint peek (fuel n : nat) (o : list nat) (s : stream) : option (list byte) * list nat * stream :=
  if n <=? length (fst s) then (Some (firstn n (fst s)), o, s) else
  match fuel with
  | O => (None, o, s)
  | S f =>
      match snd s with
      | [] => (None, o, s)
      | _ => let '(k, o') := next_chunk o in peek f n o' (fill k s)
      end
  end.

(* the loop `for offset != remaining { n, err = buf.Read(recv[offset:]) }`: exactly n bytes *)
Fixpoint read_exact (fuel n : nat) (o : list nat) (s : stream) : option (list byte) * list nat * stream :=
  match n with
  | O => (Some [], o, s)
  | _ =>
    match fuel with
    | O => (None, o, s)
    | S f =>
        match fst s with
        | [] => match snd s with
                | [] => (None, o, s)
                | _ => let '(k, o') := next_chunk o in read_exact f n o' (fill k s)
                end
        | b =>
            let got := firstn n b in
            let s' := (skipn n b, snd s) in
            let '(r, o2, s2) := read_exact f (n - length got) o s' in
            (match r with Some more => Some (got ++ more) | None => None end, o2, s2)
        end
    end
  end.

Inductive fres :=
| Frame (bytes : list byte)
| NeedMore                      (* connection ended inside a packet *)
| ProtoError                    (* remaining-length field longer than 4 bytes *)
| TooLarge.                     (* announced size above the configured maximum: rejected BEFORE allocating *)

Inductive fev := Alloc (n : nat).

(* remaining length: base-128 varint, little endian, at most 4 bytes *)
Fixpoint varint (l : list byte) (mult acc : nat) (count : nat) : option (nat * nat) :=
  match l with
  | [] => None
  | b :: r =>
      let v := N.to_nat b in
      let acc' := acc + (v mod 128) * mult in
      if v <? 128 then Some (acc', S count)
      else match count with
           | 3 => None                       (* a 5th length byte: protocol error *)
           | _ => varint r (mult * 128) acc' (S count)
           end
  end.

(* header scan of readPacket: peek 2, 3, 4, 5 bytes while the last one has the continuation bit *)
Fixpoint scan_header (fuel : nat) (pc : nat) (o : list nat) (s : stream) (big : nat)
  : option (list byte) * bool * list nat * stream :=            (* header bytes, protocol error?, ... *)
  match fuel with
  | O => (None, false, o, s)
  | S f =>
      if 5 <? pc then (None, true, o, s) else
      let '(h, o1, s1) := peek big pc o s in
      match h with
      | None => (None, false, o1, s1)
      | Some hb => if 128 <=? N.to_nat (last hb 0%N) then scan_header f (S pc) o1 s1 big else (Some hb, false, o1, s1)
      end
  end.

Definition read_packet (maxsize : nat) (o : list nat) (s : stream) : fres * list fev * list nat * stream :=
  let big := S (length (snd s)) in
  let '(h, perr, o1, s1) := scan_header 5 2 o s big in
  if perr then (ProtoError, [], o1, s1) else
  match h with
  | None => (NeedMore, [], o1, s1)
  | Some hb =>
      match varint (tl hb) 1 0 0 with
      | None => (ProtoError, [], o1, s1)
      | Some (remlen, m) =>
          let total := 1 + remlen + m in
          if maxsize <? total then (TooLarge, [], o1, s1) else
          let '(r, o2, s2) := read_exact (S (2 * total + length (snd s1))) total o1 s1 in
          match r with
          | Some bs => (Frame bs, [Alloc total], o2, s2)
          | None => (NeedMore, [Alloc total], o2, s2)
          end
      end
  end.

(* read packets until the stream ends or a packet is rejected *)
Fixpoint read_all (fuel : nat) (maxsize : nat) (o : list nat) (s : stream) : list fres * list fev :=
  match fuel with
  | O => ([], [])
  | S f =>
      match logical s with
      | [] => ([], [])
      | _ =>
          let '(r, ev, o1, s1) := read_packet maxsize o s in
          match r with
          | Frame _ => let '(rs, evs) := read_all f maxsize o1 s1 in (r :: rs, ev ++ evs)
          | _ => ([r], ev)
          end
      end
  end.

(* ---- the specification: frames are a function of the bytes alone ---- *)
Definition parse_one (maxsize : nat) (l : list byte) : fres * list byte :=
  match l with
  | [] | [_] => (NeedMore, l)
  | _ :: lenbytes =>
      match varint lenbytes 1 0 0 with
      | None => if (length lenbytes <? 4) && forallb (fun b => 128 <=? N.to_nat b) lenbytes then (NeedMore, l) else (ProtoError, l)
      | Some (remlen, m) =>
          let total := 1 + remlen + m in
          if maxsize <? total then (TooLarge, l)
          else if length l <? total then (NeedMore, l)
          else (Frame (firstn total l), skipn total l)
      end
  end.
Fixpoint parse_all (fuel maxsize : nat) (l : list byte) : list fres :=
  match fuel with
  | O => []
  | S f => match l with
           | [] => []
           | _ => let '(r, rest) := parse_one maxsize l in
                  match r with Frame _ => r :: parse_all f maxsize rest | _ => [r] end
           end
  end.

(* the code before the repair: the session phase starts with a NEW buffered reader, so whatever the
   CONNECT-phase reader had buffered beyond the first packet is gone *)
Definition drop_buffer (s : stream) : stream := ([], snd s).
Definition read_all_two_readers (fuel maxsize : nat) (o : list nat) (s : stream) : list fres :=
  let '(r, ev, o1, s1) := read_packet maxsize o s in
  match r with
  | Frame _ => r :: fst (read_all fuel maxsize o1 (drop_buffer s1))
  | _ => [r]
  end.
