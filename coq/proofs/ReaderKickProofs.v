(* ReaderKickProofs.v — with the look at quit after arming, no interleaving of the reader's loop, the close sequence and
   the client's packets leaves the reader waiting for the client once the close sequence has done its two steps; three
   more steps of the reader and it is gone.  Without that look one interleaving does (refuted by computation). *)
From Coq Require Import List Bool.
Import ListNotations.
From VMQ Require Import model.ReaderKick.

Definition Inv (s : st) : Prop :=
  (cl s <> CStart -> quit s = true) /\ (cl s = CKicked -> rd s = RRead -> deadline s = DKick).

Lemma step_inv ka s e : Inv s -> Inv (step 0 ka s e).
Proof.
  unfold Inv. destruct s as [r c d q w]. cbn [cl quit rd deadline]. intros [I1 I2].
  destruct e, r, c, d, q, ka; cbn; split; intros; try reflexivity; try discriminate; try congruence;
    try (apply I1; discriminate); try (apply I2; reflexivity); try contradiction;
    try (exfalso; assert (true = false \/ false = true) by (first [left; apply I1; discriminate | right; apply I1; discriminate]); intuition discriminate).
Qed.

Lemma run_inv ka es : forall s, Inv s -> Inv (run 0 ka s es).
Proof. unfold run. induction es as [|e r IH]; intros s H; cbn [fold_left]; [exact H|]. apply IH. apply step_inv. exact H. Qed.

Lemma start_inv r d : Inv (start r d).
Proof. split; cbn; [intros H; contradiction | intros H; discriminate]. Qed.

Theorem reader_never_stuck ka r d es : stuck (run 0 ka (start r d) es) = false.
Proof.
  pose proof (run_inv ka es _ (start_inv r d)) as [_ I2]. unfold stuck.
  destruct (cl (run 0 ka (start r d) es)) eqn:Ec; try reflexivity.
  destruct (rd (run 0 ka (start r d) es)) eqn:Er; try reflexivity.
  rewrite (I2 eq_refl eq_refl). reflexivity.
Qed.

(* once the close sequence is through, three steps of the reader and it is gone (no packet needed) *)
Theorem reader_gone_after_close ka r d es :
  cl (run 0 ka (start r d) es) = CKicked ->
  rd (run 0 ka (run 0 ka (start r d) es) [Reader; Reader; Reader]) = RGone.
Proof.
  intros Hc. pose proof (run_inv ka es _ (start_inv r d)) as [I1 I2]. destruct (run 0 ka (start r d) es) as [r' c' d' q' w'].
  cbn [cl quit rd deadline] in *. subst c'. assert (q' = true) as -> by (apply I1; discriminate).
  destruct r'; try (destruct ka, d'; reflexivity).
  rewrite (I2 eq_refl eq_refl). reflexivity.
Qed.

(* the loop as it was: processing a packet when the close sequence runs, the reader arms the keep-alive deadline over
   the close sequence's one and waits for the client *)
Theorem reader_as_it_was_refuted :
  stuck (run 1 true (start RProcess DKeepAlive) [Closer; Closer; Reader; Reader; Reader]) = true.
Proof. vm_compute. reflexivity. Qed.

(* keep-alive 0 never arms anything: the old loop was safe there *)
Example reader_as_it_was_without_keepalive :
  stuck (run 1 false (start RProcess DNone) [Closer; Closer; Reader; Reader; Reader]) = false.
Proof. vm_compute. reflexivity. Qed.
