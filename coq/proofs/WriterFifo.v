(* WriterFifo.v — the per-connection writer transmits QoS 1/2 messages for the FIRST time in the order
   they were handed to the session, across any number of disconnects and reconnects (C13, writer side).
   Statement for messages without expiry (an expired message is dropped, which does not reorder the others). *)
From Coq Require Import List NArith ZArith Bool Lia.
Import ListNotations.
From VMQ Require Import model.Flow model.Writer proofs.WriterProofs proofs.NoLoss.
Open Scope N_scope.

(* a message as the routing layer hands it to the session: QoS 1/2, no expiry, DUP clear *)
Definition plain (p : pkt) : bool :=
  match pk p with KPub 0 => false | KPub _ => true | KPubrel => false end &&
  match pexp p with None => true | Some _ => false end && negb (pdup p).

(* first transmissions on the wire: PUBLISH QoS>0 with DUP clear *)
Definition fresh_out (o : list pkt) : list pkt := filter plain o.

(* what waits for its first transmission, in order *)
Definition waiting (w : writer) : list pkt := q12 w ++ p_q12 w.

Definition sends_plain (es : list ev) : Prop := forall now p, In (ESend now p) es -> plain p = true.
Fixpoint sent_tags (es : list ev) : list N :=
  match es with
  | [] => []
  | ESend _ p :: r => ptag p :: sent_tags r
  | _ :: r => sent_tags r
  end.

Record FInv (w : writer) : Prop := mkFInv {
  fi_plain : forall p, In p (waiting w) -> plain p = true;
  fi_live : alive w = true -> p_q12 w = [];
  fi_off : alive w = false -> q12 w = [];
  fi_rel : forall p, In p (qrel w ++ map snd (pubout w) ++ p_unack w) -> plain p = false \/ pdup p = true
}.

Lemma plain_with_id p id : plain (with_id p id) = plain p.
Proof. reflexivity. Qed.

Lemma plain_not_expired now p : plain p = true -> expired now p = false.
Proof. unfold plain, expired. destruct (pexp p); [rewrite andb_false_r; cbn; discriminate | reflexivity]. Qed.

Lemma plain_nodup p : plain p = true -> pdup p = false.
Proof. unfold plain. intros H. apply andb_prop in H. destruct H as [_ H]. apply negb_true_iff. exact H. Qed.

Lemma fresh_out_app a b : fresh_out (a ++ b) = fresh_out a ++ fresh_out b.
Proof. apply filter_app. Qed.

Lemma not_fresh p : plain p = false \/ pdup p = true -> fresh_out [p] = [].
Proof.
  intros [H|H]; unfold fresh_out; cbn; [rewrite H; reflexivity|].
  unfold plain. rewrite H. cbn. rewrite andb_false_r. reflexivity.
Qed.

Definition new_tag (e : ev) : list N := match e with ESend _ p => [ptag p] | _ => [] end.

Lemma enc_queued_plain now l : (forall p, In p l -> plain p = true) ->
  map ptag (flat_map (enc_queued now) l) = map ptag l /\ forall p, In p (flat_map (enc_queued now) l) -> plain p = true.
Proof.
  induction l as [|x l IH]; intros H; cbn [flat_map map]; [split; [reflexivity | intros p []]|].
  destruct IH as [IH1 IH2]; [intros p Hp; apply H; right; exact Hp|].
  unfold enc_queued at 1 3. rewrite (plain_not_expired now x (H x (or_introl eq_refl))). cbn [app map].
  split; [rewrite IH1; reflexivity|]. intros p [<-|Hp]; [rewrite plain_with_id; apply H; left; reflexivity | apply IH2; exact Hp].
Qed.

Lemma enc_unack_notfresh p : plain (enc_unack p) = false \/ pdup (enc_unack p) = true.
Proof. unfold enc_unack. destruct (is_pub p) eqn:E; [right; reflexivity|]. left. unfold plain, is_pub in *. destruct (pk p); [discriminate | reflexivity]. Qed.

