(* WriterFifo.v — the per-connection writer transmits QoS 1/2 messages for the FIRST time in the order
   they were handed to the session, across any number of disconnects and reconnects (C13, writer side).
   Statement for messages without expiry (an expired message is dropped, which does not reorder the others). *)
From Coq Require Import List NArith ZArith Bool Lia.
Import ListNotations.
From VMQ Require Import model.Flow model.Writer proofs.WriterProofs proofs.NoLoss.
Open Scope N_scope.

(* a message as the routing layer hands it to the session: QoS 1/2, no expiry, DUP clear *)
Definition plain (p : pkt) : bool :=
  match pk p with KPub 0 => false | KPub _ => true | KPubrel => false end &&
  match pexp p with None => true | Some _ => false end && negb (pdup p).

(* first transmissions on the wire: PUBLISH QoS>0 with DUP clear *)
Definition fresh_out (o : list pkt) : list pkt := filter plain o.

(* what waits for its first transmission, in order *)
Definition waiting (w : writer) : list pkt := q12 w ++ p_q12 w.

Definition sends_plain (es : list ev) : Prop := forall now p, In (ESend now p) es -> plain p = true.
Fixpoint sent_tags (es : list ev) : list N :=
  match es with
  | [] => []
  | ESend _ p :: r => ptag p :: sent_tags r
  | _ :: r => sent_tags r
  end.

Record FInv (w : writer) : Prop := mkFInv {
  fi_plain : forall p, In p (waiting w) -> plain p = true;
  fi_live : alive w = true -> p_q12 w = [];
  fi_off : alive w = false -> q12 w = [];
  fi_rel : forall p, In p (qrel w ++ p_unack w) -> plain p = false \/ pdup p = true;
  fi_q0 : forall p, In p (q0 w ++ p_q0 w) -> plain p = false
}.

Lemma plain_with_id p id : plain (with_id p id) = plain p.
Proof. reflexivity. Qed.

Lemma plain_not_expired now p : plain p = true -> expired now p = false.
Proof. unfold plain, expired. destruct (pexp p); [rewrite andb_false_r; cbn; discriminate | reflexivity]. Qed.

Lemma plain_nodup p : plain p = true -> pdup p = false.
Proof. unfold plain. intros H. apply andb_prop in H. destruct H as [_ H]. apply negb_true_iff. exact H. Qed.

Lemma fresh_out_app a b : fresh_out (a ++ b) = fresh_out a ++ fresh_out b.
Proof. apply filter_app. Qed.

Lemma not_fresh p : plain p = false \/ pdup p = true -> fresh_out [p] = [].
Proof.
  intros [H|H]; unfold fresh_out; cbn; [rewrite H; reflexivity|].
  unfold plain. rewrite H. cbn. rewrite andb_false_r. reflexivity.
Qed.

Definition new_tag (e : ev) : list N := match e with ESend _ p => [ptag p] | _ => [] end.

Lemma enc_queued_plain now l : (forall p, In p l -> plain p = true) ->
  map ptag (flat_map (enc_queued now) l) = map ptag l /\ forall p, In p (flat_map (enc_queued now) l) -> plain p = true.
Proof.
  induction l as [|x l IH]; intros H; cbn [flat_map map]; [split; [reflexivity | intros p []]|].
  destruct IH as [IH1 IH2]; [intros p Hp; apply H; right; exact Hp|].
  unfold enc_queued at 1 3. rewrite (plain_not_expired now x (H x (or_introl eq_refl))). cbn [app map].
  split; [rewrite IH1; reflexivity|]. intros p [<-|Hp]; [rewrite plain_with_id; apply H; left; reflexivity | apply IH2; exact Hp].
Qed.

Lemma enc_unack_notfresh p : plain (enc_unack p) = false \/ pdup (enc_unack p) = true.
Proof. unfold enc_unack. destruct (is_pub p) eqn:E; [right; reflexivity|]. left. unfold plain, is_pub in *. destruct (pk p); [discriminate | reflexivity]. Qed.


Lemma enc_queued_q0 now l : (forall p, In p l -> plain p = false) -> forall p, In p (flat_map (enc_queued now) l) -> plain p = false.
Proof.
  intros H p Hp. apply in_flat_map in Hp. destruct Hp as [x [Hx Hp]]. unfold enc_queued in Hp.
  destruct (expired now x); [destruct Hp|]. destruct Hp as [<-|[]]. rewrite plain_with_id. apply H. exact Hx.
Qed.

Lemma fresh_nil_all l : (forall p, In p l -> plain p = false \/ pdup p = true) -> fresh_out l = [].
Proof.
  induction l as [|x l IH]; intros H; [reflexivity|]. change (fresh_out (x :: l)) with (fresh_out ([x] ++ l)).
  rewrite fresh_out_app, (not_fresh x (H x (or_introl eq_refl))), IH; [reflexivity|]. intros p Hp. apply H. right. exact Hp.
Qed.

(* one writer round *)
Lemma fifo_pop now w w' o : FInv w -> alive w = true -> pop_round now w = (Fine, w', o) ->
  FInv w' /\ map ptag (fresh_out o) ++ map ptag (waiting w') = map ptag (waiting w).
Proof.
  intros [F1 F2 F3 F4 F5] Ea Hp. unfold pop_round in Hp. rewrite Ea in Hp. cbn [negb] in Hp.
  pose proof (F2 Ea) as Epq. unfold waiting in *. rewrite Epq in *. rewrite !app_nil_r in *.
  (* phase 1 *)
  set (ph1 := match qrel w with [] => ([], [], pubout w) | p1 :: r => ([p1], r, store (pid p1) p1 (pubout w)) end) in Hp.
  assert (H1a : fresh_out (fst (fst ph1)) = []).
  { subst ph1. destruct (qrel w) as [|p1 r1] eqn:Eq; [reflexivity|]. cbn [fst]. apply not_fresh. apply F4. left. reflexivity. }
  assert (H1b : forall x, In x (snd (fst ph1)) -> In x (qrel w)).
  { subst ph1. destruct (qrel w) as [|p1 r1]; cbn [fst snd]; [intros x []| intros x Hx; right; exact Hx]. }
  destruct ph1 as [[o1 qrel1] out1]. cbn [fst snd] in H1a, H1b.
  (* phase 3 *)
  set (ph3 := match q0 w with [] => ([], []) | p3 :: r => (if expired now p3 then [] else [p3], r) end) in Hp.
  assert (H3a : fresh_out (fst ph3) = []).
  { subst ph3. destruct (q0 w) as [|p3 r3] eqn:Eq0; [reflexivity|]. cbn [fst]. destruct (expired now p3); [reflexivity|].
    apply not_fresh. left. apply F5. left. reflexivity. }
  assert (H3b : forall x, In x (snd ph3) -> In x (q0 w)).
  { subst ph3. destruct (q0 w) as [|p3 r3]; cbn [snd]; [intros x []| intros x Hx; right; exact Hx]. }
  destruct ph3 as [o3 q0']. cbn [fst snd] in H3a, H3b.
  (* the invariant for any result of phase 2 that keeps a suffix of the queue *)
  assert (Hinv : forall f2 q12' out2, (forall x, In x q12' -> In x (q12 w)) -> FInv (wr_set w f2 q0' q12' qrel1 out2)).
  { intros f2 q12' out2 Hsub. constructor; unfold wr_set, waiting; cbn [q12 p_q12 alive qrel pubout p_unack q0 p_q0].
    - rewrite Epq, app_nil_r. intros x Hx. apply F1. apply Hsub. exact Hx.
    - intros _. exact Epq.
    - intros H. congruence.
    - intros x Hx. apply F4. apply in_app_or in Hx. apply in_or_app. destruct Hx as [Hx|Hx]; [left; apply H1b; exact Hx | right; exact Hx].
    - intros x Hx. apply F5. apply in_app_or in Hx. apply in_or_app. destruct Hx as [Hx|Hx]; [left; apply H3b; exact Hx | right; exact Hx]. }
  (* phase 2: nothing new while a retransmission waits *)
  assert (Hgate : (match qrel w with [] => q12 w | _ :: _ => [] end) = [] \/ (match qrel w with [] => q12 w | _ :: _ => [] end) = q12 w)
    by (destruct (qrel w); auto).
  destruct (match qrel w with [] => q12 w | _ :: _ => [] end) as [|p2 r2] eqn:Eg.
  - inversion Hp; subst. split; [apply Hinv; intros x Hx; exact Hx|].
    unfold wr_set. cbn [q12 p_q12]. rewrite Epq. rewrite fresh_out_app, H1a. cbn [app]. rewrite H3a. cbn [app map]. rewrite app_nil_r. reflexivity.
  - destruct Hgate as [Hc|Eq2]; [discriminate|]. symmetry in Eq2.
    assert (Hp2 : plain p2 = true) by (apply F1; rewrite Eq2; left; reflexivity).
    destruct (quota_available (fl w)).
    + destruct (acquire (fl w)) as [[id f']| |]; [|inversion Hp|inversion Hp].
      rewrite (plain_not_expired now (with_id p2 id)) in Hp by (rewrite plain_with_id; exact Hp2).
      inversion Hp; subst. split; [apply Hinv; intros x Hx; rewrite Eq2; right; exact Hx|].
      unfold wr_set. cbn [q12 p_q12]. rewrite Epq, Eq2. rewrite fresh_out_app, H1a. cbn [app].
      change (with_id p2 id :: o3) with ([with_id p2 id] ++ o3). rewrite fresh_out_app, H3a, app_nil_r.
      unfold fresh_out. cbn [filter]. rewrite plain_with_id, Hp2. cbn [app map]. rewrite app_nil_r. reflexivity.
    + inversion Hp; subst. split; [apply Hinv; intros x Hx; exact Hx|].
      unfold wr_set. cbn [q12 p_q12]. rewrite Epq. rewrite fresh_out_app, H1a. cbn [app]. rewrite H3a. cbn [app map]. rewrite app_nil_r. reflexivity.
Qed.

Lemma fifo_step w e w' o : FInv w -> (forall now p, e = ESend now p -> plain p = true) ->
  step w e = (Fine, w', o) ->
  FInv w' /\ map ptag (fresh_out o) ++ map ptag (waiting w') = map ptag (waiting w) ++ new_tag e.
Proof.
  intros HF Hpl Hs. pose proof HF as [F1 F2 F3 F4 F5]. destruct e as [now p|now|v5 a|now|r]; cbn [step new_tag] in *.
  - (* ESend *) specialize (Hpl now p eq_refl). inversion Hs; subst. cbn [fresh_out filter map app].
    assert (Hk : exists q, pk p = KPub (N.pos q)).
    { unfold plain in Hpl. destruct (pk p) as [[|q]|]; try (cbn in Hpl; discriminate). exists q. reflexivity. }
    destruct Hk as [q Hk]. unfold send. destruct (alive w) eqn:Ea.
    + pose proof (F2 eq_refl) as Epq. rewrite Hk. unfold waiting in *. cbn [q12 p_q12 alive qrel pubout p_unack q0 p_q0].
      rewrite Epq. rewrite !app_nil_r. rewrite map_app. split; [|reflexivity].
      constructor; cbn [q12 p_q12 alive qrel pubout p_unack q0 p_q0 waiting]; try assumption.
      * unfold waiting. cbn [q12 p_q12]. rewrite ?Epq, ?app_nil_r. intros x Hx. apply in_app_or in Hx. destruct Hx as [Hx|[<-|[]]]; [|exact Hpl].
        apply F1. apply in_or_app. left. exact Hx.
      * intros _. rewrite ?Epq. reflexivity.
      * intros H. discriminate.
    + pose proof (F3 eq_refl) as Eq. rewrite (plain_not_expired now p Hpl), Hk. unfold waiting in *. cbn [q12 p_q12 alive qrel pubout p_unack q0 p_q0].
      rewrite Eq. cbn [app]. rewrite map_app. split; [|reflexivity].
      constructor; cbn [q12 p_q12 alive qrel pubout p_unack q0 p_q0]; try assumption.
      * unfold waiting. cbn [q12 p_q12]. rewrite ?Eq. cbn [app]. intros x Hx. apply in_app_or in Hx.
        destruct Hx as [Hx|[<-|[]]]; [|rewrite plain_with_id; exact Hpl]. apply F1. apply in_or_app. right. exact Hx.
      * intros H. congruence.
      * intros _. rewrite ?Eq. reflexivity.
  - (* EPop *) rewrite app_nil_r. destruct (alive w) eqn:Ea; [apply (fifo_pop now w w' o HF Ea Hs)|].
    unfold pop_round in Hs. rewrite Ea in Hs. cbn [negb] in Hs. inversion Hs; subst. split; [exact HF | reflexivity].
  - (* EAck *) rewrite app_nil_r. inversion Hs; subst. cbn [fresh_out filter map app].
    destruct (alive w) eqn:Ea; [|split; [exact HF | reflexivity]].
    assert (G : forall f2 qrel2 out2, (forall x, In x qrel2 -> In x (qrel w) \/ exists id, x = mk_pubrel id) ->
              FInv (wr_set w f2 (q0 w) (q12 w) qrel2 out2) /\ map ptag (waiting (wr_set w f2 (q0 w) (q12 w) qrel2 out2)) = map ptag (waiting w)).
    { intros f2 qrel2 out2 Hq. split; [|reflexivity]. constructor; unfold wr_set, waiting; cbn [q12 p_q12 alive qrel pubout p_unack q0 p_q0]; try assumption.
      - intros _. apply F2. reflexivity.
      - intros H. congruence.
      - intros x Hx. apply in_app_or in Hx. destruct Hx as [Hx|Hx]; [|apply F4; apply in_or_app; right; exact Hx].
        destruct (Hq x Hx) as [H|[id ->]]; [apply F4; apply in_or_app; left; exact H | left; reflexivity]. }
    destruct a as [id|id err|id]; cbn [on_ack].
    + destruct (in_out id (pubout w)); [apply G; auto | split; [exact HF | reflexivity]].
    + destruct (in_out id (pubout w)); [|split; [exact HF | reflexivity]]. destruct (v5 && err).
      * apply G; auto.
      * apply G. intros x Hx. apply in_app_or in Hx. destruct Hx as [Hx|[<-|[]]]; [left; exact Hx | right; exists id; reflexivity].
    + destruct (in_out id (pubout w)); [apply G; auto | split; [exact HF | reflexivity]].
  - (* EClose *) rewrite app_nil_r. inversion Hs; subst. cbn [fresh_out filter map app]. unfold close.
    destruct (alive w) eqn:Ea; cbn [negb]; [|split; [exact HF | reflexivity]].
    pose proof (F2 eq_refl) as Epq. unfold waiting in *. rewrite Epq in F1. rewrite app_nil_r in F1. cbn [q12 p_q12 app]. rewrite Epq, !app_nil_r. cbn [app].
    destruct (enc_queued_plain now (q12 w) F1) as [E1 E2]. split; [|exact E1].
    constructor; cbn [q12 p_q12 alive qrel pubout p_unack q0 p_q0 app].
    + unfold waiting. cbn [q12 p_q12 app]. exact E2.
    + intros H. discriminate.
    + intros _. reflexivity.
    + cbn [app]. intros x Hx. apply in_app_or in Hx. destruct Hx as [Hx|Hx].
      * apply F4. apply in_or_app. right. exact Hx.
      * apply in_app_or in Hx. destruct Hx as [Hx|Hx]; apply in_map_iff in Hx; destruct Hx as [y [<- _]]; apply enc_unack_notfresh.
    + cbn [app]. intros x Hx. apply in_app_or in Hx. destruct Hx as [Hx|Hx]; [apply F5; apply in_or_app; right; exact Hx|].
      destruct (offq0 w); [|destruct Hx]. apply (enc_queued_q0 now (q0 w)); [|exact Hx]. intros y Hy. apply F5. apply in_or_app. left. exact Hy.
  - (* EOpen *) rewrite app_nil_r. inversion Hs; subst. cbn [fresh_out filter map app]. unfold open.
    destruct (alive w) eqn:Ea; [split; [exact HF | reflexivity]|].
    pose proof (F3 eq_refl) as Eq. unfold waiting in *. rewrite Eq in F1. cbn [q12 p_q12 app] in *. rewrite Eq, app_nil_r. cbn [app]. split; [|reflexivity].
    constructor; cbn [q12 p_q12 alive qrel pubout p_unack q0 p_q0 app].
    + unfold waiting. cbn [q12 p_q12]. rewrite app_nil_r. exact F1.
    + intros _. reflexivity.
    + intros H. discriminate.
    + rewrite app_nil_r. intros x Hx. apply F4. apply in_or_app. right. exact Hx.
    + rewrite app_nil_r. intros x Hx. apply F5. apply in_or_app. right. exact Hx.
Qed.

Lemma init_finv rm oq : FInv (init rm oq).
Proof. constructor; cbn; try (intros p []); try reflexivity; intros; discriminate. Qed.

(* every history: first transmissions so far, followed by what still waits, is exactly what was handed to the
   session, in that order *)
Theorem writer_fifo es : forall w w' outs, FInv w -> sends_plain es -> run w es = (Fine, w', outs) ->
  map ptag (fresh_out (concat outs)) ++ map ptag (waiting w') = map ptag (waiting w) ++ sent_tags es.
Proof.
  induction es as [|e r IH]; intros w w' outs HF Hsp Hr; cbn [run sent_tags] in *.
  - inversion Hr; subst. cbn. rewrite app_nil_r. reflexivity.
  - destruct (step w e) as [[oc w1] o] eqn:Es. destruct oc; [|discriminate].
    destruct (run w1 r) as [[oc2 w2] os] eqn:Er. inversion Hr; subst.
    destruct (fifo_step w e w1 o HF) as [HF1 Hstep]; [intros now p ->; apply (Hsp now p); left; reflexivity | exact Es |].
    assert (Hsp' : sends_plain r) by (intros now p Hin; apply (Hsp now p); right; exact Hin).
    specialize (IH w1 w' os HF1 Hsp' Er). cbn [concat]. rewrite fresh_out_app, map_app, <- app_assoc, IH, app_assoc, Hstep, <- app_assoc.
    f_equal. destruct e; reflexivity.
Qed.
