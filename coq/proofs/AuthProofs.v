From Coq Require Import List NArith Arith Bool Lia.
Import ListNotations.
From VMQ Require Import model.Auth.
Open Scope N_scope.

(* ---------------- the chain ---------------- *)
Lemma chain_spec vs : forall i,
  match password_chain vs i with
  | Some k => (i <= k)%nat /\ nth (k - i) vs false = true /\ forall j, (j < k - i)%nat -> nth j vs false = false
  | None => forall j, nth j vs false = false
  end.
Proof.
  induction vs as [|v r IH]; intros i; cbn [password_chain].
  - intros j. destruct j; reflexivity.
  - destruct v.
    + split; [lia|]. rewrite Nat.sub_diag. split; [reflexivity|]. intros j Hj. lia.
    + specialize (IH (S i)). destruct (password_chain r (S i)) as [k|].
      * destruct IH as [H1 [H2 H3]]. split; [lia|]. replace (k - i)%nat with (S (k - S i)) by lia. split; [exact H2|].
        intros j Hj. destruct j; [reflexivity|]. apply H3. lia.
      * intros j. destruct j; [reflexivity|apply IH].
Qed.

Lemma chain_accepts_iff vs : (exists k, password_chain vs 0 = Some k) <-> exists j, nth j vs false = true.
Proof.
  pose proof (chain_spec vs 0) as H. destruct (password_chain vs 0) as [k|].
  - destruct H as [_ [H2 _]]. rewrite Nat.sub_0_r in H2. split; intros _; [exists k; exact H2|exists k; reflexivity].
  - split; intros [x Hx]; [discriminate|]. rewrite H in Hx. discriminate.
Qed.

(* ---------------- the built-in database ---------------- *)
Lemma str_eqb_refl a : str_eqb a a = true.
Proof. induction a as [|x a IH]; cbn; [reflexivity|]. rewrite N.eqb_refl. exact IH. Qed.
Lemma str_eqb_eq a b : str_eqb a b = true <-> a = b.
Proof.
  revert b; induction a as [|x a IH]; intros [|y b]; cbn [str_eqb]; split; intros H; try discriminate; try reflexivity.
  - apply andb_true_iff in H. destruct H as [H1 H2]. apply N.eqb_eq in H1. apply IH in H2. subst. reflexivity.
  - inversion H; subst. rewrite N.eqb_refl. cbn. apply IH. reflexivity.
Qed.

Lemma lookup_put_same u c m : lookup u (put u c m) = Some c.
Proof. unfold put. cbn [lookup]. rewrite str_eqb_refl. reflexivity. Qed.

Lemma lookup_put_other u v c m : str_eqb v u = false -> lookup v (put u c m) = lookup v m.
Proof.
  intros H. unfold put. cbn [lookup]. rewrite H. induction m as [|[w d] r IH]; [reflexivity|].
  cbn [filter fst lookup]. destruct (str_eqb w u) eqn:E; cbn [negb lookup].
  - apply str_eqb_eq in E. subst. rewrite H. exact IH.
  - destruct (str_eqb v w); [reflexivity|exact IH].
Qed.

(* no credential built from a configuration ever holds a nil pattern *)
Definition no_nil (m : list (str * cred)) : Prop :=
  forall u c, lookup u m = Some c -> cr_read c <> PNil /\ cr_write c <> PNil.

Lemma put_no_nil u c m : cr_read c <> PNil -> cr_write c <> PNil -> no_nil m -> no_nil (put u c m).
Proof.
  intros Hr Hw Hm v d Hl. destruct (str_eqb v u) eqn:E.
  - apply str_eqb_eq in E. subst. rewrite lookup_put_same in Hl. inversion Hl; subst. auto.
  - rewrite (lookup_put_other _ _ _ _ E) in Hl. exact (Hm v d Hl).
Qed.

Lemma load_enh_no_nil dr dw es : dr <> PNil -> dw <> PNil -> forall m, no_nil m -> no_nil (fold_left (load_enh dr dw) es m).
Proof.
  intros Hr Hw. induction es as [|e r IH]; intros m Hm; [exact Hm|]. cbn [fold_left]. apply IH.
  unfold load_enh. apply put_no_nil; [| |exact Hm]; cbn [cr_read cr_write].
  - destruct (c_read (eu_acl e)); [discriminate|exact Hr].
  - destruct (c_write (eu_acl e)); [discriminate|exact Hw].
Qed.

Lemma build_users_no_nil c : no_nil (build_users c).
Proof.
  unfold build_users. set (dr := default_pat (c_read (default_acl c))). set (dw := default_pat (c_write (default_acl c))).
  assert (dr <> PNil) as Hr by (unfold dr, default_pat; destruct (c_read (default_acl c)); discriminate).
  assert (dw <> PNil) as Hw by (unfold dw, default_pat; destruct (c_write (default_acl c)); discriminate).
  apply load_enh_no_nil; [exact Hr|exact Hw|]. apply load_enh_no_nil; [exact Hr|exact Hw|].
  generalize (users c). intros us. assert (no_nil []) as H0 by (intros u d H; discriminate).
  revert H0. generalize (@nil (str * cred)). induction us as [|[u h] r IH]; intros m Hm; [exact Hm|].
  cbn [fold_left]. apply IH. apply put_no_nil; cbn [cr_read cr_write fst snd]; assumption.
Qed.

Lemma build_no_nil c : no_nil (build c).
Proof.
  unfold build. pose proof (build_users_no_nil c) as H. destruct (build_users c) as [|x m]; [|exact H].
  intros u d Hl. cbn [lookup] in Hl. destruct (str_eqb u guest_name); [|discriminate]. inversion Hl; subst. cbn [cr_read cr_write].
  split; unfold default_pat; [destruct (c_read (default_acl c))|destruct (c_write (default_acl c))]; discriminate.
Qed.

(* hence ACL checks never crash *)
Theorem acl_never_panics c user topic w : acl (build c) user topic w <> Panic.
Proof.
  unfold acl. destruct (lookup user (build c)) as [cr|] eqn:E; [|discriminate].
  destruct (build_no_nil c user cr E) as [Hr Hw]. destruct w.
  - destruct (cr_write cr); [cbn; destruct (is_prefix p topic); discriminate|contradiction].
  - destruct (cr_read cr); [cbn; destruct (is_prefix p topic); discriminate|contradiction].
Qed.

(* the LAST definition of a user among the enhanced entries decides his rules: own rule if
   configured, else the default *)
Lemma load_enh_last dr dw es e : forall m,
  lookup (eu_name e) (fold_left (load_enh dr dw) (es ++ [e]) m) =
  Some (mkCred (eu_hash e)
               (match c_read (eu_acl e) with Some p => PPrefix p | None => dr end)
               (match c_write (eu_acl e) with Some p => PPrefix p | None => dw end)).
Proof. intros m. rewrite fold_left_app. cbn [fold_left]. unfold load_enh. apply lookup_put_same. Qed.

(* ---- topic aliases cannot carry a publish past the ACL: every publish is checked on the topic it resolves to ---- *)
Lemma alias_pub_ok allowed tbl t a :
  forall tp, snd (alias_pub allowed tbl t a) = ARouted tp -> allowed tp = true.
Proof.
  intros tp. unfold alias_pub. destruct t as [tp0|]; cbn [snd].
  - destruct (allowed tp0) eqn:Ha; intros H; [inversion H; subst; exact Ha | discriminate].
  - destruct (alias_get a tbl) as [tp0|]; cbn [snd]; [|intros H; discriminate].
    destruct (allowed tp0) eqn:Ha; intros H; [inversion H; subst; exact Ha | discriminate].
Qed.

Lemma alias_run_ok allowed ps : forall tbl tp, In (ARouted tp) (alias_run allowed tbl ps) -> allowed tp = true.
Proof.
  induction ps as [|[t a] ps IH]; intros tbl tp Hin; cbn [alias_run] in Hin; [destruct Hin|].
  pose proof (alias_pub_ok allowed tbl t a) as H2.
  destruct (alias_pub allowed tbl t a) as [tbl' v]. cbn [snd] in *.
  destruct Hin as [Hv|Hin]; [subst v; apply H2; reflexivity|].
  destruct v; [apply (IH tbl' tp Hin) | apply (IH tbl' tp Hin) | destruct Hin].
Qed.

(* ... and an alias names the topic of the LAST packet that carried it together with a topic, whether that packet's
   message was authorised or refused: what follows under the alias alone is never routed anywhere else *)
Lemma alias_last_bound allowed tbl tp a : a <> 0 ->
  forall t', snd (alias_pub allowed (fst (alias_pub allowed tbl (Some tp) a)) None a) = ARouted t' -> t' = tp.
Proof.
  intros Ha t'. unfold alias_pub at 2. cbn [fst]. apply N.eqb_neq in Ha. rewrite Ha.
  unfold alias_pub. cbn [alias_get]. rewrite N.eqb_refl. cbn [snd].
  destruct (allowed tp); intros H; [inversion H; reflexivity | discriminate].
Qed.
