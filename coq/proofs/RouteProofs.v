From Coq Require Import List Arith Bool Lia.
Import ListNotations.
From VMQ Require Import model.Route.

Section P.
  Context {M Sb : Type}.
  Variable dest : M -> list Sb.
  Variable seqb : Sb -> Sb -> bool.

  Notation step := (step dest).
  Notation run := (run dest).
  Notation queue_of := (@Route.queue_of M Sb seqb).
  Notation copies := (@Route.copies M Sb seqb).
  Notation expected := (@Route.expected M Sb dest seqb).

  Definition pending (x : Sb) (w : wstate) : list M :=
    match w with None => [] | Some (m, rest) => copies x m rest end.

  (* single-worker invariant: handed ++ in the worker's hands ++ still in the channel = expected *)
  Definition Inv1 (pub : list M) (s : st) : Prop :=
    exists w, ws s = [w] /\
      forall x, queue_of x (log s) ++ pending x w ++ expected x (inbound s) = expected x pub.

  Lemma pending_norm x m rest : pending x (norm m rest) = copies x m rest.
  Proof. destruct rest; reflexivity. Qed.

  Lemma queue_of_app x l1 l2 : queue_of x (l1 ++ l2) = queue_of x l1 ++ queue_of x l2.
  Proof. unfold Route.queue_of. rewrite filter_app, map_app. reflexivity. Qed.

  Lemma step_inv1 pub s l s' : Inv1 pub s -> step s l = Some s' -> Inv1 pub s'.
  Proof.
    intros [w [Hws Hinv]] Hstep. destruct l as [i|i]; cbn [Route.step] in Hstep.
    - rewrite Hws in Hstep. destruct i as [|i]; cbn [nth_error] in Hstep.
      2:{ destruct i; discriminate. }
      destruct w as [[m0 r0]|]; [discriminate|].
      destruct (inbound s) as [|m r] eqn:Hin; [discriminate|].
      inversion Hstep; subst; clear Hstep. cbv beta iota delta [Route.ws Route.log Route.inbound Route.set_nth].
      exists (norm m (dest m)). split; [reflexivity|]. intros x. cbv beta iota delta [Route.ws Route.log Route.inbound Route.set_nth].
      specialize (Hinv x). try rewrite Hin in Hinv. cbn [pending app] in Hinv.
      rewrite pending_norm. cbn [Route.expected flat_map] in Hinv. exact Hinv.
    - rewrite Hws in Hstep. destruct i as [|i]; cbn [nth_error] in Hstep.
      2:{ destruct i; discriminate. }
      destruct w as [[m [|d rest]]|]; try discriminate.
      inversion Hstep; subst; clear Hstep. cbv beta iota delta [Route.ws Route.log Route.inbound Route.set_nth].
      exists (norm m rest). split; [reflexivity|]. intros x. cbv beta iota delta [Route.ws Route.log Route.inbound Route.set_nth].
      specialize (Hinv x). rewrite pending_norm. rewrite queue_of_app.
      cbn [pending] in Hinv. unfold Route.copies in Hinv. cbn [filter] in Hinv.
      unfold Route.queue_of at 2. cbn [filter fst]. unfold Route.copies.
      destruct (seqb x d); cbn [map snd app] in *; rewrite <- app_assoc; exact Hinv.
  Qed.

  Lemma run_inv1 pub ls : forall s s', Inv1 pub s -> run s ls = Some s' -> Inv1 pub s'.
  Proof.
    induction ls as [|l r IH]; intros s s' Hi Hr; cbn [Route.run] in Hr.
    - inversion Hr; subst; exact Hi.
    - destruct (step s l) as [s1|] eqn:E; [|discriminate].
      eapply IH; [eapply step_inv1; eauto | exact Hr].
  Qed.

  Lemma init_inv1 msgs : Inv1 msgs (init 1 msgs).
  Proof. exists None. split; [reflexivity|]. intros x. reflexivity. Qed.

  (* With ONE routing worker, under every schedule, what each subscriber has been handed is a
     prefix of what it must receive, in publication order. *)
  Theorem route_order_one_worker msgs ls s' :
    run (init 1 msgs) ls = Some s' ->
    forall x, exists rest, queue_of x (log s') ++ rest = expected x msgs.
  Proof.
    intros Hr x. destruct (run_inv1 msgs ls _ _ (init_inv1 msgs) Hr) as [w [_ H]].
    eexists. exact (H x).
  Qed.

  (* and at quiescence (channel empty, worker idle) exactly that, each exactly once *)
  Theorem route_complete_one_worker msgs ls s' :
    run (init 1 msgs) ls = Some s' -> inbound s' = [] -> ws s' = [None] ->
    forall x, queue_of x (log s') = expected x msgs.
  Proof.
    intros Hr Hin Hws x. destruct (run_inv1 msgs ls _ _ (init_inv1 msgs) Hr) as [w [Hw H]].
    rewrite Hws in Hw. inversion Hw; subst. specialize (H x). rewrite Hin in H.
    cbn in H. rewrite app_nil_r in H. exact H.
  Qed.
End P.
