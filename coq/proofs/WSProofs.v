From Coq Require Import List Arith Lia.
Import ListNotations.
From VMQ Require Import model.WS.

Section P.
  Context {B : Type}.
  Implicit Types (rem : list B) (frames : list (list B)).

  Lemma next_frame_spec frames d fs :
    next_frame frames = Some (d, fs) ->
    d <> [] /\ concat frames = d ++ concat fs /\ length fs < length frames /\
    exists skipped, frames = skipped ++ d :: fs /\ Forall (fun f => f = []) skipped.
  Proof.
    induction frames as [|f r IH]; cbn [next_frame]; [discriminate|]. destruct f as [|x f].
    - intros H. destruct (IH H) as [H1 [H2 [H3 [sk [H4 H5]]]]]. split; [exact H1|]. split; [exact H2|]. split; [cbn; lia|].
      exists ([] :: sk). split; [cbn; f_equal; exact H4|constructor; [reflexivity|exact H5]].
    - intros H. inversion H; subst. split; [discriminate|]. split; [reflexivity|]. split; [cbn; lia|].
      exists []. split; [reflexivity|constructor].
  Qed.

  Lemma next_frame_none frames : next_frame frames = None -> concat frames = [].
  Proof.
    induction frames as [|f r IH]; cbn [next_frame]; [reflexivity|]. destruct f; [|discriminate]. intros H. cbn. exact (IH H).
  Qed.

  Lemma ws_read_conserves rem frames b out rem' frames' :
    ws_read rem frames b = Some (out, rem', frames') ->
    out ++ rem' ++ concat frames' = rem ++ concat frames.
  Proof.
    unfold ws_read. destruct rem as [|x r].
    - destruct (next_frame frames) as [[d fs]|] eqn:E; [|discriminate].
      intros H; inversion H; subst; clear H.
      destruct (next_frame_spec _ _ _ E) as [_ [Hc _]]. rewrite Hc.
      cbn [app]. rewrite app_assoc, firstn_skipn. reflexivity.
    - intros H; inversion H; subst; clear H.
      rewrite app_assoc, firstn_skipn. reflexivity.
  Qed.

  Lemma ws_run_conserves sizes : forall rem frames rs rem' frames',
    ws_run rem frames sizes = (rs, rem', frames') ->
    delivered rs ++ rem' ++ concat frames' = rem ++ concat frames.
  Proof.
    induction sizes as [|b sz IH]; intros rem frames rs rem' frames' H; cbn [ws_run] in H.
    - inversion H; subst. reflexivity.
    - destruct (ws_read rem frames b) as [[[out r1] f1]|] eqn:E.
      + destruct (ws_run r1 f1 sz) as [[rs1 r2] f2] eqn:E2.
        inversion H; subst; clear H.
        unfold delivered in *. cbn [map concat bytes_of].
        rewrite <- app_assoc. rewrite (IH _ _ _ _ _ E2).
        exact (ws_read_conserves _ _ _ _ _ _ E).
      + inversion H; subst. reflexivity.
  Qed.

  (* A read that finds remainder bytes returns at once: it does not touch the
     frame source, and hands out at least one byte when the buffer is non-empty. *)
  Lemma ws_read_no_wait rem frames b :
    rem <> [] ->
    exists out rem', ws_read rem frames b = Some (out, rem', frames) /\
                     (0 < b -> out <> []).
  Proof.
    intros Hne. destruct rem as [|x r]; [contradiction|].
    exists (firstn b (x :: r)), (skipn b (x :: r)). split; [reflexivity|].
    intros Hb. destruct b; [lia|]. cbn. discriminate.
  Qed.

  (* A read never consumes more than one frame that carries bytes (and the empty ones before it). *)
  Lemma ws_read_one_frame rem frames b out rem' frames' :
    ws_read rem frames b = Some (out, rem', frames') ->
    frames' = frames \/
    (rem = [] /\ exists skipped d, frames = skipped ++ d :: frames' /\ Forall (fun f => f = []) skipped /\ d <> []).
  Proof.
    unfold ws_read. destruct rem as [|x r].
    - destruct (next_frame frames) as [[d fs]|] eqn:E; [|discriminate].
      intros H; inversion H; subst. right. split; [reflexivity|].
      destruct (next_frame_spec _ _ _ E) as [Hd [_ [_ [sk [H1 H2]]]]]. exists sk, d. auto.
    - intros H; inversion H; subst. left; reflexivity.
  Qed.

  (* A read with a non-empty buffer that does not fail hands out at least one byte: never "no bytes, no error". *)
  Lemma ws_read_never_empty rem frames b out rem' frames' :
    0 < b -> ws_read rem frames b = Some (out, rem', frames') -> out <> [].
  Proof.
    intros Hb H. unfold ws_read in H. destruct rem as [|x r].
    - destruct (next_frame frames) as [[d fs]|] eqn:E; [|discriminate]. inversion H; subst.
      destruct (next_frame_spec _ _ _ E) as [Hd _]. destruct b; [lia|]. destruct d; [contradiction|]. cbn. discriminate.
    - inversion H; subst. destruct b; [lia|]. cbn. discriminate.
  Qed.

  Lemma ws_read_progress rem frames b out rem' frames' :
    0 < b ->
    ws_read rem frames b = Some (out, rem', frames') ->
    (rem <> [] \/ exists d fs, frames = d :: fs /\ d <> []) -> out <> [].
  Proof. intros Hb H _. exact (ws_read_never_empty _ _ _ _ _ _ Hb H). Qed.

  (* EOF is reported only when everything has been handed out. *)
  Lemma ws_read_eof rem frames b :
    ws_read rem frames b = None -> rem = [] /\ concat frames = [].
  Proof.
    unfold ws_read. destruct rem; [|discriminate]. destruct (next_frame frames) as [[d fs]|] eqn:E; [discriminate|].
    intros _. split; [reflexivity|exact (next_frame_none _ E)].
  Qed.

  Lemma ws_run_eof sizes : forall rem frames rs rem' frames',
    ws_run rem frames sizes = (rs, rem', frames') ->
    In REof rs -> rem' = [] /\ concat frames' = [].
  Proof.
    induction sizes as [|b sz IH]; intros rem frames rs rem' frames' H Hin; cbn [ws_run] in H.
    - inversion H; subst. contradiction.
    - destruct (ws_read rem frames b) as [[[out r1] f1]|] eqn:E.
      + destruct (ws_run r1 f1 sz) as [[rs1 r2] f2] eqn:E2.
        inversion H; subst; clear H. destruct Hin as [Hc|Hin]; [discriminate|].
        eapply IH; eauto.
      + inversion H; subst. apply ws_read_eof in E. exact E.
  Qed.

  (* Measure of outstanding work: bytes plus frames. Each positive read lowers it. *)
  Definition work rem frames := length rem + length (concat frames) + length frames.

  Lemma ws_read_decreases rem frames b out rem' frames' :
    0 < b -> ws_read rem frames b = Some (out, rem', frames') ->
    work rem' frames' < work rem frames.
  Proof.
    intros Hb H. unfold ws_read in H. unfold work. destruct rem as [|x r].
    - destruct (next_frame frames) as [[d fs]|] eqn:E; [|discriminate]. inversion H; subst; clear H.
      destruct (next_frame_spec _ _ _ E) as [_ [Hc [Hl _]]]. rewrite Hc.
      cbn [length]. rewrite app_length, skipn_length. lia.
    - inversion H; subst; clear H. rewrite skipn_length. cbn [length]. lia.
  Qed.

  Lemma ws_run_drains sizes : forall rem frames rs rem' frames',
    Forall (fun b => 0 < b) sizes ->
    work rem frames <= length sizes ->
    ws_run rem frames sizes = (rs, rem', frames') ->
    rem' = [] /\ concat frames' = [].
  Proof.
    induction sizes as [|b sz IH]; intros rem frames rs rem' frames' Hpos Hw H; cbn [ws_run] in H.
    - inversion H; subst. unfold work in Hw. cbn [length] in Hw.
      destruct rem'; [|cbn in Hw; lia]. destruct frames'; [auto|cbn in Hw; lia].
    - inversion Hpos as [|? ? Hb Hpos']; subst.
      destruct (ws_read rem frames b) as [[[out r1] f1]|] eqn:E.
      + destruct (ws_run r1 f1 sz) as [[rs1 r2] f2] eqn:E2.
        inversion H; subst; clear H.
        pose proof (ws_read_decreases _ _ _ _ _ _ Hb E) as Hd. cbn [length] in Hw.
        eapply IH; eauto. lia.
      + inversion H; subst. apply ws_read_eof in E. exact E.
  Qed.
End P.

(* ---- full-strength statements, used by props/C17.v ---- *)

Theorem ws_stream_exact {B} (frames : list (list B)) (sizes : list nat) rs rem' frames' :
  ws_run [] frames sizes = (rs, rem', frames') ->
  delivered rs ++ rem' ++ concat frames' = concat frames.
Proof. intros H. apply ws_run_conserves in H. exact H. Qed.

Theorem ws_stream_complete {B} (frames : list (list B)) (sizes : list nat) rs rem' frames' :
  ws_run [] frames sizes = (rs, rem', frames') ->
  (In REof rs \/ (Forall (fun b => 0 < b) sizes /\
                  length (concat frames) + length frames <= length sizes)) ->
  delivered rs = concat frames.
Proof.
  intros H Hc. pose proof (ws_run_conserves _ _ _ _ _ _ H) as Hcons.
  assert (rem' = [] /\ concat frames' = []) as [-> Hf].
  { destruct Hc as [Hin|[Hpos Hlen]].
    - eapply ws_run_eof; eauto.
    - eapply ws_run_drains; eauto. unfold work. cbn [length]. lia. }
  rewrite Hf in Hcons. cbn [app] in Hcons. rewrite app_nil_r in Hcons. exact Hcons.
Qed.
