From Coq Require Import List NArith Bool Lia.
Import ListNotations.
From VMQ Require Import model.Alias.
Open Scope N_scope.

(* Invariant tying the sender's map to the receiver's table. *)
Definition AInv (s : al) (tbl : list (N * topic)) : Prop :=
  acur s <= amax s /\
  (forall t a, alookup t (amap s) = Some a -> 1 <= a <= acur s /\ tlookup a tbl = Some t) /\
  (forall a t, tlookup a tbl = Some t -> a <= acur s).

Definition pkt_ok (max : N) (p : wpkt) : Prop :=
  match walias p with
  | None => True
  | Some a => 1 <= a <= max
  end.

Lemma set_alias_step s tbl t s' p :
  AInv s tbl -> set_alias s t = (s', p) ->
  fst (rx_resolve tbl p) = Some t /\ AInv s' (snd (rx_resolve tbl p)) /\ pkt_ok (amax s) p /\ amax s' = amax s
  /\ (amax s = 0 -> walias p = None).
Proof.
  intros Hinv H. pose proof Hinv as [Hle [Hm Ht]]. unfold set_alias in H.
  destruct (amax s =? 0) eqn:E0.
  - inversion H; subst; clear H. cbn. split; [reflexivity|]. split; [exact Hinv|]. split; [exact I|]. split; reflexivity.
  - apply N.eqb_neq in E0. destruct (alookup t (amap s)) as [a|] eqn:El.
    + inversion H; subst; clear H. destruct (Hm _ _ El) as [Hr Hl]. cbn.
      split; [exact Hl|]. split; [exact Hinv|]. split; [lia|]. split; [reflexivity|]. intros Hc; lia.
    + destruct (acur s <? amax s) eqn:Elt.
      * apply N.ltb_lt in Elt. inversion H; subst; clear H. cbn [rx_resolve wtopic walias fst snd amap acur amax].
        split; [reflexivity|]. split; [|split; [cbn; lia|split; [reflexivity|intros Hc; lia]]].
        unfold AInv. cbn [amap acur amax]. split; [lia|]. split.
        -- intros t0 a0 Hl0. cbn [alookup] in Hl0. destruct (t0 =? t) eqn:Et.
           ++ apply N.eqb_eq in Et. inversion Hl0; subst. split; [lia|]. cbn [tlookup]. rewrite N.eqb_refl. reflexivity.
           ++ destruct (Hm _ _ Hl0) as [Hr Hl]. split; [lia|]. cbn [tlookup].
              destruct (a0 =? acur s + 1) eqn:Ea; [apply N.eqb_eq in Ea; lia|exact Hl].
        -- intros a0 t0 Hl0. cbn [tlookup] in Hl0. destruct (a0 =? acur s + 1) eqn:Ea.
           ++ apply N.eqb_eq in Ea. lia.
           ++ specialize (Ht _ _ Hl0). lia.
      * inversion H; subst; clear H. cbn. split; [reflexivity|]. split; [exact Hinv|]. split; [exact I|]. split; [reflexivity|]. intros; lia.
Qed.

(* Every packet the sender emits resolves, at a receiver that processed everything before it,
   to the published topic; aliases stay in 1..max; none is used when max = 0. *)
Lemma send_all_resolves ts : forall s tbl s' ps,
  AInv s tbl -> send_all s ts = (s', ps) ->
  fst (rx_all tbl ps) = map Some ts /\ Forall (pkt_ok (amax s)) ps /\ (amax s = 0 -> Forall (fun p => walias p = None) ps).
Proof.
  induction ts as [|t r IH]; intros s tbl s' ps Hinv H; cbn [send_all] in H.
  - inversion H; subst. cbn. repeat split; constructor.
  - destruct (set_alias s t) as [s1 p] eqn:E1. destruct (send_all s1 r) as [s2 ps2] eqn:E2.
    inversion H; subst; clear H.
    destruct (set_alias_step _ _ _ _ _ Hinv E1) as [Hres [Hinv1 [Hok [Hmax Hz]]]].
    cbn [rx_all]. destruct (rx_resolve tbl p) as [rt tbl1] eqn:Er. cbn [fst snd] in *.
    destruct (IH _ _ _ _ Hinv1 E2) as [Hr2 [Hok2 Hz2]].
    destruct (rx_all tbl1 ps2) as [ts2 tbl2] eqn:Er2. cbn [fst] in *. cbn [map].
    rewrite Hmax in *. repeat split.
    + rewrite Hres, Hr2. reflexivity.
    + constructor; assumption.
    + intros Hc. constructor; auto.
Qed.

Lemma init_ainv max : AInv (mkAl [] 0 max) [].
Proof. split; [cbn; lia|]. split; intros ? ? H; cbn in H; discriminate. Qed.

Theorem alias_out_resolves max ts s' ps :
  send_all (mkAl [] 0 max) ts = (s', ps) ->
  fst (rx_all [] ps) = map Some ts /\ Forall (pkt_ok max) ps /\ (max = 0 -> Forall (fun p => walias p = None) ps).
Proof. intros H. exact (send_all_resolves ts _ _ _ _ (init_ainv max) H). Qed.

(* ---------------- inbound ---------------- *)

(* the topic last bound to alias a by the valid binding packets of a history (oldest first: a later binding wins),
   with the ACL verdict of that topic - authorised or not, the packet binds *)
Definition binds (maxrx a : N) (x : wpkt * bool) : option (topic * bool) :=
  match walias (fst x), wtopic (fst x) with
  | Some a', Some t => if (a =? a') && negb ((a' =? 0) || (maxrx <? a')) then Some (t, snd x) else None
  | _, _ => None
  end.
Fixpoint last_bound (maxrx : N) (a : N) (h : list (wpkt * bool)) : option (topic * bool) :=
  match h with
  | [] => None
  | x :: r => match last_bound maxrx a r with Some t => Some t | None => binds maxrx a x end
  end.

(* table after processing a history (oldest first) that did not terminate *)
Fixpoint rx_table (maxrx : N) (tbl : list (N * (topic * bool))) (ps : list (wpkt * bool)) : option (list (N * (topic * bool))) :=
  match ps with
  | [] => Some tbl
  | (p, au) :: r =>
      let '(tbl1, o) := rx_step maxrx tbl p au in
      match o with RTerminate => None | _ => rx_table maxrx tbl1 r end
  end.

Lemma rx_table_last maxrx ps : forall tbl tbl' a,
  rx_table maxrx tbl ps = Some tbl' ->
  tlookup2 a tbl' = match last_bound maxrx a ps with Some t => Some t | None => tlookup2 a tbl end.
Proof.
  induction ps as [|[p au] r IH]; intros tbl tbl' a H; cbn [rx_table] in H.
  - inversion H; subst. reflexivity.
  - destruct (rx_step maxrx tbl p au) as [tbl1 o] eqn:E.
    assert (o <> RTerminate -> rx_table maxrx tbl1 r = Some tbl') as Hn.
    { intros Hne. destruct o; try exact H. contradiction. }
    assert (o <> RTerminate) as Hne by (intros ->; discriminate).
    specialize (Hn Hne). rewrite (IH _ _ a Hn). cbn [last_bound].
    destruct (last_bound maxrx a r) as [t|]; [reflexivity|].
    (* relate tlookup a tbl1 to the single step *)
    unfold rx_step in E. unfold binds. cbn [fst snd].
    destruct (walias p) as [a'|] eqn:Ea.
    + destruct ((a' =? 0) || (maxrx <? a')) eqn:Ebad.
      * inversion E; subst. contradiction.
      * destruct (wtopic p) as [t|] eqn:Et.
        -- inversion E; subst. cbn [tlookup2 negb]. rewrite andb_true_r.
           destruct (a =? a'); reflexivity.
        -- destruct (tlookup2 a' tbl) as [[t0 au0]|]; inversion E; subst; [reflexivity|contradiction].
    + destruct (wtopic p); inversion E; subst; [reflexivity|contradiction].
Qed.

(* an alias-only packet is routed to the topic last bound to its alias; invalid ones terminate *)
Theorem alias_in_resolves maxrx ps tbl a au :
  rx_table maxrx [] ps = Some tbl ->
  snd (rx_step maxrx tbl (mkW None (Some a)) au) =
    if (a =? 0) || (maxrx <? a) then RTerminate
    else match last_bound maxrx a ps with
         | Some (t, allowed) => if allowed then RRoute t else RDrop
         | None => RTerminate
         end.
Proof.
  intros H. unfold rx_step. cbn [walias wtopic].
  destruct ((a =? 0) || (maxrx <? a)); [reflexivity|].
  rewrite (rx_table_last _ _ _ _ a H). cbn [tlookup2].
  destruct (last_bound maxrx a ps) as [[t0 au0]|]; reflexivity.
Qed.

Theorem alias_in_invalid_terminates maxrx tbl p au a :
  walias p = Some a -> (a = 0 \/ maxrx < a) -> snd (rx_step maxrx tbl p au) = RTerminate.
Proof.
  intros Ha Hbad. unfold rx_step. rewrite Ha.
  assert ((a =? 0) || (maxrx <? a) = true) as ->.
  { destruct Hbad as [-> | Hlt]; [reflexivity|]. apply N.ltb_lt in Hlt. rewrite Hlt. apply orb_true_r. }
  reflexivity.
Qed.
