(* NoLoss.v — conservation of QoS>0 messages in the writer model (C02): over every guarded history a
   message without expiry that was handed to the client's session is, at every later moment, still
   pending somewhere (queued, in flight, waiting for retransmission, or in persistence) unless the
   client has acknowledged it. *)
From Coq Require Import List NArith ZArith Bool Lia.
Import ListNotations.
From VMQ Require Import model.Flow model.Writer proofs.WriterProofs.
Open Scope N_scope.

(* the message with payload tag t: a QoS 1/2 PUBLISH without expiry *)
Definition goodb (t : N) (p : pkt) : bool :=
  (ptag p =? t) && match pexp p with None => true | Some _ => false end &&
  match pk p with KPub 0 => false | KPub _ => true | KPubrel => false end.

(* everywhere a message can wait *)
Definition pend (w : writer) : list pkt := q12 w ++ qrel w ++ map snd (pubout w) ++ p_q12 w ++ p_unack w.
Definition P (t : N) (w : writer) : Prop := exists p, In p (pend w) /\ goodb t p = true.

(* tags of the PUBLISH entries an acknowledgement takes out of the in-flight table *)
Definition acked_step (w : writer) (e : ev) : list N :=
  match e with
  | EAck _ a => if alive w then map (fun x => ptag (snd x)) (filter (fun x => fst x =? ack_id a) (pubout w)) else []
  | _ => []
  end.

Fixpoint acked (w : writer) (es : list ev) : list N :=
  match es with [] => [] | e :: r => acked_step w e ++ acked (snd (fst (step w e))) r end.

Definition sent_good (t : N) (es : list ev) : Prop := exists now p, In (ESend now p) es /\ goodb t p = true.

Lemma goodb_with_id t p id : goodb t (with_id p id) = goodb t p.
Proof. reflexivity. Qed.

Lemma goodb_enc_unack t p : goodb t p = true -> goodb t (enc_unack p) = true.
Proof.
  unfold enc_unack, goodb, is_pub. destruct (pk p) as [q|]; cbn; [|intros H; rewrite andb_false_r in H; discriminate].
  destruct (pexp p); cbn; [rewrite andb_false_r; discriminate|]. intros H. exact H.
Qed.

Lemma goodb_not_expired t now p : goodb t p = true -> expired now p = false.
Proof. unfold goodb, expired. destruct (pexp p); [rewrite andb_false_r; cbn; discriminate | reflexivity]. Qed.

Lemma goodb_pub t p : goodb t p = true -> exists q, pk p = KPub q /\ q <> 0.
Proof.
  unfold goodb. destruct (pk p) as [[|q]|]; intros H; try (rewrite andb_false_r in H; discriminate).
  exists (N.pos q). split; [reflexivity | discriminate].
Qed.

Lemma in_store_other id p o x : ~ In id (keys o) -> In x o -> In x (store id p o).
Proof.
  intros Hn Hx. unfold store. right. apply filter_In. split; [exact Hx|]. apply negb_true_iff. apply N.eqb_neq.
  intros E. apply Hn. unfold keys. rewrite <- E. apply in_map. exact Hx.
Qed.

Ltac pend_in := unfold pend; cbn [q12 qrel pubout p_q12 p_unack]; rewrite ?in_app_iff, ?in_map_iff.

Lemma send_keeps t now w p0 : P t w -> P t (send now w p0).
Proof.
  intros [p [Hin Hg]]. exists p. split; [|exact Hg]. revert Hin. unfold send.
  destruct (alive w).
  - destruct (pk p0) as [[|q]|]; pend_in; intros H; tauto.
  - destruct (expired now p0); [tauto|]. destruct (pk p0) as [[|q]|]; pend_in; intros H; tauto.
Qed.

Lemma send_adds t now w p0 : goodb t p0 = true -> P t (send now w p0).
Proof.
  intros Hg. destruct (goodb_pub t p0 Hg) as [q [Hk Hq]]. unfold send. destruct (alive w).
  - rewrite Hk. destruct q as [|q]; [contradiction|]. exists p0. split; [|exact Hg]. pend_in. left. right. left. reflexivity.
  - rewrite (goodb_not_expired t now p0 Hg), Hk. destruct q as [|q]; [contradiction|].
    exists (with_id p0 0). split; [|exact Hg]. pend_in. right. right. right. left. right. left. reflexivity.
Qed.

Lemma in_snd_store_new id p o : In p (map snd (store id p o)).
Proof. apply in_map_iff. exists (id, p). split; [reflexivity | left; reflexivity]. Qed.

Lemma in_snd_store_other id p o x : ~ In id (keys o) -> In x (map snd o) -> In x (map snd (store id p o)).
Proof.
  intros Hn Hx. apply in_map_iff in Hx. destruct Hx as [y [Ey Hy]]. apply in_map_iff. exists y.
  split; [exact Ey | apply in_store_other; assumption].
Qed.

(* phase 1 of a round: the head of the retransmission queue goes (back) into the in-flight table *)
Definition ph1 (w : writer) : list pkt * list pkt * list (N * pkt) :=
  match qrel w with
  | [] => ([], [], pubout w)
  | p :: r => ([p], r, store (pid p) p (pubout w))
  end.

Lemma ph1_keeps w x : NoDup (ids w) ->
  In x (qrel w) \/ In x (map snd (pubout w)) -> In x (snd (fst (ph1 w))) \/ In x (map snd (snd (ph1 w))).
Proof.
  intros Hnd Hx. unfold ph1. destruct (qrel w) as [|p1 r] eqn:Eq; cbn [fst snd]; [destruct Hx as [[]|Hx]; right; exact Hx|].
  unfold ids in Hnd. rewrite Eq in Hnd. cbn [rids map] in Hnd.
  assert (Hn : ~ In (pid p1) (keys (pubout w))).
  { intros Hc. apply NoDup_app_move in Hnd. inversion Hnd as [|? ? Hni _]; subst. apply Hni. apply in_or_app. left. exact Hc. }
  destruct Hx as [[->|Hx]|Hx]; [right; apply in_snd_store_new | left; exact Hx | right; apply in_snd_store_other; assumption].
Qed.

Lemma ph1_keys w id : In id (keys (snd (ph1 w))) -> In id (ids w).
Proof.
  unfold ph1, ids. destruct (qrel w) as [|p1 r]; cbn [snd]; intros Hid.
  - apply in_or_app. left. exact Hid.
  - rewrite store_keys in Hid. destruct Hid as [<-|Hid]; [apply in_or_app; right; left; reflexivity|].
    apply remove_id_In in Hid. apply in_or_app. left. exact (proj2 Hid).
Qed.

Lemma pop_keeps t rm now w w' o : WInv rm w -> alive w = true -> pop_round now w = (Fine, w', o) -> P t w -> P t w'.
Proof.
  intros HI Ea Hp [p [Hin Hg]]. unfold pop_round in Hp. rewrite Ea in Hp. cbn [negb] in Hp.
  destruct HI as [_ _ _ _ Hnd Hids _ _].
  pose proof (ph1_keeps w p Hnd) as H1. pose proof (ph1_keys w) as Hk1. unfold ph1 in H1, Hk1.
  unfold pend in Hin. rewrite !in_app_iff in Hin.
  destruct (qrel w) as [|pr rr] eqn:Eqr; cbn [fst snd] in H1, Hk1.
  2: { (* a retransmission at the head: nothing new is popped behind it *)
       assert (Hin1 : In p (q12 w) \/ In p rr \/ In p (map snd (store (pid pr) pr (pubout w))) \/ In p (p_q12 w) \/ In p (p_unack w)).
       { destruct Hin as [H|[H|[H|H]]]; [left; exact H | destruct (H1 (or_introl H)); tauto | destruct (H1 (or_intror H)); tauto | tauto]. }
       destruct (q0 w) as [|p3 r3]; inversion Hp; subst; exists p; (split; [|exact Hg]);
         unfold pend, wr_set; cbn [q12 qrel pubout p_q12 p_unack]; rewrite !in_app_iff; exact Hin1. }
  (* where the message is after phase 1 *)
  assert (Hin1 : In p (q12 w) \/ In p (@nil pkt) \/ In p (map snd (pubout w)) \/ In p (p_q12 w) \/ In p (p_unack w)).
  { destruct Hin as [H|[H|[H|H]]]; [left; exact H | destruct H | destruct (H1 (or_intror H)); tauto | tauto]. }
  clear Hin H1.
  assert (Hdone : forall f2 q0' q12' out2,
            (In p q12' \/ In p (@nil pkt) \/ In p (map snd out2) \/ In p (p_q12 w) \/ In p (p_unack w)) ->
            P t (wr_set w f2 q0' q12' [] out2)).
  { intros f2 q0' q12' out2 H. exists p. split; [|exact Hg]. unfold pend, wr_set. cbn [q12 qrel pubout p_q12 p_unack]. rewrite !in_app_iff. exact H. }
  destruct (q12 w) as [|p2 r2] eqn:Eq2.
  - destruct (q0 w) as [|p3 r3]; inversion Hp; subst; apply Hdone; tauto.
  - destruct (quota_available (fl w)).
    + destruct (acquire (fl w)) as [[id f']| |] eqn:Eacq; [|destruct (q0 w); inversion Hp|destruct (q0 w); inversion Hp].
      assert (Hfresh : ~ In id (keys (pubout w))).
      { intros Hc. apply Hk1 in Hc. apply Hids in Hc. destruct (acquire_ok _ _ _ Eacq) as [Hni _]. exact (Hni Hc). }
      destruct (expired now (with_id p2 id)) eqn:Eex.
      * assert (Hne : p <> p2).
        { intros ->. rewrite (goodb_not_expired t now (with_id p2 id)) in Eex; [discriminate | rewrite goodb_with_id; exact Hg]. }
        destruct (q0 w) as [|p3 r3]; inversion Hp; subst; apply Hdone;
          (destruct Hin1 as [[E|H]|H]; [symmetry in E; contradiction | left; exact H | right; exact H]).
      * destruct (q0 w) as [|p3 r3]; inversion Hp; subst;
        (destruct Hin1 as [[<-|H]|[H|[H|H]]];
          [ exists (with_id p2 id); split; [|rewrite goodb_with_id; exact Hg];
            unfold pend, wr_set; cbn [q12 qrel pubout p_q12 p_unack]; rewrite !in_app_iff; right; right; left; apply in_snd_store_new
          | apply Hdone; left; exact H
          | apply Hdone; right; left; exact H
          | apply Hdone; right; right; left; apply in_snd_store_other; assumption
          | apply Hdone; tauto ]).
    + destruct (q0 w) as [|p3 r3]; inversion Hp; subst; apply Hdone; tauto.
Qed.

Lemma in_snd_del_out id o x : In x (map snd o) ->
  In x (map snd (del_out id o)) \/ In (ptag x) (map (fun y => ptag (snd y)) (filter (fun y => fst y =? id) o)).
Proof.
  intros Hx. apply in_map_iff in Hx. destruct Hx as [y [<- Hy]]. destruct (fst y =? id) eqn:E.
  - right. apply in_map_iff. exists y. split; [reflexivity|]. apply filter_In. auto.
  - left. apply in_map_iff. exists y. split; [reflexivity|]. unfold del_out. apply filter_In. rewrite E. auto.
Qed.

Lemma goodb_tag t p : goodb t p = true -> ptag p = t.
Proof. unfold goodb. intros H. apply andb_prop in H. destruct H as [H _]. apply andb_prop in H. destruct H as [H _]. apply N.eqb_eq. exact H. Qed.

Lemma ack_keeps t v5 w a : alive w = true -> P t w -> P t (on_ack v5 w a) \/ In t (acked_step w (EAck v5 a)).
Proof.
  intros Ea [p [Hin Hg]]. unfold acked_step. rewrite Ea. unfold pend in Hin. rewrite !in_app_iff in Hin.
  assert (Hmain : forall f2 qrel2, (forall x, In x (qrel w) -> In x qrel2) ->
            P t (wr_set w f2 (q0 w) (q12 w) qrel2 (del_out (ack_id a) (pubout w))) \/
            In t (map (fun x => ptag (snd x)) (filter (fun x => fst x =? ack_id a) (pubout w)))).
  { intros f2 qrel2 Hq. destruct Hin as [H|[H|[H|H]]].
    - left. exists p. split; [|exact Hg]. unfold pend, wr_set. cbn [q12 qrel pubout p_q12 p_unack]. rewrite !in_app_iff. tauto.
    - left. exists p. split; [|exact Hg]. unfold pend, wr_set. cbn [q12 qrel pubout p_q12 p_unack]. rewrite !in_app_iff. right. left. apply Hq. exact H.
    - destruct (in_snd_del_out (ack_id a) (pubout w) p H) as [H'|H'].
      + left. exists p. split; [|exact Hg]. unfold pend, wr_set. cbn [q12 qrel pubout p_q12 p_unack]. rewrite !in_app_iff. tauto.
      + right. rewrite (goodb_tag t p Hg) in H'. exact H'.
    - left. exists p. split; [|exact Hg]. unfold pend, wr_set. cbn [q12 qrel pubout p_q12 p_unack]. rewrite !in_app_iff. tauto. }
  destruct a as [id|id err|id]; cbn [on_ack ack_id] in *.
  - destruct (in_out id (pubout w)); [apply Hmain; auto|]. left. exists p. split; [|exact Hg]. unfold pend. rewrite !in_app_iff. exact Hin.
  - destruct (in_out id (pubout w)); [|left; exists p; split; [|exact Hg]; unfold pend; rewrite !in_app_iff; exact Hin].
    destruct (v5 && err); [apply Hmain; auto|]. apply Hmain. intros x Hx. apply in_or_app. left. exact Hx.
  - destruct (in_out id (pubout w)); [apply Hmain; auto|]. left. exists p. split; [|exact Hg]. unfold pend. rewrite !in_app_iff. exact Hin.
Qed.

Lemma close_keeps t now w : P t w -> P t (close now w).
Proof.
  intros [p [Hin Hg]]. unfold close. destruct (alive w); cbn [negb]; [|exists p; auto].
  unfold pend in Hin. rewrite !in_app_iff in Hin.
  assert (Hgoal : forall x, goodb t x = true ->
            In x (p_q12 w ++ flat_map (enc_queued now) (q12 w)) \/
            In x (p_unack w ++ map (fun y => enc_unack (snd y)) (rev (pubout w)) ++ map enc_unack (qrel w)) ->
            P t (mkWriter (fl w) [] [] [] [] false
                   (p_q0 w ++ (if offq0 w then flat_map (enc_queued now) (q0 w) else []))
                   (p_q12 w ++ flat_map (enc_queued now) (q12 w))
                   (p_unack w ++ map (fun y => enc_unack (snd y)) (rev (pubout w)) ++ map enc_unack (qrel w)) (offq0 w))).
  { intros x Hx H. exists x. split; [|exact Hx]. unfold pend. cbn [q12 qrel pubout p_q12 p_unack map app]. apply in_or_app. exact H. }
  destruct Hin as [H|[H|[H|[H|H]]]].
  - apply (Hgoal (with_id p 0)); [exact Hg|]. left. apply in_or_app. right. apply in_flat_map. exists p. split; [exact H|].
    unfold enc_queued. rewrite (goodb_not_expired t now p Hg). left. reflexivity.
  - apply (Hgoal (enc_unack p)); [apply goodb_enc_unack; exact Hg|]. right. apply in_or_app. right. apply in_or_app. right. apply in_map. exact H.
  - apply (Hgoal (enc_unack p)); [apply goodb_enc_unack; exact Hg|]. right. apply in_or_app. right. apply in_or_app. left.
    apply in_map_iff in H. destruct H as [y [<- Hy]]. apply in_map_iff. exists y. split; [reflexivity|]. apply in_rev in Hy. exact Hy.
  - apply (Hgoal p Hg). left. apply in_or_app. left. exact H.
  - apply (Hgoal p Hg). right. apply in_or_app. left. exact H.
Qed.

(* an offline writer holds nothing outside persistence *)
Definition OffEmpty (w : writer) : Prop := alive w = false -> q12 w = [] /\ qrel w = [] /\ pubout w = [].

Lemma step_offempty w e oc w' o : OffEmpty w -> step w e = (oc, w', o) -> OffEmpty w'.
Proof.
  intros HO Hs. destruct e as [now p|now|v5 a|now|r]; cbn [step] in Hs.
  - inversion Hs; subst. unfold send. destruct (alive w) eqn:Ea.
    + destruct (pk p) as [[|q]|]; intros H; discriminate.
    + destruct (expired now p); [exact HO|]. destruct (pk p) as [[|q]|]; intros _; cbn; apply HO; exact Ea.
  - unfold pop_round in Hs. destruct (alive w) eqn:Ea; cbn [negb] in Hs.
    + intros H. exfalso. revert Hs H.
      destruct (qrel w) as [|pr rr]; destruct (q12 w) as [|p2 r2]; try destruct (quota_available (fl w));
        try (destruct (acquire (fl w)) as [[id f']| |]; [destruct (expired now (with_id p2 id))| |]);
        destruct (q0 w) as [|p3 r3]; intros Hs; inversion Hs; subst; unfold wr_set; cbn [alive]; congruence.
    + inversion Hs; subst. exact HO.
  - inversion Hs; subst. destruct (alive w) eqn:Ea; [|exact HO]. intros H. rewrite on_ack_alive in H. congruence.
  - inversion Hs; subst. unfold close. destruct (alive w) eqn:Ea; cbn [negb]; [intros _; cbn; auto | exact HO].
  - inversion Hs; subst. unfold open. destruct (alive w) eqn:Ea; [intros H; congruence | intros H; discriminate].
Qed.

Lemma open_keeps t r w : OffEmpty w -> P t w -> P t (open r w).
Proof.
  intros HO [p [Hin Hg]]. unfold open. destruct (alive w) eqn:Ea; [exists p; auto|].
  destruct (HO Ea) as [E1 [E2 E3]]. unfold pend in Hin. rewrite E1, E2, E3 in Hin. cbn [map app] in Hin.
  exists p. split; [|exact Hg]. unfold pend. cbn [q12 qrel pubout p_q12 p_unack map app]. rewrite app_nil_r.
  apply in_app_or in Hin. apply in_or_app. exact Hin.
Qed.

(* one event *)
Lemma step_keeps t rm w e w' o : Inv rm w -> OffEmpty w -> step w e = (Fine, w', o) ->
  P t w -> P t w' \/ In t (acked_step w e).
Proof.
  intros HI HO Hs HP. destruct e as [now p|now|v5 a|now|r]; cbn [step] in Hs.
  - inversion Hs; subst. left. apply send_keeps. exact HP.
  - left. destruct (alive w) eqn:Ea.
    + unfold Inv in HI. rewrite Ea in HI. exact (pop_keeps t rm now w w' o HI Ea Hs HP).
    + unfold pop_round in Hs. rewrite Ea in Hs. cbn [negb] in Hs. inversion Hs; subst. exact HP.
  - inversion Hs; subst. destruct (alive w) eqn:Ea; [apply ack_keeps; assumption|]. left. exact HP.
  - inversion Hs; subst. left. apply close_keeps. exact HP.
  - inversion Hs; subst. left. apply open_keeps; assumption.
Qed.

Lemma init_offempty rm oq : OffEmpty (init rm oq).
Proof. intros H. discriminate. Qed.

(* every history *)
Theorem no_loss t es : forall rm w w' outs,
  Inv rm w -> OffEmpty w -> guarded w es -> run w es = (Fine, w', outs) ->
  P t w \/ sent_good t es -> P t w' \/ In t (acked w es).
Proof.
  induction es as [|e r IH]; intros rm w w' outs HI HO Hg Hr Hpre; cbn [run acked] in *.
  - inversion Hr; subst. destruct Hpre as [H|[now [p [[] _]]]]. left. exact H.
  - destruct Hg as [Hok Hg]. destruct (step w e) as [[oc w1] o] eqn:Es. cbn [fst snd] in *.
    destruct oc; [|discriminate]. destruct (run w1 r) as [[oc2 w2] os] eqn:Er. inversion Hr; subst.
    destruct (step_inv _ _ _ _ _ HI Hok Es) as [HI1 _]. pose proof (step_offempty _ _ _ _ _ HO Es) as HO1.
    (* is the message pending after this event, or acknowledged by it, or still to be sent? *)
    assert (Hcase : P t w1 \/ In t (acked_step w e) \/ sent_good t r).
    { destruct Hpre as [HP|[now [p [[E|Hin] Hgd]]]].
      - destruct (step_keeps t rm w e w1 o HI HO Es HP); tauto.
      - subst e. cbn [step] in Es. inversion Es; subst. left. apply send_adds. exact Hgd.
      - right. right. exists now, p. auto. }
    destruct Hcase as [HP|[Ha|Hs]].
    + destruct (IH _ _ _ _ HI1 HO1 Hg Er (or_introl HP)) as [H|H]; [left; exact H | right; apply in_or_app; right; exact H].
    + right. apply in_or_app. left. exact Ha.
    + destruct (IH _ _ _ _ HI1 HO1 Hg Er (or_intror Hs)) as [H|H]; [left; exact H | right; apply in_or_app; right; exact H].
Qed.
