From Coq Require Import List NArith Arith Bool Lia.
Import ListNotations.
From VMQ Require Import model.Framing.
Local Open Scope nat_scope.

Lemma logical_fill k s : logical (fill k s) = logical s.
Proof. unfold logical, fill. cbn [fst snd]. rewrite <- app_assoc, firstn_skipn. reflexivity. Qed.

Lemma fill_snd_length k s : snd s <> [] -> 1 <= k -> length (snd (fill k s)) < length (snd s).
Proof.
  intros Hne Hk. destruct s as [b r]. unfold fill. cbn [snd] in *. rewrite skipn_length. destruct r; [contradiction|]. cbn [length]. lia.
Qed.

Lemma next_chunk_pos o : 1 <= fst (next_chunk o).
Proof. destruct o as [|k r]; cbn [next_chunk fst]; lia. Qed.

Definition peek_pure (n : nat) (l : list byte) : option (list byte) :=
  if n <=? length l then Some (firstn n l) else None.

Lemma peek_spec fuel : forall n o s, length (snd s) < fuel ->
  let '(r, o', s') := peek fuel n o s in
  logical s' = logical s /\ r = peek_pure n (logical s) /\ length (snd s') <= length (snd s).
Proof.
  induction fuel as [|f IH]; intros n o s Hf; [lia|]. cbn [peek].
  destruct (n <=? length (fst s)) eqn:E.
  - apply Nat.leb_le in E. split; [reflexivity|]. split; [|lia]. unfold peek_pure, logical.
    assert (n <=? length (fst s ++ snd s) = true) as -> by (apply Nat.leb_le; rewrite app_length; lia).
    rewrite firstn_app. replace (n - length (fst s)) with 0 by lia. cbn [firstn]. rewrite app_nil_r. reflexivity.
  - apply Nat.leb_gt in E. destruct (snd s) as [|x r] eqn:Es.
    + split; [reflexivity|]. split; [|rewrite ?Es; cbn [length]; lia]. unfold peek_pure, logical. rewrite Es, app_nil_r.
      assert (n <=? length (fst s) = false) as -> by (apply Nat.leb_gt; exact E). reflexivity.
    + destruct (next_chunk o) as [k o'] eqn:Ec.
      pose proof (next_chunk_pos o) as Hk. rewrite Ec in Hk. cbn [fst] in Hk.
      assert (snd s <> []) as Hne by (rewrite Es; discriminate).
      pose proof (fill_snd_length k s Hne Hk) as Hl.
      rewrite Es in Hl. cbn [length] in Hl, Hf.
      specialize (IH n o' (fill k s) ltac:(lia)). destruct (peek f n o' (fill k s)) as [[r2 o2] s2].
      destruct IH as [A [B C]]. rewrite logical_fill in A, B. split; [exact A|]. split; [exact B|]. cbn [length]. lia.
Qed.

Definition exact_pure (n : nat) (l : list byte) : option (list byte) * list byte :=
  if n <=? length l then (Some (firstn n l), skipn n l) else (None, l).

Lemma read_exact_spec fuel : forall n o s, 2 * n + length (snd s) < fuel ->
  let '(r, o', s') := read_exact fuel n o s in
  r = fst (exact_pure n (logical s)) /\ (r <> None -> logical s' = snd (exact_pure n (logical s))).
Proof.
  induction fuel as [|f IH]; intros n o s Hf; [lia|]. destruct n as [|n].
  - cbn [read_exact]. unfold exact_pure. cbn [Nat.leb firstn skipn fst snd]. split; [reflexivity|]. intros _. reflexivity.
  - cbn [read_exact]. destruct (fst s) as [|b0 br] eqn:Eb.
    + destruct (snd s) as [|x r] eqn:Es.
      * unfold exact_pure, logical. rewrite Eb, Es. cbn [app length Nat.leb fst]. split; [reflexivity|]. intros H; contradiction.
      * destruct (next_chunk o) as [k o'] eqn:Ec.
        pose proof (next_chunk_pos o) as Hk. rewrite Ec in Hk. cbn [fst] in Hk.
        assert (snd s <> []) as Hne by (rewrite Es; discriminate).
        pose proof (fill_snd_length k s Hne Hk) as Hl. rewrite Es in Hl. cbn [length] in Hl, Hf.
        specialize (IH (S n) o' (fill k s) ltac:(lia)).
        destruct (read_exact f (S n) o' (fill k s)) as [[r2 o2] s2]. rewrite logical_fill in IH. exact IH.
    + set (b := b0 :: br) in *.
      set (got := firstn (S n) b).
      set (s' := (skipn (S n) b, snd s)).
      assert (1 <= length got) as Hg by (unfold got, b; cbn [firstn length]; lia).
      specialize (IH (S n - length got) o s' ltac:(unfold s'; cbn [snd]; lia)).
      destruct (read_exact f (S n - length got) o s') as [[r2 o2] s2]. destruct IH as [Hr Hs].
      assert (logical s = b ++ snd s) as Hlog by (unfold logical; rewrite Eb; reflexivity).
      assert (logical s' = skipn (S n) b ++ snd s) as Hlog' by reflexivity.
      rewrite Hlog. rewrite Hlog' in Hr, Hs. unfold exact_pure in *. rewrite app_length in *.
      destruct (Nat.le_gt_cases (S n) (length b)) as [Hle|Hgt].
      * (* everything comes from the buffer *)
        assert (length got = S n) as Hlg by (unfold got; rewrite firstn_length; lia).
        rewrite Hlg, Nat.sub_diag in Hr, Hs. cbn [Nat.leb firstn skipn fst snd] in Hr, Hs. subst r2.
        assert (S n <=? length b + length (snd s) = true) as -> by (apply Nat.leb_le; lia).
        cbn [fst snd]. rewrite app_nil_r. split.
        -- f_equal. rewrite firstn_app. replace (S n - length b) with 0 by lia. cbn [firstn]. rewrite app_nil_r. reflexivity.
        -- intros _. rewrite (Hs ltac:(discriminate)). rewrite skipn_app. replace (S n - length b) with 0 by lia. reflexivity.
      * (* the buffer is drained and more is read *)
        assert (got = b) as Hgb by (unfold got; apply firstn_all2; lia).
        assert (skipn (S n) b = []) as Hsk by (apply skipn_all2; lia).
        rewrite Hgb in *. rewrite Hsk in Hr, Hs. cbn [app length] in Hr, Hs.
        change (0 + length (snd s)) with (length (snd s)) in *.
        destruct (S n - length b <=? length (snd s)) eqn:E1.
        -- apply Nat.leb_le in E1. cbn [fst snd] in Hr, Hs. subst r2.
           assert (S n <=? length b + length (snd s) = true) as -> by (apply Nat.leb_le; lia).
           cbn [fst snd]. split.
           ++ f_equal. rewrite firstn_app. f_equal. symmetry. apply firstn_all2. lia.
           ++ intros _. rewrite (Hs ltac:(discriminate)). rewrite skipn_app, Hsk. reflexivity.
        -- apply Nat.leb_gt in E1. cbn [fst snd] in Hr. subst r2.
           assert (S n <=? length b + length (snd s) = false) as -> by (apply Nat.leb_gt; lia).
           cbn [fst]. split; [reflexivity|]. intros H; contradiction.
Qed.

(* ---------------- the header scan and the whole packet depend on the bytes alone ---------------- *)
Fixpoint scan_pure (fuel pc : nat) (l : list byte) : option (list byte) * bool :=
  match fuel with
  | O => (None, false)
  | S f =>
      if 5 <? pc then (None, true) else
      match peek_pure pc l with
      | None => (None, false)
      | Some hb => if 128 <=? N.to_nat (last hb 0%N) then scan_pure f (S pc) l else (Some hb, false)
      end
  end.

Lemma scan_header_spec fuel : forall pc o s big, length (snd s) < big ->
  let '(h, perr, o', s') := scan_header fuel pc o s big in
  logical s' = logical s /\ (h, perr) = scan_pure fuel pc (logical s) /\ length (snd s') <= length (snd s).
Proof.
  induction fuel as [|f IH]; intros pc o s big Hb; cbn [scan_header scan_pure]; [auto|].
  destruct (5 <? pc); [auto|].
  pose proof (peek_spec big pc o s Hb) as Hp. destruct (peek big pc o s) as [[h o1] s1]. destruct Hp as [A [B C]].
  subst h. destruct (peek_pure pc (logical s)) as [hb|]; [|auto].
  destruct (128 <=? N.to_nat (last hb 0%N)); [|auto].
  specialize (IH (S pc) o1 s1 big ltac:(lia)). destruct (scan_header f (S pc) o1 s1 big) as [[[h2 pe2] o2] s2].
  destruct IH as [A2 [B2 C2]]. rewrite A in A2, B2. split; [exact A2|]. split; [exact B2|lia].
Qed.

Definition packet_pure (maxsize : nat) (l : list byte) : fres * list fev * list byte :=
  let '(h, perr) := scan_pure 5 2 l in
  if perr then (ProtoError, [], l) else
  match h with
  | None => (NeedMore, [], l)
  | Some hb =>
      match varint (tl hb) 1 0 0 with
      | None => (ProtoError, [], l)
      | Some (remlen, m) =>
          let total := 1 + remlen + m in
          if maxsize <? total then (TooLarge, [], l) else
          match exact_pure total l with
          | (Some bs, rest) => (Frame bs, [Alloc total], rest)
          | (None, _) => (NeedMore, [Alloc total], l)
          end
      end
  end.

Lemma read_packet_spec maxsize o s :
  let '(r, ev, o', s') := read_packet maxsize o s in
  (r, ev) = (fst (fst (packet_pure maxsize (logical s))), snd (fst (packet_pure maxsize (logical s)))) /\
  (forall bs, r = Frame bs -> logical s' = snd (packet_pure maxsize (logical s))).
Proof.
  unfold read_packet, packet_pure.
  pose proof (scan_header_spec 5 2 o s (S (length (snd s))) ltac:(lia)) as Hs.
  destruct (scan_header 5 2 o s (S (length (snd s)))) as [[[h perr] o1] s1]. destruct Hs as [A [B C]].
  rewrite <- B. destruct perr; [split; [reflexivity|intros bs H; discriminate]|].
  destruct h as [hb|]; [|split; [reflexivity|intros bs H; discriminate]].
  destruct (varint (tl hb) 1 0 0) as [[remlen m]|]; [|split; [reflexivity|intros bs H; discriminate]].
  destruct (maxsize <? 1 + remlen + m); [split; [reflexivity|intros bs H; discriminate]|].
  pose proof (read_exact_spec (S (2 * (1 + remlen + m) + length (snd s1))) (1 + remlen + m) o1 s1 ltac:(lia)) as Hr.
  destruct (read_exact (S (2 * (1 + remlen + m) + length (snd s1))) (1 + remlen + m) o1 s1) as [[r o2] s2].
  destruct Hr as [Hr1 Hr2]. rewrite A in Hr1, Hr2.
  destruct (exact_pure (1 + remlen + m) (logical s)) as [[bs|] rest] eqn:Ee; cbn [fst snd] in *; subst r.
  - split; [reflexivity|]. intros bs0 _. apply Hr2. discriminate.
  - split; [reflexivity|]. intros bs0 H. discriminate.
Qed.

Fixpoint all_pure (fuel maxsize : nat) (l : list byte) : list fres * list fev :=
  match fuel with
  | O => ([], [])
  | S f =>
      match l with
      | [] => ([], [])
      | _ =>
          let '(r, ev, rest) := packet_pure maxsize l in
          match r with
          | Frame _ => let '(rs, evs) := all_pure f maxsize rest in (r :: rs, ev ++ evs)
          | _ => ([r], ev)
          end
      end
  end.

(* what the reader extracts from a connection is a function of the byte stream alone: the chunking
   oracle and what happens to be buffered already do not matter *)
Theorem read_all_depends_on_bytes_only fuel maxsize : forall o s,
  read_all fuel maxsize o s = all_pure fuel maxsize (logical s).
Proof.
  induction fuel as [|f IH]; intros o s; cbn [read_all all_pure]; [reflexivity|].
  destruct (logical s) as [|x l] eqn:El; [reflexivity|]. rewrite <- El.
  pose proof (read_packet_spec maxsize o s) as Hp. destruct (read_packet maxsize o s) as [[[r ev] o1] s1].
  destruct Hp as [A B]. destruct (packet_pure maxsize (logical s)) as [[r' ev'] rest]. cbn [fst snd] in *.
  inversion A; subst r' ev'. destruct r as [bs| | |]; try reflexivity.
  rewrite (IH o1 s1). rewrite (B bs eq_refl). reflexivity.
Qed.

Corollary segmentation_independent fuel maxsize o1 o2 s1 s2 :
  logical s1 = logical s2 -> read_all fuel maxsize o1 s1 = read_all fuel maxsize o2 s2.
Proof. intros H. rewrite !read_all_depends_on_bytes_only, H. reflexivity. Qed.

(* no buffer is allocated for a packet that is rejected as too large, and every allocation is bounded
   by the configured maximum *)
Lemma packet_alloc_bounded maxsize l : forall n, In (Alloc n) (snd (fst (packet_pure maxsize l))) -> n <= maxsize.
Proof.
  intros n. unfold packet_pure. destruct (scan_pure 5 2 l) as [h perr]. destruct perr; [intros []|].
  destruct h as [hb|]; [|intros []]. destruct (varint (tl hb) 1 0 0) as [[remlen m]|]; [|intros []].
  destruct (maxsize <? 1 + remlen + m) eqn:E; [intros []|]. apply Nat.ltb_ge in E.
  destruct (exact_pure (1 + remlen + m) l) as [[bs|] rest]; cbn [fst snd]; intros [H|[]]; inversion H; subst; exact E.
Qed.

Theorem alloc_bounded fuel maxsize : forall o s n, In (Alloc n) (snd (read_all fuel maxsize o s)) -> n <= maxsize.
Proof.
  intros o s n. rewrite read_all_depends_on_bytes_only. generalize (logical s). clear o s.
  induction fuel as [|f IH]; intros l; cbn [all_pure]; [intros []|]. destruct l as [|x l']; [intros []|].
  pose proof (packet_alloc_bounded maxsize (x :: l') n) as Hb.
  destruct (packet_pure maxsize (x :: l')) as [[r ev] rest]. cbn [fst snd] in Hb.
  destruct r as [bs| | |]; cbn [snd]; try exact Hb.
  destruct (all_pure f maxsize rest) as [rs evs] eqn:Ea. cbn [snd]. intros Hin. apply in_app_or in Hin.
  destruct Hin as [Hin|Hin]; [apply Hb; exact Hin|]. specialize (IH rest). rewrite Ea in IH. apply IH. exact Hin.
Qed.
