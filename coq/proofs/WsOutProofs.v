From Coq Require Import List NArith Bool Lia Arith.
Import ListNotations.
From VMQ Require Import model.WsOut.
Local Open Scope N_scope.

Lemma interleave_map {A B} (g : A -> B) a b l :
  Interleave (map g a) (map g b) l -> exists fs, Interleave a b fs /\ l = map g fs.
Proof.
  remember (map g a) as ma eqn:Ea. remember (map g b) as mb eqn:Eb. intros H. revert a b Ea Eb.
  induction H as [|x a' b' l H IH|y a' b' l H IH]; intros a b Ea Eb.
  - destruct a; [|discriminate]. destruct b; [|discriminate]. exists []. split; [constructor|reflexivity].
  - destruct a as [|x0 a0]; [discriminate|]. cbn [map] in Ea. inversion Ea; subst.
    destruct (IH a0 b eq_refl eq_refl) as [fs [H1 H2]]. exists (x0 :: fs). split; [constructor; exact H1|cbn; f_equal; exact H2].
  - destruct b as [|y0 b0]; [discriminate|]. cbn [map] in Eb. inversion Eb; subst.
    destruct (IH a b0 eq_refl eq_refl) as [fs [H1 H2]]. exists (y0 :: fs). split; [constructor; exact H1|cbn; f_equal; exact H2].
Qed.

Lemma interleave_forall {A} (P : A -> Prop) a b l :
  Interleave a b l -> Forall P a -> Forall P b -> Forall P l.
Proof.
  induction 1 as [|x a b l H IH|y a b l H IH]; intros Ha Hb; [constructor| |].
  - inversion Ha; subst. constructor; [assumption|apply IH; assumption].
  - inversion Hb; subst. constructor; [assumption|apply IH; assumption].
Qed.

(* a stream of WHOLE frames is read back as exactly those frames *)
Lemma parse_whole fs : Forall small fs -> forall fuel, (length fs <= fuel)%nat ->
  parse fuel (concat (map whole fs)) = Some fs.
Proof.
  induction fs as [|f r IH]; intros Hs fuel Hf.
  - destruct fuel; reflexivity.
  - destruct fuel as [|k]; [cbn in Hf; lia|]. inversion Hs as [|? ? Hsm Hr]; subst.
    cbn [map concat]. unfold whole at 1, header. cbn [app parse].
    unfold small in Hsm.
    assert (N.to_nat (N.of_nat (length (f_payload f))) = length (f_payload f)) as E by apply Nat2N.id.
    rewrite E.
    assert (Nat.ltb (length (f_payload f ++ concat (map whole r))) (length (f_payload f)) = false) as E2.
    { apply Nat.ltb_ge. rewrite app_length. lia. }
    rewrite E2.
    assert (skipn (length (f_payload f)) (f_payload f ++ concat (map whole r)) = concat (map whole r)) as E3.
    { rewrite skipn_app, skipn_all, Nat.sub_diag. reflexivity. }
    assert (firstn (length (f_payload f)) (f_payload f ++ concat (map whole r)) = f_payload f) as E4.
    { rewrite firstn_app, firstn_all, Nat.sub_diag. cbn. apply app_nil_r. }
    rewrite E3, E4, (IH Hr k); [destruct f; reflexivity|cbn in Hf; lia].
Qed.

(* with the write lock: whatever the schedule of the two writers, the client reads an interleaving of their frames *)
Theorem locked_writers_frames_intact data ctl l :
  Forall small data -> Forall small ctl ->
  Interleave (map whole data) (map whole ctl) l ->
  exists fs, Interleave data ctl fs /\ parse (length fs) (concat l) = Some fs.
Proof.
  intros Hd Hc H. destruct (interleave_map whole data ctl l H) as [fs [H1 H2]]. exists fs. split; [exact H1|].
  subst l. apply parse_whole; [|lia]. exact (interleave_forall small data ctl fs H1 Hd Hc).
Qed.

(* without it: a data frame in two writes, a PONG of the other goroutine between them - the client reads something else *)
Theorem split_writes_refuted :
  exists (d p : frame) l, small d /\ small p /\
    Interleave (split d) [whole p] l /\
    parse 2 (concat l) <> Some [d; p] /\ parse 2 (concat l) <> Some [p; d].
Proof.
  exists (mkF 130 [7; 8; 9]), (mkF 138 []), [header (mkF 130 [7; 8; 9]); whole (mkF 138 []); [7; 8; 9]].
  split; [unfold small; cbn; lia|]. split; [unfold small; cbn; lia|].
  split; [unfold split; repeat constructor|]. vm_compute. split; discriminate.
Qed.

Example locked_nonvacuous :
  exists l, Interleave (map whole [mkF 130 [1; 2]; mkF 130 [3]]) (map whole [mkF 138 []]) l /\
            parse 3 (concat l) = Some [mkF 130 [1; 2]; mkF 138 []; mkF 130 [3]].
Proof. eexists. split; [cbn [map]; apply IL_left; apply IL_right; apply IL_left; constructor|]. vm_compute. reflexivity. Qed.
