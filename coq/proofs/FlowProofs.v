(* The identifier search of flow.acquire always finds a free identifier while fewer than 65535
   are in use: the candidates next_id^1(c) .. next_id^65536(c) cover all of 1..65535. *)
From Coq Require Import List NArith ZArith Bool Lia ZifyN ZifyNat ZifyBool FinFun.
Import ListNotations.
From VMQ Require Import model.Flow.
Open Scope N_scope.
Ltac Zify.zify_post_hook ::= Z.div_mod_to_equations.

Fixpoint it_id (k : nat) (c : N) : N :=
  match k with O => c | S k' => it_id k' (next_id c) end.

Lemma mem_In' x l : mem x l = true <-> In x l.
Proof.
  unfold mem. rewrite existsb_exists. split.
  - intros [y [Hy He]]. apply N.eqb_eq in He. subst. exact Hy.
  - intros H. exists x. split; [exact H|apply N.eqb_refl].
Qed.

Lemma loop_none fuel : forall c used,
  acquire_loop fuel c used = None -> forall k, (1 <= k <= fuel)%nat -> In (it_id k c) used.
Proof.
  induction fuel as [|f IH]; intros c used H k Hk; [lia|].
  cbn [acquire_loop] in H. destruct (mem (next_id c) used) eqn:E; [|discriminate].
  destruct k as [|k]; [lia|]. cbn [it_id]. destruct k as [|k].
  - cbn [it_id]. apply mem_In'. exact E.
  - apply (IH _ _ H (S k)). lia.
Qed.

Lemma next_id_range c : 1 <= next_id c <= 65535.
Proof. unfold next_id. destruct (65535 <=? c) eqn:E; lia. Qed.

Lemma it_id_formula j : forall c, 1 <= c <= 65535 ->
  it_id j c = ((c - 1 + N.of_nat j) mod 65535) + 1.
Proof.
  induction j as [|j IH]; intros c Hc; cbn [it_id].
  - lia.
  - rewrite IH by apply next_id_range. unfold next_id. destruct (65535 <=? c) eqn:E; lia.
Qed.

Lemma covers c t : 1 <= t <= 65535 -> exists k, (1 <= k <= acquire_fuel)%nat /\ it_id k c = t.
Proof.
  intros Ht. pose proof (next_id_range c) as Hr.
  set (j := (t + 65535 - next_id c) mod 65535).
  assert (j < 65535) as Hj by (unfold j; lia).
  exists (S (N.to_nat j)). split; [unfold acquire_fuel; lia|].
  cbn [it_id]. rewrite it_id_formula by exact Hr. rewrite Nnat.N2Nat.id. unfold j. lia.
Qed.

Lemma acquire_loop_finds c used :
  NoDup used -> (length used < N.to_nat 65535)%nat -> acquire_loop acquire_fuel c used <> None.
Proof.
  intros Hnd Hlen Hnone.
  assert (forall t, 1 <= t <= 65535 -> In t used) as Hall.
  { intros t Ht. destruct (covers c t Ht) as [k [Hk <-]]. apply (loop_none _ _ _ Hnone). exact Hk. }
  set (all := map N.of_nat (seq 1 (N.to_nat 65535))).
  assert (incl all used) as Hincl.
  { intros x Hx. unfold all in Hx. apply in_map_iff in Hx. destruct Hx as [n [<- Hn]]. apply in_seq in Hn. apply Hall. lia. }
  assert (NoDup all) as Hnda.
  { unfold all. apply FinFun.Injective_map_NoDup; [intros a b Hab; lia|apply seq_NoDup]. }
  pose proof (NoDup_incl_length Hnda Hincl) as Hl. unfold all in Hl. rewrite map_length, seq_length in Hl. lia.
Qed.
