(* TrieHistory.v — the index tree after ANY history of subscribe / re-subscribe / unsubscribe /
   retain-set / retain-clear is well-formed and holds exactly the abstract subscription map of the
   history (Match.abs_subs).  Lifts search_top_spec to whole histories (C01, C07). *)
From Coq Require Import List NArith Bool.
Import ListNotations.
From VMQ Require Import model.Trie model.Match proofs.TrieProofs.
Open Scope N_scope.

(* ---------- children maps ---------- *)

Lemma keys_setk l c ks : NoDup (map fst ks) -> NoDup (map fst (setk l c ks)) /\
  (forall l' c', In (l', c') (setk l c ks) <-> (l' = l /\ c' = c) \/ (l' <> l /\ In (l', c') ks)).
Proof.
  induction ks as [|[l0 c0] ks IH]; intros Hnd; cbn [setk].
  - split; [constructor; [intros []|constructor]|]. intros l' c'. split.
    + intros [H|[]]. inversion H; subst. left. auto.
    + intros [[-> ->]|[_ []]]. left. reflexivity.
  - cbn [map fst] in Hnd. inversion Hnd as [|? ? Hn Hnd']; subst. destruct (lvl_eqb l l0) eqn:E.
    + apply lvl_eqb_eq in E. subst l0. split; [cbn [map fst]; constructor; assumption|].
      intros l' c'. split.
      * intros [H|H]; [inversion H; subst; left; auto|]. right. split; [|right; exact H].
        intros ->. apply Hn. apply in_map_iff. exists (l, c'). auto.
      * intros [[-> ->]|[Hne [H|H]]]; [left; reflexivity| inversion H; subst; contradiction | right; exact H].
    + apply lvl_eqb_neq in E. destruct (IH Hnd') as [IH1 IH2]. split.
      * cbn [map fst]. constructor; [|exact IH1]. intros Hin. apply in_map_iff in Hin. destruct Hin as [[l1 c1] [He Hin]].
        cbn [fst] in He. subst l1. apply IH2 in Hin. destruct Hin as [[-> _]|[_ Hin]]; [apply E; reflexivity|].
        apply Hn. apply in_map_iff. exists (l0, c1). auto.
      * intros l' c'. split.
        -- intros [H|H]; [inversion H; subst; right; split; [intros ->; apply E; reflexivity | left; reflexivity]|].
           apply IH2 in H. destruct H as [H|[Hne H]]; [left; exact H | right; split; [exact Hne | right; exact H]].
        -- intros [[-> ->]|[Hne [H|H]]].
           ++ right. apply IH2. left. auto.
           ++ left. exact H.
           ++ right. apply IH2. right. auto.
Qed.

Lemma keys_delk l ks : NoDup (map fst ks) -> NoDup (map fst (delk l ks)) /\
  (forall l' c', In (l', c') (delk l ks) <-> (l' <> l /\ In (l', c') ks)).
Proof.
  induction ks as [|[l0 c0] ks IH]; intros Hnd; cbn [delk].
  - split; [constructor|]. intros l' c'. split; [intros []|intros [_ []]].
  - cbn [map fst] in Hnd. inversion Hnd as [|? ? Hn Hnd']; subst. destruct (lvl_eqb l l0) eqn:E.
    + apply lvl_eqb_eq in E. subst l0. split; [exact Hnd'|]. intros l' c'. split.
      * intros H. split; [|right; exact H]. intros ->. apply Hn. apply in_map_iff. exists (l, c'). auto.
      * intros [Hne [H|H]]; [inversion H; subst; contradiction | exact H].
    + apply lvl_eqb_neq in E. destruct (IH Hnd') as [IH1 IH2]. split.
      * cbn [map fst]. constructor; [|exact IH1]. intros Hin. apply in_map_iff in Hin. destruct Hin as [[l1 c1] [He Hin]].
        cbn [fst] in He. subst l1. apply IH2 in Hin. destruct Hin as [_ Hin]. apply Hn. apply in_map_iff. exists (l0, c1). auto.
      * intros l' c'. split.
        -- intros [H|H]; [inversion H; subst; split; [intros ->; apply E; reflexivity | left; reflexivity]|].
           apply IH2 in H. destruct H as [Hne H]. split; [exact Hne | right; exact H].
        -- intros [Hne [H|H]]; [left; exact H | right; apply IH2; auto].
Qed.

Lemma findk_none l ks : findk l ks = None -> forall c, ~ In (l, c) ks.
Proof.
  induction ks as [|[l0 c0] ks IH]; cbn [findk]; intros H c Hin; [destruct Hin|].
  destruct (lvl_eqb l l0) eqn:E; [discriminate|]. destruct Hin as [He|Hin]; [inversion He; subst; rewrite lvl_eqb_refl in E; discriminate|].
  apply (IH H c Hin).
Qed.

Lemma is_empty_tsubs n : is_empty n = true -> tsubs n = [].
Proof. destruct n as [[|] [|] [|]]; cbn; intros H; try discriminate. reflexivity. Qed.

Lemma wf_empty : wf empty_node.
Proof. constructor; [constructor | intros l c []]. Qed.

Lemma tsubs_empty : tsubs empty_node = [].
Proof. reflexivity. Qed.

(* ---------- subscription lists ---------- *)

Lemma in_set_sub s sp ss x : In x (set_sub s sp ss) <-> x = (s, sp) \/ (In x ss /\ fst x <> s).
Proof.
  unfold set_sub. cbn [In]. rewrite filter_In. split.
  - intros [H|[H1 H2]]; [left; symmetry; exact H|]. right. split; [exact H1|]. intros E. rewrite E, N.eqb_refl in H2. discriminate.
  - intros [->|[H1 H2]]; [left; reflexivity|]. right. split; [exact H1|]. apply negb_true_iff. apply N.eqb_neq. exact H2.
Qed.

Lemma in_del_sub s ss x : In x (del_sub s ss) <-> In x ss /\ fst x <> s.
Proof.
  unfold del_sub. rewrite filter_In. split.
  - intros [H1 H2]. split; [exact H1|]. intros E. rewrite E, N.eqb_refl in H2. discriminate.
  - intros [H1 H2]. split; [exact H1|]. apply negb_true_iff. apply N.eqb_neq. exact H2.
Qed.

(* ---------- insert ---------- *)

Lemma insert_spec p : forall s sp n, wf n ->
  wf (fst (insert p s sp n)) /\
  forall q x, In (q, x) (tsubs (fst (insert p s sp n))) <->
              (q = p /\ x = (s, sp)) \/ (In (q, x) (tsubs n) /\ ~ (q = p /\ fst x = s)).
Proof.
  induction p as [|l p IH]; intros s sp n Hwf; destruct n as [ss r ks]; cbn [insert nsubs nret nkids].
  - cbn [fst]. inversion Hwf as [? ? ? Hnd Hk]; subst. split; [constructor; assumption|].
    intros q x. rewrite !tsubs_in. split.
    + intros [[-> Hx]|[l [c [p' [-> [Hin Ht]]]]]].
      * apply in_set_sub in Hx. destruct Hx as [->|[Hx Hne]]; [left; auto|]. right. split; [left; auto|]. intros [_ E]. contradiction.
      * right. split; [right; exists l, c, p'; auto|]. intros [E _]. discriminate.
    + intros [[-> ->]|[[[-> Hx]|[l [c [p' [-> [Hin Ht]]]]]] Hn]].
      * left. split; [reflexivity|]. apply in_set_sub. left. reflexivity.
      * left. split; [reflexivity|]. apply in_set_sub. right. split; [exact Hx|]. intros E. apply Hn. auto.
      * right. exists l, c, p'. auto.
  - inversion Hwf as [? ? ? Hnd Hk]; subst.
    set (c0 := match findk l ks with Some c => c | None => empty_node end).
    assert (Hc0 : wf c0).
    { unfold c0. destruct (findk l ks) as [c|] eqn:Hf; [apply (Hk l c); apply findk_in; assumption | apply wf_empty]. }
    assert (Hc0s : forall p' x, In (p', x) (tsubs c0) <-> exists c, In (l, c) ks /\ In (p', x) (tsubs c)).
    { intros p' x. unfold c0. destruct (findk l ks) as [c|] eqn:Hf.
      - apply findk_in in Hf; [|exact Hnd]. split; [intros H; exists c; auto|].
        intros [c' [Hin Ht]]. assert (c' = c).
        { apply findk_in in Hin; [|exact Hnd]. apply findk_in in Hf; [|exact Hnd]. congruence. }
        subst. exact Ht.
      - rewrite tsubs_empty. split; [intros []|]. intros [c [Hin _]]. exfalso. exact (findk_none l ks Hf c Hin). }
    destruct (IH s sp c0 Hc0) as [IHw IHs]. destruct (insert p s sp c0) as [c' ex]. cbn [fst] in *.
    destruct (keys_setk l c' ks Hnd) as [Hnd' Hin'].
    split.
    + constructor; [exact Hnd'|]. intros l1 c1 H1. apply Hin' in H1. destruct H1 as [[-> ->]|[_ H1]]; [exact IHw | apply (Hk l1 c1 H1)].
    + intros q x. rewrite !tsubs_in. split.
      * intros [[-> Hx]|[l1 [c1 [p' [-> [Hin Ht]]]]]].
        -- right. split; [left; auto|]. intros [E _]. discriminate.
        -- apply Hin' in Hin. destruct Hin as [[-> ->]|[Hne Hin]].
           ++ apply IHs in Ht. destruct Ht as [[-> ->]|[Ht Hn]]; [left; auto|].
              apply Hc0s in Ht. destruct Ht as [c [Hc Ht]]. right. split; [right; exists l, c, p'; auto|].
              intros [E1 E2]. inversion E1; subst. apply Hn. auto.
           ++ right. split; [right; exists l1, c1, p'; auto|]. intros [E _]. inversion E; subst. apply Hne. reflexivity.
      * intros [[-> ->]|[[[-> Hx]|[l1 [c1 [p' [-> [Hin Ht]]]]]] Hn]].
        -- right. exists l, c', p. split; [reflexivity|]. split; [apply Hin'; left; auto | apply IHs; left; auto].
        -- left. auto.
        -- right. destruct (lvl_eqb l1 l) eqn:E.
           ++ apply lvl_eqb_eq in E. subst l1. exists l, c', p'. split; [reflexivity|]. split; [apply Hin'; left; auto|].
              apply IHs. right. split; [apply Hc0s; exists c1; auto|]. intros [-> E2]. apply Hn. auto.
           ++ apply lvl_eqb_neq in E. exists l1, c1, p'. split; [reflexivity|]. split; [apply Hin'; right; auto | exact Ht].
Qed.

(* ---------- remove ---------- *)

Lemma remove_spec p : forall s n, wf n ->
  wf (fst (remove p s n)) /\
  forall q x, In (q, x) (tsubs (fst (remove p s n))) <-> (In (q, x) (tsubs n) /\ ~ (q = p /\ fst x = s)).
Proof.
  induction p as [|l p IH]; intros s n Hwf; destruct n as [ss r ks]; cbn [remove nsubs nret nkids].
  - cbn [fst]. inversion Hwf as [? ? ? Hnd Hk]; subst. split; [constructor; assumption|].
    intros q x. rewrite !tsubs_in. split.
    + intros [[-> Hx]|[l [c [p' [-> [Hin Ht]]]]]].
      * apply in_del_sub in Hx. destruct Hx as [Hx Hne]. split; [left; auto|]. intros [_ E]. contradiction.
      * split; [right; exists l, c, p'; auto|]. intros [E _]. discriminate.
    + intros [[[-> Hx]|[l [c [p' [-> [Hin Ht]]]]]] Hn].
      * left. split; [reflexivity|]. apply in_del_sub. split; [exact Hx|]. intros E. apply Hn. auto.
      * right. exists l, c, p'. auto.
  - inversion Hwf as [? ? ? Hnd Hk]; subst. destruct (findk l ks) as [c|] eqn:Hf.
    + assert (Hin : In (l, c) ks) by (apply findk_in; assumption).
      destruct (IH s c (Hk l c Hin)) as [IHw IHs]. destruct (remove p s c) as [c' found]. cbn [fst] in *.
      assert (Huniq : forall c1, In (l, c1) ks -> c1 = c).
      { intros c1 H1. apply findk_in in H1; [|exact Hnd]. congruence. }
      destruct (is_empty c') eqn:Em.
      * destruct (keys_delk l ks Hnd) as [Hnd' Hin']. split.
        -- constructor; [exact Hnd'|]. intros l1 c1 H1. apply Hin' in H1. apply (Hk l1 c1 (proj2 H1)).
        -- intros q x. rewrite !tsubs_in. pose proof (is_empty_tsubs c' Em) as Hemp. split.
           ++ intros [[-> Hx]|[l1 [c1 [p' [-> [H1 Ht]]]]]].
              ** split; [left; auto|]. intros [E _]. discriminate.
              ** apply Hin' in H1. destruct H1 as [Hne H1]. split; [right; exists l1, c1, p'; auto|].
                 intros [E _]. inversion E; subst. apply Hne. reflexivity.
           ++ intros [[[-> Hx]|[l1 [c1 [p' [-> [H1 Ht]]]]]] Hn]; [left; auto|].
              right. destruct (lvl_eqb l1 l) eqn:E.
              ** apply lvl_eqb_eq in E. subst l1. rewrite (Huniq c1 H1) in Ht.
                 assert (In (p', x) (tsubs c')) as Hc'.
                 { apply IHs. split; [exact Ht|]. intros [-> E2]. apply Hn. auto. }
                 rewrite Hemp in Hc'. destruct Hc'.
              ** apply lvl_eqb_neq in E. exists l1, c1, p'. split; [reflexivity|]. split; [apply Hin'; auto | exact Ht].
      * destruct (keys_setk l c' ks Hnd) as [Hnd' Hin']. split.
        -- constructor; [exact Hnd'|]. intros l1 c1 H1. apply Hin' in H1. destruct H1 as [[-> ->]|[_ H1]]; [exact IHw | apply (Hk l1 c1 H1)].
        -- intros q x. rewrite !tsubs_in. split.
           ++ intros [[-> Hx]|[l1 [c1 [p' [-> [H1 Ht]]]]]].
              ** split; [left; auto|]. intros [E _]. discriminate.
              ** apply Hin' in H1. destruct H1 as [[-> ->]|[Hne H1]].
                 --- apply IHs in Ht. destruct Ht as [Ht Hn]. split; [right; exists l, c, p'; auto|].
                     intros [E1 E2]. inversion E1; subst. apply Hn. auto.
                 --- split; [right; exists l1, c1, p'; auto|]. intros [E _]. inversion E; subst. apply Hne. reflexivity.
           ++ intros [[[-> Hx]|[l1 [c1 [p' [-> [H1 Ht]]]]]] Hn]; [left; auto|].
              right. destruct (lvl_eqb l1 l) eqn:E.
              ** apply lvl_eqb_eq in E. subst l1. rewrite (Huniq c1 H1) in Ht. exists l, c', p'. split; [reflexivity|].
                 split; [apply Hin'; left; auto|]. apply IHs. split; [exact Ht|]. intros [-> E2]. apply Hn. auto.
              ** apply lvl_eqb_neq in E. exists l1, c1, p'. split; [reflexivity|]. split; [apply Hin'; right; auto | exact Ht].
    + cbn [fst]. split; [exact Hwf|]. intros q x. split; [|intros [H _]; exact H].
      intros H. split; [exact H|]. intros [-> E]. apply tsubs_in in H. destruct H as [[E1 _]|[l1 [c1 [p' [E1 [H1 _]]]]]]; [discriminate|].
      inversion E1; subst. exact (findk_none l1 ks Hf c1 H1).
Qed.

(* ---------- retained messages never touch subscriptions ---------- *)

Lemma ret_insert_spec p : forall m n, wf n ->
  wf (ret_insert p m n) /\ forall q x, In (q, x) (tsubs (ret_insert p m n)) <-> In (q, x) (tsubs n).
Proof.
  induction p as [|l p IH]; intros m n Hwf; destruct n as [ss r ks]; cbn [ret_insert nsubs nret nkids].
  - inversion Hwf; subst. split; [constructor; assumption|]. intros q x. rewrite !tsubs_in. reflexivity.
  - inversion Hwf as [? ? ? Hnd Hk]; subst.
    set (c0 := match findk l ks with Some c => c | None => empty_node end).
    assert (Hc0 : wf c0).
    { unfold c0. destruct (findk l ks) as [c|] eqn:Hf; [apply (Hk l c); apply findk_in; assumption | apply wf_empty]. }
    assert (Hc0s : forall p' x, In (p', x) (tsubs c0) <-> exists c, In (l, c) ks /\ In (p', x) (tsubs c)).
    { intros p' x. unfold c0. destruct (findk l ks) as [c|] eqn:Hf.
      - apply findk_in in Hf; [|exact Hnd]. split; [intros H; exists c; auto|].
        intros [c' [Hin Ht]]. assert (c' = c).
        { apply findk_in in Hin; [|exact Hnd]. apply findk_in in Hf; [|exact Hnd]. congruence. }
        subst. exact Ht.
      - rewrite tsubs_empty. split; [intros []|]. intros [c [Hin _]]. exfalso. exact (findk_none l ks Hf c Hin). }
    destruct (IH m c0 Hc0) as [IHw IHs]. destruct (keys_setk l (ret_insert p m c0) ks Hnd) as [Hnd' Hin'].
    split.
    + constructor; [exact Hnd'|]. intros l1 c1 H1. apply Hin' in H1. destruct H1 as [[-> ->]|[_ H1]]; [exact IHw | apply (Hk l1 c1 H1)].
    + intros q x. rewrite !tsubs_in. split.
      * intros [H|[l1 [c1 [p' [-> [H1 Ht]]]]]]; [left; exact H|]. right.
        apply Hin' in H1. destruct H1 as [[-> ->]|[Hne H1]].
        -- apply IHs in Ht. apply Hc0s in Ht. destruct Ht as [c [Hc Ht]]. exists l, c, p'. auto.
        -- exists l1, c1, p'. auto.
      * intros [H|[l1 [c1 [p' [-> [H1 Ht]]]]]]; [left; exact H|]. right. destruct (lvl_eqb l1 l) eqn:E.
        -- apply lvl_eqb_eq in E. subst l1. exists l, (ret_insert p m c0), p'. split; [reflexivity|]. split; [apply Hin'; left; auto|].
           apply IHs. apply Hc0s. exists c1. auto.
        -- apply lvl_eqb_neq in E. exists l1, c1, p'. split; [reflexivity|]. split; [apply Hin'; right; auto | exact Ht].
Qed.

Lemma ret_remove_spec p : forall n, wf n ->
  wf (ret_remove p n) /\ forall q x, In (q, x) (tsubs (ret_remove p n)) <-> In (q, x) (tsubs n).
Proof.
  induction p as [|l p IH]; intros n Hwf; destruct n as [ss r ks]; cbn [ret_remove nsubs nret nkids].
  - inversion Hwf; subst. split; [constructor; assumption|]. intros q x. rewrite !tsubs_in. reflexivity.
  - inversion Hwf as [? ? ? Hnd Hk]; subst. destruct (findk l ks) as [c|] eqn:Hf; [|split; [exact Hwf | intros; reflexivity]].
    assert (Hin : In (l, c) ks) by (apply findk_in; assumption).
    destruct (IH c (Hk l c Hin)) as [IHw IHs].
    assert (Huniq : forall c1, In (l, c1) ks -> c1 = c).
    { intros c1 H1. apply findk_in in H1; [|exact Hnd]. congruence. }
    destruct (is_empty (ret_remove p c)) eqn:Em.
    + destruct (keys_delk l ks Hnd) as [Hnd' Hin']. split.
      * constructor; [exact Hnd'|]. intros l1 c1 H1. apply Hin' in H1. apply (Hk l1 c1 (proj2 H1)).
      * intros q x. rewrite !tsubs_in. pose proof (is_empty_tsubs _ Em) as Hemp. split.
        -- intros [H|[l1 [c1 [p' [-> [H1 Ht]]]]]]; [left; exact H|]. right. apply Hin' in H1. exists l1, c1, p'. tauto.
        -- intros [H|[l1 [c1 [p' [-> [H1 Ht]]]]]]; [left; exact H|]. right. destruct (lvl_eqb l1 l) eqn:E.
           ++ apply lvl_eqb_eq in E. subst l1. rewrite (Huniq c1 H1) in Ht. apply IHs in Ht. rewrite Hemp in Ht. destruct Ht.
           ++ apply lvl_eqb_neq in E. exists l1, c1, p'. split; [reflexivity|]. split; [apply Hin'; auto | exact Ht].
    + destruct (keys_setk l (ret_remove p c) ks Hnd) as [Hnd' Hin']. split.
      * constructor; [exact Hnd'|]. intros l1 c1 H1. apply Hin' in H1. destruct H1 as [[-> ->]|[_ H1]]; [exact IHw | apply (Hk l1 c1 H1)].
      * intros q x. rewrite !tsubs_in. split.
        -- intros [H|[l1 [c1 [p' [-> [H1 Ht]]]]]]; [left; exact H|]. right. apply Hin' in H1. destruct H1 as [[-> ->]|[Hne H1]].
           ++ apply IHs in Ht. exists l, c, p'. auto.
           ++ exists l1, c1, p'. auto.
        -- intros [H|[l1 [c1 [p' [-> [H1 Ht]]]]]]; [left; exact H|]. right. destruct (lvl_eqb l1 l) eqn:E.
           ++ apply lvl_eqb_eq in E. subst l1. rewrite (Huniq c1 H1) in Ht. exists l, (ret_remove p c), p'. split; [reflexivity|].
              split; [apply Hin'; left; auto | apply IHs; exact Ht].
           ++ apply lvl_eqb_neq in E. exists l1, c1, p'. split; [reflexivity|]. split; [apply Hin'; right; auto | exact Ht].
Qed.

Lemma retain_spec p m e ow n : wf n ->
  wf (retain p m e ow n) /\ forall q x, In (q, x) (tsubs (retain p m e ow n)) <-> In (q, x) (tsubs n).
Proof.
  intros Hwf. unfold retain. destruct e; [apply ret_remove_spec; exact Hwf|].
  destruct ((m_qos m =? 0) && negb ow); [|apply ret_insert_spec; exact Hwf].
  destruct (ret_remove_spec p n Hwf) as [H1 H2]. destruct (ret_insert_spec p m (ret_remove p n) H1) as [H3 H4].
  split; [exact H3|]. intros q x. rewrite H4. apply H2.
Qed.

(* ---------- histories ---------- *)

Definition Rel (n : node) (m : list (skey * sparams)) : Prop :=
  wf n /\ forall q s sp, In (q, (s, sp)) (tsubs n) <-> In ((q, s), sp) m.

Lemma skey_eqb_true a b : skey_eqb a b = true <-> a = b.
Proof.
  destruct a as [p s], b as [p' s']. unfold skey_eqb. cbn [fst snd]. rewrite andb_true_iff, N.eqb_eq.
  assert (Hp : path_eqb p p' = true <-> p = p').
  { revert p'. induction p as [|x p IH]; intros [|y p']; cbn [path_eqb]; split; intros H; try discriminate; try reflexivity.
    - apply andb_prop in H. destruct H as [H1 H2]. apply lvl_eqb_eq in H1. apply IH in H2. subst. reflexivity.
    - inversion H; subst. rewrite lvl_eqb_refl. cbn. apply IH. reflexivity. }
  rewrite Hp. split; [intros [-> ->]; reflexivity | intros H; inversion H; auto].
Qed.

Lemma step_rel n m o : Rel n m -> Rel (step n o) (abs_step m o).
Proof.
  intros [Hwf Hs]. destruct o as [f s sp|f s|t mg e ow]; cbn [step abs_step].
  - destruct (insert_spec (split f) s sp n Hwf) as [H1 H2]. split; [exact H1|].
    intros q s' sp'. rewrite H2. cbn [In]. rewrite filter_In. cbn [fst snd]. split.
    + intros [[-> E]|[Hin Hn]]; [inversion E; subst; left; reflexivity|]. right. split; [apply Hs; exact Hin|].
      apply negb_true_iff. destruct (skey_eqb (q, s') (split f, s)) eqn:E; [|reflexivity].
      apply skey_eqb_true in E. inversion E; subst. exfalso. apply Hn. auto.
    + intros [E|[Hin Hn]]; [inversion E; subst; left; auto|]. right. split; [apply Hs; exact Hin|].
      intros [-> E]. cbn [fst] in E. subst s'. apply negb_true_iff in Hn.
      assert (skey_eqb (split f, s) (split f, s) = true) by (apply skey_eqb_true; reflexivity). congruence.
  - destruct (remove_spec (split f) s n Hwf) as [H1 H2]. split; [exact H1|].
    intros q s' sp'. rewrite H2. rewrite filter_In. cbn [fst snd]. split.
    + intros [Hin Hn]. split; [apply Hs; exact Hin|].
      apply negb_true_iff. destruct (skey_eqb (q, s') (split f, s)) eqn:E; [|reflexivity].
      apply skey_eqb_true in E. inversion E; subst. exfalso. apply Hn. auto.
    + intros [Hin Hn]. split; [apply Hs; exact Hin|].
      intros [-> E]. cbn [fst] in E. subst s'. apply negb_true_iff in Hn.
      assert (skey_eqb (split f, s) (split f, s) = true) by (apply skey_eqb_true; reflexivity). congruence.
  - destruct (retain_spec (split t) mg e ow n Hwf) as [H1 H2]. split; [exact H1|].
    intros q s' sp'. rewrite H2. apply Hs.
Qed.

Theorem run_rel h : Rel (run h) (abs_subs h).
Proof.
  unfold run, abs_subs.
  assert (G : forall l n m, Rel n m -> Rel (fold_left step l n) (fold_left abs_step l m)).
  { induction l as [|o l IH]; intros n m H; cbn [fold_left]; [exact H | apply IH; apply step_rel; exact H]. }
  apply G. split; [apply wf_empty|]. intros q s sp. rewrite tsubs_empty. split; intros [].
Qed.

(* the whole-history statement of C01 *)
Theorem publish_iff_history h t s : valid_topic (split t) = true ->
  (In s (map fst (search_top (split t) (run h))) <->
   exists f sp, In ((f, s), sp) (abs_subs h) /\ matches f (split t) = true).
Proof.
  intros Hv. destruct (run_rel h) as [Hwf Hs]. rewrite in_map_iff. split.
  - intros [[s' sp] [E Hin]]. cbn [fst] in E. subst s'.
    apply (search_top_spec (split t) (run h) Hwf Hv) in Hin. destruct Hin as [p [Hp Hm]].
    exists p, sp. split; [apply Hs; exact Hp | exact Hm].
  - intros [f [sp [Hin Hm]]]. exists (s, sp). split; [reflexivity|].
    apply (search_top_spec (split t) (run h) Hwf Hv). exists f. split; [apply Hs; exact Hin | exact Hm].
Qed.
