(* SessionsProofs.v — lemmas about model/Sessions.v used by props/C05, C10, C11, C16, C20. *)
From Coq Require Import List NArith ZArith Bool Lia.
Import ListNotations.
From VMQ Require Import model.Sessions.
Open Scope Z_scope.

(* ---------- the association list ---------- *)

Definition keys (l : list (sid * srec)) : list sid := map fst l.

Lemma get_put_same id r l : get id (put id r l) = r.
Proof.
  induction l as [|[i x] t IH]; cbn [put get].
  - rewrite N.eqb_refl. reflexivity.
  - destruct (N.eqb i id) eqn:E; cbn [get].
    + rewrite N.eqb_refl. reflexivity.
    + rewrite E. exact IH.
Qed.

Lemma get_put_other id id' r l : id <> id' -> get id' (put id r l) = get id' l.
Proof.
  intros Hne. induction l as [|[i x] t IH]; cbn [put get].
  - destruct (N.eqb id id') eqn:E; [apply N.eqb_eq in E; contradiction | reflexivity].
  - destruct (N.eqb i id) eqn:E; cbn [get].
    + apply N.eqb_eq in E. subst i.
      destruct (N.eqb id id') eqn:E2; [apply N.eqb_eq in E2; contradiction | reflexivity].
    + destruct (N.eqb i id'); [reflexivity | exact IH].
Qed.

Lemma keys_put id r l : keys (put id r l) = if existsb (N.eqb id) (keys l) then keys l else keys l ++ [id].
Proof.
  induction l as [|[i x] t IH]; cbn [put keys map existsb fst].
  - reflexivity.
  - destruct (N.eqb i id) eqn:E.
    + apply N.eqb_eq in E. subst i. rewrite N.eqb_refl. reflexivity.
    + rewrite N.eqb_sym, E. cbn [orb map fst]. fold (keys (put id r t)). rewrite IH. fold (keys t).
      destruct (existsb (N.eqb id) (keys t)); reflexivity.
Qed.

Lemma existsb_eqb_In id ks : existsb (N.eqb id) ks = true <-> In id ks.
Proof.
  rewrite existsb_exists. split.
  - intros [x [Hin E]]. apply N.eqb_eq in E. subst. exact Hin.
  - intros H. exists id. split; [exact H | apply N.eqb_refl].
Qed.

Lemma nodup_snoc (x : N) l : NoDup l -> ~ In x l -> NoDup (l ++ [x]).
Proof.
  induction l as [|y t IH]; cbn [app]; intros Hnd Hni.
  - constructor; [intros []|constructor].
  - inversion Hnd as [|? ? Hy Ht]; subst. constructor.
    + rewrite in_app_iff. intros [H|[H|[]]]; [exact (Hy H)|]. subst. apply Hni. left. reflexivity.
    + apply IH; [exact Ht|]. intros H. apply Hni. right. exact H.
Qed.

Lemma nodup_put id r l : NoDup (keys l) -> NoDup (keys (put id r l)).
Proof.
  intros H. rewrite keys_put. destruct (existsb (N.eqb id) (keys l)) eqn:E; [exact H|].
  apply nodup_snoc; [exact H|]. intros Hin. apply existsb_eqb_In in Hin. congruence.
Qed.

Lemma get_not_in id l : ~ In id (keys l) -> get id l = empty_rec.
Proof.
  induction l as [|[i x] t IH]; cbn [get keys map fst]; intros H; [reflexivity|].
  destruct (N.eqb i id) eqn:E.
  - apply N.eqb_eq in E. subst. exfalso. apply H. left. reflexivity.
  - apply IH. intros Hin. apply H. right. exact Hin.
Qed.

Lemma get_in i r l : NoDup (keys l) -> In (i, r) l -> get i l = r.
Proof.
  induction l as [|[j x] t IH]; cbn [get keys map fst]; intros Hnd Hin; [destruct Hin|].
  inversion Hnd as [|? ? Hnotin Hnd']; subst.
  destruct Hin as [Heq|Hin].
  - inversion Heq; subst. rewrite N.eqb_refl. reflexivity.
  - destruct (N.eqb j i) eqn:E.
    + apply N.eqb_eq in E. subst j. exfalso. apply Hnotin. change (In (fst (i, r)) (map fst t)). apply in_map. exact Hin.
    + apply IH; assumption.
Qed.

(* a record-wise update of the whole list *)
Definition maprec (g : sid -> srec -> srec) (l : list (sid * srec)) : list (sid * srec) :=
  map (fun ir => (fst ir, g (fst ir) (snd ir))) l.

Lemma keys_maprec g l : keys (maprec g l) = keys l.
Proof. unfold keys, maprec. rewrite map_map. apply map_ext. intros [i r]. reflexivity. Qed.

Lemma get_maprec g id l : g id empty_rec = empty_rec -> get id (maprec g l) = g id (get id l).
Proof.
  intros He. induction l as [|[i x] t IH]; cbn [maprec map get fst snd].
  - symmetry. exact He.
  - destruct (N.eqb i id) eqn:E; [apply N.eqb_eq in E; subst; reflexivity | exact IH].
Qed.

(* ---------- publish as a record-wise map ---------- *)

Definition pub_rec (self : bool) (tag : N) (t : topic) (r : srec) : srec :=
  if existsb (smatch self t) (s_subs r) then
    match s_conn r with
    | Some _ => r
    | None => mkS None (s_v5 r) (s_durable r) (s_expiry r) (s_subs r) (s_queue r ++ [tag]) (s_present r) (s_expire_at r) (s_will r) (s_will_at r)
    end
  else r.

Definition pub_out (self : bool) (tag : N) (t : topic) (r : srec) : list out :=
  if existsb (smatch self t) (s_subs r) then match s_conn r with Some c => [ODeliver c tag] | None => [] end else [].

Lemma publish_by_spec who s tag t :
  publish_by who s tag t =
  (mkSt (now s) (maprec (fun i => pub_rec (is_self who i) tag t) (sess s)) (preempt s) (stopped s) (retained s),
   flat_map (fun ir => pub_out (is_self who (fst ir)) tag t (snd ir)) (sess s)).
Proof.
  unfold publish_by.
  set (stepf := fun (acc : list (sid * srec) * list out) (ir : sid * srec) => _).
  assert (S1 : forall a o i r, stepf (a, o) (i, r) = (a ++ [(i, pub_rec (is_self who i) tag t r)], o ++ pub_out (is_self who i) tag t r)).
  { intros a o i r. unfold stepf, pub_rec, pub_out.
    destruct (existsb (smatch (is_self who i) t) (s_subs r)); [destruct (s_conn r)|]; rewrite ?app_nil_r; reflexivity. }
  assert (G : forall l a o, fold_left stepf l (a, o) =
            (a ++ maprec (fun i => pub_rec (is_self who i) tag t) l, o ++ flat_map (fun ir => pub_out (is_self who (fst ir)) tag t (snd ir)) l)).
  { induction l as [|[i r] l IH]; intros a o; cbn [fold_left maprec map flat_map fst snd].
    - rewrite !app_nil_r. reflexivity.
    - rewrite S1, IH. rewrite <- !app_assoc. reflexivity. }
  rewrite G. cbn [app]. reflexivity.
Qed.

Lemma publish_spec s tag t :
  publish s tag t =
  (mkSt (now s) (maprec (fun _ => pub_rec false tag t) (sess s)) (preempt s) (stopped s) (retained s),
   flat_map (fun ir => pub_out false tag t (snd ir)) (sess s)).
Proof. unfold publish. rewrite publish_by_spec. reflexivity. Qed.

Lemma pub_rec_empty self tag t : pub_rec self tag t empty_rec = empty_rec.
Proof. reflexivity. Qed.

(* ---------- timers as a record-wise map ---------- *)

Lemma fire_all_spec t l :
  fire_all t l = (maprec (fun i r => fst (fire t i r)) l, flat_map (fun ir => snd (fire t (fst ir) (snd ir))) l).
Proof.
  induction l as [|[i r] l IH]; cbn [fire_all maprec map flat_map fst snd]; [reflexivity|].
  rewrite IH. destruct (fire t i r) as [r' o]. reflexivity.
Qed.

Lemma fire_empty t i : fst (fire t i empty_rec) = empty_rec.
Proof. reflexivity. Qed.

(* ---------- the invariant ---------- *)

Definition rec_ok (r : srec) : Prop :=
  (* no state without the stored-state flag *)
  (s_present r = false -> s_subs r = [] /\ s_queue r = []) /\
  (* a record without connection that is not durable holds nothing *)
  (s_conn r = None -> s_durable r = false ->
     s_subs r = [] /\ s_queue r = [] /\ s_present r = false /\ s_will r = None /\ s_expire_at r = None) /\
  (* an attached record has stored state and no running timer *)
  (s_conn r <> None -> s_present r = true /\ s_expire_at r = None /\ s_will_at r = None) /\
  (* a pending will has a deadline and vice versa *)
  (s_conn r = None -> (s_will r = None <-> s_will_at r = None)).

Definition lInv (l : list (sid * srec)) : Prop := NoDup (keys l) /\ forall id, rec_ok (get id l).
Definition Inv (s : st) : Prop := lInv (sess s).

Lemma rec_ok_empty : rec_ok empty_rec.
Proof. unfold rec_ok, empty_rec; cbn. repeat split; auto; congruence. Qed.

Lemma rec_ok_wiped r : rec_ok (wiped r).
Proof. unfold rec_ok, wiped; cbn. repeat split; auto; congruence. Qed.

Lemma lInv_nil : lInv [].
Proof. split; [constructor | intros id; apply rec_ok_empty]. Qed.

Lemma lInv_put id r l : lInv l -> rec_ok r -> lInv (put id r l).
Proof.
  intros [Hnd Hok] Hr. split; [apply nodup_put; exact Hnd|].
  intros i. destruct (N.eq_dec id i) as [->|Hne]; [rewrite get_put_same; exact Hr | rewrite get_put_other by exact Hne; apply Hok].
Qed.

Lemma lInv_maprec g l :
  (forall i, g i empty_rec = empty_rec) -> (forall i r, rec_ok r -> rec_ok (g i r)) -> lInv l -> lInv (maprec g l).
Proof.
  intros He Hg [Hnd Hok]. split; [rewrite keys_maprec; exact Hnd|].
  intros i. rewrite get_maprec by apply He. apply Hg, Hok.
Qed.

(* ---------- the end of a connection ---------- *)

(* what conn_end decides *)
Definition end_expiry (r : srec) (newexp : option Z) : option Z :=
  match newexp with Some e => Some e | None => s_expiry r end.
Definition end_durable (r : srec) (newexp : option Z) : bool :=
  if s_v5 r then s_durable r && match end_expiry r newexp with Some e => negb (e =? 0) | None => false end
  else s_durable r.

Lemma conn_end_idle s id k e : s_conn (get id (sess s)) = None -> conn_end s id k e = (s, []).
Proof. intros H. unfold conn_end. rewrite H. reflexivity. Qed.

Lemma conn_end_sess_other s id k e id' : id <> id' ->
  get id' (sess (fst (conn_end s id k e))) = get id' (sess s).
Proof.
  intros Hne. unfold conn_end. destruct (s_conn (get id (sess s))); [|reflexivity].
  cbn [fst sess]. apply get_put_other. exact Hne.
Qed.

Lemma conn_end_detaches s id k e : s_conn (get id (sess (fst (conn_end s id k e)))) = None.
Proof.
  unfold conn_end. destruct (s_conn (get id (sess s))) eqn:E; [|exact E].
  cbn [fst sess]. rewrite get_put_same.
  match goal with |- s_conn (if ?b then _ else _) = _ => destruct b end; reflexivity.
Qed.

Lemma conn_end_fields s id k e : fst (conn_end s id k e) =
  mkSt (now s) (sess (fst (conn_end s id k e))) (preempt s) (stopped s) (retained s).
Proof. unfold conn_end. destruct (s_conn (get id (sess s))); [reflexivity | destruct s; reflexivity]. Qed.

(* a non-durable end leaves nothing behind; a durable one keeps subscriptions and pending messages *)
Lemma conn_end_state s id k e c :
  s_conn (get id (sess s)) = Some c ->
  let r := get id (sess s) in
  let r' := get id (sess (fst (conn_end s id k e))) in
  if end_durable r e then
    s_subs r' = s_subs r /\ s_queue r' = s_queue r /\ s_present r' = true /\ s_durable r' = true /\ s_expiry r' = end_expiry r e /\
    s_expire_at r' = (match end_expiry r e with Some x => if s_v5 r then Some (now s + x) else None | None => None end)
  else r' = wiped r.
Proof.
  intros Hc r r'. subst r r'. unfold conn_end. rewrite Hc. cbn [fst sess]. rewrite get_put_same.
  unfold end_durable, end_expiry.
  destruct (s_v5 (get id (sess s))); cbn [andb].
  - destruct (s_durable (get id (sess s)) && _) eqn:D; cbn; [repeat split|reflexivity].
  - destruct (s_durable (get id (sess s))); cbn; [repeat split|reflexivity].
Qed.

Lemma conn_end_inv s id k e : Inv s -> Inv (fst (conn_end s id k e)).
Proof.
  intros HI. unfold conn_end. destruct (s_conn (get id (sess s))) eqn:Hc; [|exact HI].
  unfold Inv. cbn [fst sess]. apply lInv_put; [exact HI|].
  match goal with |- rec_ok (if ?b then _ else _) => destruct b eqn:D end; [|apply rec_ok_wiped].
  unfold rec_ok; cbn. repeat split; try congruence; auto.
  all: try (intros; exfalso; congruence).
  all: destruct (if k then s_will (get id (sess s)) else None) as [x|]; [destruct (_ || _)|]; intros; congruence.
Qed.

(* ---------- CONNECT ---------- *)

Lemma connect_free_rec s c id v5 clean expiry w :
  get id (sess (fst (connect_free s c id v5 clean expiry w))) =
  mkS (Some c) v5 (durable_of v5 clean expiry) expiry
      (if clean then [] else s_subs (get id (sess s))) [] true None w None.
Proof.
  unfold connect_free. cbn [fst sess]. rewrite get_put_same. destruct clean; reflexivity.
Qed.

Lemma connect_free_out s c id v5 clean expiry w :
  snd (connect_free s c id v5 clean expiry w) =
  OConnack c (if clean then false else s_present (get id (sess s))) 0%N ::
  map (ODeliver c) (if clean then [] else s_queue (get id (sess s))).
Proof. unfold connect_free. cbn [snd]. destruct clean; reflexivity. Qed.

Lemma connect_free_other s c id v5 clean expiry w id' : id <> id' ->
  get id' (sess (fst (connect_free s c id v5 clean expiry w))) = get id' (sess s).
Proof. intros H. unfold connect_free. cbn [fst sess]. apply get_put_other. exact H. Qed.

Lemma connect_free_inv s c id v5 clean expiry w : Inv s -> Inv (fst (connect_free s c id v5 clean expiry w)).
Proof.
  intros HI. unfold connect_free, Inv. cbn [fst sess]. apply lInv_put; [exact HI|].
  unfold rec_ok; cbn. repeat split; intros; congruence.
Qed.

Lemma connect_inv s c id v5 clean expiry w : Inv s -> Inv (fst (connect s c id v5 clean expiry w)).
Proof.
  intros HI. unfold connect. destruct (s_conn (get id (sess s))) as [old|]; [|apply connect_free_inv; exact HI].
  destruct (preempt s); [|exact HI].
  destruct (conn_end s id true None) as [s1 o1] eqn:E1.
  destruct (connect_free s1 c id v5 clean expiry w) as [s2 o2] eqn:E2. cbn [fst].
  change s2 with (fst (s2, o2)). rewrite <- E2. apply connect_free_inv.
  change s1 with (fst (s1, o1)). rewrite <- E1. apply conn_end_inv. exact HI.
Qed.

(* ---------- timers ---------- *)

Lemma fire_ok t i r : rec_ok r -> rec_ok (fst (fire t i r)).
Proof.
  intros Hr. unfold fire. destruct (s_conn r) eqn:Hc; [exact Hr|].
  match goal with |- context [if ?b then (wiped r, _) else _] => destruct b end; [apply rec_ok_wiped|].
  match goal with |- context [if ?b then _ else (r, [])] => destruct b end; [|exact Hr].
  destruct Hr as [H1 [H2 [H3 H4]]]. unfold rec_ok; cbn. repeat split; auto; try congruence.
  all: try (intros Hd; destruct (H2 Hc Hd) as [? [? [? [? ?]]]]; assumption).
  all: try (intros Hp; destruct (H1 Hp); assumption).
  all: try match goal with Hp : s_present _ = false |- _ => destruct (H1 Hp); assumption end.
  all: try match goal with Hd : s_durable _ = false |- _ => destruct (H2 Hc Hd) as [? [? [? [? ?]]]]; assumption end.
Qed.

(* ---------- PUBLISH / SUBSCRIBE ---------- *)

Lemma pub_rec_ok self tag t r : rec_ok r -> rec_ok (pub_rec self tag t r).
Proof.
  intros Hr. unfold pub_rec. destruct (existsb (smatch self t) (s_subs r)) eqn:Ex; [|exact Hr].
  destruct (s_conn r) eqn:Hc; [exact Hr|].
  destruct Hr as [H1 [H2 [H3 H4]]]. unfold rec_ok; cbn. repeat split; auto; try congruence.
  all: try match goal with Hp : s_present _ = false |- _ => destruct (H1 Hp) as [Hs _]; first [exact Hs | rewrite Hs in Ex; discriminate] end.
  all: try match goal with Hd : s_durable _ = false |- _ => destruct (H2 Hc Hd) as [Hs [? [? [? ?]]]]; first [assumption | rewrite Hs in Ex; discriminate] end.
  all: try (apply H4; exact Hc).
Qed.

Lemma publish_by_inv who s tag t : Inv s -> Inv (fst (publish_by who s tag t)).
Proof.
  intros HI. rewrite publish_by_spec. unfold Inv. cbn [fst sess].
  apply lInv_maprec; [reflexivity | intros i r; apply pub_rec_ok | exact HI].
Qed.

Lemma publish_inv s tag t : Inv s -> Inv (fst (publish s tag t)).
Proof. apply publish_by_inv. Qed.

Lemma subscribe_inv s id t : Inv s -> Inv (fst (subscribe s id t)).
Proof.
  intros HI. unfold subscribe. destruct (s_conn (get id (sess s))) eqn:Hc; [|exact HI].
  unfold Inv. cbn [fst sess]. apply lInv_put; [exact HI|].
  destruct HI as [_ Hok]. specialize (Hok id). destruct Hok as [H1 [H2 [H3 H4]]].
  assert (Hn : s_conn (get id (sess s)) <> None) by congruence.
  destruct (H3 Hn) as [Hp [He Hw]].
  unfold rec_ok; cbn. repeat split; intros; try congruence.
Qed.

Lemma unsubscribe_inv s id t : Inv s -> Inv (fst (unsubscribe s id t)).
Proof.
  intros HI. unfold unsubscribe. destruct (s_conn (get id (sess s))) eqn:Hc; [|exact HI].
  unfold Inv. cbn [fst sess]. apply lInv_put; [exact HI|].
  destruct HI as [_ Hok]. specialize (Hok id). destruct Hok as [H1 [H2 [H3 H4]]].
  assert (Hn : s_conn (get id (sess s)) <> None) by congruence.
  destruct (H3 Hn) as [Hp [He Hw]].
  unfold rec_ok; cbn. repeat split; intros; try congruence.
Qed.

(* UNSUBSCRIBE: the subscription to that topic is gone, every other one and everything else of the session stay;
   other sessions are untouched; afterwards a publish on the topic is neither handed nor queued to the session *)
Lemma unsubscribe_state s id t c : s_conn (get id (sess s)) = Some c ->
  let r := get id (sess s) in
  let s' := fst (unsubscribe s id t) in
  let r' := get id (sess s') in
  s_subs r' = filter (fun k => negb (N.eqb (sub_topic k) t)) (s_subs r) /\
  s_conn r' = s_conn r /\ s_queue r' = s_queue r /\ s_durable r' = s_durable r /\ s_expiry r' = s_expiry r /\
  s_will r' = s_will r /\ s_present r' = s_present r /\
  (forall j, j <> id -> get j (sess s') = get j (sess s)) /\
  (forall self tag, pub_out self tag t r' = [] /\ pub_rec self tag t r' = r').
Proof.
  intros Hc. cbn zeta. unfold unsubscribe. rewrite Hc. cbn [fst sess]. rewrite get_put_same. cbn.
  repeat split; try reflexivity.
  - intros j Hj. apply get_put_other. congruence.
  - unfold pub_out. cbn [s_subs s_conn].
    assert (H : existsb (smatch self t) (filter (fun k => negb (N.eqb (sub_topic k) t)) (s_subs (get id (sess s)))) = false).
    { induction (s_subs (get id (sess s))) as [|k l IH]; [reflexivity|]. cbn [filter].
      destruct (N.eqb (sub_topic k) t) eqn:E; cbn [negb]; [exact IH|]. cbn [existsb]. unfold smatch at 1. rewrite E. cbn. exact IH. }
    rewrite H. reflexivity.
  - unfold pub_rec. cbn [s_subs s_conn].
    assert (H : existsb (smatch self t) (filter (fun k => negb (N.eqb (sub_topic k) t)) (s_subs (get id (sess s)))) = false).
    { induction (s_subs (get id (sess s))) as [|k l IH]; [reflexivity|]. cbn [filter].
      destruct (N.eqb (sub_topic k) t) eqn:E; cbn [negb]; [exact IH|]. cbn [existsb]. unfold smatch at 1. rewrite E. cbn. exact IH. }
    rewrite H. reflexivity.
Qed.

(* ---------- Stop ---------- *)

Definition stop_step (acc : st * list out) (ir : sid * srec) : st * list out :=
  let '(s0, os) := acc in
  match s_conn (snd ir) with
  | Some c => let '(s1, o) := conn_end s0 (fst ir) true None in (s1, os ++ [OClosed c RShutdown] ++ o)
  | None => acc
  end.

Lemma stop_unfold s : stop s =
  let '(s1, os) := fold_left stop_step (sess s) (s, []) in
  (mkSt (now s1) (sess s1) (preempt s1) true (retained s1), os ++ [OStopReturned]).
Proof. reflexivity. Qed.

Lemma stop_fold_inv l s o : Inv s -> Inv (fst (fold_left stop_step l (s, o))).
Proof.
  revert s o. induction l as [|[i r] l IH]; intros s o HI; cbn [fold_left]; [exact HI|].
  unfold stop_step at 2. cbn [fst snd]. destruct (s_conn r); [|apply IH; exact HI].
  destruct (conn_end s i true None) as [s1 o1] eqn:E. apply IH.
  change s1 with (fst (s1, o1)). rewrite <- E. apply conn_end_inv. exact HI.
Qed.

Lemma stop_inv s : Inv s -> Inv (fst (stop s)).
Proof.
  intros HI. rewrite stop_unfold. pose proof (stop_fold_inv (sess s) s [] HI) as H.
  destruct (fold_left stop_step (sess s) (s, [])) as [s1 os]. exact H.
Qed.

(* ---------- every step, every history ---------- *)

Lemma step_inv s e : Inv s -> Inv (fst (step s e)).
Proof.
  intros HI. destruct e; cbn [step].
  - destruct (stopped s); [exact HI | apply connect_inv; exact HI].
  - apply subscribe_inv; exact HI.
  - apply unsubscribe_inv; exact HI.
  - apply publish_inv; exact HI.
  - apply publish_by_inv; exact HI.
  - pose proof (publish_inv s tag t HI) as H. destruct (publish s tag t) as [s1 o]. exact H.
  - exact HI.
  - apply conn_end_inv; exact HI.
  - apply conn_end_inv; exact HI.
  - destruct (s_conn (get id (sess s))) as [c'|]; [|exact HI]. destruct (N.eqb c c'); [apply conn_end_inv|]; exact HI.
  - rewrite fire_all_spec. unfold Inv. cbn [fst sess].
    apply lInv_maprec; [intros i; reflexivity | intros i r; apply fire_ok | exact HI].
  - apply stop_inv; exact HI.
  - exact HI.
Qed.

Lemma run_state_inv es : forall s, Inv s -> Inv (fst (run s es)).
Proof.
  induction es as [|e es IH]; intros s HI; cbn [run]; [exact HI|].
  pose proof (step_inv s e HI) as H1. destruct (step s e) as [s1 o].
  specialize (IH s1 H1). destruct (run s1 es) as [s2 os]. exact IH.
Qed.

Lemma init_inv pre : Inv (init pre).
Proof. apply lInv_nil. Qed.

(* ---------- outputs ---------- *)

Definition is_will (o : out) : bool := match o with OWill _ _ => true | _ => false end.
Definition is_connack_of (c : cid) (o : out) : bool := match o with OConnack c' _ _ => N.eqb c c' | _ => false end.
Definition is_deliver (o : out) : bool := match o with ODeliver _ _ => true | _ => false end.

Lemma conn_end_out s id k e : forallb is_will (snd (conn_end s id k e)) = true.
Proof.
  unfold conn_end. destruct (s_conn (get id (sess s))); [|reflexivity]. cbn [snd].
  destruct (if k then s_will (get id (sess s)) else None) as [x|]; [destruct (_ || _)|]; reflexivity.
Qed.

(* the will of a connection that ends: published at once, kept for later, or discarded *)
Lemma conn_end_will s id k e c :
  s_conn (get id (sess s)) = Some c ->
  let r := get id (sess s) in
  let r' := get id (sess (fst (conn_end s id k e))) in
  match (if k then s_will r else None) with
  | None => snd (conn_end s id k e) = [] /\ s_will r' = None /\ s_will_at r' = None
  | Some x =>
      if (w_delay x =? 0) || negb (end_durable r e)
      then snd (conn_end s id k e) = [OWill id (w_tag x)] /\ s_will r' = None /\ s_will_at r' = None
      else snd (conn_end s id k e) = [] /\ s_will r' = Some x /\ s_will_at r' = Some (now s + w_delay x)
  end.
Proof.
  intros Hc r r'. subst r r'. unfold conn_end. rewrite Hc. cbn [fst snd sess]. rewrite get_put_same.
  unfold end_durable, end_expiry.
  destruct (if k then s_will (get id (sess s)) else None) as [x|].
  - destruct (s_v5 (get id (sess s))).
    + destruct (s_durable (get id (sess s)) && _); destruct (w_delay x =? 0); cbn; repeat split.
    + destruct (s_durable (get id (sess s))); destruct (w_delay x =? 0); cbn; repeat split.
  - destruct (s_v5 (get id (sess s))).
    + destruct (s_durable (get id (sess s)) && _); cbn; repeat split.
    + destruct (s_durable (get id (sess s))); cbn; repeat split.
Qed.

(* ---------- attachment ---------- *)

Definition attached (s : st) (c : cid) : Prop := exists id, s_conn (get id (sess s)) = Some c.

Lemma publish_by_out_attached who s tag t o : Inv s -> In o (snd (publish_by who s tag t)) -> exists c, o = ODeliver c tag /\ attached s c.
Proof.
  intros [Hnd _] Hin. rewrite publish_by_spec in Hin. cbn [snd] in Hin.
  apply in_flat_map in Hin. destruct Hin as [[i r] [Hir Ho]]. cbn [fst snd] in Ho. unfold pub_out in Ho.
  destruct (existsb (smatch (is_self who i) t) (s_subs r)); [|destruct Ho].
  destruct (s_conn r) as [c|] eqn:Hc; [|destruct Ho]. destruct Ho as [<-|[]].
  exists c. split; [reflexivity|]. exists i. rewrite (get_in i r _ Hnd Hir). exact Hc.
Qed.

Lemma publish_out_attached s tag t o : Inv s -> In o (snd (publish s tag t)) -> exists c, o = ODeliver c tag /\ attached s c.
Proof. apply publish_by_out_attached. Qed.

Lemma in_get id (l : list (sid * srec)) c : s_conn (get id l) = Some c -> In (id, get id l) l.
Proof.
  induction l as [|[i x] l IH]; cbn [get]; [discriminate|].
  destruct (N.eqb i id) eqn:E; [apply N.eqb_eq in E; subst; intros _; left; reflexivity | intros H; right; apply IH; exact H].
Qed.

(* a publish reaches every attached subscriber, and queues for every detached one *)
Lemma publish_by_delivers who s tag t id c :
  s_conn (get id (sess s)) = Some c -> existsb (smatch (is_self who id) t) (s_subs (get id (sess s))) = true ->
  In (ODeliver c tag) (snd (publish_by who s tag t)).
Proof.
  intros Hc Hs. rewrite publish_by_spec. cbn [snd]. apply in_flat_map.
  exists (id, get id (sess s)). split; [apply (in_get id (sess s) c Hc)|].
  cbn [fst snd]. unfold pub_out. rewrite Hs, Hc. left. reflexivity.
Qed.

Lemma publish_by_rec who s tag t id : get id (sess (fst (publish_by who s tag t))) = pub_rec (is_self who id) tag t (get id (sess s)).
Proof. rewrite publish_by_spec. cbn [fst sess]. apply (get_maprec (fun i => pub_rec (is_self who i) tag t)). reflexivity. Qed.

Lemma publish_rec s tag t id : get id (sess (fst (publish s tag t))) = pub_rec false tag t (get id (sess s)).
Proof. apply (publish_by_rec None). Qed.

(* ---------- Stop closes everything ---------- *)

Lemma stop_fold_other l : forall s o id, ~ In id (map fst l) ->
  get id (sess (fst (fold_left stop_step l (s, o)))) = get id (sess s).
Proof.
  induction l as [|[i r] l IH]; intros s o id Hni; cbn [fold_left]; [reflexivity|].
  cbn [map fst] in Hni. unfold stop_step at 2. cbn [fst snd].
  destruct (s_conn r); [|apply IH; intros H; apply Hni; right; exact H].
  destruct (conn_end s i true None) as [s1 o1] eqn:E.
  rewrite IH by (intros H; apply Hni; right; exact H).
  change s1 with (fst (s1, o1)). rewrite <- E. apply conn_end_sess_other. intros ->. apply Hni. left. reflexivity.
Qed.

Lemma stop_fold_detached l : forall s o id, NoDup (map fst l) ->
  (forall i r, In (i, r) l -> get i (sess s) = r) ->
  In id (map fst l) -> s_conn (get id (sess (fst (fold_left stop_step l (s, o))))) = None.
Proof.
  induction l as [|[i r] l IH]; intros s o id Hnd Hget Hin; cbn [fold_left]; [destruct Hin|].
  cbn [map fst] in Hnd, Hin. inversion Hnd as [|? ? Hni Hnd']; subst.
  unfold stop_step at 2. cbn [fst snd].
  assert (Hr : get i (sess s) = r) by (apply Hget; left; reflexivity).
  destruct Hin as [<-|Hin].
  - destruct (s_conn r) eqn:Hc.
    + destruct (conn_end s i true None) as [s1 o1] eqn:E. rewrite stop_fold_other by exact Hni.
      change s1 with (fst (s1, o1)). rewrite <- E. apply conn_end_detaches.
    + rewrite stop_fold_other by exact Hni. rewrite Hr. exact Hc.
  - destruct (s_conn r) eqn:Hc.
    + destruct (conn_end s i true None) as [s1 o1] eqn:E. apply IH; [exact Hnd'| |exact Hin].
      intros j x Hjx. change s1 with (fst (s1, o1)). rewrite <- E. rewrite conn_end_sess_other.
      * apply Hget. right. exact Hjx.
      * intros ->. apply Hni. change (In (fst (j, x)) (map fst l)). apply in_map. exact Hjx.
    + apply IH; [exact Hnd'| |exact Hin]. intros j x Hjx. apply Hget. right. exact Hjx.
Qed.

Lemma stop_detaches_all s id : Inv s -> s_conn (get id (sess (fst (stop s)))) = None.
Proof.
  intros [Hnd Hok]. rewrite stop_unfold.
  destruct (fold_left stop_step (sess s) (s, [])) as [s1 os] eqn:E. cbn [fst sess].
  change s1 with (fst (s1, os)). rewrite <- E.
  destruct (in_dec N.eq_dec id (map fst (sess s))) as [Hin|Hni].
  - apply stop_fold_detached; [exact Hnd | intros i r Hir; apply get_in; assumption | exact Hin].
  - rewrite stop_fold_other by exact Hni. rewrite get_not_in by exact Hni. reflexivity.
Qed.

(* every attached connection is told so *)
Lemma stop_fold_closes l : forall s o i r c, In (i, r) l -> s_conn r = Some c ->
  In (OClosed c RShutdown) (snd (fold_left stop_step l (s, o))).
Proof.
  assert (Mono : forall l0 s o x, In x o -> In x (snd (fold_left stop_step l0 (s, o)))).
  { induction l0 as [|[j y] l0 IH]; intros s o x Hx; cbn [fold_left]; [exact Hx|].
    unfold stop_step at 2. cbn [fst snd]. destruct (s_conn y); [|apply IH; exact Hx].
    destruct (conn_end s j true None) as [s1 o1]. apply IH. apply in_or_app. left. exact Hx. }
  induction l as [|[j y] l IH]; intros s o i r c Hin Hc; [destruct Hin|]. cbn [fold_left].
  destruct Hin as [Heq|Hin].
  - inversion Heq; subst. unfold stop_step at 2. cbn [fst snd]. rewrite Hc.
    destruct (conn_end s i true None) as [s1 o1]. apply Mono. apply in_or_app. right. left. reflexivity.
  - destruct (stop_step (s, o) (j, y)) as [s' o']. apply IH with (i := i) (r := r); assumption.
Qed.

Lemma stop_closes s id c : Inv s -> s_conn (get id (sess s)) = Some c -> In (OClosed c RShutdown) (snd (stop s)).
Proof.
  intros [Hnd _] Hc. rewrite stop_unfold.
  pose proof (stop_fold_closes (sess s) s [] id (get id (sess s)) c) as H.
  destruct (fold_left stop_step (sess s) (s, [])) as [s1 os]. cbn [snd] in *. apply in_or_app. left. apply H; [|exact Hc].
  clear H. revert Hc. generalize (sess s). intros l. induction l as [|[i x] l IH]; cbn [get]; [discriminate|].
  destruct (N.eqb i id) eqn:E; [apply N.eqb_eq in E; subst; intros _; left; reflexivity | intros H; right; apply IH; exact H].
Qed.

Lemma stop_returns s : exists o, snd (stop s) = o ++ [OStopReturned].
Proof. rewrite stop_unfold. destruct (fold_left stop_step (sess s) (s, [])) as [s1 os]. exists os. reflexivity. Qed.

Lemma stop_step_some s o i x c : s_conn x = Some c ->
  stop_step (s, o) (i, x) = (fst (conn_end s i true None), o ++ [OClosed c RShutdown] ++ snd (conn_end s i true None)).
Proof. intros H. unfold stop_step. cbn [fst snd]. rewrite H. destruct (conn_end s i true None). reflexivity. Qed.

Lemma stop_step_none s o i x : s_conn x = None -> stop_step (s, o) (i, x) = (s, o).
Proof. intros H. unfold stop_step. cbn [fst snd]. rewrite H. reflexivity. Qed.

(* durable state is untouched by Stop (it is what goes to persistence); what is not durable is gone *)
Lemma stop_fold_state l : forall s o id, NoDup (map fst l) ->
  (forall i r, In (i, r) l -> get i (sess s) = r) ->
  let r := get id (sess s) in
  let r' := get id (sess (fst (fold_left stop_step l (s, o)))) in
  In id (map fst l) ->
  match s_conn r with
  | None => r' = r
  | Some _ => if end_durable r None then s_subs r' = s_subs r /\ s_queue r' = s_queue r /\ s_present r' = true
              else r' = wiped r
  end.
Proof.
  induction l as [|[i x] l IH]; intros s o id Hnd Hget r r' Hin; [destruct Hin|]. subst r r'.
  cbn [map fst] in Hnd, Hin. inversion Hnd as [|? ? Hni Hnd']; subst. cbn [fold_left].
  assert (Hx : get i (sess s) = x) by (apply Hget; left; reflexivity).
  destruct Hin as [<-|Hin].
  - rewrite Hx. destruct (s_conn x) as [c|] eqn:Hc.
    + rewrite (stop_step_some s o i x c Hc). rewrite stop_fold_other by exact Hni.
      pose proof (conn_end_state s i true None c) as H. rewrite Hx in H. specialize (H Hc). cbn zeta in H.
      destruct (end_durable x None); [|exact H]. destruct H as [H1 [H2 [H3 _]]]. auto.
    + rewrite (stop_step_none s o i x Hc). rewrite stop_fold_other by exact Hni. exact Hx.
  - assert (Hne : i <> id) by (intros ->; contradiction).
    destruct (s_conn x) as [c|] eqn:Hc.
    + rewrite (stop_step_some s o i x c Hc).
      assert (Hs1 : forall j, i <> j -> get j (sess (fst (conn_end s i true None))) = get j (sess s)).
      { intros j Hj. apply conn_end_sess_other. exact Hj. }
      specialize (IH (fst (conn_end s i true None)) (o ++ [OClosed c RShutdown] ++ snd (conn_end s i true None)) id Hnd').
      rewrite (Hs1 id Hne) in IH. apply IH; [|exact Hin].
      intros j y Hjy. rewrite Hs1; [apply Hget; right; exact Hjy|].
      intros ->. apply Hni. change (In (fst (j, y)) (map fst l)). apply in_map. exact Hjy.
    + rewrite (stop_step_none s o i x Hc). apply IH; [exact Hnd'| |exact Hin]. intros j y Hjy. apply Hget. right. exact Hjy.
Qed.

Lemma stop_state s id : Inv s ->
  let r := get id (sess s) in
  let r' := get id (sess (fst (stop s))) in
  match s_conn r with
  | None => r' = r
  | Some _ => if end_durable r None then s_subs r' = s_subs r /\ s_queue r' = s_queue r /\ s_present r' = true
              else r' = wiped r
  end.
Proof.
  intros [Hnd Hok] r r'. subst r r'. rewrite stop_unfold.
  destruct (fold_left stop_step (sess s) (s, [])) as [s1 os] eqn:E. cbn [fst sess].
  change s1 with (fst (s1, os)). rewrite <- E.
  destruct (in_dec N.eq_dec id (map fst (sess s))) as [Hin|Hni].
  - apply stop_fold_state; [exact Hnd | intros i r Hir; apply get_in; assumption | exact Hin].
  - rewrite stop_fold_other by exact Hni. rewrite (get_not_in id (sess s)) by exact Hni. reflexivity.
Qed.

Lemma stop_retained s : retained (fst (stop s)) = retained s.
Proof.
  rewrite stop_unfold.
  assert (G : forall l s0 o, retained (fst (fold_left stop_step l (s0, o))) = retained s0).
  { induction l as [|[i x] l IH]; intros s0 o; cbn [fold_left]; [reflexivity|].
    unfold stop_step at 2. cbn [fst snd]. destruct (s_conn x); [|apply IH].
    destruct (conn_end s0 i true None) as [s1 o1] eqn:E. rewrite IH.
    change s1 with (fst (s1, o1)). rewrite <- E. rewrite conn_end_fields. reflexivity. }
  specialize (G (sess s) s []). destruct (fold_left stop_step (sess s) (s, [])) as [s1 os]. exact G.
Qed.

(* ---------- wills are conserved: every publication consumes the stored will ---------- *)
Local Open Scope nat_scope.

Definition holds (g : N) (r : srec) : nat :=
  match s_will r with Some x => if N.eqb (w_tag x) g then 1 else 0 | None => 0 end.
Fixpoint held (g : N) (l : list (sid * srec)) : nat :=
  match l with [] => 0 | ir :: t => holds g (snd ir) + held g t end.
Definition will_of (g : N) (o : out) : bool := match o with OWill _ t => N.eqb t g | _ => false end.
Definition emitted (g : N) (o : list out) : nat := length (filter (will_of g) o).
Definition uses (g : N) (e : ev) : nat :=
  match e with EConnect _ _ _ _ _ (Some w) => if N.eqb (w_tag w) g then 1 else 0 | _ => 0 end.

Lemma emitted_app g a b : emitted g (a ++ b) = emitted g a + emitted g b.
Proof. unfold emitted. rewrite filter_app, app_length. reflexivity. Qed.

Lemma held_put g id r l : held g (put id r l) + holds g (get id l) = held g l + holds g r.
Proof.
  induction l as [|[i x] t IH]; cbn [put get held snd].
  - cbn. lia.
  - destruct (N.eqb i id); cbn [held snd]; lia.
Qed.

Lemma held_maprec_le g f l : (forall i r, holds g (f i r) <= holds g r) -> held g (maprec f l) <= held g l.
Proof.
  intros H. induction l as [|[i x] t IH]; cbn [maprec map held fst snd]; [lia|].
  specialize (H i x). fold (maprec f t). lia.
Qed.

Lemma conn_end_conserve g s id k e :
  emitted g (snd (conn_end s id k e)) + held g (sess (fst (conn_end s id k e))) <= held g (sess s).
Proof.
  unfold conn_end. destruct (s_conn (get id (sess s))) eqn:Hc; [|cbn; lia].
  cbn [fst snd sess].
  match goal with |- context [put id ?r1 (sess s)] => pose proof (held_put g id r1 (sess s)) as HP; set (R1 := r1) in * end.
  assert (emitted g (match (if k then s_will (get id (sess s)) else None) with
                     | Some x => if (w_delay x =? 0)%Z || negb (if end_durable (get id (sess s)) e then true else false) then [OWill id (w_tag x)] else []
                     | None => [] end) + holds g R1 <= holds g (get id (sess s))) as HE.
  { subst R1. unfold end_durable, end_expiry, holds, emitted.
    destruct k; cbn [s_will].
    - destruct (s_will (get id (sess s))) as [x|]; [|destruct (if s_v5 _ then _ else _); cbn; lia].
      destruct (s_v5 (get id (sess s))).
      + destruct (s_durable (get id (sess s)) && _); destruct (w_delay x =? 0)%Z; cbn; destruct (N.eqb (w_tag x) g); cbn; lia.
      + destruct (s_durable (get id (sess s))); destruct (w_delay x =? 0)%Z; cbn; destruct (N.eqb (w_tag x) g); cbn; lia.
    - destruct (if s_v5 _ then _ else _); cbn; lia. }
  unfold end_durable, end_expiry in HE.
  destruct (s_v5 (get id (sess s))); destruct (s_durable (get id (sess s))); cbn [andb] in *;
    try (destruct (match (match e with Some e0 => Some e0 | None => s_expiry (get id (sess s)) end) with Some e0 => negb (e0 =? 0)%Z | None => false end));
    cbn [negb orb] in *; lia.
Qed.

Lemma emitted_map_deliver g c l : emitted g (map (ODeliver c) l) = 0.
Proof. unfold emitted. induction l as [|x t IH]; cbn; [reflexivity | exact IH]. Qed.

Lemma connect_free_conserve g s c id v5 clean expiry w :
  emitted g (snd (connect_free s c id v5 clean expiry w)) + held g (sess (fst (connect_free s c id v5 clean expiry w)))
  <= held g (sess s) + match w with Some x => if N.eqb (w_tag x) g then 1 else 0 | None => 0 end.
Proof.
  unfold connect_free. cbn [fst snd sess].
  match goal with |- context [put id ?r1 (sess s)] => pose proof (held_put g id r1 (sess s)) as HP end.
  unfold holds at 2 in HP. cbn [s_will] in HP.
  change (emitted g ([OConnack c (s_present (if clean then wiped (get id (sess s)) else get id (sess s))) 0%N] ++
                      map (ODeliver c) (s_queue (if clean then wiped (get id (sess s)) else get id (sess s)))))
    with (emitted g (map (ODeliver c) (s_queue (if clean then wiped (get id (sess s)) else get id (sess s))))).
  rewrite emitted_map_deliver. lia.
Qed.

Lemma connect_conserve g s c id v5 clean expiry w :
  emitted g (snd (connect s c id v5 clean expiry w)) + held g (sess (fst (connect s c id v5 clean expiry w)))
  <= held g (sess s) + match w with Some x => if N.eqb (w_tag x) g then 1 else 0 | None => 0 end.
Proof.
  unfold connect. destruct (s_conn (get id (sess s))) as [old|]; [|apply connect_free_conserve].
  destruct (preempt s).
  - pose proof (conn_end_conserve g s id true None) as H1.
    destruct (conn_end s id true None) as [s1 o1]. cbn [fst snd] in H1.
    pose proof (connect_free_conserve g s1 c id v5 clean expiry w) as H2.
    destruct (connect_free s1 c id v5 clean expiry w) as [s2 o2]. cbn [fst snd] in *.
    rewrite !emitted_app. change (emitted g [OClosed old RTakenOver]) with 0. lia.
  - cbn [fst snd]. change (emitted g [OConnack c false (refuse_code v5)]) with 0. lia.
Qed.

Lemma fire_conserve g t i r : emitted g (snd (fire t i r)) + holds g (fst (fire t i r)) <= holds g r.
Proof.
  unfold fire. destruct (s_conn r); [cbn; lia|].
  destruct (match s_expire_at r with Some e => (e <=? t)%Z | None => false end);
    destruct (match s_will_at r with Some wt => (wt <=? t)%Z | None => false end); cbn [orb fst snd];
    unfold holds; destruct (s_will r) as [x|]; cbn; try destruct (N.eqb (w_tag x) g); cbn; lia.
Qed.

Lemma fire_all_conserve g t l : emitted g (snd (fire_all t l)) + held g (fst (fire_all t l)) <= held g l.
Proof.
  rewrite fire_all_spec. cbn [fst snd]. induction l as [|[i r] l IH]; cbn [maprec map flat_map held fst snd]; [cbn; lia|].
  rewrite emitted_app. pose proof (fire_conserve g t i r). fold (maprec (fun i r => fst (fire t i r)) l). lia.
Qed.

Lemma publish_by_conserve g who s tag t : emitted g (snd (publish_by who s tag t)) = 0 /\ held g (sess (fst (publish_by who s tag t))) = held g (sess s).
Proof.
  rewrite publish_by_spec. cbn [fst snd sess]. generalize (sess s). intros l. split.
  - induction l as [|[i r] l IH]; cbn [flat_map fst snd]; [reflexivity|]. rewrite emitted_app, IH.
    unfold pub_out. destruct (existsb (smatch (is_self who i) t) (s_subs r)); [destruct (s_conn r)|]; reflexivity.
  - induction l as [|[i r] l IH]; cbn [maprec map held fst snd]; [reflexivity|].
    fold (maprec (fun i => pub_rec (is_self who i) tag t) l). rewrite IH. f_equal.
    unfold pub_rec, holds. destruct (existsb (smatch (is_self who i) t) (s_subs r)); [destruct (s_conn r)|]; reflexivity.
Qed.

Lemma publish_conserve g s tag t : emitted g (snd (publish s tag t)) = 0 /\ held g (sess (fst (publish s tag t))) = held g (sess s).
Proof. apply publish_by_conserve. Qed.

Lemma subscribe_conserve g s id t : emitted g (snd (subscribe s id t)) = 0 /\ held g (sess (fst (subscribe s id t))) = held g (sess s).
Proof.
  unfold subscribe. destruct (s_conn (get id (sess s))) as [c|]; [|split; reflexivity]. cbn [fst snd sess]. split.
  - apply emitted_map_deliver.
  - match goal with |- context [put id ?r1 (sess s)] => pose proof (held_put g id r1 (sess s)) as HP end.
    unfold holds at 2 in HP. cbn [s_will] in HP. unfold holds in HP at 1. lia.
Qed.

Lemma unsubscribe_conserve g s id t : emitted g (snd (unsubscribe s id t)) = 0 /\ held g (sess (fst (unsubscribe s id t))) = held g (sess s).
Proof.
  unfold unsubscribe. destruct (s_conn (get id (sess s))) as [c|]; [|split; reflexivity]. cbn [fst snd sess]. split.
  - reflexivity.
  - match goal with |- context [put id ?r1 (sess s)] => pose proof (held_put g id r1 (sess s)) as HP end.
    unfold holds at 2 in HP. cbn [s_will] in HP. unfold holds in HP at 1. lia.
Qed.

Lemma stop_conserve g s : emitted g (snd (stop s)) + held g (sess (fst (stop s))) <= held g (sess s).
Proof.
  rewrite stop_unfold.
  assert (G : forall l s0 o, emitted g (snd (fold_left stop_step l (s0, o))) + held g (sess (fst (fold_left stop_step l (s0, o))))
                             <= emitted g o + held g (sess s0)).
  { induction l as [|[i x] l IH]; intros s0 o; cbn [fold_left]; [cbn [fst snd]; lia|].
    destruct (s_conn x) as [c|] eqn:Hc.
    - rewrite (stop_step_some s0 o i x c Hc). etransitivity; [apply IH|].
      rewrite !emitted_app. change (emitted g [OClosed c RShutdown]) with 0.
      pose proof (conn_end_conserve g s0 i true None). lia.
    - rewrite (stop_step_none s0 o i x Hc). apply IH. }
  specialize (G (sess s) s []). destruct (fold_left stop_step (sess s) (s, [])) as [s1 os]. cbn [fst snd sess] in *.
  rewrite emitted_app. change (emitted g [OStopReturned]) with 0. change (emitted g []) with 0 in G. lia.
Qed.

Lemma step_conserve g s e : emitted g (snd (step s e)) + held g (sess (fst (step s e))) <= held g (sess s) + uses g e.
Proof.
  destruct e; cbn [step uses].
  - destruct (stopped s); [cbn; lia | apply connect_conserve].
  - destruct (subscribe_conserve g s id k) as [H1 H2]. lia.
  - destruct (unsubscribe_conserve g s id t) as [H1 H2]. lia.
  - destruct (publish_conserve g s tag t) as [H1 H2]. lia.
  - destruct (publish_by_conserve g (Some id) s tag t) as [H1 H2]. lia.
  - destruct (publish_conserve g s tag t) as [H1 H2]. destruct (publish s tag t) as [s1 o]. cbn [fst snd sess] in *. lia.
  - cbn. lia.
  - pose proof (conn_end_conserve g s id with_will expiry). lia.
  - pose proof (conn_end_conserve g s id true None). lia.
  - destruct (s_conn (get id (sess s))) as [c'|]; [|cbn; lia]. destruct (N.eqb c c'); [|cbn; lia].
    pose proof (conn_end_conserve g s id true None). lia.
  - pose proof (fire_all_conserve g (now s + dt)%Z (sess s)) as H.
    destruct (fire_all (now s + dt)%Z (sess s)) as [l os]. cbn [fst snd sess] in *. lia.
  - pose proof (stop_conserve g s). lia.
  - cbn. lia.
Qed.

Fixpoint uses_all (g : N) (es : list ev) : nat := match es with [] => 0 | e :: r => uses g e + uses_all g r end.

Lemma run_conserve g es : forall s,
  emitted g (concat (snd (run s es))) + held g (sess (fst (run s es))) <= held g (sess s) + uses_all g es.
Proof.
  induction es as [|e es IH]; intros s; cbn [run uses_all]; [cbn; lia|].
  pose proof (step_conserve g s e) as H1. destruct (step s e) as [s1 o]. specialize (IH s1).
  destruct (run s1 es) as [s2 os]. cbn [fst snd concat] in *. rewrite emitted_app. lia.
Qed.

(* ---------- CONNECT on an identifier in use ---------- *)
Local Open Scope Z_scope.

Lemma connect_takeover s c id v5 clean expiry w old :
  s_conn (get id (sess s)) = Some old -> preempt s = true ->
  exists wills present delivers,
    snd (connect s c id v5 clean expiry w) = OClosed old RTakenOver :: wills ++ OConnack c present 0%N :: map (ODeliver c) delivers /\
    forallb is_will wills = true /\
    s_conn (get id (sess (fst (connect s c id v5 clean expiry w)))) = Some c /\
    (forall id', id' <> id -> get id' (sess (fst (connect s c id v5 clean expiry w))) = get id' (sess s)).
Proof.
  intros Hold Hpre. unfold connect. rewrite Hold, Hpre.
  pose proof (conn_end_out s id true None) as Hw.
  pose proof (fun id' (H : id <> id') => conn_end_sess_other s id true None id' H) as Hoth.
  destruct (conn_end s id true None) as [s1 o1]. cbn [fst snd] in *.
  pose proof (connect_free_out s1 c id v5 clean expiry w) as Ho.
  pose proof (connect_free_rec s1 c id v5 clean expiry w) as Hr.
  pose proof (fun id' (H : id <> id') => connect_free_other s1 c id v5 clean expiry w id' H) as Hoth2.
  destruct (connect_free s1 c id v5 clean expiry w) as [s2 o2]. cbn [fst snd] in *.
  exists o1, (if clean then false else s_present (get id (sess s1))), (if clean then [] else s_queue (get id (sess s1))).
  split; [rewrite Ho; reflexivity|]. split; [exact Hw|]. split; [rewrite Hr; reflexivity|].
  intros id' Hne. rewrite Hoth2, Hoth; auto.
Qed.

Lemma connect_refused s c id v5 clean expiry w old :
  s_conn (get id (sess s)) = Some old -> preempt s = false ->
  connect s c id v5 clean expiry w = (s, [OConnack c false (refuse_code v5)]) /\ refuse_code v5 <> 0%N.
Proof.
  intros Hold Hpre. unfold connect. rewrite Hold, Hpre. split; [reflexivity|]. destruct v5; discriminate.
Qed.

Lemma filter_connack_wills c l : forallb is_will l = true -> filter (is_connack_of c) l = [].
Proof.
  induction l as [|x t IH]; cbn [forallb filter]; [reflexivity|]. intros H. apply andb_prop in H. destruct H as [Hx Ht].
  destruct x; try discriminate. cbn. apply IH. exact Ht.
Qed.

Lemma filter_connack_delivers c c' l : filter (is_connack_of c) (map (ODeliver c') l) = [].
Proof. induction l as [|x t IH]; [reflexivity | exact IH]. Qed.

(* every CONNECT is answered by exactly one CONNACK *)
Lemma connect_answered_once s c id v5 clean expiry w :
  length (filter (is_connack_of c) (snd (connect s c id v5 clean expiry w))) = 1%nat.
Proof.
  destruct (s_conn (get id (sess s))) as [old|] eqn:Hold.
  - destruct (preempt s) eqn:Hpre.
    + destruct (connect_takeover s c id v5 clean expiry w old Hold Hpre) as [wl [p [d [Ho [Hw _]]]]].
      rewrite Ho. cbn [filter is_connack_of]. rewrite filter_app, (filter_connack_wills c wl Hw).
      cbn [app filter is_connack_of]. rewrite N.eqb_refl, filter_connack_delivers. reflexivity.
    + destruct (connect_refused s c id v5 clean expiry w old Hold Hpre) as [E _]. rewrite E. cbn. rewrite N.eqb_refl. reflexivity.
  - unfold connect. rewrite Hold. rewrite connect_free_out. cbn [filter is_connack_of]. rewrite N.eqb_refl, filter_connack_delivers. reflexivity.
Qed.

(* messages are only ever handed to a connection that is attached *)
Lemma in_map_deliver c l o : In o (map (ODeliver c) l) -> exists t, o = ODeliver c t.
Proof. intros H. apply in_map_iff in H. destruct H as [t [<- _]]. exists t. reflexivity. Qed.

Lemma wills_no_deliver l c t : forallb is_will l = true -> ~ In (ODeliver c t) l.
Proof.
  intros H Hin. rewrite forallb_forall in H. specialize (H _ Hin). discriminate.
Qed.

Lemma connect_deliver_attached s c id v5 clean expiry w c' t :
  In (ODeliver c' t) (snd (connect s c id v5 clean expiry w)) ->
  c' = c /\ s_conn (get id (sess (fst (connect s c id v5 clean expiry w)))) = Some c.
Proof.
  intros Hin. destruct (s_conn (get id (sess s))) as [old|] eqn:Hold.
  - destruct (preempt s) eqn:Hpre.
    + destruct (connect_takeover s c id v5 clean expiry w old Hold Hpre) as [wl [p [d [Ho [Hw [Hat _]]]]]].
      rewrite Ho in Hin. destruct Hin as [Hin|Hin]; [discriminate|]. apply in_app_or in Hin. destruct Hin as [Hin|Hin].
      * exfalso. exact (wills_no_deliver wl c' t Hw Hin).
      * destruct Hin as [Hin|Hin]; [discriminate|]. apply in_map_deliver in Hin. destruct Hin as [t' E]. inversion E; subst. split; [reflexivity|exact Hat].
    + destruct (connect_refused s c id v5 clean expiry w old Hold Hpre) as [E _]. rewrite E in Hin. destruct Hin as [Hin|[]]. discriminate.
  - unfold connect in *. rewrite Hold in *. rewrite connect_free_out in Hin. destruct Hin as [Hin|Hin]; [discriminate|].
    apply in_map_deliver in Hin. destruct Hin as [t' E]. inversion E; subst. split; [reflexivity|].
    rewrite connect_free_rec. reflexivity.
Qed.

Lemma fire_all_out t l : forallb is_will (snd (fire_all t l)) = true.
Proof.
  rewrite fire_all_spec. cbn [snd]. induction l as [|[i r] l IH]; cbn [flat_map fst snd]; [reflexivity|].
  rewrite forallb_app, IH, andb_true_r. unfold fire. destruct (s_conn r); [reflexivity|].
  destruct (match s_expire_at r with Some e => e <=? t | None => false end);
    destruct (match s_will_at r with Some wt => wt <=? t | None => false end); cbn [orb snd];
    destruct (s_will r); reflexivity.
Qed.

Lemma stop_no_deliver s c t : ~ In (ODeliver c t) (snd (stop s)).
Proof.
  rewrite stop_unfold.
  assert (G : forall l s0 o, ~ In (ODeliver c t) o -> ~ In (ODeliver c t) (snd (fold_left stop_step l (s0, o)))).
  { induction l as [|[i x] l IH]; intros s0 o Ho; cbn [fold_left]; [exact Ho|].
    destruct (s_conn x) as [c0|] eqn:Hc.
    - rewrite (stop_step_some s0 o i x c0 Hc). apply IH. intros Hin. apply in_app_or in Hin. destruct Hin as [Hin|Hin]; [exact (Ho Hin)|].
      destruct Hin as [Hin|Hin]; [discriminate|]. exact (wills_no_deliver _ c t (conn_end_out s0 i true None) Hin).
    - rewrite (stop_step_none s0 o i x Hc). apply IH. exact Ho. }
  specialize (G (sess s) s [] (fun H => H)). destruct (fold_left stop_step (sess s) (s, [])) as [s1 os]. cbn [snd] in *.
  intros Hin. apply in_app_or in Hin. destruct Hin as [Hin|[Hin|[]]]; [exact (G Hin) | discriminate].
Qed.

Lemma step_deliver_attached s e c t : Inv s ->
  In (ODeliver c t) (snd (step s e)) -> attached s c \/ attached (fst (step s e)) c.
Proof.
  intros HI Hin. destruct e; cbn [step] in *.
  - destruct (stopped s); [destruct Hin|]. right. apply connect_deliver_attached in Hin. destruct Hin as [-> H]. exists id. exact H.
  - left. unfold subscribe in Hin. destruct (s_conn (get id (sess s))) as [c0|] eqn:Hc; [|destruct Hin].
    cbn [snd] in Hin. apply in_map_deliver in Hin. destruct Hin as [t' E]. inversion E; subst. exists id. exact Hc.
  - exfalso. unfold unsubscribe in Hin. destruct (s_conn (get id (sess s))); destruct Hin.
  - left. destruct (publish_out_attached s tag t0 _ HI Hin) as [c' [E Ha]]. inversion E; subst. exact Ha.
  - left. destruct (publish_by_out_attached (Some id) s tag t0 _ HI Hin) as [c' [E Ha]]. inversion E; subst. exact Ha.
  - left. destruct (publish s tag t0) as [s1 o] eqn:Ep. cbn [snd] in Hin.
    assert (Hin' : In (ODeliver c t) (snd (publish s tag t0))) by (rewrite Ep; exact Hin).
    destruct (publish_out_attached s tag t0 _ HI Hin') as [c' [E Ha]]. inversion E; subst. exact Ha.
  - destruct Hin.
  - exfalso. exact (wills_no_deliver _ c t (conn_end_out s id with_will expiry) Hin).
  - exfalso. exact (wills_no_deliver _ c t (conn_end_out s id true None) Hin).
  - destruct (s_conn (get id (sess s))) as [c'|]; [|destruct Hin]. destruct (N.eqb c0 c'); [|destruct Hin].
    exfalso. exact (wills_no_deliver _ c t (conn_end_out s id true None) Hin).
  - pose proof (fire_all_out (now s + dt) (sess s)) as Hw. destruct (fire_all (now s + dt) (sess s)) as [l os]. cbn [snd] in *.
    exfalso. exact (wills_no_deliver _ c t Hw Hin).
  - exfalso. exact (stop_no_deliver s c t Hin).
  - destruct Hin.
Qed.
