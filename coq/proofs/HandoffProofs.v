(* HandoffProofs.v — the repaired order of steps (variant 0) keeps, under EVERY interleaving of routing, writer and
   connection life-cycle steps:   first transmissions so far ++ what is pending = what was handed to the session,
   in that order; and whatever is pending on an established connection is in the writer's queue (it is what the
   writer transmits next).  The two earlier orders are refuted in refute/C13.v. *)
From Coq Require Import List Bool Lia.
Import ListNotations.
From VMQ Require Import model.Handoff.

Section P.
Variable msg : Type.
Notation st := (st msg).
Notation step0 := (@step msg 0).
Notation run0 := (@run msg 0).

Definition shape (s : st) : Prop :=
  match ph s with
  | Connected => md s = MLive /\ started s = true /\ store s = [] /\ held s = [] /\ waiting s = []
  | Closing => md s = MWait /\ store s = [] /\ held s = []
  | Offline => md s = MDirect /\ txq s = [] /\ held s = [] /\ waiting s = []
  | Connecting => md s = MLive /\ started s = false /\ txq s = [] /\ waiting s = []
  end.

Definition Inv (s : st) (done : list msg) : Prop := shape s /\ sent s ++ pending s = done.

Lemma init_inv : Inv (@init msg) [].
Proof. split; cbn; auto. Qed.

Ltac norm := repeat rewrite <- app_assoc; cbn [app]; repeat rewrite app_nil_r; repeat rewrite <- app_assoc; cbn [app].

Lemma step_inv s done e : Inv s done ->
  Inv (step0 s e) (match e with Route m => done ++ [m] | _ => done end).
Proof.
  intros [Hs Hp]. destruct s as [p mo b q h w t x]. unfold Inv, shape, pending in *. cbn [ph md started txq held waiting store sent] in *.
  destruct e; cbn [step ph md started txq held waiting store sent].
  - (* Route *)
    destruct p; cbn in Hs.
    + destruct Hs as (-> & -> & -> & -> & ->). cbn [ph md started txq held waiting store sent]. split; [auto|]. rewrite <- Hp. norm. reflexivity.
    + destruct Hs as (-> & -> & ->). cbn [ph md started txq held waiting store sent]. split; [auto|]. rewrite <- Hp. norm. reflexivity.
    + destruct Hs as (-> & -> & -> & ->). cbn [ph md started txq held waiting store sent]. split; [auto|]. rewrite <- Hp. norm. reflexivity.
    + destruct Hs as (-> & -> & -> & ->). cbn [ph md started txq held waiting store sent]. split; [auto|]. rewrite <- Hp. norm. reflexivity.
  - (* Send *)
    destruct p; try (split; [exact Hs|exact Hp]). destruct b; [|split; [exact Hs|exact Hp]].
    destruct q as [|y r]; [split; [exact Hs|exact Hp]|]. cbn [ph md started txq held waiting store sent].
    split; [exact Hs|]. rewrite <- Hp. norm. reflexivity.
  - (* CloseBegin *)
    destruct p; try (split; [exact Hs|exact Hp]). cbn in Hs. destruct Hs as (-> & -> & -> & -> & ->).
    split; [cbn; auto|exact Hp].
  - (* CloseEnd *)
    destruct p; try (split; [exact Hs|exact Hp]). cbn in Hs. destruct Hs as (-> & -> & ->).
    split; [cbn; auto|]. cbn [ph md started txq held waiting store sent]. rewrite <- Hp. norm. reflexivity.
  - (* OpenBegin *)
    destruct p; try (split; [exact Hs|exact Hp]). cbn in Hs. destruct Hs as (-> & -> & -> & ->).
    split; [cbn; auto|exact Hp].
  - (* OpenEnd *)
    destruct p; try (split; [exact Hs|exact Hp]). cbn in Hs. destruct Hs as (-> & -> & -> & ->).
    split; [cbn; auto|]. cbn [ph md started txq held waiting store sent]. rewrite <- Hp. norm. reflexivity.
Qed.

Lemma run_inv es : forall s done, Inv s done -> Inv (run0 s es) (done ++ routed es).
Proof.
  induction es as [|e es IH]; intros s done H; cbn [run fold_left routed]; [rewrite app_nil_r; exact H|].
  pose proof (step_inv s done e H) as H1. specialize (IH (step0 s e) _ H1).
  destruct e; cbn [routed]; try exact IH. rewrite <- app_assoc in IH. exact IH.
Qed.

Theorem handoff_order es :
  let s := run0 (@init msg) es in
  sent s ++ pending s = routed es /\
  (ph s = Connected -> pending s = txq s /\ started s = true).
Proof.
  cbn zeta. destruct (run_inv es (@init msg) [] init_inv) as [Hs Hp]. cbn [app] in Hp. split; [exact Hp|].
  intros Hc. unfold shape in Hs. rewrite Hc in Hs. destruct Hs as (_ & Hb & H1 & H2 & H3).
  unfold pending. rewrite H1, H2, H3, !app_nil_r. split; [reflexivity|exact Hb].
Qed.

(* on an established connection the writer always makes progress on what is pending *)
Theorem handoff_no_stall es :
  let s := run0 (@init msg) es in
  ph s = Connected -> pending s <> [] ->
  exists m, sent (step0 s Send) = sent s ++ [m] /\ hd_error (pending s) = Some m.
Proof.
  cbn zeta. intros Hc Hne. destruct (handoff_order es) as [_ H]. destruct (H Hc) as [Hq Hb].
  rewrite Hq in *. destruct (txq (run0 (@init msg) es)) as [|m r] eqn:E; [contradiction|].
  exists m. cbn [step]. rewrite Hc, Hb, E. cbn. split; reflexivity.
Qed.

End P.
