(* PrimsProofs.v — OnceWait.Do and Pool (model/Prims.v): invariants over every schedule, any number of threads. *)
From Coq Require Import List Arith Bool Lia Permutation.
Import ListNotations.
From VMQ Require Import model.Prims.

(* ---------- counting threads by program counter ---------- *)
Fixpoint cnt {A} (f : A -> bool) (l : list A) : nat :=
  match l with [] => 0 | x :: r => (if f x then 1 else 0) + cnt f r end.

Definition b2n (b : bool) : nat := if b then 1 else 0.

Lemma cnt_setp {A} (f : A -> bool) l i x old : nth_error l i = Some old ->
  cnt f (setp l i x) + b2n (f old) = cnt f l + b2n (f x).
Proof.
  revert i. induction l as [|y l IH]; intros [|i] H; cbn in *; try discriminate.
  - inversion H; subst. unfold b2n. destruct (f old), (f x); lia.
  - specialize (IH i H). lia.
Qed.

Lemma nth_setp_same {A} (l : list A) i x old : nth_error l i = Some old -> nth_error (setp l i x) i = Some x.
Proof. revert i. induction l as [|y l IH]; intros [|i] H; cbn in *; try discriminate; [reflexivity | apply (IH i H)]. Qed.

Lemma nth_setp_other {A} (l : list A) i j x : i <> j -> nth_error (setp l i x) j = nth_error l j.
Proof. revert i j. induction l as [|y l IH]; intros [|i] [|j] H; cbn; try reflexivity; try contradiction. apply IH. lia. Qed.

Lemma cnt_repeat {A} (f : A -> bool) x n : cnt f (repeat x n) = n * b2n (f x).
Proof. induction n as [|n IH]; cbn; [reflexivity|]. rewrite IH. unfold b2n. destruct (f x); lia. Qed.

Lemma cnt_pos_nth {A} (f : A -> bool) l i x : nth_error l i = Some x -> f x = true -> 1 <= cnt f l.
Proof.
  revert i. induction l as [|y l IH]; intros [|i] H Hf; cbn in *; try discriminate.
  - inversion H; subst. rewrite Hf. lia.
  - specialize (IH i H Hf). lia.
Qed.

Lemma cnt_le {A} (f g : A -> bool) l : (forall x, f x = true -> g x = true) -> cnt f l <= cnt g l.
Proof.
  intros H. induction l as [|x l IH]; cbn; [lia|]. destruct (f x) eqn:E; [rewrite (H x E); lia | destruct (g x); lia].
Qed.

Lemma cnt_split3 {A} (f g h k : A -> bool) l :
  (forall x, b2n (f x) = b2n (g x) + b2n (h x) + b2n (k x)) -> cnt f l = cnt g l + cnt h l + cnt k l.
Proof.
  intros H. induction l as [|x l IH]; cbn; [reflexivity|]. specialize (H x). unfold b2n in H.
  destruct (f x), (g x), (h x), (k x); cbn in *; lia.
Qed.

(* ---------- OnceWait ---------- *)
Definition crit (p : opc) := match p with OCas | OWgAdd | OUnlockW | OUnlockL => true | _ => false end.
Definition winner (p : opc) := match p with OWgAdd | OUnlockW | ORun | OEnd | ODone | ORetT => true | _ => false end.
Definition wg1 (p : opc) := match p with OUnlockW | ORun | OEnd | ODone => true | _ => false end.
Definition entered (p : opc) := match p with OEnd | ODone | ORetT => true | _ => false end.
Definition finished (p : opc) := match p with ODone | ORetT => true | _ => false end.
Definition wincrit (p : opc) := match p with OWgAdd | OUnlockW => true | _ => false end.
Definition loserout (p : opc) := match p with OWait | ORetF => true | _ => false end.
Definition retf (p : opc) := match p with ORetF => true | _ => false end.
Definition mid (p : opc) := match p with ORun | OEnd | ODone => true | _ => false end.
Definition rett (p : opc) := match p with ORetT => true | _ => false end.
Definition loser (p : opc) := match p with OUnlockL | OWait | ORetF => true | _ => false end.

Record OInv (s : ost) : Prop := mkOInv {
  oi_lock : cnt crit (opcs s) = match olock s with Some _ => 1 | None => 0 end;
  oi_holder : forall i, olock s = Some i -> exists p, nth_error (opcs s) i = Some p /\ crit p = true;
  oi_win : cnt winner (opcs s) = b2n (oval s);
  oi_wg : owg s = cnt wg1 (opcs s);
  oi_fc : ofcount s = cnt entered (opcs s);
  oi_fd : ofdone s = (0 <? cnt finished (opcs s));
  oi_loser : 1 <= cnt loser (opcs s) -> oval s = true;
  oi_out : 1 <= cnt loserout (opcs s) -> cnt wincrit (opcs s) = 0;
  oi_retf : 1 <= cnt retf (opcs s) -> 1 <= cnt finished (opcs s)
}.

Lemma oinit_inv n : OInv (oinit n).
Proof.
  unfold oinit. constructor; cbn [opcs olock oval owg ofcount ofdone]; rewrite ?cnt_repeat; cbn; rewrite ?Nat.mul_0_r; try lia; try reflexivity.
  all: try (intros; discriminate); try (intros; lia).
Qed.

Ltac cnt_all Hn :=
  repeat match goal with
  | |- context [cnt ?f (setp ?l ?i ?x)] =>
      let H := fresh "Hc" in let c := fresh "c" in
      pose proof (cnt_setp f l i x _ Hn) as H; cbn [b2n crit winner wg1 entered finished wincrit loserout loser retf mid rett] in H;
      set (c := cnt f (setp l i x)) in *; clearbody c
  end.

Lemma ostep_inv s i : OInv s -> OInv (ostep s i).
Proof.
  intros HI. pose proof HI as [H1 H2 H3 H4 H5 H6 H7 H8 H9]. unfold ostep. destruct (nth_error (opcs s) i) as [pc|] eqn:Hn; [|exact HI].
  assert (Hhold : forall j q, olock s = Some j -> nth_error (opcs s) i = Some q -> crit q = true -> j = i).
  { intros j q Hl Hq Hc. destruct (Nat.eq_dec j i) as [E|E]; [exact E|]. exfalso.
    destruct (H2 j Hl) as [p [Hp Hcp]]. rewrite Hl in H1.
    (* two different critical threads: count >= 2 *)
    assert (2 <= cnt crit (opcs s)).
    { clear - Hp Hcp Hq Hc E. revert i j E Hp Hq. induction (opcs s) as [|y l IH]; intros [|i] [|j] E Hp Hq; cbn in *; try discriminate; try lia.
      - inversion Hq; subst. rewrite Hc. pose proof (cnt_pos_nth crit l j p Hp Hcp). lia.
      - inversion Hp; subst. rewrite Hcp. pose proof (cnt_pos_nth crit l i q Hq Hc). lia.
      - assert (j <> i) by lia. specialize (IH i j H Hp Hq). destruct (crit y); lia. }
    lia. }
  (* helpers *)
  assert (Hothers : forall (q' : opc) j, olock s = Some j -> crit (match nth_error (opcs s) i with Some q => q | None => OStart end) = false ->
            exists p, nth_error (setp (opcs s) i q') j = Some p /\ crit p = true).
  { intros q' j Hj Hnc. destruct (H2 j Hj) as [p [Hp Hc]]. destruct (Nat.eq_dec i j) as [->|E].
    - rewrite Hp in Hnc. congruence.
    - exists p. split; [rewrite nth_setp_other by exact E; exact Hp | exact Hc]. }
  assert (Honlycrit : forall q, nth_error (opcs s) i = Some q -> crit q = true -> wincrit q = false -> cnt crit (opcs s) = 1 -> cnt wincrit (opcs s) = 0).
  { intros q Hq Hcq Hwq. clear - Hq Hcq Hwq. revert i Hq. induction (opcs s) as [|y l IH]; intros [|k] Hk Hc; cbn in *; try discriminate.
    - inversion Hk; subst. rewrite Hcq in Hc. rewrite Hwq. assert (Hz : cnt crit l = 0) by lia.
      clear - Hz. induction l as [|z l IH]; cbn in *; [reflexivity|]. destruct z; cbn in *; try lia; apply IH; lia.
    - destruct y; cbn in *; try (apply (IH k Hk); lia); exfalso; pose proof (cnt_pos_nth crit l k q Hk Hcq); lia. }
  rewrite Hn in Hothers. cbn iota in Hothers.
  destruct pc.
  - (* OStart *) destruct (olock s) as [h|] eqn:Hl; [exact HI|].
    constructor; cbn [opcs olock oval owg ofcount ofdone];
    [ cnt_all Hn; lia
    | intros j Hj; inversion Hj; subst; exists OCas; split; [apply (nth_setp_same _ _ _ _ Hn) | reflexivity]
    | cnt_all Hn; lia | cnt_all Hn; lia | cnt_all Hn; lia
    | cnt_all Hn; rewrite H6; f_equal; lia
    | cnt_all Hn; intros; apply H7; lia
    | cnt_all Hn; intros; assert (cnt wincrit (opcs s) = 0) by (apply H8; lia); lia
    | cnt_all Hn; intros; assert (1 <= cnt finished (opcs s)) by (apply H9; lia); lia ].
  - (* OCas *) assert (Hl : olock s = Some i).
    { destruct (olock s) as [h|] eqn:Hl; [f_equal; apply (Hhold h OCas eq_refl Hn eq_refl)|].
      pose proof (cnt_pos_nth crit _ _ _ Hn eq_refl). lia. }
    assert (Hwc : cnt wincrit (opcs s) = 0) by (apply (Honlycrit OCas Hn eq_refl eq_refl); rewrite Hl in H1; exact H1).
    destruct (oval s) eqn:Hv.
    + constructor; cbn [opcs olock oval owg ofcount ofdone];
      [ cnt_all Hn; lia
      | intros j Hj; rewrite Hl in Hj; inversion Hj; subst; exists OUnlockL; split; [apply (nth_setp_same _ _ _ _ Hn) | reflexivity]
      | cnt_all Hn; cbn [b2n] in *; lia | cnt_all Hn; lia | cnt_all Hn; lia
      | cnt_all Hn; rewrite H6; f_equal; lia
      | intros; reflexivity
      | cnt_all Hn; intros; lia
    | cnt_all Hn; intros; assert (1 <= cnt finished (opcs s)) by (apply H9; lia); lia ].
    + constructor; cbn [opcs olock oval owg ofcount ofdone];
      [ cnt_all Hn; lia
      | intros j Hj; rewrite Hl in Hj; inversion Hj; subst; exists OWgAdd; split; [apply (nth_setp_same _ _ _ _ Hn) | reflexivity]
      | cnt_all Hn; cbn [b2n] in *; lia | cnt_all Hn; lia | cnt_all Hn; lia
      | cnt_all Hn; rewrite H6; f_equal; lia
      | intros; reflexivity
      | cnt_all Hn; intros Hlo; exfalso;
        assert (Hle : cnt loserout (opcs s) <= cnt loser (opcs s)) by (apply cnt_le; intros [] E; try discriminate; reflexivity);
        assert (Hx : 1 <= cnt loser (opcs s)) by lia; specialize (H7 Hx); congruence
    | cnt_all Hn; intros; assert (1 <= cnt finished (opcs s)) by (apply H9; lia); lia ].
  - (* OWgAdd *) constructor; cbn [opcs olock oval owg ofcount ofdone];
    [ cnt_all Hn; lia
    | intros j Hj; assert (j = i) by (apply (Hhold j OWgAdd Hj Hn eq_refl)); subst; exists OUnlockW; split; [apply (nth_setp_same _ _ _ _ Hn) | reflexivity]
    | cnt_all Hn; lia | cnt_all Hn; lia | cnt_all Hn; lia
    | cnt_all Hn; rewrite H6; f_equal; lia
    | cnt_all Hn; intros; apply H7; lia
    | cnt_all Hn; intros Hlo; assert (cnt wincrit (opcs s) = 0) by (apply H8; lia); pose proof (cnt_pos_nth wincrit _ _ _ Hn eq_refl); lia
    | cnt_all Hn; intros; assert (1 <= cnt finished (opcs s)) by (apply H9; lia); lia ].
  - (* OUnlockW *) assert (Hl : exists h, olock s = Some h).
    { destruct (olock s) as [h|] eqn:Hl; [exists h; reflexivity|]. pose proof (cnt_pos_nth crit _ _ _ Hn eq_refl). lia. }
    destruct Hl as [h Hl]. rewrite Hl in H1.
    constructor; cbn [opcs olock oval owg ofcount ofdone];
    [ cnt_all Hn; lia
    | intros j Hj; discriminate
    | cnt_all Hn; lia | cnt_all Hn; lia | cnt_all Hn; lia
    | cnt_all Hn; rewrite H6; f_equal; lia
    | cnt_all Hn; intros; apply H7; lia
    | cnt_all Hn; intros Hlo; assert (cnt wincrit (opcs s) = 0) by (apply H8; lia); pose proof (cnt_pos_nth wincrit _ _ _ Hn eq_refl); lia
    | cnt_all Hn; intros; assert (1 <= cnt finished (opcs s)) by (apply H9; lia); lia ].
  - (* OUnlockL *) assert (Hl : exists h, olock s = Some h).
    { destruct (olock s) as [h|] eqn:Hl; [exists h; reflexivity|]. pose proof (cnt_pos_nth crit _ _ _ Hn eq_refl). lia. }
    destruct Hl as [h Hl]. rewrite Hl in H1.
    assert (Hwc : cnt wincrit (opcs s) = 0) by (apply (Honlycrit OUnlockL Hn eq_refl eq_refl); exact H1).
    constructor; cbn [opcs olock oval owg ofcount ofdone];
    [ cnt_all Hn; lia
    | intros j Hj; discriminate
    | cnt_all Hn; lia | cnt_all Hn; lia | cnt_all Hn; lia
    | cnt_all Hn; rewrite H6; f_equal; lia
    | cnt_all Hn; intros; apply H7; pose proof (cnt_pos_nth loser _ _ _ Hn eq_refl); lia
    | cnt_all Hn; intros; lia
    | cnt_all Hn; intros; assert (1 <= cnt finished (opcs s)) by (apply H9; lia); lia ].
  - (* ORun *) constructor; cbn [opcs olock oval owg ofcount ofdone];
    [ cnt_all Hn; lia
    | intros j Hj; apply Hothers; [exact Hj | reflexivity]
    | cnt_all Hn; lia | cnt_all Hn; lia | cnt_all Hn; lia
    | cnt_all Hn; rewrite H6; f_equal; lia
    | cnt_all Hn; intros; apply H7; lia
    | cnt_all Hn; intros; assert (cnt wincrit (opcs s) = 0) by (apply H8; lia); lia
    | cnt_all Hn; intros; assert (1 <= cnt finished (opcs s)) by (apply H9; lia); lia ].
  - (* OEnd *) constructor; cbn [opcs olock oval owg ofcount ofdone];
    [ cnt_all Hn; lia
    | intros j Hj; apply Hothers; [exact Hj | reflexivity]
    | cnt_all Hn; lia | cnt_all Hn; lia | cnt_all Hn; lia
    | cnt_all Hn; symmetry; apply Nat.ltb_lt; lia
    | cnt_all Hn; intros; apply H7; lia
    | cnt_all Hn; intros; assert (cnt wincrit (opcs s) = 0) by (apply H8; lia); lia
    | cnt_all Hn; intros; assert (1 <= cnt finished (opcs s)) by (apply H9; lia); lia ].
  - (* ODone *) pose proof (cnt_pos_nth wg1 _ _ _ Hn eq_refl) as Hpos.
    constructor; cbn [opcs olock oval owg ofcount ofdone];
    [ cnt_all Hn; lia
    | intros j Hj; apply Hothers; [exact Hj | reflexivity]
    | cnt_all Hn; lia | cnt_all Hn; lia | cnt_all Hn; lia
    | cnt_all Hn; rewrite H6; f_equal; lia
    | cnt_all Hn; intros; apply H7; lia
    | cnt_all Hn; intros; assert (cnt wincrit (opcs s) = 0) by (apply H8; lia); lia
    | cnt_all Hn; intros; assert (1 <= cnt finished (opcs s)) by (apply H9; lia); lia ].
  - (* OWait *) destruct (Nat.eqb (owg s) 0) eqn:Ew; [|exact HI].
    pose proof (cnt_pos_nth loserout _ _ _ Hn eq_refl) as Hpos. pose proof (cnt_pos_nth loser _ _ _ Hn eq_refl) as Hpos2.
    constructor; cbn [opcs olock oval owg ofcount ofdone];
    [ cnt_all Hn; lia
    | intros j Hj; apply Hothers; [exact Hj | reflexivity]
    | cnt_all Hn; lia | cnt_all Hn; lia | cnt_all Hn; lia
    | cnt_all Hn; rewrite H6; f_equal; lia
    | cnt_all Hn; intros; apply H7; lia
    | cnt_all Hn; intros; assert (cnt wincrit (opcs s) = 0) by (apply H8; lia); lia
    | cnt_all Hn; intros _;
      assert (Hv : oval s = true) by (apply H7; lia);
      assert (Hwc : cnt wincrit (opcs s) = 0) by (apply H8; lia);
      assert (Hmid : cnt mid (opcs s) <= cnt wg1 (opcs s)) by (apply cnt_le; intros [] E; try discriminate; reflexivity);
      assert (Hsp : cnt winner (opcs s) = cnt wincrit (opcs s) + cnt mid (opcs s) + cnt rett (opcs s)) by (apply cnt_split3; intros []; reflexivity);
      assert (Hrf : cnt rett (opcs s) <= cnt finished (opcs s)) by (apply cnt_le; intros [] E; try discriminate; reflexivity);
      apply Nat.eqb_eq in Ew; rewrite Hv in H3; cbn [b2n] in H3; lia ].
  - exact HI.
  - exact HI.
Qed.

Lemma orun_inv sched : forall s, OInv s -> OInv (orun s sched).
Proof. induction sched as [|i r IH]; intros s H; cbn [orun fold_left]; [exact H | apply IH; apply ostep_inv; exact H]. Qed.

(* the action runs at most once, and whoever has returned has seen it finished *)
Theorem oncewait_safe n sched :
  let s := orun (oinit n) sched in
  ofcount s <= 1 /\
  forall i pc, nth_error (opcs s) i = Some pc -> oreturned pc = true -> ofdone s = true /\ ofcount s = 1.
Proof.
  intros s. pose proof (orun_inv sched (oinit n) (oinit_inv n)) as [H1 H2 H3 H4 H5 H6 H7 H8 H9]. fold s in H1, H2, H3, H4, H5, H6, H7, H8, H9.
  assert (Hew : cnt entered (opcs s) <= cnt winner (opcs s)) by (apply cnt_le; intros [] E; try discriminate; reflexivity).
  assert (Hfe : cnt finished (opcs s) <= cnt entered (opcs s)) by (apply cnt_le; intros [] E; try discriminate; reflexivity).
  assert (Hle : ofcount s <= 1) by (rewrite H5; destruct (oval s); cbn [b2n] in H3; lia).
  split; [exact Hle|]. intros i pc Hn Hr.
  assert (Hfin : 1 <= cnt finished (opcs s)).
  { destruct pc; try discriminate.
    - apply (cnt_pos_nth finished _ _ _ Hn eq_refl).
    - apply H9. apply (cnt_pos_nth retf _ _ _ Hn eq_refl). }
  split; [rewrite H6; apply Nat.ltb_lt; lia | lia].
Qed.

(* no deadlock: as long as somebody has not returned, somebody can move *)
Theorem oncewait_progress n sched :
  let s := orun (oinit n) sched in
  (exists i pc, nth_error (opcs s) i = Some pc /\ oreturned pc = false) ->
  exists j, ostep s j <> s.
Proof.
  intros s [i [pc [Hn Hr]]]. pose proof (orun_inv sched (oinit n) (oinit_inv n)) as [H1 H2 H3 H4 H5 H6 H7 H8 H9]. fold s in H1, H2, H3, H4, H5, H6, H7, H8, H9.
  assert (Hmove : forall j q q', nth_error (opcs s) j = Some q -> q <> q' ->
            forall s', opcs s' = setp (opcs s) j q' -> s' <> s).
  { intros j q q' Hj Hne s' Hs' E. rewrite E in Hs'. pose proof (nth_setp_same _ _ q' _ Hj) as Hx. rewrite <- Hs' in Hx. congruence. }
  (* if the lock is held, its holder can move *)
  destruct (olock s) as [h|] eqn:Hl.
  - destruct (H2 h eq_refl) as [p [Hp Hc]]. exists h. unfold ostep. rewrite Hp.
    destruct p; try discriminate; try (destruct (oval s)); eapply Hmove; try exact Hp; try reflexivity; discriminate.
  - (* lock free: the thread we were given can move unless it waits for a winner that is still at work *)
    destruct pc; try discriminate.
    + exists i. unfold ostep. rewrite Hn, Hl. eapply Hmove; [exact Hn | | reflexivity]. discriminate.
    + exfalso. pose proof (cnt_pos_nth crit _ _ _ Hn eq_refl). lia.
    + exfalso. pose proof (cnt_pos_nth crit _ _ _ Hn eq_refl). lia.
    + exfalso. pose proof (cnt_pos_nth crit _ _ _ Hn eq_refl). lia.
    + exfalso. pose proof (cnt_pos_nth crit _ _ _ Hn eq_refl). lia.
    + exists i. unfold ostep. rewrite Hn. eapply Hmove; [exact Hn | | reflexivity]. discriminate.
    + exists i. unfold ostep. rewrite Hn. eapply Hmove; [exact Hn | | reflexivity]. discriminate.
    + exists i. unfold ostep. rewrite Hn. eapply Hmove; [exact Hn | | reflexivity]. discriminate.
    + (* OWait: either the counter is zero, or the winner is between Add and Done and can move *)
      destruct (Nat.eqb (owg s) 0) eqn:Ew.
      * exists i. unfold ostep. rewrite Hn, Ew. eapply Hmove; [exact Hn | | reflexivity]. discriminate.
      * apply Nat.eqb_neq in Ew. rewrite H4 in Ew.
        assert (Hex : exists j q, nth_error (opcs s) j = Some q /\ wg1 q = true).
        { clear - Ew. induction (opcs s) as [|y l IH]; cbn in *; [lia|]. destruct (wg1 y) eqn:E.
          - exists 0, y. auto.
          - destruct IH as [j [q [Hj Hq]]]; [lia|]. exists (S j), q. auto. }
        destruct Hex as [j [q [Hj Hq]]]. exists j. unfold ostep. rewrite Hj.
        destruct q; try discriminate.
        -- exfalso. pose proof (cnt_pos_nth crit _ _ _ Hj eq_refl). lia.
        -- eapply Hmove; [exact Hj | | reflexivity]. discriminate.
        -- eapply Hmove; [exact Hj | | reflexivity]. discriminate.
        -- eapply Hmove; [exact Hj | | reflexivity]. discriminate.
Qed.

(* ---------- Pool ---------- *)
Definition inflight (s : pst) : list nat := flat_map wrunning (pworkers s).
Definition holding (s : pst) : list nat := pexec s ++ pwork s ++ inflight s.

Record PInv (s : pst) : Prop := mkPInv {
  pi_sem : psem s = cnt wlive (pworkers s);
  pi_size : psem s <= psize s;
  pi_queue : length (pwork s) <= pqueue s
}.

Lemma cnt_app {A} (f : A -> bool) a b : cnt f (a ++ b) = cnt f a + cnt f b.
Proof. induction a as [|x a IH]; cbn; [reflexivity | rewrite IH; lia]. Qed.

Lemma running_setp_out l i t : nth_error l i = Some (WRun t) -> forall w, wrunning w = [] ->
  Permutation (t :: flat_map wrunning (setp l i w)) (flat_map wrunning l).
Proof.
  revert i. induction l as [|y l IH]; intros [|i] H w Hw; cbn in *; try discriminate.
  - inversion H; subst. rewrite Hw. cbn. apply Permutation_refl.
  - specialize (IH i H w Hw). etransitivity; [apply Permutation_middle|]. apply Permutation_app_head. exact IH.
Qed.

Lemma running_setp_in l i w t : nth_error l i = Some w -> wrunning w = [] ->
  Permutation (flat_map wrunning (setp l i (WRun t))) (t :: flat_map wrunning l).
Proof.
  revert i. induction l as [|y l IH]; intros [|i] H Hw; cbn in *; try discriminate.
  - inversion H; subst. rewrite Hw. cbn. apply Permutation_refl.
  - specialize (IH i H Hw). etransitivity; [apply Permutation_app_head; exact IH|]. symmetry. apply Permutation_middle.
Qed.

Lemma running_setp_same l i w w' : nth_error l i = Some w -> wrunning w = [] -> wrunning w' = [] ->
  flat_map wrunning (setp l i w') = flat_map wrunning l.
Proof.
  revert i. induction l as [|y l IH]; intros [|i] H Hw Hw'; cbn in *; try discriminate.
  - inversion H; subst. rewrite Hw, Hw'. reflexivity.
  - rewrite (IH i H Hw Hw'). reflexivity.
Qed.

Lemma pstep_inv s e s' : PInv s -> pstep s e = Some s' -> PInv s'.
Proof.
  intros [H1 H2 H3] Hs. destruct e as [t|t|i|]; cbn [pstep] in Hs.
  - destruct (negb (pclosed s) && (length (pwork s) <? pqueue s)) eqn:E; [|discriminate]. inversion Hs; subst.
    apply andb_prop in E. destruct E as [_ E]. apply Nat.ltb_lt in E.
    constructor; cbn [psem pworkers psize pwork pqueue]; [exact H1 | exact H2 | rewrite app_length; cbn; lia].
  - destruct (negb (pclosed s) && (psem s <? psize s)) eqn:E; [|discriminate]. inversion Hs; subst.
    apply andb_prop in E. destruct E as [_ E]. apply Nat.ltb_lt in E.
    constructor; cbn [psem pworkers psize pwork pqueue]; [rewrite cnt_app; cbn; lia | lia | exact H3].
  - destruct (nth_error (pworkers s) i) as [w|] eqn:Hn; [|discriminate]. destruct w as [t| | |].
    + inversion Hs; subst. constructor; cbn [psem pworkers psize pwork pqueue]; [|exact H2|exact H3].
      pose proof (cnt_setp wlive _ _ WIdle _ Hn) as Hc. cbn [b2n wlive] in Hc. lia.
    + destruct (pwork s) as [|t r] eqn:Ew.
      * destruct (pclosed s); [|discriminate]. inversion Hs; subst. constructor; cbn [psem pworkers psize pwork pqueue]; [|exact H2|cbn; lia].
        pose proof (cnt_setp wlive _ _ WExit _ Hn) as Hc. cbn [b2n wlive] in Hc. lia.
      * inversion Hs; subst. constructor; cbn [psem pworkers psize pwork pqueue]; [|exact H2|cbn in H3; lia].
        pose proof (cnt_setp wlive _ _ (WRun t) _ Hn) as Hc. cbn [b2n wlive] in Hc. lia.
    + inversion Hs; subst. pose proof (cnt_pos_nth wlive _ _ _ Hn eq_refl) as Hp.
      constructor; cbn [psem pworkers psize pwork pqueue]; [|lia|exact H3].
      pose proof (cnt_setp wlive _ _ WGone _ Hn) as Hc. cbn [b2n wlive] in Hc. lia.
    + discriminate.
  - destruct (pclosed s); [discriminate|]. inversion Hs; subst. constructor; cbn [psem pworkers psize pwork pqueue]; assumption.
Qed.

Definition newly (e : pev) : list nat := match e with PSchedQ t | PSchedW t => [t] | _ => [] end.

Ltac perm_count :=
  apply (Permutation_count_occ Nat.eq_dec); intros x; rewrite ?count_occ_app; cbn [count_occ];
  repeat match goal with |- context [Nat.eq_dec ?a x] => destruct (Nat.eq_dec a x) end; try lia.

Lemma pstep_conserve s e s' : pstep s e = Some s' -> Permutation (holding s') (holding s ++ newly e).
Proof.
  intros Hs. unfold holding, inflight. destruct e as [t|t|i|]; cbn [pstep newly] in Hs |- *.
  - destruct (negb (pclosed s) && (length (pwork s) <? pqueue s)); [|discriminate]. inversion Hs; subst. cbn [pexec pwork pworkers].
    perm_count.
  - destruct (negb (pclosed s) && (psem s <? psize s)); [|discriminate]. inversion Hs; subst. cbn [pexec pwork pworkers].
    rewrite flat_map_app. cbn [flat_map wrunning app]. perm_count.
  - rewrite app_nil_r. destruct (nth_error (pworkers s) i) as [w|] eqn:Hn; [|discriminate]. destruct w as [t| | |].
    + inversion Hs; subst. cbn [pexec pwork pworkers].
      pose proof (running_setp_out _ _ _ Hn WIdle eq_refl) as HP.
      apply (Permutation_count_occ Nat.eq_dec). intros x. pose proof (proj1 (Permutation_count_occ Nat.eq_dec _ _) HP x) as HC.
      rewrite ?count_occ_app. cbn [count_occ] in *. destruct (Nat.eq_dec t x); lia.
    + destruct (pwork s) as [|t r] eqn:Ew.
      * destruct (pclosed s); [|discriminate]. inversion Hs; subst. cbn [pexec pwork pworkers].
        rewrite (running_setp_same _ _ _ WExit Hn eq_refl eq_refl). reflexivity.
      * inversion Hs; subst. cbn [pexec pwork pworkers].
        pose proof (running_setp_in _ _ _ t Hn eq_refl) as HP.
        apply (Permutation_count_occ Nat.eq_dec). intros x. pose proof (proj1 (Permutation_count_occ Nat.eq_dec _ _) HP x) as HC.
        rewrite ?count_occ_app. cbn [count_occ] in *. destruct (Nat.eq_dec t x); lia.
    + inversion Hs; subst. cbn [pexec pwork pworkers]. rewrite (running_setp_same _ _ _ WGone Hn eq_refl eq_refl). reflexivity.
    + discriminate.
  - rewrite app_nil_r. destruct (pclosed s); [discriminate|]. inversion Hs; subst. reflexivity.
Qed.

Lemma accepted_cons s e r : accepted (e :: r) s =
  match pstep s e with Some s' => newly e ++ accepted r s' | None => accepted r s end.
Proof. unfold accepted. destruct (pstep s e); destruct e; reflexivity. Qed.

Theorem pool_run es : forall s, PInv s ->
  PInv (prun s es) /\ Permutation (holding (prun s es)) (holding s ++ accepted es s).
Proof.
  induction es as [|e r IH]; intros s HI; cbn [prun].
  - split; [exact HI|]. unfold accepted. rewrite app_nil_r. reflexivity.
  - rewrite accepted_cons. destruct (pstep s e) as [s'|] eqn:Es.
    + destruct (IH s' (pstep_inv _ _ _ HI Es)) as [A B]. split; [exact A|].
      pose proof (pstep_conserve _ _ _ Es) as C.
      apply (Permutation_count_occ Nat.eq_dec). intros x.
      pose proof (proj1 (Permutation_count_occ Nat.eq_dec _ _) B x) as HB.
      pose proof (proj1 (Permutation_count_occ Nat.eq_dec _ _) C x) as HC.
      rewrite ?count_occ_app in *. lia.
    + apply IH. exact HI.
Qed.

Lemma pinit_inv size queue : PInv (pinit size queue).
Proof. constructor; cbn; lia. Qed.
