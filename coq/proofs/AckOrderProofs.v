(* AckOrderProofs.v — with the repaired order (the entry leaves the unacknowledged set BEFORE its identifier is given
   back) every interleaving of acknowledgements and writer pops keeps:  the registered identifiers are exactly the
   identifiers in use (plus the one whose acknowledgement is between its two accesses), no identifier twice, and
   quota + identifiers in use = Receive Maximum.  So a message that has been transmitted and not acknowledged is
   registered (it is persisted at connection end, its acknowledgement frees its slot) and holds exactly one slot. *)
From Coq Require Import List NArith ZArith Bool Lia.
Import ListNotations.
From VMQ Require Import model.Flow proofs.FlowProofs.
From VMQ Require Import model.AckOrder.
Open Scope N_scope.

Definition keys (r : list (N * N)) : list N := map fst r.

Lemma loop_fresh fuel : forall c used id, acquire_loop fuel c used = Some id -> ~ In id used.
Proof.
  induction fuel as [|f IH]; intros c used id H; cbn [acquire_loop] in H; [discriminate|].
  destruct (mem (next_id c) used) eqn:E.
  - apply (IH _ _ _ H).
  - inversion H; subst. intros Hin. apply mem_In' in Hin. congruence.
Qed.

Lemma keys_del id r : forall x, In x (keys (reg_del id r)) <-> In x (keys r) /\ x <> id.
Proof.
  intros x. unfold keys, reg_del. induction r as [|[k v] t IH]; cbn [filter map fst]; [tauto|].
  destruct (k =? id) eqn:E; cbn [negb map fst In].
  - apply N.eqb_eq in E. subst k. rewrite IH. split; [tauto|]. intros [[->|H] Hne]; [contradiction|tauto].
  - apply N.eqb_neq in E. rewrite IH. split; [intros [->|H]; tauto|tauto].
Qed.

Lemma keys_del_nodup id r : NoDup (keys r) -> NoDup (keys (reg_del id r)).
Proof.
  unfold keys, reg_del. induction r as [|[k v] t IH]; cbn [filter map fst]; intros H; [constructor|].
  inversion H as [|? ? Hn Ht]; subst. destruct (k =? id); cbn [negb map fst]; [apply IH; exact Ht|].
  constructor; [|apply IH; exact Ht]. intros Hin. apply Hn.
  change (In k (keys (reg_del id t))) in Hin. apply keys_del in Hin. apply Hin.
Qed.

Lemma has_keys id r : reg_has id r = true <-> In id (keys r).
Proof.
  unfold reg_has, keys. rewrite existsb_exists. split.
  - intros [[k v] [Hin E]]. apply N.eqb_eq in E. cbn in E. subst. apply in_map_iff. exists (id, v). auto.
  - intros H. apply in_map_iff in H. destruct H as [[k v] [E Hin]]. cbn in E. subst. exists (id, v). split; [exact Hin|apply N.eqb_refl].
Qed.

Lemma remove_id_in x id l : In x (remove_id id l) <-> In x l /\ x <> id.
Proof.
  unfold remove_id. rewrite filter_In. split.
  - intros [H E]. split; [exact H|]. intros ->. rewrite N.eqb_refl in E. discriminate.
  - intros [H Hne]. split; [exact H|]. destruct (x =? id) eqn:E; [apply N.eqb_eq in E; contradiction|reflexivity].
Qed.

Lemma remove_id_nodup id l : NoDup l -> NoDup (remove_id id l).
Proof. unfold remove_id. apply NoDup_filter. Qed.

Lemma remove_id_len id l : NoDup l -> In id l -> (length (remove_id id l) + 1 = length l)%nat.
Proof.
  unfold remove_id. induction l as [|y t IH]; intros Hn Hin; [destruct Hin|].
  inversion Hn as [|? ? Hny Ht]; subst. cbn [filter]. destruct (y =? id) eqn:E; cbn [negb length].
  - apply N.eqb_eq in E. subst y.
    assert (F : filter (fun z => negb (z =? id)) t = t).
    { clear -Hny. induction t as [|z r IH]; [reflexivity|]. cbn [filter].
      destruct (z =? id) eqn:E; [apply N.eqb_eq in E; subst; exfalso; apply Hny; left; reflexivity|].
      cbn [negb]. f_equal. apply IH. intros H. apply Hny. right. exact H. }
    rewrite F. lia.
  - destruct Hin as [->|Hin]; [rewrite N.eqb_refl in E; discriminate|]. specialize (IH Ht Hin). lia.
Qed.

Lemma nodup_snoc (l : list N) x : NoDup l -> ~ In x l -> NoDup (l ++ [x]).
Proof.
  induction l as [|y t IH]; intros Hn Hx; cbn [app]; [constructor; [intros []|constructor]|].
  inversion Hn as [|? ? Hy Ht]; subst. constructor.
  - intros H. apply in_app_or in H. destruct H as [H|[H|[]]]; [contradiction|]. subst. apply Hx. left. reflexivity.
  - apply IH; [exact Ht|]. intros H. apply Hx. right. exact H.
Qed.

Record AInv (rm : Z) (s : ast) : Prop := {
  a_keys : NoDup (keys (reg s));
  a_use : NoDup (inuse (afl s));
  a_quota : (quota (afl s) + Z.of_nat (length (inuse (afl s))) = rm)%Z /\ (0 <= quota (afl s))%Z;
  a_rel : match apcs s with
          | ASecond id => ~ In id (keys (reg s)) /\ In id (inuse (afl s)) /\
                          forall x, In x (inuse (afl s)) <-> In x (keys (reg s)) \/ x = id
          | AFirst id => In id (keys (reg s)) /\ forall x, In x (inuse (afl s)) <-> In x (keys (reg s))
          | AIdle => forall x, In x (inuse (afl s)) <-> In x (keys (reg s))
          end
}.

Lemma astep_inv rm s e : AInv rm s -> AInv rm (astep 0 s e).
Proof.
  intros [Hk Hu [Hq Hq0] Hr]. destruct e; cbn [astep].
  - (* AckBegin *)
    destruct (apcs s) eqn:Ep; try (constructor; try assumption; rewrite ?Ep; auto; fail).
    destruct (reg_has id (reg s)) eqn:Eh; [|constructor; try assumption; rewrite ?Ep; auto].
    constructor; cbn [reg afl aq apcs]; try assumption; auto. split; [apply has_keys; exact Eh|exact Hr].
  - (* AckStep *)
    destruct (apcs s) as [|id|id] eqn:Ep.
    + constructor; try assumption; rewrite ?Ep; auto.
    + destruct Hr as [Hin Hr]. constructor; cbn [reg afl aq apcs]; try assumption; auto.
      * apply keys_del_nodup. exact Hk.
      * split; [intros H; apply keys_del in H; destruct H as [_ H]; contradiction|].
        split; [apply Hr; exact Hin|]. intros x. rewrite keys_del, Hr.
        destruct (N.eq_dec x id) as [->|Hne]; [split; [right; reflexivity|intros _; exact Hin]|].
        split; [intros H; left; split; assumption|intros [[H _]|H]; [exact H|contradiction]].
    + destruct Hr as [Hni [Hin Hr]]. constructor; cbn [reg afl aq apcs release inuse quota]; try assumption.
      * apply remove_id_nodup. exact Hu.
      * pose proof (remove_id_len id _ Hu Hin). split; lia.
      * intros x. rewrite remove_id_in, Hr. split.
        -- intros [[H|H] Hne]; [exact H|contradiction].
        -- intros H. split; [left; exact H|]. intros ->. contradiction.
  - (* Pop *)
    destruct (aq s) as [|t r] eqn:Eq; [constructor; try assumption; auto|].
    unfold acquire. destruct (quota (afl s) =? 0)%Z eqn:Ez; [constructor; try assumption; auto|].
    destruct (acquire_loop acquire_fuel (cur (afl s)) (inuse (afl s))) as [id|] eqn:El; [|constructor; try assumption; auto].
    pose proof (loop_fresh _ _ _ _ El) as Hfresh.
    assert (Hnk : ~ In id (keys (reg s))).
    { destruct (apcs s); [intros H; apply Hfresh; apply Hr; exact H
                         |destruct Hr as [_ Hr]; intros H; apply Hfresh; apply Hr; exact H
                         |destruct Hr as [_ [_ Hr]]; intros H; apply Hfresh; apply Hr; left; exact H]. }
    assert (Hdel : reg_del id (reg s) = reg s).
    { clear -Hnk. unfold reg_del, keys in *. induction (reg s) as [|[k v] l IH]; [reflexivity|]. cbn [filter map fst In] in *.
      destruct (k =? id) eqn:E; [apply N.eqb_eq in E; subst; exfalso; apply Hnk; left; reflexivity|].
      cbn [negb]. f_equal. apply IH. intros H. apply Hnk. right. exact H. }
    assert (Hkeys : keys (reg_put id t (reg s)) = keys (reg s) ++ [id]).
    { unfold reg_put. rewrite Hdel. unfold keys. rewrite map_app. reflexivity. }
    constructor; cbn [reg afl aq apcs inuse quota]; rewrite ?Hkeys.
    + apply nodup_snoc; assumption.
    + constructor; assumption.
    + cbn [length]. apply Z.eqb_neq in Ez. split; lia.
    + destruct (apcs s) as [|id0|id0].
      * intros x. cbn [In]. rewrite in_app_iff, Hr. cbn [In]. tauto.
      * destruct Hr as [Hin Hr]. split; [apply in_or_app; left; exact Hin|].
        intros x. cbn [In]. rewrite in_app_iff, Hr. cbn [In]. tauto.
      * destruct Hr as [Hni [Hin Hr]]. split.
        -- intros H. apply in_app_or in H. destruct H as [H|[H|[]]]; [contradiction|]. subst. contradiction.
        -- split; [right; exact Hin|]. intros x. cbn [In]. rewrite in_app_iff, Hr. cbn [In]. tauto.
Qed.

Lemma arun_inv rm es : forall s, AInv rm s -> AInv rm (arun 0 s es).
Proof.
  unfold arun. induction es as [|e r IH]; intros s H; cbn [fold_left]; [exact H|]. apply IH. apply astep_inv. exact H.
Qed.

Lemma astart_inv rm unacked waiting :
  NoDup (keys unacked) -> (Z.of_nat (length unacked) <= rm)%Z -> AInv rm (astart rm unacked waiting).
Proof.
  intros Hn Hl. unfold astart. constructor; cbn [reg afl aq apcs inuse quota].
  - exact Hn.
  - exact Hn.
  - rewrite map_length. split; lia.
  - intros x. reflexivity.
Qed.

(* what the invariant buys, in the words of the property: whenever no acknowledgement is between its two accesses,
   the identifiers in use are exactly those of the registered (transmitted, unacknowledged) messages, each once, and
   the send quota is Receive Maximum minus their number *)
Theorem ack_order_accounting rm unacked waiting es :
  NoDup (keys unacked) -> (Z.of_nat (length unacked) <= rm)%Z ->
  let s := arun 0 (astart rm unacked waiting) es in
  NoDup (keys (reg s)) /\ NoDup (inuse (afl s)) /\
  (quota (afl s) + Z.of_nat (length (inuse (afl s))) = rm)%Z /\ (0 <= quota (afl s))%Z /\
  (apcs s = AIdle -> (forall x, In x (inuse (afl s)) <-> In x (keys (reg s))) /\
                     (quota (afl s) + Z.of_nat (length (reg s)) = rm)%Z).
Proof.
  intros Hn Hl s. pose proof (arun_inv rm es _ (astart_inv rm unacked waiting Hn Hl)) as [Hk Hu [Hq Hq0] Hr].
  fold s in Hk, Hu, Hq, Hq0, Hr. repeat (split; [assumption|]).
  intros Ei. rewrite Ei in Hr. split; [exact Hr|].
  assert (El : length (inuse (afl s)) = length (keys (reg s))).
  { apply Nat.le_antisymm; apply NoDup_incl_length; try assumption; intros x Hx; apply Hr; exact Hx. }
  unfold keys in El. rewrite map_length in El. lia.
Qed.

(* the order the code had: one interleaving of an acknowledgement with the writer's pop loses the registration of a
   transmitted message while its identifier stays in use and its slot stays taken *)
Definition old_order_witness : list aev := [AckBegin 1; AckStep; Pop; AckStep].
Theorem ack_order_as_it_was_refuted :
  let s := arun 1 (astart 1 [(1, 10)] [20]) old_order_witness in
  apcs s = AIdle /\ aq s = [] /\ reg s = [] /\ inuse (afl s) = [1] /\ quota (afl s) = 0%Z.
Proof. vm_compute. repeat split. Qed.

(* the same events under the repaired order *)
Example ack_order_repaired_on_witness :
  let s := arun 0 (astart 1 [(1, 10)] [20]) old_order_witness in
  apcs s = AIdle /\ aq s = [20].
Proof. vm_compute. repeat split. Qed.
Example ack_order_repaired_then_pop :
  let s := arun 0 (astart 1 [(1, 10)] [20]) (old_order_witness ++ [Pop]) in
  apcs s = AIdle /\ aq s = [] /\ map snd (reg s) = [20] /\ length (inuse (afl s)) = 1%nat /\ quota (afl s) = 0%Z.
Proof. vm_compute. repeat split. Qed.
