(* LFProofs.v — (1) the structure mutex of the repaired memlockfree provider gives mutual exclusion in
   the protocol machine LFProto.v: only the holder moves; (2) operations on pairwise distinct
   subscription keys commute on the abstract subscription map (Match.v). *)
From Coq Require Import List NArith ZArith Bool Arith Lia Permutation.
Import ListNotations.
From VMQ Require Import model.Trie model.Match model.LFProto proofs.TrieProofs.

(* ---------- (1) mutual exclusion ---------- *)

Definition active (p : pc) : Prop := p <> PStart /\ p <> PDone.

Definition MutexInv (c : cfg) : Prop :=
  forall i o p, nth_error (thr c) i = Some (o, p) -> active p -> lock c = Some i.

Lemma nth_set_thr_same l i p o q : nth_error l i = Some (o, q) -> nth_error (set_thr l i p) i = Some (o, p).
Proof.
  revert i. induction l as [|[o' q'] l IH]; intros [|i]; cbn; try discriminate.
  - intros H. inversion H; subst. reflexivity.
  - apply IH.
Qed.

Lemma nth_set_thr_other l i j p : i <> j -> nth_error (set_thr l i p) j = nth_error l j.
Proof.
  revert i j. induction l as [|[o' q'] l IH]; intros [|i] [|j] H; cbn; try reflexivity; try contradiction.
  apply IH. intros ->. apply H. reflexivity.
Qed.

Lemma first_pc_active o : active (first_pc o).
Proof. destruct o as [[|l p] s|p s]; split; discriminate. Qed.

Lemma descend_not_start c rest : descend c rest <> PStart.
Proof. destruct rest; discriminate. Qed.

Lemma local_step_not_start h o p h' p' : local_step h o p = Some (h', p') -> p' <> PStart.
Proof.
  intros H Hp. subst p'. destruct p; cbn [local_step] in H; try discriminate.
  all: repeat match type of H with
       | context [match ?x with _ => _ end] => destruct x
       end; try discriminate.
  all: inversion H as [[Hh Hd]]; try discriminate; try (exact (descend_not_start _ _ Hd)).
Qed.

Lemma step_mutex c i : locked c = true -> MutexInv c -> MutexInv (step c i).
Proof.
  intros HL HI. unfold step. destruct (nth_error (thr c) i) as [[o p]|] eqn:Hi; [|exact HI].
  assert (Hother : forall j, j <> i -> forall o' p', nth_error (thr c) j = Some (o', p') -> active p' ->
                     forall q, p = q -> active q -> False).
  { intros j Hj o' p' Hn Ha q -> Hq. pose proof (HI j o' p' Hn Ha) as H1. pose proof (HI i o q Hi Hq) as H2. congruence. }
  destruct p; try exact HI.
  { (* PStart *)
    rewrite HL. destruct (lock c) eqn:Hlk; [exact HI|].
    intros j o' p' Hn Ha. cbn [thr lock] in *. destruct (Nat.eq_dec j i) as [->|Hne]; [reflexivity|].
    rewrite nth_set_thr_other in Hn by congruence. pose proof (HI j o' p' Hn Ha). congruence. }
  all: match goal with |- MutexInv (match local_step ?h ?o ?p with _ => _ end) => destruct (local_step h o p) as [[h' p']|] eqn:Hs; [|exact HI] end.
  all: intros j o' q Hn Ha; cbn [thr lock locked] in *; rewrite HL in *;
       (destruct (Nat.eq_dec j i) as [->|Hne];
        [ erewrite nth_set_thr_same in Hn by exact Hi; inversion Hn; subst;
          destruct (is_done q) eqn:Hd; [destruct q; try discriminate; destruct Ha as [_ Ha]; contradiction|];
          cbn [andb]; eapply HI; [exact Hi | split; discriminate]
        | rewrite nth_set_thr_other in Hn by congruence;
          exfalso; eapply (Hother j Hne o' q Hn Ha); [reflexivity | split; discriminate] ]).
Qed.

Lemma start_mutex h ops : MutexInv (start true h ops).
Proof.
  intros i o p Hn [Ha _]. unfold start in Hn. cbn [thr] in Hn. rewrite nth_error_map in Hn.
  destruct (nth_error ops i); cbn in Hn; inversion Hn; subst. contradiction.
Qed.

Lemma step_locked c i : locked (step c i) = locked c.
Proof.
  unfold step. destruct (nth_error (thr c) i) as [[o p]|]; [|reflexivity].
  destruct p; try reflexivity;
    try (destruct (local_step (hp c) o _) as [[h' p']|]; reflexivity).
  destruct (locked c) eqn:HL; [destruct (lock c); cbn; congruence | reflexivity].
Qed.

Lemma run_mutex sched : forall c, locked c = true -> MutexInv c -> locked (run c sched) = true /\ MutexInv (run c sched).
Proof.
  induction sched as [|i sched IH]; intros c HL HI; cbn [run fold_left]; [split; assumption|].
  apply IH; [rewrite step_locked; exact HL | apply step_mutex; assumption].
Qed.

(* while the mutex is held, a step of any other thread changes nothing *)
Lemma only_holder_moves c i j : locked c = true -> MutexInv c -> lock c = Some j -> i <> j -> step c i = c.
Proof.
  intros HL HI Hlk Hne. unfold step. destruct (nth_error (thr c) i) as [[o p]|] eqn:Hi; [|reflexivity].
  destruct p; try reflexivity.
  { rewrite HL, Hlk. reflexivity. }
  all: exfalso; assert (Ha : lock c = Some i) by (eapply HI; [exact Hi | split; discriminate]); congruence.
Qed.

(* ---------- (2) distinct keys commute ---------- *)
Open Scope N_scope.

Lemma path_eqb_eq a b : path_eqb a b = true <-> a = b.
Proof.
  revert b. induction a as [|x a IH]; intros [|y b]; cbn [path_eqb]; split; intros H; try discriminate; try reflexivity.
  - apply andb_prop in H. destruct H as [H1 H2]. apply lvl_eqb_eq in H1. apply IH in H2. subst. reflexivity.
  - inversion H; subst. rewrite lvl_eqb_refl. cbn. apply IH. reflexivity.
Qed.

Lemma skey_eqb_eq a b : skey_eqb a b = true <-> a = b.
Proof.
  destruct a as [p s], b as [p' s']. unfold skey_eqb. cbn [fst snd]. split; intros H.
  - apply andb_prop in H. destruct H as [H1 H2]. apply path_eqb_eq in H1. apply N.eqb_eq in H2. subst. reflexivity.
  - inversion H; subst. apply andb_true_intro. split; [apply path_eqb_eq; reflexivity | apply N.eqb_refl].
Qed.

Definition alookup (k : skey) (m : list (skey * sparams)) : option sparams :=
  match List.find (fun x => skey_eqb (fst x) k) m with Some x => Some (snd x) | None => None end.

Lemma alookup_filter k0 k m :
  alookup k (filter (fun x => negb (skey_eqb (fst x) k0)) m) = if skey_eqb k0 k then None else alookup k m.
Proof.
  unfold alookup. induction m as [|[k1 v] m IH]; cbn [filter List.find fst]; [destruct (skey_eqb k0 k); reflexivity|].
  destruct (skey_eqb k1 k0) eqn:E10; cbn [negb].
  - apply skey_eqb_eq in E10. subst k1. destruct (skey_eqb k0 k) eqn:E0; [exact IH|]. exact IH.
  - cbn [List.find fst]. destruct (skey_eqb k1 k) eqn:E1.
    + apply skey_eqb_eq in E1. subst k1. destruct (skey_eqb k0 k) eqn:E0; [|reflexivity].
      apply skey_eqb_eq in E0. subst. assert (skey_eqb k k = true) by (apply skey_eqb_eq; reflexivity). congruence.
    + exact IH.
Qed.

Definition okey (o : op) : skey :=
  match o with OSub f s _ => (split f, s) | OUnsub f s => (split f, s) | ORetain _ _ _ _ => ([], 0) end.
Definition is_subop (o : op) : bool := match o with ORetain _ _ _ _ => false | _ => true end.

Lemma alookup_step k m o : is_subop o = true ->
  alookup k (abs_step m o) =
  if skey_eqb (okey o) k then match o with OSub _ _ sp => Some sp | _ => None end else alookup k m.
Proof.
  destruct o as [f s sp|f s|t mg e ow]; cbn [is_subop abs_step okey]; intros Hs; [| |discriminate].
  - unfold alookup at 1. cbn [List.find fst snd]. destruct (skey_eqb (split f, s) k) eqn:E; [reflexivity|].
    change (alookup k (filter (fun x => negb (skey_eqb (fst x) (split f, s))) m) = alookup k m).
    rewrite alookup_filter, E. reflexivity.
  - apply alookup_filter.
Qed.

Definition equiv (m m' : list (skey * sparams)) : Prop := forall k, alookup k m = alookup k m'.

Lemma step_congr m m' o : is_subop o = true -> equiv m m' -> equiv (abs_step m o) (abs_step m' o).
Proof. intros Ho H k. rewrite !alookup_step by exact Ho. rewrite (H k). reflexivity. Qed.

Lemma fold_congr l : forall m m', Forall (fun o => is_subop o = true) l -> equiv m m' ->
  equiv (fold_left abs_step l m) (fold_left abs_step l m').
Proof.
  induction l as [|o l IH]; intros m m' Hf H; cbn [fold_left]; [exact H|].
  inversion Hf; subst. apply IH; [assumption | apply step_congr; assumption].
Qed.

Lemma step_swap m a b : is_subop a = true -> is_subop b = true -> okey a <> okey b ->
  equiv (abs_step (abs_step m a) b) (abs_step (abs_step m b) a).
Proof.
  intros Ha Hb Hne k. rewrite !alookup_step by assumption.
  destruct (skey_eqb (okey b) k) eqn:Eb; destruct (skey_eqb (okey a) k) eqn:Ea; try reflexivity.
  apply skey_eqb_eq in Ea, Eb. congruence.
Qed.

Lemma perm_commute l l' : Permutation l l' ->
  Forall (fun o => is_subop o = true) l -> NoDup (map okey l) ->
  forall m m', equiv m m' -> equiv (fold_left abs_step l m) (fold_left abs_step l' m').
Proof.
  induction 1 as [|x l l' HP IH|x y l|l l' l'' HP1 IH1 HP2 IH2]; intros Hf Hnd m m' He.
  - exact He.
  - cbn [fold_left]. inversion Hf; subst. cbn [map] in Hnd. inversion Hnd; subst.
    apply IH; [assumption|assumption|apply step_congr; assumption].
  - cbn [fold_left]. inversion Hf as [|? ? Hy Hf1]; subst. inversion Hf1 as [|? ? Hx Hf2]; subst.
    cbn [map] in Hnd. inversion Hnd as [|? ? Hni Hnd1]; subst.
    intros k. etransitivity; [apply (fold_congr l _ (abs_step (abs_step m x) y) Hf2); apply step_swap; try assumption|].
    + intros E. apply Hni. left. symmetry. exact E.
    + apply fold_congr; [exact Hf2|]. apply step_congr; [assumption|]. apply step_congr; assumption.
  - intros k. etransitivity; [apply (IH1 Hf Hnd m m' He)|].
    apply IH2; [eapply Permutation_Forall; eassumption | eapply Permutation_NoDup; [apply Permutation_map; eassumption | exact Hnd] | intros k'; reflexivity].
Qed.
