(* LFSearchProofs.v — the lock-free search beside the (mutex-serialised) writers of LFProto.v.
   Invariant HI of the heap and the lock holder's program counter (tree shape, "dead nodes are empty",
   the counters bound the sets from above with the holder's pending update as slack, what the holder's
   program counter knows), kept by every atomic access (local_inv); what one access may do to the observable
   structure (step_facts); lifted to configurations (step_ginv); a present subscription that nobody removes
   stays in place together with the nodes on its path (stable_present), an absent one that nobody inserts stays
   absent (stable_absent), unreachable nodes stay unreachable and empty; from these the two theorems
   search_sees_present and search_misses_absent for every interleaving of writer steps and reader steps. *)
From Coq Require Import List NArith ZArith Bool Arith Lia.
Import ListNotations.
From VMQ Require Import model.LFProto proofs.LFProofs model.LFSearch.
Local Open Scope nat_scope.

(* ===== part 1 ===== *)

(* ---------- heap access ---------- *)
Lemma length_setn h i x : length (setn h i x) = length h.
Proof. revert i; induction h as [|y t IH]; intros [|i]; cbn; auto. Qed.

Lemma getn_setn_same h i x : i < length h -> getn (setn h i x) i = x.
Proof. revert i; induction h as [|y t IH]; intros [|i] H; cbn in *; try lia; auto. apply IH. lia. Qed.

Lemma getn_setn_other h i j x : i <> j -> getn (setn h i x) j = getn h j.
Proof.
  revert i j; induction h as [|y t IH]; intros [|i] [|j] H; cbn; auto; try contradiction.
  apply IH. congruence.
Qed.

Lemma getn_out h i : length h <= i -> getn h i = root_nd.
Proof. intros H. unfold getn. apply nth_overflow. exact H. Qed.

Lemma setn_out h i x : length h <= i -> setn h i x = h.
Proof. revert i; induction h as [|y t IH]; intros [|i] H; cbn in *; auto; try lia. f_equal. apply IH. lia. Qed.

Lemma length_upd h i f : length (upd h i f) = length h.
Proof. apply length_setn. Qed.

Lemma getn_upd_same h i f : i < length h -> getn (upd h i f) i = f (getn h i).
Proof. intros H. unfold upd. apply getn_setn_same. exact H. Qed.

Lemma getn_upd_other h i j f : i <> j -> getn (upd h i f) j = getn h j.
Proof. intros H. unfold upd. apply getn_setn_other. exact H. Qed.

Lemma upd_out h i f : length h <= i -> upd h i f = h.
Proof. intros H. unfold upd. apply setn_out. exact H. Qed.

Lemma getn_app_old h x i : i < length h -> getn (h ++ [x]) i = getn h i.
Proof. intros H. unfold getn. apply app_nth1. exact H. Qed.

Lemma getn_app_new h x : getn (h ++ [x]) (length h) = x.
Proof. unfold getn. rewrite app_nth2 by lia. rewrite Nat.sub_diag. reflexivity. Qed.

(* a field projection is unchanged by an update that does not touch it *)
Lemma getn_upd_field {A} (g : nd -> A) h i f j :
  (forall x, g (f x) = g x) -> g (getn (upd h i f) j) = g (getn h j).
Proof.
  intros Hf. destruct (Nat.eq_dec i j) as [->|Hne].
  - destruct (Nat.lt_ge_cases j (length h)) as [Hl|Hl].
    + rewrite getn_upd_same by exact Hl. apply Hf.
    + rewrite upd_out by exact Hl. reflexivity.
  - rewrite getn_upd_other by exact Hne. reflexivity.
Qed.

Lemma filter_length_le {A} (f : A -> bool) l : length (filter f l) <= length l.
Proof. induction l as [|x r IH]; cbn; [lia|]. destruct (f x); cbn; lia. Qed.

(* ---------- kid lists ---------- *)
Lemma kid_app_some l ks x c : kid l ks = Some c -> kid l (ks ++ [x]) = Some c.
Proof. induction ks as [|[k v] r IH]; cbn; [discriminate|]. destruct (N.eqb k l); auto. Qed.

Lemma kid_app_none l ks k v : kid l ks = None -> kid l (ks ++ [(k, v)]) = if N.eqb k l then Some v else None.
Proof. induction ks as [|[k' v'] r IH]; cbn; [reflexivity|]. destruct (N.eqb k' l); [discriminate|auto]. Qed.

Lemma kid_delkid_same l ks : kid l (delkid l ks) = None.
Proof.
  induction ks as [|[k v] r IH]; cbn; [reflexivity|]. destruct (N.eqb k l) eqn:E; cbn; [exact IH|].
  rewrite E. exact IH.
Qed.

Lemma kid_delkid_other l l' ks : l <> l' -> kid l' (delkid l ks) = kid l' ks.
Proof.
  intros Hne. induction ks as [|[k v] r IH]; cbn; [reflexivity|]. destruct (N.eqb k l) eqn:E; cbn.
  - apply N.eqb_eq in E. subst k. destruct (N.eqb l l') eqn:E2; [apply N.eqb_eq in E2; contradiction|exact IH].
  - destruct (N.eqb k l'); [reflexivity|exact IH].
Qed.

Lemma delkid_shrinks l ks c : kid l ks = Some c -> length (delkid l ks) + 1 <= length ks.
Proof.
  unfold delkid. induction ks as [|[k v] r IH]; cbn [kid filter fst length]; [discriminate|].
  pose proof (filter_length_le (fun x : N * nat => negb (N.eqb (fst x) l)) r) as Hle.
  destruct (N.eqb k l) eqn:E; cbn [negb length].
  - intros _. lia.
  - intros H. specialize (IH H). lia.
Qed.

Lemma kid_nil_none l ks : ks = [] -> kid l ks = None.
Proof. intros ->. reflexivity. Qed.

Lemma has_filter_shrinks s l : has s l = true -> length (filter (fun y => negb (N.eqb y s)) l) + 1 <= length l.
Proof.
  unfold has. induction l as [|x r IH]; cbn; [discriminate|]. destruct (N.eqb s x) eqn:E; cbn.
  - intros _. apply N.eqb_eq in E. subst x. rewrite N.eqb_refl. cbn.
    pose proof (filter_length_le (fun y => negb (N.eqb y s)) r). lia.
  - intros H. specialize (IH H). destruct (N.eqb x s); cbn; lia.
Qed.

Lemma in_filter_other (s s' : N) l : s <> s' -> In s l -> In s (filter (fun y => negb (N.eqb y s')) l).
Proof. intros Hne Hin. apply filter_In. split; [exact Hin|]. destruct (N.eqb s s') eqn:E; [apply N.eqb_eq in E; contradiction|reflexivity]. Qed.

Lemma in_filter_back (s s' : N) l : In s (filter (fun y => negb (N.eqb y s')) l) -> In s l.
Proof. intros H. apply filter_In in H. tauto. Qed.

Lemma has_in s l : has s l = true <-> In s l.
Proof.
  unfold has. rewrite existsb_exists. split.
  - intros [x [Hx E]]. apply N.eqb_eq in E. subst. exact Hx.
  - intros H. exists s. split; [exact H|apply N.eqb_refl].
Qed.

(* ===== part 2 ===== *)

(* ---------- the invariant ---------- *)
Definition T0 (h : heap) : Prop := 0 < length h /\ n_par (getn h 0) = None.
Definition T1 (h : heap) : Prop :=
  forall q l c, kid l (n_kids (getn h q)) = Some c ->
    c < length h /\ c <> 0 /\ n_par (getn h c) = Some q /\ n_lev (getn h c) = l.
Definition live (h : heap) (n : nat) : Prop := exists p, node_at h p = Some n.
Definition DI (h : heap) : Prop :=
  forall n, n < length h -> ~ live h n -> n_subs (getn h n) = [] /\ n_kids (getn h n) = [].

Definition eps_s (p : pc) (n : nat) : Z :=
  match p with PInsCnt m | PRemDel m => if Nat.eqb m n then 1%Z else 0%Z | _ => 0%Z end.
Definition eps_k (h : heap) (p : pc) (q : nat) : Z :=
  match p with
  | PClnDecP m => match n_par (getn h m) with Some q' => if Nat.eqb q' q then 1%Z else 0%Z | None => 0%Z end
  | PInsLoad cur _ | PInsDec cur _ _ => if Nat.eqb cur q then 1%Z else 0%Z
  | _ => 0%Z
  end.
Definition CS (h : heap) (p : pc) : Prop :=
  forall n, (Z.of_nat (length (n_subs (getn h n))) <= n_sc (getn h n) + eps_s p n)%Z.
Definition CK (h : heap) (p : pc) : Prop :=
  forall q, (Z.of_nat (length (n_kids (getn h q))) + eps_k h p q <= n_kc (getn h q))%Z.

Definition on_prefix (h : heap) (o : opk) (cur : nat) (rest : list N) : Prop :=
  exists pre, pre ++ rest = opath o /\ node_at h pre = Some cur.

Definition AInv (h : heap) (o : opk) (p : pc) : Prop :=
  match p with
  | PStart | PDone => True
  | PInsInc cur rest | PInsLoad cur rest | PRemWalk cur rest => on_prefix h o cur rest
  | PInsDec cur c rest | PInsChk cur c rest | PInsWait cur c rest =>
      on_prefix h o cur rest /\ exists l r, rest = l :: r /\ kid l (n_kids (getn h cur)) = Some c
  | PInsStore leaf | PInsCnt leaf | PRemLoad leaf => node_at h (opath o) = Some leaf
  | PRemDec leaf | PRemDel leaf =>
      node_at h (opath o) = Some leaf /\ has (osub o) (n_subs (getn h leaf)) = true
  | PClnChk n => live h n
  | PClnMark n | PClnCb n | PClnUnlink n =>
      live h n /\ n_subs (getn h n) = [] /\ n_kids (getn h n) = []
  | PClnDecP n | PClnDone n => match n_par (getn h n) with Some q => live h q | None => True end
  end.

Definition HI (h : heap) (o : opk) (p : pc) : Prop :=
  T0 h /\ T1 h /\ DI h /\ CS h p /\ CK h p /\ AInv h o p.

(* ---------- walks ---------- *)
Lemma walk_app h c p q : walk h c (p ++ q) = match walk h c p with Some n => walk h n q | None => None end.
Proof.
  revert c; induction p as [|l r IH]; intros c; cbn [app walk]; [reflexivity|].
  destruct (kid l (n_kids (getn h c))); [apply IH|reflexivity].
Qed.

Lemma walk_ext h h' : (forall n, n_kids (getn h' n) = n_kids (getn h n)) -> forall p c, walk h' c p = walk h c p.
Proof.
  intros He p. induction p as [|l r IH]; intros c; cbn [walk]; [reflexivity|].
  rewrite He. destruct (kid l (n_kids (getn h c))); [apply IH|reflexivity].
Qed.

Lemma walk_lt h : T1 h -> forall p c n, c < length h -> walk h c p = Some n -> n < length h.
Proof.
  intros H1 p. induction p as [|l r IH]; intros c n Hc Hw; cbn [walk] in Hw.
  - inversion Hw; subst; exact Hc.
  - destruct (kid l (n_kids (getn h c))) as [c'|] eqn:E; [|discriminate].
    apply (IH c' n); [apply (H1 _ _ _ E)|exact Hw].
Qed.

Lemma live_lt h n : T0 h -> T1 h -> live h n -> n < length h.
Proof. intros [H0 _] H1 [p Hp]. apply (walk_lt h H1 p 0 n H0 Hp). Qed.

Lemma live_root h : live h 0.
Proof. exists []. reflexivity. Qed.

Lemma live_kid h q l c : live h q -> kid l (n_kids (getn h q)) = Some c -> live h c.
Proof.
  intros [p Hp] Hk. exists (p ++ [l]). unfold node_at in *. rewrite walk_app, Hp. cbn [walk]. rewrite Hk. reflexivity.
Qed.

(* a walk that arrives at a node other than its start ends with an edge into that node *)
Lemma walk_last h : forall p c n, walk h c p = Some n -> p <> [] ->
  exists pre l q, p = pre ++ [l] /\ walk h c pre = Some q /\ kid l (n_kids (getn h q)) = Some n.
Proof.
  intros p. induction p as [|x r IH] using rev_ind; intros c n Hw Hne; [contradiction|].
  clear IH. rewrite walk_app in Hw. destruct (walk h c r) as [q|] eqn:Eq; [|discriminate].
  cbn [walk] in Hw. destruct (kid x (n_kids (getn h q))) as [c'|] eqn:Ek; [|discriminate].
  inversion Hw; subst. exists r, x, q. repeat split; assumption.
Qed.

Lemma node_at_nonroot h p n : T1 h -> node_at h p = Some n -> p <> [] -> n <> 0.
Proof.
  intros H1 Hw Hne. destruct (walk_last h p 0 n Hw Hne) as (pre & l & q & _ & _ & Hk). apply (H1 _ _ _ Hk).
Qed.

Lemma node_at_inj h : T0 h -> T1 h -> forall p1 p2 n, node_at h p1 = Some n -> node_at h p2 = Some n -> p1 = p2.
Proof.
  intros H0 H1 p1. induction p1 as [|x r IH] using rev_ind; intros p2 n Ha Hb.
  - cbn in Ha. inversion Ha; subst. destruct p2 as [|y t]; [reflexivity|].
    exfalso. apply (node_at_nonroot h (y :: t) 0 H1 Hb); [discriminate|reflexivity].
  - assert (Hn : n <> 0) by (apply (node_at_nonroot h (r ++ [x]) n H1 Ha); destruct r; discriminate).
    destruct p2 as [|y t].
    + cbn in Hb. inversion Hb; subst. contradiction.
    + destruct (walk_last h (r ++ [x]) 0 n Ha) as (pre1 & l1 & q1 & E1 & W1 & K1); [destruct r; discriminate|].
      destruct (walk_last h (y :: t) 0 n Hb) as (pre2 & l2 & q2 & E2 & W2 & K2); [discriminate|].
      apply app_inj_tail in E1. destruct E1 as [-> ->].
      destruct (H1 _ _ _ K1) as (_ & _ & P1 & L1). destruct (H1 _ _ _ K2) as (_ & _ & P2 & L2).
      rewrite P1 in P2. inversion P2; subst q2. rewrite E2. f_equal; [|congruence].
      apply (IH pre2 q1 W1 W2).
Qed.

(* the parent of a live non-root node is live, and holds the edge *)
Lemma live_parent h n : T0 h -> T1 h -> live h n -> n <> 0 ->
  exists q, n_par (getn h n) = Some q /\ live h q /\ kid (n_lev (getn h n)) (n_kids (getn h q)) = Some n.
Proof.
  intros H0 H1 [p Hp] Hn. destruct p as [|y t]; [cbn in Hp; inversion Hp; subst; contradiction|].
  destruct (walk_last h (y :: t) 0 n Hp) as (pre & l & q & E & W & K); [discriminate|].
  destruct (H1 _ _ _ K) as (_ & _ & P & L). exists q. split; [exact P|]. split; [exists pre; exact W|]. rewrite L. exact K.
Qed.

(* ===== part 3 ===== *)

(* ---------- heaps that differ in counters / flags only ---------- *)
Definition same_struct (h h' : heap) : Prop :=
  length h' = length h /\
  forall j, n_par (getn h' j) = n_par (getn h j) /\ n_lev (getn h' j) = n_lev (getn h j) /\
            n_subs (getn h' j) = n_subs (getn h j) /\ n_kids (getn h' j) = n_kids (getn h j).

Definition keeps (f : nd -> nd) : Prop :=
  forall x, n_par (f x) = n_par x /\ n_lev (f x) = n_lev x /\ n_subs (f x) = n_subs x /\ n_kids (f x) = n_kids x.

Lemma upd_same_struct h i f : keeps f -> same_struct h (upd h i f).
Proof.
  intros Hf. split; [apply length_upd|]. intros j. repeat split.
  - apply (getn_upd_field n_par); intros x; apply Hf.
  - apply (getn_upd_field n_lev); intros x; apply Hf.
  - apply (getn_upd_field n_subs); intros x; apply Hf.
  - apply (getn_upd_field n_kids); intros x; apply Hf.
Qed.

Lemma keeps_kc d : keeps (with_kc d). Proof. intros x; repeat split. Qed.
Lemma keeps_sc d : keeps (with_sc d). Proof. intros x; repeat split. Qed.
Lemma keeps_mark : keeps with_mark. Proof. intros x; repeat split. Qed.
Lemma keeps_done : keeps with_done. Proof. intros x; repeat split. Qed.

Section SameStruct.
  Variables h h' : heap.
  Hypothesis HS : same_struct h h'.

  Lemma ss_walk p c : walk h' c p = walk h c p.
  Proof. apply walk_ext. intros n. apply HS. Qed.
  Lemma ss_node_at p : node_at h' p = node_at h p.
  Proof. apply ss_walk. Qed.
  Lemma ss_live n : live h' n <-> live h n.
  Proof. unfold live. split; intros [p Hp]; exists p; [rewrite <- ss_node_at|rewrite ss_node_at]; exact Hp. Qed.
  Lemma ss_T0 : T0 h -> T0 h'.
  Proof. intros [A B]. split; [destruct HS as [L _]; lia|]. destruct HS as [_ F]. rewrite (proj1 (F 0)). exact B. Qed.
  Lemma ss_T1 : T1 h -> T1 h'.
  Proof.
    intros H1 q l c Hk. destruct HS as [L F]. rewrite (proj2 (proj2 (proj2 (F q)))) in Hk.
    destruct (H1 _ _ _ Hk) as (A & B & C & D). rewrite L. repeat split; try assumption.
    - rewrite (proj1 (F c)). exact C.
    - rewrite (proj1 (proj2 (F c))). exact D.
  Qed.
  Lemma ss_DI : DI h -> DI h'.
  Proof.
    intros HD n Hn Hl. destruct HS as [L F]. rewrite L in Hn.
    destruct (HD n Hn) as [A B]; [intros Hlive; apply Hl; apply ss_live; exact Hlive|].
    rewrite (proj1 (proj2 (proj2 (F n)))), (proj2 (proj2 (proj2 (F n)))). split; assumption.
  Qed.
  Lemma ss_on_prefix o cur rest : on_prefix h o cur rest -> on_prefix h' o cur rest.
  Proof. intros [pre [E W]]. exists pre. split; [exact E|rewrite ss_node_at; exact W]. Qed.
  Lemma ss_kids j : n_kids (getn h' j) = n_kids (getn h j). Proof. apply HS. Qed.
  Lemma ss_subs j : n_subs (getn h' j) = n_subs (getn h j). Proof. apply HS. Qed.
  Lemma ss_par j : n_par (getn h' j) = n_par (getn h j). Proof. apply HS. Qed.
  Lemma ss_AInv o p : AInv h o p -> AInv h' o p.
  Proof.
    destruct p; cbn [AInv]; try tauto.
    all: try (apply ss_on_prefix).
    all: try (intros [Hp (l & r & E & K)]; split; [apply ss_on_prefix; exact Hp|exists l, r; rewrite ss_kids; split; assumption]).
    all: try (rewrite ss_node_at; tauto).
    all: try (rewrite ss_node_at, ss_subs; tauto).
    all: try (rewrite ss_live; tauto).
    all: try (rewrite ss_live, ss_subs, ss_kids; tauto).
    all: try (rewrite ss_par; destruct (n_par (getn h _)); [rewrite ss_live|]; tauto).
  Qed.
End SameStruct.

Lemma same_struct_refl h : same_struct h h.
Proof. split; [reflexivity|]. intros j. repeat split. Qed.

(* counters after an update *)
Lemma sc_upd_kc h i d n : n_sc (getn (upd h i (with_kc d)) n) = n_sc (getn h n).
Proof. apply (getn_upd_field n_sc). reflexivity. Qed.
Lemma kc_upd_sc h i d n : n_kc (getn (upd h i (with_sc d)) n) = n_kc (getn h n).
Proof. apply (getn_upd_field n_kc). reflexivity. Qed.
Lemma sc_upd_mark h i n : n_sc (getn (upd h i with_mark) n) = n_sc (getn h n).
Proof. apply (getn_upd_field n_sc). reflexivity. Qed.
Lemma kc_upd_mark h i n : n_kc (getn (upd h i with_mark) n) = n_kc (getn h n).
Proof. apply (getn_upd_field n_kc). reflexivity. Qed.
Lemma sc_upd_done h i n : n_sc (getn (upd h i with_done) n) = n_sc (getn h n).
Proof. apply (getn_upd_field n_sc). reflexivity. Qed.
Lemma kc_upd_done h i n : n_kc (getn (upd h i with_done) n) = n_kc (getn h n).
Proof. apply (getn_upd_field n_kc). reflexivity. Qed.

Lemma kc_upd_kc h i d n : i < length h ->
  n_kc (getn (upd h i (with_kc d)) n) = (n_kc (getn h n) + (if Nat.eqb i n then d else 0))%Z.
Proof.
  intros Hi. destruct (Nat.eqb i n) eqn:E.
  - apply Nat.eqb_eq in E. subst n. rewrite getn_upd_same by exact Hi. reflexivity.
  - apply Nat.eqb_neq in E. rewrite getn_upd_other by exact E. lia.
Qed.
Lemma sc_upd_sc h i d n : i < length h ->
  n_sc (getn (upd h i (with_sc d)) n) = (n_sc (getn h n) + (if Nat.eqb i n then d else 0))%Z.
Proof.
  intros Hi. destruct (Nat.eqb i n) eqn:E.
  - apply Nat.eqb_eq in E. subst n. rewrite getn_upd_same by exact Hi. reflexivity.
  - apply Nat.eqb_neq in E. rewrite getn_upd_other by exact E. lia.
Qed.

(* the bounds with less slack *)
Lemma CS_mono h p p' : (forall n, (eps_s p n <= eps_s p' n)%Z) -> CS h p -> CS h p'.
Proof. unfold CS. intros He H n. specialize (He n). specialize (H n). lia. Qed.
Lemma CK_mono h p p' : (forall q, (eps_k h p' q <= eps_k h p q)%Z) -> CK h p -> CK h p'.
Proof. unfold CK. intros He H q. specialize (He q). specialize (H q). lia. Qed.

Lemma eps_s_nonneg p n : (0 <= eps_s p n)%Z.
Proof. destruct p; cbn; try lia; destruct (Nat.eqb _ _); lia. Qed.
Lemma eps_k_nonneg h p q : (0 <= eps_k h p q)%Z.
Proof. destruct p; cbn; try lia; try (destruct (Nat.eqb _ _); lia). destruct (n_par _); [destruct (Nat.eqb _ _)|]; lia. Qed.

Lemma CS_ss h h' p : same_struct h h' -> (forall n, n_sc (getn h' n) = n_sc (getn h n)) -> CS h p -> CS h' p.
Proof. intros HS Hc H n. rewrite (ss_subs h h' HS), Hc. apply H. Qed.

(* ===== part 4 ===== *)

Ltac hi_split := split; [|split; [|split; [|split; [|split]]]].
Ltac hi_destruct H := destruct H as (H0 & H1 & HD & HCS & HCK & HA).
Ltac step_inv Hs := cbn [local_step] in Hs; inversion Hs; subst; clear Hs.

Lemma on_prefix_lt h o cur rest : T0 h -> T1 h -> on_prefix h o cur rest -> cur < length h.
Proof. intros H0 H1 [pre [_ W]]. apply (live_lt h cur H0 H1). exists pre; exact W. Qed.

Lemma on_prefix_live h o cur rest : on_prefix h o cur rest -> live h cur.
Proof. intros [pre [_ W]]. exists pre; exact W. Qed.

(* ---- steps that do not change the heap ---- *)
Lemma HI_same_heap h o p p' :
  HI h o p -> (forall n, (eps_s p n <= eps_s p' n)%Z) -> (forall q, (eps_k h p' q <= eps_k h p q)%Z) ->
  AInv h o p' -> HI h o p'.
Proof.
  intros H Es Ek HA'. hi_destruct H. hi_split; try assumption.
  - apply (CS_mono h p p' Es HCS).
  - apply (CK_mono h p p' Ek HCK).
Qed.

Lemma AInv_descend h o pre l r cur c :
  pre ++ l :: r = opath o -> node_at h pre = Some cur -> kid l (n_kids (getn h cur)) = Some c ->
  AInv h o (descend c r).
Proof.
  intros E W K. assert (W' : node_at h (pre ++ [l]) = Some c).
  { unfold node_at in *. rewrite walk_app, W. cbn [walk]. rewrite K. reflexivity. }
  destruct r as [|l' r']; cbn [descend AInv].
  - rewrite <- E. exact W'.
  - exists (pre ++ [l]). split; [rewrite <- app_assoc; exact E|exact W'].
Qed.

Lemma eps_descend_s c r n : eps_s (descend c r) n = 0%Z.
Proof. destruct r; reflexivity. Qed.
Lemma eps_descend_k h c r q : eps_k h (descend c r) q = 0%Z.
Proof. destruct r; reflexivity. Qed.

Lemma li_PInsLoad_nil h o cur : HI h o (PInsLoad cur []) -> HI h o (PInsStore cur).
Proof.
  intros H. apply (HI_same_heap h o _ _ H); cbn; intros; try lia; try (destruct (Nat.eqb _ _); lia).
  hi_destruct H. destruct HA as [pre [E W]]. rewrite app_nil_r in E. subst pre. exact W.
Qed.

Lemma li_PInsLoad_found h o cur l r c : kid l (n_kids (getn h cur)) = Some c ->
  HI h o (PInsLoad cur (l :: r)) -> HI h o (PInsDec cur c (l :: r)).
Proof.
  intros K H. apply (HI_same_heap h o _ _ H); cbn [eps_s eps_k]; intros; try lia.
  hi_destruct H. cbn [AInv] in *. split; [exact HA|]. exists l, r. split; [reflexivity|exact K].
Qed.

Lemma li_PInsChk h o cur c rest h' p' :
  HI h o (PInsChk cur c rest) -> local_step h o (PInsChk cur c rest) = Some (h', p') -> HI h' o p'.
Proof.
  intros H Hs. cbn [local_step] in Hs. destruct (n_rem (getn h c)); inversion Hs; subst h' p'; clear Hs.
  - apply (HI_same_heap h o _ _ H); cbn [eps_s eps_k]; intros; try lia. hi_destruct H. exact HA.
  - apply (HI_same_heap h o _ _ H); intros; rewrite ?eps_descend_s, ?eps_descend_k; cbn [eps_s eps_k]; try lia.
    hi_destruct H. destruct HA as [[pre [E W]] (l & r & -> & K)]. cbn [tl]. apply (AInv_descend h o pre l r cur c E W K).
Qed.

Lemma li_PInsWait h o cur c rest h' p' :
  HI h o (PInsWait cur c rest) -> local_step h o (PInsWait cur c rest) = Some (h', p') -> HI h' o p'.
Proof.
  intros H Hs. cbn [local_step] in Hs. destruct (n_wg (getn h c) =? 0)%Z; inversion Hs; subst h' p'; clear Hs.
  apply (HI_same_heap h o _ _ H); cbn [eps_s eps_k]; intros; try lia. hi_destruct H. apply HA.
Qed.

Lemma li_PRemWalk h o cur rest h' p' :
  HI h o (PRemWalk cur rest) -> local_step h o (PRemWalk cur rest) = Some (h', p') -> HI h' o p'.
Proof.
  intros H Hs. cbn [local_step] in Hs. destruct rest as [|l r].
  - inversion Hs; subst h' p'; clear Hs. apply (HI_same_heap h o _ _ H); cbn [eps_s eps_k]; intros; try lia.
    hi_destruct H. destruct HA as [pre [E W]]. rewrite app_nil_r in E. subst pre. exact W.
  - destruct (kid l (n_kids (getn h cur))) as [c|] eqn:K; inversion Hs; subst h' p'; clear Hs.
    + apply (HI_same_heap h o _ _ H); cbn [eps_s eps_k]; intros; try lia.
      hi_destruct H. destruct HA as [pre [E W]]. exists (pre ++ [l]). split; [rewrite <- app_assoc; exact E|].
      unfold node_at in *. rewrite walk_app, W. cbn [walk]. rewrite K. reflexivity.
    + apply (HI_same_heap h o _ _ H); cbn [eps_s eps_k AInv]; intros; try lia; try exact I.
Qed.

Lemma li_PRemLoad h o leaf h' p' :
  HI h o (PRemLoad leaf) -> local_step h o (PRemLoad leaf) = Some (h', p') -> HI h' o p'.
Proof.
  intros H Hs. cbn [local_step] in Hs.
  destruct (has _ (n_subs (getn h leaf))) eqn:Hh; inversion Hs; subst h' p'; clear Hs.
  - apply (HI_same_heap h o _ _ H); cbn [eps_s eps_k]; intros; try lia. hi_destruct H. cbn [AInv] in *. split; [exact HA|].
    destruct o; exact Hh.
  - apply (HI_same_heap h o _ _ H); cbn [eps_s eps_k]; intros; try lia. hi_destruct H. exists (opath o). exact HA.
Qed.

Lemma li_PClnChk h o n h' p' :
  HI h o (PClnChk n) -> local_step h o (PClnChk n) = Some (h', p') -> HI h' o p'.
Proof.
  intros H Hs. cbn [local_step] in Hs.
  destruct ((n_sc (getn h n) =? 0)%Z && (n_kc (getn h n) =? 0)%Z && negb (n_ret (getn h n))) eqn:Hc; inversion Hs; subst h' p'; clear Hs.
  - apply (HI_same_heap h o _ _ H); cbn [eps_s eps_k]; intros; try lia. hi_destruct H. cbn [AInv] in *.
    apply andb_prop in Hc. destruct Hc as [Hc _]. apply andb_prop in Hc. destruct Hc as [Hs Hk].
    apply Z.eqb_eq in Hs, Hk. specialize (HCS n). specialize (HCK n). cbn [eps_s eps_k] in *.
    split; [exact HA|]. split.
    + destruct (n_subs (getn h n)); [reflexivity|cbn [length] in HCS; lia].
    + destruct (n_kids (getn h n)); [reflexivity|cbn [length] in HCK; lia].
  - apply (HI_same_heap h o _ _ H); cbn [eps_s eps_k AInv]; intros; try lia; try exact I.
Qed.

Lemma li_PClnCb h o n h' p' :
  HI h o (PClnCb n) -> local_step h o (PClnCb n) = Some (h', p') -> HI h' o p'.
Proof.
  intros H Hs. cbn [local_step] in Hs. inversion Hs; subst h' p'; clear Hs.
  assert (HA' := H). hi_destruct HA'. cbn [AInv] in HA. destruct HA as (Hl & Hsu & Hki).
  destruct (n_par (getn h n)) as [q|] eqn:P.
  - apply (HI_same_heap h o _ _ H); cbn [eps_s eps_k AInv]; intros; try lia. tauto.
  - apply (HI_same_heap h o _ _ H); cbn [eps_s eps_k AInv]; intros; try lia. rewrite P. exact I.
Qed.

(* ---- steps that change counters / flags only ---- *)
Lemma li_PInsInc h o cur rest h' p' :
  HI h o (PInsInc cur rest) -> local_step h o (PInsInc cur rest) = Some (h', p') -> HI h' o p'.
Proof.
  intros H Hs. cbn [local_step] in Hs; inversion Hs; subst h' p'; clear Hs. hi_destruct H. cbn [AInv] in HA.
  pose proof (upd_same_struct h cur (with_kc 1) (keeps_kc 1)) as SS.
  pose proof (on_prefix_lt h o cur rest H0 H1 HA) as Hc.
  hi_split.
  - apply (ss_T0 _ _ SS H0).
  - apply (ss_T1 _ _ SS H1).
  - apply (ss_DI _ _ SS HD).
  - intros n. rewrite (ss_subs _ _ SS), sc_upd_kc. specialize (HCS n). cbn [eps_s] in *. lia.
  - intros q. rewrite (ss_kids _ _ SS), kc_upd_kc by exact Hc. specialize (HCK q). cbn [eps_k] in *. destruct (Nat.eqb cur q); lia.
  - cbn [AInv]. apply (ss_on_prefix _ _ SS). exact HA.
Qed.

Lemma li_PInsDec h o cur c rest h' p' :
  HI h o (PInsDec cur c rest) -> local_step h o (PInsDec cur c rest) = Some (h', p') -> HI h' o p'.
Proof.
  intros H Hs. cbn [local_step] in Hs; inversion Hs; subst h' p'; clear Hs. hi_destruct H.
  pose proof (upd_same_struct h cur (with_kc (-1)) (keeps_kc (-1))) as SS.
  assert (Hc : cur < length h) by (apply (on_prefix_lt h o cur rest H0 H1); apply HA).
  hi_split.
  - apply (ss_T0 _ _ SS H0).
  - apply (ss_T1 _ _ SS H1).
  - apply (ss_DI _ _ SS HD).
  - intros n. rewrite (ss_subs _ _ SS), sc_upd_kc. specialize (HCS n). cbn [eps_s] in *. lia.
  - intros q. rewrite (ss_kids _ _ SS), kc_upd_kc by exact Hc. specialize (HCK q). cbn [eps_k] in *. destruct (Nat.eqb cur q); lia.
  - apply (ss_AInv _ _ SS o (PInsChk cur c rest)). exact HA.
Qed.

Lemma li_PInsCnt h o leaf h' p' :
  HI h o (PInsCnt leaf) -> local_step h o (PInsCnt leaf) = Some (h', p') -> HI h' o p'.
Proof.
  intros H Hs. cbn [local_step] in Hs; inversion Hs; subst h' p'; clear Hs. hi_destruct H. cbn [AInv] in HA.
  pose proof (upd_same_struct h leaf (with_sc 1) (keeps_sc 1)) as SS.
  assert (Hc : leaf < length h) by (apply (live_lt h leaf H0 H1); exists (opath o); exact HA).
  hi_split.
  - apply (ss_T0 _ _ SS H0).
  - apply (ss_T1 _ _ SS H1).
  - apply (ss_DI _ _ SS HD).
  - intros n. rewrite (ss_subs _ _ SS), sc_upd_sc by exact Hc. specialize (HCS n). cbn [eps_s] in *. destruct (Nat.eqb leaf n); lia.
  - intros q. rewrite (ss_kids _ _ SS), kc_upd_sc. specialize (HCK q). cbn [eps_k] in *. lia.
  - exact I.
Qed.

Lemma li_PRemDec h o leaf h' p' :
  HI h o (PRemDec leaf) -> local_step h o (PRemDec leaf) = Some (h', p') -> HI h' o p'.
Proof.
  intros H Hs. cbn [local_step] in Hs; inversion Hs; subst h' p'; clear Hs. hi_destruct H.
  pose proof (upd_same_struct h leaf (with_sc (-1)) (keeps_sc (-1))) as SS.
  assert (Hc : leaf < length h) by (apply (live_lt h leaf H0 H1); exists (opath o); apply HA).
  hi_split.
  - apply (ss_T0 _ _ SS H0).
  - apply (ss_T1 _ _ SS H1).
  - apply (ss_DI _ _ SS HD).
  - intros n. rewrite (ss_subs _ _ SS), sc_upd_sc by exact Hc. specialize (HCS n). cbn [eps_s] in *. destruct (Nat.eqb leaf n); lia.
  - intros q. rewrite (ss_kids _ _ SS), kc_upd_sc. specialize (HCK q). cbn [eps_k] in *. lia.
  - apply (ss_AInv _ _ SS o (PRemDel leaf)). exact HA.
Qed.

Lemma li_PClnMark h o n h' p' :
  HI h o (PClnMark n) -> local_step h o (PClnMark n) = Some (h', p') -> HI h' o p'.
Proof.
  intros H Hs. cbn [local_step] in Hs; inversion Hs; subst h' p'; clear Hs. hi_destruct H.
  pose proof (upd_same_struct h n with_mark keeps_mark) as SS.
  hi_split.
  - apply (ss_T0 _ _ SS H0).
  - apply (ss_T1 _ _ SS H1).
  - apply (ss_DI _ _ SS HD).
  - intros m. rewrite (ss_subs _ _ SS), sc_upd_mark. specialize (HCS m). cbn [eps_s] in *. lia.
  - intros q. rewrite (ss_kids _ _ SS), kc_upd_mark. specialize (HCK q). cbn [eps_k] in *. lia.
  - apply (ss_AInv _ _ SS o (PClnCb n)). exact HA.
Qed.

Lemma li_PClnDecP h o n h' p' :
  HI h o (PClnDecP n) -> local_step h o (PClnDecP n) = Some (h', p') -> HI h' o p'.
Proof.
  intros H Hs. cbn [local_step] in Hs. destruct (n_par (getn h n)) as [q|] eqn:P; inversion Hs; subst h' p'; clear Hs.
  - hi_destruct H. cbn [AInv] in HA. rewrite P in HA.
    pose proof (upd_same_struct h q (with_kc (-1)) (keeps_kc (-1))) as SS.
    assert (Hc : q < length h) by (apply (live_lt h q H0 H1 HA)).
    hi_split.
    + apply (ss_T0 _ _ SS H0).
    + apply (ss_T1 _ _ SS H1).
    + apply (ss_DI _ _ SS HD).
    + intros m. rewrite (ss_subs _ _ SS), sc_upd_kc. specialize (HCS m). cbn [eps_s] in *. lia.
    + intros q'. rewrite (ss_kids _ _ SS), kc_upd_kc by exact Hc. specialize (HCK q'). cbn [eps_k] in *. rewrite P in HCK.
      destruct (Nat.eqb q q'); lia.
    + cbn [AInv]. rewrite (ss_par _ _ SS), P. apply (ss_live _ _ SS). exact HA.
  - apply (HI_same_heap h o _ _ H); cbn [eps_s eps_k AInv]; intros; try lia.
    + rewrite P. lia.
    + rewrite P. exact I.
Qed.

Lemma li_PClnDone h o n h' p' :
  HI h o (PClnDone n) -> local_step h o (PClnDone n) = Some (h', p') -> HI h' o p'.
Proof.
  intros H Hs. cbn [local_step] in Hs; inversion Hs; subst h' p'; clear Hs. hi_destruct H. cbn [AInv] in HA.
  pose proof (upd_same_struct h n with_done keeps_done) as SS.
  assert (HP : HI (upd h n with_done) o PDone).
  { hi_split.
    - apply (ss_T0 _ _ SS H0).
    - apply (ss_T1 _ _ SS H1).
    - apply (ss_DI _ _ SS HD).
    - intros m. rewrite (ss_subs _ _ SS), sc_upd_done. specialize (HCS m). cbn [eps_s] in *. lia.
    - intros q. rewrite (ss_kids _ _ SS), kc_upd_done. specialize (HCK q). cbn [eps_k] in *. lia.
    - exact I. }
  destruct (n_par (getn h n)) as [q|] eqn:P; [|exact HP].
  apply (HI_same_heap _ o _ _ HP); cbn [eps_s eps_k AInv]; intros; try lia.
  apply (ss_live _ _ SS). exact HA.
Qed.

(* ===== part 5 ===== *)

(* ---------- heaps that differ in subscriber sets (and counters) only ---------- *)
Definition same_kids (h h' : heap) : Prop :=
  length h' = length h /\
  forall j, n_par (getn h' j) = n_par (getn h j) /\ n_lev (getn h' j) = n_lev (getn h j) /\
            n_kids (getn h' j) = n_kids (getn h j).

Definition keeps_k (f : nd -> nd) : Prop :=
  forall x, n_par (f x) = n_par x /\ n_lev (f x) = n_lev x /\ n_kids (f x) = n_kids x.

Lemma upd_same_kids h i f : keeps_k f -> same_kids h (upd h i f).
Proof.
  intros Hf. split; [apply length_upd|]. intros j. repeat split.
  - apply (getn_upd_field n_par); intros x; apply Hf.
  - apply (getn_upd_field n_lev); intros x; apply Hf.
  - apply (getn_upd_field n_kids); intros x; apply Hf.
Qed.

Section SameKids.
  Variables h h' : heap.
  Hypothesis HS : same_kids h h'.
  Lemma sk_walk p c : walk h' c p = walk h c p.
  Proof. apply walk_ext. intros n. apply HS. Qed.
  Lemma sk_node_at p : node_at h' p = node_at h p.
  Proof. apply sk_walk. Qed.
  Lemma sk_live n : live h' n <-> live h n.
  Proof. unfold live. split; intros [p Hp]; exists p; [rewrite <- sk_node_at|rewrite sk_node_at]; exact Hp. Qed.
  Lemma sk_T0 : T0 h -> T0 h'.
  Proof. intros [A B]. split; [destruct HS as [L _]; lia|]. destruct HS as [_ F]. rewrite (proj1 (F 0)). exact B. Qed.
  Lemma sk_T1 : T1 h -> T1 h'.
  Proof.
    intros H1 q l c Hk. destruct HS as [L F]. rewrite (proj2 (proj2 (F q))) in Hk.
    destruct (H1 _ _ _ Hk) as (A & B & C & D). rewrite L. repeat split; try assumption.
    - rewrite (proj1 (F c)). exact C.
    - rewrite (proj1 (proj2 (F c))). exact D.
  Qed.
  Lemma sk_kids j : n_kids (getn h' j) = n_kids (getn h j). Proof. apply HS. Qed.
End SameKids.

(* a change of the subscriber set of ONE LIVE node keeps "dead nodes are empty" *)
Lemma DI_subs_upd h leaf f : keeps_k f -> T0 h -> T1 h -> live h leaf -> DI h -> DI (upd h leaf f).
Proof.
  intros Hf H0 H1 Hl HD n Hn Hdead. pose proof (upd_same_kids h leaf f Hf) as SK.
  rewrite length_upd in Hn. assert (Hd : ~ live h n) by (intros X; apply Hdead; apply (sk_live _ _ SK); exact X).
  assert (Hne : leaf <> n) by (intros ->; contradiction).
  rewrite getn_upd_other by exact Hne. apply (HD n Hn Hd).
Qed.

Lemma li_PInsStore h o leaf h' p' :
  HI h o (PInsStore leaf) -> local_step h o (PInsStore leaf) = Some (h', p') -> HI h' o p'.
Proof.
  intros H Hs. cbn [local_step] in Hs. destruct (has _ (n_subs (getn h leaf))) eqn:Hh; inversion Hs; subst h' p'; clear Hs.
  - apply (HI_same_heap h o _ _ H); cbn [eps_s eps_k AInv]; intros; try lia; try exact I.
  - hi_destruct H. cbn [AInv] in HA.
    set (s := match o with OpIns _ s => s | OpRem _ s => s end) in *.
    set (f := fun x : nd => with_subs (n_subs x ++ [s]) x).
    assert (Hf : keeps_k f) by (intros x; repeat split).
    pose proof (upd_same_kids h leaf f Hf) as SK.
    assert (Hl : live h leaf) by (exists (opath o); exact HA).
    pose proof (live_lt h leaf H0 H1 Hl) as Hc.
    hi_split.
    + apply (sk_T0 _ _ SK H0).
    + apply (sk_T1 _ _ SK H1).
    + apply (DI_subs_upd h leaf f Hf H0 H1 Hl HD).
    + intros n. specialize (HCS n). cbn [eps_s] in *. destruct (Nat.eqb leaf n) eqn:E.
      * apply Nat.eqb_eq in E. subst n. rewrite getn_upd_same by exact Hc. unfold f. cbn [n_subs n_sc with_subs].
        rewrite app_length. cbn [length]. lia.
      * apply Nat.eqb_neq in E. rewrite getn_upd_other by exact E. lia.
    + intros q. rewrite (sk_kids _ _ SK). specialize (HCK q). cbn [eps_k] in *.
      replace (n_kc (getn (upd h leaf f) q)) with (n_kc (getn h q)); [lia|].
      symmetry. apply (getn_upd_field n_kc). reflexivity.
    + cbn [AInv]. rewrite (sk_node_at _ _ SK). exact HA.
Qed.

Lemma li_PRemDel h o leaf h' p' :
  HI h o (PRemDel leaf) -> local_step h o (PRemDel leaf) = Some (h', p') -> HI h' o p'.
Proof.
  intros H Hs. cbn [local_step] in Hs. inversion Hs; subst h' p'; clear Hs.
  hi_destruct H. cbn [AInv] in HA. destruct HA as [HA Hh].
  set (s := match o with OpIns _ s => s | OpRem _ s => s end) in *.
  assert (Es : osub o = s) by (destruct o; reflexivity). rewrite Es in Hh.
  set (f := fun x : nd => with_subs (filter (fun y => negb (N.eqb y s)) (n_subs x)) x).
  assert (Hf : keeps_k f) by (intros x; repeat split).
  pose proof (upd_same_kids h leaf f Hf) as SK.
  assert (Hl : live h leaf) by (exists (opath o); exact HA).
  pose proof (live_lt h leaf H0 H1 Hl) as Hc.
  hi_split.
  - apply (sk_T0 _ _ SK H0).
  - apply (sk_T1 _ _ SK H1).
  - apply (DI_subs_upd h leaf f Hf H0 H1 Hl HD).
  - intros n. specialize (HCS n). cbn [eps_s] in *. destruct (Nat.eqb leaf n) eqn:E.
    + apply Nat.eqb_eq in E. subst n. rewrite getn_upd_same by exact Hc. unfold f. cbn [n_subs n_sc with_subs].
      pose proof (has_filter_shrinks s _ Hh). lia.
    + apply Nat.eqb_neq in E. rewrite getn_upd_other by exact E. lia.
  - intros q. rewrite (sk_kids _ _ SK). specialize (HCK q). cbn [eps_k] in *.
    replace (n_kc (getn (upd h leaf f) q)) with (n_kc (getn h q)); [lia|].
    symmetry. apply (getn_upd_field n_kc). reflexivity.
  - cbn [AInv]. apply (sk_live _ _ SK). exact Hl.
Qed.

(* ===== part 6 ===== *)

(* ================= a new child is linked (leafInsertNode, LoadOrStore stored) ================= *)
Section NewChild.
  Variables (h : heap) (cur : nat) (l : N).
  Hypothesis H0 : T0 h.
  Hypothesis H1 : T1 h.
  Hypothesis Hc : cur < length h.
  Hypothesis Hk : kid l (n_kids (getn h cur)) = None.
  Let c := length h.
  Let f := fun x : nd => with_kids (n_kids x ++ [(l, c)]) x.
  Let nw := mkNd (Some cur) l [] [] 0 0 false false 0.
  Let h' := upd h cur f ++ [nw].

  Lemma nc_len : length h' = S (length h).
  Proof. unfold h'. rewrite app_length, length_upd. cbn. lia. Qed.
  Lemma nc_new : getn h' c = nw.
  Proof. unfold h', c. rewrite <- (length_upd h cur f). apply getn_app_new. Qed.
  Lemma nc_cur : getn h' cur = f (getn h cur).
  Proof. unfold h'. rewrite getn_app_old by (rewrite length_upd; exact Hc). apply getn_upd_same. exact Hc. Qed.
  Lemma nc_old j : j < length h -> j <> cur -> getn h' j = getn h j.
  Proof. intros Hj Hne. unfold h'. rewrite getn_app_old by (rewrite length_upd; exact Hj). apply getn_upd_other. congruence. Qed.
  Lemma nc_out j : S (length h) <= j -> getn h' j = root_nd.
  Proof. intros Hj. apply getn_out. rewrite nc_len. exact Hj. Qed.

  Lemma nc_field {A} (g : nd -> A) j : (forall x, g (f x) = g x) -> j < length h -> g (getn h' j) = g (getn h j).
  Proof.
    intros Hg Hj. destruct (Nat.eq_dec j cur) as [->|Hne]; [rewrite nc_cur; apply Hg|rewrite nc_old by assumption; reflexivity].
  Qed.

  Lemma nc_kid_old q l' c' : kid l' (n_kids (getn h q)) = Some c' -> kid l' (n_kids (getn h' q)) = Some c'.
  Proof.
    intros K. assert (Hq : q < length h).
    { destruct (Nat.lt_ge_cases q (length h)) as [X|X]; [exact X|]. rewrite getn_out in K by exact X. discriminate. }
    destruct (Nat.eq_dec q cur) as [->|Hne].
    - rewrite nc_cur. unfold f. cbn [n_kids with_kids]. apply kid_app_some. exact K.
    - rewrite nc_old by assumption. exact K.
  Qed.

  Lemma nc_kid_inv q l' c' : kid l' (n_kids (getn h' q)) = Some c' ->
    kid l' (n_kids (getn h q)) = Some c' \/ (q = cur /\ l' = l /\ c' = c).
  Proof.
    intros K. destruct (Nat.lt_ge_cases q (length h)) as [Hq|Hq].
    - destruct (Nat.eq_dec q cur) as [->|Hne].
      + rewrite nc_cur in K. unfold f in K. cbn [n_kids with_kids] in K.
        destruct (kid l' (n_kids (getn h cur))) as [x|] eqn:E.
        * left. rewrite (kid_app_some _ _ _ _ E) in K. exact K.
        * right. rewrite (kid_app_none _ _ _ _ E) in K. destruct (N.eqb l l') eqn:El; [|discriminate].
          apply N.eqb_eq in El. inversion K. subst. repeat split.
      + rewrite nc_old in K by assumption. left. exact K.
    - exfalso. destruct (Nat.eq_dec q c) as [->|Hne]; [rewrite nc_new in K; discriminate|].
      rewrite nc_out in K by (unfold c in Hne; lia). discriminate.
  Qed.

  Lemma nc_T0 : T0 h'.
  Proof.
    destruct H0 as [A B]. split; [rewrite nc_len; lia|].
    rewrite (nc_field n_par 0) by (try reflexivity; exact A). exact B.
  Qed.

  Lemma nc_T1 : T1 h'.
  Proof.
    intros q l' c' K. destruct (nc_kid_inv q l' c' K) as [K0|(-> & -> & ->)].
    - destruct (H1 _ _ _ K0) as (A & B & C & D). rewrite nc_len. split; [lia|]. split; [exact B|].
      rewrite (nc_field n_par c') by (try reflexivity; exact A). rewrite (nc_field n_lev c') by (try reflexivity; exact A). tauto.
    - rewrite nc_len, nc_new. unfold c, nw. cbn. destruct H0 as [A _]. repeat split; lia.
  Qed.

  Lemma nc_walk_old p : forall c0 n, walk h c0 p = Some n -> walk h' c0 p = Some n.
  Proof.
    induction p as [|x r IH]; intros c0 n Hw; cbn [walk] in *; [exact Hw|].
    destruct (kid x (n_kids (getn h c0))) as [c1|] eqn:E; [|discriminate].
    rewrite (nc_kid_old _ _ _ E). apply IH. exact Hw.
  Qed.

  Lemma nc_walk_back p : forall c0 n, c0 < length h -> n < length h -> walk h' c0 p = Some n -> walk h c0 p = Some n.
  Proof.
    induction p as [|x r IH]; intros c0 n Hc0 Hn Hw; cbn [walk] in *; [exact Hw|].
    destruct (kid x (n_kids (getn h' c0))) as [c1|] eqn:E; [|discriminate].
    destruct (nc_kid_inv _ _ _ E) as [K0|(-> & -> & ->)].
    - rewrite K0. apply IH; [apply (H1 _ _ _ K0)|exact Hn|exact Hw].
    - exfalso. destruct r as [|y t]; cbn [walk] in Hw.
      + inversion Hw. unfold c in *. lia.
      + rewrite nc_new in Hw. discriminate.
  Qed.

  Lemma nc_live_old n : live h n -> live h' n.
  Proof. intros [p Hp]. exists p. apply nc_walk_old. exact Hp. Qed.
  Lemma nc_live_back n : n < length h -> live h' n -> live h n.
  Proof. intros Hn [p Hp]. exists p. apply nc_walk_back; [apply H0|exact Hn|exact Hp]. Qed.
  Lemma nc_live_new : live h cur -> live h' c.
  Proof.
    intros Hl. apply (live_kid h' cur l c); [apply nc_live_old; exact Hl|].
    rewrite nc_cur. unfold f. cbn [n_kids with_kids]. rewrite (kid_app_none _ _ _ _ Hk), N.eqb_refl. reflexivity.
  Qed.

  Lemma nc_DI : live h cur -> DI h -> DI h'.
  Proof.
    intros Hl HD n Hn Hdead. rewrite nc_len in Hn. destruct (Nat.eq_dec n c) as [->|Hne].
    - exfalso. apply Hdead. apply nc_live_new. exact Hl.
    - assert (Hn' : n < length h) by (unfold c in Hne; lia).
      assert (Hd : ~ live h n) by (intros X; apply Hdead; apply nc_live_old; exact X).
      assert (Hnc : n <> cur) by (intros ->; contradiction).
      rewrite nc_old by assumption. apply (HD n Hn' Hd).
  Qed.

  Lemma nc_CS p p' : (forall n, (eps_s p n <= eps_s p' n)%Z) -> CS h p -> CS h' p'.
  Proof.
    intros He H n. specialize (He n). specialize (H n). destruct (Nat.lt_ge_cases n (length h)) as [Hn|Hn].
    - rewrite (nc_field n_subs n) by (try reflexivity; exact Hn). rewrite (nc_field n_sc n) by (try reflexivity; exact Hn). lia.
    - pose proof (eps_s_nonneg p' n). destruct (Nat.eq_dec n c) as [->|Hne]; [rewrite nc_new|rewrite nc_out by (unfold c in Hne; lia)]; cbn; lia.
  Qed.

  Lemma nc_CK r' : CK h (PInsLoad cur (l :: r')) -> CK h' (descend c r').
  Proof.
    intros H q. rewrite eps_descend_k. specialize (H q). cbn [eps_k] in H. destruct (Nat.lt_ge_cases q (length h)) as [Hq|Hq].
    - rewrite (nc_field n_kc q) by (try reflexivity; exact Hq). destruct (Nat.eq_dec q cur) as [->|Hne].
      + rewrite nc_cur. unfold f. cbn [n_kids with_kids]. rewrite app_length. cbn [length]. rewrite Nat.eqb_refl in H. lia.
      + rewrite nc_old by assumption. destruct (Nat.eqb cur q); lia.
    - destruct (Nat.eq_dec q c) as [->|Hne]; [rewrite nc_new|rewrite nc_out by (unfold c in Hne; lia)]; cbn; lia.
  Qed.
End NewChild.

Lemma li_PInsLoad h o cur rest h' p' :
  HI h o (PInsLoad cur rest) -> local_step h o (PInsLoad cur rest) = Some (h', p') -> HI h' o p'.
Proof.
  intros H Hs. cbn [local_step] in Hs. destruct rest as [|l r].
  - inversion Hs; subst h' p'; clear Hs. apply li_PInsLoad_nil. exact H.
  - destruct (kid l (n_kids (getn h cur))) as [c|] eqn:K; inversion Hs; subst h' p'; clear Hs.
    + apply li_PInsLoad_found; assumption.
    + hi_destruct H. cbn [AInv] in HA.
      pose proof (on_prefix_lt h o cur _ H0 H1 HA) as Hc. pose proof (on_prefix_live h o cur _ HA) as Hl.
      hi_split.
      * apply nc_T0; assumption.
      * apply nc_T1; assumption.
      * apply nc_DI; assumption.
      * apply (nc_CS h cur l Hc (PInsLoad cur (l :: r))); [|exact HCS]. intros n. rewrite eps_descend_s. cbn. lia.
      * apply nc_CK; assumption.
      * destruct HA as [pre [E W]].
        apply (AInv_descend _ o pre l r cur (length h) E).
        -- apply nc_walk_old; assumption.
        -- rewrite nc_cur by assumption. cbn [n_kids with_kids]. rewrite (kid_app_none _ _ _ _ K), N.eqb_refl. reflexivity.
Qed.

(* ================= a child is unlinked (nodesCleanup, children.Delete) ================= *)
Section Unlink.
  Variables (h : heap) (n q : nat).
  Hypothesis H0 : T0 h.
  Hypothesis H1 : T1 h.
  Hypothesis Hl : live h n.
  Hypothesis Hsu : n_subs (getn h n) = [].
  Hypothesis Hki : n_kids (getn h n) = [].
  Hypothesis HP : n_par (getn h n) = Some q.
  Let l := n_lev (getn h n).
  Let f := fun x : nd => with_kids (delkid l (n_kids x)) x.
  Let h' := upd h q f.

  Lemma ul_n0 : n <> 0.
  Proof. intros ->. destruct H0 as [_ B]. rewrite B in HP. discriminate. Qed.
  Lemma ul_edge : live h q /\ kid l (n_kids (getn h q)) = Some n.
  Proof.
    destruct (live_parent h n H0 H1 Hl ul_n0) as (q' & P & L & K). rewrite HP in P. inversion P; subst q'. split; assumption.
  Qed.
  Lemma ul_q : q < length h.
  Proof. apply (live_lt h q H0 H1). apply ul_edge. Qed.
  Lemma ul_qn : q <> n.
  Proof. intros E. destruct ul_edge as [_ K]. rewrite E, Hki in K. discriminate. Qed.

  Lemma ul_same_but_kids j : n_par (getn h' j) = n_par (getn h j) /\ n_lev (getn h' j) = n_lev (getn h j) /\
     n_subs (getn h' j) = n_subs (getn h j) /\ n_sc (getn h' j) = n_sc (getn h j) /\ n_kc (getn h' j) = n_kc (getn h j).
  Proof.
    unfold h'. repeat split.
    - apply (getn_upd_field n_par); reflexivity.
    - apply (getn_upd_field n_lev); reflexivity.
    - apply (getn_upd_field n_subs); reflexivity.
    - apply (getn_upd_field n_sc); reflexivity.
    - apply (getn_upd_field n_kc); reflexivity.
  Qed.

  Lemma ul_kids_q : n_kids (getn h' q) = delkid l (n_kids (getn h q)).
  Proof. unfold h'. rewrite getn_upd_same by exact ul_q. reflexivity. Qed.
  Lemma ul_kids_other j : j <> q -> n_kids (getn h' j) = n_kids (getn h j).
  Proof. intros Hne. unfold h'. rewrite getn_upd_other by congruence. reflexivity. Qed.

  Lemma ul_kid_back j l' c : kid l' (n_kids (getn h' j)) = Some c -> kid l' (n_kids (getn h j)) = Some c.
  Proof.
    destruct (Nat.eq_dec j q) as [->|Hne].
    - rewrite ul_kids_q. destruct (N.eq_dec l l') as [<-|Hl'].
      + rewrite kid_delkid_same. discriminate.
      + rewrite kid_delkid_other by exact Hl'. tauto.
    - rewrite ul_kids_other by exact Hne. tauto.
  Qed.

  Lemma ul_kid_keep j l' c : kid l' (n_kids (getn h j)) = Some c -> c <> n -> kid l' (n_kids (getn h' j)) = Some c.
  Proof.
    intros K Hne. destruct (Nat.eq_dec j q) as [->|Hj].
    - rewrite ul_kids_q. destruct (N.eq_dec l l') as [<-|Hl'].
      + destruct ul_edge as [_ K']. rewrite K' in K. inversion K. congruence.
      + rewrite kid_delkid_other by exact Hl'. exact K.
    - rewrite ul_kids_other by exact Hj. exact K.
  Qed.

  Lemma ul_T0 : T0 h'.
  Proof. destruct H0 as [A B]. split; [unfold h'; rewrite length_upd; exact A|]. rewrite (proj1 (ul_same_but_kids 0)). exact B. Qed.

  Lemma ul_T1 : T1 h'.
  Proof.
    intros j l' c K. apply ul_kid_back in K. destruct (H1 _ _ _ K) as (A & B & C & D).
    unfold h' at 1. rewrite length_upd. repeat split; try assumption.
    - rewrite (proj1 (ul_same_but_kids c)). exact C.
    - rewrite (proj1 (proj2 (ul_same_but_kids c))). exact D.
  Qed.

  Lemma ul_walk_back p : forall c0 m, walk h' c0 p = Some m -> walk h c0 p = Some m.
  Proof.
    induction p as [|x r IH]; intros c0 m Hw; cbn [walk] in *; [exact Hw|].
    destruct (kid x (n_kids (getn h' c0))) as [c1|] eqn:E; [|discriminate].
    rewrite (ul_kid_back _ _ _ E). apply IH. exact Hw.
  Qed.

  (* a walk that does not END in n does not pass through n (n has no children) *)
  Lemma ul_walk_keep p : forall c0 m, walk h c0 p = Some m -> m <> n -> c0 <> n -> walk h' c0 p = Some m.
  Proof.
    induction p as [|x r IH]; intros c0 m Hw Hm Hc0; cbn [walk] in *; [exact Hw|].
    destruct (kid x (n_kids (getn h c0))) as [c1|] eqn:E; [|discriminate].
    assert (Hc1 : c1 <> n).
    { intros ->. destruct r as [|y t]; cbn [walk] in Hw; [inversion Hw; congruence|]. rewrite Hki in Hw. discriminate. }
    rewrite (ul_kid_keep _ _ _ E Hc1). apply IH; assumption.
  Qed.

  Lemma ul_live_back m : live h' m -> live h m.
  Proof. intros [p Hp]. exists p. apply ul_walk_back. exact Hp. Qed.
  Lemma ul_live_keep m : live h m -> m <> n -> live h' m.
  Proof. intros [p Hp] Hm. exists p. apply ul_walk_keep; [exact Hp|exact Hm|apply not_eq_sym; exact ul_n0]. Qed.

  Lemma ul_DI : DI h -> DI h'.
  Proof.
    intros HD m Hm Hdead. unfold h' in Hm. rewrite length_upd in Hm.
    destruct (ul_same_but_kids m) as (_ & _ & S & _ & _). rewrite S.
    destruct (Nat.eq_dec m n) as [->|Hmn].
    - split; [exact Hsu|]. rewrite ul_kids_other by (apply not_eq_sym; exact ul_qn). exact Hki.
    - assert (Hd : ~ live h m) by (intros X; apply Hdead; apply ul_live_keep; assumption).
      assert (Hmq : m <> q) by (intros ->; apply Hd; apply ul_edge).
      rewrite ul_kids_other by exact Hmq. apply (HD m Hm Hd).
  Qed.

  Lemma ul_CS p p' : (forall m, (eps_s p m <= eps_s p' m)%Z) -> CS h p -> CS h' p'.
  Proof.
    intros He H m. specialize (He m). specialize (H m). destruct (ul_same_but_kids m) as (_ & _ & S & C & _).
    rewrite S, C. lia.
  Qed.

  Lemma ul_CK : CK h (PClnUnlink n) -> CK h' (PClnDecP n).
  Proof.
    intros H j. specialize (H j). cbn [eps_k] in *. destruct (ul_same_but_kids n) as (P & _). rewrite P, HP.
    destruct (ul_same_but_kids j) as (_ & _ & _ & _ & C). rewrite C.
    destruct (Nat.eqb q j) eqn:E.
    - apply Nat.eqb_eq in E. subst j. rewrite ul_kids_q. destruct ul_edge as [_ K].
      pose proof (delkid_shrinks l _ n K). lia.
    - apply Nat.eqb_neq in E. rewrite ul_kids_other by congruence. lia.
  Qed.
End Unlink.

Lemma li_PClnUnlink h o n h' p' :
  HI h o (PClnUnlink n) -> local_step h o (PClnUnlink n) = Some (h', p') -> HI h' o p'.
Proof.
  intros H Hs. cbn [local_step] in Hs. destruct (n_par (getn h n)) as [q|] eqn:P; inversion Hs; subst h' p'; clear Hs.
  - hi_destruct H. cbn [AInv] in HA. destruct HA as (Hl & Hsu & Hki).
    hi_split.
    + eapply ul_T0; eassumption.
    + eapply ul_T1; eassumption.
    + eapply ul_DI; eassumption.
    + eapply (ul_CS h n q (PClnUnlink n)); [|exact HCS]. intros m. cbn. lia.
    + eapply ul_CK; eassumption.
    + cbn [AInv]. destruct (ul_same_but_kids h n q n) as (Pn & _). rewrite Pn, P.
      eapply ul_live_keep; try eassumption.
      * eapply ul_edge; eassumption.
      * eapply ul_qn; eassumption.
  - apply (HI_same_heap h o _ _ H); cbn [eps_s eps_k AInv]; intros; try lia; rewrite ?P; try lia; try exact I.
Qed.

(* ===== part 7 ===== *)

(* ---------- one atomic access of the lock holder keeps the invariant ---------- *)
Lemma local_inv h o p h' p' : HI h o p -> local_step h o p = Some (h', p') -> HI h' o p'.
Proof.
  destruct p; intros H Hs; try (cbn in Hs; discriminate).
  - eapply li_PInsInc; eassumption.
  - eapply li_PInsLoad; eassumption.
  - eapply li_PInsDec; eassumption.
  - eapply li_PInsChk; eassumption.
  - eapply li_PInsWait; eassumption.
  - eapply li_PInsStore; eassumption.
  - eapply li_PInsCnt; eassumption.
  - eapply li_PRemWalk; eassumption.
  - eapply li_PRemLoad; eassumption.
  - eapply li_PRemDec; eassumption.
  - eapply li_PRemDel; eassumption.
  - eapply li_PClnChk; eassumption.
  - eapply li_PClnMark; eassumption.
  - eapply li_PClnCb; eassumption.
  - eapply li_PClnUnlink; eassumption.
  - eapply li_PClnDecP; eassumption.
  - eapply li_PClnDone; eassumption.
Qed.

(* which program counters belong to which kind of operation *)
Definition pc_kind (o : opk) (p : pc) : Prop :=
  match p with
  | PStart | PDone => True
  | PInsInc _ _ | PInsLoad _ _ | PInsDec _ _ _ | PInsChk _ _ _ | PInsWait _ _ _ | PInsStore _ | PInsCnt _ => is_rem o = false
  | _ => is_rem o = true
  end.

Lemma pc_kind_first o : pc_kind o (first_pc o).
Proof. destruct o as [[|l r] s|p s]; reflexivity. Qed.

Lemma pc_kind_descend o c r : is_rem o = false -> pc_kind o (descend c r).
Proof. destruct r; exact (fun x => x). Qed.

Lemma pc_kind_step h o p h' p' : pc_kind o p -> local_step h o p = Some (h', p') -> pc_kind o p'.
Proof.
  intros K Hs. destruct p; cbn [local_step] in Hs; try discriminate.
  all: repeat match type of Hs with
       | context [match ?x with _ => _ end] => destruct x
       end; try discriminate; inversion Hs; subst; cbn [pc_kind] in *; try exact I; try exact K;
       try (apply pc_kind_descend; exact K).
Qed.

(* ---------- what one atomic access may do to the observable structure ---------- *)
Definition Facts (h h' : heap) (o : opk) : Prop :=
  length h <= length h' /\
  (forall m, m < length h -> live h' m -> live h m) /\
  (forall q m, node_at h q = Some m ->
      node_at h' q = Some m \/ (~ live h' m /\ n_subs (getn h m) = [] /\ n_kids (getn h m) = [])) /\
  (forall m x, m < length h -> In x (n_subs (getn h' m)) ->
      In x (n_subs (getn h m)) \/ (is_rem o = false /\ x = osub o /\ node_at h (opath o) = Some m)) /\
  (forall m x, m < length h -> In x (n_subs (getn h m)) ->
      In x (n_subs (getn h' m)) \/ (is_rem o = true /\ x = osub o /\ node_at h (opath o) = Some m)) /\
  (forall m, length h <= m -> n_subs (getn h' m) = []).

Ltac facts_split := split; [|split; [|split; [|split; [|split]]]].

Lemma facts_refl h o : Facts h h o.
Proof.
  facts_split.
  - lia.
  - tauto.
  - intros q m H. left. exact H.
  - intros m x _ H. left. exact H.
  - intros m x _ H. left. exact H.
  - intros m Hm. rewrite getn_out by exact Hm. reflexivity.
Qed.

Lemma facts_same_struct h h' o : same_struct h h' -> Facts h h' o.
Proof.
  intros SS. destruct SS as [L F]. assert (SS : same_struct h h') by (split; assumption).
  facts_split.
  - lia.
  - intros m _ Hl. apply (ss_live _ _ SS). exact Hl.
  - intros q m H. left. rewrite (ss_node_at _ _ SS). exact H.
  - intros m x _ H. left. rewrite (ss_subs _ _ SS) in H. exact H.
  - intros m x _ H. left. rewrite (ss_subs _ _ SS). exact H.
  - intros m Hm. rewrite getn_out by lia. reflexivity.
Qed.

Lemma facts_subs_upd h leaf f o :
  keeps_k f -> leaf < length h ->
  (forall x, In x (n_subs (f (getn h leaf))) -> In x (n_subs (getn h leaf)) \/ (is_rem o = false /\ x = osub o /\ node_at h (opath o) = Some leaf)) ->
  (forall x, In x (n_subs (getn h leaf)) -> In x (n_subs (f (getn h leaf))) \/ (is_rem o = true /\ x = osub o /\ node_at h (opath o) = Some leaf)) ->
  Facts h (upd h leaf f) o.
Proof.
  intros Hf Hc Ha Hb. pose proof (upd_same_kids h leaf f Hf) as SK. facts_split.
  - rewrite length_upd. lia.
  - intros m _ Hl. apply (sk_live _ _ SK). exact Hl.
  - intros q m H. left. rewrite (sk_node_at _ _ SK). exact H.
  - intros m x _ H. destruct (Nat.eq_dec leaf m) as [<-|Hne].
    + rewrite getn_upd_same in H by exact Hc. apply Ha. exact H.
    + rewrite getn_upd_other in H by exact Hne. left. exact H.
  - intros m x _ H. destruct (Nat.eq_dec leaf m) as [<-|Hne].
    + rewrite getn_upd_same by exact Hc. apply Hb. exact H.
    + rewrite getn_upd_other by exact Hne. left. exact H.
  - intros m Hm. rewrite getn_out by (rewrite length_upd; exact Hm). reflexivity.
Qed.

Lemma step_facts h o p h' p' :
  HI h o p -> pc_kind o p -> local_step h o p = Some (h', p') -> Facts h h' o.
Proof.
  intros H K Hs. hi_destruct H. destruct p; cbn [local_step] in Hs; try discriminate.
  - (* PInsInc *) inversion Hs; subst. apply facts_same_struct. apply upd_same_struct. apply keeps_kc.
  - (* PInsLoad *) destruct rest as [|l r]; [inversion Hs; subst; apply facts_refl|].
    destruct (kid l (n_kids (getn h cur))) as [c|] eqn:Kd; inversion Hs; subst; [apply facts_refl|].
    cbn [AInv] in HA. pose proof (on_prefix_lt h o cur _ H0 H1 HA) as Hc.
    facts_split.
    + rewrite nc_len by exact Hc. lia.
    + intros m Hm Hl. apply (nc_live_back h cur l H0 H1 Hc Kd m Hm Hl).
    + intros q m Hq. left. apply (nc_walk_old h cur l Hc q 0 m Hq).
    + intros m x Hm Hx. left. rewrite (nc_field h cur l Hc n_subs m) in Hx by (try reflexivity; exact Hm). exact Hx.
    + intros m x Hm Hx. left. rewrite (nc_field h cur l Hc n_subs m) by (try reflexivity; exact Hm). exact Hx.
    + intros m Hm. destruct (Nat.eq_dec m (length h)) as [->|Hne]; [rewrite nc_new by exact Hc; reflexivity|].
      rewrite nc_out by (try exact Hc; lia). reflexivity.
  - (* PInsDec *) inversion Hs; subst. apply facts_same_struct. apply upd_same_struct. apply keeps_kc.
  - (* PInsChk *) destruct (n_rem (getn h c)); inversion Hs; subst; apply facts_refl.
  - (* PInsWait *) destruct (n_wg (getn h c) =? 0)%Z; inversion Hs; subst; apply facts_refl.
  - (* PInsStore *) destruct (has _ (n_subs (getn h leaf))) eqn:Hh; inversion Hs; subst; [apply facts_refl|].
    cbn [AInv pc_kind] in *. assert (Hc : leaf < length h) by (apply (live_lt h leaf H0 H1); exists (opath o); exact HA).
    apply facts_subs_upd; [intros x; repeat split|exact Hc| |].
    + cbn [n_subs with_subs]. intros x Hx. apply in_app_or in Hx. destruct Hx as [Hx|[<-|[]]]; [left; exact Hx|].
      right. split; [exact K|]. split; [destruct o; reflexivity|exact HA].
    + cbn [n_subs with_subs]. intros x Hx. left. apply in_or_app. left. exact Hx.
  - (* PInsCnt *) inversion Hs; subst. apply facts_same_struct. apply upd_same_struct. apply keeps_sc.
  - (* PRemWalk *) destruct rest as [|l r]; [inversion Hs; subst; apply facts_refl|].
    destruct (kid l (n_kids (getn h cur))); inversion Hs; subst; apply facts_refl.
  - (* PRemLoad *) destruct (has _ (n_subs (getn h leaf))); inversion Hs; subst; apply facts_refl.
  - (* PRemDec *) inversion Hs; subst. apply facts_same_struct. apply upd_same_struct. apply keeps_sc.
  - (* PRemDel *) inversion Hs; subst. cbn [AInv pc_kind] in *. destruct HA as [HA _].
    assert (Hc : leaf < length h) by (apply (live_lt h leaf H0 H1); exists (opath o); exact HA).
    apply facts_subs_upd; [intros x; repeat split|exact Hc| |].
    + cbn [n_subs with_subs]. intros x Hx. left. apply in_filter_back in Hx. exact Hx.
    + cbn [n_subs with_subs]. intros x Hx.
      destruct (N.eq_dec x (match o with OpIns _ s => s | OpRem _ s => s end)) as [E|E].
      * right. split; [exact K|]. split; [rewrite E; destruct o; reflexivity|exact HA].
      * left. apply in_filter_other; assumption.
  - (* PClnChk *) destruct (_ && _ && _); inversion Hs; subst; apply facts_refl.
  - (* PClnMark *) inversion Hs; subst. apply facts_same_struct. apply upd_same_struct. apply keeps_mark.
  - (* PClnCb *) inversion Hs; subst. apply facts_refl.
  - (* PClnUnlink *) destruct (n_par (getn h n)) as [q|] eqn:P; inversion Hs; subst; [|apply facts_refl].
    cbn [AInv] in HA. destruct HA as (Hl & Hsu & Hki).
    facts_split.
    + rewrite length_upd. lia.
    + intros m Hm X. apply (ul_live_back h n q H0 H1 Hl Hsu Hki P m X).
    + intros q' m Hq. destruct (Nat.eq_dec m n) as [->|Hne].
      * right. split; [|split; assumption]. intros [pth Hp].
        assert (Hn0 : n <> 0) by (apply (ul_n0 h n q H0 Hl Hsu Hki P)).
        destruct pth as [|y t]; [cbn in Hp; inversion Hp; congruence|].
        destruct (walk_last _ (y :: t) 0 n Hp) as (pre & l' & x & E & W & Kd); [discriminate|].
        pose proof (ul_kid_back h n q H0 H1 Hl Hsu Hki P _ _ _ Kd) as Kd0. destruct (H1 _ _ _ Kd0) as (_ & _ & Px & Lx).
        rewrite P in Px. inversion Px; subst x. rewrite <- Lx in Kd.
        rewrite (ul_kids_q h n q H0 H1 Hl Hsu Hki P) in Kd. rewrite kid_delkid_same in Kd. discriminate.
      * left. apply (ul_walk_keep h n q H0 H1 Hl Hsu Hki P q' 0 m Hq Hne). apply not_eq_sym. apply (ul_n0 h n q H0 Hl Hsu Hki P).
    + intros m x Hm Hx. left. destruct (ul_same_but_kids h n q m) as (_ & _ & S & _). rewrite S in Hx. exact Hx.
    + intros m x Hm Hx. left. destruct (ul_same_but_kids h n q m) as (_ & _ & S & _). rewrite S. exact Hx.
    + intros m Hm. rewrite getn_out by (rewrite length_upd; exact Hm). reflexivity.
  - (* PClnDecP *) destruct (n_par (getn h n)); inversion Hs; subst; [|apply facts_refl].
    apply facts_same_struct. apply upd_same_struct. apply keeps_kc.
  - (* PClnDone *) inversion Hs; subst. apply facts_same_struct. apply upd_same_struct. apply keeps_done.
Qed.

(* ===== part 8 ===== *)

(* ---------- the invariant of configurations ---------- *)
Definition dummy : opk := OpIns [] 0%N.
Definition cur_op (c : cfg) : opk * pc :=
  match lock c with
  | Some j => match nth_error (thr c) j with Some x => x | None => (dummy, PDone) end
  | None => (dummy, PDone)
  end.
Definition GInv (c : cfg) : Prop :=
  locked c = true /\ MutexInv c /\
  HI (hp c) (fst (cur_op c)) (snd (cur_op c)) /\ pc_kind (fst (cur_op c)) (snd (cur_op c)).

Lemma HI_idle h o o' : HI h o PDone -> HI h o' PDone.
Proof. intros H. hi_destruct H. hi_split; try assumption. Qed.

Lemma HI_acquire h o o' : HI h o' PDone -> HI h o (first_pc o).
Proof.
  intros H. hi_destruct H. hi_split; try assumption.
  - intros n. specialize (HCS n). destruct o as [[|l r] s|p s]; cbn in *; lia.
  - intros q. specialize (HCK q). destruct o as [[|l r] s|p s]; cbn in *; lia.
  - destruct o as [[|l r] s|p s]; cbn [first_pc AInv opath].
    + reflexivity.
    + exists []. split; reflexivity.
    + exists []. split; reflexivity.
Qed.

Lemma step_active c i o p : nth_error (thr c) i = Some (o, p) -> active p ->
  step c i = match local_step (hp c) o p with
             | None => c
             | Some (h', p') => mkCfg h' (set_thr (thr c) i p') (if is_done p' && locked c then None else lock c) (locked c)
             end.
Proof. intros Hi [Ha Hb]. unfold step. rewrite Hi. destruct p; try reflexivity; contradiction. Qed.

Lemma active_dec p : {active p} + {p = PStart} + {p = PDone}.
Proof. destruct p; try (left; left; split; discriminate); [left; right|right]; reflexivity. Qed.

Lemma is_done_true p : is_done p = true -> p = PDone.
Proof. destruct p; try discriminate; reflexivity. Qed.

Definition moved (c : cfg) (i : nat) (c' : cfg) : Prop :=
  hp c' = hp c \/ exists o p, nth_error (thr c) i = Some (o, p) /\ p <> PDone /\ Facts (hp c) (hp c') o.

Lemma step_ginv c i : GInv c -> GInv (step c i) /\ moved c i (step c i).
Proof.
  intros HG. assert (HG' := HG). destruct HG' as (HL & HM & HH & HK).
  destruct (nth_error (thr c) i) as [[o p]|] eqn:Hi; [|unfold step; rewrite Hi; split; [exact HG|left; reflexivity]].
  destruct (active_dec p) as [[Ha| ->]| ->].
  - (* the lock holder makes a step *)
    pose proof (HM i o p Hi Ha) as Hlk. rewrite (step_active c i o p Hi Ha).
    assert (Ec : cur_op c = (o, p)) by (unfold cur_op; rewrite Hlk, Hi; reflexivity).
    rewrite Ec in HH, HK. cbn [fst snd] in HH, HK.
    destruct (local_step (hp c) o p) as [[h' p']|] eqn:Hs.
    + pose proof (local_inv _ _ _ _ _ HH Hs) as HH'. pose proof (pc_kind_step _ _ _ _ _ HK Hs) as HK'.
      pose proof (step_facts _ _ _ _ _ HH HK Hs) as HF.
      split.
      * split; [exact HL|]. split.
        { pose proof (step_mutex c i HL HM) as X. rewrite (step_active c i o p Hi Ha), Hs in X. exact X. }
        unfold cur_op. cbn [lock thr hp]. rewrite HL, andb_true_r. destruct (is_done p') eqn:Ed.
        { apply is_done_true in Ed. subst p'. cbn [fst snd]. split; [apply (HI_idle h' o); exact HH'|exact I]. }
        { rewrite Hlk. rewrite (nth_set_thr_same _ _ p' _ _ Hi). cbn [fst snd]. split; assumption. }
      * right. exists o, p. split; [exact Hi|]. split; [destruct Ha as [_ X]; exact X|exact HF].
    + split; [exact HG|left; reflexivity].
  - (* a thread at its start: takes the mutex if it is free *)
    assert (Es : step c i = if lock c then c else mkCfg (hp c) (set_thr (thr c) i (first_pc o)) (Some i) true).
    { unfold step. rewrite Hi, HL. destruct (lock c); reflexivity. }
    destruct (lock c) as [j|] eqn:Hlk.
    + rewrite Es. split; [exact HG|left; reflexivity].
    + split; [|left; rewrite Es; reflexivity].
      split; [rewrite Es; reflexivity|]. split; [apply (step_mutex c i HL HM)|].
      rewrite Es. unfold cur_op. cbn [lock thr hp]. rewrite (nth_set_thr_same _ _ (first_pc o) _ _ Hi). cbn [fst snd].
      unfold cur_op in HH. rewrite Hlk in HH. cbn [fst snd] in HH.
      split; [apply (HI_acquire _ o dummy HH)|apply pc_kind_first].
  - (* finished *)
    assert (Es : step c i = c) by (unfold step; rewrite Hi; reflexivity).
    rewrite Es. split; [exact HG|left; reflexivity].
Qed.

(* threads keep their operation, finished threads stay finished *)
Lemma step_thr c i j o pc' : locked c = true -> nth_error (thr (step c i)) j = Some (o, pc') ->
  exists pc, nth_error (thr c) j = Some (o, pc) /\ (pc = PDone -> pc' = PDone).
Proof.
  intros HL Hj. destruct (nth_error (thr c) i) as [[oi p]|] eqn:Hi;
    [|unfold step in Hj; rewrite Hi in Hj; exists pc'; split; [exact Hj|tauto]].
  assert (Hgen : forall p', nth_error (set_thr (thr c) i p') j = Some (o, pc') ->
                 p <> PDone -> exists pc, nth_error (thr c) j = Some (o, pc) /\ (pc = PDone -> pc' = PDone)).
  { intros p' Hn Hp. destruct (Nat.eq_dec i j) as [->|Hne].
    - rewrite (nth_set_thr_same _ _ p' _ _ Hi) in Hn. inversion Hn; subst. exists p. split; [exact Hi|intros ->; contradiction].
    - rewrite nth_set_thr_other in Hn by exact Hne. exists pc'. split; [exact Hn|tauto]. }
  destruct (active_dec p) as [[Ha| ->]| ->].
  - rewrite (step_active c i oi p Hi Ha) in Hj. destruct (local_step (hp c) oi p) as [[h' p']|].
    + cbn [thr] in Hj. apply (Hgen p' Hj). apply Ha.
    + exists pc'. split; [exact Hj|tauto].
  - unfold step in Hj. rewrite Hi, HL in Hj. destruct (lock c).
    + exists pc'. split; [exact Hj|tauto].
    + cbn [thr] in Hj. apply (Hgen _ Hj). discriminate.
  - unfold step in Hj. rewrite Hi in Hj. exists pc'. split; [exact Hj|tauto].
Qed.

(* no unfinished operation of the given kind on the pair (path, subscriber) *)
Definition NoOp (b : bool) (c : cfg) (p : list N) (s : N) : Prop :=
  forall i o pc, nth_error (thr c) i = Some (o, pc) -> is_rem o = b -> opath o = p -> osub o = s -> pc = PDone.

Lemma NoOp_step b c i p s : locked c = true -> NoOp b c p s -> NoOp b (step c i) p s.
Proof.
  intros HL H j o pc' Hj Hb Hp Hs. destruct (step_thr c i j o pc' HL Hj) as (pc & Hn & Hd).
  apply Hd. apply (H j o pc Hn Hb Hp Hs).
Qed.

(* ===== part 9 ===== *)

Lemma subs_at_some h p s : In s (subs_at h p) -> exists m, node_at h p = Some m /\ In s (n_subs (getn h m)).
Proof. unfold subs_at. destruct (node_at h p) as [m|]; [intros H; exists m; split; [reflexivity|exact H]|intros []]. Qed.

Lemma GInv_T c : GInv c -> T0 (hp c) /\ T1 (hp c) /\ DI (hp c).
Proof. intros (_ & _ & (A & B & C & _) & _). exact (conj A (conj B C)). Qed.

(* ---------- a subscription that nobody removes stays where it is ---------- *)
Lemma stable_present c i p s :
  GInv c -> NoOp true c p s -> In s (subs_at (hp c) p) ->
  In s (subs_at (hp (step c i)) p) /\
  (forall pre rest cur, pre ++ rest = p -> node_at (hp c) pre = Some cur -> node_at (hp (step c i)) pre = Some cur).
Proof.
  intros HG HN Hin. destruct (step_ginv c i HG) as [HG' [Eq|(o & pc & Hi & Hpc & HF)]].
  - rewrite Eq. split; [exact Hin|tauto].
  - destruct (GInv_T c HG) as (H0 & H1 & _).
    destruct (subs_at_some _ _ _ Hin) as (m & Hm & Hs).
    destruct HF as (F1 & F2 & F3 & F4 & F5 & F6).
    assert (Hpre : forall pre rest cur, pre ++ rest = p -> node_at (hp c) pre = Some cur -> node_at (hp (step c i)) pre = Some cur).
    { intros pre rest cur E W. destruct (F3 pre cur W) as [X|(_ & Es & Ek)]; [exact X|exfalso].
      rewrite <- E in Hm. unfold node_at in Hm, W. rewrite walk_app, W in Hm.
      destruct rest as [|l r]; cbn [walk] in Hm.
      - inversion Hm; subst. rewrite Es in Hs. destruct Hs.
      - rewrite Ek in Hm. discriminate. }
    split; [|exact Hpre].
    assert (Hm' : node_at (hp (step c i)) p = Some m) by (apply (Hpre p [] m); [apply app_nil_r|exact Hm]).
    unfold subs_at. rewrite Hm'.
    assert (Hlt : m < length (hp c)) by (apply (live_lt _ m H0 H1); exists p; exact Hm).
    destruct (F5 m s Hlt Hs) as [X|(Hr & Eo & Hn)]; [exact X|exfalso].
    assert (Ep : opath o = p) by (apply (node_at_inj _ H0 H1 _ _ m Hn Hm)).
    apply Hpc. apply (HN i o pc Hi Hr Ep). symmetry. exact Eo.
Qed.

(* ---------- a subscription that nobody inserts stays absent ---------- *)
Lemma stable_absent c i p s :
  GInv c -> NoOp false c p s -> ~ In s (subs_at (hp c) p) -> ~ In s (subs_at (hp (step c i)) p).
Proof.
  intros HG HN Hout Hin. destruct (step_ginv c i HG) as [HG' [Eq|(o & pc & Hi & Hpc & HF)]].
  - rewrite Eq in Hin. contradiction.
  - destruct (GInv_T c HG) as (H0 & H1 & _). destruct (GInv_T _ HG') as (H0' & H1' & _).
    destruct (subs_at_some _ _ _ Hin) as (m & Hm & Hs).
    destruct HF as (F1 & F2 & F3 & F4 & F5 & F6).
    destruct (Nat.lt_ge_cases m (length (hp c))) as [Hlt|Hge]; [|rewrite (F6 m Hge) in Hs; destruct Hs].
    assert (Hl' : live (hp (step c i)) m) by (exists p; exact Hm).
    destruct (F2 m Hlt Hl') as [q Hq].
    assert (Hq' : node_at (hp (step c i)) q = Some m) by (destruct (F3 q m Hq) as [X|(X & _)]; [exact X|contradiction]).
    assert (Eq : q = p) by (apply (node_at_inj _ H0' H1' _ _ m Hq' Hm)). subst q.
    destruct (F4 m s Hlt Hs) as [X|(Hr & Eo & Hn)].
    + apply Hout. unfold subs_at. rewrite Hq. exact X.
    + assert (Ep : opath o = p) by (apply (node_at_inj _ H0 H1 _ _ m Hn Hq)).
      apply Hpc. apply (HN i o pc Hi Hr Ep). symmetry. exact Eo.
Qed.

(* a node that is not reachable never becomes reachable again; a reached node stays reached or dies *)
Lemma dead_stays c i m : GInv c -> m < length (hp c) -> ~ live (hp c) m ->
  m < length (hp (step c i)) /\ ~ live (hp (step c i)) m.
Proof.
  intros HG Hm Hd. destruct (step_ginv c i HG) as [_ [Eq|(o & pc & Hi & Hpc & HF)]].
  - rewrite Eq. tauto.
  - destruct HF as (F1 & F2 & _). split; [lia|]. intros X. apply Hd. apply (F2 m Hm X).
Qed.

Lemma reached_or_dead c i q m : GInv c -> node_at (hp c) q = Some m ->
  m < length (hp (step c i)) /\ (node_at (hp (step c i)) q = Some m \/ ~ live (hp (step c i)) m).
Proof.
  intros HG Hq. destruct (GInv_T c HG) as (H0 & H1 & _).
  assert (Hlt : m < length (hp c)) by (apply (live_lt _ m H0 H1); exists q; exact Hq).
  destruct (step_ginv c i HG) as [_ [Eq|(o & pc & Hi & Hpc & HF)]].
  - rewrite Eq. split; [exact Hlt|left; exact Hq].
  - destruct HF as (F1 & _ & F3 & _). split; [lia|]. destruct (F3 q m Hq) as [X|(X & _)]; [left|right]; exact X.
Qed.

(* ================= the two theorems about a search running beside the writers ================= *)
Definition reader_sees (h : heap) (p : list N) (s : N) (r : rpc) : Prop :=
  match r with
  | RWalk cur rest => exists pre, pre ++ rest = p /\ node_at h pre = Some cur
  | RDone res => In s res
  end.

Theorem search_sees_present p s : forall es c r,
  GInv c -> NoOp true c p s -> In s (subs_at (hp c) p) -> reader_sees (hp c) p s r ->
  let x := run2 (c, r) es in
  GInv (fst x) /\ NoOp true (fst x) p s /\ In s (subs_at (hp (fst x)) p) /\ reader_sees (hp (fst x)) p s (snd x).
Proof.
  induction es as [|e es IH]; intros c r HG HN Hin Hr; cbn [run2 fold_left]; [cbn; tauto|].
  destruct e as [i|]; cbn [step2 fst snd].
  - destruct (stable_present c i p s HG HN Hin) as [Hin' Hpre].
    apply IH; [apply (step_ginv c i HG)|apply NoOp_step; [apply HG|exact HN]|exact Hin'|].
    destruct r as [cur rest|res]; [|exact Hr]. destruct Hr as [pre [E W]]. exists pre. split; [exact E|apply (Hpre pre rest cur E W)].
  - apply IH; try assumption. destruct r as [cur rest|res]; [|exact Hr]. destruct Hr as [pre [E W]].
    destruct (subs_at_some _ _ _ Hin) as (m & Hm & Hs). rewrite <- E in Hm. unfold node_at in Hm, W. rewrite walk_app, W in Hm.
    destruct rest as [|l rest]; cbn [rstep walk] in *.
    + inversion Hm; subst. exact Hs.
    + destruct (kid l (n_kids (getn (hp c) cur))) as [c1|] eqn:K; [|discriminate].
      exists (pre ++ [l]). split; [rewrite <- app_assoc; exact E|]. unfold node_at. rewrite walk_app, W. cbn [walk]. rewrite K. reflexivity.
Qed.

Definition reader_blind (h : heap) (p : list N) (s : N) (r : rpc) : Prop :=
  match r with
  | RWalk cur rest => cur < length h /\ ((exists pre, pre ++ rest = p /\ node_at h pre = Some cur) \/ ~ live h cur)
  | RDone res => ~ In s res
  end.

Theorem search_misses_absent p s : forall es c r,
  GInv c -> NoOp false c p s -> ~ In s (subs_at (hp c) p) -> reader_blind (hp c) p s r ->
  let x := run2 (c, r) es in
  GInv (fst x) /\ NoOp false (fst x) p s /\ ~ In s (subs_at (hp (fst x)) p) /\ reader_blind (hp (fst x)) p s (snd x).
Proof.
  induction es as [|e es IH]; intros c r HG HN Hout Hr; cbn [run2 fold_left]; [cbn; tauto|].
  destruct e as [i|]; cbn [step2 fst snd].
  - apply IH; [apply (step_ginv c i HG)|apply NoOp_step; [apply HG|exact HN]|apply stable_absent; assumption|].
    destruct r as [cur rest|res]; [|exact Hr]. destruct Hr as [Hlt [[pre [E W]]|Hd]].
    + destruct (reached_or_dead c i pre cur HG W) as [L [X|X]]; (split; [exact L|]); [left; exists pre; tauto|right; exact X].
    + destruct (dead_stays c i cur HG Hlt Hd) as [L X]. split; [exact L|right; exact X].
  - apply IH; try assumption. destruct r as [cur rest|res]; [|exact Hr]. destruct Hr as [Hlt Hc].
    destruct (GInv_T c HG) as (H0 & H1 & HD).
    destruct rest as [|l rest]; cbn [rstep reader_blind].
    + destruct Hc as [[pre [E W]]|Hd].
      * rewrite app_nil_r in E. subst pre. intros X. apply Hout. unfold subs_at. rewrite W. exact X.
      * rewrite (proj1 (HD cur Hlt Hd)). intros [].
    + destruct (kid l (n_kids (getn (hp c) cur))) as [c1|] eqn:K; [|intros []].
      split; [apply (H1 _ _ _ K)|]. destruct Hc as [[pre [E W]]|Hd].
      * left. exists (pre ++ [l]). split; [rewrite <- app_assoc; exact E|]. unfold node_at in *. rewrite walk_app, W. cbn [walk]. rewrite K. reflexivity.
      * rewrite (proj2 (HD cur Hlt Hd)) in K. discriminate.
Qed.

(* the starting configuration *)
Lemma HI_heap0 : HI heap0 dummy PDone.
Proof.
  hi_split.
  - split; [cbn; lia|reflexivity].
  - intros q l c K. destruct q as [|[|q]]; cbn in K; discriminate.
  - intros n Hn Hd. exfalso. apply Hd. cbn in Hn. assert (n = 0) by lia. subst. apply live_root.
  - intros n. destruct n as [|[|n]]; cbn; lia.
  - intros q. destruct q as [|[|q]]; cbn; lia.
  - exact I.
Qed.

Lemma GInv_start ops : GInv (start true heap0 ops).
Proof.
  split; [reflexivity|]. split; [apply start_mutex|]. unfold cur_op. cbn [lock start fst snd]. split; [exact HI_heap0|exact I].
Qed.

Lemma GInv_run sched : forall c, GInv c -> GInv (run c sched).
Proof. induction sched as [|i r IH]; intros c H; cbn [run fold_left]; [exact H|]. apply IH. apply (step_ginv c i H). Qed.

Lemma find_walk h : forall fuel p cur, length p < fuel ->
  find fuel h cur p = match walk h cur p with Some n => n_subs (getn h n) | None => [] end.
Proof.
  induction fuel as [|f IH]; intros p cur Hl; [lia|].
  destruct p as [|l r]; cbn [find walk]; [reflexivity|].
  destruct (kid l (n_kids (getn h cur))) as [c1|]; [|reflexivity]. apply IH. cbn [length] in Hl. lia.
Qed.

Lemma receivers_subs_at c p : receivers c p = subs_at (hp c) p.
Proof. unfold receivers, subs_at, node_at. apply find_walk. lia. Qed.

