From Coq Require Import List NArith Bool Lia.
Import ListNotations.
From VMQ Require Import model.Trie model.Deliver.
Open Scope N_scope.

(* ---------------- specification, written from the property text ---------------- *)
Definition eligible (self : bool) (sp : sparams) : bool := negb (sp_nl sp && self).

(* one copy per matching subscription *)
Definition spec_each (self : bool) (subs : list sparams) (pq : N) (pr : bool) : list delivery :=
  map (fun sp => mkD (N.min pq (sp_qos sp)) (sp_rap sp && pr) false (ids_of sp)) (filter (eligible self) subs).

Lemma each_is_spec self subs pq pr :
  deliveries false self subs pq pr = spec_each self subs pq pr.
Proof.
  unfold deliveries, spec_each, collect_each. induction subs as [|sp r IH]; [reflexivity|].
  cbn [flat_map filter map]. unfold eligible at 1. destruct (sp_nl sp && self); cbn [negb app map]; [exact IH|].
  f_equal. exact IH.
Qed.

(* overlap option: exactly one copy, at the highest granted QoS (capped by the published QoS), with
   exactly the identifiers of the matching subscriptions — stated for sessions whose matching
   subscriptions agree on No-Local and Retain-As-Published (with mixed options the property text
   itself does not say which subscription's options the single copy should follow) *)
Definition max_qos (subs : list sparams) : N := fold_right (fun sp a => N.max (sp_qos sp) a) 0 subs.
Definition all_ids (subs : list sparams) : list N := flat_map ids_of subs.
Definition uniform (subs : list sparams) : Prop :=
  forall a b, In a subs -> In b subs -> sp_nl a = sp_nl b /\ sp_rap a = sp_rap b.

Lemma merge_some self subs e :
  collect_merge self subs (Some e) =
  Some (mkE (e_rap e) (N.max (e_qos e) (max_qos subs)) (e_ids e ++ all_ids subs)).
Proof.
  revert e. induction subs as [|sp r IH]; intros e; cbn [collect_merge max_qos all_ids fold_right flat_map].
  - rewrite N.max_0_r, app_nil_r. destruct e; reflexivity.
  - rewrite IH. cbn [e_rap e_qos e_ids]. rewrite N.max_assoc, app_assoc. reflexivity.
Qed.

Lemma merge_is_spec self subs pq pr : uniform subs ->
  deliveries true self subs pq pr =
  match subs with
  | [] => []
  | sp :: _ => if sp_nl sp && self then []
               else [mkD (N.min pq (max_qos subs)) (sp_rap sp && pr) false (all_ids subs)]
  end.
Proof.
  intros Hu. unfold deliveries. destruct subs as [|sp r]; [reflexivity|]. cbn [collect_merge].
  destruct (sp_nl sp && self) eqn:E.
  - (* every subscription is No-Local and the publish is the session's own: nothing is sent *)
    assert (forall l, (forall x, In x l -> sp_nl x = sp_nl sp) -> collect_merge self l None = None) as Hn.
    { induction l as [|x l IH]; intros Hl; [reflexivity|]. cbn [collect_merge]. rewrite (Hl x (or_introl eq_refl)), E.
      apply IH. intros y Hy. apply Hl. right. exact Hy. }
    rewrite Hn; [reflexivity|]. intros x Hx. destruct (Hu x sp (or_intror Hx) (or_introl eq_refl)) as [H _]. exact H.
  - rewrite merge_some. cbn [to_delivery e_rap e_qos e_ids max_qos all_ids fold_right flat_map d_qos]. reflexivity.
Qed.

(* ---------------- all protocol version pairs ---------------- *)
(* nothing in [deliveries] depends on the protocol versions: the copy is computed from QoS, flags and
   identifiers only (the version only decides whether identifiers can be encoded) *)

(* QoS never exceeds what was published nor what was granted *)
Lemma qos_is_min overlap self subs pq pr d :
  In d (deliveries overlap self subs pq pr) -> d_qos d <= pq /\ d_dup d = false.
Proof.
  unfold deliveries. destruct overlap.
  - destruct (collect_merge self subs None) as [e|]; [|intros []]. intros [<-|[]]. cbn. split; [lia|reflexivity].
  - intros H. apply in_map_iff in H. destruct H as [e [<- _]]. cbn. split; [lia|reflexivity].
Qed.
