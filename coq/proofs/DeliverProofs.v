From Coq Require Import List NArith Bool Lia.
Import ListNotations.
From VMQ Require Import model.Trie model.Deliver.
Open Scope N_scope.

(* ---------------- specification, written from the property text ---------------- *)
Definition eligible (self : bool) (sp : sparams) : bool := negb (sp_nl sp && self).

(* one copy per matching subscription *)
Definition spec_each (self : bool) (subs : list sparams) (pq : N) (pr : bool) : list delivery :=
  map (fun sp => mkD (N.min pq (sp_qos sp)) (sp_rap sp && pr) false (ids_of sp)) (filter (eligible self) subs).

Lemma each_is_spec self subs pq pr :
  deliveries false self subs pq pr = spec_each self subs pq pr.
Proof.
  unfold deliveries, spec_each, collect_each. induction subs as [|sp r IH]; [reflexivity|].
  cbn [flat_map filter map]. unfold eligible at 1. destruct (sp_nl sp && self); cbn [negb app map]; [exact IH|].
  f_equal. exact IH.
Qed.

(* overlap option: exactly one copy, at the highest granted QoS (capped by the published QoS), with exactly the
   identifiers of the matching subscriptions - those that are not (No-Local and own publish): a No-Local subscription
   takes no part in the copy of its own session's publish, wherever the walk meets it. Retain-As-Published is that of
   the first of them in walk order (the property text does not say whose it should be when they differ; [uniform_rap]
   states the order-independent case) *)
Definition max_qos (subs : list sparams) : N := fold_right (fun sp a => N.max (sp_qos sp) a) 0 subs.
Definition all_ids (subs : list sparams) : list N := flat_map ids_of subs.
Definition uniform_rap (subs : list sparams) : Prop :=
  forall a b, In a subs -> In b subs -> sp_rap a = sp_rap b.

Lemma merge_filter self subs : forall cur,
  collect_merge self subs cur = collect_merge false (filter (eligible self) subs) cur.
Proof.
  induction subs as [|sp r IH]; intros cur; [reflexivity|]. cbn [collect_merge filter]. unfold eligible at 1.
  destruct (sp_nl sp && self) eqn:E; cbn [negb].
  - apply IH.
  - cbn [collect_merge]. rewrite andb_false_r. destruct cur; apply IH.
Qed.

Lemma merge_some subs e :
  collect_merge false subs (Some e) =
  Some (mkE (e_rap e) (N.max (e_qos e) (max_qos subs)) (e_ids e ++ all_ids subs)).
Proof.
  revert e. induction subs as [|sp r IH]; intros e; cbn [collect_merge max_qos all_ids fold_right flat_map].
  - rewrite N.max_0_r, app_nil_r. destruct e; reflexivity.
  - rewrite andb_false_r, IH. cbn [e_rap e_qos e_ids]. rewrite N.max_assoc, app_assoc. reflexivity.
Qed.

Lemma merge_is_spec self subs pq pr :
  deliveries true self subs pq pr =
  match filter (eligible self) subs with
  | [] => []
  | (sp :: _) as el => [mkD (N.min pq (max_qos el)) (sp_rap sp && pr) false (all_ids el)]
  end.
Proof.
  unfold deliveries. rewrite merge_filter. destruct (filter (eligible self) subs) as [|sp r]; [reflexivity|].
  cbn [collect_merge]. rewrite andb_false_r, merge_some.
  cbn [to_delivery e_rap e_qos e_ids max_qos all_ids fold_right flat_map d_qos]. reflexivity.
Qed.

(* ... and with one Retain-As-Published among them the copy does not depend on the order of the walk *)
Lemma merge_rap_any self subs pq pr sp d : uniform_rap subs -> In sp subs ->
  In d (deliveries true self subs pq pr) -> d_retain d = (sp_rap sp && pr).
Proof.
  intros Hu Hin. rewrite merge_is_spec. destruct (filter (eligible self) subs) as [|x r] eqn:E; [intros []|].
  intros [<-|[]]. cbn [d_retain]. f_equal. apply Hu; [|exact Hin].
  assert (In x (filter (eligible self) subs)) as Hx by (rewrite E; left; reflexivity).
  apply filter_In in Hx. exact (proj1 Hx).
Qed.

(* the merge as it was let a No-Local subscription into the copy of the session's own publish *)
Lemma merge_old_refuted :
  exists a b, sp_nl b = true /\
    collect_merge_old true [a; b] None = Some (mkE (sp_rap a) (N.max (sp_qos a) (sp_qos b)) (ids_of a ++ ids_of b))
    /\ (sp_qos a <? sp_qos b) = true.
Proof.
  exists (mkSP 0 false false 0 2), (mkSP 2 true false 0 1). vm_compute. repeat split; reflexivity.
Qed.

(* ---------------- all protocol version pairs ---------------- *)
(* nothing in [deliveries] depends on the protocol versions: the copy is computed from QoS, flags and
   identifiers only (the version only decides whether identifiers can be encoded) *)

(* QoS never exceeds what was published nor what was granted *)
Lemma qos_is_min overlap self subs pq pr d :
  In d (deliveries overlap self subs pq pr) -> d_qos d <= pq /\ d_dup d = false.
Proof.
  unfold deliveries. destruct overlap.
  - destruct (collect_merge self subs None) as [e|]; [|intros []]. intros [<-|[]]. cbn. split; [lia|reflexivity].
  - intros H. apply in_map_iff in H. destruct H as [e [<- _]]. cbn. split; [lia|reflexivity].
Qed.
