From Coq Require Import List Arith ZArith Bool Lia.
Import ListNotations.
From VMQ Require Import gen.Extracted model.Queue.
Local Open Scope nat_scope.

Section P.
  Context {A : Type}.
  Variable nilv : A.
  Notation upd := (@upd A).
  Notation rot := (@rot A).
  Notation queue := (@queue A).

  (* ---------------- upd ---------------- *)
  Lemma upd_length i v (l : list A) : length (upd i v l) = length l.
  Proof. revert i; induction l as [|y r IH]; intros [|i]; cbn [Queue.upd length]; auto. Qed.

  Lemma upd_app_l i v (a b : list A) : i < length a -> upd i v (a ++ b) = upd i v a ++ b.
  Proof.
    revert i; induction a as [|y r IH]; intros i Hi; cbn [length] in Hi; [lia|].
    destruct i; cbn [Queue.upd app]; [reflexivity|]. f_equal. apply IH. lia.
  Qed.

  Lemma upd_app_r i v (a b : list A) : length a <= i -> upd i v (a ++ b) = a ++ upd (i - length a) v b.
  Proof.
    revert i; induction a as [|y r IH]; intros i Hi; cbn [length app] in *; [rewrite Nat.sub_0_r; reflexivity|].
    destruct i; [lia|]. cbn [Queue.upd]. cbn [Nat.sub]. f_equal. apply IH. lia.
  Qed.

  Lemma skipn_upd_ge h j v (l : list A) : h <= j -> skipn h (upd j v l) = upd (j - h) v (skipn h l).
  Proof.
    revert h j; induction l as [|y r IH]; intros h j Hh.
    - destruct h; destruct j; cbn; try reflexivity; destruct (j - h); reflexivity.
    - destruct h; [rewrite Nat.sub_0_r; reflexivity|]. destruct j; [lia|].
      cbn [Queue.upd skipn Nat.sub]. apply IH. lia.
  Qed.

  Lemma skipn_upd_lt h j v (l : list A) : j < h -> skipn h (upd j v l) = skipn h l.
  Proof.
    revert h j; induction l as [|y r IH]; intros h j Hh; [destruct h, j; reflexivity|].
    destruct h; [lia|]. destruct j; cbn [Queue.upd skipn]; [reflexivity|]. apply IH. lia.
  Qed.

  Lemma firstn_upd_ge h j v (l : list A) : h <= j -> firstn h (upd j v l) = firstn h l.
  Proof.
    revert h j; induction l as [|y r IH]; intros h j Hh; [destruct h, j; reflexivity|].
    destruct h; [reflexivity|]. destruct j; [lia|]. cbn [Queue.upd firstn]. f_equal. apply IH. lia.
  Qed.

  Lemma firstn_upd_lt h j v (l : list A) : j < h -> firstn h (upd j v l) = upd j v (firstn h l).
  Proof.
    revert h j; induction l as [|y r IH]; intros h j Hh; [destruct h, j; reflexivity|].
    destruct h; [lia|]. destruct j; cbn [Queue.upd firstn]; [reflexivity|]. f_equal. apply IH. lia.
  Qed.

  Lemma nth_upd_same i v (l : list A) d : i < length l -> nth i (upd i v l) d = v.
  Proof. revert i; induction l as [|y r IH]; intros [|i] Hi; cbn [length Queue.upd nth] in *; try lia; auto. apply IH. lia. Qed.

  Lemma firstn_snoc_upd c v (m : list A) : c < length m -> firstn (S c) (upd c v m) = firstn c m ++ [v].
  Proof.
    revert c; induction m as [|y r IH]; intros c Hc; cbn [length] in Hc; [lia|].
    destruct c; cbn [Queue.upd firstn app]; [reflexivity|]. f_equal. apply IH. lia.
  Qed.

  Lemma nth_skipn' h i (l : list A) d : nth i (skipn h l) d = nth (h + i) l d.
  Proof. revert l; induction h as [|h IH]; intros l; [reflexivity|]. destruct l; [destruct i; reflexivity|]. cbn [skipn plus nth]. apply IH. Qed.

  Lemma nth_firstn' h i (l : list A) d : i < h -> nth i (firstn h l) d = nth i l d.
  Proof.
    revert i l; induction h as [|h IH]; intros i l Hi; [lia|]. destruct l; [destruct i; reflexivity|].
    destruct i; [reflexivity|]. cbn [firstn nth]. apply IH. lia.
  Qed.

  (* ---------------- modular arithmetic on indices ---------------- *)
  Lemma mod_wrap a n : n <= a -> a < 2 * n -> a mod n = a - n.
  Proof. intros H1 H2. symmetry. apply (Nat.mod_unique a n 1 (a - n)); lia. Qed.

  Lemma mask_mod k x : Nat.land x (2 ^ k - 1) = x mod 2 ^ k.
  Proof. rewrite <- Nat.land_ones. f_equal. rewrite Nat.ones_equiv. lia. Qed.

  (* ---------------- rot ---------------- *)
  Lemma rot_length h (l : list A) : length (rot h l) = length l.
  Proof.
    unfold Queue.rot. rewrite app_length, skipn_length, firstn_length. lia.
  Qed.

  (* writing cell (h+i) mod n of the buffer is writing position i of the rotated view *)
  Lemma rot_upd h i v (l : list A) : h < length l -> i < length l ->
    rot h (upd ((h + i) mod length l) v l) = upd i v (rot h l).
  Proof.
    intros Hh Hi. unfold Queue.rot. set (n := length l) in *.
    destruct (Nat.lt_ge_cases (h + i) n) as [Hlt|Hge].
    - rewrite Nat.mod_small by exact Hlt.
      rewrite skipn_upd_ge, firstn_upd_ge by lia.
      rewrite upd_app_l by (rewrite skipn_length; fold n; lia). f_equal. f_equal. lia.
    - rewrite mod_wrap by lia.
      rewrite skipn_upd_lt, firstn_upd_lt by lia.
      rewrite upd_app_r by (rewrite skipn_length; fold n; lia). rewrite skipn_length. fold n. f_equal. f_equal. lia.
  Qed.

  Lemma nth_rot h i (l : list A) d : h < length l -> i < length l ->
    nth i (rot h l) d = nth ((h + i) mod length l) l d.
  Proof.
    intros Hh Hi. unfold Queue.rot. set (n := length l) in *.
    destruct (Nat.lt_ge_cases (h + i) n) as [Hlt|Hge].
    - rewrite Nat.mod_small by exact Hlt. rewrite app_nth1 by (rewrite skipn_length; fold n; lia).
      rewrite nth_skipn'. reflexivity.
    - rewrite mod_wrap by lia. rewrite app_nth2 by (rewrite skipn_length; fold n; lia).
      rewrite skipn_length. fold n. rewrite nth_firstn' by lia. f_equal. lia.
  Qed.

  Lemma skipn_cons_nth h (l : list A) d : h < length l -> skipn h l = nth h l d :: skipn (S h) l.
  Proof.
    revert h. induction l as [|y r IH]; intros h Hh; cbn [length] in Hh; [lia|].
    destruct h; [reflexivity|]. cbn [skipn nth]. apply IH. lia.
  Qed.

  Lemma firstn_succ_nth h (l : list A) d : h < length l -> firstn (S h) l = firstn h l ++ [nth h l d].
  Proof.
    revert h. induction l as [|y r IH]; intros h Hh; cbn [length] in Hh; [lia|].
    destruct h; [reflexivity|]. cbn [firstn nth app]. f_equal. apply IH. lia.
  Qed.

  (* advancing the head by one (mod n) rotates the view by one *)
  Lemma rot_succ h (l : list A) : h < length l ->
    rot ((h + 1) mod length l) l = tl (rot h l) ++ firstn 1 (rot h l).
  Proof.
    intros Hh. unfold Queue.rot. rewrite (skipn_cons_nth h l nilv Hh). cbn [tl app firstn].
    destruct (Nat.lt_ge_cases (h + 1) (length l)) as [Hlt|Hge].
    - rewrite Nat.mod_small by exact Hlt. replace (h + 1) with (S h) by lia.
      rewrite <- app_assoc. f_equal. apply firstn_succ_nth. exact Hh.
    - assert (h + 1 = length l) as Hn by lia. rewrite Hn, Nat.mod_same by lia.
      rewrite (skipn_all2 (n := S h)) by lia. cbn [skipn firstn app]. rewrite app_nil_r.
      rewrite <- (firstn_succ_nth h l nilv Hh). symmetry. apply firstn_all2. lia.
  Qed.

  (* ---------------- the invariant ---------------- *)
  Definition QInv (q : queue) : Prop :=
    exists k, 4 <= k /\ cap q = 2 ^ k /\ head q < cap q /\ count q <= cap q /\
              tail q = (head q + count q) mod cap q.

  Lemma min_len_16 : min_len = 16.
  Proof. reflexivity. Qed.

  Lemma pow2_ge16 k : 4 <= k -> 16 <= 2 ^ k.
  Proof. intros H. replace 16 with (2 ^ 4) by reflexivity. apply Nat.pow_le_mono_r; lia. Qed.

  Lemma abs_length q : QInv q -> length (abs q) = count q.
  Proof.
    intros [k [Hk [Hc [Hh [Hn Ht]]]]]. unfold Queue.abs. rewrite firstn_length, rot_length. unfold cap in *. lia.
  Qed.

  Lemma new_inv : QInv (new_queue nilv) /\ abs (new_queue nilv) = [].
  Proof.
    split; [|reflexivity]. exists 4. unfold new_queue, cap. cbn [buf head tail count]. rewrite repeat_length, min_len_16.
    repeat split; try lia; try reflexivity.
  Qed.

  (* resize keeps the contents; the new buffer has 2*count cells, head 0, tail count *)
  Lemma resize_abs q : QInv q -> 0 < count q ->
    abs (resize nilv q) = abs q /\ cap (resize nilv q) = 2 * count q /\
    head (resize nilv q) = 0 /\ tail (resize nilv q) = count q /\ count (resize nilv q) = count q.
  Proof.
    intros [k [Hk [Hc [Hh [Hn Ht]]]]] Hpos. unfold cap in *. set (n := length (buf q)) in *.
    assert ((if head q <? tail q then firstn (tail q - head q) (skipn (head q) (buf q))
             else skipn (head q) (buf q) ++ firstn (tail q) (buf q)) = abs q) as Hlive.
    { unfold Queue.abs, Queue.rot. destruct (Nat.lt_ge_cases (head q + count q) n) as [Hlt|Hge].
      - rewrite Nat.mod_small in Ht by exact Hlt. assert (head q <? tail q = true) as -> by (apply Nat.ltb_lt; lia).
        rewrite firstn_app, skipn_length. fold n. replace (count q - (n - head q)) with 0 by lia.
        cbn [firstn]. rewrite app_nil_r. f_equal. lia.
      - rewrite mod_wrap in Ht by lia. assert (head q <? tail q = false) as -> by (apply Nat.ltb_ge; lia).
        rewrite firstn_app, skipn_length. fold n.
        rewrite (@firstn_all2 A (count q) (skipn (head q) (buf q))) by (rewrite skipn_length; fold n; lia).
        f_equal. rewrite firstn_firstn. f_equal. lia. }
    unfold Queue.resize. rewrite Hlive. cbn [buf head tail count]. unfold Queue.abs at 1. cbn [buf head count]. unfold Queue.rot at 1.
    cbn [skipn firstn]. rewrite app_nil_r.
    assert (length (abs q) = count q) as Hl by (apply abs_length; exists k; unfold cap; fold n; auto).
    repeat split.
    - rewrite firstn_firstn. replace (Nat.min (count q) (2 * count q)) with (count q) by lia.
      rewrite firstn_app, Hl. replace (count q - count q) with 0 by lia. cbn [firstn]. rewrite app_nil_r.
      apply firstn_all2. lia.
    - unfold cap. cbn [buf]. rewrite firstn_length, app_length, repeat_length. lia.
  Qed.

  Lemma add_refines q x : QInv q -> QInv (add nilv q x) /\ abs (add nilv q x) = abs q ++ [x].
  Proof.
    intros Hinv. unfold Queue.add.
    (* after the optional resize: an invariant state with room for one more element *)
    assert (exists q1, (if count q =? cap q then resize nilv q else q) = q1 /\ QInv q1 /\ abs q1 = abs q /\
                       count q1 = count q /\ count q1 < cap q1) as [q1 [-> [Hinv1 [Habs1 [Hc1 Hroom]]]]].
    { destruct (count q =? cap q) eqn:E.
      - apply Nat.eqb_eq in E. destruct Hinv as [k [Hk [Hc [Hh [Hn Ht]]]]].
        assert (0 < count q) as Hpos by (pose proof (pow2_ge16 k Hk); lia).
        destruct (resize_abs q (ex_intro _ k (conj Hk (conj Hc (conj Hh (conj Hn Ht))))) Hpos) as [Ha [Hcap [Hhd [Htl Hcnt]]]].
        exists (resize nilv q). split; [reflexivity|]. split; [|split; [exact Ha|split; [exact Hcnt|lia]]].
        exists (S k). rewrite Hcap, Hhd, Htl, Hcnt. rewrite E, Hc. cbn [Nat.pow]. repeat split; try lia.
        rewrite Nat.mod_small; lia.
      - apply Nat.eqb_neq in E. exists q. split; [reflexivity|]. split; [exact Hinv|]. split; [reflexivity|]. split; [reflexivity|].
        destruct Hinv as [k [_ [_ [_ [Hn _]]]]]. lia. }
    destruct Hinv1 as [k [Hk [Hc [Hh [Hn Ht]]]]]. unfold cap in *.
    split.
    - exists k. unfold cap, mask, cap. cbn [buf head tail count]. rewrite upd_length, Hc, mask_mod. rewrite <- Hc.
      repeat split; try lia. rewrite Ht. rewrite Nat.add_mod_idemp_l by lia. f_equal. lia.
    - rewrite <- Habs1. unfold Queue.abs. cbn [buf head count]. rewrite Ht.
      rewrite rot_upd by lia. replace (count q1 + 1) with (S (count q1)) by lia.
      apply firstn_snoc_upd. rewrite rot_length. lia.
  Qed.

  Lemma firstn_tl_snoc c (m : list A) v : 1 <= c -> c <= length m ->
    firstn (c - 1) (tl m ++ v) = tl (firstn c m).
  Proof.
    intros H1 H2. destruct m as [|y r]; cbn [length] in H2; [lia|]. destruct c; [lia|].
    cbn [tl firstn Nat.sub]. rewrite Nat.sub_0_r. rewrite firstn_app. replace (c - length r) with 0 by lia.
    cbn [firstn]. apply app_nil_r.
  Qed.

  Lemma remove_refines q : QInv q ->
    match remove nilv q with
    | (None, q') => count q = 0 /\ q' = q /\ abs q = []
    | (Some x, q') => QInv q' /\ abs q = x :: abs q'
    end.
  Proof.
    intros Hinv. unfold Queue.remove. destruct (count q =? 0) eqn:E0.
    - apply Nat.eqb_eq in E0. repeat split; try assumption. unfold Queue.abs. rewrite E0. reflexivity.
    - apply Nat.eqb_neq in E0. pose proof Hinv as [k [Hk [Hc [Hh [Hn Ht]]]]]. unfold cap in *.
      set (q1 := mkQ (upd (head q) nilv (buf q)) (mask q (head q + 1)) (tail q) (count q - 1)).
      assert (QInv q1 /\ abs q = nth (head q) (buf q) nilv :: abs q1) as [Hinv1 Habs1].
      { split.
        - exists k. unfold q1, cap, mask, cap. cbn [buf head tail count]. rewrite upd_length, Hc, mask_mod. rewrite <- Hc.
          repeat split; try lia; [apply Nat.mod_upper_bound; lia|].
          rewrite Ht, Nat.add_mod_idemp_l by lia. f_equal. lia.
        - unfold q1, Queue.abs, mask, cap. cbn [buf head count]. rewrite Hc, mask_mod, <- Hc.
          rewrite <- (upd_length (head q) nilv (buf q)) at 1.
          rewrite rot_succ by (rewrite upd_length; lia).
          assert (rot (head q) (upd (head q) nilv (buf q)) = upd 0 nilv (rot (head q) (buf q))) as Hru.
          { pose proof (rot_upd (head q) 0 nilv (buf q)) as H. rewrite Nat.add_0_r, Nat.mod_small in H by lia. apply H; lia. }
          rewrite Hru.
          rewrite firstn_tl_snoc by (rewrite ?upd_length, ?rot_length; lia).
          assert (rot (head q) (buf q) = nth (head q) (buf q) nilv :: tl (rot (head q) (buf q))) as Hr.
          { unfold Queue.rot. rewrite (skipn_cons_nth (head q) (buf q) nilv) by lia. reflexivity. }
          rewrite Hr at 1. destruct (count q) as [|c]; [lia|]. cbn [firstn]. f_equal.
          rewrite Hr. cbn [Queue.upd firstn tl]. reflexivity. }
      fold q1.
      destruct (min_len <? length (buf q1)) eqn:Em; cbn [andb]; [|split; assumption].
      destruct (4 * count q1 =? length (buf q1)) eqn:E4; [|split; assumption].
      apply Nat.ltb_lt in Em. apply Nat.eqb_eq in E4. rewrite min_len_16 in Em.
      destruct Hinv1 as [k1 [Hk1 [Hc1 [Hh1 [Hn1 Ht1]]]]]. unfold cap in Hc1, Hh1, Hn1, Ht1.
      assert (0 < count q1) as Hpos by lia.
      destruct (resize_abs q1 (ex_intro _ k1 (conj Hk1 (conj Hc1 (conj Hh1 (conj Hn1 Ht1))))) Hpos) as [Ha [Hcap [Hhd [Htl Hcnt]]]].
      split; [|rewrite Ha; exact Habs1].
      (* 4*count = 2^k1 > 16, so 2*count = 2^(k1-1) with k1-1 >= 4 *)
      assert (5 <= k1) as Hk5.
      { destruct (Nat.le_gt_cases 5 k1) as [H|H]; [exact H|]. exfalso. assert (k1 = 4) as -> by lia. change (2 ^ 4) with 16 in Hc1. lia. }
      exists (k1 - 1). rewrite Hcap, Hhd, Htl, Hcnt.
      assert (2 ^ k1 = 2 * 2 ^ (k1 - 1)) as Hp by (replace k1 with (S (k1 - 1)) at 1 by lia; reflexivity).
      repeat split; try lia. rewrite Nat.mod_small; lia.
  Qed.

  Lemma peek_refines q : QInv q -> peek nilv q = match abs q with [] => None | x :: _ => Some x end.
  Proof.
    intros [k [Hk [Hc [Hh [Hn Ht]]]]]. unfold Queue.peek, Queue.abs, cap in *. destruct (count q) as [|c]; [reflexivity|].
    cbn [Nat.eqb]. unfold Queue.rot. rewrite (skipn_cons_nth (head q) (buf q) nilv) by lia. reflexivity.
  Qed.

  Lemma get_refines q i : QInv q -> i < count q -> nth (mask q (head q + i)) (buf q) nilv = nth i (abs q) nilv.
  Proof.
    intros [k [Hk [Hc [Hh [Hn Ht]]]]] Hi. unfold mask, Queue.abs. rewrite Hc, mask_mod, <- Hc. unfold cap in *.
    rewrite nth_firstn' by exact Hi. rewrite nth_rot by lia. reflexivity.
  Qed.

  (* ---------------- refinement of every operation sequence ---------------- *)
  Lemma step_refines q o : QInv q ->
    QInv (fst (step nilv q o)) /\ abs (fst (step nilv q o)) = fst (spec_step nilv (abs q) o) /\
    snd (step nilv q o) = snd (spec_step nilv (abs q) o).
  Proof.
    intros Hinv. destruct o as [x| | | |i]; cbn [step spec_step fst snd].
    - destruct (add_refines q x Hinv) as [Ha Hb]. auto.
    - pose proof (remove_refines q Hinv) as Hr. destruct (remove nilv q) as [[x|] q'].
      + destruct Hr as [Ha Hb]. rewrite Hb. cbn [fst snd]. auto.
      + destruct Hr as [Ha [-> Hc]]. rewrite Hc. cbn [fst snd]. auto.
    - rewrite (peek_refines q Hinv). destruct (abs q); auto.
    - rewrite (abs_length q Hinv). auto.
    - split; [exact Hinv|]. split; [reflexivity|]. unfold Queue.get. rewrite (abs_length q Hinv).
      set (i' := if (i <? 0)%Z then (i + Z.of_nat (count q))%Z else i).
      destruct ((i' <? 0) || (Z.of_nat (count q) <=? i'))%Z eqn:E; [reflexivity|].
      apply orb_false_iff in E. destruct E as [E1 E2]. apply Z.ltb_ge in E1. apply Z.leb_gt in E2.
      f_equal. apply get_refines; [exact Hinv|lia].
  Qed.

  Theorem queue_refines_list os : forall q, QInv q ->
    snd (run nilv q os) = snd (spec_run nilv (abs q) os) /\
    QInv (fst (run nilv q os)) /\ abs (fst (run nilv q os)) = fst (spec_run nilv (abs q) os).
  Proof.
    induction os as [|o r IH]; intros q Hinv; cbn [run spec_run]; [auto|].
    destruct (step_refines q o Hinv) as [H1 [H2 H3]].
    destruct (step nilv q o) as [q1 x] eqn:Es. destruct (spec_step nilv (abs q) o) as [l1 y] eqn:Ess.
    cbn [fst snd] in *. subst.
    destruct (IH q1 H1) as [D [E F]].
    destruct (run nilv q1 r) as [q2 xs]. destruct (spec_run nilv (abs q1) r) as [l2 ys]. cbn [fst snd] in *.
    subst. auto.
  Qed.
End P.
