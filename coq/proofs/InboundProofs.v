From Coq Require Import List NArith ZArith Bool Lia.
Import ListNotations.
From VMQ Require Import model.Inbound.
Open Scope N_scope.

(* ---------- invariant: ids in pin are unique; quota + unreleased = RM ---------- *)
Definition Inv (rm : Z) (s : inb) : Prop :=
  NoDup (map fst (pin s)) /\ (rxq s + Z.of_nat (length (pin s)) = rm)%Z /\ (0 <= rxq s)%Z.

Lemma pin_has_in id s : pin_has id s = true <-> In id (map fst (pin s)).
Proof.
  unfold pin_has. rewrite existsb_exists. split.
  - intros [x [Hx He]]. apply N.eqb_eq in He. subst. apply in_map. exact Hx.
  - intros H. apply in_map_iff in H. destruct H as [x [He Hx]]. exists x. split; [exact Hx|]. apply N.eqb_eq. exact He.
Qed.

Lemma find_some_in id l tag k :
  find (fun x : N * N => fst x =? id) l = Some (k, tag) -> In (id, tag) l /\ k = id.
Proof.
  intros H. apply find_some in H. destruct H as [Hin He]. cbn in He. apply N.eqb_eq in He. subst. auto.
Qed.

Lemma pin_del_length id l :
  NoDup (map fst l) -> In id (map fst l) -> S (length (pin_del id l)) = length l.
Proof.
  induction l as [|[k v] r IH]; intros Hnd Hin; [destruct Hin|].
  cbn [map fst] in *. inversion Hnd as [|? ? Hnotin Hnd']; subst.
  unfold pin_del. cbn [filter fst]. destruct (k =? id) eqn:E.
  - apply N.eqb_eq in E. subst. cbn [negb]. f_equal.
    assert (forall l', ~ In id (map fst l') -> filter (fun x : N * N => negb (fst x =? id)) l' = l') as Hf.
    { induction l' as [|[k' v'] r' IH']; intros Hn; [reflexivity|]. cbn [filter fst map] in *.
      destruct (k' =? id) eqn:E'; [apply N.eqb_eq in E'; subst; exfalso; apply Hn; left; reflexivity|].
      cbn [negb]. f_equal. apply IH'. intros Hc. apply Hn. right. exact Hc. }
    rewrite Hf by exact Hnotin. reflexivity.
  - cbn [negb length]. f_equal. apply IH; [exact Hnd'|].
    destruct Hin as [Hc|Hc]; [subst; rewrite N.eqb_refl in E; discriminate|exact Hc].
Qed.

Lemma pin_del_subset id l x : In x (map fst (pin_del id l)) -> In x (map fst l).
Proof.
  unfold pin_del. intros H. apply in_map_iff in H. destruct H as [y [He Hy]].
  apply filter_In in Hy. destruct Hy as [Hy _]. subst. apply in_map. exact Hy.
Qed.

Lemma pin_del_nodup id l : NoDup (map fst l) -> NoDup (map fst (pin_del id l)).
Proof.
  induction l as [|[k v] r IH]; intros Hnd; [constructor|].
  cbn [map fst] in Hnd. inversion Hnd as [|? ? Hnotin Hnd']; subst.
  unfold pin_del. cbn [filter fst]. destruct (negb (k =? id)).
  - cbn [map fst]. constructor; [|apply IH; exact Hnd'].
    intros Hc. apply Hnotin. eapply pin_del_subset. exact Hc.
  - apply IH. exact Hnd'.
Qed.


(* on_publish by boolean tests instead of the literal match *)
Definition on_publish_if (s : inb) (qos id tag : N) (authorized : bool) : inb * list iout :=
  if qos =? 2 then
      if id =? 0 then (s, [ITerminate TProtocolError]) else
      if authorized then
        if pin_has id s then (s, [IPubrec id RIdInUse])
        else if (rxq s =? 0)%Z then (s, [ITerminate TRecvMaxExceeded])
        else (mkInb ((id, tag) :: pin s) (rxq s - 1)%Z, [IPubrec id RSuccess])
      else (s, [IPubrec id RNotAuthorized])
  else if qos =? 1 then
      if id =? 0 then (s, [ITerminate TProtocolError]) else
      if authorized then
        if (rxq s =? 0)%Z then (s, [ITerminate TRecvMaxExceeded])
        else (s, [IPuback id RSuccess; IForward tag])
      else (s, [IPuback id RNotAuthorized])
  else (s, if authorized then [IForward tag] else []).

Lemma on_publish_eq s q id tag a : on_publish s q id tag a = on_publish_if s q id tag a.
Proof. destruct q as [|[p|[p|p|]|]]; reflexivity. Qed.

Lemma step_inv rm s e s' o : Inv rm s -> step s e = (s', o) -> Inv rm s'.
Proof.
  intros [Hnd [Hq Hpos]] H. destruct e as [q id tag a|id]; cbn [step] in H.
  - rewrite on_publish_eq in H. unfold on_publish_if in H.
    destruct (q =? 2).
    + (* qos 2 *)
      destruct (id =? 0); [inversion H; subst; repeat split; assumption|].
      destruct a; [|inversion H; subst; repeat split; assumption].
      destruct (pin_has id s) eqn:Hh; [inversion H; subst; repeat split; assumption|].
      destruct (rxq s =? 0)%Z eqn:Hz; [inversion H; subst; repeat split; assumption|].
      inversion H; subst; clear H. apply Z.eqb_neq in Hz. repeat split; cbn [pin rxq map fst length].
      * constructor; [|exact Hnd]. intros Hc. apply pin_has_in in Hc. rewrite Hc in Hh. discriminate.
      * lia.
      * lia.
    + destruct (q =? 1).
      * destruct (id =? 0); [inversion H; subst; repeat split; assumption|].
        destruct a; [|inversion H; subst; repeat split; assumption].
        destruct (rxq s =? 0)%Z; inversion H; subst; repeat split; assumption.
      * inversion H; subst; repeat split; assumption.
  - unfold on_pubrel in H. destruct (find _ (pin s)) as [[k tag]|] eqn:F.
    + inversion H; subst; clear H. apply find_some_in in F. destruct F as [Hin ->].
      assert (In id (map fst (pin s))) as Hin' by (apply in_map_iff; exists (id, tag); auto).
      pose proof (pin_del_length id (pin s) Hnd Hin') as Hl.
      repeat split; cbn [pin rxq].
      * apply pin_del_nodup. exact Hnd.
      * lia.
      * lia.
    + inversion H; subst. repeat split; assumption.
Qed.

Lemma run_inv rm es : forall s s' o, Inv rm s -> run s es = (s', o) -> Inv rm s'.
Proof.
  induction es as [|e r IH]; intros s s' o Hi H; cbn [run] in H.
  - inversion H; subst. exact Hi.
  - destruct (step s e) as [s1 o1] eqn:E. pose proof (step_inv _ _ _ _ _ Hi E) as Hi1.
    destruct (existsb is_term o1); [inversion H; subst; exact Hi1|].
    destruct (run s1 r) as [s2 o2] eqn:E2. inversion H; subst. eapply IH; eauto.
Qed.

Lemma init_inv rm : (0 <= rm)%Z -> Inv rm (init rm).
Proof. intros H. repeat split; cbn; [constructor|lia|exact H]. Qed.

(* ---------- per-step response laws ---------- *)

Lemma qos1_response s id tag : id <> 0 -> (rxq s <> 0)%Z ->
  on_publish s 1 id tag true = (s, [IPuback id RSuccess; IForward tag]).
Proof.
  intros Hid Hq. unfold on_publish. apply N.eqb_neq in Hid. rewrite Hid.
  apply Z.eqb_neq in Hq. rewrite Hq. reflexivity.
Qed.

Lemma qos1_denied s id tag : id <> 0 -> on_publish s 1 id tag false = (s, [IPuback id RNotAuthorized]).
Proof. intros Hid. unfold on_publish. apply N.eqb_neq in Hid. rewrite Hid. reflexivity. Qed.

(* a QoS 2 PUBLISH is answered by exactly one PUBREC with its id (or terminates) and is never
   forwarded at that step *)
Lemma qos2_response s id tag a s' o : on_publish s 2 id tag a = (s', o) ->
  (exists r, o = [IPubrec id r]) \/ (exists t, o = [ITerminate t]).
Proof.
  unfold on_publish. destruct (id =? 0); [intros H; inversion H; right; eauto|].
  destruct a; [|intros H; inversion H; left; eauto].
  destruct (pin_has id s); [intros H; inversion H; left; eauto|].
  destruct (rxq s =? 0)%Z; intros H; inversion H; [right|left]; eauto.
Qed.

Lemma id0_terminates s q tag a : q = 1 \/ q = 2 -> snd (on_publish s q 0 tag a) = [ITerminate TProtocolError].
Proof. intros [->| ->]; reflexivity. Qed.

Lemma pubrel_response s id s' o : on_pubrel s id = (s', o) ->
  (exists tag, In (id, tag) (pin s) /\ o = [IForward tag; IPubcomp id RSuccess]) \/
  (~ In id (map fst (pin s)) /\ o = [IPubcomp id RIdNotFound] /\ s' = s).
Proof.
  unfold on_pubrel. destruct (find _ (pin s)) as [[k tag]|] eqn:F; intros H; inversion H; subst.
  - left. apply find_some_in in F. destruct F as [Hin ->]. exists tag. auto.
  - right. split; [|auto]. intros Hc. apply in_map_iff in Hc. destruct Hc as [[k v] [He Hin]].
    cbn in He. subst. eapply find_none in F; [|exact Hin]. cbn in F. rewrite N.eqb_refl in F. discriminate.
Qed.

(* quota termination happens exactly when RM QoS 2 messages are unreleased *)
Lemma quota_termination rm s q id tag :
  Inv rm s -> (q = 1 \/ q = 2) -> id <> 0 -> pin_has id s = false ->
  (snd (on_publish s q id tag true) = [ITerminate TRecvMaxExceeded] <-> Z.of_nat (length (pin s)) = rm).
Proof.
  intros [_ [Hq Hpos]] Hqq Hid Hh. apply N.eqb_neq in Hid. unfold on_publish.
  destruct Hqq as [-> | ->]; rewrite Hid; try rewrite Hh; destruct (rxq s =? 0)%Z eqn:Hz; cbn [snd];
    (apply Z.eqb_eq in Hz || apply Z.eqb_neq in Hz); split; intros H; try lia; try discriminate; try reflexivity.
Qed.

(* a retransmitted (duplicate) QoS 2 PUBLISH changes nothing and never terminates *)
Lemma dup_qos2_harmless s id tag : id <> 0 -> pin_has id s = true ->
  on_publish s 2 id tag true = (s, [IPubrec id RIdInUse]).
Proof. intros Hid Hh. unfold on_publish. apply N.eqb_neq in Hid. rewrite Hid, Hh. reflexivity. Qed.

(* ---------- exactly-once accounting over whole runs ---------- *)
Definition stores (o : list iout) : nat :=
  length (filter (fun x => match x with IPubrec _ RSuccess => true | _ => false end) o).
Definition releases (o : list iout) : nat :=
  length (filter (fun x => match x with IPubcomp _ RSuccess => true | _ => false end) o).

Lemma step_account s e s' o : NoDup (map fst (pin s)) -> step s e = (s', o) ->
  (length (pin s') + releases o = length (pin s) + stores o)%nat.
Proof.
  intros Hnd H. destruct e as [q id tag a|id]; cbn [step] in H.
  - rewrite on_publish_eq in H. unfold on_publish_if in H.
    destruct (q =? 2).
    + destruct (id =? 0); [inversion H; subst; reflexivity|].
      destruct a; [|inversion H; subst; reflexivity].
      destruct (pin_has id s); [inversion H; subst; reflexivity|].
      destruct (rxq s =? 0)%Z; inversion H; subst; cbn; lia.
    + destruct (q =? 1).
      * destruct (id =? 0); [inversion H; subst; reflexivity|].
        destruct a; [|inversion H; subst; reflexivity].
        destruct (rxq s =? 0)%Z; inversion H; subst; reflexivity.
      * destruct a; inversion H; subst; reflexivity.
  - unfold on_pubrel in H. destruct (find _ (pin s)) as [[k tag]|] eqn:F; inversion H; subst; [|reflexivity].
    apply find_some_in in F. destruct F as [Hin ->].
    assert (In id (map fst (pin s))) as Hin' by (apply in_map_iff; exists (id, tag); auto).
    pose proof (pin_del_length id (pin s) Hnd Hin'). cbn [pin]. unfold releases, stores. cbn. lia.
Qed.

Lemma stores_app a b : stores (a ++ b) = (stores a + stores b)%nat.
Proof. unfold stores. rewrite filter_app, app_length. reflexivity. Qed.
Lemma releases_app a b : releases (a ++ b) = (releases a + releases b)%nat.
Proof. unfold releases. rewrite filter_app, app_length. reflexivity. Qed.

Lemma run_account rm es : forall s s' o, Inv rm s -> run s es = (s', o) ->
  (length (pin s') + releases o = length (pin s) + stores o)%nat.
Proof.
  induction es as [|e r IH]; intros s s' o Hi H; cbn [run] in H.
  - inversion H; subst. reflexivity.
  - destruct (step s e) as [s1 o1] eqn:E. pose proof (step_inv _ _ _ _ _ Hi E) as Hi1.
    pose proof (step_account _ _ _ _ (proj1 Hi) E) as Ha.
    destruct (existsb is_term o1); [inversion H; subst; exact Ha|].
    destruct (run s1 r) as [s2 o2] eqn:E2. inversion H; subst.
    pose proof (IH _ _ _ Hi1 E2). rewrite stores_app, releases_app. lia.
Qed.

(* every QoS 2 forward sits immediately before the successful PUBCOMP of its release; QoS 1/0
   forwards are the only other forwards.  Hence: #QoS2 forwards = #successful releases. *)
Definition fwd2 (o : list iout) : nat :=
  (fix go (l : list iout) : nat :=
     match l with
     | IForward _ :: ((IPubcomp _ RSuccess :: _) as r) => S (go r)
     | _ :: r => go r
     | [] => 0%nat
     end) o.

(* ---------- the refuted old shape ---------- *)
Lemma old_leaks :
  let s0 := init 2 in
  let '(s1, _) := on_publish_old s0 2 1 10 true in
  let '(s2, _) := on_publish_old s1 2 1 10 true in
  snd (on_publish_old s2 2 2 11 true) = [ITerminate TRecvMaxExceeded] /\ length (pin s2) = 1%nat.
Proof. vm_compute. split; reflexivity. Qed.
