From Coq Require Import List NArith ZArith Bool Lia Permutation.
Import ListNotations.
From VMQ Require Import model.Flow model.Writer.
Open Scope N_scope.

(* ------------------------------------------------------------------ *)
(* small facts about the list helpers                                  *)

Lemma mem_In x l : mem x l = true <-> In x l.
Proof.
  unfold mem. rewrite existsb_exists. split.
  - intros [y [Hy He]]. apply N.eqb_eq in He. subst. exact Hy.
  - intros H. exists x. split; [exact H|apply N.eqb_refl].
Qed.

Lemma remove_id_In x id l : In x (remove_id id l) <-> x <> id /\ In x l.
Proof.
  unfold remove_id. rewrite filter_In. split.
  - intros [Hin Hb]. split; [|exact Hin]. intros ->. rewrite N.eqb_refl in Hb. discriminate.
  - intros [Hne Hin]. split; [exact Hin|]. apply N.eqb_neq in Hne. rewrite Hne. reflexivity.
Qed.

Lemma remove_id_NoDup id l : NoDup l -> NoDup (remove_id id l).
Proof. intros H. unfold remove_id. apply NoDup_filter. exact H. Qed.

Lemma remove_id_notin id l : ~ In id l -> remove_id id l = l.
Proof.
  induction l as [|y r IH]; intros Hn; [reflexivity|]. unfold remove_id in *. cbn [filter].
  destruct (y =? id) eqn:E.
  - apply N.eqb_eq in E. subst. exfalso. apply Hn. left. reflexivity.
  - cbn [negb]. f_equal. apply IH. intros Hc. apply Hn. right. exact Hc.
Qed.

Lemma remove_id_length id l : NoDup l -> In id l -> S (length (remove_id id l)) = length l.
Proof.
  induction l as [|y r IH]; intros Hnd Hin; [destruct Hin|].
  inversion Hnd as [|? ? Hny Hnd']; subst. unfold remove_id in *. cbn [filter].
  destruct (y =? id) eqn:E.
  - apply N.eqb_eq in E. subst. cbn [negb]. fold (remove_id id r). rewrite remove_id_notin by exact Hny. reflexivity.
  - cbn [negb length]. f_equal. apply IH; [exact Hnd'|]. destruct Hin as [->|Hin]; [rewrite N.eqb_refl in E; discriminate|exact Hin].
Qed.

Definition keys (o : list (N * pkt)) : list N := map fst o.
Definition rids (q : list pkt) : list N := map pid q.

Lemma del_out_keys id o : keys (del_out id o) = remove_id id (keys o).
Proof.
  induction o as [|[k p] r IH]; [reflexivity|]. unfold del_out, keys, remove_id in *. cbn [filter map fst].
  destruct (k =? id); cbn [negb map fst]; [exact IH|f_equal; exact IH].
Qed.

Lemma store_keys id p o : keys (store id p o) = id :: remove_id id (keys o).
Proof. unfold store. cbn [keys map fst]. f_equal. apply del_out_keys. Qed.

Lemma in_out_In id o : in_out id o = true <-> In id (keys o).
Proof.
  unfold in_out, keys. rewrite existsb_exists. split.
  - intros [x [Hx He]]. apply N.eqb_eq in He. subst. apply in_map. exact Hx.
  - intros H. apply in_map_iff in H. destruct H as [x [He Hx]]. exists x. split; [exact Hx|]. apply N.eqb_eq. exact He.
Qed.

(* ------------------------------------------------------------------ *)
(* identifier allocation                                               *)

Lemma next_id_nonzero x : next_id x <> 0.
Proof. unfold next_id. destruct (65535 <=? x); lia. Qed.

Lemma acquire_loop_spec fuel : forall c used id,
  acquire_loop fuel c used = Some id -> ~ In id used /\ id <> 0.
Proof.
  induction fuel as [|k IH]; intros c used id H; cbn [acquire_loop] in H; [discriminate|].
  destruct (mem (next_id c) used) eqn:E.
  - eapply IH. exact H.
  - inversion H; subst. split; [|apply next_id_nonzero]. intros Hc. apply mem_In in Hc. rewrite Hc in E. discriminate.
Qed.

Lemma acquire_ok f id f' : acquire f = Ok (id, f') ->
  ~ In id (inuse f) /\ id <> 0 /\ (quota f <> 0)%Z /\ f' = mkFlow (quota f - 1)%Z (id :: inuse f) id.
Proof.
  unfold acquire. destruct (quota f =? 0)%Z eqn:Eq; [discriminate|]. apply Z.eqb_neq in Eq.
  destruct (acquire_loop acquire_fuel (cur f) (inuse f)) as [i|] eqn:El; [|discriminate].
  intros H. inversion H; subst. destruct (acquire_loop_spec _ _ _ _ El) as [Hn Hz]. auto.
Qed.

(* ------------------------------------------------------------------ *)
(* the invariant                                                        *)

Definition ids (w : writer) : list N := keys (pubout w) ++ rids (qrel w).

Record WInv (rm : Z) (w : writer) : Prop := mkWInv {
  wi_quota : (quota (fl w) + Z.of_nat (length (inuse (fl w))) = rm)%Z;
  wi_pos : (0 <= quota (fl w))%Z;
  wi_nodup : NoDup (inuse (fl w));
  wi_nz : ~ In 0 (inuse (fl w));
  wi_ids_nodup : NoDup (ids w);
  wi_ids : forall x, In x (inuse (fl w)) <-> In x (ids w);
  wi_unack : p_unack w = [];
  wi_keyed : forall k p, In (k, p) (pubout w) -> pid p = k
}.

Record OffInv (w : writer) : Prop := mkOffInv {
  oi_nodup : NoDup (rids (p_unack w));
  oi_nz : ~ In 0 (rids (p_unack w))
}.

Definition Inv (rm : Z) (w : writer) : Prop := if alive w then WInv rm w else OffInv w.

(* guards: the client acknowledges only what it was sent, and on reconnect announces a Receive
   Maximum that covers what it has not acknowledged (see refute/C03.v for what happens otherwise) *)
Definition ack_id (a : ack) : N := match a with APuback i | APubcomp i => i | APubrec i _ => i end.
Definition ev_ok (w : writer) (e : ev) : bool :=
  match e with
  (* every acknowledgement is admitted, also one of something that is not outstanding (duplicates, bogus
     identifiers): it frees nothing and starts nothing *)
  | EAck v5 a => true
  | EOpen rm => alive w || (Z.of_nat (length (p_unack w)) <=? rm)%Z
  | _ => true
  end.

Lemma NoDup_app_move (a : N) (l1 l2 : list N) : NoDup (l1 ++ a :: l2) <-> NoDup (a :: l1 ++ l2).
Proof.
  split; intros H.
  - eapply Permutation.Permutation_NoDup; [|exact H]. apply Permutation.Permutation_sym, Permutation.Permutation_middle.
  - eapply Permutation.Permutation_NoDup; [|exact H]. apply Permutation.Permutation_middle.
Qed.

(* phase 1 of a pop round: the head of the retransmit/PUBREL queue moves into pubOut *)
Lemma rel_phase_ids (o : list (N * pkt)) (p : pkt) (r : list pkt) :
  NoDup (keys o ++ rids (p :: r)) ->
  NoDup (keys (store (pid p) p o) ++ rids r) /\
  (forall x, In x (keys (store (pid p) p o) ++ rids r) <-> In x (keys o ++ rids (p :: r))).
Proof.
  intros Hnd. cbn [rids map] in Hnd. fold (rids r) in Hnd.
  assert (~ In (pid p) (keys o)) as Hno.
  { intros Hc. apply NoDup_remove_2 in Hnd. apply Hnd. apply in_or_app. left. exact Hc. }
  rewrite store_keys, remove_id_notin by exact Hno. cbn [app]. split.
  - apply NoDup_app_move. exact Hnd.
  - intros x. cbn [rids map]. fold (rids r). split; intros H.
    + destruct H as [->|H]; [apply in_or_app; right; left; reflexivity|].
      apply in_app_or in H. apply in_or_app. destruct H as [H|H]; [left; exact H|right; right; exact H].
    + apply in_app_or in H. destruct H as [H|[->|H]]; [right; apply in_or_app; left; exact H|left; reflexivity|right; apply in_or_app; right; exact H].
Qed.

(* ------------------------------------------------------------------ *)
(* preservation, event by event                                         *)

Lemma release_quota f id rm :
  NoDup (inuse f) -> In id (inuse f) ->
  (quota f + Z.of_nat (length (inuse f)) = rm)%Z ->
  (quota (release f id) + Z.of_nat (length (inuse (release f id))) = rm)%Z.
Proof.
  intros Hnd Hin Hq. cbn [release quota inuse]. pose proof (remove_id_length id _ Hnd Hin). lia.
Qed.

Lemma send_inv rm now w p : Inv rm w -> Inv rm (send now w p).
Proof.
  unfold Inv, send. destruct (alive w) eqn:Ea.
  - intros [H1 H2 H3 H4 H5 H6 H7 H8].
    destruct (pk p) as [[|q]|]; cbn [alive]; constructor; cbn [fl pubout qrel p_unack]; assumption.
  - intros H. destruct (expired now p); [rewrite Ea; exact H|].
    destruct (pk p) as [[|q]|]; cbn [alive]; destruct H as [H1 H2]; constructor; cbn [p_unack]; assumption.
Qed.

Lemma on_ack_alive v5 w a : alive (on_ack v5 w a) = alive w.
Proof.
  destruct a as [id|id err|id]; cbn [on_ack].
  - destruct (in_out id (pubout w)); reflexivity.
  - destruct (in_out id (pubout w)); [destruct (v5 && err)|]; reflexivity.
  - destruct (in_out id (pubout w)); reflexivity.
Qed.

Lemma ack_inv rm v5 w a :
  Inv rm w -> ev_ok w (EAck v5 a) = true -> Inv rm (if alive w then on_ack v5 w a else w).
Proof.
  unfold Inv. destruct (alive w) eqn:Ea; [|intros H _; rewrite Ea; exact H].
  intros HI _.
  destruct (in_out (ack_id a) (pubout w)) eqn:Hok.
  2: { (* nothing outstanding under that identifier: nothing changes *)
       rewrite on_ack_alive, Ea.
       destruct a as [id|id err|id]; cbn [on_ack ack_id] in *; rewrite ?Hok; exact HI. }
  destruct HI as [H1 H2 H3 H4 H5 H6 H7 H8].
  assert (In (ack_id a) (keys (pubout w))) as Hk by (apply in_out_In; exact Hok).
  assert (In (ack_id a) (inuse (fl w))) as Hu by (apply H6; unfold ids; apply in_or_app; left; exact Hk).
  (* the two shapes: identifier released / PUBREL queued *)
  assert (forall w', alive w' = true -> fl w' = release (fl w) (ack_id a) ->
            pubout w' = del_out (ack_id a) (pubout w) -> qrel w' = qrel w -> p_unack w' = p_unack w -> WInv rm w') as Hrel.
  { intros w' Hal Hf Ho Hq Hp. constructor; rewrite ?Hf, ?Ho, ?Hq, ?Hp; unfold ids; rewrite ?Ho, ?Hq.
    - apply release_quota; assumption.
    - cbn [release quota]. lia.
    - cbn [release inuse]. apply remove_id_NoDup. exact H3.
    - cbn [release inuse]. intros Hc. apply remove_id_In in Hc. apply H4. apply Hc.
    - rewrite del_out_keys. unfold ids in H5.
      assert (forall l1 l2 : list N, NoDup (l1 ++ l2) -> NoDup (remove_id (ack_id a) l1 ++ l2)) as Hx.
      { induction l1 as [|y r IH]; intros l2 Hn; [exact Hn|]. unfold remove_id. cbn [filter app] in *.
        inversion Hn as [|? ? Hny Hn']; subst. destruct (y =? ack_id a); cbn [negb app].
        - apply IH. exact Hn'.
        - constructor; [|apply IH; exact Hn']. intros Hc. apply Hny. apply in_app_or in Hc. apply in_or_app.
          destruct Hc as [Hc|Hc]; [left; apply remove_id_In in Hc; apply Hc|right; exact Hc]. }
      apply Hx. exact H5.
    - intros x. cbn [release inuse]. rewrite remove_id_In, del_out_keys, in_app_iff, remove_id_In, (H6 x).
      unfold ids. rewrite in_app_iff. split.
      + intros [Hne [Hx|Hx]]; [left; split; assumption|right; exact Hx].
      + intros [[Hne Hx]|Hx]; [split; [exact Hne|left; exact Hx]|].
        split; [|right; exact Hx]. intros ->. unfold ids in H5.
        apply (proj1 (NoDup_app_move _ _ _)) in H5 || idtac.
        (* ack_id a is a key, so it cannot also be in the queue *)
        clear -H5 Hk Hx. induction (keys (pubout w)) as [|y r IH]; [destruct Hk|].
        cbn [app] in H5. inversion H5 as [|? ? Hny Hn']; subst. destruct Hk as [->|Hk].
        * apply Hny. apply in_or_app. right. exact Hx.
        * apply IH; assumption.
    - exact H7.
    - intros k p Hin. unfold del_out in Hin. apply filter_In in Hin. apply H8. apply Hin. }
  cbv beta iota. rewrite on_ack_alive, Ea.
  destruct a as [id|id err|id]; cbn [on_ack ack_id] in *.
  - rewrite Hok. apply Hrel; cbn [wr_set alive fl pubout qrel p_unack]; auto.
  - rewrite Hok. destruct (v5 && err).
    + apply Hrel; cbn [wr_set alive fl pubout qrel p_unack]; auto.
    + constructor; cbn [wr_set fl pubout qrel p_unack]; try assumption.
      * unfold ids. cbn [wr_set pubout qrel]. rewrite del_out_keys. unfold rids. rewrite map_app. cbn [map mk_pubrel pid].
        unfold ids in H5. fold (rids (qrel w)).
        (* moving id from the keys to the end of the queue keeps the list duplicate-free *)
        assert (forall l1 l2 : list N, NoDup (l1 ++ l2) -> In id l1 -> NoDup (remove_id id l1 ++ l2 ++ [id])) as Hx.
        { induction l1 as [|y r IH]; intros l2 Hn Hi; [destruct Hi|]. unfold remove_id. cbn [filter app] in *.
          inversion Hn as [|? ? Hny Hn']; subst. destruct (y =? id) eqn:Ey; cbn [negb app].
          - apply N.eqb_eq in Ey. subst. fold (remove_id id r).
            rewrite remove_id_notin by (intros Hc; apply Hny; apply in_or_app; left; exact Hc).
            rewrite app_assoc. apply NoDup_app_move. rewrite app_nil_r. constructor; assumption.
          - destruct Hi as [->|Hi]; [rewrite N.eqb_refl in Ey; discriminate|].
            constructor; [|apply IH; assumption]. intros Hc. apply in_app_or in Hc.
            destruct Hc as [Hc|Hc]; [apply Hny; apply in_or_app; left; apply remove_id_In in Hc; apply Hc|].
            apply in_app_or in Hc. destruct Hc as [Hc|[Hc|[]]]; [apply Hny; apply in_or_app; right; exact Hc|].
            subst. rewrite N.eqb_refl in Ey. discriminate. }
        apply Hx; assumption.
      * intros x. rewrite (H6 x). unfold ids. cbn [wr_set pubout qrel]. rewrite del_out_keys. unfold rids. rewrite map_app.
        cbn [map mk_pubrel pid]. rewrite !in_app_iff, remove_id_In. cbn [In]. split.
        -- intros [Hx|Hx]; [|right; left; exact Hx].
           destruct (N.eq_dec x id) as [->|Hne]; [right; right; left; reflexivity|left; split; assumption].
        -- intros [[_ Hx]|[Hx|[<-|[]]]]; [left; exact Hx|right; exact Hx|left; exact Hk].
      * intros k p Hin. unfold del_out in Hin. apply filter_In in Hin. apply H8. apply Hin.
  - rewrite Hok. apply Hrel; cbn [wr_set alive fl pubout qrel p_unack]; auto.
Qed.

Lemma remove_id_head id l : ~ In id l -> remove_id id (id :: l) = l.
Proof.
  intros Hn. unfold remove_id. cbn [filter]. rewrite N.eqb_refl. cbn [negb]. apply remove_id_notin. exact Hn.
Qed.

Lemma pop_inv rm now w w' o : Inv rm w -> alive w = true -> pop_round now w = (Fine, w', o) -> Inv rm w' /\ alive w' = true.
Proof.
  unfold Inv. intros Hinv Ea. rewrite Ea in Hinv. destruct Hinv as [H1 H2 H3 H4 H5 H6 H7 H8].
  unfold pop_round. rewrite Ea. cbn [negb].
  (* phase 1 *)
  set (ph1 := match qrel w with [] => ([], [], pubout w) | p :: r => ([p], r, store (pid p) p (pubout w)) end).
  assert (exists o1 qrel1 out1, ph1 = (o1, qrel1, out1) /\ NoDup (keys out1 ++ rids qrel1) /\
            (forall x, In x (keys out1 ++ rids qrel1) <-> In x (ids w)) /\
            (forall k p, In (k, p) out1 -> pid p = k)) as [o1 [qrel1 [out1 [Eph [Hnd1 [Hiff1 Hkey1]]]]]].
  { unfold ph1, ids in *. destruct (qrel w) as [|p r].
    - exists [], [], (pubout w). split; [reflexivity|]. split; [exact H5|]. split; [intros x; reflexivity|exact H8].
    - exists [p], r, (store (pid p) p (pubout w)). split; [reflexivity|].
      destruct (rel_phase_ids _ _ _ H5) as [A B]. split; [exact A|]. split; [exact B|].
      intros k q Hin. unfold store in Hin. destruct Hin as [Hin|Hin]; [inversion Hin; subst; reflexivity|].
      apply filter_In in Hin. apply H8. apply Hin. }
  rewrite Eph. clear ph1 Eph.
  (* phase 2: characterise (f2, out2) *)
  set (ph2 := match (match qrel w with [] => q12 w | _ :: _ => [] end) with
              | p :: r => if quota_available (fl w) then
                            match acquire (fl w) with
                            | Ok (id, f') => let p' := with_id p id in
                                             if expired now p' then (Fine, release f' id, r, out1, [])
                                             else (Fine, f', r, store id p' out1, [p'])
                            | QuotaExceeded => (Stuck 2, fl w, q12 w, out1, [])
                            | OutOfFuel => (Stuck 1, fl w, q12 w, out1, [])
                            end
                          else (Fine, fl w, q12 w, out1, [])
              | [] => (Fine, fl w, q12 w, out1, [])
              end).
  assert (forall oc f2 q12' out2 o2, ph2 = (oc, f2, q12', out2, o2) -> oc = Fine ->
            (quota f2 + Z.of_nat (length (inuse f2)) = rm)%Z /\ (0 <= quota f2)%Z /\ NoDup (inuse f2) /\ ~ In 0 (inuse f2) /\
            NoDup (keys out2 ++ rids qrel1) /\ (forall x, In x (inuse f2) <-> In x (keys out2 ++ rids qrel1)) /\
            (forall k p, In (k, p) out2 -> pid p = k)) as Hph2.
  { intros oc f2 q12' out2 o2 E Hoc. unfold ph2 in E.
    assert (forall x, In x (inuse (fl w)) <-> In x (keys out1 ++ rids qrel1)) as Hsame by (intros x; rewrite (H6 x), (Hiff1 x); reflexivity).
    destruct (match qrel w with [] => q12 w | _ :: _ => [] end) as [|p r]; [inversion E; subst; repeat split; try assumption; apply Hsame|].
    destruct (quota_available (fl w)); [|inversion E; subst; repeat split; try assumption; apply Hsame].
    destruct (acquire (fl w)) as [[id f']| |] eqn:Eacq; [|inversion E; subst; discriminate|inversion E; subst; discriminate].
    destruct (acquire_ok _ _ _ Eacq) as [Hnin [Hnz [Hqnz ->]]].
    destruct (expired now (with_id p id)); inversion E; subst; clear E.
    - (* expired: identifier and slot returned *)
      cbn [release quota inuse]. rewrite remove_id_head by exact Hnin.
      repeat split; try assumption; try lia; apply Hsame.
    - cbn [quota inuse length]. rewrite store_keys.
      assert (~ In id (keys out1 ++ rids qrel1)) as Hnin2 by (intros Hc; apply Hnin; apply Hsame; exact Hc).
      rewrite remove_id_notin by (intros Hc; apply Hnin2; apply in_or_app; left; exact Hc).
      repeat split.
      + lia.
      + lia.
      + constructor; assumption.
      + intros [Hc|Hc]; [apply Hnz; exact Hc|apply H4; exact Hc].
      + cbn [app]. constructor; assumption.
      + cbn [app In]. intros [Hc|Hc]; [left; exact Hc|right; apply Hsame; exact Hc].
      + cbn [app In]. intros [Hc|Hc]; [left; exact Hc|right; apply Hsame; exact Hc].
      + intros k q Hin. unfold store in Hin. destruct Hin as [Hin|Hin]; [inversion Hin; subst; reflexivity|].
        apply filter_In in Hin. apply Hkey1. apply Hin. }
  destruct ph2 as [[[[oc f2] q12'] out2] o2] eqn:Eph2.
  destruct (q0 w) as [|p0 r0]; intros Hres; inversion Hres; subst; clear Hres;
    (destruct (Hph2 _ _ _ _ _ eq_refl eq_refl) as [G1 [G2 [G3 [G4 [G5 [G6 G7]]]]]];
     cbn [wr_set alive]; rewrite Ea; split; [|reflexivity];
     constructor; cbn [wr_set fl pubout qrel p_unack]; unfold ids; cbn [wr_set pubout qrel]; assumption).
Qed.

Lemma close_inv rm now w : Inv rm w -> Inv rm (close now w).
Proof.
  unfold Inv, close. destruct (alive w) eqn:Ea; cbn [negb]; [|rewrite Ea; auto].
  intros [H1 H2 H3 H4 H5 H6 H7 H8]. cbn [alive].
  assert (rids (p_unack w ++ map (fun x => enc_unack (snd x)) (rev (pubout w)) ++ map enc_unack (qrel w)) = rev (keys (pubout w)) ++ rids (qrel w)) as Hr.
  { rewrite H7. cbn [app]. unfold rids, keys. rewrite map_app, !map_map, <- map_rev.
    assert (forall p, pid (enc_unack p) = pid p) as Hp by (intros p; unfold enc_unack; destruct (is_pub p); reflexivity).
    f_equal; [|apply map_ext; exact Hp]. apply map_ext_in. intros [k p] Hin. cbn [snd fst]. rewrite Hp. apply H8. apply in_rev. exact Hin. }
  constructor; cbn [p_unack]; rewrite Hr.
  - eapply Permutation_NoDup; [|exact H5]. unfold ids. apply Permutation_app_tail. apply Permutation_rev.
  - intros Hc. apply H4. apply H6. unfold ids. apply in_app_or in Hc. apply in_or_app. destruct Hc as [Hc|Hc]; [left; apply in_rev; exact Hc|right; exact Hc].
Qed.

(* ------------------------------------------------------------------ *)
(* reconnect                                                            *)

Lemma reacquire_all_spec l : forall f,
  NoDup (rids l) -> (forall x, In x (rids l) -> ~ In x (inuse f)) -> NoDup (inuse f) ->
  (Z.of_nat (length l) <= quota f)%Z ->
  let f' := reacquire_all f l in
  (quota f' = quota f - Z.of_nat (length l))%Z /\ NoDup (inuse f') /\
  length (inuse f') = (length (inuse f) + length l)%nat /\
  (forall x, In x (inuse f') <-> In x (rids l) \/ In x (inuse f)).
Proof.
  induction l as [|p r IH]; intros f Hnd Hdis Hndf Hq; cbn [reacquire_all].
  - cbn [length rids map]. repeat split; try lia; try assumption; [intros H; right; exact H|intros [[]|H]; exact H].
  - cbn [rids map] in Hnd, Hdis. fold (rids r) in Hnd, Hdis. inversion Hnd as [|? ? Hnp Hnd']; subst.
    cbn [length] in Hq. unfold reacquire. destruct (quota f =? 0)%Z eqn:Ez; [apply Z.eqb_eq in Ez; lia|].
    assert (~ In (pid p) (inuse f)) as Hpn by (apply Hdis; left; reflexivity).
    rewrite remove_id_notin by exact Hpn.
    set (f1 := mkFlow (quota f - 1)%Z (pid p :: inuse f) (cur f)).
    destruct (IH f1) as [A [B [C D]]].
    + exact Hnd'.
    + intros x Hx [Hc|Hc]; [subst; contradiction|]. apply (Hdis x); [right; exact Hx|exact Hc].
    + constructor; assumption.
    + cbn [f1 quota]. lia.
    + cbn [f1 quota inuse length] in *. repeat split.
      * lia.
      * exact B.
      * cbn [length]. lia.
      * intros Hx. apply D in Hx. cbn [rids map In] in *. fold (rids r) in *. tauto.
      * intros Hx. apply D. cbn [rids map In] in *. fold (rids r) in *. tauto.
Qed.

Lemma open_inv rm r w : Inv rm w -> ev_ok w (EOpen r) = true -> Inv (if alive w then rm else r) (open r w).
Proof.
  unfold Inv, open. cbn [ev_ok]. destruct (alive w) eqn:Ea; [intros H _; rewrite Ea; exact H|].
  intros [Hnd Hnz] Hok. cbn [orb] in Hok. apply Z.leb_le in Hok. cbn [alive].
  destruct (reacquire_all_spec (p_unack w) (mkFlow r [] 0) Hnd) as [A [B [C D]]]; cbn [inuse quota]; auto; [constructor|].
  cbn [inuse quota length] in *.
  constructor; cbn [fl pubout qrel p_unack]; unfold ids; cbn [pubout qrel keys map app]; try assumption.
  - lia.
  - lia.
  - intros Hc. apply D in Hc. destruct Hc as [Hc|[]]. apply Hnz. exact Hc.
  - intros x. rewrite D. cbn [In]. tauto.
  - reflexivity.
  - intros k p [].
Qed.

(* ------------------------------------------------------------------ *)
(* whole histories                                                      *)

Definition track (st : Z * bool) (e : ev) : Z * bool :=
  let '(rm, al) := st in
  match e with
  | EClose _ => (rm, false)
  | EOpen r => if al then (rm, al) else (r, true)
  | _ => st
  end.

Fixpoint guarded (w : writer) (es : list ev) : Prop :=
  match es with
  | [] => True
  | e :: r => ev_ok w e = true /\ guarded (snd (fst (step w e))) r
  end.

Lemma step_inv rm w e w' o :
  Inv rm w -> ev_ok w e = true -> step w e = (Fine, w', o) ->
  Inv (fst (track (rm, alive w) e)) w' /\ alive w' = snd (track (rm, alive w) e).
Proof.
  intros Hinv Hok Hs. destruct e as [now p|now|v5 a|now|r]; cbn [step track fst snd] in *.
  - inversion Hs; subst. split; [apply send_inv; exact Hinv|]. unfold send. destruct (alive w) eqn:Ea.
    + destruct (pk p) as [[|q]|]; reflexivity.
    + destruct (expired now p); [exact Ea|]. destruct (pk p) as [[|q]|]; reflexivity.
  - destruct (alive w) eqn:Ea.
    + destruct (pop_inv _ _ _ _ _ Hinv Ea Hs) as [A B]. auto.
    + unfold pop_round in Hs. rewrite Ea in Hs. cbn [negb] in Hs. inversion Hs; subst. auto.
  - inversion Hs; subst. split; [apply ack_inv; assumption|]. destruct (alive w) eqn:Ea; [rewrite on_ack_alive; exact Ea|exact Ea].
  - inversion Hs; subst. split; [apply close_inv; exact Hinv|]. unfold close. destruct (alive w) eqn:Ea; cbn [negb]; [reflexivity|exact Ea].
  - inversion Hs; subst. split.
    + pose proof (open_inv _ _ _ Hinv Hok) as H. destruct (alive w); exact H.
    + unfold open. destruct (alive w) eqn:Ea; [exact Ea|reflexivity].
Qed.

Lemma run_inv es : forall rm w w' outs,
  Inv rm w -> guarded w es -> run w es = (Fine, w', outs) ->
  Inv (fst (fold_left track es (rm, alive w))) w' /\ alive w' = snd (fold_left track es (rm, alive w)).
Proof.
  induction es as [|e r IH]; intros rm w w' outs Hinv Hg Hr; cbn [run fold_left] in *.
  - inversion Hr; subst. auto.
  - destruct Hg as [Hok Hg]. destruct (step w e) as [[oc w1] o] eqn:Es. cbn [fst snd] in Hg.
    destruct oc; [|discriminate].
    destruct (run w1 r) as [[oc2 w2] os] eqn:Er. inversion Hr; subst.
    destruct (step_inv _ _ _ _ _ Hinv Hok Es) as [Hi1 Ha1].
    specialize (IH _ _ _ _ Hi1 Hg Er). rewrite Ha1 in IH.
    destruct (track (rm, alive w) e) as [rm1 al1]. exact IH.
Qed.

Lemma init_inv rm oq : (0 <= rm)%Z -> Inv rm (init rm oq).
Proof.
  intros H. unfold Inv, init. cbn [alive]. constructor; cbn; try lia; try constructor; try tauto.
Qed.

(* ---- what the invariant means for the property ---- *)

Lemma inv_inflight rm w : Inv rm w -> alive w = true ->
  (Z.of_nat (length (inuse (fl w))) <= rm)%Z /\ NoDup (inuse (fl w)) /\ ~ In 0 (inuse (fl w)).
Proof. unfold Inv. intros H Ea. rewrite Ea in H. destruct H. repeat split; try assumption. lia. Qed.

Lemma inv_quiescent rm w : Inv rm w -> alive w = true -> pubout w = [] -> qrel w = [] -> quota (fl w) = rm.
Proof.
  unfold Inv. intros H Ea Ho Hq. rewrite Ea in H. destruct H as [H1 _ _ _ _ H6 _ _].
  assert (inuse (fl w) = []) as Hu.
  { destruct (inuse (fl w)) as [|x l] eqn:E; [reflexivity|]. exfalso.
    assert (In x (ids w)) as Hc by (apply H6; left; reflexivity). unfold ids in Hc. rewrite Ho, Hq in Hc. destruct Hc. }
  rewrite Hu in H1. cbn in H1. lia.
Qed.

(* every QoS>0 PUBLISH / PUBREL put on the wire by a pop round carries an identifier that is
   registered as in use afterwards (so the bound and distinctness above apply to the wire) *)
Lemma pop_wire_registered rm now w w' o p :
  Inv rm w -> alive w = true -> pop_round now w = (Fine, w', o) -> In p o ->
  In p (q0 w) \/ In (pid p) (inuse (fl w')).
Proof.
  intros Hinv Ea Hp Hin. destruct (pop_inv _ _ _ _ _ Hinv Ea Hp) as [Hinv' Ea'].
  unfold Inv in Hinv'. rewrite Ea' in Hinv'. destruct Hinv' as [_ _ _ _ _ G6 _ _].
  unfold pop_round in Hp. rewrite Ea in Hp. cbn [negb] in Hp.
  destruct (qrel w) as [|pr rr] eqn:Eq.
  - destruct (q12 w) as [|p2 r2] eqn:E12.
    + destruct (q0 w) as [|p0 r0] eqn:E0; inversion Hp; subst; cbn [app] in Hin; [destruct Hin|].
      destruct (expired now p0); [destruct Hin|]. destruct Hin as [<-|[]]. left. left. reflexivity.
    + destruct (quota_available (fl w)).
      * destruct (acquire (fl w)) as [[id f']| |] eqn:Ea2; try (destruct (q0 w); inversion Hp; fail).
        destruct (expired now (with_id p2 id)) eqn:Ex.
        -- destruct (q0 w) as [|p0 r0] eqn:E0; inversion Hp; subst; cbn [app] in Hin; [destruct Hin|].
           destruct (expired now p0); [destruct Hin|]. destruct Hin as [<-|[]]. left. left. reflexivity.
        -- destruct (q0 w) as [|p0 r0] eqn:E0; inversion Hp; subst; cbn [app] in Hin.
           ++ destruct Hin as [<-|[]]. right. apply G6. unfold ids. cbn [wr_set pubout qrel]. apply in_or_app. left.
              rewrite store_keys. left. reflexivity.
           ++ destruct Hin as [<-|Hin].
              ** right. apply G6. unfold ids. cbn [wr_set pubout qrel]. apply in_or_app. left. rewrite store_keys. left. reflexivity.
              ** destruct (expired now p0); [destruct Hin|]. destruct Hin as [<-|[]]. left. left. reflexivity.
      * destruct (q0 w) as [|p0 r0] eqn:E0; inversion Hp; subst; cbn [app] in Hin; [destruct Hin|].
        destruct (expired now p0); [destruct Hin|]. destruct Hin as [<-|[]]. left. left. reflexivity.
  - (* a retransmission / PUBREL at the head: nothing new is popped behind it *)
    assert (forall f2 q0' q12' out2, In (pid pr) (keys out2) ->
              (forall x, In x (inuse (fl (wr_set w f2 q0' q12' rr out2))) <-> In x (ids (wr_set w f2 q0' q12' rr out2))) ->
              In (pid pr) (inuse (fl (wr_set w f2 q0' q12' rr out2)))) as Hhead.
    { intros f2 q0' q12' out2 Hk Hi. apply Hi. unfold ids. cbn [wr_set pubout]. apply in_or_app. left. exact Hk. }
    destruct (q0 w) as [|p0 r0] eqn:E0; inversion Hp; subst; cbn [app] in Hin.
    + destruct Hin as [<-|[]]. right. apply Hhead; [rewrite store_keys; left; reflexivity|exact G6].
    + destruct Hin as [<-|Hin]; [right; apply Hhead; [rewrite store_keys; left; reflexivity|exact G6]|].
      destruct (expired now p0); [destruct Hin|]. destruct Hin as [<-|[]]. left. left. reflexivity.
Qed.

(* ------------------------------------------------------------------ *)
(* the writer never gets stuck in the identifier search                 *)
From VMQ Require Import proofs.FlowProofs.

Lemma pop_fine rm now w : Inv rm w -> alive w = true -> (rm <= 65535)%Z ->
  exists w' o, pop_round now w = (Fine, w', o).
Proof.
  unfold Inv. intros Hinv Ea Hrm. rewrite Ea in Hinv. destruct Hinv as [H1 H2 H3 H4 _ _ _ _].
  unfold pop_round. rewrite Ea. cbn [negb].
  destruct (qrel w) as [|pr rr]; [|destruct (q0 w); eexists; eexists; reflexivity].
  destruct (q12 w) as [|p2 r2]; [destruct (q0 w); eexists; eexists; reflexivity|].
  destruct (quota_available (fl w)) eqn:Eq; [|destruct (q0 w); eexists; eexists; reflexivity].
  unfold quota_available in Eq. apply Z.ltb_lt in Eq.
  unfold acquire. destruct (quota (fl w) =? 0)%Z eqn:Ez; [apply Z.eqb_eq in Ez; lia|].
  destruct (acquire_loop acquire_fuel (cur (fl w)) (inuse (fl w))) as [id|] eqn:El.
  - destruct (expired now (with_id p2 id)); destruct (q0 w); eexists; eexists; reflexivity.
  - exfalso. eapply acquire_loop_finds; [exact H3| |exact El]. lia.
Qed.

Definition opens_ok (es : list ev) : Prop :=
  Forall (fun e => match e with EOpen r => (r <= 65535)%Z | _ => True end) es.

Lemma step_fine rm w e : Inv rm w -> (rm <= 65535)%Z -> exists w' o, step w e = (Fine, w', o).
Proof.
  intros Hinv Hrm. destruct e as [now p|now|v5 a|now|r]; cbn [step]; try (eexists; eexists; reflexivity).
  destruct (alive w) eqn:Ea; [eapply pop_fine; eauto|].
  unfold pop_round. rewrite Ea. eexists; eexists; reflexivity.
Qed.

Lemma run_fine es : forall rm w,
  Inv rm w -> (rm <= 65535)%Z -> guarded w es -> opens_ok es ->
  exists w' outs, run w es = (Fine, w', outs).
Proof.
  induction es as [|e r IH]; intros rm w Hinv Hrm Hg Hop; cbn [run].
  - eexists; eexists; reflexivity.
  - destruct Hg as [Hok Hg]. inversion Hop as [|? ? He Hop']; subst.
    destruct (step_fine _ _ e Hinv Hrm) as [w1 [o Es]]. rewrite Es in *. cbn [fst snd] in Hg.
    destruct (step_inv _ _ _ _ _ Hinv Hok Es) as [Hi1 _].
    assert ((fst (track (rm, alive w) e) <= 65535)%Z) as Hrm1.
    { destruct e; cbn [track fst]; try exact Hrm. destruct (alive w); cbn [fst]; [exact Hrm|exact He]. }
    destruct (IH _ _ Hi1 Hrm1 Hg Hop') as [w' [outs Er]]. rewrite Er. eexists; eexists; reflexivity.
Qed.

(* ------------------------------------------------------------------ *)
(* C02: progress and redelivery                                          *)

(* a connected client that has acknowledged everything is sent the next queued QoS 1/2 message
   (or the message is dropped as expired) by the next writer round — for every rm >= 1 *)
Lemma no_stall rm now w p r :
  Inv rm w -> alive w = true -> (1 <= rm <= 65535)%Z -> pubout w = [] -> qrel w = [] -> q12 w = p :: r ->
  exists w' o, pop_round now w = (Fine, w', o) /\ q12 w' = r /\
    (expired now (with_id p (next_id (cur (fl w)))) = false -> exists id, In (with_id p id) o).
Proof.
  intros Hinv Ea Hrm Ho Hq H12. pose proof (inv_quiescent _ _ Hinv Ea Ho Hq) as Hquota.
  unfold Inv in Hinv. rewrite Ea in Hinv. destruct Hinv as [_ _ _ _ _ H6 _ _].
  assert (inuse (fl w) = []) as Hu.
  { destruct (inuse (fl w)) as [|x l] eqn:E; [reflexivity|]. exfalso.
    assert (In x (ids w)) as Hc by (apply H6; left; reflexivity). unfold ids in Hc. rewrite Ho, Hq in Hc. destruct Hc. }
  unfold pop_round. rewrite Ea, Hq, H12. cbn [negb]. unfold quota_available. rewrite Hquota.
  assert ((0 <? rm)%Z = true) as -> by (apply Z.ltb_lt; lia).
  unfold acquire. rewrite Hquota. assert ((rm =? 0)%Z = false) as -> by (apply Z.eqb_neq; lia).
  rewrite Hu. unfold acquire_fuel.
  assert (exists k, N.to_nat 65536 = S k) as [k ->] by (exists (N.to_nat 65535); lia).
  cbn [acquire_loop mem existsb].
  destruct (expired now (with_id p (next_id (cur (fl w))))) eqn:Ex.
  - destruct (q0 w); eexists; eexists; (split; [reflexivity|]); (split; [reflexivity|]); intros Hc; discriminate.
  - destruct (q0 w); eexists; eexists; (split; [reflexivity|]); (split; [reflexivity|]); intros _;
      exists (next_id (cur (fl w))); cbn [app In]; auto.
Qed.

(* what was unacknowledged at close is queued for unconditional retransmission at reconnect, with
   its identifier, DUP set; and the head of that queue is the first thing a writer round emits *)
Lemma redelivery_queued now r w :
  alive w = true -> p_unack w = [] ->
  qrel (open r (close now w)) = map (fun x => enc_unack (snd x)) (rev (pubout w)) ++ map enc_unack (qrel w).
Proof. intros Ea Hp. unfold open, close. rewrite Ea. cbn [negb alive p_unack qrel]. rewrite Hp. reflexivity. Qed.

Lemma retransmit_first now w p r w' o oc :
  alive w = true -> qrel w = p :: r -> pop_round now w = (oc, w', o) -> exists o', o = p :: o'.
Proof.
  intros Ea Hq Hp. unfold pop_round in Hp. rewrite Ea, Hq in Hp. cbn [negb] in Hp.
  destruct (q0 w); inversion Hp; subst; eexists; reflexivity.
Qed.

(* ... and while anything waits there, nothing that has never been transmitted leaves its queue: what was sent
   before (in an earlier connection) goes out again, in the order it was sent, before anything new *)
Lemma retransmit_before_new now w p r w' o oc :
  alive w = true -> qrel w = p :: r -> pop_round now w = (oc, w', o) ->
  q12 w' = q12 w /\ qrel w' = r /\ oc = Fine.
Proof.
  intros Ea Hq Hp. unfold pop_round in Hp. rewrite Ea, Hq in Hp. cbn [negb] in Hp.
  destruct (q0 w); inversion Hp; subst; cbn [wr_set q12 qrel]; auto.
Qed.
