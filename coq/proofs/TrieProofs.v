From Coq Require Import List NArith Bool Lia.
Import ListNotations.
From VMQ Require Import model.Trie model.Match.
Open Scope N_scope.

(* ---------------- levels ---------------- *)
Lemma lvl_eqb_eq a b : lvl_eqb a b = true <-> a = b.
Proof.
  revert b; induction a as [|x a IH]; intros [|y b]; cbn [lvl_eqb]; split; intros H; try discriminate; try reflexivity.
  - apply andb_true_iff in H. destruct H as [H1 H2]. apply N.eqb_eq in H1. apply IH in H2. subst. reflexivity.
  - inversion H; subst. rewrite N.eqb_refl. cbn. apply IH. reflexivity.
Qed.
Lemma lvl_eqb_refl a : lvl_eqb a a = true.
Proof. apply lvl_eqb_eq. reflexivity. Qed.
Lemma lvl_eqb_neq a b : lvl_eqb a b = false <-> a <> b.
Proof. split; intros H. - intros ->. rewrite lvl_eqb_refl in H. discriminate. - destruct (lvl_eqb a b) eqn:E; [apply lvl_eqb_eq in E; contradiction|reflexivity]. Qed.
Lemma is_hash_eq l : is_hash l = true <-> l = LHash. Proof. apply lvl_eqb_eq. Qed.
Lemma is_plus_eq l : is_plus l = true <-> l = LPlus. Proof. apply lvl_eqb_eq. Qed.

(* ---------------- all (path, subscription) pairs of a tree ---------------- *)
Fixpoint tsubs (n : node) : list (list lvl * (N * sparams)) :=
  match n with
  | Node ss _ ks =>
      map (fun x => ([], x)) ss ++
      (fix go (ks : list (lvl * node)) : list (list lvl * (N * sparams)) :=
         match ks with
         | [] => []
         | (l, c) :: r => map (fun px => (l :: fst px, snd px)) (tsubs c) ++ go r
         end) ks
  end.

Lemma tsubs_in ss r ks p x :
  In (p, x) (tsubs (Node ss r ks)) <->
  (p = [] /\ In x ss) \/ exists l c p', p = l :: p' /\ In (l, c) ks /\ In (p', x) (tsubs c).
Proof.
  cbn [tsubs]. rewrite in_app_iff. split.
  - intros [H|H].
    + apply in_map_iff in H. destruct H as [y [He Hy]]. inversion He; subst. left. auto.
    + right. induction ks as [|[l c] ks IH]; [destruct H|]. apply in_app_or in H. destruct H as [H|H].
      * apply in_map_iff in H. destruct H as [[p' y] [He Hy]]. cbn [fst snd] in He. inversion He; subst.
        exists l, c, p'. split; [reflexivity|]. split; [left; reflexivity|exact Hy].
      * destruct (IH H) as [l' [c' [p' [Hp [Hin Ht]]]]]. exists l', c', p'. split; [exact Hp|]. split; [right; exact Hin|exact Ht].
  - intros [[-> Hx]|[l [c [p' [-> [Hin Ht]]]]]].
    + left. apply in_map_iff. exists x. auto.
    + right. induction ks as [|[l0 c0] ks IH]; [destruct Hin|]. apply in_or_app. destruct Hin as [He|Hin].
      * inversion He; subst. left. apply in_map_iff. exists (p', x). auto.
      * right. apply IH. exact Hin.
Qed.

(* ---------------- well-formed trees: child keys are unique ---------------- *)
Inductive wf : node -> Prop :=
| wf_node ss r ks : NoDup (map fst ks) -> (forall l c, In (l, c) ks -> wf c) -> wf (Node ss r ks).

Lemma findk_in l ks c : NoDup (map fst ks) -> (findk l ks = Some c <-> In (l, c) ks).
Proof.
  induction ks as [|[l' c'] ks IH]; intros Hnd; cbn [findk]; [split; [discriminate|intros []]|].
  cbn [map fst] in Hnd. inversion Hnd as [|? ? Hn Hnd']; subst. destruct (lvl_eqb l l') eqn:E.
  - apply lvl_eqb_eq in E. subst. split.
    + intros H. inversion H; subst. left. reflexivity.
    + intros [H|H]; [inversion H; reflexivity|]. exfalso. apply Hn. apply in_map_iff. exists (l', c). auto.
  - apply lvl_eqb_neq in E. rewrite (IH Hnd'). split; [intros H; right; exact H|].
    intros [H|H]; [inversion H; subst; contradiction|exact H].
Qed.

Lemma wf_kid ss r ks l c : wf (Node ss r ks) -> findk l ks = Some c -> wf c.
Proof. intros H Hf. inversion H as [? ? ? Hnd Hk]; subst. apply (Hk l c). apply findk_in; assumption. Qed.

(* ---------------- the search walk finds exactly the matching subscriptions ---------------- *)
Definition valid_topic (t : list lvl) : bool := forallb (fun l => negb (is_plus l || is_hash l)) t.

(* matching below the root, and at the root (where '#' alone skips a topic starting with an empty level) *)
Definition mroot (atroot : bool) (p t : list lvl) : bool :=
  match t with
  | x :: _ => if atroot && is_emptyl x then
                match p with [h] => if is_hash h then false else mlev p t | _ => mlev p t end
              else mlev p t
  | [] => mlev p t
  end.

Lemma mlev_nil p : mlev p [] = true <-> p = [] \/ p = [LHash].
Proof.
  destruct p as [|h [|h2 f]]; cbn [mlev].
  - split; auto.
  - destruct (is_hash h) eqn:E.
    + apply is_hash_eq in E. subst. split; auto.
    + split; [discriminate|]. intros [H|H]; [discriminate|]. inversion H; subst. discriminate.
  - split; [discriminate|]. intros [H|H]; discriminate.
Qed.

Lemma mlev_cons p l t : mlev p (l :: t) = true <->
  p = [LHash] \/ (exists h p', p = h :: p' /\ p <> [LHash] /\ (h = LPlus \/ h = l) /\ mlev p' t = true).
Proof.
  destruct p as [|h [|h2 f]]; cbn [mlev].
  - split; [discriminate|]. intros [H|[h [p' [H _]]]]; discriminate.
  - destruct (is_hash h) eqn:E.
    + apply is_hash_eq in E. subst. split; auto.
    + assert (h <> LHash) as Hne by (intros ->; discriminate).
      split.
      * intros H. destruct t as [|]; [|discriminate]. right. exists h, []. split; [reflexivity|].
        split; [intros Hc; inversion Hc; contradiction|].
        apply orb_true_iff in H. split; [|reflexivity]. destruct H as [H|H]; [left; apply is_plus_eq; exact H|right; apply lvl_eqb_eq; exact H].
      * intros [H|[h0 [p' [H [_ [Hm Hr]]]]]].
        -- inversion H; subst. contradiction.
        -- inversion H; subst. cbn [mlev] in Hr. destruct t; [|discriminate]. apply orb_true_iff.
           destruct Hm as [->| ->]; [left; reflexivity|right; apply lvl_eqb_refl].
  - split.
    + intros H. apply andb_true_iff in H. destruct H as [Hm Hr].
      right. exists h, (h2 :: f). split; [reflexivity|]. split; [discriminate|]. split; [|exact Hr].
      apply orb_true_iff in Hm. destruct Hm as [H|H]; [left; apply is_plus_eq; exact H|right; apply lvl_eqb_eq; exact H].
    + intros [H|[h0 [p' [H [_ [Hm Hr]]]]]]; [discriminate|].
      inversion H; subst. apply andb_true_iff. split; [|exact Hr]. apply orb_true_iff.
      destruct Hm as [->| ->]; [left; reflexivity|right; apply lvl_eqb_refl].
Qed.

Lemma hash_subs_in n x : wf n -> (In x (hash_subs n) <-> In ([LHash], x) (tsubs n)).
Proof.
  intros Hwf. destruct n as [ss r ks]. unfold hash_subs. cbn [nkids]. inversion Hwf as [? ? ? Hnd Hk]; subst.
  rewrite tsubs_in. split.
  - destruct (findk LHash ks) as [h|] eqn:E; [|intros []]. intros Hx. right. exists LHash, h, [].
    split; [reflexivity|]. split; [apply findk_in; assumption|]. destruct h as [hs hr hk]. apply tsubs_in. left. auto.
  - intros [[H _]|[l [c [p' [H [Hin Ht]]]]]]; [discriminate|]. inversion H; subst.
    apply (findk_in _ _ _ Hnd) in Hin. rewrite Hin. destruct c as [cs cr ck]. apply tsubs_in in Ht.
    destruct Ht as [[_ Hx]|[l [c [p'' [H' _]]]]]; [exact Hx|discriminate].
Qed.

Lemma search_spec t : forall n atroot, wf n -> valid_topic t = true ->
  forall x, In x (search atroot t n) <-> exists p, In (p, x) (tsubs n) /\ mroot atroot p t = true.
Proof.
  induction t as [|l t IH]; intros n atroot Hwf Hvt x.
  - cbn [search mroot]. rewrite in_app_iff. split.
    + intros [H|H].
      * exists []. split; [|reflexivity]. destruct n as [ss r ks]. apply tsubs_in. left. auto.
      * exists [LHash]. split; [apply hash_subs_in; assumption|reflexivity].
    + intros [p [Hin Hm]]. apply mlev_nil in Hm. destruct Hm as [->| ->].
      * left. destruct n as [ss r ks]. apply tsubs_in in Hin. destruct Hin as [[_ H]|[? [? [? [H _]]]]]; [exact H|discriminate].
      * right. apply hash_subs_in; assumption.
  - cbn [valid_topic forallb] in Hvt. apply andb_true_iff in Hvt. destruct Hvt as [Hl Hvt].
    apply negb_true_iff, orb_false_iff in Hl. destruct Hl as [Hlp Hlh].
    assert (l <> LPlus) as Hnp by (intros ->; discriminate).
    assert (l <> LHash) as Hnh by (intros ->; discriminate).
    destruct n as [ss r ks]. inversion Hwf as [? ? ? Hnd Hk]; subst.
    cbn [search nkids]. rewrite !in_app_iff. split.
    + intros [H|[H|H]].
      * (* '#' child of this node *)
        destruct (atroot && is_emptyl l) eqn:Ex; [destruct H|].
        exists [LHash]. split; [apply hash_subs_in; assumption|]. cbn [mroot]. rewrite Ex. reflexivity.
      * destruct (findk l ks) as [c|] eqn:E; [|destruct H].
        apply (IH c false (wf_kid _ _ _ _ _ Hwf E) Hvt) in H. destruct H as [p' [Hin Hm]].
        exists (l :: p'). split; [apply tsubs_in; right; exists l, c, p'; split; [reflexivity|]; split; [apply findk_in; assumption|exact Hin]|].
        assert (mlev (l :: p') (l :: t) = true) as Hml.
        { apply mlev_cons. right. exists l, p'. split; [reflexivity|].
          split; [intros Hc; inversion Hc; subst; contradiction|]. split; [right; reflexivity|].
          destruct t; exact Hm. }
        cbn [mroot]. destruct (atroot && is_emptyl l); [|exact Hml].
        destruct p' as [|? ?]; [|exact Hml]. destruct (is_hash l) eqn:E2; [apply is_hash_eq in E2; contradiction|exact Hml].
      * destruct (findk LPlus ks) as [c|] eqn:E; [|destruct H].
        apply (IH c false (wf_kid _ _ _ _ _ Hwf E) Hvt) in H. destruct H as [p' [Hin Hm]].
        exists (LPlus :: p'). split; [apply tsubs_in; right; exists LPlus, c, p'; split; [reflexivity|]; split; [apply findk_in; assumption|exact Hin]|].
        assert (mlev (LPlus :: p') (l :: t) = true) as Hml.
        { apply mlev_cons. right. exists LPlus, p'. split; [reflexivity|]. split; [discriminate|]. split; [left; reflexivity|].
          destruct t; exact Hm. }
        cbn [mroot]. destruct (atroot && is_emptyl l); [|exact Hml].
        destruct p' as [|? ?]; [|exact Hml]. exact Hml.
    + intros [p [Hin Hm]].
      assert (mlev p (l :: t) = true /\ (atroot && is_emptyl l = true -> p <> [LHash])) as [Hml Hex].
      { cbn [mroot] in Hm. destruct (atroot && is_emptyl l).
        - destruct p as [|h [|h2 f]]; try (split; [exact Hm|intros _; discriminate]).
          destruct (is_hash h) eqn:E; [discriminate|]. split; [exact Hm|]. intros _ Hc. inversion Hc; subst. discriminate.
        - split; [exact Hm|discriminate]. }
      apply mlev_cons in Hml. destruct Hml as [->|[h [p' [-> [Hne [Hm' Hr]]]]]].
      * left. destruct (atroot && is_emptyl l) eqn:Ex; [exfalso; apply Hex; reflexivity|]. apply hash_subs_in; assumption.
      * apply tsubs_in in Hin. destruct Hin as [[H _]|[l0 [c [p'' [H [Hk' Ht]]]]]]; [discriminate|]. inversion H; subst.
        apply (findk_in _ _ _ Hnd) in Hk'.
        assert (mroot false p'' t = true) as Hmr by (destruct t; exact Hr).
        destruct Hm' as [->| ->]; right; [right|left]; rewrite Hk';
          apply (IH c false (wf_kid _ _ _ _ _ Hwf Hk') Hvt); exists p''; auto.
Qed.

Theorem search_top_spec t root : wf root -> valid_topic t = true ->
  forall x, In x (search_top t root) <-> exists p, In (p, x) (tsubs root) /\ matches p t = true.
Proof.
  intros Hwf Hvt x. destruct t as [|l t].
  - cbn [search_top matches]. rewrite (search_spec [] root true Hwf Hvt). reflexivity.
  - cbn [search_top matches]. destruct (is_dollar l) eqn:Ed.
    + cbn [valid_topic forallb] in Hvt. apply andb_true_iff in Hvt. destruct Hvt as [_ Hvt].
      destruct root as [ss r ks]. inversion Hwf as [? ? ? Hnd Hk]; subst. cbn [nkids]. split.
      * destruct (findk l ks) as [c|] eqn:E; [|intros []]. intros H.
        apply (search_spec t c false (wf_kid _ _ _ _ _ Hwf E) Hvt) in H. destruct H as [p' [Hin Hm]].
        exists (l :: p'). split; [apply tsubs_in; right; exists l, c, p'; split; [reflexivity|]; split; [apply findk_in; assumption|exact Hin]|].
        rewrite lvl_eqb_refl. cbn [andb]. destruct t; exact Hm.
      * intros [p [Hin Hm]]. destruct p as [|h p']; [discriminate|]. apply andb_true_iff in Hm. destruct Hm as [He Hm].
        apply lvl_eqb_eq in He. subst. apply tsubs_in in Hin. destruct Hin as [[H _]|[l0 [c [p'' [H [Hk' Ht]]]]]]; [discriminate|].
        inversion H; subst. apply (findk_in _ _ _ Hnd) in Hk'. rewrite Hk'.
        apply (search_spec t c false (wf_kid _ _ _ _ _ Hwf Hk') Hvt). exists p''. split; [exact Ht|]. destruct t; exact Hm.
    + rewrite (search_spec (l :: t) root true Hwf Hvt). cbn [mroot andb].
      split; intros [p [Hin Hm]]; exists p; (split; [exact Hin|]).
      * destruct (is_emptyl l); [|exact Hm]. destruct p as [|h [|h2 f]]; exact Hm.
      * destruct (is_emptyl l); [|exact Hm]. destruct p as [|h [|h2 f]]; exact Hm.
Qed.
