(* TrieRetained.v — the filter-driven retained walk (retainSearch of both providers) returns exactly
   the unexpired retained messages whose topics match the filter (Match.matches), for every
   well-formed tree whose retained topics are wildcard-free.  C07. *)
From Coq Require Import List NArith Bool Arith Lia.
Import ListNotations.
From VMQ Require Import model.Trie model.Match proofs.TrieProofs.
Open Scope N_scope.

(* ---------- all (topic path, retained message) pairs of a tree ---------- *)
Fixpoint trets (n : node) : list (list lvl * msg) :=
  match n with
  | Node _ r ks =>
      match r with Some m => [([], m)] | None => [] end ++
      (fix go (ks : list (lvl * node)) : list (list lvl * msg) :=
         match ks with
         | [] => []
         | (l, c) :: r => map (fun px => (l :: fst px, snd px)) (trets c) ++ go r
         end) ks
  end.

Lemma trets_in ss r ks p m :
  In (p, m) (trets (Node ss r ks)) <->
  (p = [] /\ r = Some m) \/ exists l c p', p = l :: p' /\ In (l, c) ks /\ In (p', m) (trets c).
Proof.
  cbn [trets]. rewrite in_app_iff. split.
  - intros [H|H].
    + destruct r as [m0|]; [|destruct H]. destruct H as [H|[]]. inversion H; subst. left. auto.
    + right. induction ks as [|[l c] ks IH]; [destruct H|]. apply in_app_or in H. destruct H as [H|H].
      * apply in_map_iff in H. destruct H as [[p' y] [He Hy]]. cbn [fst snd] in He. inversion He; subst.
        exists l, c, p'. split; [reflexivity|]. split; [left; reflexivity|exact Hy].
      * destruct (IH H) as [l' [c' [p' [Hp [Hin Ht]]]]]. exists l', c', p'. split; [exact Hp|]. split; [right; exact Hin|exact Ht].
  - intros [[-> ->]|[l [c [p' [-> [Hin Ht]]]]]].
    + left. left. reflexivity.
    + right. induction ks as [|[l0 c0] ks IH]; [destruct Hin|]. apply in_or_app. destruct Hin as [He|Hin].
      * inversion He; subst. left. apply in_map_iff. exists (p', m). auto.
      * right. apply IH. exact Hin.
Qed.

Definition live (m : msg) : Prop := m_expired m = false.

Lemma live_ret_in n m : In m (live_ret n) <-> nret n = Some m /\ live m.
Proof.
  unfold live_ret, live. destruct (nret n) as [m0|]; [|split; [intros []|intros [H _]; discriminate]].
  destruct (m_expired m0) eqn:E; cbn [In]; split.
  - intros [].
  - intros [H1 H2]. inversion H1; subst. congruence.
  - intros [H|[]]. subst. auto.
  - intros [H1 _]. inversion H1. left. reflexivity.
Qed.

(* ---------- the whole-subtree walk ---------- *)
Lemma depth_kid ss r ks l c : In (l, c) ks -> (depth c < depth (Node ss r ks))%nat.
Proof.
  cbn [depth]. intros Hin. apply Nat.lt_succ_r. induction ks as [|[l0 c0] ks IH]; [destruct Hin|].
  cbn [fold_right snd]. destruct Hin as [H|H]; [inversion H; subst; apply Nat.le_max_l|].
  etransitivity; [apply IH; exact H | apply Nat.le_max_r].
Qed.

Lemma all_ret_spec k : forall n, (depth n <= k)%nat ->
  forall m, In m (all_ret k n) <-> exists p, In (p, m) (trets n) /\ live m.
Proof.
  induction k as [|k IH]; intros n Hd m.
  - destruct n; cbn [depth] in Hd. lia.
  - destruct n as [ss r ks]. cbn [all_ret nkids]. rewrite in_app_iff, live_ret_in. cbn [nret]. split.
    + intros [[Hr Hl]|H].
      * exists []. split; [apply trets_in; left; auto | exact Hl].
      * apply in_flat_map in H. destruct H as [[l c] [Hin Hm]]. cbn [snd] in Hm.
        apply IH in Hm; [|pose proof (depth_kid ss r ks l c Hin); lia].
        destruct Hm as [p [Hp Hl]]. exists (l :: p). split; [apply trets_in; right; exists l, c, p; auto | exact Hl].
    + intros [p [Hp Hl]]. apply trets_in in Hp. destruct Hp as [[-> Hr]|[l [c [p' [-> [Hin Ht]]]]]].
      * left. auto.
      * right. apply in_flat_map. exists (l, c). split; [exact Hin|]. cbn [snd].
        apply IH; [pose proof (depth_kid ss r ks l c Hin); lia|]. exists p'. auto.
Qed.

Lemma all_retained_spec n m : In m (all_retained n) <-> exists p, In (p, m) (trets n) /\ live m.
Proof. apply all_ret_spec. apply Nat.le_refl. Qed.

(* ---------- hypotheses on the tree and the filter ---------- *)
Definition vpaths (n : node) : Prop := forall p m, In (p, m) (trets n) -> valid_topic p = true.

Lemma vpaths_kid ss r ks l c : vpaths (Node ss r ks) -> In (l, c) ks -> vpaths c.
Proof.
  intros Hv Hin p m Hp. assert (H : In (l :: p, m) (trets (Node ss r ks))) by (apply trets_in; right; exists l, c, p; auto).
  apply Hv in H. cbn [valid_topic forallb] in H. apply andb_prop in H. exact (proj2 H).
Qed.

Lemma vpaths_head ss r ks l c p m : vpaths (Node ss r ks) -> In (l, c) ks -> In (p, m) (trets c) ->
  is_plus l = false /\ is_hash l = false.
Proof.
  intros Hv Hin Hp. assert (H : In (l :: p, m) (trets (Node ss r ks))) by (apply trets_in; right; exists l, c, p; auto).
  apply Hv in H. cbn [valid_topic forallb] in H. apply andb_prop in H. destruct H as [H _].
  apply negb_true_iff in H. apply orb_false_iff in H. exact H.
Qed.

(* '#' only as the last level of a filter *)
Fixpoint vfilter (f : list lvl) : bool :=
  match f with
  | [] => true
  | [h] => true
  | h :: r => negb (is_hash h) && vfilter r
  end.

Lemma vfilter_tail h f : vfilter (h :: f) = true -> vfilter f = true /\ (f <> [] -> is_hash h = false).
Proof.
  destruct f as [|h2 f]; cbn [vfilter]; [intros _; split; [reflexivity | intros H; contradiction]|].
  intros H. apply andb_prop in H. destruct H as [H1 H2]. split; [exact H2|]. intros _. apply negb_true_iff. exact H1.
Qed.

(* matching of the walk below / at the root: at the root '+' does not descend into '$' levels *)
Definition rmatch (atroot : bool) (f t : list lvl) : bool :=
  mlev f t && negb (atroot && match f, t with h :: _, x :: _ => is_plus h && is_dollar x | _, _ => false end).

Lemma in_flat_map_kids {A} (g : lvl * node -> list A) ks x :
  In x (flat_map g ks) <-> exists l c, In (l, c) ks /\ In x (g (l, c)).
Proof.
  rewrite in_flat_map. split; [intros [[l c] H]; exists l, c; exact H | intros [l [c H]]; exists (l, c); exact H].
Qed.

Lemma ret_search_spec f : forall n atroot, wf n -> vpaths n -> vfilter f = true ->
  forall m, In m (ret_search atroot f n) <-> exists t, In (t, m) (trets n) /\ live m /\ rmatch atroot f t = true.
Proof.
  induction f as [|l f IH]; intros n atroot Hwf Hv Hvf m; destruct n as [ss r ks]; inversion Hwf as [? ? ? Hnd Hk]; subst.
  - (* end of the filter: this node's message *)
    cbn [ret_search nkids]. rewrite in_app_iff, live_ret_in. cbn [nret]. split.
    + intros [[Hr Hl]|H].
      * exists []. split; [apply trets_in; left; auto|]. split; [exact Hl|]. unfold rmatch. cbn. destruct atroot; reflexivity.
      * exfalso. destruct (findk LHash ks) as [h|] eqn:Hf; [|destruct H]. apply all_retained_spec in H. destruct H as [p [Hp _]].
        apply findk_in in Hf; [|exact Hnd]. destruct (vpaths_head ss r ks LHash h p m Hv Hf Hp) as [_ E]. discriminate.
    + intros [t [Ht [Hl Hm]]]. unfold rmatch in Hm. apply andb_prop in Hm. destruct Hm as [Hm _].
      destruct t as [|x t]; [|cbn in Hm; discriminate]. apply trets_in in Ht. destruct Ht as [[_ Hr]|[l [c [p' [E _]]]]]; [left; auto|discriminate].
  - destruct (vfilter_tail l f Hvf) as [Hvf' Hnh]. cbn [ret_search nkids].
    destruct (is_hash l) eqn:Eh.
    + (* '#': the whole subtree *)
      assert (f = []) by (destruct f; [reflexivity | specialize (Hnh ltac:(discriminate)); congruence]). subst f.
      apply is_hash_eq in Eh. subst l. rewrite all_retained_spec. split.
      * intros [p [Hp Hl]]. exists p. split; [exact Hp|]. split; [exact Hl|]. unfold rmatch. cbn [mlev]. cbn. destruct p; destruct atroot; reflexivity.
      * intros [t [Ht [Hl _]]]. exists t. auto.
    + destruct (is_plus l) eqn:Ep.
      * (* '+': every child (at the root: except '$' ones) *)
        apply is_plus_eq in Ep. subst l. rewrite in_flat_map_kids. split.
        -- intros [x [c [Hin Hm]]]. cbn [fst snd] in Hm.
           destruct (atroot && is_dollar x) eqn:Ed; [destruct Hm|].
           apply (IH c false (Hk x c Hin) (vpaths_kid ss r ks x c Hv Hin) Hvf') in Hm. destruct Hm as [t' [Ht' [Hl Hm]]].
           exists (x :: t'). split; [apply trets_in; right; exists x, c, t'; auto|]. split; [exact Hl|].
           unfold rmatch in *. apply andb_prop in Hm. destruct Hm as [Hm _]. apply andb_true_intro. split.
           ++ apply mlev_cons. right. exists LPlus, f. split; [reflexivity|]. split; [intros E; inversion E|]. split; [left; reflexivity | exact Hm].
           ++ cbn. rewrite Ed. reflexivity.
        -- intros [t [Ht [Hl Hm]]]. unfold rmatch in Hm. apply andb_prop in Hm. destruct Hm as [Hm Hr].
           destruct t as [|x t']; [apply mlev_nil in Hm; destruct Hm as [E|E]; inversion E|].
           apply trets_in in Ht. destruct Ht as [[E _]|[x' [c [p' [E [Hin Ht']]]]]]; [discriminate|]. inversion E; subst x' p'.
           apply mlev_cons in Hm. destruct Hm as [E1|[h [p' [E1 [_ [_ Hm]]]]]]; [inversion E1|]. inversion E1; subst h p'.
           exists x, c. split; [exact Hin|]. cbn [fst snd].
           cbn in Hr. apply negb_true_iff in Hr. rewrite Hr.
           apply (IH c false (Hk x c Hin) (vpaths_kid ss r ks x c Hv Hin) Hvf'). exists t'. split; [exact Ht'|]. split; [exact Hl|].
           unfold rmatch. rewrite Hm. reflexivity.
      * (* a literal level *)
        assert (Hnp : l <> LPlus) by (intros ->; discriminate). assert (Hnhs : l <> LHash) by (intros ->; discriminate).
        split.
        -- destruct (findk l ks) as [c|] eqn:Hf; [|intros []]. apply findk_in in Hf; [|exact Hnd]. intros Hm.
           apply (IH c false (Hk l c Hf) (vpaths_kid ss r ks l c Hv Hf) Hvf') in Hm. destruct Hm as [t' [Ht' [Hl Hm]]].
           exists (l :: t'). split; [apply trets_in; right; exists l, c, t'; auto|]. split; [exact Hl|].
           unfold rmatch in *. apply andb_prop in Hm. destruct Hm as [Hm _]. apply andb_true_intro. split.
           ++ apply mlev_cons. right. exists l, f. split; [reflexivity|]. split; [intros E; inversion E; contradiction|]. split; [right; reflexivity | exact Hm].
           ++ cbn. rewrite Ep. cbn. rewrite andb_false_r. reflexivity.
        -- intros [t [Ht [Hl Hm]]]. unfold rmatch in Hm. apply andb_prop in Hm. destruct Hm as [Hm _].
           destruct t as [|x t']; [apply mlev_nil in Hm; destruct Hm as [E|E]; inversion E; contradiction|].
           apply trets_in in Ht. destruct Ht as [[E _]|[x' [c [p' [E [Hin Ht']]]]]]; [discriminate|]. inversion E; subst x' p'.
           apply mlev_cons in Hm. destruct Hm as [E1|[h [p' [E1 [_ [Hh Hm]]]]]]; [inversion E1; contradiction|]. inversion E1; subst h p'.
           destruct Hh as [Hh|Hh]; [contradiction|]. subst x.
           assert (Hf : findk l ks = Some c) by (apply findk_in; assumption). rewrite Hf.
           apply (IH c false (Hk l c Hin) (vpaths_kid ss r ks l c Hv Hin) Hvf'). exists t'. split; [exact Ht'|]. split; [exact Hl|].
           unfold rmatch. rewrite Hm. reflexivity.
Qed.

Lemma is_dollar_head x : is_dollar x = true -> exists r, x = 36 :: r.
Proof.
  destruct x as [|a x]; cbn [is_dollar]; [discriminate|]. intros H.
  destruct a as [|p]; [discriminate|].
  destruct p as [p|p|]; try discriminate.
  destruct p as [p|p|]; try discriminate.
  destruct p as [p|p|]; try discriminate.
  destruct p as [p|p|]; try discriminate.
  destruct p as [p|p|]; try discriminate.
  destruct p as [p|p|]; try discriminate.
  exists x. reflexivity.
Qed.

Lemma is_dollar_not_special x : is_dollar x = true -> is_plus x = false /\ is_hash x = false /\ is_emptyl x = false.
Proof. intros H. destruct (is_dollar_head x H) as [r ->]. repeat split. Qed.

(* the walk from the root *)
Theorem ret_search_top_spec f root : wf root -> vpaths root -> nret root = None -> vfilter f = true ->
  forall m, In m (ret_search_top f root) <-> exists t, In (t, m) (trets root) /\ live m /\ matches f t = true.
Proof.
  intros Hwf Hv Hr Hvf m. destruct root as [ss r ks]. cbn [nret] in Hr. subst r.
  inversion Hwf as [? ? ? Hnd Hk]; subst.
  (* every retained topic below the root has at least one level *)
  assert (Hne : forall t m0, In (t, m0) (trets (Node ss None ks)) -> exists x t' c, t = x :: t' /\ In (x, c) ks /\ In (t', m0) (trets c)).
  { intros t m0 H. apply trets_in in H. destruct H as [[_ E]|[x [c [t' [-> [Hin Ht]]]]]]; [discriminate|]. exists x, t', c. auto. }
  destruct f as [|l f].
  - (* no level at all: nothing (the root holds no message) *)
    cbn [ret_search_top]. rewrite (ret_search_spec [] (Node ss None ks) true Hwf Hv Hvf). split.
    + intros [t [Ht [Hl Hm]]]. exists t. split; [exact Ht|]. split; [exact Hl|].
      destruct (Hne t m Ht) as [x [t' [c [-> _]]]]. unfold rmatch in Hm. cbn in Hm. discriminate.
    + intros [t [Ht [Hl Hm]]]. destruct (Hne t m Ht) as [x [t' [c [-> _]]]].
      unfold matches in Hm. destruct (is_dollar x); [discriminate|]. destruct (is_emptyl x); cbn in Hm; discriminate.
  - destruct (vfilter_tail l f Hvf) as [Hvf' Hnh]. cbn [ret_search_top nkids].
    destruct (is_hash l) eqn:Eh.
    + (* '#' alone: everything except '$' topics and topics whose first level is empty *)
      assert (f = []) by (destruct f; [reflexivity | specialize (Hnh ltac:(discriminate)); congruence]). subst f.
      apply is_hash_eq in Eh. subst l. rewrite in_flat_map_kids. split.
      * intros [x [c [Hin Hm]]]. cbn [fst snd] in Hm. destruct (is_emptyl x || is_dollar x) eqn:E; [destruct Hm|].
        apply orb_false_iff in E. destruct E as [E1 E2].
        apply all_retained_spec in Hm. destruct Hm as [t' [Ht' Hl]]. exists (x :: t').
        split; [apply trets_in; right; exists x, c, t'; auto|]. split; [exact Hl|].
        unfold matches. rewrite E2, E1. reflexivity.
      * intros [t [Ht [Hl Hm]]]. destruct (Hne t m Ht) as [x [t' [c [-> [Hin Ht']]]]]. exists x, c. split; [exact Hin|]. cbn [fst snd].
        unfold matches in Hm. destruct (is_dollar x) eqn:E2.
        -- destruct (is_dollar_not_special x E2) as [_ [Eh _]]. apply andb_prop in Hm. destruct Hm as [Hm _]. apply lvl_eqb_eq in Hm. subst x. discriminate.
        -- destruct (is_emptyl x) eqn:E1; [cbn in Hm; discriminate|]. cbn [orb]. apply all_retained_spec. exists t'. auto.
    + destruct (is_dollar l) eqn:Ed.
      * (* a '$' level: that child only *)
        split.
        -- destruct (findk l ks) as [c|] eqn:Hf; [|intros []]. apply findk_in in Hf; [|exact Hnd]. intros Hm.
           apply (ret_search_spec f c false (Hk l c Hf) (vpaths_kid ss None ks l c Hv Hf) Hvf') in Hm. destruct Hm as [t' [Ht' [Hl Hm]]].
           exists (l :: t'). split; [apply trets_in; right; exists l, c, t'; auto|]. split; [exact Hl|].
           unfold matches. rewrite Ed, lvl_eqb_refl. unfold rmatch in Hm. apply andb_prop in Hm. exact (proj1 Hm).
        -- intros [t [Ht [Hl Hm]]]. destruct (Hne t m Ht) as [x [t' [c [-> [Hin Ht']]]]].
           destruct (is_dollar_not_special l Ed) as [Ep [_ _]].
           assert (Hx : x = l /\ mlev f t' = true).
           { unfold matches in Hm. destruct (is_dollar x) eqn:E2.
             - apply andb_prop in Hm. destruct Hm as [H1 H2]. apply lvl_eqb_eq in H1. auto.
             - assert (Hm' : mlev (l :: f) (x :: t') = true).
               { destruct (is_emptyl x); [|exact Hm]. destruct f; [rewrite Eh in Hm|]; exact Hm. }
               apply mlev_cons in Hm'. destruct Hm' as [E|[h [p' [E [_ [Hh Hm']]]]]]; [inversion E; subst; discriminate|].
               inversion E; subst h p'. destruct Hh as [->| ->]; [discriminate | congruence]. }
           destruct Hx as [-> Hm']. assert (Hf : findk l ks = Some c) by (apply findk_in; assumption). rewrite Hf.
           apply (ret_search_spec f c false (Hk l c Hin) (vpaths_kid ss None ks l c Hv Hin) Hvf'). exists t'. split; [exact Ht'|]. split; [exact Hl|].
           unfold rmatch. rewrite Hm'. reflexivity.
      * (* anything else: the general walk, where '+' does not enter '$' levels *)
        rewrite (ret_search_spec (l :: f) (Node ss None ks) true Hwf Hv Hvf). split.
        -- intros [t [Ht [Hl Hm]]]. exists t. split; [exact Ht|]. split; [exact Hl|].
           destruct (Hne t m Ht) as [x [t' [c [-> _]]]]. unfold rmatch in Hm. apply andb_prop in Hm. destruct Hm as [Hm Hr].
           cbn in Hr. apply negb_true_iff in Hr. unfold matches. destruct (is_dollar x) eqn:E2.
           ++ rewrite andb_true_r in Hr. apply mlev_cons in Hm. destruct Hm as [E|[h [p' [E [_ [Hh Hm]]]]]]; [inversion E; subst; discriminate|].
              inversion E; subst h p'. destruct Hh as [->| ->]; [discriminate | congruence].
           ++ destruct (is_emptyl x); [|exact Hm]. destruct f; [rewrite Eh|]; exact Hm.
        -- intros [t [Ht [Hl Hm]]]. exists t. split; [exact Ht|]. split; [exact Hl|].
           destruct (Hne t m Ht) as [x [t' [c [-> _]]]]. unfold rmatch. unfold matches in Hm. destruct (is_dollar x) eqn:E2.
           ++ apply andb_prop in Hm. destruct Hm as [H1 _]. apply lvl_eqb_eq in H1. subst x. congruence.
           ++ assert (Hm' : mlev (l :: f) (x :: t') = true).
              { destruct (is_emptyl x); [|exact Hm]. destruct f; [rewrite Eh in Hm|]; exact Hm. }
              rewrite Hm'. cbn. rewrite andb_false_r. reflexivity.
Qed.

(* ---------- the retained store after a history ---------- *)
From VMQ Require Import proofs.TrieHistory.

Lemma is_empty_trets n : is_empty n = true -> trets n = [].
Proof. destruct n as [[|] [|] [|]]; cbn; intros H; try discriminate. reflexivity. Qed.

Lemma trets_empty : trets empty_node = [].
Proof. reflexivity. Qed.

(* what a path-rebuilding operation does to the pairs below the child it rebuilds *)
Section Rebuild.
  Variables (ss : list (N * sparams)) (r : option msg) (ks : list (lvl * node)) (l : lvl).
  Hypothesis Hnd : NoDup (map fst ks).

  Definition c0 : node := match findk l ks with Some c => c | None => empty_node end.

  Lemma c0_trets p m : In (p, m) (trets c0) <-> exists c, In (l, c) ks /\ In (p, m) (trets c).
  Proof.
    unfold c0. destruct (findk l ks) as [c|] eqn:Hf.
    - apply findk_in in Hf; [|exact Hnd]. split; [intros H; exists c; auto|].
      intros [c' [Hin Ht]]. assert (c' = c).
      { apply findk_in in Hin; [|exact Hnd]. apply findk_in in Hf; [|exact Hnd]. congruence. }
      subst. exact Ht.
    - rewrite trets_empty. split; [intros []|]. intros [c [Hin _]]. exfalso. exact (findk_none l ks Hf c Hin).
  Qed.

  (* child l replaced by c' whose pairs are described by P *)
  Lemma trets_setk c' (P : list lvl -> msg -> Prop) :
    (forall p m, In (p, m) (trets c') <-> P p m) ->
    forall q m, In (q, m) (trets (Node ss r (setk l c' ks))) <->
      (q = [] /\ r = Some m) \/ (exists p, q = l :: p /\ P p m) \/
      (exists l1 c1 p, q = l1 :: p /\ l1 <> l /\ In (l1, c1) ks /\ In (p, m) (trets c1)).
  Proof.
    intros HP q m. destruct (keys_setk l c' ks Hnd) as [_ Hin']. rewrite trets_in. split.
    - intros [H|[l1 [c1 [p [-> [H1 Ht]]]]]]; [left; exact H|]. apply Hin' in H1. destruct H1 as [[-> ->]|[Hne H1]].
      + right. left. exists p. split; [reflexivity | apply HP; exact Ht].
      + right. right. exists l1, c1, p. auto.
    - intros [H|[[p [-> Hp]]|[l1 [c1 [p [-> [Hne [H1 Ht]]]]]]]]; [left; exact H| |].
      + right. exists l, c', p. split; [reflexivity|]. split; [apply Hin'; left; auto | apply HP; exact Hp].
      + right. exists l1, c1, p. split; [reflexivity|]. split; [apply Hin'; right; auto | exact Ht].
  Qed.

  Lemma trets_delk :
    forall q m, In (q, m) (trets (Node ss r (delk l ks))) <->
      (q = [] /\ r = Some m) \/
      (exists l1 c1 p, q = l1 :: p /\ l1 <> l /\ In (l1, c1) ks /\ In (p, m) (trets c1)).
  Proof.
    intros q m. destruct (keys_delk l ks Hnd) as [_ Hin']. rewrite trets_in. split.
    - intros [H|[l1 [c1 [p [-> [H1 Ht]]]]]]; [left; exact H|]. apply Hin' in H1. destruct H1 as [Hne H1].
      right. exists l1, c1, p. auto.
    - intros [H|[l1 [c1 [p [-> [Hne [H1 Ht]]]]]]]; [left; exact H|].
      right. exists l1, c1, p. split; [reflexivity|]. split; [apply Hin'; auto | exact Ht].
  Qed.

  (* the pairs of the node itself, split by first level *)
  Lemma trets_split q m :
    In (q, m) (trets (Node ss r ks)) <->
      (q = [] /\ r = Some m) \/ (exists p, q = l :: p /\ In (p, m) (trets c0)) \/
      (exists l1 c1 p, q = l1 :: p /\ l1 <> l /\ In (l1, c1) ks /\ In (p, m) (trets c1)).
  Proof.
    rewrite trets_in. split.
    - intros [H|[l1 [c1 [p [-> [H1 Ht]]]]]]; [left; exact H|]. destruct (lvl_eqb l1 l) eqn:E.
      + apply lvl_eqb_eq in E. subst l1. right. left. exists p. split; [reflexivity|]. apply c0_trets. exists c1. auto.
      + apply lvl_eqb_neq in E. right. right. exists l1, c1, p. auto.
    - intros [H|[[p [-> Hp]]|[l1 [c1 [p [-> [_ [H1 Ht]]]]]]]]; [left; exact H| |].
      + apply c0_trets in Hp. destruct Hp as [c [Hc Ht]]. right. exists l, c, p. auto.
      + right. exists l1, c1, p. auto.
  Qed.
End Rebuild.

Lemma ret_insert_trets p : forall m n, wf n ->
  forall q m', In (q, m') (trets (ret_insert p m n)) <-> (q = p /\ m' = m) \/ (In (q, m') (trets n) /\ q <> p).
Proof.
  induction p as [|l p IH]; intros m n Hwf q m'; destruct n as [ss r ks]; inversion Hwf as [? ? ? Hnd Hk]; subst; cbn [ret_insert nsubs nret nkids].
  - rewrite !trets_in. split.
    + intros [[-> E]|[l [c [p' [-> H]]]]]; [inversion E; subst; left; auto|]. right. split; [right; exists l, c, p'; auto | discriminate].
    + intros [[-> ->]|[[[-> E]|[l [c [p' [-> H]]]]] Hne]]; [left; auto | contradiction | right; exists l, c, p'; auto].
  - assert (Hc0 : wf (c0 ks l)).
    { unfold c0. destruct (findk l ks) as [c|] eqn:Hf; [apply (Hk l c); apply findk_in; assumption | apply wf_empty]. }
    rewrite (trets_setk ss r ks l Hnd _ _ (fun p0 m0 => IH m (c0 ks l) Hc0 p0 m0)). rewrite (trets_split ss r ks l Hnd). split.
    + intros [[-> H]|[[p0 [-> [[-> ->]|[H Hne]]]]|H]].
      * right. split; [left; auto | discriminate].
      * left. auto.
      * right. split; [right; left; exists p0; auto|]. intros E. inversion E. contradiction.
      * right. split; [right; right; exact H|]. destruct H as [l1 [c1 [p1 [-> [Hne _]]]]]. intros E. inversion E. contradiction.
    + intros [[-> ->]|[[[-> H]|[[p0 [-> H]]|H]] Hne]].
      * right. left. exists p. auto.
      * left. auto.
      * right. left. exists p0. split; [reflexivity|]. right. split; [exact H|]. intros ->. apply Hne. reflexivity.
      * right. right. exact H.
Qed.

Lemma ret_remove_trets p : forall n, wf n ->
  forall q m', In (q, m') (trets (ret_remove p n)) <-> (In (q, m') (trets n) /\ q <> p).
Proof.
  induction p as [|l p IH]; intros n Hwf q m'; destruct n as [ss r ks]; inversion Hwf as [? ? ? Hnd Hk]; subst; cbn [ret_remove nsubs nret nkids].
  - rewrite !trets_in. split.
    + intros [[_ E]|[l [c [p' [-> H]]]]]; [discriminate|]. split; [right; exists l, c, p'; auto | discriminate].
    + intros [[[-> E]|[l [c [p' [-> H]]]]] Hne]; [contradiction | right; exists l, c, p'; auto].
  - destruct (findk l ks) as [c|] eqn:Hf.
    + assert (Hin : In (l, c) ks) by (apply findk_in; assumption).
      assert (Hc0 : c0 ks l = c) by (unfold c0; rewrite Hf; reflexivity).
      rewrite (trets_split ss r ks l Hnd), Hc0.
      destruct (is_empty (ret_remove p c)) eqn:Em.
      * rewrite (trets_delk ss r ks l Hnd). pose proof (is_empty_trets _ Em) as Hemp. split.
        -- intros [H|H]; [split; [left; exact H | destruct H as [-> _]; discriminate]|].
           split; [right; right; exact H|]. destruct H as [l1 [c1 [p1 [-> [Hne _]]]]]. intros E. inversion E. contradiction.
        -- intros [[H|[[p0 [-> H]]|H]] Hne]; [left; exact H| |right; exact H].
           exfalso. assert (Hx : In (p0, m') (trets (ret_remove p c))).
           { apply (IH c (Hk l c Hin)). split; [exact H|]. intros ->. apply Hne. reflexivity. }
           rewrite Hemp in Hx. destruct Hx.
      * rewrite (trets_setk ss r ks l Hnd _ _ (fun p0 m0 => IH c (Hk l c Hin) p0 m0)). split.
        -- intros [H|[[p0 [-> [H Hne]]]|H]].
           ++ split; [left; exact H | destruct H as [-> _]; discriminate].
           ++ split; [right; left; exists p0; auto|]. intros E. inversion E. contradiction.
           ++ split; [right; right; exact H|]. destruct H as [l1 [c1 [p1 [-> [Hne _]]]]]. intros E. inversion E. contradiction.
        -- intros [[H|[[p0 [-> H]]|H]] Hne]; [left; exact H| |right; right; exact H].
           right. left. exists p0. split; [reflexivity|]. split; [exact H|]. intros ->. apply Hne. reflexivity.
    + split; [|intros [H _]; exact H]. intros H. split; [exact H|]. intros ->.
      apply trets_in in H. destruct H as [[E _]|[l1 [c1 [p' [E [H1 _]]]]]]; [discriminate|]. inversion E; subst.
      exact (findk_none l1 ks Hf c1 H1).
Qed.

Lemma retain_trets p m e ow n : wf n ->
  forall q m', In (q, m') (trets (retain p m e ow n)) <->
    (e = false /\ q = p /\ m' = m) \/ (In (q, m') (trets n) /\ q <> p).
Proof.
  intros Hwf q m'. unfold retain. destruct e.
  - rewrite (ret_remove_trets p n Hwf). split; [intros H; right; exact H | intros [[E _]|H]; [discriminate | exact H]].
  - destruct ((m_qos m =? 0) && negb ow).
    + destruct (ret_remove_spec p n Hwf) as [Hwf' _]. rewrite (ret_insert_trets p m _ Hwf'), (ret_remove_trets p n Hwf).
      split; [intros [H|[[H1 H2] _]]; [left; tauto | right; auto] | intros [[_ H]|H]; [left; exact H | right; tauto]].
    + rewrite (ret_insert_trets p m n Hwf). split; [intros [H|H]; [left; tauto | right; exact H] | intros [[_ H]|H]; [left; exact H | right; exact H]].
Qed.

(* subscribe / unsubscribe never touch a retained message *)
Lemma insert_trets p : forall s sp n, wf n -> forall q m, In (q, m) (trets (fst (insert p s sp n))) <-> In (q, m) (trets n).
Proof.
  induction p as [|l p IH]; intros s sp n Hwf q m; destruct n as [ss r ks]; inversion Hwf as [? ? ? Hnd Hk]; subst; cbn [insert nsubs nret nkids].
  - cbn [fst]. rewrite !trets_in. reflexivity.
  - assert (Hc0 : wf (c0 ks l)).
    { unfold c0. destruct (findk l ks) as [c|] eqn:Hf; [apply (Hk l c); apply findk_in; assumption | apply wf_empty]. }
    pose proof (IH s sp (c0 ks l) Hc0) as IHc. fold (c0 ks l). destruct (insert p s sp (c0 ks l)) as [c' ex]. cbn [fst] in *.
    rewrite (trets_setk ss r ks l Hnd c' (fun p0 m0 => In (p0, m0) (trets (c0 ks l))) IHc). rewrite (trets_split ss r ks l Hnd). reflexivity.
Qed.

Lemma remove_trets p : forall s n, wf n -> forall q m, In (q, m) (trets (fst (remove p s n))) <-> In (q, m) (trets n).
Proof.
  induction p as [|l p IH]; intros s n Hwf q m; destruct n as [ss r ks]; inversion Hwf as [? ? ? Hnd Hk]; subst; cbn [remove nsubs nret nkids].
  - cbn [fst]. rewrite !trets_in. reflexivity.
  - destruct (findk l ks) as [c|] eqn:Hf; [|reflexivity].
    assert (Hin : In (l, c) ks) by (apply findk_in; assumption).
    assert (Hc0 : c0 ks l = c) by (unfold c0; rewrite Hf; reflexivity).
    pose proof (IH s c (Hk l c Hin)) as IHc. destruct (remove p s c) as [c' found]. cbn [fst] in *.
    rewrite (trets_split ss r ks l Hnd), Hc0. destruct (is_empty c') eqn:Em.
    + rewrite (trets_delk ss r ks l Hnd). pose proof (is_empty_trets c' Em) as Hemp. split.
      * intros [H|H]; [left; exact H | right; right; exact H].
      * intros [H|[[p0 [-> H]]|H]]; [left; exact H| |right; exact H].
        apply IHc in H. rewrite Hemp in H. destruct H.
    + rewrite (trets_setk ss r ks l Hnd c' (fun p0 m0 => In (p0, m0) (trets c)) IHc). reflexivity.
Qed.

(* the tree after a history holds exactly the specification's retained map *)
Definition RelR (n : node) (rs : list (list lvl * msg)) : Prop :=
  wf n /\ forall q m, In (q, m) (trets n) <-> In (q, m) rs.

Lemma path_eqb_true a b : path_eqb a b = true <-> a = b.
Proof.
  revert b. induction a as [|x a IH]; intros [|y b]; cbn [path_eqb]; split; intros H; try discriminate; try reflexivity.
  - apply andb_prop in H. destruct H as [H1 H2]. apply lvl_eqb_eq in H1. apply IH in H2. subst. reflexivity.
  - inversion H; subst. rewrite lvl_eqb_refl. cbn. apply IH. reflexivity.
Qed.

Lemma step_relR n rs o : RelR n rs -> RelR (step n o) (abs_ret_step rs o).
Proof.
  intros [Hwf Hs]. destruct o as [f s sp|f s|t mg e ow]; cbn [step abs_ret_step].
  - destruct (insert_spec (split f) s sp n Hwf) as [H1 _]. split; [exact H1|]. intros q m. rewrite insert_trets by exact Hwf. apply Hs.
  - destruct (remove_spec (split f) s n Hwf) as [H1 _]. split; [exact H1|]. intros q m. rewrite remove_trets by exact Hwf. apply Hs.
  - destruct (retain_spec (split t) mg e ow n Hwf) as [H1 _]. split; [exact H1|]. intros q m.
    rewrite (retain_trets (split t) mg e ow n Hwf).
    assert (HF : forall q0 m0, In (q0, m0) (filter (fun x => negb (path_eqb (fst x) (split t))) rs) <-> In (q0, m0) (trets n) /\ q0 <> split t).
    { intros q0 m0. rewrite filter_In. cbn [fst]. rewrite <- Hs. split.
      - intros [H1' H2]. split; [exact H1'|]. intros ->. apply negb_true_iff in H2.
        assert (path_eqb (split t) (split t) = true) by (apply path_eqb_true; reflexivity). congruence.
      - intros [H1' H2]. split; [exact H1'|]. apply negb_true_iff. destruct (path_eqb q0 (split t)) eqn:E; [|reflexivity].
        apply path_eqb_true in E. contradiction. }
    destruct e.
    + rewrite HF. split; [intros [[E _]|H]; [discriminate | exact H] | intros H; right; exact H].
    + cbn [In]. rewrite HF. split.
      * intros [[_ [-> ->]]|H]; [left; reflexivity | right; exact H].
      * intros [E|H]; [inversion E; subst; left; auto | right; exact H].
Qed.

Theorem run_relR h : RelR (run h) (abs_rets h).
Proof.
  unfold run, abs_rets.
  assert (G : forall l n rs, RelR n rs -> RelR (fold_left step l n) (fold_left abs_ret_step l rs)).
  { induction l as [|o l IH]; intros n rs H; cbn [fold_left]; [exact H | apply IH; apply step_relR; exact H]. }
  apply G. split; [apply wf_empty|]. intros q m. rewrite trets_empty. split; intros [].
Qed.

(* every retained topic of a history whose retained publishes name wildcard-free topics is wildcard-free
   and has at least one level *)
Definition valid_history (h : list op) : Prop :=
  forall t mg e ow, In (ORetain t mg e ow) h -> valid_topic (split t) = true.

Lemma split_aux_nonempty cur s : split_aux cur s <> [].
Proof. revert cur. induction s as [|c s IH]; intros cur; cbn [split_aux]; [discriminate|]. destruct (c =? 47); [discriminate | apply IH]. Qed.

Lemma abs_rets_from h : forall rs q m, In (q, m) (fold_left abs_ret_step h rs) ->
  In (q, m) rs \/ exists t mg e ow, In (ORetain t mg e ow) h /\ q = split t.
Proof.
  induction h as [|o h IH]; intros rs q m H; cbn [fold_left] in H; [left; exact H|].
  apply IH in H. destruct H as [H|[t [mg [e [ow [H1 H2]]]]]]; [|right; exists t, mg, e, ow; split; [right; exact H1 | exact H2]].
  destruct o as [f s sp|f s|t mg e ow]; cbn [abs_ret_step] in H; try (left; exact H).
  destruct e.
  - apply filter_In in H. left. exact (proj1 H).
  - destruct H as [H|H]; [inversion H; subst; right; eexists _, _, _, _; split; [left; reflexivity | reflexivity]|].
    apply filter_In in H. left. exact (proj1 H).
Qed.

Theorem retained_walk_history h f : valid_history h -> vfilter (split f) = true ->
  forall m, In m (ret_search_top (split f) (run h)) <->
            exists t, In (t, m) (abs_rets h) /\ live m /\ matches (split f) t = true.
Proof.
  intros Hvh Hvf m. destruct (run_relR h) as [Hwf Hs].
  assert (Hfrom : forall q m0, In (q, m0) (trets (run h)) -> exists t mg e ow, In (ORetain t mg e ow) h /\ q = split t).
  { intros q m0 H. apply Hs in H. apply abs_rets_from in H. destruct H as [[]|H]. exact H. }
  assert (Hv : vpaths (run h)).
  { intros q m0 H. destruct (Hfrom q m0 H) as [t [mg [e [ow [Hin ->]]]]]. apply (Hvh t mg e ow Hin). }
  assert (Hr : nret (run h) = None).
  { destruct (run h) as [ss r ks] eqn:E. cbn [nret]. destruct r as [m0|]; [|reflexivity]. exfalso.
    assert (H : In ([], m0) (trets (Node ss (Some m0) ks))) by (apply trets_in; left; auto).
    destruct (Hfrom [] m0 H) as [t [mg [e [ow [_ Ht]]]]]. unfold split in Ht. symmetry in Ht. exact (split_aux_nonempty [] t Ht). }
  rewrite (ret_search_top_spec (split f) (run h) Hwf Hv Hr Hvf). split.
  - intros [t [Ht H]]. exists t. split; [apply Hs; exact Ht | exact H].
  - intros [t [Ht H]]. exists t. split; [apply Hs; exact Ht | exact H].
Qed.

(* at most one retained message per topic in the specification's store, hence in the tree *)
Lemma abs_rets_nodup h : forall rs, NoDup (map fst rs) -> NoDup (map fst (fold_left abs_ret_step h rs)).
Proof.
  induction h as [|o h IH]; intros rs Hnd; cbn [fold_left]; [exact Hnd|]. apply IH.
  destruct o as [f s sp|f s|t mg e ow]; cbn [abs_ret_step]; try exact Hnd.
  assert (HF : NoDup (map fst (filter (fun x => negb (path_eqb (fst x) (split t))) rs))).
  { clear IH. induction rs as [|[q m] rs IHr]; cbn [filter map fst]; [constructor|].
    cbn [map fst] in Hnd. inversion Hnd as [|? ? Hn Hnd']; subst.
    destruct (negb (path_eqb q (split t))); [|apply IHr; exact Hnd'].
    cbn [map fst]. constructor; [|apply IHr; exact Hnd'].
    intros Hin. apply Hn. apply in_map_iff in Hin. destruct Hin as [[q' m'] [E Hin]]. cbn [fst] in E. subst q'.
    apply filter_In in Hin. apply in_map_iff. exists (q, m'). split; [reflexivity | exact (proj1 Hin)]. }
  destruct e; [exact HF|]. cbn [map fst]. constructor; [|exact HF].
  intros Hin. apply in_map_iff in Hin. destruct Hin as [[q' m'] [E Hin]]. cbn [fst] in E. subst q'.
  apply filter_In in Hin. destruct Hin as [_ Hn]. cbn [fst] in Hn. apply negb_true_iff in Hn.
  assert (path_eqb (split t) (split t) = true) by (apply path_eqb_true; reflexivity). congruence.
Qed.
