From Coq Require Import List ZArith Bool Lia.
Import ListNotations.
From VMQ Require Import gen.Extracted model.KeepAlive.
Open Scope Z_scope.

(* the extracted formula is floor(1.5 K) and lies between K and 3K/2 *)
Lemma keepalive_formula k : 0 <= k -> keepalive_secs k = (3 * k) / 2 /\ k <= keepalive_secs k /\ 2 * keepalive_secs k <= 3 * k.
Proof.
  intros Hk. unfold keepalive_secs. rewrite Z.quot_div_nonneg by lia.
  pose proof (Z.div_mod k 2 ltac:(lia)) as H1. pose proof (Z.mod_pos_bound k 2 ltac:(lia)) as H2.
  pose proof (Z.div_mod (3 * k) 2 ltac:(lia)) as H3. pose proof (Z.mod_pos_bound (3 * k) 2 ltac:(lia)) as H4.
  repeat split; lia.
Qed.

Lemma keepalive_zero : keepalive_secs 0 = 0.
Proof. reflexivity. Qed.

Lemma keepalive_strict k : 2 <= k -> k < keepalive_secs k.
Proof.
  intros Hk. unfold keepalive_secs. rewrite Z.quot_div_nonneg by lia.
  pose proof (Z.div_mod k 2 ltac:(lia)). pose proof (Z.mod_pos_bound k 2 ltac:(lia)). lia.
Qed.

(* silence: closed exactly at last + d *)
Lemma silent_closes d last horizon : 0 < d -> last + d <= horizon -> closes_at d last [] horizon = Some (last + d).
Proof.
  intros Hd Hh. cbn [closes_at]. destruct (d <=? 0) eqn:E; [apply Z.leb_le in E; lia|].
  destruct (last + d <=? horizon) eqn:E2; [reflexivity|apply Z.leb_gt in E2; lia].
Qed.

(* never earlier than d after the last packet, whatever the traffic *)
Lemma never_early d arrivals : forall last horizon t,
  closes_at d last arrivals horizon = Some t -> exists l, (l = last \/ In l arrivals) /\ t = l + d.
Proof.
  induction arrivals as [|a r IH]; intros last horizon t H; cbn [closes_at] in H; destruct (d <=? 0); try discriminate.
  - destruct (last + d <=? horizon); [|discriminate]. inversion H; subst. exists last. auto.
  - destruct (a <? last + d).
    + destruct (IH _ _ _ H) as [l [Hl Ht]]. exists l. split; [|exact Ht].
      destruct Hl as [->|Hin]; right; [left; reflexivity|right; exact Hin].
    + inversion H; subst. exists last. auto.
Qed.

(* traffic with gaps below d: never closed while it lasts, and afterwards at (last arrival) + d *)
Fixpoint gaps_below (d last : Z) (arrivals : list Z) : Prop :=
  match arrivals with [] => True | t :: r => last <= t /\ t < last + d /\ gaps_below d t r end.
Fixpoint last_of (last : Z) (arrivals : list Z) : Z :=
  match arrivals with [] => last | t :: r => last_of t r end.

Lemma active_not_closed d arrivals : forall last horizon, 0 < d -> gaps_below d last arrivals ->
  closes_at d last arrivals horizon =
    (if last_of last arrivals + d <=? horizon then Some (last_of last arrivals + d) else None).
Proof.
  induction arrivals as [|a r IH]; intros last horizon Hd Hg; cbn [closes_at last_of];
    destruct (d <=? 0) eqn:E; try (apply Z.leb_le in E; lia).
  - reflexivity.
  - destruct Hg as [H1 [H2 H3]]. assert (a <? last + d = true) as -> by (apply Z.ltb_lt; exact H2).
    apply IH; assumption.
Qed.

Lemma zero_never_closes last arrivals horizon : closes_at 0 last arrivals horizon = None.
Proof. destruct arrivals; reflexivity. Qed.
