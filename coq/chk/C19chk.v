(* Correspondence check for C19 (times in milliseconds). *)
From Coq Require Import List ZArith Bool.
Import ListNotations.
From VMQ Require Import gen.Extracted model.KeepAlive.
Open Scope Z_scope.

Inductive case :=
(* established connection: forced?, server period, client K, packet send times (ms since CONNACK),
   observation horizon, observed: closed?, time of closure, will seen by a watcher *)
| CKeep (force : bool) (period k : Z) (sends : list Z) (horizon : Z) (closed : bool) (closed_at : Z) (will : bool) (ran : bool)
(* connect phase: connect timeout, observed closure time since the socket was opened *)
| CConn (ct : Z) (horizon : Z) (closed : bool) (closed_at : Z) (ran : bool).

Definition slack : Z := 1500.   (* scheduling slack ABOVE the deadline only; none below *)

Definition within (expected : option Z) (closed : bool) (at_ : Z) : bool :=
  match expected with
  | Some t => closed && (t <=? at_) && (at_ <=? t + slack)
  | None => negb closed
  end.

Definition case_ok (c : case) : bool :=
  match c with
  | CKeep force period k sends horizon closed at_ will ran =>
      let ke := effective_keepalive force period k in
      let exp := closes_at (deadline 1000 ke) 0 sends horizon in
      ran && within exp closed at_
      && (match exp with Some _ => will | None => true end)                 (* closure by deadline is an abnormal end *)
      && (if closed then (ke * 1000 <=? at_ - (fold_left Z.max sends 0)) else true)   (* never before K s of silence *)
  | CConn ct horizon closed at_ ran =>
      ran && within (closes_at (deadline 1000 ct) 0 [] horizon) closed at_
  end.

Fixpoint mismatches_from (i : nat) (cs : list case) : list nat :=
  match cs with
  | [] => []
  | c :: r => if case_ok c then mismatches_from (S i) r else i :: mismatches_from (S i) r
  end.
Definition mismatches := mismatches_from 0.
