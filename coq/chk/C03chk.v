(* Correspondence check for C03/C02: the concrete event sequence performed against the broker is
   replayed through the writer model (pop rounds run to quiescence after every event, as the
   eager writer goroutine does) and the wire output per event is compared with what the client
   received; independently the property oracle is evaluated on the client's own log. *)
From Coq Require Import List NArith ZArith Bool.
Import ListNotations.
From VMQ Require Import model.Flow model.Writer.
Open Scope N_scope.

(* what the client sees of one packet: (kind: 0 = PUBREL, 1..3 = PUBLISH qos 0..2, id, tag, dup) *)
Definition wobs := (N * N * N * bool)%type.
Definition obs_of (p : pkt) : wobs :=
  match pk p with
  | KPub q => (q + 1, pid p, ptag p, pdup p)
  | KPubrel => (0, pid p, 0, false)
  end.

(* [sblind]: the client did not read during this step (it reconnected and dropped while the broker's writer
   was blocked): what the broker wrote is unknown and is not compared *)
Record stepobs := mkStep { sev : ev; swire : list wobs; sblind : bool }.
(* two aggregate case kinds (long runs whose event lists would be too long to replay step by step):
   XWrap: the packet identifiers of a long stream on ONE connection, in arrival order, compressed - WRun a b = the
          identifiers a, a+1, ..., b were issued one after the other, each acknowledged at once; WStuck id = id was
          issued and is never acknowledged.  Compared with the identifier allocation of model/Flow.v.
   XBulk: n QoS 1 messages were handed to the OFFLINE durable session, then it reconnected and acknowledged
          everything it received: got = number of distinct messages that arrived in that connection. *)
Inductive witem := WRun (a b : N) | WStuck (id : N).
(* XAckOrder (through the verif hook connection/ack_verif_test.go): the first message's acknowledgement frees its
   identifier and the writer hands that identifier to the next message inside the release callback: the next
   message got the same identifier; it is registered as unacknowledged afterwards; its own acknowledgement finds it;
   the send quota (1 at the start) is back at 1 in the end. *)
(* XTail: n messages were delivered and acknowledged on one connection, three more delivered and not acknowledged; the
   connection ended, the session came back: [again] = the sequence numbers (0-based) of the retransmissions (DUP set) in
   arrival order - the three, in the order in which they were first sent (WriterProofs.retransmit_before_new) *)
Inductive xcase := XWrap (items : list witem) | XBulk (n got : Z) | XAckOrder (same_id kept released : bool) (quota : Z)
                 | XTail (n : Z) (again : list Z)
(* XOwed: a PUBREC was taken while the writer was blocked, then the connection ended: the next connection was sent
   [pubrels] PUBRELs for it (one), and after PUBCOMP [got] of three QoS 1 messages arrived unacknowledged under
   Receive Maximum 3 (all three: the slot came back) *)
                 | XOwed (pubrels got : Z).

Definition free_run (a b : N) (stuck : list N) : bool :=
  (1 <=? a) && (a <=? b) && (b <=? 65535) && forallb (fun x => (x <? a) || (b <? x)) stuck.

Fixpoint wrap_ok (curid : N) (stuck : list N) (its : list witem) : bool :=
  match its with
  | [] => true
  | WRun a b :: r =>
      match acquire_loop acquire_fuel curid stuck with
      | Some id => (id =? a) && free_run a b stuck && wrap_ok b stuck r
      | None => false
      end
  | WStuck id :: r =>
      match acquire_loop acquire_fuel curid stuck with
      | Some id' => (id' =? id) && wrap_ok id (id :: stuck) r
      | None => false
      end
  end.

Definition xcase_ok (x : xcase) : bool :=
  match x with
  | XWrap its => wrap_ok 0 [] its
  | XBulk n got => (got =? n)%Z
  | XOwed pubrels got => ((pubrels =? 1) && (got =? 3))%Z
  | XTail n again => match again with [a; b; c] => ((a =? n) && (b =? n + 1) && (c =? n + 2))%Z | _ => false end
  | XAckOrder same kept released quota => same && kept && released && (quota =? 1)%Z
  end.

Record case := mkCase { rm0 : Z; offline_q0 : bool; steps : list stepobs; ran : bool; extra : option xcase }.

Definition wobs_eqb (a b : wobs) : bool :=
  let '(a1, a2, a3, a4) := a in let '(b1, b2, b3, b4) := b in
  (a1 =? b1) && (a2 =? b2) && (a3 =? b3) && Bool.eqb a4 b4.
Fixpoint list_eqb {A} (e : A -> A -> bool) (a b : list A) : bool :=
  match a, b with
  | [], [] => true
  | x :: a', y :: b' => e x y && list_eqb e a' b'
  | _, _ => false
  end.

Definition wkey (a : wobs) : N := let '(k, id, tag, d) := a in ((k * 65536 + id) * 1024 + tag) * 2 + (if d then 1 else 0).
Fixpoint winsert (x : wobs) (l : list wobs) : list wobs :=
  match l with [] => [x] | y :: r => if wkey x <=? wkey y then x :: l else y :: winsert x r end.
Definition wsort (l : list wobs) := fold_right winsert [] l.

(* run pop rounds until a round neither emits nor consumes anything *)
Fixpoint saturate (fuel : nat) (now : Z) (w : writer) : outcome * writer * list pkt :=
  match fuel with
  | O => (Fine, w, [])
  | S k =>
      let '(oc, w1, o) := pop_round now w in
      match oc with
      | Fine =>
          let progressed := negb (Nat.eqb (length (q0 w1) + length (q12 w1) + length (qrel w1))
                                          (length (q0 w) + length (q12 w) + length (qrel w))) in
          if progressed then let '(oc2, w2, o2) := saturate k now w1 in (oc2, w2, o ++ o2)
          else (Fine, w1, o)
      | _ => (oc, w1, o)
      end
  end.

Definition qsize (w : writer) : nat :=
  S (length (q0 w) + length (q12 w) + length (qrel w) + length (p_q0 w) + length (p_q12 w) + length (p_unack w)).

Fixpoint check (w : writer) (ss : list stepobs) : bool :=
  match ss with
  | [] => true
  | s :: r =>
      let '(oc, w1, o) := step w (sev s) in
      match oc with
      | Fine =>
          let '(oc2, w2, o2) := saturate (qsize w1) 0 w1 in
          match oc2 with
          | Fine =>
              (* every step as a sequence - also the reconnect: what was unacknowledged comes back in the order in
                 which it was transmitted, and before anything that has never been transmitted *)
              (sblind s || list_eqb wobs_eqb (map obs_of (o ++ o2)) (swire s)) && check w2 r
          | _ => false
          end
      | _ => false
      end
  end.

(* ---- the property oracle on the client's own log (independent of the model) ----
   outstanding: ids of QoS>0 PUBLISH / PUBREL received whose handshake the client has not finished *)
Definition rm_ids (x : N) (l : list N) := filter (fun y => negb (y =? x)) l.
Definition memN (x : N) (l : list N) := existsb (N.eqb x) l.

Fixpoint nodupb (l : list N) : bool :=
  match l with [] => true | x :: r => negb (memN x r) && nodupb r end.

(* oracle state: [out] = handshakes open on the CURRENT connection, [carry] = handshakes left open by
   earlier connections and not yet retransmitted.  Returns None on violation. *)
Definition oracle_wire (rm : Z) (st : list N * list N) (o : wobs) : option (list N * list N) :=
  let '(out, carry) := st in
  let '(k, id, _, dup) := o in
  if k =? 1 then Some st                                  (* QoS 0 *)
  else if id =? 0 then None
  else if memN id out then
         (if (k =? 0) || dup then Some st else None)     (* PUBREL continues; a PUBLISH may only be re-sent as DUP *)
  else if memN id carry then
         (if (k =? 0) || dup
          then let out' := id :: out in
               if (Z.of_nat (length out') <=? rm)%Z then Some (out', rm_ids id carry) else None
          else None)
  else if k =? 0 then None                                (* PUBREL for a handshake that is not open *)
  else let out' := id :: out in
       if (Z.of_nat (length out') <=? rm)%Z then Some (out', carry) else None.

Definition oracle_ev (st : list N * list N) (e : ev) : list N * list N :=
  let '(out, carry) := st in
  match e with
  | EAck _ (APuback id) => (rm_ids id out, rm_ids id carry)
  | EAck _ (APubcomp id) => (rm_ids id out, rm_ids id carry)
  | EAck v5 (APubrec id err) => if v5 && err then (rm_ids id out, rm_ids id carry) else st
  | EOpen _ => ([], out ++ carry)
  | _ => st
  end.

Fixpoint oracle (rm : Z) (st : list N * list N) (ss : list stepobs) : bool :=
  match ss with
  | [] => true
  | s :: r =>
      let rm' := match sev s with EOpen x => x | _ => rm end in
      let st1 := oracle_ev st (sev s) in
      match fold_left (fun acc o => match acc with Some l => oracle_wire rm' l o | None => None end) (swire s) (Some st1) with
      | Some st2 => oracle rm' st2 r
      | None => false
      end
  end.

Definition case_ok (c : case) : bool :=
  ran c && match extra c with
           | Some x => xcase_ok x
           | None => check (init (rm0 c) (offline_q0 c)) (steps c) && oracle (rm0 c) ([], []) (steps c)
           end.

Fixpoint mismatches_from (i : nat) (cs : list case) : list nat :=
  match cs with
  | [] => []
  | c :: r => if case_ok c then mismatches_from (S i) r else i :: mismatches_from (S i) r
  end.
Definition mismatches := mismatches_from 0.

(* debugging aid: the model's wire output per step *)
Fixpoint trace (w : writer) (ss : list stepobs) : list (list wobs) :=
  match ss with
  | [] => []
  | s :: r =>
      let '(oc, w1, o) := step w (sev s) in
      let '(oc2, w2, o2) := saturate (qsize w1) 0 w1 in
      map obs_of (o ++ o2) :: trace w2 r
  end.
