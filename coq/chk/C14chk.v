(* Correspondence check for C14. *)
From Coq Require Import List NArith Bool.
Import ListNotations.
From VMQ Require Import model.Alias.
Open Scope N_scope.

Inductive case :=
(* topics with a flag: the message's expiry has elapsed when the writer dequeues it (it is dropped
   BEFORE any alias is allocated for it) *)
| COut (v5 : bool) (max : N) (topics : list (topic * bool)) (obs : list (option topic * option N)) (ran : bool)
| CIn (maxrx : N) (pkts : list (option topic * option N * bool)) (routed : list topic) (terminated : bool) (reason : N) (ran : bool)
(* a long stream: [distinct] > max topics once each, then the first [repeat] again; summary of what the
   subscriber saw: messages received, smallest / largest alias value used, messages that did not resolve (under
   the receiver's own table) to the topic they were published on, undecodable messages *)
| CBound (max distinct repeat recv alias_min alias_max mismatch undecodable : N) (ran : bool)
(* unacknowledged QoS 1 messages of a durable v5 client that uses topic aliases, across a reconnect: n messages were
   delivered (with aliases) and not acknowledged, the connection ended; on the next connection - whose alias table is
   empty - the n retransmissions must all arrive as well-formed packets and resolve to the topics they were published on *)
| CResume (n recv mismatch undecodable : N) (ran : bool).

Definition opt_eqb (a b : option N) : bool :=
  match a, b with Some x, Some y => x =? y | None, None => true | _, _ => false end.
Fixpoint list_eqb {A B} (e : A -> B -> bool) (a : list A) (b : list B) : bool :=
  match a, b with
  | [], [] => true
  | x :: a', y :: b' => e x y && list_eqb e a' b'
  | _, _ => false
  end.
Definition wp_eqb (p : wpkt) (o : option topic * option N) : bool :=
  opt_eqb (wtopic p) (fst o) && opt_eqb (walias p) (snd o).

Definition routes (os : list rxout) : list topic :=
  flat_map (fun o => match o with RRoute t => [t] | _ => [] end) os.
Definition terminated_m (os : list rxout) : bool :=
  existsb (fun o => match o with RTerminate => true | _ => false end) os.

Definition case_ok (c : case) : bool :=
  match c with
  | COut v5 max tsx obs ran =>
      let ts := map fst (filter (fun x => negb (snd x)) tsx) in
      let max' := if v5 then max else 0 in
      let '(_, ps) := send_all (mkAl [] 0 max') ts in
      ran && list_eqb wp_eqb ps obs
      (* and, independently of the model: the observed packets resolve under the receiver table *)
      && list_eqb opt_eqb (fst (rx_all [] (map (fun o => mkW (fst o) (snd o)) obs))) (map Some ts)
  | CIn maxrx pkts routed term reason ran =>
      let os := rx_run maxrx [] (map (fun x => (mkW (fst (fst x)) (snd (fst x)), snd x)) pkts) in
      ran && list_eqb N.eqb (routes os) routed && Bool.eqb (terminated_m os) term
      && (if term then (reason =? 148) || (reason =? 129) || (reason =? 130) else true)
  | CBound max distinct repeat recv amin amax mismatch undec ran =>
      (* what the model sends for this stream, summarised the same way *)
      ran && (recv =? distinct + repeat) && (mismatch =? 0) && (undec =? 0)
      && (amin =? 1) && (amax =? N.min max distinct)
  | CResume n recv mismatch undec ran => ran && (recv =? n) && (mismatch =? 0) && (undec =? 0)
  end.

Fixpoint mismatches_from (i : nat) (cs : list case) : list nat :=
  match cs with
  | [] => []
  | c :: r => if case_ok c then mismatches_from (S i) r else i :: mismatches_from (S i) r
  end.
Definition mismatches := mismatches_from 0.
