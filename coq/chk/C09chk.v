(* Correspondence check for C09: rounds of operations issued CONCURRENTLY on a topics provider
   (Subscribe / UnSubscribe / Retain from several goroutines, served by the provider's worker
   goroutines), each round followed, at quiescence, by probes.  Within a round every key
   ((filter, subscriber) for subscribe/unsubscribe, topic for retain) is touched by at most one
   operation, so all linearizations end in the same abstract state (props/C09.v,
   C09_distinct_keys_commute): the probes after the round are compared with the sequential model
   applied in the listed order.  A publish issued DURING the round is concurrent with every
   operation of it: it must reach at least the subscriptions the round does not touch and at most
   those plus the ones the round adds. *)
From Coq Require Import List NArith Bool.
Import ListNotations.
From VMQ Require Import model.Trie model.Match chk.C01chk.
Open Scope N_scope.

Inductive hop9 :=
| HBatch (ops : list op) (cpubs : list (list N * list N))   (* concurrent publishes: topic, receivers (sorted) *)
| HPub9 (t : list N) (received : list N)
| HRetQ9 (f : list N) (tags : list N)
(* one goroutine publishes retained messages with tags 1..k on topic t (QoS qos, never an empty payload) while another
   reads Retained(t) over and over.  In every order of these operations the topic has exactly one retained message at
   every moment, and the single writer's messages are stored in order: no read may come back empty, the tags read
   never go back. *)
| HReplace (t : list N) (qos k nreads nempty : N) (monotone : bool)
(* [iters] times: an already expired retained message sits on a topic; six goroutines read Retained(topic) (the read
   path sweeps what has expired) while a seventh publishes a fresh retained message there; at quiescence the topic must
   hold the fresh message - [lost] counts the iterations in which it held nothing.  Every order of "sweep the expired
   one" and "store the fresh one" ends with the fresh one stored. *)
| HSweep (iters lost : N)
(* [iters] rounds of "Retain has returned, then Subscribe" by one caller: [missed] subscriptions were not handed the
   retained message *)
| HAcked (iters missed : N)
(* a session re-subscribes its filter over and over, alternating between (QoS 0, identifier 1) and (QoS 1, identifier 2),
   while publishes are routed to it: every copy must carry the parameters of ONE of the two subscriptions - [mixed]
   counts the copies whose granted QoS, options and identifier do not belong together *)
| HParams (deliveries mixed : N).

Record case9 := mkCase9 { hops9 : list hop9; ran9 : bool }.

Definition is_unsub (o : op) : bool := match o with OUnsub _ _ => true | _ => false end.
Definition is_sub (o : op) : bool := match o with OSub _ _ _ => true | _ => false end.

(* sorted-multiset inclusion *)
Fixpoint subms (a b : list N) : bool :=
  match b with
  | [] => match a with [] => true | _ => false end
  | y :: b' =>
      match a with
      | [] => true
      | x :: a' => if x =? y then subms a' b' else if y <? x then subms a b' else false
      end
  end.

Definition receivers (t : list N) (n : node) : list N := sortN (map fst (search_top (split t) n)).

Fixpoint check9 (n : node) (hs : list hop9) : bool :=
  match hs with
  | [] => true
  | HBatch ops cpubs :: r =>
      let n_min := fold_left step (filter is_unsub ops) n in      (* only what the round removes is gone *)
      let n_max := fold_left step (filter is_sub ops) n in        (* only what the round adds is there *)
      forallb (fun tr => subms (receivers (fst tr) n_min) (snd tr) && subms (snd tr) (receivers (fst tr) n_max)) cpubs
      && check9 (fold_left step ops n) r
  | HPub9 t recv :: r => list_eqb (receivers t n) recv && check9 n r
  | HRetQ9 f tags :: r => list_eqb (sortN (map rkey (ret_search_top (split f) n))) tags && check9 n r
  | HReplace t q k nr ne mono :: r =>
      (0 <? nr) && (ne =? 0) && mono && check9 (step n (ORetain t (mkMsg k q false) false true)) r
  | HSweep iters lost :: r => (0 <? iters) && (lost =? 0) && check9 n r
  | HAcked iters missed :: r => (0 <? iters) && (missed =? 0) && check9 n r
  | HParams nd mixed :: r => (0 <? nd) && (mixed =? 0) && check9 n r
  end.

Definition case_ok9 (c : case9) : bool := ran9 c && check9 empty_node (hops9 c).

Fixpoint mismatches9_from (i : nat) (cs : list case9) : list nat :=
  match cs with
  | [] => []
  | c :: r => if case_ok9 c then mismatches9_from (S i) r else i :: mismatches9_from (S i) r
  end.
Definition mismatches := mismatches9_from 0.

(* debugging aid: index of the first disagreeing hop and the model's value there *)
Fixpoint first_bad9 (i : nat) (n : node) (hs : list hop9) : option (nat * list N) :=
  match hs with
  | [] => None
  | HBatch ops cpubs :: r =>
      let n_min := fold_left step (filter is_unsub ops) n in
      let n_max := fold_left step (filter is_sub ops) n in
      match filter (fun tr => negb (subms (receivers (fst tr) n_min) (snd tr) && subms (snd tr) (receivers (fst tr) n_max))) cpubs with
      | tr :: _ => Some (i, receivers (fst tr) n_min ++ [999] ++ receivers (fst tr) n_max)
      | [] => first_bad9 (S i) (fold_left step ops n) r
      end
  | HPub9 t recv :: r => if list_eqb (receivers t n) recv then first_bad9 (S i) n r else Some (i, receivers t n)
  | HRetQ9 f tags :: r =>
      if list_eqb (sortN (map rkey (ret_search_top (split f) n))) tags then first_bad9 (S i) n r
      else Some (i, sortN (map rkey (ret_search_top (split f) n)))
  | HReplace t q k nr ne mono :: r =>
      if (0 <? nr) && (ne =? 0) && mono then first_bad9 (S i) (step n (ORetain t (mkMsg k q false) false true)) r else Some (i, [ne])
  | HSweep iters lost :: r => if (0 <? iters) && (lost =? 0) then first_bad9 (S i) n r else Some (i, [lost])
  | HAcked iters missed :: r => if (0 <? iters) && (missed =? 0) then first_bad9 (S i) n r else Some (i, [missed])
  | HParams nd mixed :: r => if (0 <? nd) && (mixed =? 0) then first_bad9 (S i) n r else Some (i, [mixed])
  end.
