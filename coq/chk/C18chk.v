(* Correspondence check for C18. *)
From Coq Require Import List NArith ZArith Arith Bool.
Import ListNotations.
From VMQ Require Import model.Queue.
Local Open Scope nat_scope.

Definition qop := @op N.
Definition qout := @out N.

Inductive case :=
| CSeq (ops : list qop) (obs : list qout)
(* concurrent: per consumer the removed values (producer id, sequence number); expected per-producer count *)
| CConc (producers per_producer : nat) (consumed : list (list (nat * nat)))
(* OnceWait event log: 0 = f starts, 1 = f ends, 2 = a caller returned *)
| COnce (callers : nat) (log : list nat)
(* pool: size, accepted tasks, executions per task id, maximum number of tasks running at once *)
| CPool (size accepted : nat) (execs : list nat) (max_conc : nat).

Definition out_eqb (a b : qout) : bool :=
  match a, b with
  | RNone, RNone | RNil, RNil | RPanic, RPanic => true
  | RVal x, RVal y => N.eqb x y
  | RLen x, RLen y => Nat.eqb x y
  | _, _ => false
  end.
Fixpoint list_eqb {A} (e : A -> A -> bool) (a b : list A) : bool :=
  match a, b with
  | [], [] => true
  | x :: a', y :: b' => e x y && list_eqb e a' b'
  | _, _ => false
  end.

Fixpoint increasing (last : nat) (l : list nat) : bool :=
  match l with [] => true | x :: r => Nat.ltb last x && increasing x r end.
Definition of_producer (p : nat) (l : list (nat * nat)) : list nat :=
  map snd (filter (fun x => Nat.eqb (fst x) p) l).
Fixpoint count_occ_nat (x : nat) (l : list nat) : nat :=
  match l with [] => 0 | y :: r => (if Nat.eqb x y then 1 else 0) + count_occ_nat x r end.

Definition conc_ok (producers per : nat) (consumed : list (list (nat * nat))) : bool :=
  (* every consumer sees each producer's elements in insertion order *)
  forallb (fun c => forallb (fun p => increasing 0 (of_producer p c)) (seq 0 producers)) consumed
  (* every element exactly once over all consumers *)
  && forallb (fun p => let all := of_producer p (concat consumed) in
                       Nat.eqb (length all) per && forallb (fun s => Nat.eqb (count_occ_nat s all) 1) (seq 1 per))
             (seq 0 producers).

Definition once_ok (callers : nat) (log : list nat) : bool :=
  Nat.eqb (count_occ_nat 0 log) 1 && Nat.eqb (count_occ_nat 1 log) 1 && Nat.eqb (count_occ_nat 2 log) callers
  && (* no caller returns before f has finished *)
  (fix go (l : list nat) (ended : bool) : bool :=
     match l with
     | [] => true
     | 1 :: r => go r true
     | 2 :: r => ended && go r ended
     | _ :: r => go r ended
     end) log false.

Definition pool_ok (size accepted : nat) (execs : list nat) (max_conc : nat) : bool :=
  Nat.eqb (length execs) accepted && forallb (fun n => Nat.eqb n 1) execs && Nat.leb max_conc size.

Definition case_ok (c : case) : bool :=
  match c with
  | CSeq ops obs =>
      list_eqb out_eqb (snd (run 0%N (new_queue 0%N) ops)) obs
      && list_eqb out_eqb (snd (spec_run 0%N [] ops)) obs
  | CConc p per consumed => conc_ok p per consumed
  | COnce n log => once_ok n log
  | CPool size acc execs mc => pool_ok size acc execs mc
  end.

Fixpoint mismatches_from (i : nat) (cs : list case) : list nat :=
  match cs with
  | [] => []
  | c :: r => if case_ok c then mismatches_from (S i) r else i :: mismatches_from (S i) r
  end.
Definition mismatches := mismatches_from 0.
