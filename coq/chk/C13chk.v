(* Correspondence check for C13: arrivals (key, seq) must be in publication order per key,
   where key = (subscriber, publisher, topic, qos) and seq counts from 1 per key; and every
   expected message must have arrived exactly once (the harness waits for quiescence). *)
From Coq Require Import List NArith Arith Bool.
Import ListNotations.

Record case := mkCase { arrivals : list (N * N); expected_total : nat; ran : bool }.

Fixpoint lookup (k : N) (m : list (N * N)) : N :=
  match m with [] => 0%N | (k', v) :: r => if N.eqb k k' then v else lookup k r end.

(* strict: the next arrival for a key must carry exactly last+1 *)
Fixpoint in_order (last : list (N * N)) (a : list (N * N)) : bool :=
  match a with
  | [] => true
  | (k, s) :: r => N.eqb s (lookup k last + 1) && in_order ((k, s) :: last) r
  end.

Definition case_ok (c : case) : bool :=
  ran c && in_order [] (arrivals c) && Nat.eqb (length (arrivals c)) (expected_total c).

Fixpoint mismatches_from (i : nat) (cs : list case) : list nat :=
  match cs with
  | [] => []
  | c :: r => if case_ok c then mismatches_from (S i) r else i :: mismatches_from (S i) r
  end.
Definition mismatches := mismatches_from 0.
