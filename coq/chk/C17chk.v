(* Correspondence check for C17: model run vs. what the implementation's Read returned. *)
From Coq Require Import List NArith Arith Bool.
Import ListNotations.
From VMQ Require Import model.WS.

Inductive obs := ORead (runs : list (N * nat)) | OEof | OBlocked.
Inductive case :=
| CStream (frames : list nat) (sizes : list nat) (o : list obs)
| CHandshake (proto : list N) (accepted : bool)
(* the broker side writes [n] data frames of [size] bytes while its reading side answers PINGs: the client received
   [got] payload bytes in order, in frames that were whole ([whole]) *)
| COut (n size got : nat) (whole : bool)
(* [n] empty binary frames, then a CONNECT in one frame, sent to the whole server: it is answered *)
| CEmpties (n : nat) (answered : bool).

(* byte at stream position p *)
Definition byte_at (p : nat) : N := N.of_nat (p mod 251).
Fixpoint mk_frames (pos : nat) (fs : list nat) : list (list N) :=
  match fs with
  | [] => []
  | f :: r => map byte_at (seq pos f) :: mk_frames (pos + f) r
  end.
Definition expand_run (r : N * nat) : list N :=
  map (fun i => N.modulo (fst r + N.of_nat i) 251) (seq 0 (snd r)).
Definition expand (runs : list (N * nat)) : list N := concat (map expand_run runs).

Fixpoint list_eqb {A} (e : A -> A -> bool) (a b : list A) : bool :=
  match a, b with
  | [], [] => true
  | x :: a', y :: b' => e x y && list_eqb e a' b'
  | _, _ => false
  end.

Definition obs_matches (m : rres N) (o : obs) : bool :=
  match m, o with
  | RBytes bs, ORead runs => list_eqb N.eqb bs (expand runs)
  | REof, OEof => true
  | _, _ => false
  end.

Fixpoint all_match (ms : list (rres N)) (os : list obs) : bool :=
  match ms, os with
  | [], [] => true
  | m :: ms', o :: os' => obs_matches m o && all_match ms' os'
  | _, _ => false
  end.

(* MQTT sub-protocol names a handshake may offer (MQTT 3.1.1 §6 / MQTT 5 §6: "mqtt";
   the version-suffixed forms are what this broker additionally documents). *)
Definition ascii (s : list nat) : list N := map N.of_nat s.
Definition mqtt_protos : list (list N) :=
  let m := [109;113;116;116] in
  map ascii [ m; m ++ [118;51;46;49]; m ++ [86;51;46;49];
              m ++ [118;51;46;49;46;49]; m ++ [86;51;46;49;46;49];
              m ++ [118;53;46;48]; m ++ [86;53;46;48] ].

Definition case_ok (c : case) : bool :=
  match c with
  | CStream fs sizes o =>
      let '(ms, _, _) := ws_run [] (mk_frames 0 fs) sizes in all_match ms o
  | CHandshake p acc => Bool.eqb acc (existsb (list_eqb N.eqb p) mqtt_protos)
  | COut n size got whole => whole && Nat.eqb got (n * size)
  | CEmpties _ answered => answered
  end.

Fixpoint mismatches_from (i : nat) (cs : list case) : list nat :=
  match cs with
  | [] => []
  | c :: r => if case_ok c then mismatches_from (S i) r else i :: mismatches_from (S i) r
  end.
Definition mismatches := mismatches_from 0.
