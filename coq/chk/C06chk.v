(* Correspondence check for C06. *)
From Coq Require Import List NArith Bool.
Import ListNotations.
From VMQ Require Import model.ConnSM.
Open Scope N_scope.

Record stepobs := mkStep { spkt : pkt; sresp : list resp; sclosed : bool }.
Record case := mkCase { opts : copts; steps : list stepobs; bystander_ok : bool; ran : bool }.

Definition resp_eqb (a b : resp) : bool :=
  let '(a1, a2, a3) := a in let '(b1, b2, b3) := b in
  (* DISCONNECT: the property requires a reason, not a particular one (0x82 or 0x81 when the decoder already rejects the packet) *)
  if a1 =? 14 then (b1 =? 14) && negb (b3 =? 0) else (a1 =? b1) && (a2 =? b2) && (a3 =? b3).
Fixpoint list_eqb {A} (e : A -> A -> bool) (a b : list A) : bool :=
  match a, b with
  | [], [] => true
  | x :: a', y :: b' => e x y && list_eqb e a' b'
  | _, _ => false
  end.

Fixpoint check (o : copts) (s : cstate) (ss : list stepobs) : bool :=
  match ss with
  | [] => true
  | x :: r =>
      let '(s1, rs) := step o s (spkt x) in
      list_eqb resp_eqb rs (sresp x)
      && Bool.eqb (match s1 with SClosed => true | _ => false end) (sclosed x)
      && (match s1 with SClosed => match r with [] => true | _ => false end | _ => check o s1 r end)
  end.

Definition case_ok (c : case) : bool := ran c && bystander_ok c && check (opts c) SConnecting (steps c).

Fixpoint mismatches_from (i : nat) (cs : list case) : list nat :=
  match cs with
  | [] => []
  | c :: r => if case_ok c then mismatches_from (S i) r else i :: mismatches_from (S i) r
  end.
Definition mismatches := mismatches_from 0.
