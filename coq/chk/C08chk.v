(* Correspondence check for C08. *)
From Coq Require Import List NArith Bool.
Import ListNotations.
From VMQ Require Import model.Trie model.Deliver.
Open Scope N_scope.

(* observed copy: qos, retain, dup, ids (sorted), payload and topic unchanged? *)
Record ocopy := mkOC { o_qos : N; o_retain : bool; o_dup : bool; o_ids : list N; o_intact : bool }.

Inductive case :=
| CLive (overlap self : bool) (subs : list sparams) (pq : N) (pr : bool) (obs : list ocopy) (ran : bool)
| CRetained (sp : sparams) (rq : N) (obs : list ocopy) (ran : bool).

Fixpoint insertN (x : N) (l : list N) : list N :=
  match l with [] => [x] | y :: r => if x <=? y then x :: l else y :: insertN x r end.
Definition sortN (l : list N) := fold_right insertN [] l.
Fixpoint listN_eqb (a b : list N) : bool :=
  match a, b with [], [] => true | x :: a', y :: b' => (x =? y) && listN_eqb a' b' | _, _ => false end.

(* a total key so that multisets of copies can be compared after sorting *)
Definition key (q : N) (r d : bool) (ids : list N) : N :=
  fold_left (fun a i => a * 64 + i) (sortN ids) (q * 4 + (if r then 2 else 0) + (if d then 1 else 0) + 16).
Definition dkey (d : delivery) : N := key (d_qos d) (d_retain d) (d_dup d) (d_ids d).
Definition okey (o : ocopy) : N := key (o_qos o) (o_retain o) (o_dup o) (o_ids o).

Definition case_ok (c : case) : bool :=
  match c with
  | CLive overlap self subs pq pr obs ran =>
      ran && forallb o_intact obs
      && listN_eqb (sortN (map dkey (deliveries overlap self subs pq pr))) (sortN (map okey obs))
  | CRetained sp rq obs ran =>
      let sends := (sp_rh sp =? 0) || (sp_rh sp =? 1) in     (* the subscription is new in these cases *)
      ran && forallb o_intact obs
      && listN_eqb (sortN (map dkey (if sends then [retained_delivery sp rq] else []))) (sortN (map okey obs))
  end.

Fixpoint mismatches_from (i : nat) (cs : list case) : list nat :=
  match cs with
  | [] => []
  | c :: r => if case_ok c then mismatches_from (S i) r else i :: mismatches_from (S i) r
  end.
Definition mismatches := mismatches_from 0.
