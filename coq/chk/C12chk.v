(* Correspondence check for C12. *)
From Coq Require Import List NArith Arith Bool.
Import ListNotations.
From VMQ Require Import model.Framing.
Local Open Scope nat_scope.

Inductive case :=
(* valid packet sequence: the packets (raw bytes; the first is CONNECT), the segmentation used
   (chunk sizes), the responses (type, id) expected per packet by construction, the responses observed *)
| CSeg (maxsize : nat) (packets : list (list N)) (chunks : list nat) (expected observed : list (N * N)) (closed ran : bool)
(* hostile stream: bystander still served, broker alive *)
| CHostile (bystander_ok alive : bool)
(* oversize header: announced size, configured maximum, bytes allocated by the process while handling it, closed? *)
| COversize (announced maxsize allocated : N) (closed : bool)
(* outbound: Maximum Packet Size announced by the client, largest packet it received, small messages delivered? *)
| COutbound (maxsize largest : nat) (small_delivered : bool)
(* what the broker writes to a client of one protocol version when the messages come from a publisher of another
   (a retained message delivered on SUBSCRIBE, a live publish, a Will): every packet decoded as a packet of the
   connection's version, the expected messages arrived with exactly their topic and payload *)
| CWellFormed (all_decoded exact : bool).

Fixpoint list_eqb {A} (e : A -> A -> bool) (a b : list A) : bool :=
  match a, b with
  | [], [] => true
  | x :: a', y :: b' => e x y && list_eqb e a' b'
  | _, _ => false
  end.
Definition pair_eqb (a b : N * N) : bool := N.eqb (fst a) (fst b) && N.eqb (snd a) (snd b).
Definition fres_bytes (r : fres) : list N := match r with Frame b => b | _ => [] end.
Definition is_frame (r : fres) : bool := match r with Frame _ => true | _ => false end.

Definition case_ok (c : case) : bool :=
  match c with
  | CSeg maxsize pkts chunks expected observed closed ran =>
      let bytes := concat pkts in
      let n := S (length pkts) in
      let frames := fst (read_all n maxsize chunks ([], bytes)) in
      let k := length (filter is_frame frames) in               (* packets accepted before a rejection, if any *)
      let rejected := negb (Nat.eqb k (length pkts)) in
      (* the model, reading with exactly this segmentation, recovers exactly the packets up to the first one
         above the Maximum Packet Size, which it rejects ... *)
      list_eqb (list_eqb N.eqb) (map fres_bytes (filter is_frame frames)) (firstn k pkts)
      && (if rejected then match last frames NeedMore with TooLarge => true | _ => false end else true)
      (* ... as does the independent frame splitter, whatever the segmentation ... *)
      && list_eqb (list_eqb N.eqb) (map fres_bytes (filter is_frame (parse_all n maxsize bytes))) (firstn k pkts)
      && Nat.eqb (length (filter is_frame (parse_all n maxsize bytes))) k
      (* ... and the broker answered every accepted packet, in order, and closed iff one was rejected
         (the close may cut off answers that were still in the writer's queue: then a prefix of them) *)
      && ran && Bool.eqb closed rejected
      && (if rejected then list_eqb pair_eqb (firstn (length observed) (firstn k expected)) observed
          else list_eqb pair_eqb expected observed)
  | CHostile by_ok alive => by_ok && alive
  | COversize announced maxsize allocated closed =>
      closed && N.ltb allocated (N.div announced 2)
  | COutbound maxsize largest small => (largest <=? maxsize) && small
  | CWellFormed dec exact => dec && exact
  end.

Fixpoint mismatches_from (i : nat) (cs : list case) : list nat :=
  match cs with
  | [] => []
  | c :: r => if case_ok c then mismatches_from (S i) r else i :: mismatches_from (S i) r
  end.
Definition mismatches := mismatches_from 0.
