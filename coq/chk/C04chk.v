(* Correspondence check for C04: model step outputs vs. what the broker sent / forwarded per packet. *)
From Coq Require Import List NArith ZArith Bool.
Import ListNotations.
From VMQ Require Import model.Inbound.
Open Scope N_scope.

Record stepobs := mkStep { responses : list (N * N * N); forwards : list N; closed : bool }.
Record case := mkCase { v5 : bool; rm : Z; evs : list ev; steps : list stepobs; ran : bool; pipelined : bool }.

Definition rcode (v5 : bool) (r : reason) : N :=
  if v5 then match r with RSuccess => 0 | RNotAuthorized => 135 | RIdInUse => 145 | RIdNotFound => 146 end else 0.
Definition tcode (t : term) : N := match t with TProtocolError => 130 | TRecvMaxExceeded => 147 end.

(* what must be on the wire for one model output *)
Definition wire (v5 : bool) (o : iout) : list (N * N * N) :=
  match o with
  | IPuback id r => [(4, id, rcode v5 r)]
  | IPubrec id r => [(5, id, rcode v5 r)]
  | IPubcomp id r => [(7, id, rcode v5 r)]
  | IForward _ => []
  | ITerminate t => if v5 then [(14, 0, tcode t)] else []
  end.
Definition fwd (o : iout) : list N := match o with IForward t => [t] | _ => [] end.

Fixpoint insert (x : N) (l : list N) : list N :=
  match l with [] => [x] | y :: r => if x <=? y then x :: l else y :: insert x r end.
Definition sort (l : list N) := fold_right insert [] l.

Fixpoint list_eqb {A} (e : A -> A -> bool) (a b : list A) : bool :=
  match a, b with
  | [], [] => true
  | x :: a', y :: b' => e x y && list_eqb e a' b'
  | _, _ => false
  end.
Definition trip_eqb (a b : N * N * N) : bool :=
  let '(a1, a2, a3) := a in let '(b1, b2, b3) := b in (a1 =? b1) && (a2 =? b2) && (a3 =? b3).

Fixpoint check (v5 : bool) (s : inb) (es : list ev) (ss : list stepobs) : bool :=
  match es, ss with
  | [], [] => true
  | e :: er, so :: sr =>
      let '(s1, o) := step s e in
      let term := existsb is_term o in
      list_eqb trip_eqb (flat_map (wire v5) o) (responses so)
      && list_eqb N.eqb (sort (flat_map fwd o)) (forwards so)
      && Bool.eqb term (closed so)
      && (if term then match sr with [] => true | _ => false end else check v5 s1 er sr)
  | _, _ => false
  end.

(* pipelined: all packets of the case were written back-to-back in one go to a connection whose client was not reading
   (the broker's writer lags behind its reader); the single observed step holds every response in wire order *)
Fixpoint run_all (s : inb) (es : list ev) : list iout :=
  match es with
  | [] => []
  | e :: r => let '(s1, o) := step s e in if existsb is_term o then o else o ++ run_all s1 r
  end.
Definition check_pipe (v5 : bool) (s : inb) (es : list ev) (ss : list stepobs) : bool :=
  match ss with
  | [so] => let o := run_all s es in
            list_eqb trip_eqb (flat_map (wire v5) o) (responses so)
            && list_eqb N.eqb (sort (flat_map fwd o)) (forwards so)
            && Bool.eqb (existsb is_term o) (closed so)
  | _ => false
  end.

Definition case_ok (c : case) : bool :=
  ran c && (if pipelined c then check_pipe (v5 c) (init (rm c)) (evs c) (steps c) else check (v5 c) (init (rm c)) (evs c) (steps c)).

Fixpoint mismatches_from (i : nat) (cs : list case) : list nat :=
  match cs with
  | [] => []
  | c :: r => if case_ok c then mismatches_from (S i) r else i :: mismatches_from (S i) r
  end.
Definition mismatches := mismatches_from 0.
