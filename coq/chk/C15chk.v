(* Correspondence check for C15. *)
From Coq Require Import List NArith Bool.
Import ListNotations.
From VMQ Require Import model.Auth.
Open Scope N_scope.

(* verdict codes: 0 allow, 1 deny, 2 panic *)
Definition vcode (v : verdict) : N := match v with Allow => 0 | Deny => 1 | Panic => 2 end.

Record query := mkQ { q_user : str; q_hash : str; q_topic : str; q_write : bool; o_password : N; o_acl : N }.

Inductive case :=
| CAcl (cfg : auth_cfg) (qs : list query) (load_ok : bool)
(* chain: verdicts of the configured authenticators for the CONNECT, protocol v5?, observed CONNACK code,
   then per authenticator index j: was a publish to the topic only authenticator j forbids routed / retained,
   what reason did the v5 PUBACK carry, and the SUBACK code of the filter only authenticator j forbids;
   finally: a session that was connected under the same client id before a REFUSED attempt is still served *)
| CChain (verdicts : list bool) (v5 : bool) (connack : N)
         (routed retained : list bool) (puback suback suback_shared : list N) (undisturbed : bool) (ran : bool)
(* publishes of one v5 connection (topic number or alias only, alias or 0) under a write ACL that forbids topic 9;
   observed per publish: 10+t routed to topic t | 1 refused, not routed | 2 the connection was closed *)
| CAlias (ps : list (option N * N)) (obs : list N) (ran : bool)
(* a client whose user may not write its Will's topic ([forbidden]) - or may - connects and is cut off: the Will is a
   publish of that user: neither routed nor retained when forbidden (whether the CONNECT is refused or the Will dropped),
   both when allowed *)
| CWill (forbidden v5 : bool) (connack : N) (routed retained : bool) (ran : bool)
(* an authorised QoS 2 PUBLISH waits for its PUBREL, a second one under the same identifier names a forbidden topic, then
   the PUBREL: the authorised message is routed, the forbidden one is neither routed nor retained *)
| CQ2Swap (v5 : bool) (allowed_routed forbidden_routed : bool) (ran : bool).

Definition acode (v : averdict) : N := match v with ARouted t => 10 + t | ADenied => 1 | AProtoErr => 2 end.

Fixpoint list_eqb {A} (e : A -> A -> bool) (a b : list A) : bool :=
  match a, b with
  | [], [] => true
  | x :: a', y :: b' => e x y && list_eqb e a' b'
  | _, _ => false
  end.

Definition case_ok (c : case) : bool :=
  match c with
  | CAcl cfg qs load_ok =>
      let m := build cfg in
      load_ok && forallb (fun q =>
        (vcode (password m (q_user q) (q_hash q)) =? o_password q) &&
        (vcode (acl m (q_user q) (q_topic q) (q_write q)) =? o_acl q)) qs
  | CChain vs v5 connack routed retained puback suback suback_shared undisturbed ran =>
      ran &&
      match password_chain vs 0 with
      | None =>
          (connack =? (if v5 then 135 else 5)) && undisturbed
          && match routed, retained, puback, suback, suback_shared with [], [], [], [], [] => true | _, _, _, _, _ => false end
      | Some k =>
          let idx := seq 0 (length vs) in
          let allowed := map (fun j => negb (Nat.eqb j k)) idx in       (* only the ACCEPTING authenticator's rules apply *)
          (connack =? 0)
          && list_eqb Bool.eqb routed allowed && list_eqb Bool.eqb retained allowed
          && list_eqb N.eqb puback (map (fun a : bool => if a then 0 else (if v5 then 135 else 0)) allowed)
          && list_eqb N.eqb suback (map (fun a : bool => if a then 1 else (if v5 then 135 else 128)) allowed)
          (* v5: the same filters as shared subscriptions $share/<name>/<filter> get the same verdicts *)
          && (if v5 then list_eqb N.eqb suback_shared (map (fun a : bool => if a then 1 else 135) allowed)
              else match suback_shared with [] => true | _ => false end)
      end
  | CAlias ps obs ran =>
      ran && list_eqb N.eqb (map acode (alias_run (fun t => negb (t =? 9)) [] ps)) obs
  | CQ2Swap _ ar fr ran => ran && ar && negb fr
  | CWill forbidden v5 connack routed retained ran =>
      ran && (if forbidden then negb routed && negb retained && ((connack =? 0) || (connack =? (if v5 then 135 else 5)))
              else (connack =? 0) && routed && retained)
  end.

Fixpoint mismatches_from (i : nat) (cs : list case) : list nat :=
  match cs with
  | [] => []
  | c :: r => if case_ok c then mismatches_from (S i) r else i :: mismatches_from (S i) r
  end.
Definition mismatches := mismatches_from 0.
