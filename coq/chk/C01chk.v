(* Correspondence check for C01/C07: a history of operations on a topics provider with recording
   stub subscribers is replayed through Trie.v; every observation is compared with the model AND
   with the specification (Match.v) evaluated on the abstract history. *)
From Coq Require Import List NArith Bool.
Import ListNotations.
From VMQ Require Import model.Trie model.Match.
Open Scope N_scope.

Inductive hop :=
| HOp (o : op) (retained_returned : option (list N))   (* for OSub: tags of the retained messages handed back *)
| HPub (t : list N) (received : list N)                  (* session ids that received it, sorted, with multiplicity *)
| HRetQ (f : list N) (tags : list N).                    (* Retained(filter): tags, sorted *)

Record case := mkCase { hops : list hop; ran : bool }.

Fixpoint insertN (x : N) (l : list N) : list N :=
  match l with [] => [x] | y :: r => if x <=? y then x :: l else y :: insertN x r end.
Definition sortN (l : list N) := fold_right insertN [] l.
Fixpoint list_eqb (a b : list N) : bool :=
  match a, b with
  | [], [] => true
  | x :: a', y :: b' => (x =? y) && list_eqb a' b'
  | _, _ => false
  end.

(* what is observed of a retained message: its payload tag and its QoS *)
Definition rkey (m : msg) : N := m_tag m * 4 + m_qos m.
Definition spec_retained (m : list (list lvl * msg)) (f : list lvl) : list N :=
  map (fun x => rkey (snd x)) (filter (fun x => matches f (fst x) && negb (m_expired (snd x))) m).

Fixpoint check (n : node) (subs : list (skey * sparams)) (rets : list (list lvl * msg)) (hs : list hop) : bool :=
  match hs with
  | [] => true
  | HOp o rr :: r =>
      let ok :=
        match o, rr with
        | OSub f s sp, Some tags =>
            let existed := snd (insert (split f) s sp n) in
            let sends := (sp_rh sp =? 0) || ((sp_rh sp =? 1) && negb existed) in
            let n' := step n o in
            list_eqb (sortN (if sends then map rkey (ret_search_top (split f) n') else [])) tags
            && list_eqb (sortN (if sends then spec_retained rets (split f) else [])) tags
        | _, _ => true
        end in
      ok && check (step n o) (abs_step subs o) (abs_ret_step rets o) r
  | HPub t recv :: r =>
      list_eqb (sortN (map fst (search_top (split t) n))) recv
      && list_eqb (sortN (map fst (spec_deliver subs (split t)))) recv
      && check n subs rets r
  | HRetQ f tags :: r =>
      list_eqb (sortN (map rkey (ret_search_top (split f) n))) tags
      && list_eqb (sortN (spec_retained rets (split f))) tags
      && check n subs rets r
  end.

Definition case_ok (c : case) : bool := ran c && check empty_node [] [] (hops c).

Fixpoint mismatches_from (i : nat) (cs : list case) : list nat :=
  match cs with
  | [] => []
  | c :: r => if case_ok c then mismatches_from (S i) r else i :: mismatches_from (S i) r
  end.
Definition mismatches := mismatches_from 0.

(* debugging aid: index of the first disagreeing step with (model, spec) values *)
Fixpoint first_bad (i : nat) (n : node) (subs : list (skey * sparams)) (rets : list (list lvl * msg)) (hs : list hop)
  : option (nat * list N * list N) :=
  match hs with
  | [] => None
  | HOp o rr :: r =>
      let bad :=
        match o, rr with
        | OSub f s sp, Some tags =>
            let existed := snd (insert (split f) s sp n) in
            let sends := (sp_rh sp =? 0) || ((sp_rh sp =? 1) && negb existed) in
            let n' := step n o in
            let a := sortN (if sends then map rkey (ret_search_top (split f) n') else []) in
            let b := sortN (if sends then spec_retained rets (split f) else []) in
            if list_eqb a tags && list_eqb b tags then None else Some (i, a, b)
        | _, _ => None
        end in
      match bad with Some x => Some x | None => first_bad (S i) (step n o) (abs_step subs o) (abs_ret_step rets o) r end
  | HPub t recv :: r =>
      let a := sortN (map fst (search_top (split t) n)) in
      let b := sortN (map fst (spec_deliver subs (split t))) in
      if list_eqb a recv && list_eqb b recv then first_bad (S i) n subs rets r else Some (i, a, b)
  | HRetQ f tags :: r =>
      let a := sortN (map rkey (ret_search_top (split f) n)) in
      let b := sortN (spec_retained rets (split f)) in
      if list_eqb a tags && list_eqb b tags then first_bad (S i) n subs rets r else Some (i, a, b)
  end.
