(* Correspondence check for the session manager (C05, C10, C11, C16, C20): the concrete event list
   performed against the broker (with the measured elapsed time before every event) is replayed
   through Sessions.v and the outputs of every step are compared, canonicalised:
   deliveries and wills as sorted multisets, CONNACK exactly. *)
From Coq Require Import List NArith ZArith Bool.
Import ListNotations.
From VMQ Require Import model.Sessions.
Open Scope N_scope.

(* observed output, same shape as the model's, encoded as numbers:
   (kind, a, b, c): 1 connack (conn, present, code) | 2 closed (conn, reason 0 takeover 1 shutdown, 0)
                    3 deliver (conn, tag, 0) | 4 will (id, tag, 0) | 5 stop returned | 6 connect not answered *)
Definition oobs := (N * N * N * N)%type.
Definition enc (o : out) : oobs :=
  match o with
  | OConnack c p code => (1, c, if p then 1 else 0, code)
  | OClosed c r => (2, c, match r with RTakenOver => 0 | RShutdown => 1 end, 0)
  | ODeliver c t => (3, c, t, 0)
  | OWill i t => (4, i, t, 0)
  | OStopReturned => (5, 0, 0, 0)
  end.
Definition okey (o : oobs) : N := let '(k, a, b, c) := o in ((k * 1024 + a) * 65536 + b) * 1024 + c.

Fixpoint insertN (x : N) (l : list N) : list N :=
  match l with [] => [x] | y :: r => if x <=? y then x :: l else y :: insertN x r end.
Definition sortN (l : list N) := fold_right insertN [] l.
Fixpoint listN_eqb (a b : list N) : bool :=
  match a, b with [], [] => true | x :: a', y :: b' => (x =? y) && listN_eqb a' b' | _, _ => false end.

(* a step: one event, or several concurrent ones ([srace] non-empty: racing CONNECTs on one identifier,
   an abrupt close racing with them, a timer deadline racing with a CONNECT).  Concurrent events must
   be explained by SOME order of them (linearizability against the sequential model): every order is
   tried and every state reached by an order whose outputs equal the observed ones is carried on.
   [sign]: connection whose CONNACK / closure / deliveries cannot be observed or attributed (closed by
   its client while being taken over, or gone before the CONNACK could be written) — they are left
   out on both sides. *)
Record stepobs := mkStep { sev : ev; sobs : list oobs; srace : list ev; sign : N }.
(* listener-level shutdown (C20): connections of the kinds 0 TCP established | 1 TCP connected, nothing sent |
   2 WebSocket established | 3 WebSocket upgraded, nothing sent; observed: Shutdown returned, per connection
   closed?, a listener port still accepts, a CONNECT sent on a handshake-stage connection AFTER Shutdown has
   returned was answered with CONNACK *)
Record lcase := mkLis { lconns : list N; lreturned : bool; lclosed : list bool; laccepts : bool; llate : bool }.
(* what shutdown means for listeners and for every connection, whatever its stage: the model closes all *)
Definition lstop (conns : list N) : list bool * bool := (map (fun _ => true) conns, false).
Fixpoint bools_eqb (a b : list bool) : bool :=
  match a, b with [], [] => true | x :: a', y :: b' => Bool.eqb x y && bools_eqb a' b' | _, _ => false end.
Definition lcase_ok (l : lcase) : bool :=
  lreturned l && bools_eqb (lclosed l) (fst (lstop (lconns l))) && Bool.eqb (laccepts l) (snd (lstop (lconns l))) && negb (llate l).

(* shutdown while a session's connection end is still in progress (C20): a durable client holding ONE unacknowledged
   QoS 1 message has dropped its connection and the broker is inside the hand-over of the session's messages to
   persistence (held open by the harness: a slow backend) when Stop is called.  Observed: Stop returned while the
   hand-over was still pending; Stop returned after it was let go; unacknowledged messages in persistence afterwards. *)
Record ccase := mkClosing { cearly : bool; creturned : bool; cunack : N }.
Definition ccase_ok (c : ccase) : bool := negb (cearly c) && creturned c && (cunack c =? 1)%N.

(* kind 9: a BUSY client is taken over and falls silent: the new CONNECT is answered at once (ten rounds); kind 10: shutdown with
   acknowledged messages still in the routing queue: all of them are delivered after the restart (three rounds).
   kinds 5-7: a Will with RETAIN=1 is also stored as retained message (at connection end / by the delay timer / at start-up);
   kind 8: a DISCONNECT that is itself a protocol error does not suppress the Will (C11).
   kind 3: a SLOW reader with a backlog on its way is taken over: answered, and the old connection decodes everything it was
   sent, a DISCONNECT "session taken over" last.
   a client that has stopped reading, so that the broker's writer is blocked in its Write, and then (kind 0) another
   connection takes the client id over, (1) the broker is stopped, (2) the keep-alive runs out: the CONNECT must be
   answered / Stop must return / the Will must be published, and the stalled connection must be closed *)
Inductive special := SLis (l : lcase) | SClosing (c : ccase) | SStalled (kind : N) (ok closed : bool).

Record case := mkCase { pre : bool; steps : list stepobs; ran : bool; lis : option special }.

Fixpoint inserts {A} (x : A) (l : list A) : list (list A) :=
  match l with [] => [[x]] | y :: r => (x :: l) :: map (cons y) (inserts x r) end.
Fixpoint perms {A} (l : list A) : list (list A) :=
  match l with [] => [[]] | x :: r => flat_map (inserts x) (perms r) end.

Fixpoint run_cat (s : st) (es : list ev) : st * list out :=
  match es with
  | [] => (s, [])
  | e :: r => let '(s1, o) := step s e in let '(s2, os) := run_cat s1 r in (s2, o ++ os)
  end.

Definition keep (ign : N) (o : oobs) : bool :=
  let '(k, a, _, _) := o in negb (((k =? 1) || (k =? 2) || (k =? 3)) && (a =? ign) && negb (ign =? 0)).

(* In a race of CONNECTs the model hands a pending message to a connection in the same step as its CONNACK; the
   broker queues it for the connection's writer, and a racer that is taken over at once may never have been sent it -
   it then goes to the racer that took over (or to both: the second time as a retransmission).  Which of the RACING
   connections a delivery of that step reached is therefore not compared (deliveries to any other connection are). *)
Definition racer_cids (es : list ev) : list N :=
  flat_map (fun e => match e with EConnect c _ _ _ _ _ => [c] | _ => [] end) es.
Definition norm_racer (rc : list N) (o : oobs) : oobs :=
  let '(k, a, t, d) := o in if (k =? 3) && existsb (N.eqb a) rc then (k, 0, t, d) else o.
(* ... or to nobody at all, when the racer that took over asked for a clean start (the pending message is discarded with
   the session).  So for the RACING connections of a step: every observed delivery must be one the model makes in
   that step (same message, same flags), none is required; everything else (CONNACKs, closures, wills, deliveries to
   other connections) is compared exactly.  That a pending message is not LOST across reconnects is C02's subject. *)
Definition is_norm_delivery (k : N) : bool := (k / (65536 * 1024) =? 3 * 1024).
Definition memN' (x : N) (l : list N) : bool := existsb (N.eqb x) l.

Definition same_outputs (rc : list N) (ign : N) (o : list out) (obs : list oobs) : bool :=
  let key := fun l => sortN (map okey (map (norm_racer rc) (filter (keep ign) l))) in
  match rc with
  | [] => listN_eqb (key (map enc o)) (key obs)
  | _ => let e := key (map enc o) in let b := key obs in
         listN_eqb (filter (fun k => negb (is_norm_delivery k)) e) (filter (fun k => negb (is_norm_delivery k)) b)
         && forallb (fun k => memN' k e) (filter is_norm_delivery b)
  end.

Definition nexts (cands : list st) (x : stepobs) : list st :=
  let rc := match srace x with [] => [] | _ => racer_cids (sev x :: srace x) end in
  flat_map (fun s =>
    flat_map (fun p => let '(s1, o) := run_cat s p in if same_outputs rc (sign x) o (sobs x) then [s1] else [])
             (perms (sev x :: srace x))) cands.

Fixpoint check (cands : list st) (ss : list stepobs) : bool :=
  match ss with
  | [] => match cands with [] => false | _ => true end
  | x :: r => match nexts cands x with [] => false | n => check n r end
  end.

Definition case_ok (c : case) : bool :=
  ran c && match lis c with Some (SLis l) => lcase_ok l | Some (SClosing x) => ccase_ok x | Some (SStalled _ ok closed) => ok && closed | None => check [init (pre c)] (steps c) end.

Fixpoint mismatches_from (i : nat) (cs : list case) : list nat :=
  match cs with
  | [] => []
  | c :: r => if case_ok c then mismatches_from (S i) r else i :: mismatches_from (S i) r
  end.
Definition mismatches := mismatches_from 0.

(* debugging aid: the model's outputs along the first explaining order of every step *)
Fixpoint trace (s : st) (ss : list stepobs) : list (list oobs) :=
  match ss with
  | [] => []
  | x :: r =>
      match nexts [s] x with
      | s1 :: _ => [(0, 0, 0, 0)] :: trace s1 r
      | [] => map (fun p => (9, 9, 9, 9) :: map enc (snd (run_cat s p))) (perms (sev x :: srace x))
      end
  end.
