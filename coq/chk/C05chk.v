(* Correspondence check for the session manager (C05, C10, C11, C16, C20): the concrete event list
   performed against the broker (with the measured elapsed time before every event) is replayed
   through Sessions.v and the outputs of every step are compared, canonicalised:
   deliveries and wills as sorted multisets, CONNACK exactly. *)
From Coq Require Import List NArith ZArith Bool.
Import ListNotations.
From VMQ Require Import model.Sessions.
Open Scope N_scope.

(* observed output, same shape as the model's, encoded as numbers:
   (kind, a, b, c): 1 connack (conn, present, code) | 2 closed (conn, reason 0 takeover 1 shutdown, 0)
                    3 deliver (conn, tag, 0) | 4 will (id, tag, 0) | 5 stop returned | 6 connect not answered *)
Definition oobs := (N * N * N * N)%type.
Definition enc (o : out) : oobs :=
  match o with
  | OConnack c p code => (1, c, if p then 1 else 0, code)
  | OClosed c r => (2, c, match r with RTakenOver => 0 | RShutdown => 1 end, 0)
  | ODeliver c t => (3, c, t, 0)
  | OWill i t => (4, i, t, 0)
  | OStopReturned => (5, 0, 0, 0)
  end.
Definition okey (o : oobs) : N := let '(k, a, b, c) := o in ((k * 1024 + a) * 65536 + b) * 1024 + c.

Fixpoint insertN (x : N) (l : list N) : list N :=
  match l with [] => [x] | y :: r => if x <=? y then x :: l else y :: insertN x r end.
Definition sortN (l : list N) := fold_right insertN [] l.
Fixpoint listN_eqb (a b : list N) : bool :=
  match a, b with [], [] => true | x :: a', y :: b' => (x =? y) && listN_eqb a' b' | _, _ => false end.

Record stepobs := mkStep { sev : ev; sobs : list oobs }.
Record case := mkCase { pre : bool; steps : list stepobs; ran : bool }.

Fixpoint check (s : st) (ss : list stepobs) : bool :=
  match ss with
  | [] => true
  | x :: r =>
      let '(s1, o) := step s (sev x) in
      listN_eqb (sortN (map (fun y => okey (enc y)) o)) (sortN (map okey (sobs x))) && check s1 r
  end.

Definition case_ok (c : case) : bool := ran c && check (init (pre c)) (steps c).

Fixpoint mismatches_from (i : nat) (cs : list case) : list nat :=
  match cs with
  | [] => []
  | c :: r => if case_ok c then mismatches_from (S i) r else i :: mismatches_from (S i) r
  end.
Definition mismatches := mismatches_from 0.

(* debugging aid *)
Fixpoint trace (s : st) (ss : list stepobs) : list (list oobs) :=
  match ss with [] => [] | x :: r => let '(s1, o) := step s (sev x) in map enc o :: trace s1 r end.
