(* C14 — topic aliases never change which topic a message is delivered on. *)
From Coq Require Import List NArith Bool.
Import ListNotations.
From VMQ Require Import model.Alias proofs.AliasProofs model.Auth proofs.AuthProofs.
Open Scope N_scope.

(* outbound: for every Topic Alias Maximum and every sequence of topics, each packet resolves at
   the receiver (MQTT 5 table semantics) to the published topic, aliases stay within 1..max, and
   no alias is used when the client announced 0 *)
Theorem C14_out_resolves : forall max ts s' ps,
  send_all (mkAl [] 0 max) ts = (s', ps) ->
  fst (rx_all [] ps) = map Some ts /\ Forall (pkt_ok max) ps /\ (max = 0 -> Forall (fun p => walias p = None) ps).
Proof. exact alias_out_resolves. Qed.
Print Assumptions C14_out_resolves.

(* inbound: an alias-only PUBLISH resolves to the topic last bound to that alias on this connection - by a packet
   that carried both, whether that packet's message was authorised or refused - and is routed there iff the write ACL
   allows THAT topic; alias 0, an alias above the server's maximum, or an unbound alias terminates *)
Theorem C14_in_resolves : forall maxrx ps tbl a au,
  rx_table maxrx [] ps = Some tbl ->
  snd (rx_step maxrx tbl (mkW None (Some a)) au) =
    if (a =? 0) || (maxrx <? a) then RTerminate
    else match last_bound maxrx a ps with
         | Some (t, allowed) => if allowed then RRoute t else RDrop
         | None => RTerminate
         end.
Proof. exact alias_in_resolves. Qed.
Print Assumptions C14_in_resolves.

Theorem C14_in_invalid_terminates : forall maxrx tbl p au a,
  walias p = Some a -> (a = 0 \/ maxrx < a) -> snd (rx_step maxrx tbl p au) = RTerminate.
Proof. exact alias_in_invalid_terminates. Qed.
Print Assumptions C14_in_invalid_terminates.

(* inbound, under a write ACL (model/Auth.v alias_pub: connection.go onPublish with its permission check): a packet
   that carries a topic and an alias binds the alias to that topic whether its message is authorised or refused;
   what follows under the alias alone is never routed to any other topic *)
Theorem C14_in_last_bound_under_acl : forall allowed tbl tp a, a <> 0 ->
  forall t', snd (alias_pub allowed (fst (alias_pub allowed tbl (Some tp) a)) None a) = ARouted t' -> t' = tp.
Proof. exact alias_last_bound. Qed.
Print Assumptions C14_in_last_bound_under_acl.

Example C14_nonvacuous :
  let '(_, ps) := send_all (mkAl [] 0 2) [7; 8; 9; 7; 9; 8] in
  fst (rx_all [] ps) = map Some [7; 8; 9; 7; 9; 8] /\
  map walias ps = [Some 1; Some 2; None; Some 1; None; Some 2].
Proof. vm_compute. split; reflexivity. Qed.
