(* C05 — session state persists exactly while the session is durable and unexpired.
   Model: model/Sessions.v (per client id: attached connection, subscriptions, pending messages,
   stored-state flag, expiry deadline), tied to clients/* by the correspondence check chk/C05chk.v. *)
From Coq Require Import List NArith ZArith Bool.
Import ListNotations.
From VMQ Require Import model.Sessions proofs.SessionsProofs.
Open Scope Z_scope.

(* In every state reachable by ANY history of events (connect / subscribe / publish / disconnect /
   drop / passage of time / stop / restart, any client ids, any interleaving of them):
   - a session without the stored-state flag holds no subscription and no pending message,
   - a detached session that is not durable holds nothing at all. *)
Theorem C05_no_state_without_durability : forall pre es id,
  let r := get id (sess (fst (run (init pre) es))) in
  (s_present r = false -> s_subs r = [] /\ s_queue r = []) /\
  (s_conn r = None -> s_durable r = false -> s_subs r = [] /\ s_queue r = [] /\ s_present r = false).
Proof.
  intros pre es id. destruct (run_state_inv es (init pre) (init_inv pre)) as [_ Hok].
  destruct (Hok id) as [H1 [H2 _]]. split; [exact H1|].
  intros Hc Hd. destruct (H2 Hc Hd) as [A [B [C _]]]. auto.
Qed.
Print Assumptions C05_no_state_without_durability.

(* CONNACK Session Present = stored state exists and no clean start was asked for (free identifier) *)
Theorem C05_session_present : forall s c id v5 clean expiry w,
  s_conn (get id (sess s)) = None ->
  exists delivers,
    snd (connect s c id v5 clean expiry w) =
      OConnack c (negb clean && s_present (get id (sess s))) 0%N :: map (ODeliver c) delivers /\
    delivers = (if clean then [] else s_queue (get id (sess s))) /\
    s_subs (get id (sess (fst (connect s c id v5 clean expiry w)))) = (if clean then [] else s_subs (get id (sess s))).
Proof.
  intros s c id v5 clean expiry w Hc. unfold connect. rewrite Hc. rewrite connect_free_out, connect_free_rec.
  exists (if clean then [] else s_queue (get id (sess s))). destruct clean; cbn; auto.
Qed.
Print Assumptions C05_session_present.

(* the end of a connection: durable (v3 CleanSession=0; v5 expiry as last set by CONNECT or DISCONNECT
   non-zero) keeps subscriptions and pending messages and sets the deadline; otherwise nothing is left *)
Theorem C05_connection_end : forall s id keep_will newexp c,
  s_conn (get id (sess s)) = Some c ->
  let r := get id (sess s) in
  let r' := get id (sess (fst (conn_end s id keep_will newexp))) in
  if end_durable r newexp then
    s_subs r' = s_subs r /\ s_queue r' = s_queue r /\ s_present r' = true /\ s_durable r' = true /\
    s_expiry r' = end_expiry r newexp /\
    s_expire_at r' = (match end_expiry r newexp with Some x => if s_v5 r then Some (now s + x) else None | None => None end)
  else r' = wiped r.
Proof. exact conn_end_state. Qed.
Print Assumptions C05_connection_end.

(* an unexpired durable session keeps accumulating matching messages while detached *)
Theorem C05_offline_accumulates : forall s tag t id,
  s_conn (get id (sess s)) = None -> existsb (smatch false t) (s_subs (get id (sess s))) = true ->
  let r' := get id (sess (fst (publish s tag t))) in
  s_queue r' = s_queue (get id (sess s)) ++ [tag] /\ s_subs r' = s_subs (get id (sess s)).
Proof.
  intros s tag t id Hc Hs. cbn zeta. rewrite publish_rec. unfold pub_rec. rewrite Hs, Hc. split; reflexivity.
Qed.
Print Assumptions C05_offline_accumulates.

(* No Local: a session's own publish is neither handed nor queued to its No-Local subscription; anybody
   else's publish is *)
Theorem C05_no_local : forall tag t k r c,
  sub_topic k = t -> sub_nl k = true -> s_subs r = [k] -> s_conn r = Some c ->
  pub_out true tag t r = [] /\ pub_rec true tag t r = r /\ pub_out false tag t r = [ODeliver c tag].
Proof.
  intros tag t k r c Ht Hn Hs Hc. unfold pub_out, pub_rec, smatch. rewrite Hs, Hc. cbn [existsb].
  rewrite Ht, Hn, N.eqb_refl. cbn. repeat split.
Qed.
Print Assumptions C05_no_local.

(* an elapsed expiry leaves nothing; before the deadline nothing changes *)
Theorem C05_expiry : forall s dt id e,
  s_conn (get id (sess s)) = None -> s_expire_at (get id (sess s)) = Some e ->
  let r' := get id (sess (fst (step s (ETick dt)))) in
  if e <=? now s + dt then r' = wiped (get id (sess s))
  else s_subs r' = s_subs (get id (sess s)) /\ s_queue r' = s_queue (get id (sess s)) /\ s_present r' = s_present (get id (sess s)).
Proof.
  intros s dt id e Hc He. cbn [step]. rewrite fire_all_spec. cbn [fst sess].
  rewrite (get_maprec (fun i r => fst (fire (now s + dt) i r))) by reflexivity.
  unfold fire. rewrite Hc, He. destruct (e <=? now s + dt); [reflexivity|].
  destruct (match s_will_at (get id (sess s)) with Some wt => wt <=? now s + dt | None => false end); cbn; auto.
Qed.
Print Assumptions C05_expiry.

(* UNSUBSCRIBE removes exactly the subscription to that topic from the session's state (and with it from what
   survives a connection end, a shutdown, a restart): nothing published on the topic afterwards is handed or queued
   to the session; its other subscriptions, its queue and every other session stay as they are *)
Theorem C05_unsubscribe : forall s id t c,
  s_conn (get id (sess s)) = Some c ->
  let r := get id (sess s) in
  let s' := fst (step s (EUnsubscribe id t)) in
  let r' := get id (sess s') in
  s_subs r' = filter (fun k => negb (N.eqb (sub_topic k) t)) (s_subs r) /\
  s_conn r' = s_conn r /\ s_queue r' = s_queue r /\ s_durable r' = s_durable r /\ s_expiry r' = s_expiry r /\
  s_will r' = s_will r /\ s_present r' = s_present r /\
  (forall j, j <> id -> get j (sess s') = get j (sess s)) /\
  (forall self tag, pub_out self tag t r' = [] /\ pub_rec self tag t r' = r').
Proof. intros s id t c Hc. exact (unsubscribe_state s id t c Hc). Qed.
Print Assumptions C05_unsubscribe.

Example C05_nonvacuous :
  let h := [EConnect 1%N 7%N true false (Some 2000) None; ESubscribe 7%N 6%N; EDisconnect 7%N false None;
            EPublish 40%N 3%N; ETick 1000; EConnect 2%N 7%N true false (Some 0) None; EDrop 7%N; EPublish 41%N 3%N;
            EConnect 3%N 7%N true false (Some 2000) None] in
  concat (snd (run (init true) h)) =
    [OConnack 1%N false 0%N; OConnack 2%N true 0%N; ODeliver 2%N 40%N; OConnack 3%N false 0%N].
Proof. vm_compute. reflexivity. Qed.
