(* C16 — graceful restart restores durable sessions and retained messages.
   In the model the persistence backend IS the state that survives [EStop; ERestart]; the theorems say
   what Stop leaves in it.  That the real Stop/Shutdown/NewManager pair writes and reads back exactly
   that (encodings, timers, deferred deletions) is what the correspondence check exercises. *)
From Coq Require Import List NArith ZArith Bool.
Import ListNotations.
From VMQ Require Import model.Sessions proofs.SessionsProofs.
Open Scope Z_scope.

Definition cycle (s : st) : st := fst (step (fst (step s EStop)) ERestart).

(* over every reachable state: after shutdown + restart a durable session has exactly its
   subscriptions and its pending messages; a session that was detached already is untouched
   altogether (deadlines, pending will included); what was not durable is gone *)
Theorem C16_sessions_restored : forall pre es id,
  let s := fst (run (init pre) es) in
  let r := get id (sess s) in
  let r' := get id (sess (cycle s)) in
  match s_conn r with
  | None => r' = r
  | Some _ => if end_durable r None then s_subs r' = s_subs r /\ s_queue r' = s_queue r /\ s_present r' = true
              else r' = wiped r
  end.
Proof.
  intros pre es id s r r'. subst r r'. unfold cycle. cbn [step].
  pose proof (stop_state s id (run_state_inv es (init pre) (init_inv pre))) as H. cbn zeta in H.
  destruct (stop s) as [s1 o]. exact H.
Qed.
Print Assumptions C16_sessions_restored.

(* retained messages are the same after the cycle, and the broker accepts connections again *)
Theorem C16_retained_restored : forall s, retained (cycle s) = retained s /\ stopped (cycle s) = false.
Proof.
  intros s. unfold cycle. cbn [step]. pose proof (stop_retained s) as H. destruct (stop s) as [s1 o]. cbn [fst] in *. auto.
Qed.
Print Assumptions C16_retained_restored.

(* a subscription that survived receives what is published after the restart: queued while the
   client is away, delivered at its next CONNECT *)
Theorem C16_restored_subscription_works : forall s tag t id,
  s_conn (get id (sess s)) = None -> existsb (smatch false t) (s_subs (get id (sess s))) = true ->
  s_queue (get id (sess (fst (publish s tag t)))) = s_queue (get id (sess s)) ++ [tag].
Proof.
  intros s tag t id Hc Hs. rewrite publish_rec. unfold pub_rec. rewrite Hs, Hc. reflexivity.
Qed.
Print Assumptions C16_restored_subscription_works.

Example C16_nonvacuous :
  concat (snd (run (init true) [EConnect 1%N 7%N false false None None; ESubscribe 7%N 6%N; ERetain 50%N 4%N; EStop; ERestart;
                                EPublish 40%N 3%N; EConnect 2%N 7%N false false None None; ESubscribe 7%N 8%N])) =
    [OConnack 1%N false 0%N; OClosed 1%N RShutdown; OStopReturned; OConnack 2%N true 0%N; ODeliver 2%N 40%N; ODeliver 2%N 50%N].
Proof. vm_compute. reflexivity. Qed.
