(* C08 — forwarded messages carry the right QoS, flags, identifiers and payload. *)
From Coq Require Import List NArith Bool.
Import ListNotations.
From VMQ Require Import model.Trie model.Deliver proofs.DeliverProofs.
Open Scope N_scope.

(* overlap option off: for EVERY list of matching subscriptions, published QoS and flags: exactly one
   copy per matching subscription that is not (No-Local and own publish), QoS = min(published, granted),
   RETAIN = RAP && published RETAIN, DUP = 0, exactly that subscription's identifier *)
Theorem C08_one_copy_per_subscription : forall self subs pq pr,
  deliveries false self subs pq pr = spec_each self subs pq pr.
Proof. exact each_is_spec. Qed.
Print Assumptions C08_one_copy_per_subscription.

(* overlap option on: exactly one copy at the highest granted QoS with all identifiers - of the matching subscriptions
   that are not (No-Local and own publish): a No-Local subscription takes no part in the copy of its own session's
   publish, wherever among the session's subscriptions the walk meets it *)
Theorem C08_one_copy_when_overlapping : forall self subs pq pr,
  deliveries true self subs pq pr =
  match filter (eligible self) subs with
  | [] => []
  | (sp :: _) as el => [mkD (N.min pq (max_qos el)) (sp_rap sp && pr) false (all_ids el)]
  end.
Proof. exact merge_is_spec. Qed.
Print Assumptions C08_one_copy_when_overlapping.

(* ... its RETAIN flag follows Retain-As-Published, whatever the order of the walk when the subscriptions agree on it *)
Theorem C08_overlapping_copy_retain : forall self subs pq pr sp d, uniform_rap subs -> In sp subs ->
  In d (deliveries true self subs pq pr) -> d_retain d = (sp_rap sp && pr).
Proof. exact merge_rap_any. Qed.
Print Assumptions C08_overlapping_copy_retain.

Theorem C08_qos_capped_dup_clear : forall overlap self subs pq pr d,
  In d (deliveries overlap self subs pq pr) -> d_qos d <= pq /\ d_dup d = false.
Proof. exact qos_is_min. Qed.
Print Assumptions C08_qos_capped_dup_clear.

(* a No-Local subscription never receives its own session's publish *)
Theorem C08_no_local : forall sp pq pr, sp_nl sp = true -> deliveries false true [sp] pq pr = [].
Proof. intros sp pq pr H. unfold deliveries, collect_each. cbn. rewrite H. reflexivity. Qed.
Print Assumptions C08_no_local.

(* a retained message sent because of a subscription: RETAIN=1, QoS min(stored, granted), DUP=0 and
   exactly that subscription's identifier *)
Theorem C08_retained_on_subscribe : forall sp rq,
  let d := retained_delivery sp rq in
  d_retain d = true /\ d_dup d = false /\ d_qos d = N.min rq (sp_qos sp) /\
  d_ids d = (if 0 <? sp_id sp then [sp_id sp] else []).
Proof. intros sp rq. cbn. repeat split. Qed.
Print Assumptions C08_retained_on_subscribe.

Example C08_nonvacuous :
  deliveries false false [mkSP 0 false false 0 7; mkSP 2 false true 0 0; mkSP 1 true false 0 9] 2 true =
    [mkD 0 false false [7]; mkD 2 true false []; mkD 1 false false [9]] /\
  deliveries true false [mkSP 0 false false 0 7; mkSP 2 false false 0 0; mkSP 1 false false 0 9] 1 true =
    [mkD 1 false false [7; 9]].
Proof. vm_compute. split; reflexivity. Qed.
