(* C01 — a publish reaches exactly the sessions whose subscriptions match its topic. *)
From Coq Require Import List NArith Bool.
Import ListNotations.
From VMQ Require Import model.Trie model.Match proofs.TrieProofs proofs.TrieHistory.
Open Scope N_scope.

(* For EVERY well-formed index tree and EVERY wildcard-free topic (any depth, empty levels, '$'
   prefixes, any bytes): the search walk of both topic indexes returns a subscription if and only
   if its filter matches the topic under the MQTT rules written in Match.v ('+', trailing '#',
   '$'-topics only by the same literal first level, '#' alone not matching an empty first level). *)
Theorem C01_search_iff_matches : forall (t : list lvl) (root : node), wf root -> valid_topic t = true ->
  forall x, In x (search_top t root) <-> exists p, In (p, x) (tsubs root) /\ matches p t = true.
Proof. exact search_top_spec. Qed.
Print Assumptions C01_search_iff_matches.

(* The whole-history statement: after ANY history of subscribe / re-subscribe / unsubscribe / retain-set
   / retain-clear, a session receives a publish iff the abstract subscription map of the history (the
   last subscription per (filter, session), minus what was unsubscribed - Match.abs_subs) holds a
   filter of that session which matches the topic. *)
Theorem C01_publish_iff_full :
  forall (h : list op) (t : list N) (s : N), valid_topic (split t) = true ->
    (In s (map fst (search_top (split t) (run h))) <->
     exists f sp, In ((f, s), sp) (abs_subs h) /\ matches f (split t) = true).
Proof. exact publish_iff_history. Qed.
Print Assumptions C01_publish_iff_full.

(* every tree a history produces is well-formed and holds exactly the abstract map *)
Theorem C01_tree_is_abstract_map : forall h,
  wf (run h) /\ forall q s sp, In (q, (s, sp)) (tsubs (run h)) <-> In ((q, s), sp) (abs_subs h).
Proof. exact run_rel. Qed.
Print Assumptions C01_tree_is_abstract_map.

Example C01_nonvacuous :
  let h := [OSub [97;47;43] 1 (mkSP 0 false false 0 0); OSub [35] 2 (mkSP 1 false false 0 0);
            OSub [97;47;35] 3 (mkSP 2 false false 0 0); OUnsub [97;47;43] 1; OSub [36;115;47;35] 4 (mkSP 0 false false 0 0)] in
  map fst (search_top (split [97;47;98]) (run h)) = [2; 3] /\
  map fst (search_top (split [47;98]) (run h)) = [] /\
  map fst (search_top (split [97;47]) (run h)) = [2; 3] /\
  map fst (search_top (split [36;115;47;120]) (run h)) = [4] /\
  map fst (spec_deliver (abs_subs h) (split [97;47;98])) = [3; 2].
Proof. vm_compute. repeat split. Qed.
