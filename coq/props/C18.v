(* C18 — FIFO queue, wait-once and worker pool keep their contracts under concurrency. *)
From Coq Require Import List Arith ZArith Bool.
Import ListNotations.
From VMQ Require Import gen.Extracted model.Queue proofs.QueueProofs model.Prims proofs.PrimsProofs.
Local Open Scope nat_scope.

(* the capacity constant the proofs rely on is the one in types/queue.go NOW *)
Lemma C18_extracted_min_queue_len : min_queue_len_found = true /\ min_queue_len = 16%Z.
Proof. split; reflexivity. Qed.

(* The ring buffer refines the list FIFO: for EVERY sequence of Add/Remove/Peek/Length/Get
   (any length: every growth and shrink threshold) the outputs are those of a plain list, each
   element exactly once in insertion order, and the buffer invariant (capacity 2^k, k>=4) holds.
   Every Go method holds the queue mutex for its whole body, so a concurrent execution is some
   interleaving of these atomic operations, to which the theorem applies. *)
Theorem C18_queue_refines_list : forall (A : Type) (nilv : A) (ops : list (@op A)),
  snd (run nilv (new_queue nilv) ops) = snd (spec_run nilv [] ops) /\
  QInv (fst (run nilv (new_queue nilv) ops)) /\
  abs (fst (run nilv (new_queue nilv) ops)) = fst (spec_run nilv [] ops).
Proof.
  intros A nilv ops. destruct (new_inv nilv) as [Hi Ha]. rewrite <- Ha. apply queue_refines_list. exact Hi.
Qed.
Print Assumptions C18_queue_refines_list.

(* WAIT-ONCE (types.OnceWait.Do; it guards connection close): for ANY number of concurrent callers and EVERY
   schedule of their steps (lock, compare-and-swap, WaitGroup add / done / wait, unlock, the action itself):
   the action is entered at most once, and a caller that has returned - with true or with false - has seen the
   action finished, which then has run exactly once *)
Theorem C18_oncewait_once_and_waits : forall n sched,
  let s := orun (oinit n) sched in
  ofcount s <= 1 /\
  forall i pc, nth_error (opcs s) i = Some pc -> oreturned pc = true -> ofdone s = true /\ ofcount s = 1.
Proof. exact oncewait_safe. Qed.
Print Assumptions C18_oncewait_once_and_waits.

(* ... and it never dead-locks: while some caller has not returned, some caller can make a step *)
Theorem C18_oncewait_progress : forall n sched,
  let s := orun (oinit n) sched in
  (exists i pc, nth_error (opcs s) i = Some pc /\ oreturned pc = false) -> exists j, ostep s j <> s.
Proof. exact oncewait_progress. Qed.
Print Assumptions C18_oncewait_progress.

(* WORKER POOL (types.Pool): for every sequence of Schedule calls (either branch of its select), worker steps and
   Close, from an empty pool of any size and queue length: the number of live workers equals the tokens in the
   semaphore and never exceeds the configured size, the queue never exceeds its capacity, and the accepted tasks
   are, as a multiset, exactly the executed ones plus the queued ones plus the ones a worker is about to run -
   no accepted task is lost or run twice *)
Theorem C18_pool_bounded_and_exactly_once : forall size queue es,
  let s := prun (pinit size queue) es in
  psem s = cnt wlive (pworkers s) /\ psem s <= size /\ length (pwork s) <= queue /\
  Permutation.Permutation (pexec s ++ pwork s ++ inflight s) (accepted es (pinit size queue)).
Proof.
  intros size queue es s. destruct (pool_run es (pinit size queue) (pinit_inv size queue)) as [[H1 H2 H3] HP].
  assert (E : psize s = size /\ pqueue s = queue).
  { subst s. clear. assert (G : forall es0 s0, psize (prun s0 es0) = psize s0 /\ pqueue (prun s0 es0) = pqueue s0).
    { induction es0 as [|e r IH]; intros s0; cbn [prun]; [auto|]. destruct (pstep s0 e) as [s1|] eqn:Es; [|apply IH].
      destruct (IH s1) as [A B]. rewrite A, B. clear - Es. destruct e as [t|t|i|]; cbn [pstep] in Es.
      - destruct (_ && _); inversion Es; auto.
      - destruct (_ && _); inversion Es; auto.
      - destruct (nth_error (pworkers s0) i) as [[t| | |]|]; try discriminate; try (inversion Es; auto; fail).
        destruct (pwork s0); [destruct (pclosed s0)|]; inversion Es; auto.
      - destruct (pclosed s0); inversion Es; auto. }
    apply (G es (pinit size queue)). }
  destruct E as [E1 E2]. fold s in H1, H2, H3, HP. rewrite E1 in H2. rewrite E2 in H3. repeat split; assumption.
Qed.
Print Assumptions C18_pool_bounded_and_exactly_once.

Example C18_nonvacuous :
  let ops := map OAdd (seq 1 40) ++ repeat ORemove 35 ++ [OLength; OPeek; OGet (-1)%Z; OGet 7%Z] in
  let '(q, outs) := run 0 (new_queue 0) ops in
  length (buf q) = 16 /\ skipn 75 outs = [RLen 5; RVal 36; RVal 40; RPanic].
Proof. vm_compute. split; reflexivity. Qed.
