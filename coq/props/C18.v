(* C18 — FIFO queue, wait-once and worker pool keep their contracts under concurrency. *)
From Coq Require Import List Arith ZArith Bool.
Import ListNotations.
From VMQ Require Import gen.Extracted model.Queue proofs.QueueProofs.
Local Open Scope nat_scope.

(* the capacity constant the proofs rely on is the one in types/queue.go NOW *)
Lemma C18_extracted_min_queue_len : min_queue_len_found = true /\ min_queue_len = 16%Z.
Proof. split; reflexivity. Qed.

(* The ring buffer refines the list FIFO: for EVERY sequence of Add/Remove/Peek/Length/Get
   (any length: every growth and shrink threshold) the outputs are those of a plain list, each
   element exactly once in insertion order, and the buffer invariant (capacity 2^k, k>=4) holds.
   Every Go method holds the queue mutex for its whole body, so a concurrent execution is some
   interleaving of these atomic operations, to which the theorem applies. *)
Theorem C18_queue_refines_list : forall (A : Type) (nilv : A) (ops : list (@op A)),
  snd (run nilv (new_queue nilv) ops) = snd (spec_run nilv [] ops) /\
  QInv (fst (run nilv (new_queue nilv) ops)) /\
  abs (fst (run nilv (new_queue nilv) ops)) = fst (spec_run nilv [] ops).
Proof.
  intros A nilv ops. destruct (new_inv nilv) as [Hi Ha]. rewrite <- Ha. apply queue_refines_list. exact Hi.
Qed.
Print Assumptions C18_queue_refines_list.

Example C18_nonvacuous :
  let ops := map OAdd (seq 1 40) ++ repeat ORemove 35 ++ [OLength; OPeek; OGet (-1)%Z; OGet 7%Z] in
  let '(q, outs) := run 0 (new_queue 0) ops in
  length (buf q) = 16 /\ skipn 75 outs = [RLen 5; RVal 36; RVal 40; RPanic].
Proof. vm_compute. split; reflexivity. Qed.
