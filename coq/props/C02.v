(* C02 — QoS 1/2 messages are never lost: at-least-once across disconnect and reconnect. *)
From Coq Require Import List NArith ZArith Bool.
Import ListNotations.
From VMQ Require Import model.Flow model.Writer proofs.WriterProofs proofs.NoLoss.
Open Scope N_scope.

(* progress: for every Receive Maximum >= 1, a connected client that has acknowledged everything it
   received is sent the next pending QoS 1/2 message by the next writer round (unless it expired) *)
Theorem C02_no_stall : forall rm now w p r,
  Inv rm w -> alive w = true -> (1 <= rm <= 65535)%Z -> pubout w = [] -> qrel w = [] -> q12 w = p :: r ->
  exists w' o, pop_round now w = (Fine, w', o) /\ q12 w' = r /\
    (expired now (with_id p (next_id (cur (fl w)))) = false -> exists id, In (with_id p id) o).
Proof. exact no_stall. Qed.
Print Assumptions C02_no_stall.

(* redelivery: everything transmitted and not acknowledged when the connection ended is queued, with
   its identifier and DUP=1, for unconditional retransmission when the client reconnects ... *)
Theorem C02_redelivery_queued : forall now r w,
  alive w = true -> p_unack w = [] ->
  qrel (open r (close now w)) = map (fun x => enc_unack (snd x)) (rev (pubout w)) ++ map enc_unack (qrel w).
Proof. exact redelivery_queued. Qed.
Print Assumptions C02_redelivery_queued.
(* ([pubout] holds the latest transmission first: [rev] is the order of transmission - what was sent first is sent
   again first; what still waited for its own retransmission when the connection ended comes after that) *)

(* ... and that queue is served first, whatever the quota *)
Theorem C02_retransmit_first : forall now w p r w' o oc,
  alive w = true -> qrel w = p :: r -> pop_round now w = (oc, w', o) -> exists o', o = p :: o'.
Proof. exact retransmit_first. Qed.
Print Assumptions C02_retransmit_first.

(* ... one per round, and while anything waits there nothing that has never been transmitted leaves its queue *)
Theorem C02_retransmit_before_new : forall now w p r w' o oc,
  alive w = true -> qrel w = p :: r -> pop_round now w = (oc, w', o) ->
  q12 w' = q12 w /\ qrel w' = r /\ oc = Fine.
Proof. exact retransmit_before_new. Qed.
Print Assumptions C02_retransmit_before_new.

(* messages queued but not yet transmitted survive the disconnect in persistence (unless expired) *)
Theorem C02_queued_persisted : forall now w p, alive w = true -> In p (q12 w) -> expired now p = false ->
  In (with_id p 0) (p_q12 (close now w)).
Proof.
  intros now w p Ea Hin Hex. unfold close. rewrite Ea. cbn [negb p_q12]. apply in_or_app. right.
  apply in_flat_map. exists p. split; [exact Hin|]. unfold enc_queued. rewrite Hex. left. reflexivity.
Qed.
Print Assumptions C02_queued_persisted.

(* NO LOSS, over every history: for every Receive Maximum >= 0 and every guarded history of publish /
   writer round / acknowledgement / abrupt disconnect / reconnect events (any interleaving, any position of
   the disconnects), a QoS 1/2 message without expiry that was handed to the session is afterwards still
   PENDING - queued, waiting for retransmission, in flight, or in the session's persistence entry - unless
   the client has acknowledged it (PUBACK / PUBREC / PUBCOMP for the identifier it was in flight under).
   With C02_retransmit_first, C02_redelivery_queued and C02_no_stall: what is pending is transmitted again
   after every reconnect until that acknowledgement arrives.
   ([guarded]: the client acknowledges only identifiers it was sent, and announces on reconnect a Receive
   Maximum that covers what it has not acknowledged - outside that: known finding C03-reconnect-lower-rm.) *)
Theorem C02_no_loss : forall rm oq es w' outs t,
  (0 <= rm)%Z -> guarded (init rm oq) es -> run (init rm oq) es = (Fine, w', outs) ->
  sent_good t es -> P t w' \/ In t (acked (init rm oq) es).
Proof.
  intros rm oq es w' outs t Hrm Hg Hr Hs.
  apply (no_loss t es rm (init rm oq) w' outs (init_inv rm oq Hrm) (init_offempty rm oq) Hg Hr). right. exact Hs.
Qed.
Print Assumptions C02_no_loss.

Example C02_nonvacuous :
  let w := snd (fst (run (init 1 false) [ESend 0 (mkPkt (KPub 1) 0 7 None false); EPop 0; ESend 0 (mkPkt (KPub 2) 0 8 None false); EClose 0; EOpen 1])) in
  map (fun p => (pid p, ptag p, pdup p)) (qrel w) = [(1, 7, true)] /\ map ptag (q12 w) = [8].
Proof. vm_compute. split; reflexivity. Qed.
