(* C15 — authentication and topic ACLs are enforced on connect, publish and subscribe. *)
From Coq Require Import List NArith Arith Bool.
Import ListNotations.
From VMQ Require Import model.Auth proofs.AuthProofs.
Open Scope N_scope.

(* a CONNECT is accepted iff one of the configured authenticators accepts, and the permission object
   is the FIRST one that does *)
Theorem C15_chain : forall vs,
  ((exists k, password_chain vs 0 = Some k) <-> exists j, nth j vs false = true) /\
  (forall k, password_chain vs 0 = Some k -> nth k vs false = true /\ forall j, (j < k)%nat -> nth j vs false = false).
Proof.
  intros vs. split; [apply chain_accepts_iff|]. intros k H. pose proof (chain_spec vs 0) as S. rewrite H in S.
  destruct S as [_ [H2 H3]]. rewrite Nat.sub_0_r in H2, H3. auto.
Qed.
Print Assumptions C15_chain.

(* the built-in user database never crashes on an ACL check, for EVERY configuration *)
Theorem C15_acl_never_panics : forall c user topic w, acl (build c) user topic w <> Panic.
Proof. exact acl_never_panics. Qed.
Print Assumptions C15_acl_never_panics.

(* and applies to a user exactly the rules configured for him in his last definition, falling back
   to the defaults rule by rule *)
Theorem C15_user_rules : forall c es e, file_users c = es ++ [e] ->
  lookup (eu_name e) (build c) =
  Some (mkCred (eu_hash e)
               (match c_read (eu_acl e) with Some p => PPrefix p | None => default_pat (c_read (default_acl c)) end)
               (match c_write (eu_acl e) with Some p => PPrefix p | None => default_pat (c_write (default_acl c)) end)).
Proof.
  intros c es e H.
  assert (E : lookup (eu_name e) (build_users c) = Some (mkCred (eu_hash e)
               (match c_read (eu_acl e) with Some p => PPrefix p | None => default_pat (c_read (default_acl c)) end)
               (match c_write (eu_acl e) with Some p => PPrefix p | None => default_pat (c_write (default_acl c)) end)))
    by (unfold build_users; rewrite H; apply load_enh_last).
  unfold build. destruct (build_users c) as [|x m]; [discriminate E|exact E].
Qed.

(* a configuration without any user: "guest" may log in with the password "guest" and gets the default rules *)
Theorem C15_guest_fallback : forall c, users c = [] -> enh_users c = [] -> file_users c = [] ->
  password (build c) guest_name guest_hash = Allow /\
  forall topic w, acl (build c) guest_name topic w =
    pmatch (default_pat (if w then c_write (default_acl c) else c_read (default_acl c))) topic.
Proof.
  intros c H1 H2 H3. unfold build, build_users. rewrite H1, H2, H3. cbn [fold_left]. split; [vm_compute; reflexivity|].
  intros topic w. unfold acl. cbn [lookup]. replace (str_eqb guest_name guest_name) with true by (vm_compute; reflexivity).
  destruct w; reflexivity.
Qed.
Print Assumptions C15_guest_fallback.
Print Assumptions C15_user_rules.

(* for EVERY sequence of publishes of one connection, with or without topic, with any aliases: whatever is
   routed is allowed by the write ACL - an alias never carries a publish past the ACL *)
Theorem C15_alias_cannot_bypass_acl : forall allowed ps tp,
  In (ARouted tp) (alias_run allowed [] ps) -> allowed tp = true.
Proof. intros allowed ps tp. apply alias_run_ok. Qed.
Print Assumptions C15_alias_cannot_bypass_acl.

Example C15_nonvacuous :
  let c := mkCfg [([117], [1])] [mkEnh [101] [2] (mkACL (Some [114;47]) None)] [] (mkACL None (Some [119;47])) in
  acl (build c) [101] [114;47;120] false = Allow /\ acl (build c) [101] [119;47;120] true = Allow /\
  acl (build c) [101] [120] true = Deny /\ acl (build c) [117] [120] false = Allow /\ acl (build c) [122] [120] false = Deny /\
  password_chain [false; true; true] 0 = Some 1%nat.
Proof. vm_compute. repeat split. Qed.
