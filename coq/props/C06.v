(* C06 — per-connection protocol state machine: CONNECT first, legal packets only. *)
From Coq Require Import List NArith Bool String.
Import ListNotations.
From VMQ Require Import gen.Extracted model.ConnSM.
Open Scope N_scope.

(* the admissibility table found in connection/connection.go NOW is exactly the set of packet types
   a client may send in each state (checked by computation on the extracted table) *)
Theorem C06_table_is_spec : expected_packet_type_found = true /\ table_is_spec = true.
Proof. split; vm_compute; reflexivity. Qed.
Print Assumptions C06_table_is_spec.

Theorem C06_first_packet_must_be_connect : forall o p, ty p <> CONNECT -> step o SConnecting p = (SClosed, []).
Proof. intros o p H. unfold step. destruct (ty p); try contradiction; reflexivity. Qed.
Print Assumptions C06_first_packet_must_be_connect.

Theorem C06_closed_is_absorbing : forall o ps, run o SClosed ps = (SClosed, map (fun _ => []) ps).
Proof. intros o ps. induction ps as [|p r IH]; cbn [run step map]; [reflexivity|]. rewrite IH. reflexivity. Qed.
Print Assumptions C06_closed_is_absorbing.

(* every packet a client must not send in an established connection, a second CONNECT, an
   unsolicited AUTH, and SUBSCRIBE / UNSUBSCRIBE / QoS>0 PUBLISH with identifier 0 close the
   connection; a v5 connection is first sent DISCONNECT 'protocol error'; nothing else is sent *)
Definition illegal (p : pkt) : bool :=
  match ty p with
  | CONNECT | CONNACK | SUBACK | UNSUBACK | PINGRESP | AUTH => true
  | SUBSCRIBE | UNSUBSCRIBE => pid p =? 0
  | PUBLISH => negb (pqos p =? 0) && (pid p =? 0)
  | _ => false
  end.
Theorem C06_illegal_closes : forall o p, illegal p = true ->
  step o SConnected p = (SClosed, if v5 o then [(14, 0, 130)] else []).
Proof.
  intros o p H. unfold illegal in H. unfold step, proto_error.
  destruct (ty p) eqn:E; try discriminate; vm_compute admissible; cbn [negb];
    try reflexivity; try (rewrite H; reflexivity).
  apply andb_true_iff in H. destruct H as [H1 H2]. apply negb_true_iff in H1. rewrite H1, H2. reflexivity.
Qed.
Print Assumptions C06_illegal_closes.

(* each legal request gets exactly its response *)
Theorem C06_request_response : forall o p,
  (ty p = PINGREQ -> step o SConnected p = (SConnected, [(13, 0, 0)])) /\
  (ty p = SUBSCRIBE -> pid p <> 0 -> (flag p && v5 o && negb (subs_id o)) = false -> (v5 o && (pqos p =? 1)) = false ->
     step o SConnected p = (SConnected, [(9, pid p, N.of_nat (nfilt p))])) /\
  (ty p = UNSUBSCRIBE -> pid p <> 0 ->
     step o SConnected p = (SConnected, [(11, pid p, if v5 o then N.of_nat (nfilt p) else 0)])) /\
  (ty p = DISCONNECT -> step o SConnected p = (SClosed, [])).
Proof.
  intros o p. unfold step. repeat split; intros E; rewrite E; vm_compute admissible; cbn [negb]; try reflexivity.
  - intros Hid Hf Hs. apply N.eqb_neq in Hid. rewrite Hid, Hf, Hs. reflexivity.
  - intros Hid. apply N.eqb_neq in Hid. rewrite Hid. reflexivity.
Qed.
Print Assumptions C06_request_response.

(* a v5 SUBSCRIBE whose last filter is a shared subscription with No Local set is a protocol error, whatever
   precedes that filter in the packet (the correspondence run probes, after a reconnect of the durable session, that
   none of the packet's filters is subscribed: "no other effect") *)
Theorem C06_shared_nolocal_subscribe_closes : forall o p,
  ty p = SUBSCRIBE -> pid p <> 0 -> (flag p && negb (subs_id o)) = false -> v5 o = true -> pqos p = 1 ->
  step o SConnected p = (SClosed, [(14, 0, 130)]).
Proof.
  intros o p E Hid Hf Hv Hq. unfold step, proto_error. rewrite E. vm_compute admissible. cbn [negb].
  apply N.eqb_neq in Hid. rewrite Hid, Hv, Hq. cbn [andb N.eqb Pos.eqb].
  destruct (flag p); cbn [andb] in *; [rewrite Hf|]; reflexivity.
Qed.
Print Assumptions C06_shared_nolocal_subscribe_closes.

(* exactly one CONNACK, before anything else: over every packet sequence, the first non-empty
   response list is [CONNACK ..] and no later response is a CONNACK *)
Definition is_connack (r : resp) : bool := fst (fst r) =? 2.
Lemma connected_never_connacks o ps : forall s, s <> SConnecting ->
  forallb (fun rs => forallb (fun r => negb (is_connack r)) rs) (snd (run o s ps)) = true.
Proof.
  induction ps as [|p r IH]; intros s Hs; cbn [run]; [reflexivity|].
  destruct (step o s p) as [s1 x] eqn:E. destruct (run o s1 r) as [s2 xs] eqn:E2. cbn [snd forallb].
  assert (s1 <> SConnecting /\ forallb (fun r => negb (is_connack r)) x = true) as [Hs1 Hx].
  { destruct s; [contradiction| |inversion E; subst; split; [discriminate|reflexivity]].
    unfold step, proto_error in E. destruct (negb (admissible SConnected (ty p)));
      [inversion E; subst; split; [discriminate|destruct (v5 o); reflexivity]|].
    destruct (ty p); repeat match type of E with context [if ?c then _ else _] => destruct c end;
      inversion E; subst; split; try discriminate; try reflexivity; destruct (v5 o); reflexivity. }
  rewrite Hx. cbn [andb]. specialize (IH s1 Hs1). rewrite E2 in IH. exact IH.
Qed.
Theorem C06_one_connack_first : forall o p ps,
  let '(_, outs) := run o SConnecting (p :: ps) in
  match outs with
  | first :: rest =>
      (first = [] \/ exists c, first = [(2, 0, c)]) /\
      forallb (fun rs => forallb (fun r => negb (is_connack r)) rs) rest = true /\
      (first = [] -> forallb (fun rs => match rs with [] => true | _ => false end) rest = true)
  | [] => False
  end.
Proof.
  intros o p ps. cbn [run]. destruct (step o SConnecting p) as [s1 x] eqn:E.
  destruct (run o s1 ps) as [s2 xs] eqn:E2.
  assert (s1 <> SConnecting) as Hs1.
  { unfold step in E. repeat match type of E with context [if ?c then _ else _] => destruct c end; inversion E; discriminate. }
  split; [|split].
  - unfold step in E. repeat match type of E with context [if ?c then _ else _] => destruct c end; inversion E; subst; eauto.
  - pose proof (connected_never_connacks o ps s1 Hs1) as H. rewrite E2 in H. exact H.
  - intros Hx. subst x. assert (s1 = SClosed) as ->.
    { unfold step in E. repeat match type of E with context [if ?c then _ else _] => destruct c end; inversion E; subst; try reflexivity; discriminate. }
    rewrite C06_closed_is_absorbing in E2. inversion E2; subst. clear. induction ps; [reflexivity|exact IHps].
Qed.
Print Assumptions C06_one_connack_first.

Example C06_nonvacuous :
  snd (run (mkO true true true) SConnecting
         [mkP CONNECT 0 0 0 false; mkP SUBSCRIBE 5 2 0 false; mkP PINGREQ 0 0 0 false; mkP SUBACK 5 1 0 false; mkP PINGREQ 0 0 0 false]) =
  [[(2, 0, 0)]; [(9, 5, 2)]; [(13, 0, 0)]; [(14, 0, 130)]; []].
Proof. vm_compute. reflexivity. Qed.
