(* C11 — the will is published exactly once on abnormal end, never after a normal DISCONNECT. *)
From Coq Require Import List NArith ZArith Bool Lia.
Import ListNotations.
From VMQ Require Import model.Sessions proofs.SessionsProofs.
Open Scope Z_scope.

(* AT MOST ONCE, over every history: the number of publications of the will with tag g never exceeds
   the number of CONNECTs that declared it — whatever happens in between (drops, takeovers, timers,
   DISCONNECTs with new expiry, shutdown, restart), for all client ids at once.  In particular a will
   declared by one CONNECT is published at most once. *)
Theorem C11_at_most_once : forall pre es g,
  (emitted g (concat (snd (run (init pre) es))) <= uses_all g es)%nat.
Proof.
  intros pre es g. pose proof (run_conserve g es (init pre)) as H. cbn [init sess held] in H. lia.
Qed.
Print Assumptions C11_at_most_once.

(* what the end of a connection does with the will: a client DISCONNECT (keep_will = false) discards
   it; otherwise it is published at once when it has no delay or the session ends with the connection,
   else it is kept with the deadline now + delay *)
Theorem C11_connection_end : forall s id keep_will newexp c,
  s_conn (get id (sess s)) = Some c ->
  let r := get id (sess s) in
  let r' := get id (sess (fst (conn_end s id keep_will newexp))) in
  match (if keep_will then s_will r else None) with
  | None => snd (conn_end s id keep_will newexp) = [] /\ s_will r' = None /\ s_will_at r' = None
  | Some x =>
      if (w_delay x =? 0) || negb (end_durable r newexp)
      then snd (conn_end s id keep_will newexp) = [OWill id (w_tag x)] /\ s_will r' = None /\ s_will_at r' = None
      else snd (conn_end s id keep_will newexp) = [] /\ s_will r' = Some x /\ s_will_at r' = Some (now s + w_delay x)
  end.
Proof. exact conn_end_will. Qed.
Print Assumptions C11_connection_end.

(* never after a normal DISCONNECT: nothing is published then, and nothing is left to publish later *)
Theorem C11_normal_disconnect : forall s id newexp c,
  s_conn (get id (sess s)) = Some c ->
  snd (step s (EDisconnect id false newexp)) = [] /\
  s_will (get id (sess (fst (step s (EDisconnect id false newexp))))) = None.
Proof.
  intros s id newexp c Hc. cbn [step]. pose proof (conn_end_will s id false newexp c Hc) as H. cbn in H.
  destruct H as [H1 [H2 _]]. auto.
Qed.
Print Assumptions C11_normal_disconnect.

(* a pending will is published when its delay has passed or the session ends, whichever comes first,
   and not before *)
Theorem C11_pending_fires : forall t id r x,
  s_conn r = None -> s_will r = Some x ->
  let due := (match s_will_at r with Some wt => wt <=? t | None => false end) ||
             (match s_expire_at r with Some e => e <=? t | None => false end) in
  if due then (snd (fire t id r) = [OWill id (w_tag x)] /\ s_will (fst (fire t id r)) = None)
  else (snd (fire t id r) = [] /\ fst (fire t id r) = r).
Proof.
  intros t id r x Hc Hw. cbn zeta. unfold fire. rewrite Hc, Hw.
  destruct (match s_expire_at r with Some e => e <=? t | None => false end);
    destruct (match s_will_at r with Some wt => wt <=? t | None => false end); cbn; split; reflexivity.
Qed.
Print Assumptions C11_pending_fires.

(* ... and that is what the passage of time does to every detached session *)
Theorem C11_tick_fires_all : forall s dt id,
  get id (sess (fst (step s (ETick dt)))) = fst (fire (now s + dt) id (get id (sess s))) /\
  snd (step s (ETick dt)) = flat_map (fun ir => snd (fire (now s + dt) (fst ir) (snd ir))) (sess s).
Proof.
  intros s dt id. cbn [step]. rewrite fire_all_spec. cbn [fst snd sess]. split; [|reflexivity].
  apply (get_maprec (fun i r => fst (fire (now s + dt) i r))). reflexivity.
Qed.
Print Assumptions C11_tick_fires_all.

(* suppressed if the client reconnects before the delay has elapsed *)
Theorem C11_reconnect_suppresses : forall s c id v5 clean expiry w x,
  s_conn (get id (sess s)) = None -> s_will (get id (sess s)) = Some x ->
  emitted (w_tag x) (snd (connect s c id v5 clean expiry w)) = 0%nat /\
  s_will (get id (sess (fst (connect s c id v5 clean expiry w)))) = w.
Proof.
  intros s c id v5 clean expiry w x Hc Hw. unfold connect. rewrite Hc, connect_free_out, connect_free_rec. split; [|reflexivity].
  unfold emitted. cbn [filter will_of]. apply emitted_map_deliver.
Qed.
Print Assumptions C11_reconnect_suppresses.

Example C11_nonvacuous :
  concat (snd (run (init true) [EConnect 1%N 7%N true false (Some 5000) (Some (mkWill 9%N 5%N 2000)); EDrop 7%N; ETick 1000; ETick 1500; ETick 9000])) =
    [OConnack 1%N false 0%N; OWill 7%N 9%N] /\
  concat (snd (run (init true) [EConnect 1%N 7%N true false (Some 5000) (Some (mkWill 9%N 5%N 2000)); EDrop 7%N; ETick 1000;
                                EConnect 2%N 7%N true false (Some 5000) None; ETick 5000])) =
    [OConnack 1%N false 0%N; OConnack 2%N true 0%N] /\
  concat (snd (run (init true) [EConnect 1%N 7%N true false (Some 1000) (Some (mkWill 9%N 5%N 2000)); EDrop 7%N; ETick 1200])) =
    [OConnack 1%N false 0%N; OWill 7%N 9%N].
Proof. vm_compute. repeat split. Qed.
