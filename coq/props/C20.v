(* C20 — shutdown terminates, closes all connections and persists durable state.
   Termination itself is not a theorem about a total Gallina function (every Gallina function
   terminates): that Manager.Stop RETURNS for every population is observed by the correspondence check
   (output OStopReturned must be seen).  Proved here: what a returned Stop has done. *)
From Coq Require Import List NArith ZArith Bool.
Import ListNotations.
From VMQ Require Import model.Sessions proofs.SessionsProofs.
Open Scope Z_scope.

(* for every population reachable by any history: after Stop no connection is attached any more,
   every connection that was attached has been told (OClosed .. RShutdown; v5: DISCONNECT 0x8B in the
   implementation), the last thing Stop does is return, and new connections are not accepted *)
Theorem C20_stop_closes_everything : forall pre es,
  let s := fst (run (init pre) es) in
  (forall id, s_conn (get id (sess (fst (stop s)))) = None) /\
  (forall id c, s_conn (get id (sess s)) = Some c -> In (OClosed c RShutdown) (snd (stop s))) /\
  (exists o, snd (stop s) = o ++ [OStopReturned]) /\
  stopped (fst (stop s)) = true /\
  (forall c id v5 clean expiry w, step (fst (stop s)) (EConnect c id v5 clean expiry w) = (fst (stop s), [])).
Proof.
  intros pre es s. pose proof (run_state_inv es (init pre) (init_inv pre)) as HI. fold s in HI.
  split; [intros id; apply stop_detaches_all; exact HI|].
  split; [intros id c; apply stop_closes; exact HI|].
  split; [apply stop_returns|].
  assert (Hs : stopped (fst (stop s)) = true).
  { rewrite stop_unfold. destruct (fold_left stop_step (sess s) (s, [])). reflexivity. }
  split; [exact Hs|]. intros. cbn [step]. rewrite Hs. reflexivity.
Qed.
Print Assumptions C20_stop_closes_everything.

(* the subscriptions and undelivered messages of durable sessions are what Stop leaves behind (the
   model's persistent part); sessions that were detached already — with a pending expiry or delayed
   will — are left exactly as they are, timers' deadlines included *)
Theorem C20_durable_state_handed_over : forall pre es id,
  let s := fst (run (init pre) es) in
  let r := get id (sess s) in
  let r' := get id (sess (fst (stop s))) in
  match s_conn r with
  | None => r' = r
  | Some _ => if end_durable r None then s_subs r' = s_subs r /\ s_queue r' = s_queue r /\ s_present r' = true
              else r' = wiped r
  end.
Proof. intros pre es id. apply stop_state. apply run_state_inv. apply init_inv. Qed.
Print Assumptions C20_durable_state_handed_over.

(* no will is lost or duplicated by a shutdown: conservation holds across it *)
Theorem C20_wills_conserved : forall s g,
  (emitted g (snd (stop s)) + held g (sess (fst (stop s))) <= held g (sess s))%nat.
Proof. intros s g. apply stop_conserve. Qed.
Print Assumptions C20_wills_conserved.

Example C20_nonvacuous :
  concat (snd (run (init true) [EConnect 1%N 7%N false false None None; ESubscribe 7%N 6%N;
                                EConnect 2%N 8%N false true None (Some (mkWill 9%N 5%N 0)); EStop;
                                EConnect 3%N 9%N false true None None])) =
    [OConnack 1%N false 0%N; OConnack 2%N false 0%N; OClosed 1%N RShutdown; OClosed 2%N RShutdown; OWill 8%N 9%N; OStopReturned].
Proof. vm_compute. reflexivity. Qed.
