(* C07 — retained store keeps the last non-empty retained publish; sent on subscribe. *)
From Coq Require Import List NArith Bool.
Import ListNotations.
From VMQ Require Import model.Trie model.Match proofs.TrieProofs proofs.TrieHistory proofs.TrieRetained.
Open Scope N_scope.

(* at most one retained message per topic node, by construction of the tree *)
Theorem C07_at_most_one_per_topic : forall n, (length (match nret n with Some m => [m] | None => [] end) <= 1)%nat.
Proof. intros n. destruct (nret n); cbn; auto. Qed.
Print Assumptions C07_at_most_one_per_topic.

(* retain-set / retain-clear never touch a subscription list (they rebuild the path with the same
   [nsubs] at every node); stated on one step at the root level *)
Theorem C07_retain_keeps_root_subs : forall p m e ow n, nsubs (retain p m e ow n) = nsubs n.
Proof.
  intros p m e ow n. unfold retain.
  assert (forall p n, nsubs (ret_remove p n) = nsubs n) as Hr.
  { intros p0 n0. destruct p0 as [|l p']; cbn [ret_remove]; [reflexivity|]. destruct (findk l (nkids n0)); reflexivity. }
  assert (forall p m n, nsubs (ret_insert p m n) = nsubs n) as Hi.
  { intros p0 m0 n0. destruct p0; reflexivity. }
  destruct e; [apply Hr|]. destruct ((m_qos m =? 0) && negb ow); [rewrite Hi; apply Hr|apply Hi].
Qed.
Print Assumptions C07_retain_keeps_root_subs.

(* ... and nowhere else in the tree either: setting or clearing a retained message never adds, removes or
   alters any subscription, at any depth, and keeps the tree well-formed *)
Theorem C07_retain_preserves_all_subs : forall p m e ow n, wf n ->
  wf (retain p m e ow n) /\ forall q x, In (q, x) (tsubs (retain p m e ow n)) <-> In (q, x) (tsubs n).
Proof. exact retain_spec. Qed.
Print Assumptions C07_retain_preserves_all_subs.

(* THE STORE after any history is the specification's map: per topic the most recent retained publish
   with a non-empty payload, nothing for a topic whose last retained publish had an empty payload
   (Match.abs_rets), one entry per topic at most *)
Theorem C07_store_after_history : forall h,
  (forall q m, In (q, m) (trets (run h)) <-> In (q, m) (abs_rets h)) /\ NoDup (map fst (abs_rets h)).
Proof. intros h. split; [apply (run_relR h) | apply abs_rets_nodup; constructor]. Qed.
Print Assumptions C07_store_after_history.

(* WHAT A SUBSCRIPTION IS SENT: after any history whose retained publishes name wildcard-free topics, for
   every filter with '#' only as its last level (any depth, '+', '$' levels, empty levels), the retained
   walk of both providers returns exactly the unexpired retained messages of the store whose topics match
   the filter under the rules of Match.v *)
Theorem C07_retained_walk_full : forall h f, valid_history h -> vfilter (split f) = true ->
  forall m, In m (ret_search_top (split f) (run h)) <->
            exists t, In (t, m) (abs_rets h) /\ m_expired m = false /\ matches (split f) t = true.
Proof. exact retained_walk_history. Qed.
Print Assumptions C07_retained_walk_full.

(* which of the two shapes of [retain] a provider has is read from its source on every run: topics/mem removes
   first also for a QoS 0 publish (both steps under its one lock: [overwrite] = false), the lock-free index removes
   for an empty payload only ([overwrite] = true; why it must: props/C09.v) *)
From Coq Require String.
From VMQ Require gen.Extracted.
Import String.StringSyntax Ascii.AsciiSyntax.
Open Scope string_scope.
Theorem C07_replace_shapes :
  Extracted.mem_retain_remove_guards = ["ok && len(t.Payload()) == 0 || t.QoS() == mqttp.QoS0"] /\
  Extracted.lf_retain_remove_guards = ["len(t.Payload()) == 0"].
Proof. vm_compute. split; reflexivity. Qed.
Close Scope string_scope.
Print Assumptions C07_replace_shapes.

(* Retain Handling (send always / only for a new subscription / never) and RETAIN=1 on what is sent are
   the correspondence check's and C08's; message expiry enters as a flag on the stored message. *)

Example C07_nonvacuous :
  let h := [ORetain [97;47;98] (mkMsg 1 1 false) false true; ORetain [36;115;47;120] (mkMsg 2 1 false) false false;
            ORetain [97;47;98] (mkMsg 3 0 false) false true; ORetain [99] (mkMsg 4 0 false) false false; ORetain [99] (mkMsg 5 1 false) true true] in
  map m_tag (ret_search_top (split [43;47;98]) (run h)) = [3] /\
  map m_tag (ret_search_top (split [35]) (run h)) = [3] /\
  map m_tag (ret_search_top (split [36;115;47;35]) (run h)) = [2] /\
  map m_tag (ret_search_top (split [99]) (run h)) = [].
Proof. vm_compute. repeat split. Qed.
