(* C19 — keep-alive and connect timeouts close silent connections, and only those. *)
From Coq Require Import List ZArith Bool Lia.
Import ListNotations.
From VMQ Require Import gen.Extracted model.KeepAlive proofs.KeepAliveProofs.
Open Scope Z_scope.

(* the deadline expression found in connection/options.go NOW is one and a half times K in whole
   seconds, never below K, for EVERY K >= 0 *)
Theorem C19_formula : keepalive_secs_found = true /\
  forall k, 0 <= k -> keepalive_secs k = (3 * k) / 2 /\ k <= keepalive_secs k /\ 2 * keepalive_secs k <= 3 * k.
Proof. split; [reflexivity|exact keepalive_formula]. Qed.
Print Assumptions C19_formula.

(* K = 0 disables the timer *)
Theorem C19_zero_disables : forall scale last arrivals horizon,
  closes_at (deadline scale 0) last arrivals horizon = None.
Proof. intros. unfold deadline. rewrite keepalive_zero. cbn [Z.mul]. apply zero_never_closes. Qed.
Print Assumptions C19_zero_disables.

(* a silent connection is closed exactly 1.5 K (whole seconds) after its last packet ... *)
Theorem C19_silent_closed : forall k scale last horizon, 0 < k -> 0 < scale ->
  last + deadline scale k <= horizon ->
  closes_at (deadline scale k) last [] horizon = Some (last + deadline scale k).
Proof.
  intros k scale last horizon Hk Hs Hh. apply silent_closes; [|exact Hh].
  unfold deadline. destruct (keepalive_formula k ltac:(lia)) as [_ [H _]]. nia.
Qed.
Print Assumptions C19_silent_closed.

(* ... and, whatever the traffic, never before K seconds of silence since some packet *)
Theorem C19_never_before_k : forall k scale last arrivals horizon t, 0 <= k -> 0 < scale ->
  closes_at (deadline scale k) last arrivals horizon = Some t ->
  exists l, (l = last \/ In l arrivals) /\ l + k * scale <= t.
Proof.
  intros k scale last arrivals horizon t Hk Hs H. destruct (never_early _ _ _ _ _ H) as [l [Hl ->]].
  exists l. split; [exact Hl|]. unfold deadline. destruct (keepalive_formula k Hk) as [_ [H1 _]]. nia.
Qed.
Print Assumptions C19_never_before_k.

(* a connection that sends a packet at least every K seconds (K >= 2; for K = 1 the deadline equals
   K and the gap must be strictly smaller) is never closed while it does so *)
Theorem C19_active_not_closed : forall k scale last arrivals horizon, 2 <= k -> 0 < scale ->
  (fix gaps (l : Z) (a : list Z) : Prop := match a with [] => True | t :: r => l <= t /\ t <= l + k * scale /\ gaps t r end) last arrivals ->
  forall t, closes_at (deadline scale k) last arrivals horizon = Some t -> t = last_of last arrivals + deadline scale k.
Proof.
  intros k scale last arrivals horizon Hk Hs Hg t H.
  assert (0 < deadline scale k) as Hd by (unfold deadline; pose proof (keepalive_strict k Hk); nia).
  assert (forall a l,
            (fix gaps (l : Z) (a : list Z) : Prop := match a with [] => True | t :: r => l <= t /\ t <= l + k * scale /\ gaps t r end) l a ->
            gaps_below (deadline scale k) l a) as Hconv.
  { induction a as [|x r IH]; intros l Hl; cbn [gaps_below]; [exact I|].
    destruct Hl as [H1 [H2 H3]]. split; [exact H1|]. split; [|apply IH; exact H3].
    unfold deadline. pose proof (keepalive_strict k Hk). nia. }
  pose proof (Hconv _ _ Hg) as Hgb.
  rewrite (active_not_closed _ _ _ _ Hd Hgb) in H. destruct (_ <=? _); inversion H; reflexivity.
Qed.
Print Assumptions C19_active_not_closed.

Example C19_nonvacuous :
  keepalive_secs 1 = 1 /\ keepalive_secs 2 = 3 /\ keepalive_secs 65535 = 98302 /\
  closes_at (deadline 1000 2) 0 [1500; 3500; 5000] 20000 = Some 8000 /\
  closes_at (deadline 1000 2) 0 [1500; 4600] 20000 = Some 4500.
Proof. vm_compute. repeat split. Qed.
