(* C03 — outbound flow control: in-flight <= Receive Maximum, unique ids, no quota leak. *)
From Coq Require Import List NArith ZArith Bool.
Import ListNotations.
From Coq Require String.
From VMQ Require Import gen.Extracted model.Flow model.Writer proofs.FlowProofs proofs.WriterProofs model.AckOrder proofs.AckOrderProofs.
Open Scope N_scope.

(* Histories: publishes handed to the client's writer, writer rounds, acknowledgements, connection
   close and reconnect with a new Receive Maximum.  [guarded]: the client acknowledges only what it
   was sent, and a reconnect announces a Receive Maximum >= the number of packets it has not
   acknowledged (the region outside is refute/C03.v + KNOWN_FINDINGS C03-reconnect-lower-rm). *)

(* 1. the writer never gets stuck (the identifier search always succeeds), for every Receive Maximum
      in 0..65535 and every guarded history, including identifier wrap-around *)
Theorem C03_never_stuck : forall rm oq es, (0 <= rm <= 65535)%Z ->
  guarded (init rm oq) es -> opens_ok es ->
  exists w' outs, run (init rm oq) es = (Fine, w', outs).
Proof. intros rm oq es [H0 H1] Hg Ho. eapply run_fine; eauto. apply init_inv. exact H0. Qed.
Print Assumptions C03_never_stuck.

(* 2. in every reachable connected state: the identifiers in use are at most Receive Maximum many,
      pairwise distinct and non-zero (rm' = the Receive Maximum of the current connection) *)
Theorem C03_inflight_bounded_distinct_nonzero : forall rm oq es w' outs, (0 <= rm)%Z ->
  guarded (init rm oq) es -> run (init rm oq) es = (Fine, w', outs) -> alive w' = true ->
  let rm' := fst (fold_left track es (rm, true)) in
  (Z.of_nat (length (inuse (fl w'))) <= rm')%Z /\ NoDup (inuse (fl w')) /\ ~ In 0 (inuse (fl w')).
Proof.
  intros rm oq es w' outs H0 Hg Hr Ha.
  destruct (run_inv es rm _ _ _ (init_inv rm oq H0) Hg Hr) as [Hi _].
  exact (inv_inflight _ _ Hi Ha).
Qed.
Print Assumptions C03_inflight_bounded_distinct_nonzero.

(* 3. what a writer round puts on the wire at QoS>0 (and every PUBREL) carries an identifier that is
      registered in use, so (2) bounds what the client sees; a fresh identifier is never one in use *)
Theorem C03_wire_ids_registered : forall rm now w w' o p,
  Inv rm w -> alive w = true -> pop_round now w = (Fine, w', o) -> In p o ->
  In p (q0 w) \/ In (pid p) (inuse (fl w')).
Proof. exact pop_wire_registered. Qed.
Print Assumptions C03_wire_ids_registered.

Theorem C03_no_reuse_before_done : forall f id f',
  acquire f = Ok (id, f') -> ~ In id (inuse f) /\ id <> 0.
Proof. intros f id f' H. destruct (acquire_ok _ _ _ H) as [A [B _]]. auto. Qed.
Print Assumptions C03_no_reuse_before_done.

(* 4. every way a delivery ends returns its slot: at quiescence the whole Receive Maximum is back *)
Theorem C03_quota_restored : forall rm oq es w' outs, (0 <= rm)%Z ->
  guarded (init rm oq) es -> run (init rm oq) es = (Fine, w', outs) -> alive w' = true ->
  pubout w' = [] -> qrel w' = [] ->
  quota (fl w') = fst (fold_left track es (rm, true)).
Proof.
  intros rm oq es w' outs H0 Hg Hr Ha Ho Hq.
  destruct (run_inv es rm _ _ _ (init_inv rm oq H0) Hg Hr) as [Hi _].
  exact (inv_quiescent _ _ Hi Ha Ho Hq).
Qed.
Print Assumptions C03_quota_restored.

(* 5. the identifier search covers the whole cycle 1..65535 (wrap-around) *)
Theorem C03_wraparound : forall c used, NoDup used -> (length used < N.to_nat 65535)%nat ->
  acquire_loop acquire_fuel c used <> None.
Proof. exact acquire_loop_finds. Qed.
Print Assumptions C03_wraparound.

(* 6. finer than one Flow operation: an acknowledgement is two accesses (the entry of the unacknowledged set, the
      release callback that gives the identifier back) and the writer's pop may run between them.  With the order
      the code has (model/AckOrder.v, variant 0; the order itself is read from the source: ack_shape) EVERY
      interleaving of acknowledgements and pops keeps: identifiers in use pairwise distinct, quota + in use =
      Receive Maximum, and - whenever no acknowledgement is half-way - the identifiers in use are exactly those of
      the registered (transmitted, unacknowledged) messages, so quota + unacknowledged = Receive Maximum. *)
Theorem C03_ack_order_accounting : forall rm unacked waiting es,
  NoDup (map fst unacked) -> (Z.of_nat (length unacked) <= rm)%Z ->
  let s := arun 0 (astart rm unacked waiting) es in
  NoDup (map fst (reg s)) /\ NoDup (inuse (afl s)) /\
  (quota (afl s) + Z.of_nat (length (inuse (afl s))) = rm)%Z /\ (0 <= quota (afl s))%Z /\
  (apcs s = AIdle -> (forall x, In x (inuse (afl s)) <-> In x (map fst (reg s))) /\
                     (quota (afl s) + Z.of_nat (length (reg s)) = rm)%Z).
Proof. exact ack_order_accounting. Qed.
Print Assumptions C03_ack_order_accounting.

Import String.StringSyntax Ascii.AsciiSyntax.
Open Scope string_scope.
Eval vm_compute in (ashape_diff ack_shape).
Close Scope string_scope.
Theorem C03_ack_shape : ashape_ok ack_shape = true.
Proof. vm_compute. reflexivity. Qed.
Print Assumptions C03_ack_shape.

(* non-vacuity: Receive Maximum 2, four publishes (one expired), out-of-order acks, a reconnect *)
Definition c03_example : list ev :=
  [ESend 0 (mkPkt (KPub 1) 0 1 None false); EPop 0; ESend 0 (mkPkt (KPub 2) 0 2 None false); EPop 0;
   ESend 0 (mkPkt (KPub 1) 0 3 (Some 0%Z) false); ESend 0 (mkPkt (KPub 1) 0 4 None false); EPop 0;
   EAck true (APubrec 2 false); EPop 0; EClose 0; EOpen 2; EPop 0; EPop 0;
   EAck true (APuback 1); EPop 0; EPop 0; EAck true (APubcomp 2); EAck true (APuback 1); EPop 0].
Example C03_nonvacuous :
  guarded (init 2 false) c03_example /\ opens_ok c03_example /\
  let '(oc, w, outs) := run (init 2 false) c03_example in
  oc = Fine /\ pubout w = [] /\ qrel w = [] /\ quota (fl w) = 2%Z /\ length (concat outs) = 6%nat.
Proof.
  split; [vm_compute; tauto|]. split; [unfold opens_ok, c03_example; repeat constructor; intro Hc; discriminate Hc|].
  vm_compute. repeat split.
Qed.
