(* C13 — per-publisher, per-topic order is preserved to every subscriber. *)
From Coq Require Import List Arith Bool.
Import ListNotations.
From VMQ Require model.Writer proofs.WriterProofs proofs.WriterFifo model.Handoff proofs.HandoffProofs model.HandoffShape.
From VMQ Require Import gen.Extracted model.Route proofs.RouteProofs.

(* The number of routing workers is the one found in topics/memlockfree/topics.go NOW. *)
Lemma C13_extracted_worker_count : lf_publishers_found = true /\ lf_publishers = 1 /\ mem_publishers_found = true /\ mem_publishers = 1.
Proof. repeat split; reflexivity. Qed.

(* For that number of workers, every schedule of the routing workers hands each subscriber the
   messages it must get in publication order (a prefix of the expected sequence at any time). *)
Theorem C13_order_all_schedules :
  forall (M Sb : Type) (dest : M -> list Sb) (seqb : Sb -> Sb -> bool) (msgs : list M) (sched : list label) s',
    run dest (init lf_publishers msgs) sched = Some s' ->
    forall x, exists rest, queue_of seqb x (log s') ++ rest = expected dest seqb x msgs.
Proof. exact @route_order_one_worker. Qed.
Print Assumptions C13_order_all_schedules.

Theorem C13_complete_at_quiescence :
  forall (M Sb : Type) (dest : M -> list Sb) (seqb : Sb -> Sb -> bool) (msgs : list M) (sched : list label) s',
    run dest (init lf_publishers msgs) sched = Some s' -> inbound s' = [] -> ws s' = [None] ->
    forall x, queue_of seqb x (log s') = expected dest seqb x msgs.
Proof. exact @route_complete_one_worker. Qed.
Print Assumptions C13_complete_at_quiescence.

(* THE WRITER SIDE: what the routing layer hands to one session (QoS 1/2 messages without expiry, DUP clear)
   is transmitted for the FIRST time in exactly that order, across every history of writer rounds,
   acknowledgements, disconnects and reconnects and for every Receive Maximum: at any moment, the first
   transmissions so far followed by what still waits (in the queue or in persistence) is the sequence that
   was handed over.  (Retransmissions carry DUP and are not first transmissions; an expired message is dropped
   without reordering the others; QoS 0 has its own FIFO queue.) *)
Theorem C13_writer_fifo : forall rm oq es w' outs,
  WriterFifo.sends_plain es -> Writer.run (Writer.init rm oq) es = (Writer.Fine, w', outs) ->
  map Writer.ptag (WriterFifo.fresh_out (concat outs)) ++ map Writer.ptag (WriterFifo.waiting w') = WriterFifo.sent_tags es.
Proof.
  intros rm oq es w' outs Hs Hr.
  apply (WriterFifo.writer_fifo es (Writer.init rm oq) w' outs (WriterFifo.init_finv rm oq) Hs Hr).
Qed.
Print Assumptions C13_writer_fifo.

(* ACROSS CONNECTIONS: the hand-over of a durable session's messages when its connection ends and when the next one
   is set up (model/Handoff.v: one step per critical section of the subscriber's lock; the order of the steps in the
   Go functions is re-read by the translator on every run).  For EVERY interleaving of routing, transmissions and
   connection life-cycle steps: first transmissions so far ++ what is pending (writer queue, persistence, senders
   held until the backlog is loaded, publishers waiting for the hand-over - in this order) = what the routing layer
   handed to the session, in that order.  So nothing is lost or reordered across a connection end or a reconnect,
   within the next connection included.  The two orders the code had before are refuted in refute/C13.v. *)
Theorem C13_handoff_order : forall (msg : Type) (es : list (@Handoff.ev msg)),
  let s := @Handoff.run msg 0 Handoff.init es in
  Handoff.sent s ++ Handoff.pending s = Handoff.routed es /\
  (Handoff.ph s = Handoff.Connected -> Handoff.pending s = Handoff.txq s /\ Handoff.started s = true).
Proof. exact HandoffProofs.handoff_order. Qed.
Print Assumptions C13_handoff_order.

(* on an established connection whatever is pending is what the writer transmits next (no message is stranded in
   persistence while the client is connected) *)
Theorem C13_handoff_no_stall : forall (msg : Type) (es : list (@Handoff.ev msg)),
  let s := @Handoff.run msg 0 Handoff.init es in
  Handoff.ph s = Handoff.Connected -> Handoff.pending s <> [] ->
  exists m, Handoff.sent (Handoff.step 0 s Handoff.Send) = Handoff.sent s ++ [m] /\ hd_error (Handoff.pending s) = Some m.
Proof. exact HandoffProofs.handoff_no_stall. Qed.
Print Assumptions C13_handoff_no_stall.

(* the Go functions perform the steps in the order the model's events stand for *)
(* RE-transmissions keep the order too (model/Writer.v): what was unacknowledged when a connection ended is queued for
   the next one in the order in which it was transmitted (what that connection had itself still to repeat comes last),
   goes out one per round, and while any of it waits nothing that has never been transmitted leaves its queue - so the
   next connection sees m1(dup) m2(dup) m3(dup) m4 m5, never m2(dup) m4 m1(dup) *)
Theorem C13_retransmissions_in_order_before_new :
  (forall now r w, Writer.alive w = true -> Writer.p_unack w = [] ->
     Writer.qrel (Writer.open r (Writer.close now w)) =
       map (fun x => Writer.enc_unack (snd x)) (rev (Writer.pubout w)) ++ map Writer.enc_unack (Writer.qrel w)) /\
  (forall now w p r w' o oc, Writer.alive w = true -> Writer.qrel w = p :: r -> Writer.pop_round now w = (oc, w', o) ->
     (exists o', o = p :: o') /\ Writer.q12 w' = Writer.q12 w /\ Writer.qrel w' = r).
Proof.
  split.
  - exact WriterProofs.redelivery_queued.
  - intros now w p r w' o oc Ea Hq Hp. split; [exact (WriterProofs.retransmit_first now w p r w' o oc Ea Hq Hp)|].
    destruct (WriterProofs.retransmit_before_new now w p r w' o oc Ea Hq Hp) as [A [B _]]. auto.
Qed.
Print Assumptions C13_retransmissions_in_order_before_new.

From Coq Require String.
Import String.StringSyntax Ascii.AsciiSyntax.
Open Scope string_scope.
Eval vm_compute in (HandoffShape.hshape_diff handoff_shape).
Close Scope string_scope.
Theorem C13_handoff_shape : HandoffShape.hshape_ok handoff_shape = true.
Proof. vm_compute. reflexivity. Qed.
Print Assumptions C13_handoff_shape.

(* non-vacuity: a full schedule for 3 messages and 2 subscribers *)
Example C13_nonvacuous :
  let dest (m : nat) := if Nat.even m then [1; 2] else [2] in
  match run dest (init lf_publishers [10; 11; 12]) [Take 0; Deliver 0; Deliver 0; Take 0; Deliver 0; Take 0; Deliver 0; Deliver 0] with
  | Some s => queue_of Nat.eqb 2 (log s) = [10; 11; 12] /\ queue_of Nat.eqb 1 (log s) = [10; 12]
  | None => False
  end.
Proof. vm_compute. split; reflexivity. Qed.
