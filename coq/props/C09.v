(* C09 — concurrent subscribe / unsubscribe / retain / publish are linearizable and crash-free.
   What is proved, and how it is tied to topics/memlockfree:
   (a) the translator (tools/goextract) reads node.go on every run and reports, per method of the provider
       that changes the structure, whether it takes the structure mutex first (gen/Extracted.v,
       lf_writers_locked).  The theorems below are stated for the protocol machine started in THAT mode:
       if a writer loses its lock the obligation C09_writers_locked no longer holds, and refute/C09.v says
       what then goes wrong (schedules replayed on the implementation by the harness).
   (b) with the mutex, in the protocol machine model/LFProto.v (one atomic access per step, any scheduler):
       mutual exclusion holds in every reachable configuration and while the mutex is held a step of any
       other thread changes nothing - the heap is only ever changed by one operation at a time, i.e. every
       execution is a sequential composition of whole operations.
   (c) whole operations on pairwise distinct subscription keys commute on the abstract subscription map, so
       a round of such operations has ONE outcome whatever the order the mutex grants - this is what the
       correspondence check compares the real provider with, round by round, under real concurrency.
   (d) sequential correctness of whole operations and of the search walk is C01's / C07's subject.
   (e) the lock-free SEARCH beside the writers (model/LFSearch.v: one reader that takes no lock, one atomic
       access per step - a children.Load per level, then the subs of the node it reached - interleaved with
       the writers' atomic accesses in ANY order; a search for a topic is a set of such walks, one per matching
       filter path, "+" and "#" being ordinary keys): a subscription that is in place and that no unfinished
       UNSUBSCRIBE targets is found; a subscriber that is not registered at the path and that no unfinished
       SUBSCRIBE registers there is not found - whatever else is created or pruned around the path meanwhile,
       including the node the reader stands on.  An operation on the very pair (path, subscriber) that overlaps
       the search may be seen or not: both are linearizations.
   Not modelled: retained messages in the protocol machine (n_ret is never set there; the retained walk is
   C07's subject, its hand-over to the clean-up is exercised by the gated schedule cleanup-vs-retain);
   sync.Map.Range is taken as one read of the set, which is faithful for keys that are present (absent) during
   the whole call - exactly the keys the two theorems speak about. *)
From Coq Require Import List NArith ZArith Bool Arith Permutation.
Import ListNotations.
From VMQ Require Import gen.Extracted model.Trie model.Match model.LFProto proofs.LFProofs model.LFSearch proofs.LFSearchProofs model.LFShape.

(* (a) *)
Theorem C09_writers_locked : lf_writers_locked = true.
Proof. vm_compute. reflexivity. Qed.
Print Assumptions C09_writers_locked.

(* (a') the functions of node.go make the atomic accesses, in the order and under the conditions, that the
   protocol machine and the reader were written against *)
From Coq Require String.
Import String.StringSyntax Ascii.AsciiSyntax.
Open Scope string_scope.
Eval vm_compute in (shape_diff lf_shape).      (* for the log: which function differs, and what was read *)
Close Scope string_scope.
Theorem C09_protocol_shape : shape_ok lf_shape = true.
Proof. vm_compute. reflexivity. Qed.
Print Assumptions C09_protocol_shape.

(* (a'') a retained message is REPLACED in one store: provider.retain removes only for an empty payload (what the
   searches, which take no lock, would see between a removal and an insertion is a topic without its retained
   message - a state no sequential history produces).  Read from the source on every run. *)
Open Scope string_scope.
Eval vm_compute in lf_retain_remove_guards.
Theorem C09_retained_replaced_in_one_store : lf_retain_remove_guards = ["len(t.Payload()) == 0"].
Proof. vm_compute. reflexivity. Qed.
Close Scope string_scope.
Print Assumptions C09_retained_replaced_in_one_store.

(* (b) for every initial heap, every set of operations and EVERY schedule *)
Theorem C09_mutual_exclusion : forall h ops sched,
  let c := run (start lf_writers_locked h ops) sched in
  forall i j oi pi oj pj,
    nth_error (thr c) i = Some (oi, pi) -> nth_error (thr c) j = Some (oj, pj) ->
    active pi -> active pj -> i = j.
Proof.
  intros h ops sched c i j oi pi oj pj Hi Hj Hai Haj. subst c. rewrite C09_writers_locked in *.
  destruct (run_mutex sched (start true h ops) eq_refl (start_mutex h ops)) as [_ HI].
  pose proof (HI i oi pi Hi Hai) as H1. pose proof (HI j oj pj Hj Haj) as H2. congruence.
Qed.
Print Assumptions C09_mutual_exclusion.

Theorem C09_only_the_holder_moves : forall h ops sched i j,
  let c := run (start lf_writers_locked h ops) sched in
  lock c = Some j -> i <> j -> step c i = c.
Proof.
  intros h ops sched i j c Hl Hne. subst c. rewrite C09_writers_locked in *.
  destruct (run_mutex sched (start true h ops) eq_refl (start_mutex h ops)) as [HL HI].
  apply (only_holder_moves _ i j HL HI Hl Hne).
Qed.
Print Assumptions C09_only_the_holder_moves.

(* (c) *)
Theorem C09_distinct_keys_commute : forall ops ops' m,
  Permutation ops ops' -> Forall (fun o => is_subop o = true) ops -> NoDup (map okey ops) ->
  forall k, alookup k (fold_left abs_step ops m) = alookup k (fold_left abs_step ops' m).
Proof. intros ops ops' m HP Hf Hnd. apply (perm_commute ops ops' HP Hf Hnd m m). intros k. reflexivity. Qed.
Print Assumptions C09_distinct_keys_commute.

(* (e) c1 is ANY configuration the writers can reach from the empty index; es is ANY interleaving of
   further writer steps (W i) and steps of the searching reader (R) *)
Theorem C09_search_finds_acknowledged_subscription : forall ops sched1 es p s res,
  let c1 := run (start lf_writers_locked heap0 ops) sched1 in
  In s (receivers c1 p) ->                   (* s is registered at p ... *)
  NoOp true c1 p s ->                        (* ... and no UNSUBSCRIBE(p, s) is unfinished or still to start *)
  snd (run2 (c1, RWalk 0 p) es) = RDone res -> In s res.
Proof.
  intros ops sched1 es p s res c1 Hin HN Hres. subst c1. rewrite C09_writers_locked in *.
  rewrite receivers_subs_at in Hin.
  pose proof (GInv_run sched1 _ (GInv_start ops)) as HG.
  destruct (search_sees_present p s es _ (RWalk 0 p) HG HN Hin) as (_ & _ & _ & Hr).
  - exists []. split; reflexivity.
  - rewrite Hres in Hr. exact Hr.
Qed.
Print Assumptions C09_search_finds_acknowledged_subscription.

Theorem C09_search_misses_unsubscribed : forall ops sched1 es p s res,
  let c1 := run (start lf_writers_locked heap0 ops) sched1 in
  ~ In s (receivers c1 p) ->                 (* s is not registered at p ... *)
  NoOp false c1 p s ->                       (* ... and no SUBSCRIBE(p, s) is unfinished or still to start *)
  snd (run2 (c1, RWalk 0 p) es) = RDone res -> ~ In s res.
Proof.
  intros ops sched1 es p s res c1 Hout HN Hres. subst c1. rewrite C09_writers_locked in *.
  rewrite receivers_subs_at in Hout.
  pose proof (GInv_run sched1 _ (GInv_start ops)) as HG.
  destruct (search_misses_absent p s es _ (RWalk 0 p) HG HN Hout) as (_ & _ & _ & Hr).
  - split; [apply (GInv_T _ HG)|]. left. exists []. split; reflexivity.
  - rewrite Hres in Hr. exact Hr.
Qed.
Print Assumptions C09_search_misses_unsubscribed.

(* the invariant behind (e) holds in every reachable configuration: the index is a tree, every node that is
   not reachable from the root is empty, and the counters bound the sets from above *)
Theorem C09_index_invariant : forall ops sched,
  let h := hp (run (start lf_writers_locked heap0 ops) sched) in
  T0 h /\ T1 h /\ DI h.
Proof. intros ops sched h. subst h. rewrite C09_writers_locked. apply GInv_T. apply GInv_run. apply GInv_start. Qed.
Print Assumptions C09_index_invariant.

Example C09_nonvacuous :
  let ops := [OpIns [112; 113] 1; OpRem [112; 113] 2; OpIns [112; 114] 3]%N in
  let h := apply_op heap0 (OpIns [112; 113] 2)%N in
  (* an arbitrary interleaving of the three threads *)
  let c := run (start true h ops) (concat (repeat [2; 0; 1; 1; 0; 2]%nat 40)) in
  all_done c = true /\ receivers c [112; 113]%N = [1]%N /\ receivers c [112; 114]%N = [3]%N.
Proof. vm_compute. repeat split. Qed.

(* non-vacuity of (e): subscriber 1 is in place at 112/113; while the reader walks, subscriber 2 is inserted and
   removed at 112/114 (creating and pruning the sibling branch) and subscriber 3 comes and goes at 112/113 itself;
   the hypotheses of both theorems hold for (112/113, 1) resp. (112/113, 9) and the reader finishes *)
Example C09_search_nonvacuous :
  let ops := [OpIns [112; 113] 1; OpIns [112; 114] 2; OpRem [112; 114] 2; OpIns [112; 113] 3; OpRem [112; 113] 3]%N in
  let c1 := run (start true heap0 ops) (repeat 0%nat 12) in
  let es := (repeat (W 1) 10 ++ [R] ++ repeat (W 3) 12 ++ [R; R] ++ repeat (W 2) 20 ++ repeat (W 4) 20)%list in
  receivers c1 [112; 113]%N = [1]%N /\
  map snd (thr c1) = [PDone; PStart; PStart; PStart; PStart] /\
  snd (run2 (c1, RWalk 0 [112; 113]%N) es) = RDone [1; 3]%N /\
  all_done (fst (run2 (c1, RWalk 0 [112; 113]%N) es)) = true.
Proof. vm_compute. repeat split. Qed.
