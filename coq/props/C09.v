(* C09 — concurrent subscribe / unsubscribe / retain / publish are linearizable and crash-free.
   What is proved, and how it is tied to topics/memlockfree:
   (a) the translator (tools/goextract) reads node.go on every run and reports, per method of the provider
       that changes the structure, whether it takes the structure mutex first (gen/Extracted.v,
       lf_writers_locked).  The theorems below are stated for the protocol machine started in THAT mode:
       if a writer loses its lock the obligation C09_writers_locked no longer holds, and refute/C09.v says
       what then goes wrong (schedules replayed on the implementation by the harness).
   (b) with the mutex, in the protocol machine model/LFProto.v (one atomic access per step, any scheduler):
       mutual exclusion holds in every reachable configuration and while the mutex is held a step of any
       other thread changes nothing - the heap is only ever changed by one operation at a time, i.e. every
       execution is a sequential composition of whole operations.
   (c) whole operations on pairwise distinct subscription keys commute on the abstract subscription map, so
       a round of such operations has ONE outcome whatever the order the mutex grants - this is what the
       correspondence check compares the real provider with, round by round, under real concurrency.
   (d) sequential correctness of whole operations and of the search walk is C01's / C07's subject.
   Partial: that a lock-free SEARCH running beside one writer returns an answer consistent with some
   linearization (it reads the maps and counters the writer publishes atomically) is not proved; the
   correspondence check bounds concurrent publishes from below (untouched subscriptions) and above. *)
From Coq Require Import List NArith ZArith Bool Arith Permutation.
Import ListNotations.
From VMQ Require Import gen.Extracted model.Trie model.Match model.LFProto proofs.LFProofs.

(* (a) *)
Theorem C09_writers_locked : lf_writers_locked = true.
Proof. vm_compute. reflexivity. Qed.
Print Assumptions C09_writers_locked.

(* (b) for every initial heap, every set of operations and EVERY schedule *)
Theorem C09_mutual_exclusion : forall h ops sched,
  let c := run (start lf_writers_locked h ops) sched in
  forall i j oi pi oj pj,
    nth_error (thr c) i = Some (oi, pi) -> nth_error (thr c) j = Some (oj, pj) ->
    active pi -> active pj -> i = j.
Proof.
  intros h ops sched c i j oi pi oj pj Hi Hj Hai Haj. subst c. rewrite C09_writers_locked in *.
  destruct (run_mutex sched (start true h ops) eq_refl (start_mutex h ops)) as [_ HI].
  pose proof (HI i oi pi Hi Hai) as H1. pose proof (HI j oj pj Hj Haj) as H2. congruence.
Qed.
Print Assumptions C09_mutual_exclusion.

Theorem C09_only_the_holder_moves : forall h ops sched i j,
  let c := run (start lf_writers_locked h ops) sched in
  lock c = Some j -> i <> j -> step c i = c.
Proof.
  intros h ops sched i j c Hl Hne. subst c. rewrite C09_writers_locked in *.
  destruct (run_mutex sched (start true h ops) eq_refl (start_mutex h ops)) as [HL HI].
  apply (only_holder_moves _ i j HL HI Hl Hne).
Qed.
Print Assumptions C09_only_the_holder_moves.

(* (c) *)
Theorem C09_distinct_keys_commute : forall ops ops' m,
  Permutation ops ops' -> Forall (fun o => is_subop o = true) ops -> NoDup (map okey ops) ->
  forall k, alookup k (fold_left abs_step ops m) = alookup k (fold_left abs_step ops' m).
Proof. intros ops ops' m HP Hf Hnd. apply (perm_commute ops ops' HP Hf Hnd m m). intros k. reflexivity. Qed.
Print Assumptions C09_distinct_keys_commute.

Example C09_nonvacuous :
  let ops := [OpIns [112; 113] 1; OpRem [112; 113] 2; OpIns [112; 114] 3]%N in
  let h := apply_op heap0 (OpIns [112; 113] 2)%N in
  (* an arbitrary interleaving of the three threads *)
  let c := run (start true h ops) (concat (repeat [2; 0; 1; 1; 0; 2]%nat 40)) in
  all_done c = true /\ receivers c [112; 113]%N = [1]%N /\ receivers c [112; 114]%N = [3]%N.
Proof. vm_compute. repeat split. Qed.
