(* C10 — one live connection per Client ID; clean takeover; CONNECT is always answered.
   The model keeps ONE attachment slot per identifier by construction; what is proved is what happens to
   it.  That the real manager, with its container lock / removable / removed flags and timers, behaves
   like this sequential machine under racing CONNECTs is the correspondence check's linearizability
   test (chk/C05chk.v: every order of the concurrent events is tried against the observed outputs). *)
From Coq Require Import List NArith ZArith Bool.
Import ListNotations.
From VMQ Require Import model.Sessions proofs.SessionsProofs.
Open Scope Z_scope.

(* every CONNECT gets exactly one CONNACK, in every state *)
Theorem C10_connect_answered_once : forall s c id v5 clean expiry w,
  stopped s = false ->
  length (filter (is_connack_of c) (snd (step s (EConnect c id v5 clean expiry w)))) = 1%nat.
Proof. intros s c id v5 clean expiry w H. cbn [step]. rewrite H. apply connect_answered_once. Qed.
Print Assumptions C10_connect_answered_once.

(* pre-emption on: the old connection is closed FIRST (then its will, if due), then the new one is
   acknowledged and served; the identifier's slot now holds the new connection; no other identifier
   is touched *)
Theorem C10_takeover : forall s c id v5 clean expiry w old,
  s_conn (get id (sess s)) = Some old -> preempt s = true ->
  exists wills present delivers,
    snd (connect s c id v5 clean expiry w) =
      OClosed old RTakenOver :: wills ++ OConnack c present 0%N :: map (ODeliver c) delivers /\
    forallb is_will wills = true /\
    s_conn (get id (sess (fst (connect s c id v5 clean expiry w)))) = Some c /\
    (forall id', id' <> id -> get id' (sess (fst (connect s c id v5 clean expiry w))) = get id' (sess s)).
Proof. exact connect_takeover. Qed.
Print Assumptions C10_takeover.

(* pre-emption off: the new connection is refused with a non-zero code, nothing else changes *)
Theorem C10_refusal : forall s c id v5 clean expiry w old,
  s_conn (get id (sess s)) = Some old -> preempt s = false ->
  connect s c id v5 clean expiry w = (s, [OConnack c false (refuse_code v5)]) /\ refuse_code v5 <> 0%N.
Proof. exact connect_refused. Qed.
Print Assumptions C10_refusal.

(* in every reachable state and for every event: a message is only handed to a connection that is
   attached to an identifier (before or after the step) — a connection that has been taken over,
   refused or closed never receives again *)
Theorem C10_delivery_only_to_attached : forall pre es e c t,
  let s := fst (run (init pre) es) in
  In (ODeliver c t) (snd (step s e)) -> attached s c \/ attached (fst (step s e)) c.
Proof.
  intros pre es e c t s. apply step_deliver_attached. apply run_state_inv. apply init_inv.
Qed.
Print Assumptions C10_delivery_only_to_attached.

Example C10_nonvacuous :
  concat (snd (run (init true) [EConnect 1%N 7%N false false None (Some (mkWill 9%N 5%N 0)); ESubscribe 7%N 6%N;
                                EConnect 2%N 7%N false false None None; EPublish 40%N 3%N])) =
    [OConnack 1%N false 0%N; OClosed 1%N RTakenOver; OWill 7%N 9%N; OConnack 2%N true 0%N; ODeliver 2%N 40%N] /\
  concat (snd (run (init false) [EConnect 1%N 7%N false false None None; EConnect 2%N 7%N false false None None])) =
    [OConnack 1%N false 0%N; OConnack 2%N false 2%N].
Proof. vm_compute. split; reflexivity. Qed.

(* "within bounded time": the take-over stops the old connection, and stopping it waits for its reader goroutine.  The
   close sequence gets the reader out of its read with a deadline of a microsecond; the reader re-arms its keep-alive
   deadline at the top of every loop.  model/ReaderKick.v: one access per step, the reader's loop against the close
   sequence against the client's packets, any interleaving, from any point of the loop - the reader is never left
   waiting for the client once the close sequence has done its two steps, and three steps later it is gone; the order of
   the accesses is re-read from reader.go / connection.go on every run (C10_reader_shape); the loop as it was is
   refuted (refute/C10.v). *)
From Coq Require String.
From VMQ Require Import gen.Extracted model.ReaderKick proofs.ReaderKickProofs.
Theorem C10_reader_never_waits_for_the_client_after_close : forall keepalive r d es,
  stuck (ReaderKick.run 0 keepalive (start r d) es) = false /\
  (cl (ReaderKick.run 0 keepalive (start r d) es) = CKicked ->
   rd (ReaderKick.run 0 keepalive (ReaderKick.run 0 keepalive (start r d) es) [Reader; Reader; Reader]) = RGone).
Proof. intros ka r d es. split; [apply reader_never_stuck | apply reader_gone_after_close]. Qed.
Print Assumptions C10_reader_never_waits_for_the_client_after_close.

Import String.StringSyntax Ascii.AsciiSyntax.
Open Scope string_scope.
Eval vm_compute in (rshape_diff reader_shape).
Close Scope string_scope.
Theorem C10_reader_shape : rshape_ok reader_shape = true.
Proof. vm_compute. reflexivity. Qed.
Print Assumptions C10_reader_shape.
