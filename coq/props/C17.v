(* C17 — WebSocket transport delivers the exact byte stream of the binary frames.
   Only statements, each closed by [exact], with Print Assumptions. *)
From Coq Require Import List Arith.
Import ListNotations.
From VMQ Require Import model.WS proofs.WSProofs.

(* Whatever the frame sizes and read-buffer sizes, what the protocol layer has
   read so far, followed by what is still buffered and what is still to arrive,
   is exactly the concatenation of the frame payloads: nothing lost, duplicated
   or reordered. *)
Theorem C17_stream_exact : forall (B : Type) (frames : list (list B)) (sizes : list nat) rs rem' frames',
  ws_run [] frames sizes = (rs, rem', frames') ->
  delivered rs ++ rem' ++ concat frames' = concat frames.
Proof. exact @ws_stream_exact. Qed.
Print Assumptions C17_stream_exact.

(* Once the reader saw end-of-stream, or made enough non-empty reads, it has
   read exactly the concatenation. *)
Theorem C17_stream_complete : forall (B : Type) (frames : list (list B)) (sizes : list nat) rs rem' frames',
  ws_run [] frames sizes = (rs, rem', frames') ->
  (In REof rs \/ (Forall (fun b => 0 < b) sizes /\
                  length (concat frames) + length frames <= length sizes)) ->
  delivered rs = concat frames.
Proof. exact @ws_stream_complete. Qed.
Print Assumptions C17_stream_complete.

(* A read returns as soon as at least one byte is available: with buffered
   bytes it does not wait for (consume) a further frame and returns >= 1 byte. *)
Theorem C17_no_wait : forall (B : Type) (rem : list B) frames b,
  rem <> [] ->
  exists out rem', ws_read rem frames b = Some (out, rem', frames) /\ (0 < b -> out <> []).
Proof. exact @ws_read_no_wait. Qed.
Print Assumptions C17_no_wait.

Theorem C17_progress : forall (B : Type) (rem : list B) frames b out rem' frames',
  0 < b -> ws_read rem frames b = Some (out, rem', frames') ->
  (rem <> [] \/ exists d fs, frames = d :: fs /\ d <> []) -> out <> [].
Proof. exact @ws_read_progress. Qed.
Print Assumptions C17_progress.

(* Non-vacuity: a concrete run with frames smaller, equal and larger than the buffer. *)
Example C17_nonvacuous :
  let '(rs, r, f) := ws_run [] [[1;2;3]; [4]; []; [5;6;7;8;9]] [2;2;2;2;2;2;2;2] in
  delivered rs = [1;2;3;4;5;6;7;8;9] /\ r = [] /\ f = [].
Proof. vm_compute. repeat split. Qed.
