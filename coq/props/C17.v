(* C17 — WebSocket transport delivers the exact byte stream of the binary frames.
   Only statements, each closed by [exact], with Print Assumptions. *)
From Coq Require Import List Arith.
Import ListNotations.
From Coq Require Import NArith.
From VMQ Require Import model.WS proofs.WSProofs model.WsOut proofs.WsOutProofs gen.Extracted.

(* Whatever the frame sizes and read-buffer sizes, what the protocol layer has
   read so far, followed by what is still buffered and what is still to arrive,
   is exactly the concatenation of the frame payloads: nothing lost, duplicated
   or reordered. *)
Theorem C17_stream_exact : forall (B : Type) (frames : list (list B)) (sizes : list nat) rs rem' frames',
  ws_run [] frames sizes = (rs, rem', frames') ->
  delivered rs ++ rem' ++ concat frames' = concat frames.
Proof. exact @ws_stream_exact. Qed.
Print Assumptions C17_stream_exact.

(* Once the reader saw end-of-stream, or made enough non-empty reads, it has
   read exactly the concatenation. *)
Theorem C17_stream_complete : forall (B : Type) (frames : list (list B)) (sizes : list nat) rs rem' frames',
  ws_run [] frames sizes = (rs, rem', frames') ->
  (In REof rs \/ (Forall (fun b => 0 < b) sizes /\
                  length (concat frames) + length frames <= length sizes)) ->
  delivered rs = concat frames.
Proof. exact @ws_stream_complete. Qed.
Print Assumptions C17_stream_complete.

(* A read returns as soon as at least one byte is available: with buffered
   bytes it does not wait for (consume) a further frame and returns >= 1 byte. *)
Theorem C17_no_wait : forall (B : Type) (rem : list B) frames b,
  rem <> [] ->
  exists out rem', ws_read rem frames b = Some (out, rem', frames) /\ (0 < b -> out <> []).
Proof. exact @ws_read_no_wait. Qed.
Print Assumptions C17_no_wait.

Theorem C17_progress : forall (B : Type) (rem : list B) frames b out rem' frames',
  0 < b -> ws_read rem frames b = Some (out, rem', frames') ->
  (rem <> [] \/ exists d fs, frames = d :: fs /\ d <> []) -> out <> [].
Proof. exact @ws_read_progress. Qed.
Print Assumptions C17_progress.

(* ... and never returns "no bytes, no error" to a reader with room: an empty binary frame is passed over (the protocol
   layer's buffered reader gives a connection up after a hundred such reads in a row) *)
Theorem C17_read_never_empty : forall (B : Type) (rem : list B) frames b out rem' frames',
  0 < b -> ws_read rem frames b = Some (out, rem', frames') -> out <> [].
Proof. exact @ws_read_never_empty. Qed.
Print Assumptions C17_read_never_empty.

(* ---- the writing side: the connection's writer and its reading side (which answers PINGs) put frames on ONE socket.
   With the write lock every unit that reaches the socket is a whole frame: whatever the schedule of the two, the client
   reads an interleaving of their frames, every frame intact.  (Frames with payloads below 256 bytes: the model's header
   has one length byte; the lock does not depend on the length.) ---- *)
Theorem C17_outbound_frames_intact_under_the_write_lock : forall data ctl l,
  Forall small data -> Forall small ctl ->
  Interleave (map whole data) (map whole ctl) l ->
  exists fs, Interleave data ctl fs /\ parse (length fs) (concat l) = Some fs.
Proof. exact locked_writers_frames_intact. Qed.
Print Assumptions C17_outbound_frames_intact_under_the_write_lock.

Example C17_outbound_nonvacuous :
  exists l, Interleave (map whole [mkF 130 [1; 2]; mkF 130 [3]]%N) (map whole [mkF 138 []]%N) l /\
            parse 3 (concat l) = Some [mkF 130 [1; 2]; mkF 138 []; mkF 130 [3]]%N.
Proof. exact locked_nonvacuous. Qed.

(* the two Write functions of transport/websocket.go take that lock around what they write: re-read on every run *)
Import String.StringSyntax Ascii.AsciiSyntax.
Open Scope string_scope.
Eval vm_compute in (wshape_diff ws_shape).
Close Scope string_scope.
Theorem C17_ws_write_shape : wshape_ok ws_shape = true.
Proof. vm_compute. reflexivity. Qed.
Print Assumptions C17_ws_write_shape.

(* Non-vacuity: a concrete run with frames smaller, equal and larger than the buffer. *)
Example C17_nonvacuous :
  let '(rs, r, f) := ws_run [] [[1;2;3]; [4]; []; [5;6;7;8;9]] [2;2;2;2;2;2;2;2] in
  delivered rs = [1;2;3;4;5;6;7;8;9] /\ r = [] /\ f = [].
Proof. vm_compute. repeat split. Qed.
