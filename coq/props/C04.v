(* C04 — inbound QoS handshake is answered correctly; QoS 2 is forwarded exactly once. *)
From Coq Require Import List NArith ZArith Bool.
Import ListNotations.
From VMQ Require Import model.Inbound proofs.InboundProofs.
Open Scope N_scope.

(* reachable states: quota + unreleased = Receive Maximum, ids unique — for every packet sequence *)
Theorem C04_invariant : forall rm es s' o, (0 <= rm)%Z ->
  run (init rm) es = (s', o) -> Inv rm s'.
Proof. intros rm es s' o H. apply run_inv. apply init_inv. exact H. Qed.
Print Assumptions C04_invariant.

Theorem C04_qos1_answered_and_forwarded : forall s id tag, id <> 0 -> (rxq s <> 0)%Z ->
  on_publish s 1 id tag true = (s, [IPuback id RSuccess; IForward tag]).
Proof. exact qos1_response. Qed.
Print Assumptions C04_qos1_answered_and_forwarded.

Theorem C04_qos1_denied_not_forwarded : forall s id tag, id <> 0 ->
  on_publish s 1 id tag false = (s, [IPuback id RNotAuthorized]).
Proof. exact qos1_denied. Qed.
Print Assumptions C04_qos1_denied_not_forwarded.

Theorem C04_qos2_one_pubrec_no_forward : forall s id tag a s' o, on_publish s 2 id tag a = (s', o) ->
  (exists r, o = [IPubrec id r]) \/ (exists t, o = [ITerminate t]).
Proof. exact qos2_response. Qed.
Print Assumptions C04_qos2_one_pubrec_no_forward.

Theorem C04_pubrel_answered : forall s id s' o, on_pubrel s id = (s', o) ->
  (exists tag, In (id, tag) (pin s) /\ o = [IForward tag; IPubcomp id RSuccess]) \/
  (~ In id (map fst (pin s)) /\ o = [IPubcomp id RIdNotFound] /\ s' = s).
Proof. exact pubrel_response. Qed.
Print Assumptions C04_pubrel_answered.

(* exactly once: over every sequence, successful stores = releases (each forwarding once) + still stored *)
Theorem C04_exactly_once : forall rm es s' o, (0 <= rm)%Z -> run (init rm) es = (s', o) ->
  (length (pin s') + releases o = stores o)%nat.
Proof. intros rm es s' o H R. pose proof (run_account rm es _ _ _ (init_inv rm H) R) as A. exact A. Qed.
Print Assumptions C04_exactly_once.

Theorem C04_id0_terminates : forall s q tag a, q = 1 \/ q = 2 ->
  snd (on_publish s q 0 tag a) = [ITerminate TProtocolError].
Proof. exact id0_terminates. Qed.
Print Assumptions C04_id0_terminates.

(* quota: a new QoS>0 publish is terminated for quota IF AND ONLY IF Receive Maximum QoS 2 messages are unreleased *)
Theorem C04_quota_iff : forall rm s q id tag,
  Inv rm s -> (q = 1 \/ q = 2) -> id <> 0 -> pin_has id s = false ->
  (snd (on_publish s q id tag true) = [ITerminate TRecvMaxExceeded] <-> Z.of_nat (length (pin s)) = rm).
Proof. exact quota_termination. Qed.
Print Assumptions C04_quota_iff.

Theorem C04_duplicate_harmless : forall s id tag, id <> 0 -> pin_has id s = true ->
  on_publish s 2 id tag true = (s, [IPubrec id RIdInUse]).
Proof. exact dup_qos2_harmless. Qed.
Print Assumptions C04_duplicate_harmless.

Example C04_nonvacuous :
  snd (run (init 2) [EPublish 2 1 10 true; EPublish 2 1 10 true; EPublish 2 2 11 true; EPubrel 1; EPubrel 1; EPublish 1 5 12 true]) =
  [IPubrec 1 RSuccess; IPubrec 1 RIdInUse; IPubrec 2 RSuccess; IForward 10; IPubcomp 1 RSuccess; IPubcomp 1 RIdNotFound; IPuback 5 RSuccess; IForward 12].
Proof. vm_compute. reflexivity. Qed.
