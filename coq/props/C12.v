(* C12 — framing is independent of segmentation; bad input only hurts its own connection. *)
From Coq Require Import List NArith Arith Bool.
Import ListNotations.
From VMQ Require Import model.Framing proofs.FramingProofs.
Local Open Scope nat_scope.

(* For EVERY byte string, EVERY pair of read-size oracles and EVERY split of the bytes between
   "already buffered" and "still in the connection", the reader extracts the same sequence of
   packets / the same rejection: the interpretation depends on the bytes only.  The CONNECT packet
   and whatever follows it in the same network read are covered: the model has ONE buffered reader
   for the whole connection, as the code has. *)
Theorem C12_segmentation_independent : forall fuel maxsize o1 o2 s1 s2,
  logical s1 = logical s2 -> read_all fuel maxsize o1 s1 = read_all fuel maxsize o2 s2.
Proof. exact segmentation_independent. Qed.
Print Assumptions C12_segmentation_independent.

(* no memory is allocated for a packet the reader is going to reject as too large, and every packet
   buffer it allocates is at most the configured Maximum Packet Size *)
Theorem C12_alloc_bounded : forall fuel maxsize o s n,
  In (Alloc n) (snd (read_all fuel maxsize o s)) -> n <= maxsize.
Proof. exact alloc_bounded. Qed.
Print Assumptions C12_alloc_bounded.

(* a remaining-length field of more than four bytes is a protocol error, whatever follows *)
Theorem C12_long_header_rejected : forall maxsize t b1 b2 b3 b4 rest,
  (128 <= N.to_nat b1 /\ 128 <= N.to_nat b2 /\ 128 <= N.to_nat b3 /\ 128 <= N.to_nat b4) ->
  fst (fst (packet_pure maxsize (t :: b1 :: b2 :: b3 :: b4 :: rest))) = ProtoError.
Proof.
  intros maxsize t b1 b2 b3 b4 rest [H1 [H2 [H3 H4]]].
  apply Nat.leb_le in H1, H2, H3, H4.
  unfold packet_pure.
  assert (scan_pure 5 2 (t :: b1 :: b2 :: b3 :: b4 :: rest) = (None, true)) as ->.
  { unfold scan_pure, peek_pure. cbn [length].
    change (5 <? 2) with false. change (2 <=? S (S (S (S (S (length rest)))))) with true.
    cbn [firstn last]. rewrite H1.
    change (5 <? 3) with false. change (3 <=? S (S (S (S (S (length rest)))))) with true.
    cbn [firstn last]. rewrite H2.
    change (5 <? 4) with false. change (4 <=? S (S (S (S (S (length rest)))))) with true.
    cbn [firstn last]. rewrite H3.
    change (5 <? 5) with false. change (5 <=? S (S (S (S (S (length rest)))))) with true.
    cbn [firstn last]. rewrite H4.
    reflexivity. }
  reflexivity.
Qed.
Print Assumptions C12_long_header_rejected.

Example C12_nonvacuous :
  let bs : list N := [16;2;0;4; 192;0; 48;3;0;1;97; 224;0]%N in
  fst (read_all 10 1000 [1;1;1] ([], bs)) = fst (read_all 10 1000 [100] ([], bs)) /\
  fst (read_all 10 1000 [4;2] ([], bs)) = fst (read_all 10 1000 [] (bs, [])) /\
  length (fst (read_all 10 1000 [7] ([], bs))) = 4.
Proof. vm_compute. repeat split. Qed.
