(* With two routing workers (the value in the tree before the repair) order is NOT preserved. *)
From Coq Require Import List Arith Bool.
Import ListNotations.
From VMQ Require Import model.Route.

Theorem C13_two_workers_refuted :
  exists (sched : list label),
    match run (fun _ : nat => [0]) (init 2 [1; 2]) sched with
    | Some s => queue_of Nat.eqb 0 (log s) = [2; 1]
    | None => False
    end.
Proof. exists [Take 0; Take 1; Deliver 1; Deliver 0]. vm_compute. reflexivity. Qed.

From VMQ Require Import model.Handoff.

(* the connection end as it was (the subscriber persists directly from SignalOffline on): message 2, routed while the
   queue holding message 1 is still on its way to persistence, is transmitted first by the next connection *)
Theorem C13_handoff_close_as_it_was_refuted :
  exists es : list (@ev nat),
    let s := @run nat 1 init es in sent s <> routed es /\ length (sent s) = length (routed es).
Proof.
  exists [OpenBegin; OpenEnd; Route 1; CloseBegin; Route 2; CloseEnd; OpenBegin; OpenEnd; Send; Send].
  vm_compute. split; [discriminate|reflexivity].
Qed.
Print Assumptions C13_handoff_close_as_it_was_refuted.

(* the connection set-up as it was (backlog loaded and reader started before the subscriber is switched): message 2,
   routed between the load and the switch, stays in persistence although the connection is established and everything
   else - the later message 3 included - has been transmitted *)
Theorem C13_handoff_open_as_it_was_refuted :
  exists es : list (@ev nat),
    let s := @run nat 2 init es in
    ph s = Connected /\ txq s = [] /\ store s = [2] /\ sent s = [1; 3] /\ step 2 s Send = s.
Proof.
  exists [Route 1; OpenBegin; Route 2; OpenEnd; Route 3; Send; Send].
  vm_compute. repeat split.
Qed.
Print Assumptions C13_handoff_open_as_it_was_refuted.
