(* With two routing workers (the value in the tree before the repair) order is NOT preserved. *)
From Coq Require Import List Arith Bool.
Import ListNotations.
From VMQ Require Import model.Route.

Theorem C13_two_workers_refuted :
  exists (sched : list label),
    match run (fun _ : nat => [0]) (init 2 [1; 2]) sched with
    | Some s => queue_of Nat.eqb 0 (log s) = [2; 1]
    | None => False
    end.
Proof. exists [Take 0; Take 1; Deliver 1; Deliver 0]. vm_compute. reflexivity. Qed.
