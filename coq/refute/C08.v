(* subscriber.Publish before the repair: a subscription granted QoS 0 was sent QoS 1/2 messages at
   the published QoS, and RETAIN was forwarded regardless of Retain-As-Published. *)
From Coq Require Import List NArith Bool.
Import ListNotations.
From VMQ Require Import model.Trie model.Deliver.
Open Scope N_scope.
Theorem C08_old_publish_refuted :
  exists (sp : sparams) pq pr,
    to_delivery_old pq pr (mkE (sp_rap sp) (sp_qos sp) []) <> to_delivery pq pr (mkE (sp_rap sp) (sp_qos sp) []).
Proof. exists (mkSP 0 false false 0 0), 2, true. vm_compute. discriminate. Qed.
