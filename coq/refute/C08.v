(* subscriber.Publish before the repair: a subscription granted QoS 0 was sent QoS 1/2 messages at
   the published QoS, and RETAIN was forwarded regardless of Retain-As-Published. *)
From Coq Require Import List NArith Bool.
Import ListNotations.
From VMQ Require Import model.Trie model.Deliver.
Open Scope N_scope.
Theorem C08_old_publish_refuted :
  exists (sp : sparams) pq pr,
    to_delivery_old pq pr (mkE (sp_rap sp) (sp_qos sp) []) <> to_delivery pq pr (mkE (sp_rap sp) (sp_qos sp) []).
Proof. exists (mkSP 0 false false 0 0), 2, true. vm_compute. discriminate. Qed.

(* overlappingSubscribers before the repair: No Local was looked at only while the session had no copy yet - a No-Local
   subscription met after another subscription of the session was merged into the copy of the session's OWN publish
   (here it raises the copy's QoS from 0 to 2 and adds its identifier) *)
From VMQ Require Import proofs.DeliverProofs.
Theorem C08_overlap_no_local_as_it_was_refuted :
  exists a b, sp_nl b = true /\
    collect_merge_old true [a; b] None = Some (mkE (sp_rap a) (N.max (sp_qos a) (sp_qos b)) (ids_of a ++ ids_of b))
    /\ (sp_qos a <? sp_qos b) = true.
Proof. exact merge_old_refuted. Qed.
Print Assumptions C08_overlap_no_local_as_it_was_refuted.
