(* refute/C18.v — why OnceWait.Do needs its mutex: the same machine without Lock/Unlock (compare-and-swap
   and WaitGroup only) lets a late caller return before the action has even started. *)
From Coq Require Import List Arith Bool.
Import ListNotations.
From VMQ Require Import model.Prims.

Theorem C18_oncewait_without_lock_refuted :
  exists sched, let s := fold_left ostep_nolock sched (oinit 2) in
    nth_error (opcs s) 1 = Some ORetF /\ ofdone s = false /\ ofcount s = 0.
Proof. exists [0; 0; 1; 1; 1; 1]. vm_compute. repeat split. Qed.
