(* refute/C09.v — the node protocol WITHOUT the structure mutex (topics/memlockfree/node.go before the
   repair) is not linearizable: three schedules, found by hand and checked here by evaluation, after
   which every operation has completed and been acknowledged while the index is in a state no
   sequential order of the same operations produces.  Each schedule is forced on the real provider by
   the correspondence harness (harness/c09.go, kind "gated": the subscriber's Hash() and the
   OnCleanUnsubscribe callback are the places where a goroutine can be held). *)
From Coq Require Import List NArith ZArith Bool Arith.
Import ListNotations.
From VMQ Require Import model.LFProto.
Open Scope N_scope.

Definition p := 112. Definition q := 113. Definition r := 114.

(* 1. detached leaf: s2 is the only subscriber of p/q; subscribe(s1, p/q) has found the leaf; unsubscribe(s2,
      p/q) runs to its end and prunes q and p; s1 is stored in the detached leaf. *)
Theorem C09_unlocked_detached_leaf_refuted :
  exists sched,
    let c := run (start false (apply_op heap0 (OpIns [p; q] 2)) [OpIns [p; q] 1; OpRem [p; q] 2]) sched in
    all_done c = true /\ receivers c [p; q] = [].     (* every sequential order gives [1] *)
Proof. exists (repeat 0%nat 9 ++ repeat 1%nat 30 ++ repeat 0%nat 5). vm_compute. split; reflexivity. Qed.

(* 2. double clean-up: s1, s2 on p/q, s3 on p/r; unsubscribe(s1) has decremented subsCount; unsubscribe(s2)
      runs to its end and unlinks q; s1 unlinks q again: p's child counter reaches 0 and p is pruned with r. *)
Theorem C09_unlocked_double_cleanup_refuted :
  exists sched,
    let h := apply_op (apply_op (apply_op heap0 (OpIns [p; q] 1)) (OpIns [p; q] 2)) (OpIns [p; r] 3) in
    let c := run (start false h [OpRem [p; q] 1; OpRem [p; q] 2]) sched in
    all_done c = true /\ receivers c [p; r] = [].     (* every sequential order gives [3] *)
Proof. exists (repeat 0%nat 6 ++ repeat 1%nat 30 ++ repeat 0%nat 30). vm_compute. split; reflexivity. Qed.

(* 3. insert waits for a marked node, then starts over from a parent that the same clean-up has pruned *)
Theorem C09_unlocked_retry_from_pruned_parent_refuted :
  exists sched,
    let c := run (start false (apply_op heap0 (OpIns [p; q] 1)) [OpRem [p; q] 1; OpIns [p; q] 2]) sched in
    all_done c = true /\ receivers c [p; q] = [].     (* every sequential order gives [2] *)
Proof. exists (repeat 0%nat 9 ++ repeat 1%nat 12 ++ repeat 0%nat 30 ++ repeat 1%nat 30). vm_compute. split; reflexivity. Qed.

(* the same schedules with the mutex: the held operation simply makes the other one wait *)
Example C09_locked_same_schedules :
  receivers (run (start true (apply_op heap0 (OpIns [p; q] 2)) [OpIns [p; q] 1; OpRem [p; q] 2])
                 (repeat 0%nat 9 ++ repeat 1%nat 30 ++ repeat 0%nat 5 ++ repeat 1%nat 30)) [p; q] = [1] /\
  receivers (run (start true (apply_op (apply_op (apply_op heap0 (OpIns [p; q] 1)) (OpIns [p; q] 2)) (OpIns [p; r] 3))
                        [OpRem [p; q] 1; OpRem [p; q] 2])
                 (repeat 0%nat 6 ++ repeat 1%nat 30 ++ repeat 0%nat 30 ++ repeat 1%nat 30)) [p; r] = [3] /\
  receivers (run (start true (apply_op heap0 (OpIns [p; q] 1)) [OpRem [p; q] 1; OpIns [p; q] 2])
                 (repeat 0%nat 9 ++ repeat 1%nat 12 ++ repeat 0%nat 30 ++ repeat 1%nat 30)) [p; q] = [2].
Proof. vm_compute. repeat split. Qed.
