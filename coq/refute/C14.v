(* setTopicAlias before the repair rebinds a random alias (possibly 0) when the budget is
   exhausted while the old topic keeps its entry: a later alias-only packet resolves wrongly. *)
From Coq Require Import List NArith Bool.
Import ListNotations.
From VMQ Require Import model.Alias.
Open Scope N_scope.
Theorem C14_old_rebinding_refuted :
  exists (ts : list (topic * N)),    (* topics with the rand.Intn result used for each *)
    let '(_, ps) := fold_left (fun acc tr => let '(s, ps) := acc in
                                 let '(s', p) := set_alias_old s (fst tr) (snd tr) in (s', ps ++ [p]))
                              ts (mkAl [] 0 2, []) in
    fst (rx_all [] ps) <> map (fun tr => Some (fst tr)) ts.
Proof. exists [(7, 0); (8, 0); (9, 1); (7, 0)]. vm_compute. discriminate. Qed.
