(* Outside the guard: a client that reconnects announcing a Receive Maximum SMALLER than the number
   of packets it has not acknowledged gets all of them retransmitted at once (reAcquire fails for
   the surplus, the packets are sent regardless).  Known finding C03-reconnect-lower-rm. *)
From Coq Require Import List NArith ZArith Bool.
Import ListNotations.
From VMQ Require Import model.Flow model.Writer model.AckOrder proofs.AckOrderProofs.
Open Scope N_scope.

Theorem C03_reconnect_lower_rm_refuted :
  exists es : list ev,
    let '(oc, w, outs) := run (init 2 false) es in
    oc = Fine /\
    (* after the reconnect with Receive Maximum 1, two QoS 1 PUBLISH packets with distinct ids are
       on the wire and none has been acknowledged *)
    map (fun p => (pid p, pdup p)) (concat (skipn 6 outs)) = [(1, true); (2, true)].
Proof.
  exists [ESend 0 (mkPkt (KPub 1) 0 1 None false); EPop 0; ESend 0 (mkPkt (KPub 1) 0 2 None false); EPop 0;
          EClose 0; EOpen 1; EPop 0; EPop 0; EPop 0].
  vm_compute. split; reflexivity.
Qed.

(* The order ackQueue.release had before 54a79b6 (the release callback first, the entry of the unacknowledged set
   afterwards; model/AckOrder.v variant 1): one interleaving with the writer's pop leaves a transmitted message
   unregistered while its identifier stays in use and its slot stays taken - Receive Maximum 1, nothing
   registered, quota 0. *)
Theorem C03_ack_order_as_it_was_refuted :
  let s := arun 1 (astart 1 [(1, 10)] [20]) [AckBegin 1; AckStep; Pop; AckStep] in
  apcs s = AIdle /\ aq s = [] /\ reg s = [] /\ inuse (afl s) = [1] /\ quota (afl s) = 0%Z.
Proof. exact ack_order_as_it_was_refuted. Qed.
