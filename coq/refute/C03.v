(* Outside the guard: a client that reconnects announcing a Receive Maximum SMALLER than the number
   of packets it has not acknowledged gets all of them retransmitted at once (reAcquire fails for
   the surplus, the packets are sent regardless).  Known finding C03-reconnect-lower-rm. *)
From Coq Require Import List NArith ZArith Bool.
Import ListNotations.
From VMQ Require Import model.Flow model.Writer.
Open Scope N_scope.

Theorem C03_reconnect_lower_rm_refuted :
  exists es : list ev,
    let '(oc, w, outs) := run (init 2 false) es in
    oc = Fine /\
    (* after the reconnect with Receive Maximum 1, two QoS 1 PUBLISH packets with distinct ids are
       on the wire and none has been acknowledged *)
    map (fun p => (pid p, pdup p)) (concat (skipn 6 outs)) = [(2, true); (1, true)].
Proof.
  exists [ESend 0 (mkPkt (KPub 1) 0 1 None false); EPop 0; ESend 0 (mkPkt (KPub 1) 0 2 None false); EPop 0;
          EClose 0; EOpen 1; EPop 0; EPop 0; EPop 0].
  vm_compute. split; reflexivity.
Qed.
