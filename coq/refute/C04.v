(* onPublish before the repair took receive quota before the duplicate test: witness. *)
From Coq Require Import List NArith ZArith Bool.
Import ListNotations.
From VMQ Require Import model.Inbound.
Open Scope N_scope.
(* Receive Maximum 2: PUBLISH 1, PUBLISH 1 (dup), PUBLISH 2 is terminated with ONE message unreleased. *)
Theorem C04_old_quota_leak_refuted :
  exists es : list (N * N),
    let s := fold_left (fun s e => fst (on_publish_old s 2 (fst e) (snd e) true)) es (init 2) in
    length (pin s) = 1%nat /\ snd (on_publish_old s 2 2 11 true) = [ITerminate TRecvMaxExceeded].
Proof. exists [(1, 10); (1, 10)]. vm_compute. split; reflexivity. Qed.
