(* The code before the repair created a second buffered reader for the session phase: what the first
   one had buffered beyond CONNECT was lost, so the result depended on the segmentation. *)
From Coq Require Import List NArith Arith Bool.
Import ListNotations.
From VMQ Require Import model.Framing.
Local Open Scope nat_scope.
Theorem C12_two_readers_refuted :
  exists (bs : list N) (o1 o2 : list nat),
    read_all_two_readers 10 1000 o1 ([], bs) <> read_all_two_readers 10 1000 o2 ([], bs).
Proof. exists [16;2;0;4; 192;0]%N, [4], [6]. vm_compute. discriminate. Qed.
