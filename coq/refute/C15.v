(* newSimpleAuth before the repair: a user with a read rule and no write rule got the default WRITE
   rule as read rule and a nil write rule — the first publish of that user crashed the broker. *)
From Coq Require Import List NArith Bool.
Import ListNotations.
From VMQ Require Import model.Auth.
Open Scope N_scope.
Theorem C15_old_nil_write_refuted :
  exists e topic,
    let m := load_enh_old (PPrefix []) (PPrefix [119;47]) [] e in
    acl m (eu_name e) topic true = Panic /\ acl m (eu_name e) [114;47;120] false = Deny.
Proof. exists (mkEnh [101] [2] (mkACL (Some [114;47]) None)), [119;47;120]. vm_compute. split; reflexivity. Qed.

(* binding the alias before the ACL is consulted lets a denied topic through: publish (topic 9, alias 1)
   is denied, the alias-only publish that follows is routed to topic 9 *)
Theorem C15_alias_bound_before_acl_refuted :
  exists ps, let allowed := fun t => negb (N.eqb t 9) in
    let '(tbl1, v1) := alias_pub_early allowed [] (fst (hd (None, 0%N) ps)) (snd (hd (None, 0%N) ps)) in
    let '(_, v2) := alias_pub_early allowed tbl1 (fst (nth 1 ps (None, 0%N))) (snd (nth 1 ps (None, 0%N))) in
    v1 = ADenied /\ v2 = ARouted 9%N.
Proof. exists [(Some 9%N, 1%N); (None, 1%N)]. vm_compute. split; reflexivity. Qed.

(* binding the alias only when the publish was authorised (the shape the code had) keeps the ACL intact but breaks
   the alias: (topic 1, alias 1) is routed, (topic 9, alias 1) is refused, and the alias-only publish that follows -
   which names topic 9 - is routed to topic 1 *)
Theorem C15_alias_bound_only_if_authorised_refuted :
  exists ps, let allowed := fun t => negb (N.eqb t 9) in
    let '(tbl1, v1) := alias_pub_guarded allowed [] (fst (hd (None, 0%N) ps)) (snd (hd (None, 0%N) ps)) in
    let '(tbl2, v2) := alias_pub_guarded allowed tbl1 (fst (nth 1 ps (None, 0%N))) (snd (nth 1 ps (None, 0%N))) in
    let '(_, v3) := alias_pub_guarded allowed tbl2 (fst (nth 2 ps (None, 0%N))) (snd (nth 2 ps (None, 0%N))) in
    v1 = ARouted 1%N /\ v2 = ADenied /\ v3 = ARouted 1%N.
Proof. exists [(Some 1%N, 1%N); (Some 9%N, 1%N); (None, 1%N)]. vm_compute. repeat split. Qed.
