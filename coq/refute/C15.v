(* newSimpleAuth before the repair: a user with a read rule and no write rule got the default WRITE
   rule as read rule and a nil write rule — the first publish of that user crashed the broker. *)
From Coq Require Import List NArith Bool.
Import ListNotations.
From VMQ Require Import model.Auth.
Open Scope N_scope.
Theorem C15_old_nil_write_refuted :
  exists e topic,
    let m := load_enh_old (PPrefix []) (PPrefix [119;47]) [] e in
    acl m (eu_name e) topic true = Panic /\ acl m (eu_name e) [114;47;120] false = Deny.
Proof. exists (mkEnh [101] [2] (mkACL (Some [114;47]) None)), [119;47;120]. vm_compute. split; reflexivity. Qed.
