(* The reader loop as it was (no look at quit after arming the keep-alive deadline): a connection that is being closed
   while its reader processes a packet is waited for until the client sends something or one and a half keep-alive
   periods have passed - a take-over of a client with keep-alive 8 s was answered after 12 s. *)
From Coq Require Import List Bool.
Import ListNotations.
From VMQ Require Import model.ReaderKick proofs.ReaderKickProofs.
Theorem C10_reader_as_it_was_refuted :
  stuck (run 1 true (start RProcess DKeepAlive) [Closer; Closer; Reader; Reader; Reader]) = true.
Proof. exact reader_as_it_was_refuted. Qed.
