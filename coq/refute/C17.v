(* The shape of wsConn.Read before the repair violates C17: witness. *)
From Coq Require Import List Arith.
Import ListNotations.
From VMQ Require Import model.WS.

(* One frame of 4 bytes, reader buffer 2: the second read consumes the remainder
   exactly, does not clear it, and the third read returns the same bytes again. *)
Theorem C17_old_duplicates_refuted :
  exists (frames : list (list nat)) b,
    match ws_read_old [] frames b with
    | Some (o1, r1, f1) =>
      match ws_read_old r1 (f1 ++ [[9]]) b with
      | Some (o2, r2, f2) =>
        match ws_read_old r2 f2 b with
        | Some (o3, _, _) => o1 ++ o2 ++ o3 <> firstn (length (o1 ++ o2 ++ o3)) (concat (frames ++ [[9]]))
        | None => False
        end
      | None => False
      end
    | None => False
    end.
Proof. exists [[1;2;3]], 2. vm_compute. discriminate. Qed.
