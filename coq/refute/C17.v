(* The shape of wsConn.Read before the repair violates C17: witness. *)
From Coq Require Import List Arith.
Import ListNotations.
From VMQ Require Import model.WS.

(* One frame of 4 bytes, reader buffer 2: the second read consumes the remainder
   exactly, does not clear it, and the third read returns the same bytes again. *)
Theorem C17_old_duplicates_refuted :
  exists (frames : list (list nat)) b,
    match ws_read_old [] frames b with
    | Some (o1, r1, f1) =>
      match ws_read_old r1 (f1 ++ [[9]]) b with
      | Some (o2, r2, f2) =>
        match ws_read_old r2 f2 b with
        | Some (o3, _, _) => o1 ++ o2 ++ o3 <> firstn (length (o1 ++ o2 ++ o3)) (concat (frames ++ [[9]]))
        | None => False
        end
      | None => False
      end
    | None => False
    end.
Proof. exists [[1;2;3]], 2. vm_compute. discriminate. Qed.

(* wsConn.Write before the repair: a data frame went out in two writes with no lock, the PONG of the reading side
   between them - what the client reads is neither order of the two frames *)
From Coq Require Import NArith.
From VMQ Require Import model.WsOut proofs.WsOutProofs.
Theorem C17_split_writes_refuted :
  exists (d p : frame) l, small d /\ small p /\
    Interleave (split d) [whole p] l /\
    parse 2 (concat l) <> Some [d; p] /\ parse 2 (concat l) <> Some [p; d].
Proof. exact split_writes_refuted. Qed.
Print Assumptions C17_split_writes_refuted.
