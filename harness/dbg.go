package main

import (
	"fmt"
	"strings"
	"time"

	"github.com/VolantMQ/vlapi/mqttp"
)

func init() {
	subcmds["dbg"] = func(args []string) int {
		au := &progAuth{acl: func(_, _, topic string, write bool) bool { return !strings.HasPrefix(topic, "no/") }}
		b, _ := NewBroker(BrokerOpts{Auth: []*progAuth{au}})
		c := b.Dial()
		_, err := c.Connect(ConnectOpts{ID: "a", Ver: mqttp.ProtocolV50, Clean: true})
		fmt.Println(err)
		_ = c.Send(mkSubscribe(mqttp.ProtocolV50, 9, []string{"no/x", "ok/x"}, []byte{1, 1}))
		time.Sleep(100 * time.Millisecond)
		tmp := make([]byte, 100)
		n, e := c.conn.Read(tmp)
		fmt.Println(tmp[:n], e)
		p, _, err := mqttp.Decode(mqttp.ProtocolV50, tmp[:n])
		fmt.Println(p, err)
		return 0
	}
}
