package main

import (
	"fmt"
	"time"

	"github.com/VolantMQ/vlapi/mqttp"
)

func init() {
	subcmds["dbg"] = func(args []string) int {
		b, _ := NewBroker(BrokerOpts{})
		c := b.Dial()
		_, err := c.Connect(ConnectOpts{ID: "a", Ver: mqttp.ProtocolV50, Clean: true})
		fmt.Println(err)
		raw, _ := c06Build(mqttp.ProtocolV50, c06Pkt{T: 10, ID: 45, NF: 2}, 1)
		_ = c.SendRaw(raw)
		time.Sleep(100 * time.Millisecond)
		tmp := make([]byte, 100)
		n, _ := c.conn.Read(tmp)
		fmt.Println(tmp[:n])
		p, _, err := mqttp.Decode(mqttp.ProtocolV50, tmp[:n])
		fmt.Println(p, err)
		return 0
	}
}
