package main

func init() {
	subcmds["dbg"] = func(args []string) int { return 0 }
}
