package main

import (
	"fmt"
	"sync/atomic"
	"time"

	"github.com/VolantMQ/vlapi/mqttp"
)

func init() {
	// experiment: a QoS 0 retained publish REPLACES the retained message of its topic; is there a moment at which
	// a reader finds the topic without any retained message?
	subcmds["dbg"] = func(args []string) int {
		prov, err := newProvider("lf")
		if err != nil {
			fmt.Println(err)
			return 1
		}
		defer prov.Shutdown()
		mk := func(tag byte) *mqttp.Publish {
			m := mqttp.NewPublish(mqttp.ProtocolV311)
			_ = m.Set("r/t", []byte{0, tag}, 0, true, false)
			return m
		}
		_ = prov.Retain(mk(1))
		for {
			if r, _ := prov.Retained("r/t"); len(r) == 1 {
				break
			}
			time.Sleep(time.Millisecond)
		}
		var stop int32
		go func() {
			for i := 0; atomic.LoadInt32(&stop) == 0; i++ {
				_ = prov.Retain(mk(byte(i)))
				if i%64 == 0 {
					time.Sleep(50 * time.Microsecond)
				}
			}
		}()
		t0 := time.Now()
		empty, n := 0, 0
		for time.Since(t0) < 2*time.Second {
			r, _ := prov.Retained("r/t")
			n++
			if len(r) == 0 {
				empty++
			}
		}
		atomic.StoreInt32(&stop, 1)
		fmt.Printf("reads=%d empty=%d\n", n, empty)
		return 0
	}
}
