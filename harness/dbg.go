package main

import (
	"fmt"
	"time"

	"github.com/VolantMQ/vlapi/mqttp"
)

func init() {
	// experiment: unacknowledged messages of a v5 client that uses topic aliases, across a reconnect
	subcmds["dbg"] = func(args []string) int {
		b, _ := NewBroker(BrokerOpts{})
		forever := uint32(0xFFFFFFFF)
		connect := func() *Client {
			cl := b.Dial()
			_, err := cl.Connect(ConnectOpts{ID: "S", Ver: mqttp.ProtocolV50, Clean: false, Expiry: &forever, AliasMax: 5})
			if err != nil {
				fmt.Println("connect:", err)
			}
			return cl
		}
		s := connect()
		_ = s.Send(mkSubscribe(mqttp.ProtocolV50, 1, []string{"a/#"}, []byte{1}))
		_, _ = s.Recv(2 * time.Second)
		pc := b.Dial()
		_, _ = pc.Connect(ConnectOpts{ID: "P", Ver: mqttp.ProtocolV311, Clean: true})
		pa := pc.Auto(false)
		for i := 1; i <= 2; i++ {
			_ = pa.SendL(mkPublish(mqttp.ProtocolV311, "a/b", []byte{byte(i)}, 1, false, uint16(i)))
		}
		show := func(cl *Client, n int, label string) {
			for i := 0; i < n; i++ {
				pk, err := cl.Recv(2 * time.Second)
				fmt.Printf("%s: raw=% x err=%v", label, cl.LastRaw, err)
				if m, ok := pk.(*mqttp.Publish); ok {
					fmt.Printf(" topic=%q payload=%v dup=%v alias=%v", m.Topic(), m.Payload(), m.Dup(), m.PropertyGet(mqttp.PropertyTopicAlias) != nil)
				}
				fmt.Println()
				if err != nil {
					return
				}
			}
		}
		show(s, 2, "first connection")
		d0 := b.Met.Disconnected()
		s.Close()
		for dl := time.Now().Add(3 * time.Second); time.Now().Before(dl) && b.Met.Disconnected() == d0; {
			time.Sleep(time.Millisecond)
		}
		time.Sleep(50 * time.Millisecond)
		s2 := connect()
		show(s2, 2, "after reconnect")
		return 0
	}
}
