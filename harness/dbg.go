package main

import (
	"fmt"
	"time"

	"github.com/VolantMQ/vlapi/mqttp"
)

func init() {
	// experiment: take-over of a connection whose client has stopped reading (the broker's writer is blocked)
	subcmds["dbg"] = func(args []string) int {
		b, _ := NewBroker(BrokerOpts{Preempt: true})
		c := b.DialCap(64)
		if _, err := c.Connect(ConnectOpts{ID: "a", Ver: mqttp.ProtocolV311, Clean: true}); err != nil {
			fmt.Println("connect", err)
			return 1
		}
		_ = c.Send(mkSubscribe(mqttp.ProtocolV311, 9, []string{"t"}, []byte{0}))
		if _, err := c.Recv(2 * time.Second); err != nil {
			fmt.Println("suback", err)
		}
		// the client stops reading now
		pc := b.Dial()
		_, _ = pc.Connect(ConnectOpts{ID: "p", Ver: mqttp.ProtocolV311, Clean: true})
		pa := pc.Auto(false)
		for i := 0; i < 50; i++ {
			_ = pa.SendL(mkPublish(mqttp.ProtocolV311, "t", make([]byte, 100), 0, false, 0))
		}
		time.Sleep(200 * time.Millisecond)
		c2 := b.Dial()
		t0 := time.Now()
		done := make(chan error, 1)
		go func() { _, err := c2.Connect(ConnectOpts{ID: "a", Ver: mqttp.ProtocolV311, Clean: true}); done <- err }()
		select {
		case err := <-done:
			fmt.Println("second CONNECT answered after", time.Since(t0), err)
		case <-time.After(8 * time.Second):
			fmt.Println("second CONNECT NOT answered within 8 s")
		}
		return 0
	}
}
