package main

import (
	"fmt"
	"os"
	"strconv"
	"sync"
	"time"

	"github.com/VolantMQ/vlapi/mqttp"
)

// ackRace: the acknowledgement of a retransmitted message (identifier 1, re-acquired at reconnect while the
// identifier counter of the new connection is still 0) frees identifier 1; the writer, woken by the freed quota,
// hands identifier 1 to the next message at once.  If the acknowledgement's own clean-up of "identifier 1" runs
// after that, the NEW message is no longer registered as unacknowledged: its PUBACK frees nothing (Receive
// Maximum 1: nothing is ever sent again) and a connection end does not persist it.
// Returns (iterations run, stalls seen).
func ackRace(iters int) (int, int, string) {
	b, err := NewBroker(BrokerOpts{})
	if err != nil {
		return 0, 0, err.Error()
	}
	defer b.Drop()
	forever := uint32(0xFFFFFFFF)
	pc := b.Dial()
	if _, err := pc.Connect(ConnectOpts{ID: "P", Ver: mqttp.ProtocolV311, Clean: true}); err != nil {
		return 0, 0, err.Error()
	}
	pa := pc.Auto(false)
	seq := 0
	pub := func() int {
		seq++
		_ = pa.SendL(mkPublish(mqttp.ProtocolV311, "t", []byte{byte(seq >> 16), byte(seq >> 8), byte(seq)}, 1, false, uint16(seq%60000+1)))
		return seq
	}
	connect := func() (*Client, error) {
		// the end of the previous connection may still be in progress (no pre-emption: the CONNECT is refused then)
		for try := 0; ; try++ {
			cl := b.Dial()
			ack, err := cl.Connect(ConnectOpts{ID: "S", Ver: mqttp.ProtocolV50, Clean: false, Expiry: &forever, RecvMax: 1})
			if err != nil {
				return cl, err
			}
			if ack.ReturnCode() == 0 {
				return cl, nil
			}
			cl.Close()
			if try > 200 {
				return cl, fmt.Errorf("CONNECT refused: %d", ack.ReturnCode())
			}
			time.Sleep(time.Millisecond)
		}
	}
	recvPub := func(cl *Client, d time.Duration) (*mqttp.Publish, bool) {
		dl := time.Now().Add(d)
		for time.Now().Before(dl) {
			pk, err := cl.Recv(time.Until(dl))
			if err != nil {
				return nil, false
			}
			if m, ok := pk.(*mqttp.Publish); ok {
				return m, true
			}
		}
		return nil, false
	}
	tagOf := func(m *mqttp.Publish) int {
		p := m.Payload()
		return int(p[0])<<16 | int(p[1])<<8 | int(p[2])
	}
	s, err := connect()
	if err != nil {
		return 0, 0, err.Error()
	}
	_ = s.Send(mkSubscribe(mqttp.ProtocolV50, 1, []string{"t"}, []byte{1}))
	if _, err := s.Recv(5 * time.Second); err != nil {
		return 0, 0, "no suback"
	}
	stalls := 0
	for i := 0; i < iters; i++ {
		a := pub()
		m, ok := recvPub(s, 5*time.Second)
		if !ok || tagOf(m) != a {
			return i, stalls, fmt.Sprintf("iteration %d: first delivery missing", i)
		}
		d0 := b.Met.Disconnected()
		s.Close() // unacknowledged
		for dl := time.Now().Add(5 * time.Second); time.Now().Before(dl) && b.Met.Disconnected() == d0; {
			time.Sleep(100 * time.Microsecond)
		}
		if s, err = connect(); err != nil {
			return i, stalls, err.Error()
		}
		m, ok = recvPub(s, 5*time.Second)
		if !ok || tagOf(m) != a || !m.Dup() {
			if ok {
				idx, _ := m.ID()
				return i, stalls, fmt.Sprintf("iteration %d: retransmission: got tag %d dup %v id %d, want tag %d dup", i, tagOf(m), m.Dup(), idx, a)
			}
			return i, stalls, fmt.Sprintf("iteration %d: retransmission missing", i)
		}
		id, _ := m.ID()
		bq := pub() // waits for the quota
		time.Sleep(200 * time.Microsecond)
		_ = s.Send(mkAck(mqttp.ProtocolV50, mqttp.PUBACK, uint16(id)))
		m, ok = recvPub(s, 5*time.Second)
		if !ok || tagOf(m) != bq {
			return i, stalls, fmt.Sprintf("iteration %d: second message missing", i)
		}
		id2, _ := m.ID()
		_ = s.Send(mkAck(mqttp.ProtocolV50, mqttp.PUBACK, uint16(id2)))
		c := pub()
		m, ok = recvPub(s, 8*time.Second)
		if !ok {
			stalls++
			// the connection is of no use any more: start over with a clean session
			s.Close()
			cl := b.Dial()
			if _, err := cl.Connect(ConnectOpts{ID: "S", Ver: mqttp.ProtocolV50, Clean: true, Expiry: &forever, RecvMax: 1}); err != nil {
				return i, stalls, err.Error()
			}
			s = cl
			_ = s.Send(mkSubscribe(mqttp.ProtocolV50, 1, []string{"t"}, []byte{1}))
			if _, err := s.Recv(5 * time.Second); err != nil {
				return i, stalls, "no suback"
			}
			continue
		}
		if tagOf(m) != c {
			return i, stalls, fmt.Sprintf("iteration %d: third message: got %d want %d", i, tagOf(m), c)
		}
		id3, _ := m.ID()
		_ = s.Send(mkAck(mqttp.ProtocolV50, mqttp.PUBACK, uint16(id3)))
		time.Sleep(100 * time.Microsecond)
	}
	return iters, stalls, ""
}

func init() {
	subcmds["dbg"] = func(args []string) int {
		n, par := 500, 8
		if len(args) > 0 {
			n, _ = strconv.Atoi(args[0])
		}
		if len(args) > 1 {
			par, _ = strconv.Atoi(args[1])
		}
		var wg sync.WaitGroup
		var mu sync.Mutex
		total, st := 0, 0
		for k := 0; k < par; k++ {
			wg.Add(1)
			go func() {
				defer wg.Done()
				it, s, e := ackRace(n)
				mu.Lock()
				total += it
				st += s
				if e != "" {
					fmt.Fprintln(os.Stderr, "err:", e)
				}
				mu.Unlock()
			}()
		}
		wg.Wait()
		fmt.Println("iterations", total, "stalls", st)
		return 0
	}
}
