package main

import (
	"fmt"
	"sync"
	"time"

	"github.com/VolantMQ/vlapi/mqttp"
)

func init() {
	// experiment: the expiry sweep of the read path (getRetained: Load, Expired?, Store(empty)) against a fresh retained
	// message stored between its Load and its Store
	subcmds["dbg"] = func(args []string) int {
		prov, err := newProvider("lf")
		if err != nil {
			fmt.Println(err)
			return 1
		}
		defer prov.Shutdown()
		mk := func(topic string, tag byte, expired bool) *mqttp.Publish {
			m := mqttp.NewPublish(mqttp.ProtocolV50)
			_ = m.Set(topic, []byte{0, tag}, 1, true, false)
			if expired {
				m.SetExpireAt(time.Now().Add(-time.Hour))
			}
			return m
		}
		barrier := func() {
			_ = prov.Retain(mk("zz/b", 1, false))
			for {
				if r, _ := prov.Retained("zz/b"); len(r) == 1 {
					break
				}
			}
			m := mqttp.NewPublish(mqttp.ProtocolV311)
			_ = m.Set("zz/b", []byte{}, 1, true, false)
			_ = prov.Retain(m)
			for {
				if r, _ := prov.Retained("zz/b"); len(r) == 0 {
					break
				}
			}
		}
		lost := 0
		t0 := time.Now()
		iters := 0
		for ; time.Since(t0) < 20*time.Second; iters++ {
			_ = prov.Retain(mk("e/t", 1, true))
			barrier()
			var wg sync.WaitGroup
			start := make(chan struct{})
			for g := 0; g < 6; g++ {
				wg.Add(1)
				go func() {
					defer wg.Done()
					<-start
					for k := 0; k < 20; k++ {
						_, _ = prov.Retained("e/t")
					}
				}()
			}
			wg.Add(1)
			go func() {
				defer wg.Done()
				<-start
				_ = prov.Retain(mk("e/t", 2, false))
			}()
			close(start)
			wg.Wait()
			barrier()
			if r, _ := prov.Retained("e/t"); len(r) != 1 {
				lost++
			}
		}
		fmt.Printf("iterations=%d lost=%d\n", iters, lost)
		return 0
	}
}
