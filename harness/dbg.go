package main

import (
	"fmt"
	"time"

	"github.com/VolantMQ/vlapi/mqttp"
)

func init() {
	subcmds["dbg"] = func(args []string) int {
		t0 := time.Now()
		b, _ := NewBroker(BrokerOpts{})
		fmt.Println("new", time.Since(t0))
		c := b.Dial()
		_, err := c.Connect(ConnectOpts{ID: "a", Ver: mqttp.ProtocolV311, Clean: true})
		fmt.Println("connect", time.Since(t0), err)
		a := c.Auto(false)
		_ = a
		cc := mqttp.NewConnect(mqttp.ProtocolV311)
		_ = cc.SetClientID([]byte("a"))
		_ = a.SendL(cc)
		time.Sleep(200 * time.Millisecond)
		fmt.Println("closed?", a.Closed())
		t1 := time.Now()
		ok := b.Close(10 * time.Second)
		fmt.Println("closedur", time.Since(t1))
		fmt.Println("close", time.Since(t0), ok)
		return 0
	}
}
