package main

import (
	"fmt"

	"github.com/VolantMQ/vlapi/mqttp"
)

func init() {
	subcmds["dbg"] = func(args []string) int {
		for q := 0; q < 3; q++ {
			raw, err := c06Build(mqttp.ProtocolV50, c06Pkt{T: 15, QoS: q}, 1)
			fmt.Println(q, raw, err)
		}
		a := mqttp.NewAuth(mqttp.ProtocolV50)
		fmt.Println(a.SetReasonCode(mqttp.CodeReAuthenticate))
		return 0
	}
}
