package main

import (
	"encoding/json"
	"fmt"
	"io"
	"runtime"
	"sync"
	"time"

	"github.com/VolantMQ/vlapi/mqttp"
)

// C12: (seg) a valid packet sequence starting with CONNECT, every packet eliciting exactly one
// response, written to the connection in generated segments (one byte at a time, whole, packet
// boundaries, CONNECT+next in one segment, random); (hostile) mutated / arbitrary bytes;
// (oversize) a header announcing a huge packet against a small configured maximum, with the bytes
// allocated by the process measured; (outbound) a client announcing a Maximum Packet Size.

type c12Case struct {
	Kind   string `json:"kind"`
	V5     bool   `json:"v5,omitempty"`
	Pkts   []int  `json:"pkts,omitempty"`   // after CONNECT: 0 PINGREQ, 1 SUBSCRIBE, 2 PUBLISH qos1, 3 UNSUBSCRIBE(v3)
	Chunks []int  `json:"chunks,omitempty"` // segment sizes (cycled); 0 = everything at once
	Seed   int    `json:"seed,omitempty"`
	Size   int    `json:"size,omitempty"`
	Max    int    `json:"max,omitempty"`
	First  bool   `json:"first,omitempty"`
	// outbound: the messages are published while the (durable) subscriber is away and reach it from persistence
	// in its next connection - the limit it announces THERE binds them too
	Offline bool `json:"offline,omitempty"`
	// with Offline: the first connection announces no limit, receives the messages and acknowledges nothing; they
	// come back as retransmissions in the next connection, which announces the limit
	Unacked bool `json:"unacked,omitempty"`
}

type c12Obs struct {
	Raw       [][]byte `json:"-"`
	RawInts   [][]int  `json:"raw,omitempty"`
	Expected  [][2]int `json:"expected,omitempty"`
	Observed  [][2]int `json:"observed,omitempty"`
	Closed    bool     `json:"closed,omitempty"`
	Bystander bool     `json:"bystander,omitempty"`
	Alive     bool     `json:"alive,omitempty"`
	Allocated int      `json:"allocated,omitempty"`
	Largest   int      `json:"largest,omitempty"`
	Small     bool     `json:"small,omitempty"`
	Err       string   `json:"err,omitempty"`
}

type c12Prop struct{}

func init() { props["C12"] = &c12Prop{} }

func (p *c12Prop) ID() string { return "C12" }
func (p *c12Prop) Header() string {
	return "From Coq Require Import List NArith.\nImport ListNotations.\nFrom VMQ Require Import chk.C12chk.\n"
}
func (p *c12Prop) Parallel() int { return 6 }

// the "oversize" kind measures what the PROCESS allocates while one header is handled: no other case may
// run (and allocate) at that time
var c12Excl sync.RWMutex

func (p *c12Prop) Gen(r *Rng, i int, tier string) interface{} {
	switch i % 10 {
	case 6, 7:
		return &c12Case{Kind: "hostile", Seed: int(r.U64() % 1000000), V5: r.Bool()}
	case 8:
		// First: the oversized header is the very first packet of the connection (a CONNECT): the limit binds before the broker knows who is there
		return &c12Case{Kind: "oversize", Size: 100*1024*1024 + r.Intn(100*1024*1024), Max: 1024 * (1 + r.Intn(64)), V5: r.Bool(), First: r.Chance(40)}
	case 9:
		if i%20 == 19 {
			// Pkts[0] / Pkts[1]: protocol version of the publisher / of the subscriber (4, 5); Pkts[2]: subscription identifier?
			return &c12Case{Kind: "wellformed", Pkts: []int{4 + r.Intn(2), 4 + r.Intn(2), r.Intn(2)}}
		}
		return &c12Case{Kind: "outbound", Max: 40 + r.Intn(200), Seed: int(r.U64() % 1000000), Offline: r.Chance(35), Unacked: r.Chance(40)}
	}
	c := &c12Case{Kind: "seg", V5: r.Bool()}
	n := 1 + r.Intn(7)
	for k := 0; k < n; k++ {
		c.Pkts = append(c.Pkts, r.Intn(4))
	}
	if r.Chance(35) {
		// a broker Maximum Packet Size below the read buffer, and one packet above it somewhere in the sequence:
		// whatever the segmentation (whole in one read, pipelined behind CONNECT, split) it must be rejected
		c.Max = 150 + r.Intn(250)
		c.Pkts[r.Intn(len(c.Pkts))] = 4
	}
	switch r.Intn(6) {
	case 0:
		c.Chunks = []int{1}
	case 1:
		c.Chunks = []int{0}
	case 2:
		c.Chunks = []int{-1} // packet boundaries
	case 3:
		c.Chunks = []int{-2} // CONNECT and the next packet in one segment, then packet boundaries
	default:
		m := 1 + r.Intn(5)
		for k := 0; k < m; k++ {
			c.Chunks = append(c.Chunks, 1+r.Intn(40))
		}
	}
	return c
}

func (p *c12Prop) Decode(raw json.RawMessage) (interface{}, error) {
	c := &c12Case{}
	return c, json.Unmarshal(raw, c)
}

func (p *c12Prop) Run(ci interface{}) interface{} {
	c := ci.(*c12Case)
	obs := &c12Obs{}
	if c.Kind == "oversize" {
		c12Excl.Lock()
		defer c12Excl.Unlock()
	} else {
		c12Excl.RLock()
		defer c12Excl.RUnlock()
	}
	ver := mqttp.ProtocolV311
	if c.V5 {
		ver = mqttp.ProtocolV50
	}
	opts := BrokerOpts{}
	if c.Kind == "oversize" || (c.Kind == "seg" && c.Max > 0) {
		opts.MaxPacketSize = uint32(c.Max)
	}
	opts.SubsID = true
	b, err := NewBroker(opts)
	if err != nil {
		obs.Err = err.Error()
		return obs
	}
	defer b.Drop()
	bystander := func() (*Auto, bool) {
		bc := b.Dial()
		if _, err := bc.Connect(ConnectOpts{ID: "bystander", Ver: mqttp.ProtocolV311, Clean: true}); err != nil {
			return nil, false
		}
		by := bc.Auto(false)
		_ = by.SendL(mkSubscribe(mqttp.ProtocolV311, 1, []string{"by"}, []byte{0}))
		return by, by.WaitFor(5*time.Second, func() bool { return len(by.Others) >= 1 })
	}
	probe := func(by *Auto) bool {
		hc := b.Dial()
		if _, err := hc.Connect(ConnectOpts{ID: "helper", Ver: mqttp.ProtocolV311, Clean: true}); err != nil {
			return false
		}
		n := by.NPubs()
		_ = hc.Send(mkPublish(mqttp.ProtocolV311, "by", []byte{1}, 0, false, 0))
		return by.WaitFor(5*time.Second, func() bool { return len(by.Pubs) > n })
	}
	switch c.Kind {
	case "seg":
		conn := mqttp.NewConnect(ver)
		conn.SetClean(true)
		_ = conn.SetClientID([]byte("c12"))
		raw, _ := mqttp.Encode(conn)
		obs.Raw = append(obs.Raw, raw)
		obs.Expected = append(obs.Expected, [2]int{2, 0})
		for k, t := range c.Pkts {
			var r []byte
			switch t {
			case 0:
				r, _ = mqttp.Encode(mqttp.NewPingReq(ver))
				obs.Expected = append(obs.Expected, [2]int{13, 0})
			case 1:
				r, _ = mqttp.Encode(mkSubscribe(ver, uint16(100+k), []string{fmt.Sprintf("s/%d", k)}, []byte{0}))
				obs.Expected = append(obs.Expected, [2]int{9, 100 + k})
			case 2:
				r, _ = mqttp.Encode(mkPublish(ver, "p/c12", []byte("0123456789012345678901234567890123456789"), 1, false, uint16(200+k)))
				obs.Expected = append(obs.Expected, [2]int{4, 200 + k})
			case 4:
				// larger than the broker's Maximum Packet Size, smaller than its 4096-byte read buffer
				r, _ = mqttp.Encode(mkPublish(ver, "p/c12", make([]byte, c.Max+1+(k*37)%200), 1, false, uint16(200+k)))
				obs.Expected = append(obs.Expected, [2]int{4, 200 + k})
			default:
				if c.V5 {
					r, _ = mqttp.Encode(mqttp.NewPingReq(ver))
					obs.Expected = append(obs.Expected, [2]int{13, 0})
				} else {
					r, _ = c06Build(ver, c06Pkt{T: 10, ID: 300 + k, NF: 1, Fs: []int{k}}, k)
					obs.Expected = append(obs.Expected, [2]int{11, 300 + k})
				}
			}
			obs.Raw = append(obs.Raw, r)
		}
		var all []byte
		for _, r := range obs.Raw {
			all = append(all, r...)
		}
		// segments
		var segs [][]byte
		switch {
		case len(c.Chunks) == 1 && c.Chunks[0] == 0:
			segs = [][]byte{all}
		case len(c.Chunks) == 1 && c.Chunks[0] == -1:
			segs = obs.Raw
		case len(c.Chunks) == 1 && c.Chunks[0] == -2:
			if len(obs.Raw) >= 2 {
				segs = append(segs, append(append([]byte{}, obs.Raw[0]...), obs.Raw[1]...))
				segs = append(segs, obs.Raw[2:]...)
			} else {
				segs = obs.Raw
			}
		default:
			off, k := 0, 0
			for off < len(all) {
				n := c.Chunks[k%len(c.Chunks)]
				if n < 1 {
					n = 1
				}
				if off+n > len(all) {
					n = len(all) - off
				}
				segs = append(segs, all[off:off+n])
				off += n
				k++
			}
		}
		cl := b.Dial()
		cl.Ver = ver
		for _, sg := range segs {
			_ = cl.SendRaw(sg)
		}
		for len(obs.Observed) < len(obs.Expected) {
			rp, err := cl.Recv(5 * time.Second)
			if err != nil {
				if err == io.EOF {
					obs.Closed = true
				} else {
					obs.Err = err.Error()
				}
				break
			}
			id := 0
			if v, e := rp.ID(); e == nil {
				id = int(v)
			}
			if rp.Type() == mqttp.PINGRESP || rp.Type() == mqttp.CONNACK {
				id = 0
			}
			if rp.Type() == mqttp.DISCONNECT {
				continue // v5: the reason for the close that follows
			}
			obs.Observed = append(obs.Observed, [2]int{int(rp.Type()), id})
		}
	case "hostile":
		by, ok := bystander()
		if !ok {
			obs.Err = "bystander setup"
			return obs
		}
		r := NewRng(uint64(c.Seed))
		cl := b.Dial()
		cl.Ver = ver
		// a valid prefix, then mutation
		conn := mqttp.NewConnect(ver)
		conn.SetClean(true)
		_ = conn.SetClientID([]byte("hostile"))
		raw, _ := mqttp.Encode(conn)
		sub, _ := mqttp.Encode(mkSubscribe(ver, 7, []string{"h/#"}, []byte{1}))
		pub, _ := mqttp.Encode(mkPublish(ver, "h/x", []byte("payload"), 1, false, 9))
		stream := append(append(append([]byte{}, raw...), sub...), pub...)
		switch r.Intn(4) {
		case 0: // flip bytes
			for k := 0; k < 1+r.Intn(6); k++ {
				stream[r.Intn(len(stream))] = byte(r.Intn(256))
			}
		case 1: // truncate
			stream = stream[:1+r.Intn(len(stream)-1)]
		case 2: // arbitrary bytes after CONNECT
			stream = append([]byte{}, raw...)
			for k := 0; k < 5+r.Intn(60); k++ {
				stream = append(stream, byte(r.Intn(256)))
			}
		default: // arbitrary bytes
			stream = nil
			for k := 0; k < 1+r.Intn(80); k++ {
				stream = append(stream, byte(r.Intn(256)))
			}
		}
		for off := 0; off < len(stream); {
			n := 1 + r.Intn(20)
			if off+n > len(stream) {
				n = len(stream) - off
			}
			_ = cl.SendRaw(stream[off : off+n])
			off += n
		}
		time.Sleep(20 * time.Millisecond)
		cl.Close()
		obs.Bystander = probe(by)
		obs.Alive = true
	case "oversize":
		cl := b.Dial()
		cl.Ver = ver
		conn := mqttp.NewConnect(ver)
		conn.SetClean(true)
		_ = conn.SetClientID([]byte("big"))
		raw, _ := mqttp.Encode(conn)
		if !c.First {
			_ = cl.SendRaw(raw)
			if _, err := cl.Recv(5 * time.Second); err != nil {
				obs.Err = "no connack"
				return obs
			}
		}
		var m0, m1 runtime.MemStats
		runtime.GC()
		runtime.ReadMemStats(&m0)
		hdr := []byte{0x30}
		if c.First {
			hdr[0] = 0x10
		}
		n := c.Size
		for {
			d := byte(n % 128)
			n /= 128
			if n > 0 {
				d |= 0x80
			}
			hdr = append(hdr, d)
			if n == 0 {
				break
			}
		}
		_ = cl.SendRaw(append(hdr, 0, 1, 'x', 'y', 'z'))
		for {
			_, err := cl.Recv(5 * time.Second)
			if err == io.EOF {
				obs.Closed = true
			}
			if err != nil {
				break
			}
		}
		runtime.ReadMemStats(&m1)
		obs.Allocated = int(m1.TotalAlloc - m0.TotalAlloc)
	case "wellformed":
		pv, sv := mqttp.ProtocolVersion(c.Pkts[0]), mqttp.ProtocolVersion(c.Pkts[1])
		pc := b.Dial()
		will := mqttp.NewPublish(pv)
		_ = will.Set("wf/will", []byte("gone!"), 1, false, false)
		if _, err := pc.Connect(ConnectOpts{ID: "wfp", Ver: pv, Clean: true, Will: will}); err != nil {
			obs.Err = err.Error()
			return obs
		}
		pa := pc.Auto(false)
		_ = pa.SendL(mkPublish(pv, "wf/ret", []byte("hello"), 1, true, 1))
		if !pa.WaitFor(5*time.Second, func() bool {
			for _, o := range pa.Others { // (the condition runs under the client's lock: no CountOthers here)
				if o.Type() == mqttp.PUBACK {
					return true
				}
			}
			return false
		}) {
			obs.Err = "retained publish not acknowledged"
			return obs
		}
		time.Sleep(30 * time.Millisecond) // the retainer goroutine stores it
		sc := b.Dial()
		if _, err := sc.Connect(ConnectOpts{ID: "wfs", Ver: sv, Clean: true}); err != nil {
			obs.Err = err.Error()
			return obs
		}
		sp := mkSubscribe(sv, 1, []string{"wf/#"}, []byte{1})
		if sv == mqttp.ProtocolV50 && c.Pkts[2] == 1 {
			_ = sp.PropertySet(mqttp.PropertySubscriptionIdentifier, uint32(5))
		}
		_ = sc.Send(sp)
		want := map[string]string{"wf/ret": "hello", "wf/live": "live!", "wf/will": "gone!"}
		got := map[string]bool{}
		obs.Alive, obs.Small = true, true // Alive: every packet decoded; Small: topics and payloads exact
		sentLive, dropped := false, false
		deadline := time.Now().Add(6 * time.Second)
		for len(got) < 3 && time.Now().Before(deadline) {
			pk, err := sc.Recv(500 * time.Millisecond)
			if err == errTimeout {
				continue
			}
			if err != nil {
				obs.Alive = false
				obs.Err = "subscriber: " + err.Error()
				break
			}
			switch m := pk.(type) {
			case *mqttp.SubAck:
				if !sentLive {
					sentLive = true
					_ = pa.SendL(mkPublish(pv, "wf/live", []byte("live!"), 1, false, 2))
				}
			case *mqttp.Publish:
				if want[m.Topic()] != string(m.Payload()) {
					obs.Small = false
					obs.Err = fmt.Sprintf("topic %q payload %q", m.Topic(), m.Payload())
				}
				got[m.Topic()] = true
				if id, _ := m.ID(); m.QoS() > 0 {
					_ = sc.Send(mkAck(sv, mqttp.PUBACK, uint16(id)))
				}
				if got["wf/live"] && !dropped {
					dropped = true
					pa.Close() // abnormal end: the Will
				}
			}
		}
		if len(got) < 3 && obs.Err == "" {
			obs.Small = false
			obs.Err = fmt.Sprintf("only %d of 3 messages arrived", len(got))
		}
	case "tinymax":
		// a v5 CONNECT announcing a Maximum Packet Size below the size of the CONNACK the broker answers with (never
		// generated: the witness of the open known finding C12-connack-exceeds-tiny-max-packet)
		cl := b.Dial()
		cl.Ver = mqttp.ProtocolV50
		conn := mqttp.NewConnect(mqttp.ProtocolV50)
		conn.SetClean(true)
		_ = conn.SetClientID([]byte("tiny"))
		_ = conn.PropertySet(mqttp.PropertyMaximumPacketSize, uint32(c.Max))
		raw, _ := mqttp.Encode(conn)
		_ = cl.SendRaw(raw)
		if _, err := cl.Recv(5 * time.Second); err == nil {
			obs.Largest = len(cl.LastRaw)
		}
		obs.Small = true
	case "outbound":
		r := NewRng(uint64(c.Seed))
		sc := b.Dial()
		exp := uint32(300)
		unacked := c.Offline && c.Unacked
		first := uint32(c.Max)
		if unacked {
			first = 0
		}
		// unacked: Receive Maximum 1 on both connections - when the unacknowledged message no longer fits
		// and is dropped, its slot must come back, or nothing behind it ever arrives
		rmax := uint16(0)
		if unacked {
			rmax = 1
		}
		if _, err := sc.Connect(ConnectOpts{ID: "small", Ver: mqttp.ProtocolV50, Clean: true, MaxPacket: first, Expiry: &exp, RecvMax: rmax}); err != nil {
			obs.Err = err.Error()
			return obs
		}
		s := sc.Auto(unacked)
		if !c.Offline {
			// retained messages of a 3.1.1 publisher whose sizes step through the limit byte by byte: they reach this
			// v5 subscriber on SUBSCRIBE, in the encoding of ITS version (one byte longer: the property length)
			rc := b.Dial()
			if _, err := rc.Connect(ConnectOpts{ID: "rpub", Ver: mqttp.ProtocolV311, Clean: true}); err != nil {
				obs.Err = err.Error()
				return obs
			}
			ra := rc.Auto(false)
			for d := 0; d < 13; d++ {
				n := c.Max - 16 + d
				if n < 1 {
					n = 1
				}
				_ = ra.SendL(mkPublish(mqttp.ProtocolV311, fmt.Sprintf("o/r%02d", d), make([]byte, n), 1, true, uint16(100+d)))
			}
			if !ra.WaitFor(5*time.Second, func() bool { return len(ra.Others) >= 13 }) {
				obs.Err = "retained publisher: no PUBACKs"
				return obs
			}
			deadline := time.Now().Add(5 * time.Second)
			for time.Now().Before(deadline) {
				if r, _ := b.Topics.Retained("o/#"); len(r) >= 13 {
					break
				}
				time.Sleep(time.Millisecond)
			}
		}
		_ = s.SendL(mkSubscribe(mqttp.ProtocolV50, 1, []string{"o/#"}, []byte{1}))
		if !s.WaitFor(5*time.Second, func() bool { return len(s.Others) >= 1 }) {
			obs.Err = "no suback"
			return obs
		}
		var watch *Auto
		if c.Offline {
			wc := b.Dial()
			if _, err := wc.Connect(ConnectOpts{ID: "watch", Ver: mqttp.ProtocolV311, Clean: true}); err != nil {
				obs.Err = err.Error()
				return obs
			}
			watch = wc.Auto(false)
			_ = watch.SendL(mkSubscribe(mqttp.ProtocolV311, 1, []string{"o/end"}, []byte{1}))
			if !watch.WaitFor(5*time.Second, func() bool { return len(watch.Others) >= 1 }) {
				obs.Err = "watcher: no suback"
				return obs
			}
		}
		goAway := func() {
			before := b.Met.Disconnected()
			s.Close()
			deadline := time.Now().Add(5 * time.Second)
			for b.Met.Disconnected() == before && time.Now().Before(deadline) {
				time.Sleep(time.Millisecond)
			}
		}
		if c.Offline && !unacked {
			goAway()
		}
		pc := b.Dial()
		if _, err := pc.Connect(ConnectOpts{ID: "pubr", Ver: mqttp.ProtocolV50, Clean: true}); err != nil {
			obs.Err = err.Error()
			return obs
		}
		pa := pc.Auto(false)
		small := 0
		for k := 0; k < 12; k++ {
			n := c.Max - 30 + r.Intn(60)
			if k%3 == 0 {
				n = 3
				if !c.Offline || k%2 == 1 { // QoS 0 is not kept for a session that is away, nor retransmitted
					small++
				}
			}
			if n < 0 {
				n = 0
			}
			pl := make([]byte, n)
			m := mkPublish(mqttp.ProtocolV50, "o/topic", pl, byte(k%2), false, uint16(k+1))
			if k%4 == 1 {
				_ = m.PropertySet(mqttp.PropertyPublicationExpiry, uint32(100))
			}
			_ = pa.SendL(m)
		}
		// one end marker per writer queue (QoS 0 and QoS 1/2 messages travel separately)
		_ = pa.SendL(mkPublish(mqttp.ProtocolV50, "o/end", []byte{9}, 0, false, 0))
		_ = pa.SendL(mkPublish(mqttp.ProtocolV50, "o/end", []byte{9}, 1, false, 999))
		if c.Offline {
			// the single routing worker has handed everything before the marker to the absent session: it is persisted
			if !watch.WaitFor(5*time.Second, func() bool { return len(watch.Pubs) >= 2 }) {
				obs.Err = "watcher: no end marker"
				return obs
			}
			if unacked {
				// Receive Maximum 1 and no acknowledgements: one QoS 1 message is in flight, the rest waits behind it
				s.WaitFor(5*time.Second, func() bool {
					n := 0
					for _, m := range s.Pubs {
						if m.QoS() == 1 {
							n++
						}
					}
					return n >= 1
				})
				goAway()
			}
			sc2 := b.Dial()
			if _, err := sc2.Connect(ConnectOpts{ID: "small", Ver: mqttp.ProtocolV50, Clean: false, MaxPacket: uint32(c.Max), Expiry: &exp, RecvMax: rmax}); err != nil {
				obs.Err = "reconnect: " + err.Error()
				return obs
			}
			s = sc2.Auto(false)
		}
		wantEnd := 2
		if c.Offline {
			wantEnd = 1
		}
		s.WaitFor(5*time.Second, func() bool {
			n := 0
			for _, m := range s.Pubs {
				if m.Topic() == "o/end" {
					n++
				}
			}
			return n >= wantEnd
		})
		// a response that would exceed the limit: SUBACK carries one code per filter
		nf := c.Max
		fs := make([]string, nf)
		for k := range fs {
			fs[k] = fmt.Sprintf("o2/%d", k)
		}
		_ = s.SendL(mkSubscribe(mqttp.ProtocolV50, 2, fs, make([]byte, nf)))
		npr := s.CountOthers(mqttp.PINGRESP)
		_ = s.SendL(mqttp.NewPingReq(mqttp.ProtocolV50))
		s.WaitFor(5*time.Second, func() bool {
			n := 0
			for _, o := range s.Others {
				if o.Type() == mqttp.PINGRESP {
					n++
				}
			}
			return n > npr
		})
		s.mu.Lock()
		got := 0
		for _, o := range s.Others {
			if sz, err := o.Size(); err == nil && sz > obs.Largest {
				obs.Largest = sz
			}
		}
		for _, m := range s.Pubs {
			if sz, err := m.Size(); err == nil && sz > obs.Largest {
				obs.Largest = sz
			}
			if len(m.Payload()) == 3 {
				got++
			}
		}
		s.mu.Unlock()
		// away: the QoS 1 ones must all arrive; whether QoS 0 messages are kept for an absent session is the broker's choice
		obs.Small = got == small || (c.Offline && got >= small && got <= 4)

	}
	return obs
}

func (p *c12Prop) Suspect(oi interface{}) bool { return oi.(*c12Obs).Err != "" }

func (p *c12Prop) Coq(ci interface{}, oi interface{}) string {
	c := ci.(*c12Case)
	o := oi.(*c12Obs)
	pairs := func(xs [][2]int) string {
		it := make([]string, len(xs))
		for i, x := range xs {
			it[i] = fmt.Sprintf("(%d%%N, %d%%N)", x[0], x[1])
		}
		return cList(it)
	}
	switch c.Kind {
	case "seg":
		pk := make([]string, len(o.Raw))
		for i, r := range o.Raw {
			pk[i] = cBytes(r)
		}
		ch := c.Chunks
		total := 0
		for _, r := range o.Raw {
			total += len(r)
		}
		var chunks []int
		for _, x := range ch {
			switch {
			case x == 0:
				chunks = []int{total}
			case x < 0: // packet-boundary segmentations: the lengths of the segments actually written
				chunks = nil
				if x == -2 && len(o.Raw) >= 2 {
					chunks = append(chunks, len(o.Raw[0])+len(o.Raw[1]))
					for _, r := range o.Raw[2:] {
						chunks = append(chunks, len(r))
					}
				} else {
					for _, r := range o.Raw {
						chunks = append(chunks, len(r))
					}
				}
			default:
				chunks = append(chunks, x)
			}
		}
		// the model consumes one oracle entry per underlying read; cycle the pattern often enough
		var long []int
		for len(long) < total+5 && len(chunks) > 0 {
			long = append(long, chunks...)
		}
		mx := 4000
		if c.Max > 0 {
			mx = c.Max
		}
		return fmt.Sprintf("(CSeg %d %s %s %s %s %s %s)", mx, cList(pk), cNats(long), pairs(o.Expected), pairs(o.Observed), cBool(o.Closed), cBool(o.Err == ""))
	case "hostile":
		return fmt.Sprintf("(CHostile %s %s)", cBool(o.Bystander), cBool(o.Alive))
	case "oversize":
		return fmt.Sprintf("(COversize %d%%N %d%%N %d%%N %s)", c.Size, c.Max, o.Allocated, cBool(o.Closed))
	case "wellformed":
		return fmt.Sprintf("(CWellFormed %s %s)", cBool(o.Alive), cBool(o.Small))
	default:
		return fmt.Sprintf("(COutbound %d %d %s)", c.Max, o.Largest, cBool(o.Small && o.Err == ""))
	}
}

func (p *c12Prop) Class(ci interface{}, oi interface{}) (string, bool) {
	c := ci.(*c12Case)
	if c.Kind != "seg" {
		return c.Kind, true
	}
	l := "seg"
	if len(c.Chunks) == 1 {
		l += map[int]string{1: "+bytewise", 0: "+whole", -1: "+boundaries", -2: "+connect-with-next"}[c.Chunks[0]]
	} else {
		l += "+random"
	}
	return l, len(c.Pkts) > 0
}
