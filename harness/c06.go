package main

import (
	"encoding/json"
	"fmt"
	"io"
	"sort"
	"strings"
	"time"

	"github.com/VolantMQ/vlapi/mqttp"
)

// C06: sequences of well-formed control packets of all 15 types on one connection (v3.1, v3.1.1, v5),
// with server options (allowed versions, subscription-id support).  Lock-step: the first packet is
// sent alone; after CONNACK every packet is followed by a PINGREQ and everything up to the PINGRESP
// (or the end of the stream) is attributed to it.  A bystander client must keep working.

type c06Pkt struct {
	T    int  `json:"t"` // MQTT packet type 1..15
	ID   int  `json:"id,omitempty"`
	NF   int  `json:"nf,omitempty"`
	QoS  int  `json:"qos,omitempty"`
	Flag bool `json:"flag,omitempty"`
	Fs   []int `json:"fs,omitempty"` // SUBSCRIBE / UNSUBSCRIBE: filter indices ("s/<j>")
	// SUBSCRIBE: the first filter is lengthened until the packet's Remaining Length is exactly Pad (127, 128, 129, 256:
	// around the values whose encoding has a byte 0x80)
	Pad int `json:"pad,omitempty"`
}

type c06Case struct {
	Ver      int      `json:"ver"` // 3, 4, 5
	Allowed  bool     `json:"allowed"`
	SubsID   bool     `json:"subsid"`
	Pkts     []c06Pkt `json:"pkts"`
	// Backlog (v3.1 / v3.1.1, whose CONNECT resumes): the session exists already and QoS 1 messages are waiting for
	// it - they may follow the CONNACK, nothing may precede it
	Backlog bool `json:"backlog,omitempty"`
	// NoShared: the broker runs with shared subscriptions switched off (a SUBSCRIBE whose "qos" is 2 names a
	// $share/ filter last: refused with a code of its own in the SUBACK, in every protocol version)
	NoShared bool `json:"noshared,omitempty"`
}

type c06Step struct {
	Resp   [][3]int `json:"resp"`
	Closed bool     `json:"closed,omitempty"`
}

type c06Obs struct {
	Steps     []c06Step `json:"steps"`
	Bystander bool      `json:"bystander"`
	// Leak: the SUBSCRIBE that was a protocol error (connection closed) left a subscription behind: after a
	// reconnect of the durable session a publish to one of ITS filters was delivered
	Leak bool   `json:"leak,omitempty"`
	Err  string `json:"err,omitempty"`
}

type c06Prop struct{}

func init() { props["C06"] = &c06Prop{} }

func (p *c06Prop) ID() string { return "C06" }
func (p *c06Prop) Header() string {
	return "From Coq Require Import List NArith.\nImport ListNotations.\nFrom VMQ Require Import model.ConnSM chk.C06chk.\nOpen Scope N_scope.\n"
}
func (p *c06Prop) Parallel() int { return 8 }

func (p *c06Prop) Gen(r *Rng, i int, tier string) interface{} {
	c := &c06Case{Ver: []int{3, 4, 5}[i%3], Allowed: !r.Chance(8), SubsID: !r.Chance(25)}
	c.Backlog = c.Ver != 5 && c.Allowed && r.Chance(20)
	c.NoShared = r.Chance(25)
	subscribed := map[int]bool{}
	q2used := map[int]bool{}
	mk := func(t int) c06Pkt {
		pk := c06Pkt{T: t}
		switch t {
		case 3:
			pk.QoS = r.Intn(3)
			if pk.QoS > 0 {
				pk.ID = 1 + r.Intn(50)
				// an identifier of a QoS 2 publish that has not been released is not used again: the handshake
				// state (duplicates, PUBREL for a stored message) is C04's model, this one is about the
				// connection's protocol states and keeps no list of stored identifiers
				for q2used[pk.ID] {
					pk.ID = 1 + r.Intn(50)
				}
				if pk.QoS == 2 {
					q2used[pk.ID] = true
				}
				if r.Chance(10) {
					pk.ID = 0
				}
			}
		case 4, 5, 6, 7:
			pk.ID = 100 + r.Intn(50)
		case 8, 10:
			pk.ID = 1 + r.Intn(50)
			if r.Chance(12) {
				pk.ID = 0
			}
			pk.NF = 1 + r.Intn(3)
			if t == 8 {
				before := map[int]bool{}
				for f, v := range subscribed {
					before[f] = v
				}
				for j := 0; j < pk.NF; j++ {
					f := r.Intn(6)
					pk.Fs = append(pk.Fs, f)
					if pk.ID != 0 {
						subscribed[f] = true
					}
				}
				if c.Ver == 5 {
					pk.Flag = r.Chance(30)
					if pk.NF >= 2 && r.Chance(12) {
						pk.QoS = 1 // the LAST filter is a shared subscription with No Local: a protocol error, whatever precedes it
					}
				}
				if pk.QoS == 0 && pk.NF >= 2 && r.Chance(15) {
					pk.QoS = 2 // the LAST filter begins with $share/
				}
				if r.Chance(12) {
					pk.Pad = []int{127, 128, 129, 256}[r.Intn(4)]
				}
				// what this packet does NOT subscribe under the plain name "s/<j>": its first filter when it is padded, its
				// last one when that is a $share/ filter and shared subscriptions are off (the bookkeeping keeps the v5
				// UNSUBSCRIBEs inside what is subscribed, see below)
				notSub := map[int]bool{}
				if pk.Pad > 0 {
					notSub[0] = true
				}
				if pk.QoS == 2 && pk.NF >= 2 && c.NoShared {
					notSub[pk.NF-1] = true
				}
				for idx := range notSub {
					f := pk.Fs[idx]
					elsewhere := false
					for j, g := range pk.Fs {
						if g == f && !notSub[j] {
							elsewhere = true
						}
					}
					if !elsewhere && !before[f] {
						delete(subscribed, f)
					}
				}
			} else {
				// v5: stay outside known finding C06-unsuback-no-codes: unsubscribe what is subscribed
				var have []int
				for f := range subscribed {
					have = append(have, f)
				}
				sort.Ints(have)
				if c.Ver == 5 && len(have) == 0 {
					return c06Pkt{T: 12}
				}
				for j := 0; j < pk.NF; j++ {
					f := r.Intn(6)
					if c.Ver == 5 {
						f = have[r.Intn(len(have))]
					}
					pk.Fs = append(pk.Fs, f)
				}
				if pk.ID != 0 {
					for _, f := range pk.Fs {
						delete(subscribed, f)
					}
				}
				if c.Ver == 5 { // duplicates inside one packet would hit the region too
					seen := map[int]bool{}
					var u []int
					for _, f := range pk.Fs {
						if !seen[f] {
							u = append(u, f)
						}
						seen[f] = true
					}
					pk.Fs = u
					pk.NF = len(u)
				}
			}
		case 9, 11:
			pk.ID = 1 + r.Intn(50)
			pk.NF = 1
		case 1:
			pk.Flag = r.Chance(10)
		case 15:
			// AUTH: reason 0x00 / 0x18 continue / 0x19 re-authenticate, with or without a method property
			pk.QoS = r.Intn(3)
			pk.Flag = r.Bool()
		}
		return pk
	}
	cell := i / 3
	// enumerate: every type as first packet (cells 0..14), as second packet after CONNECT (15..29), later random
	switch {
	case cell < 15:
		c.Pkts = append(c.Pkts, mk(cell+1))
	case cell < 30:
		c.Pkts = append(c.Pkts, c06Pkt{T: 1}, mk(cell-15+1))
	default:
		if r.Chance(90) {
			c.Pkts = append(c.Pkts, mk(1))
		} else {
			c.Pkts = append(c.Pkts, mk(1+r.Intn(15)))
		}
	}
	legal := []int{3, 3, 4, 5, 6, 7, 8, 8, 10, 12, 12}
	if c.Ver == 5 {
		legal = append(legal, 15)
	}
	n := r.Intn(9)
	for k := 0; k < n; k++ {
		if r.Chance(85) {
			c.Pkts = append(c.Pkts, mk(legal[r.Intn(len(legal))]))
		} else {
			c.Pkts = append(c.Pkts, mk(1+r.Intn(15)))
		}
	}
	return c
}

func (p *c06Prop) Decode(raw json.RawMessage) (interface{}, error) {
	c := &c06Case{}
	return c, json.Unmarshal(raw, c)
}

func c06Build(ver mqttp.ProtocolVersion, pk c06Pkt, k int) ([]byte, error) {
	if len(pk.Fs) == 0 {
		pk.Fs = []int{0, 1, 2}
	}
	var m mqttp.IFace
	switch mqttp.Type(pk.T) {
	case mqttp.CONNECT:
		c := mqttp.NewConnect(ver)
		// a fresh but DURABLE session: what a rejected packet may have left behind is visible after a reconnect
		if ver == mqttp.ProtocolV50 {
			c.SetClean(true)
			_ = c.PropertySet(mqttp.PropertySessionExpiryInterval, uint32(3600))
		} else {
			c.SetClean(false)
		}
		_ = c.SetClientID([]byte("c06"))
		if pk.Flag {
			if ver == mqttp.ProtocolV50 {
				_ = c.PropertySet(mqttp.PropertyAuthMethod, "SCRAM-SHA-1")
			} else {
				_ = c.SetCredentials([]byte("deny"), []byte("x"))
			}
		}
		m = c
	case mqttp.PUBLISH:
		pb := mqttp.NewPublish(ver)
		_ = pb.Set("t/c06", []byte{byte(k)}, mqttp.QosType(pk.QoS), false, false)
		id := pk.ID
		if pk.QoS > 0 {
			if id == 0 {
				pb.SetPacketID(1)
			} else {
				pb.SetPacketID(mqttp.IDType(id))
			}
		}
		raw, err := mqttp.Encode(pb)
		if err == nil && pk.QoS > 0 && id == 0 {
			off := 2 + 2 + len("t/c06")
			raw[off], raw[off+1] = 0, 0
		}
		return raw, err
	case mqttp.SUBSCRIBE:
		id := pk.ID
		if id == 0 {
			id = 1
		}
		fs := make([]string, pk.NF)
		ops := make([]byte, pk.NF)
		for i := range fs {
			fs[i] = fmt.Sprintf("s/%d", pk.Fs[i%len(pk.Fs)])
		}
		if pk.QoS == 1 && ver == mqttp.ProtocolV50 && pk.NF >= 2 {
			fs[pk.NF-1] = "$share/g/" + fs[pk.NF-1]
			ops[pk.NF-1] = 0x04
		}
		if pk.QoS == 2 && pk.NF >= 2 {
			fs[pk.NF-1] = "$share/g/" + fs[pk.NF-1] // a legal filter: accepted or, with shared subscriptions off, refused by its code
		}
		s := mkSubscribe(ver, uint16(id), fs, ops)
		if pk.Flag && ver == mqttp.ProtocolV50 {
			_ = s.PropertySet(mqttp.PropertySubscriptionIdentifier, uint32(7))
		}
		raw, err := mqttp.Encode(s)
		for n := 1; err == nil && pk.Pad > 0 && n < 400; n++ {
			hdr := 2
			if len(raw) > 129 {
				hdr = 3
			}
			if len(raw)-hdr >= pk.Pad {
				break
			}
			fs[0] = fmt.Sprintf("s/%d/", pk.Fs[0]) + strings.Repeat("p", n)
			s = mkSubscribe(ver, uint16(id), fs, ops)
			if pk.Flag && ver == mqttp.ProtocolV50 {
				_ = s.PropertySet(mqttp.PropertySubscriptionIdentifier, uint32(7))
			}
			raw, err = mqttp.Encode(s)
		}
		if err == nil && pk.ID == 0 {
			raw[2], raw[3] = 0, 0
		}
		return raw, err
	case mqttp.UNSUBSCRIBE:
		id := pk.ID
		if id == 0 {
			id = 1
		}
		u := mqttp.NewUnSubscribe(ver)
		u.SetPacketID(mqttp.IDType(id))
		for i := 0; i < pk.NF; i++ {
			t, _ := mqttp.NewTopic([]byte(fmt.Sprintf("s/%d", pk.Fs[i%len(pk.Fs)])))
			_ = u.AddTopic(t)
		}
		raw, err := mqttp.Encode(u)
		if err == nil && ver == mqttp.ProtocolV50 {
			// the vlapi encoder omits the (empty) property section of a v5 UNSUBSCRIBE: insert it
			raw = append([]byte{raw[0], raw[1] + 1, raw[2], raw[3], 0}, raw[4:]...)
		}
		if err == nil && pk.ID == 0 {
			raw[2], raw[3] = 0, 0
		}
		return raw, err
	case mqttp.PUBACK, mqttp.PUBREC, mqttp.PUBREL, mqttp.PUBCOMP:
		m = mkAck(ver, mqttp.Type(pk.T), uint16(pk.ID))
	case mqttp.SUBACK:
		a := mqttp.NewSubAck(ver)
		a.SetPacketID(mqttp.IDType(pk.ID))
		_ = a.AddReturnCode(0)
		m = a
	case mqttp.UNSUBACK:
		x, _ := mqttp.New(ver, mqttp.UNSUBACK)
		a := x.(*mqttp.UnSubAck)
		a.SetPacketID(mqttp.IDType(pk.ID))
		if ver == mqttp.ProtocolV50 {
			_ = a.AddReturnCodes([]mqttp.ReasonCode{0})
		}
		m = a
	case mqttp.CONNACK:
		m = mqttp.NewConnAck(ver)
	default:
		var err error
		m, err = mqttp.New(ver, mqttp.Type(pk.T))
		if err != nil {
			return nil, err
		}
		if pk.T == 15 {
			// the vlapi AUTH encoder is unusable (reason code overwritten by the property section): by hand
			reason := []byte{0x00, 0x18, 0x19}[pk.QoS%3]
			body := []byte{reason}
			if pk.Flag {
				method := "SCRAM-SHA-1"
				props := append([]byte{0x15, 0, byte(len(method))}, []byte(method)...)
				body = append(body, byte(len(props)))
				body = append(body, props...)
			} else {
				body = append(body, 0)
			}
			return append([]byte{0xF0, byte(len(body))}, body...), nil
		}
	}
	return mqttp.Encode(m)
}

func (p *c06Prop) Run(ci interface{}) interface{} {
	c := ci.(*c06Case)
	obs := &c06Obs{}
	vers := []string{"v3.1", "v3.1.1", "v5.0"}
	verName := map[int]string{3: "v3.1", 4: "v3.1.1", 5: "v5.0"}[c.Ver]
	if !c.Allowed {
		var v2 []string
		for _, v := range vers {
			if v != verName {
				v2 = append(v2, v)
			}
		}
		vers = v2
	}
	au := &progAuth{password: func(_, user, _ string) bool { return user != "deny" }}
	b, err := NewBroker(BrokerOpts{Versions: vers, SubsID: c.SubsID, SubsShared: !c.NoShared, Auth: []*progAuth{au}})
	if err != nil {
		obs.Err = err.Error()
		return obs
	}
	defer b.Drop()
	ver := mqttp.ProtocolVersion(c.Ver)
	// bystander
	bver := mqttp.ProtocolV311
	if !c.Allowed && c.Ver == 4 {
		bver = mqttp.ProtocolV50
	}
	bc := b.Dial()
	if _, err := bc.Connect(ConnectOpts{ID: "bystander", Ver: bver, Clean: true}); err != nil {
		obs.Err = "bystander: " + err.Error()
		return obs
	}
	by := bc.Auto(false)
	_ = by.SendL(mkSubscribe(bver, 1, []string{"by"}, []byte{0}))
	if !by.WaitFor(5*time.Second, func() bool { return len(by.Others) >= 1 }) {
		obs.Err = "bystander: no suback"
		return obs
	}
	if c.Backlog && c.Allowed && ver != mqttp.ProtocolV50 {
		oc := b.Dial()
		if _, err := oc.Connect(ConnectOpts{ID: "c06", Ver: ver, Clean: false}); err != nil {
			obs.Err = "backlog: " + err.Error()
			return obs
		}
		oa := oc.Auto(false)
		_ = oa.SendL(mkSubscribe(ver, 1, []string{"c06backlog"}, []byte{1}))
		if !oa.WaitFor(5*time.Second, func() bool { return len(oa.Others) >= 1 }) {
			obs.Err = "backlog: no suback"
			return obs
		}
		before := b.Met.Disconnected()
		oc.Close()
		deadline := time.Now().Add(5 * time.Second)
		for b.Met.Disconnected() == before && time.Now().Before(deadline) {
			time.Sleep(time.Millisecond)
		}
		for k := 0; k < 2; k++ {
			_ = bc.Send(mkPublish(bver, "c06backlog", []byte{byte(k)}, 1, false, uint16(700+k)))
		}
		_ = bc.Send(mkPublish(bver, "by", []byte{7}, 0, false, 0))
		if !by.WaitFor(5*time.Second, func() bool { return len(by.Pubs) >= 1 }) { // routed: the two before it are stored for c06
			obs.Err = "backlog: routing barrier"
			return obs
		}
	}
	byBase := by.NPubs()
	cl := b.Dial()
	cl.Ver = ver
	connected := false
	accepted := map[string]bool{}
	for k, pk := range c.Pkts {
		st := c06Step{Resp: [][3]int{}}
		raw, err := c06Build(ver, pk, k)
		if err != nil {
			// the codec cannot build this packet for this version (e.g. AUTH on v3): skip the rest
			break
		}
		_ = cl.SendRaw(raw)
		barrier := connected
		if barrier {
			_ = cl.Send(mqttp.NewPingReq(ver))
		}
		pings := 0
		for {
			to := 5 * time.Second
			rp, err := cl.Recv(to)
			if err != nil && strings.HasPrefix(err.Error(), "decode:") && len(cl.LastRaw) >= 5 && cl.LastRaw[0]>>4 == 11 && ver == mqttp.ProtocolV50 {
				// the vlapi decoder rejects a v5 UNSUBACK that carries reason codes: read it by hand
				// fixed header (2) + packet id (2) + property length (1, = 0) + one code per filter
				raw := cl.LastRaw
				st.Resp = append(st.Resp, [3]int{11, int(raw[2])<<8 | int(raw[3]), len(raw) - 5})
				continue
			}
			if err != nil {
				if err == io.EOF {
					st.Closed = true
				} else {
					obs.Err = fmt.Sprintf("step %d: %v", k, err)
				}
				break
			}
			t := int(rp.Type())
			if pb, ok := rp.(*mqttp.Publish); ok && pb.Topic() == "c06backlog" {
				// what was waiting for the session: after the CONNACK it is not a response to anything
				if !connected {
					obs.Err = fmt.Sprintf("step %d: a PUBLISH was sent before the CONNACK", k)
				}
				continue
			}
			switch a := rp.(type) {
			case *mqttp.ConnAck:
				st.Resp = append(st.Resp, [3]int{t, 0, int(a.ReturnCode())})
			case *mqttp.Ack:
				id, _ := a.ID()
				st.Resp = append(st.Resp, [3]int{t, int(id), int(a.Reason())})
			case *mqttp.SubAck:
				id, _ := a.ID()
				st.Resp = append(st.Resp, [3]int{t, int(id), len(a.ReturnCodes())})
			case *mqttp.UnSubAck:
				id, _ := a.ID()
				st.Resp = append(st.Resp, [3]int{t, int(id), len(a.ReturnCodes())})
			case *mqttp.Disconnect:
				st.Resp = append(st.Resp, [3]int{t, 0, int(a.ReasonCode())})
			case *mqttp.PingResp:
				pings++
				// barrier = two ping round trips (a response queued on another writer queue may be
				// overtaken by the first PINGRESP, never by the second)
				need := 2
				if pk.T == 12 {
					need = 3
				}
				if barrier && pings == 1 && need >= 2 {
					_ = cl.Send(mqttp.NewPingReq(ver))
				}
				if barrier && pings >= need {
					goto done
				}
				if barrier && (pk.T != 12 || pings > 1) {
					continue
				}
				st.Resp = append(st.Resp, [3]int{t, 0, 0})
			default:
				st.Resp = append(st.Resp, [3]int{t, 0, 0})
			}
			if !barrier && t == 2 {
				// CONNACK: success -> connected; refusal -> the broker closes: keep reading for EOF
				if st.Resp[len(st.Resp)-1][2] == 0 {
					connected = true
					goto done
				}
			}
		}
	done:
		obs.Steps = append(obs.Steps, st)
		// filters this session holds, from the acknowledgements it has seen
		for _, rsp := range st.Resp {
			if rsp[0] == 9 && pk.T == 8 {
				for i := 0; i < pk.NF; i++ {
					accepted[c06Filter(pk, i)] = true
				}
			}
			if rsp[0] == 11 && pk.T == 10 {
				for i := 0; i < pk.NF; i++ {
					delete(accepted, c06Filter(pk, i))
				}
			}
		}
		if st.Closed || obs.Err != "" {
			if st.Closed && connected && pk.T == 8 && obs.Err == "" {
				// "closes the connection and has no other effect": none of the filters of the rejected
				// SUBSCRIBE may be subscribed now (unless an earlier, accepted SUBSCRIBE holds it)
				var forbidden []string
				for i := 0; i < pk.NF; i++ {
					if f := c06Filter(pk, i); !accepted[f] {
						forbidden = append(forbidden, f)
					}
				}
				if len(forbidden) > 0 {
					obs.Leak = c06Leak(b, ver, forbidden)
				}
			}
			break
		}
	}
	// bystander still served
	hc := b.Dial()
	if _, err := hc.Connect(ConnectOpts{ID: "helper", Ver: bver, Clean: true}); err == nil {
		_ = hc.Send(mkPublish(bver, "by", []byte{1}, 0, false, 0))
		obs.Bystander = by.WaitFor(5*time.Second, func() bool { return len(by.Pubs) > byBase })
	}
	return obs
}

func c06Filter(pk c06Pkt, i int) string {
	fs := pk.Fs
	if len(fs) == 0 {
		fs = []int{0, 1, 2}
	}
	return fmt.Sprintf("s/%d", fs[i%len(fs)])
}

// c06Leak reconnects the durable session c06 (no clean start) and publishes to the given topics
func c06Leak(b *Broker, ver mqttp.ProtocolVersion, topics []string) bool {
	rc := b.Dial()
	o := ConnectOpts{ID: "c06", Ver: ver, Clean: false}
	if ver == mqttp.ProtocolV50 {
		e := uint32(3600)
		o.Expiry = &e
	}
	if _, err := rc.Connect(o); err != nil {
		return false
	}
	a := rc.Auto(false)
	hc := b.Dial()
	if _, err := hc.Connect(ConnectOpts{ID: "leakhelper", Ver: mqttp.ProtocolV311, Clean: true}); err != nil {
		return false
	}
	for _, t := range topics {
		_ = hc.Send(mkPublish(mqttp.ProtocolV311, t, []byte{0x7E}, 0, false, 0))
	}
	// barrier: a QoS1 publish of the helper acknowledged after the QoS0 ones were routed, then a ping of a
	h := hc.Auto(false)
	_ = h.SendL(mkPublish(mqttp.ProtocolV311, "leak/barrier", []byte{1}, 1, false, 77))
	h.WaitFor(5*time.Second, func() bool { return len(h.Others) >= 1 })
	pingBarrier(a)
	a.mu.Lock()
	defer a.mu.Unlock()
	for _, m := range a.Pubs {
		if len(m.Payload()) == 1 && m.Payload()[0] == 0x7E {
			return true
		}
	}
	return false
}

func (p *c06Prop) Suspect(oi interface{}) bool { return oi.(*c06Obs).Err != "" }

func (p *c06Prop) Coq(ci interface{}, oi interface{}) string {
	c := ci.(*c06Case)
	o := oi.(*c06Obs)
	names := []string{"", "CONNECT", "CONNACK", "PUBLISH", "PUBACK", "PUBREC", "PUBREL", "PUBCOMP", "SUBSCRIBE", "SUBACK", "UNSUBSCRIBE", "UNSUBACK", "PINGREQ", "PINGRESP", "DISCONNECT", "AUTH"}
	steps := make([]string, len(o.Steps))
	for i, s := range o.Steps {
		pk := c.Pkts[i]
		rs := make([]string, len(s.Resp))
		for j, r := range s.Resp {
			rs[j] = fmt.Sprintf("(%d, %d, %d)", r[0], r[1], r[2])
		}
		steps[i] = fmt.Sprintf("(mkStep (mkP %s %d %d %d %s) %s %s)", names[pk.T], pk.ID, pk.NF, pk.QoS, cBool(pk.Flag), cList(rs), cBool(s.Closed))
	}
	return fmt.Sprintf("(mkCase (mkO %s %s %s) %s %s %s)", cBool(c.Ver == 5), cBool(c.Allowed), cBool(c.SubsID), cList(steps), cBool(o.Bystander && !o.Leak), cBool(o.Err == ""))
}

func (p *c06Prop) Class(ci interface{}, oi interface{}) (string, bool) {
	c := ci.(*c06Case)
	o := oi.(*c06Obs)
	l := fmt.Sprintf("v%d", c.Ver)
	if len(o.Steps) > 0 && o.Steps[len(o.Steps)-1].Closed {
		l += "+closed"
	}
	return l, len(o.Steps) > 1
}
