package main

import (
	"sync"
	"time"

	"github.com/VolantMQ/vlapi/vlpersistence"
)

// persistGate wraps a persistence backend so that the harness can hold ONE chosen call open: the next
// PacketStoreQoS12 for an armed client id blocks until Release. This is how a schedule "a message routed to an
// offline session is still on its way into persistence while the client reconnects" is forced without touching
// the broker: the routing worker is simply slow at that point. It also counts the completed start-up loads per id.
type persistGate struct {
	vlpersistence.IFace
	mu      sync.Mutex
	armed   string
	bulk    bool // the armed call is PacketsStore (the queues handed over at connection end) instead of PacketStoreQoS12
	load    int  // 1 / 2: the armed call is the start-up load PacketsForEachQoS0 / PacketsForEachQoS12 (held BEFORE it loads)
	entered chan struct{}
	release chan struct{}
	loads   map[string]int
}

func newPersistGate(p vlpersistence.IFace) *persistGate {
	return &persistGate{IFace: p, loads: map[string]int{}}
}

func (g *persistGate) Sessions() (vlpersistence.Sessions, error) {
	s, err := g.IFace.Sessions()
	if err != nil {
		return s, err
	}
	return &gatedSessions{Sessions: s, g: g}, nil
}

func (g *persistGate) Arm(id string) {
	g.mu.Lock()
	g.armed = id
	g.bulk = false
	g.load = 0
	g.entered = make(chan struct{})
	g.release = make(chan struct{})
	g.mu.Unlock()
}

// ArmBulk: the next PacketsStore for id blocks until Release
func (g *persistGate) ArmBulk(id string) {
	g.Arm(id)
	g.mu.Lock()
	g.bulk = true
	g.mu.Unlock()
}

// ArmLoad: the next start-up load of the QoS 0 (qos12 false) or QoS 1/2 (true) backlog of id blocks until Release
func (g *persistGate) ArmLoad(id string, qos12 bool) {
	g.Arm(id)
	g.mu.Lock()
	g.load = 1
	if qos12 {
		g.load = 2
	}
	g.mu.Unlock()
}

func (g *persistGate) WaitEntered(d time.Duration) bool {
	g.mu.Lock()
	ch := g.entered
	g.mu.Unlock()
	select {
	case <-ch:
		return true
	case <-time.After(d):
		return false
	}
}

func (g *persistGate) Release() {
	g.mu.Lock()
	g.armed = ""
	if g.release != nil {
		select {
		case <-g.release:
		default:
			close(g.release)
		}
	}
	g.mu.Unlock()
}

func (g *persistGate) Loads(id string) int {
	g.mu.Lock()
	defer g.mu.Unlock()
	return g.loads[id]
}

type gatedSessions struct {
	vlpersistence.Sessions
	g *persistGate
}

func (s *gatedSessions) PacketStoreQoS12(id []byte, p *vlpersistence.PersistedPacket) error {
	s.g.mu.Lock()
	var rel chan struct{}
	if s.g.armed != "" && !s.g.bulk && s.g.load == 0 && s.g.armed == string(id) {
		s.g.armed = ""
		close(s.g.entered)
		rel = s.g.release
	}
	s.g.mu.Unlock()
	if rel != nil {
		<-rel
	}
	return s.Sessions.PacketStoreQoS12(id, p)
}

func (s *gatedSessions) PacketsStore(id []byte, p vlpersistence.PersistedPackets) error {
	s.g.mu.Lock()
	var rel chan struct{}
	if s.g.armed != "" && s.g.bulk && s.g.armed == string(id) {
		s.g.armed = ""
		close(s.g.entered)
		rel = s.g.release
	}
	s.g.mu.Unlock()
	if rel != nil {
		<-rel
	}
	return s.Sessions.PacketsStore(id, p)
}

func (s *gatedSessions) holdLoad(id []byte, which int) {
	s.g.mu.Lock()
	var rel chan struct{}
	if s.g.armed != "" && s.g.load == which && s.g.armed == string(id) {
		s.g.armed = ""
		close(s.g.entered)
		rel = s.g.release
	}
	s.g.mu.Unlock()
	if rel != nil {
		<-rel
	}
}

func (s *gatedSessions) PacketsForEachQoS12(id []byte, ctx interface{}, loader vlpersistence.PacketLoader) error {
	s.holdLoad(id, 2)
	return s.Sessions.PacketsForEachQoS12(id, ctx, loader)
}

func (s *gatedSessions) PacketsForEachQoS0(id []byte, ctx interface{}, loader vlpersistence.PacketLoader) error {
	s.holdLoad(id, 1)
	err := s.Sessions.PacketsForEachQoS0(id, ctx, loader)
	s.g.mu.Lock()
	s.g.loads[string(id)]++
	s.g.mu.Unlock()
	return err
}
