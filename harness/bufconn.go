package main

import (
	"io"
	"net"
	"os"
	"sync"
	"time"
)

// bufPipe is an in-memory duplex connection like net.Pipe, but with an unbounded buffer per
// direction (as a TCP socket has kernel buffers): a Write never waits for the peer to read, so a
// peer that is not reading at the moment cannot dead-lock the writer.  Each Write is kept as one
// segment and a Read returns bytes from at most one segment, so the test controls segmentation.

type halfPipe struct {
	mu        sync.Mutex
	cond      *sync.Cond
	segs      [][]byte
	closed    bool // writer side closed: reader gets EOF after draining
	rdClosed  bool // reader side closed: writes fail
	capBytes  int  // > 0: a Write waits while this many bytes are buffered unread (a full socket buffer)
	buffered  int
	deadline  time.Time
	timer     *time.Timer
	readPause time.Duration // > 0: every Read of this half first waits that long (a slow consumer)
	wdeadline time.Time     // write deadline of the side that writes into this half
	wtimer    *time.Timer
}

func newHalf() *halfPipe {
	h := &halfPipe{}
	h.cond = sync.NewCond(&h.mu)
	return h
}

type bufConn struct {
	rd, wr *halfPipe
	name   string
}

func bufPipe() (net.Conn, net.Conn) {
	a, b := newHalf(), newHalf()
	return &bufConn{rd: a, wr: b, name: "client"}, &bufConn{rd: b, wr: a, name: "server"}
}

// bufPipeCap: the direction server -> client holds at most capBytes unread bytes before a Write blocks
func bufPipeCap(capBytes int) (net.Conn, net.Conn) {
	cl, srv := bufPipe()
	cl.(*bufConn).rd.capBytes = capBytes
	return cl, srv
}

type timeoutErr struct{}

func (timeoutErr) Error() string   { return "i/o timeout" }
func (timeoutErr) Timeout() bool   { return true }
func (timeoutErr) Temporary() bool { return true }
func (timeoutErr) Unwrap() error   { return os.ErrDeadlineExceeded }

func (c *bufConn) Read(b []byte) (int, error) {
	h := c.rd
	h.mu.Lock()
	if d := h.readPause; d > 0 {
		h.mu.Unlock()
		time.Sleep(d)
		h.mu.Lock()
	}
	defer h.mu.Unlock()
	for {
		if h.rdClosed {
			return 0, io.ErrClosedPipe
		}
		if len(h.segs) > 0 {
			if len(b) == 0 {
				return 0, nil
			}
			n := copy(b, h.segs[0])
			h.buffered -= n
			h.cond.Broadcast()
			if n < len(h.segs[0]) {
				h.segs[0] = h.segs[0][n:]
			} else {
				h.segs = h.segs[1:]
			}
			return n, nil
		}
		if h.closed {
			return 0, io.EOF
		}
		if !h.deadline.IsZero() && !time.Now().Before(h.deadline) {
			return 0, timeoutErr{}
		}
		h.cond.Wait()
	}
}

func (c *bufConn) Write(b []byte) (int, error) {
	h := c.wr
	h.mu.Lock()
	defer h.mu.Unlock()
	written := 0
	for {
		// a full buffer takes what fits and makes the writer wait with the rest, as a socket does
		for h.capBytes > 0 && h.buffered >= h.capBytes && !h.closed && !h.rdClosed {
			if !h.wdeadline.IsZero() && !time.Now().Before(h.wdeadline) {
				return written, timeoutErr{}
			}
			h.cond.Wait()
		}
		if h.closed || h.rdClosed {
			return written, io.ErrClosedPipe
		}
		n := len(b)
		if h.capBytes > 0 && n > h.capBytes-h.buffered {
			n = h.capBytes - h.buffered
		}
		if n > 0 {
			h.segs = append(h.segs, append([]byte{}, b[:n]...))
			h.buffered += n
			written += n
			b = b[n:]
		}
		h.cond.Broadcast()
		if len(b) == 0 {
			return written, nil
		}
	}
}

func (c *bufConn) Close() error {
	c.wr.mu.Lock()
	c.wr.closed = true
	c.wr.cond.Broadcast()
	c.wr.mu.Unlock()
	c.rd.mu.Lock()
	c.rd.rdClosed = true
	c.rd.cond.Broadcast()
	c.rd.mu.Unlock()
	return nil
}

// Deafen makes every later Write of the peer fail (as after a reset by this side) while this side can still write
func (c *bufConn) Deafen() {
	c.rd.mu.Lock()
	c.rd.rdClosed = true
	c.rd.cond.Broadcast()
	c.rd.mu.Unlock()
}

func (c *bufConn) SetReadDeadline(t time.Time) error {
	h := c.rd
	h.mu.Lock()
	defer h.mu.Unlock()
	h.deadline = t
	if h.timer != nil {
		h.timer.Stop()
		h.timer = nil
	}
	if !t.IsZero() {
		d := time.Until(t)
		if d < 0 {
			d = 0
		}
		h.timer = time.AfterFunc(d, func() {
			h.mu.Lock()
			h.cond.Broadcast()
			h.mu.Unlock()
		})
	}
	h.cond.Broadcast()
	return nil
}

func (c *bufConn) SetWriteDeadline(t time.Time) error {
	h := c.wr
	h.mu.Lock()
	defer h.mu.Unlock()
	h.wdeadline = t
	if h.wtimer != nil {
		h.wtimer.Stop()
		h.wtimer = nil
	}
	if !t.IsZero() {
		d := time.Until(t)
		if d < 0 {
			d = 0
		}
		h.wtimer = time.AfterFunc(d, func() {
			h.mu.Lock()
			h.cond.Broadcast()
			h.mu.Unlock()
		})
	}
	h.cond.Broadcast()
	return nil
}

func (c *bufConn) SetDeadline(t time.Time) error {
	_ = c.SetWriteDeadline(t)
	return c.SetReadDeadline(t)
}

type bufAddr struct{}

func (bufAddr) Network() string { return "buf" }
func (bufAddr) String() string  { return "buf" }

func (c *bufConn) LocalAddr() net.Addr  { return bufAddr{} }
func (c *bufConn) RemoteAddr() net.Addr { return bufAddr{} }

// SetReadPause makes every later Read of this side wait d first (0 = off)
func (c *bufConn) SetReadPause(d time.Duration) {
	c.rd.mu.Lock()
	c.rd.readPause = d
	c.rd.mu.Unlock()
}
