package main

import (
	"fmt"
	"sort"
	"strings"
	"sync"
	"sync/atomic"
	"time"

	"github.com/VolantMQ/vlapi/mqttp"
	"github.com/VolantMQ/vlapi/vlsubscriber"

	topicsTypes "github.com/VolantMQ/volantmq/topics/types"
)

// C01 / C07 through the whole broker ("provider": "broker"): the same histories, but every subscribe /
// unsubscribe / publish / retained publish is a packet sent by a real client connection (sessions 1 and 2 speak
// MQTT 5.0, session 3 speaks 3.1.1, a v5 and a 3.1.1 connection publish in turn, every other v5 subscription carries a
// Subscription Identifier), so the session layer between the
// connection and the topic index (clients/session.go: what is forwarded to the index, under which filter) is part
// of what is compared with the model.  A retained publish is also a publish: it is routed like any other.
// "share": the filter goes on the wire as $share/g<session>/<filter> - a share group with a single member, which is
// sent every matching message whatever the distribution policy; what matters here is that SUBSCRIBE and
// UNSUBSCRIBE name the same subscription.

type c01Broker struct {
	b       *Broker
	mu      sync.Mutex
	marks   int
	nmark   int
	sess    map[int]*Auto
	seen    map[int]int
	pub     *Auto
	pub4    *Auto // a second publisher speaking MQTT 3.1.1: every other publish goes through it
	pub3    *Auto // a third one speaking MQTT 3.1 ("MQIsdp"): every third
	npub    int
	pkid    uint16
	subid   uint16
	failure string
	durable bool // the history holds a restart: the sessions are durable, and come back after it
	opts    BrokerOpts
}

type markStub struct{ r *c01Broker }

func (s *markStub) Hash() uintptr { return uintptr(424242) }
func (s *markStub) Publish(m *mqttp.Publish, _ mqttp.QosType, _ mqttp.SubscriptionOptions, _ []uint32) error {
	if m.Topic() == "zz/marker" {
		s.r.mu.Lock()
		s.r.marks++
		s.r.mu.Unlock()
	}
	return nil
}

func (r *c01Broker) marker() bool {
	r.nmark++
	want := r.nmark
	m := mqttp.NewPublish(mqttp.ProtocolV311)
	_ = m.Set("zz/marker", []byte{0xff, 0xff}, 0, false, false)
	_ = r.b.Topics.Publish(m)
	deadline := time.Now().Add(5 * time.Second)
	for time.Now().Before(deadline) {
		r.mu.Lock()
		n := r.marks
		r.mu.Unlock()
		if n >= want {
			return true
		}
		time.Sleep(50 * time.Microsecond)
	}
	return false
}

func (r *c01Broker) retBarrier() bool {
	waitFor := func(cond func() bool) bool {
		deadline := time.Now().Add(5 * time.Second)
		for time.Now().Before(deadline) {
			if cond() {
				return true
			}
			time.Sleep(50 * time.Microsecond)
		}
		return false
	}
	m := mqttp.NewPublish(mqttp.ProtocolV311)
	_ = m.Set("zz/rsentinel", []byte{1}, 1, true, false)
	_ = r.b.Topics.Retain(m)
	if !waitFor(func() bool { x, _ := r.b.Topics.Retained("zz/rsentinel"); return len(x) == 1 }) {
		return false
	}
	m2 := mqttp.NewPublish(mqttp.ProtocolV311)
	_ = m2.Set("zz/rsentinel", []byte{}, 1, true, false)
	_ = r.b.Topics.Retain(m2)
	return waitFor(func() bool { x, _ := r.b.Topics.Retained("zz/rsentinel"); return len(x) == 0 })
}

func (r *c01Broker) session(id int) (*Auto, error) {
	if a, ok := r.sess[id]; ok {
		return a, nil
	}
	ver := mqttp.ProtocolV50
	if id == 3 {
		ver = mqttp.ProtocolV311
	}
	cl := r.b.Dial()
	cl.LenientUnsuback = true
	o := ConnectOpts{ID: fmt.Sprintf("c01s%d", id), Ver: ver, Clean: !r.durable}
	if r.durable && ver == mqttp.ProtocolV50 {
		forever := uint32(0xFFFFFFFF)
		o.Expiry = &forever
	}
	if _, err := cl.Connect(o); err != nil {
		return nil, err
	}
	a := cl.Auto(false)
	r.sess[id] = a
	r.seen[id] = 0
	return a, nil
}

func (r *c01Broker) publishers() error {
	pc := r.b.Dial()
	if _, err := pc.Connect(ConnectOpts{ID: "c01pub", Ver: mqttp.ProtocolV50, Clean: true}); err != nil {
		return fmt.Errorf("publisher: %v", err)
	}
	r.pub = pc.Auto(false)
	pc4 := r.b.Dial()
	if _, err := pc4.Connect(ConnectOpts{ID: "c01pub4", Ver: mqttp.ProtocolV311, Clean: true}); err != nil {
		return fmt.Errorf("publisher (3.1.1): %v", err)
	}
	r.pub4 = pc4.Auto(false)
	pc3 := r.b.Dial()
	if _, err := pc3.Connect(ConnectOpts{ID: "c01pub3", Ver: mqttp.ProtocolV31, Clean: true}); err != nil {
		return fmt.Errorf("publisher (3.1): %v", err)
	}
	r.pub3 = pc3.Auto(false)
	return nil
}

// restart: the broker is shut down and started again over the same persistence; the (durable) sessions come back
func (r *c01Broker) restart() error {
	old := r.b
	pers := old.Persist
	atomic.StoreInt32(&old.mgrDown, 1)
	stopped := make(chan struct{})
	go func() { _ = old.Mgr.Stop(); _ = old.Mgr.Shutdown(); old.ShutdownTopics(); close(stopped) }()
	select {
	case <-stopped:
	case <-time.After(10 * time.Second):
		return fmt.Errorf("shutdown did not return")
	}
	old.Drop2()
	r.mu.Lock()
	r.marks, r.nmark = 0, 0
	r.mu.Unlock()
	o := r.opts
	o.Persist = pers
	b, err := NewBroker(o)
	if err != nil {
		return fmt.Errorf("restart: %v", err)
	}
	r.b = b
	if err := r.publishers(); err != nil {
		return err
	}
	ids := []int{}
	for id := range r.sess {
		ids = append(ids, id)
	}
	sort.Ints(ids)
	for _, id := range ids {
		delete(r.sess, id)
		if _, err := r.session(id); err != nil {
			return fmt.Errorf("session %d after the restart: %v", id, err)
		}
	}
	if !r.settle() {
		return fmt.Errorf("settle after the restart")
	}
	for _, id := range ids {
		for _, m := range r.news(id) {
			if !strings.HasPrefix(m.Topic(), "zz/") {
				return fmt.Errorf("session %d was sent %q when it came back after the restart (nothing was pending)", id, m.Topic())
			}
		}
	}
	return nil
}

func waitOther(a *Auto, t mqttp.Type, n int) bool {
	return a.WaitFor(5*time.Second, func() bool {
		k := 0
		for _, o := range a.Others {
			if o.Type() == t {
				k++
			}
		}
		return k > n
	})
}

// settle: everything routed so far has been handed to the sessions' writers and written to the clients
func (r *c01Broker) settle() bool {
	if !r.marker() {
		return false
	}
	ids := []int{}
	for id := range r.sess {
		ids = append(ids, id)
	}
	sort.Ints(ids)
	for _, id := range ids {
		if !pingBarrier(r.sess[id]) {
			return false
		}
	}
	return true
}

// news: the PUBLISH packets a session received since the last call
func (r *c01Broker) news(id int) []*mqttp.Publish {
	a := r.sess[id]
	a.mu.Lock()
	defer a.mu.Unlock()
	out := append([]*mqttp.Publish{}, a.Pubs[r.seen[id]:]...)
	r.seen[id] = len(a.Pubs)
	return out
}

func (r *c01Broker) publish(topic string, payload []byte, qos byte, retain bool) ([]int, error) {
	r.pkid++
	r.npub++
	pub := r.pub
	if r.npub%3 == 1 {
		pub = r.pub4
	} else if r.npub%3 == 2 {
		pub = r.pub3
	}
	nAck := pub.CountOthers(mqttp.PUBACK)
	nComp := pub.CountOthers(mqttp.PUBCOMP)
	if err := pub.SendL(mkPublish(pub.Ver, topic, payload, qos, retain, r.pkid)); err != nil {
		return nil, err
	}
	if qos == 1 && !waitOther(pub, mqttp.PUBACK, nAck) {
		return nil, fmt.Errorf("no PUBACK")
	}
	if qos == 2 && !waitOther(pub, mqttp.PUBCOMP, nComp) {
		return nil, fmt.Errorf("no PUBCOMP")
	}
	if !pingBarrier(pub) {
		return nil, fmt.Errorf("publisher ping barrier")
	}
	if retain && !r.retBarrier() {
		return nil, fmt.Errorf("retain barrier")
	}
	if !r.settle() {
		return nil, fmt.Errorf("settle")
	}
	recv := []int{}
	ids := []int{}
	for id := range r.sess {
		ids = append(ids, id)
	}
	sort.Ints(ids)
	for _, id := range ids {
		for _, m := range r.news(id) {
			if m.Topic() == topic {
				recv = append(recv, id)
			}
		}
	}
	return recv, nil
}

func (p *c01Prop) runBroker(c *c01Case) interface{} {
	obs := &c01Obs{}
	r := &c01Broker{sess: map[int]*Auto{}, seen: map[int]int{}}
	r.opts = BrokerOpts{SubsShared: true, SubsID: true, OnTopics: func(tp topicsTypes.Provider) error {
		return tp.Subscribe(topicsTypes.SubscribeReq{Filter: "zz/marker", S: &markStub{r}, Params: vlsubscriber.SubscriptionParams{Ops: mqttp.SubscriptionOptions(0 | 0x20)}}).Err
	}}
	for _, op := range c.Ops {
		r.durable = r.durable || op.Op == "restart"
	}
	b, err := NewBroker(r.opts)
	if err != nil {
		obs.Err = err.Error()
		return obs
	}
	defer func() { r.b.Drop() }()
	r.b = b
	if err = r.publishers(); err != nil {
		obs.Err = err.Error()
		return obs
	}
	for k, op := range c.Ops {
		st := c01Step{}
		fail := func(f string, a ...interface{}) { obs.Err = fmt.Sprintf("step %d: ", k) + fmt.Sprintf(f, a...) }
		switch op.Op {
		case "sub", "unsub":
			a, e := r.session(op.S)
			if e != nil {
				fail("connect: %v", e)
				break
			}
			filter := op.F
			if op.Share && a.Ver == mqttp.ProtocolV50 {
				filter = fmt.Sprintf("$share/g%d/%s", op.S, op.F) // a group of its own: its only member is sent everything
			}
			r.subid++
			if op.Op == "sub" {
				ops := byte(op.QoS)
				if a.Ver == mqttp.ProtocolV50 {
					ops |= byte(op.RH) << 4
				}
				n := a.CountOthers(mqttp.SUBACK)
				sp := mkSubscribe(a.Ver, r.subid, []string{filter}, []byte{ops})
				if a.Ver == mqttp.ProtocolV50 && r.subid%2 == 1 {
					// every other v5 subscription carries a Subscription Identifier: what is routed to it gets a property
					_ = sp.PropertySet(mqttp.PropertySubscriptionIdentifier, uint32(r.subid))
				}
				_ = a.SendL(sp)
				if !waitOther(a, mqttp.SUBACK, n) {
					fail("no SUBACK for %q", filter)
					break
				}
				if !r.settle() {
					fail("settle")
					break
				}
				st.Tags = []int{}
				for _, m := range r.news(op.S) {
					if strings.HasPrefix(m.Topic(), "zz/") {
						continue // the barrier's own traffic, seen through a wildcard subscription
					}
					if m.Retain() && len(m.Payload()) >= 2 {
						st.Tags = append(st.Tags, (int(m.Payload()[0])<<8|int(m.Payload()[1]))*4+int(m.QoS()))
					} else {
						fail("unexpected PUBLISH %q after SUBSCRIBE", m.Topic())
					}
				}
				sort.Ints(st.Tags)
			} else {
				n := a.CountOthers(mqttp.UNSUBACK)
				u := mqttp.NewUnSubscribe(a.Ver)
				u.SetPacketID(mqttp.IDType(r.subid))
				if op.Pre {
					if never, e0 := mqttp.NewTopic([]byte(fmt.Sprintf("zz/never/%d", r.subid))); e0 == nil {
						_ = u.AddTopic(never)
					}
				}
				tp, e2 := mqttp.NewTopic([]byte(filter))
				if e2 != nil {
					fail("topic %q: %v", filter, e2)
					break
				}
				_ = u.AddTopic(tp)
				raw, e3 := mqttp.Encode(u)
				if e3 != nil {
					fail("encode UNSUBSCRIBE: %v", e3)
					break
				}
				if a.Ver == mqttp.ProtocolV50 {
					// the vlapi encoder omits the (empty) property section of a v5 UNSUBSCRIBE: insert it
					raw = append([]byte{raw[0], raw[1] + 1, raw[2], raw[3], 0}, raw[4:]...)
				}
				if e4 := a.SendRaw(raw); e4 != nil {
					fail("send UNSUBSCRIBE: %v", e4)
					break
				}
				if !waitOther(a, mqttp.UNSUBACK, n) {
					fail("no UNSUBACK for %q", filter)
					break
				}
			}
		case "ret":
			pl := []byte{byte(op.Tag >> 8), byte(op.Tag)}
			if op.Empty {
				pl = []byte{}
			}
			recv, e := r.publish(op.F, pl, byte(op.QoS), true)
			if e != nil {
				fail("retained publish: %v", e)
			}
			st.Recv = recv
		case "pub":
			recv, e := r.publish(op.F, []byte{0, byte(k)}, 0, false)
			if e != nil {
				fail("publish: %v", e)
			}
			st.Recv = recv
		case "restart":
			if e := r.restart(); e != nil {
				fail("%v", e)
			}
		case "retq":
			x, _ := r.b.Topics.Retained(op.F)
			st.Tags = []int{}
			for _, m := range x {
				if len(m.Payload()) >= 2 {
					st.Tags = append(st.Tags, (int(m.Payload()[0])<<8|int(m.Payload()[1]))*4+int(m.QoS()))
				}
			}
			sort.Ints(st.Tags)
		}
		obs.Steps = append(obs.Steps, st)
		if obs.Err != "" {
			break
		}
	}
	return obs
}
