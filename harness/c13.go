package main

import (
	"encoding/json"
	"fmt"
	"sync"
	"time"
	"unsafe"

	"github.com/VolantMQ/vlapi/mqttp"
	"github.com/VolantMQ/vlapi/vlsubscriber"
	persistenceMem "gitlab.com/VolantMQ/vlplugin/persistence/mem"

	"github.com/VolantMQ/volantmq/metrics"
	"github.com/VolantMQ/volantmq/topics/mem"
	"github.com/VolantMQ/volantmq/topics/memlockfree"
	topicsTypes "github.com/VolantMQ/volantmq/topics/types"
)

// C13: (a) "stream": sequence-numbered streams from 1-3 publishers to 1-3 topics through
// clients.Manager to 1-3 subscribers; arrival order per (subscriber, publisher, topic, qos);
// (b) "gated": the two-worker witness of refute/C13.v replayed on the provider with a stub whose
// Publish holds the first message until the second one arrives (or 300 ms pass).

type c13Case struct {
	Kind     string `json:"kind"`
	Provider string `json:"provider,omitempty"` // gated: "lf" | "mem"
	Pubs     int    `json:"pubs,omitempty"`
	Topics   int    `json:"topics,omitempty"`
	Subs     int    `json:"subs,omitempty"`
	N        int    `json:"n,omitempty"`
	QoS      []int  `json:"qos,omitempty"` // per message index: qos of message k is QoS[k % len]
	RM       int    `json:"rm,omitempty"`
	SubVer   int    `json:"subver,omitempty"`
	// stream: the subscribers read slowly (a pipe of 64 bytes, 1 ms per read): the broker's writer is regularly
	// blocked in its Write while further messages arrive
	Slow bool `json:"slow,omitempty"`
	// stream: every Big-th message of a publisher carries 5000 bytes (more than the writer's buffer holds) among the
	// 5-byte ones
	Big int `json:"big,omitempty"`
}

type c13Arr struct {
	Sub, Pub, Topic, QoS, Seq int
}

type c13Obs struct {
	Arr      [][5]int `json:"arr"`
	Expected int      `json:"expected"`
	Got      int      `json:"got"`
	Err      string   `json:"err,omitempty"`
}

type c13Prop struct{}

func init() { props["C13"] = &c13Prop{} }

func (p *c13Prop) ID() string { return "C13" }
func (p *c13Prop) Header() string {
	return "From Coq Require Import List NArith.\nImport ListNotations.\nFrom VMQ Require Import chk.C13chk.\n"
}
func (p *c13Prop) Parallel() int { return 6 }

func (p *c13Prop) Gen(r *Rng, i int, tier string) interface{} {
	if i%8 == 0 {
		pr := "lf"
		if r.Chance(30) {
			pr = "mem"
		}
		return &c13Case{Kind: "gated", Provider: pr}
	}
	if i%8 == 2 {
		// a connection end whose hand-over to persistence races with fresh traffic (persistence gate)
		return &c13Case{Kind: "closerace", N: 1 + r.Intn(5), Topics: 1 + r.Intn(3)}
	}
	if i%8 == 4 {
		// a reconnect whose backlog load races with fresh traffic (persistence gate)
		return &c13Case{Kind: "loadrace", N: 2 + r.Intn(4), Topics: 1 + r.Intn(3), QoS: []int{r.Intn(2)}, SubVer: []int{4, 5}[r.Intn(2)]}
	}
	if i%8 == 6 {
		// slow subscribers: short streams (every read costs a millisecond)
		c := &c13Case{Kind: "stream", Slow: true, Pubs: 1 + r.Intn(2), Topics: 1 + r.Intn(2), Subs: 1 + r.Intn(2), N: 15 + r.Intn(25), QoS: [][]int{{0}, {1}, {2}, {0, 1, 2}}[r.Intn(4)], RM: []int{0, 1, 2}[r.Intn(3)], SubVer: []int{4, 5}[r.Intn(2)]}
		return c
	}
	c := &c13Case{Kind: "stream", Pubs: 1 + r.Intn(3), Topics: 1 + r.Intn(3), Subs: 1 + r.Intn(3)}
	c.N = 20 + r.Intn(60)
	if tier == "thorough" {
		c.N = 50 + r.Intn(450)
	}
	switch r.Intn(4) {
	case 0:
		c.QoS = []int{0}
	case 1:
		c.QoS = []int{1}
	case 2:
		c.QoS = []int{2}
	default:
		c.QoS = []int{r.Intn(3), r.Intn(3), r.Intn(3)}
	}
	c.RM = []int{1, 2, 0}[r.Intn(3)]
	if r.Chance(35) {
		c.Big = 2 + r.Intn(6)
	}
	c.SubVer = 5
	if c.RM == 0 && r.Bool() {
		c.SubVer = 4
	}
	return c
}

func (p *c13Prop) Decode(raw json.RawMessage) (interface{}, error) {
	c := &c13Case{}
	return c, json.Unmarshal(raw, c)
}

type gateStub struct {
	mu    sync.Mutex
	order []int
	seen2 chan struct{}
}

func (g *gateStub) Hash() uintptr { return uintptr(unsafe.Pointer(g)) }
func (g *gateStub) Publish(m *mqttp.Publish, _ mqttp.QosType, _ mqttp.SubscriptionOptions, _ []uint32) error {
	seq := int(m.Payload()[0])
	if seq == 1 {
		select {
		case <-g.seen2:
		case <-time.After(300 * time.Millisecond):
		}
	}
	g.mu.Lock()
	g.order = append(g.order, seq)
	if seq == 2 {
		close(g.seen2)
	}
	g.mu.Unlock()
	return nil
}

func newProvider(kind string) (topicsTypes.Provider, error) {
	m := metrics.New()
	cfg := topicsTypes.NewMemConfig()
	cfg.MetricsPackets = m.Packets()
	cfg.MetricsSubs = m.Subs()
	if kind == "mem" {
		return mem.NewMemProvider(cfg)
	}
	return memlockfree.NewMemProvider(cfg)
}

func (p *c13Prop) runGated(c *c13Case) interface{} {
	obs := &c13Obs{Expected: 2}
	prov, err := newProvider(c.Provider)
	if err != nil {
		obs.Err = err.Error()
		return obs
	}
	defer prov.Shutdown()
	g := &gateStub{seen2: make(chan struct{})}
	resp := prov.Subscribe(topicsTypes.SubscribeReq{Filter: "t", S: g, Params: vlsubscriber.SubscriptionParams{Ops: mqttp.SubscriptionOptions(0)}})
	if resp.Err != nil {
		obs.Err = resp.Err.Error()
		return obs
	}
	for seq := 1; seq <= 2; seq++ {
		m := mqttp.NewPublish(mqttp.ProtocolV311)
		_ = m.Set("t", []byte{byte(seq)}, mqttp.QoS0, false, false)
		m.SetPublishID(7)
		_ = prov.Publish(m)
	}
	deadline := time.Now().Add(5 * time.Second)
	for time.Now().Before(deadline) {
		g.mu.Lock()
		n := len(g.order)
		g.mu.Unlock()
		if n == 2 {
			break
		}
		time.Sleep(5 * time.Millisecond)
	}
	g.mu.Lock()
	for _, s := range g.order {
		obs.Arr = append(obs.Arr, [5]int{0, 0, 0, 0, s})
	}
	obs.Got = len(g.order)
	g.mu.Unlock()
	return obs
}

func (p *c13Prop) Run(ci interface{}) interface{} {
	c := ci.(*c13Case)
	if c.Kind == "gated" {
		return p.runGated(c)
	}
	if c.Kind == "closerace" {
		return p.runCloseRace(c)
	}
	if c.Kind == "loadrace" {
		return p.runLoadRace(c)
	}
	obs := &c13Obs{}
	b, err := NewBroker(BrokerOpts{})
	if err != nil {
		obs.Err = err.Error()
		return obs
	}
	defer b.Close(10 * time.Second)
	subs := make([]*Auto, c.Subs)
	for s := range subs {
		cl := b.Dial()
		if c.Slow {
			cl = b.DialCap(64)
		}
		ver := mqttp.ProtocolV311
		if c.SubVer == 5 {
			ver = mqttp.ProtocolV50
		}
		if _, err := cl.Connect(ConnectOpts{ID: fmt.Sprintf("sub%d", s), Ver: ver, Clean: true, RecvMax: uint16(c.RM)}); err != nil {
			obs.Err = "sub connect: " + err.Error()
			return obs
		}
		if c.Slow {
			cl.conn.(*bufConn).SetReadPause(time.Millisecond)
		}
		a := cl.Auto(false)
		subs[s] = a
		_ = a.SendL(mkSubscribe(ver, 1, []string{"t/#"}, []byte{2}))
		if !a.WaitFor(5*time.Second, func() bool { return len(a.Others) >= 1 }) {
			obs.Err = "no suback"
			return obs
		}
	}
	var wg sync.WaitGroup
	for pi := 0; pi < c.Pubs; pi++ {
		wg.Add(1)
		go func(pi int) {
			defer wg.Done()
			cl := b.Dial()
			if _, err := cl.Connect(ConnectOpts{ID: fmt.Sprintf("pub%d", pi), Ver: mqttp.ProtocolV311, Clean: true}); err != nil {
				return
			}
			a := cl.Auto(false)
			seq := make([]int, c.Topics*3)
			for k := 0; k < c.N; k++ {
				t := k % c.Topics
				q := c.QoS[k%len(c.QoS)]
				if len(c.QoS) > 1 {
					q = c.QoS[(k/c.Topics)%len(c.QoS)]
				}
				seq[t*3+q]++
				payload := []byte{byte(pi), byte(t), byte(q), byte(seq[t*3+q] >> 8), byte(seq[t*3+q])}
				if c.Big > 0 && k%c.Big == c.Big-1 {
					payload = append(payload, make([]byte, 4995)...)
				}
				_ = a.SendL(mkPublish(mqttp.ProtocolV311, fmt.Sprintf("t/%d", t), payload, byte(q), false, uint16(k%60000+1)))
			}
			// keep the connection until the subscribers are done
			time.Sleep(10 * time.Millisecond)
		}(pi)
	}
	wg.Wait()
	obs.Expected = c.Pubs * c.N * c.Subs
	for si, a := range subs {
		a.WaitFor(8*time.Second, func() bool { return len(a.Pubs) >= c.Pubs*c.N })
		a.mu.Lock()
		for _, m := range a.Pubs {
			pl := m.Payload()
			if len(pl) == 5 || len(pl) == 5000 {
				obs.Arr = append(obs.Arr, [5]int{si, int(pl[0]), int(pl[1]), int(pl[2]), int(pl[3])<<8 | int(pl[4])})
			}
		}
		obs.Got += len(a.Pubs)
		a.mu.Unlock()
	}
	return obs
}

// closerace: a durable subscriber S (v5, Receive Maximum 1) holds one unacknowledged QoS 2 message, so the QoS 1
// messages 1..N of the same publisher and topic wait in its queue. S's connection ends; while the broker hands the
// queue to persistence (PacketsStore is held open by the harness: a slow backend) the publisher sends N+1..N+K.
// S reconnects with a large Receive Maximum: the first transmissions of the QoS 1 stream must arrive as 1..N+K.
func (p *c13Prop) runCloseRace(c *c13Case) interface{} {
	obs := &c13Obs{}
	mp, err := persistenceMem.Load(nil, nil)
	if err != nil {
		obs.Err = err.Error()
		return obs
	}
	gate := newPersistGate(mp)
	defer gate.Release()
	b, err := NewBroker(BrokerOpts{Persist: gate})
	if err != nil {
		obs.Err = err.Error()
		return obs
	}
	defer b.Drop()
	forever := uint32(0xFFFFFFFF)
	connectS := func(rm int) (*Auto, error) {
		cl := b.Dial()
		if _, err := cl.Connect(ConnectOpts{ID: "S", Ver: mqttp.ProtocolV50, Clean: false, Expiry: &forever, RecvMax: uint16(rm)}); err != nil {
			return nil, err
		}
		return cl.Auto(true), nil
	}
	s, err := connectS(1)
	if err != nil {
		obs.Err = "S: " + err.Error()
		return obs
	}
	_ = s.SendL(mkSubscribe(mqttp.ProtocolV50, 1, []string{"t/#"}, []byte{2}))
	if !s.WaitFor(5*time.Second, func() bool { return len(s.Others) >= 1 }) {
		obs.Err = "no suback"
		return obs
	}
	wc := b.Dial()
	if _, err := wc.Connect(ConnectOpts{ID: "W", Ver: mqttp.ProtocolV311, Clean: true}); err != nil {
		obs.Err = "W: " + err.Error()
		return obs
	}
	w := wc.Auto(false)
	_ = w.SendL(mkSubscribe(mqttp.ProtocolV311, 1, []string{"w"}, []byte{0}))
	if !w.WaitFor(5*time.Second, func() bool { return len(w.Others) >= 1 }) {
		obs.Err = "W: no suback"
		return obs
	}
	pc := b.Dial()
	if _, err := pc.Connect(ConnectOpts{ID: "pub0", Ver: mqttp.ProtocolV311, Clean: true}); err != nil {
		obs.Err = "P: " + err.Error()
		return obs
	}
	pa := pc.Auto(false)
	wSeen := 0
	routed := func() bool {
		// QoS 2 publishes are routed at PUBREL: wait for every handshake, then a sentinel through the same worker
		pa.WaitFor(5*time.Second, func() bool { return true })
		_ = pa.SendL(mkPublish(mqttp.ProtocolV311, "w", []byte{1}, 0, false, 0))
		wSeen++
		return w.WaitFor(5*time.Second, func() bool { return len(w.Pubs) >= wSeen })
	}
	pid := uint16(0)
	send := func(q, seq int) {
		pid++
		_ = pa.SendL(mkPublish(mqttp.ProtocolV311, "t/0", []byte{0, 0, byte(q), byte(seq >> 8), byte(seq)}, byte(q), false, pid))
	}
	comps := pa.CountOthers(mqttp.PUBCOMP)
	send(2, 1)
	if !pa.WaitFor(5*time.Second, func() bool {
		n := 0
		for _, o := range pa.Others {
			if o.Type() == mqttp.PUBCOMP {
				n++
			}
		}
		return n > comps
	}) || !routed() || !s.WaitFor(5*time.Second, func() bool { return len(s.Pubs) >= 1 }) {
		obs.Err = "the blocking QoS 2 message did not arrive"
		return obs
	}
	n, k := c.N, c.Topics
	for i := 1; i <= n; i++ {
		send(1, i)
	}
	if !routed() {
		obs.Err = "routing barrier"
		return obs
	}
	d0 := b.Met.Disconnected()
	gate.ArmBulk("S")
	s.Close()
	entered := gate.WaitEntered(5 * time.Second)
	for i := n + 1; i <= n+k; i++ {
		send(1, i)
	}
	// they are routed now: persisted at once, or held until the hand-over is through (then a routing barrier
	// would wait for the gate as well)
	time.Sleep(100 * time.Millisecond)
	gate.Release()
	ok := routed()
	if !entered || !ok {
		obs.Err = "close was not processed / routing barrier"
		return obs
	}
	deadline := time.Now().Add(5 * time.Second)
	for time.Now().Before(deadline) && b.Met.Disconnected() == d0 {
		time.Sleep(time.Millisecond)
	}
	time.Sleep(20 * time.Millisecond)
	s2, err := connectS(1000)
	if err != nil {
		obs.Err = "reconnect: " + err.Error()
		return obs
	}
	obs.Expected = n + k
	s2.WaitFor(5*time.Second, func() bool { return len(s2.Pubs) >= n+k+1 })
	s2.mu.Lock()
	for _, m := range s2.Pubs {
		pl := m.Payload()
		if len(pl) == 5 && !m.Dup() && pl[2] == 1 {
			obs.Arr = append(obs.Arr, [5]int{0, int(pl[0]), int(pl[1]), int(pl[2]), int(pl[3])<<8 | int(pl[4])})
			obs.Got++
		}
	}
	s2.mu.Unlock()
	return obs
}

// loadrace: a durable subscriber S is offline while messages 1..N of one publisher and topic are persisted for it
// (QoS = QoS[0], 0 or 1). S reconnects; the harness holds the start-up load of that backlog (a slow backend) while
// the publisher sends N+1..N+K. On the new connection the stream must arrive as 1..N+K.
func (p *c13Prop) runLoadRace(c *c13Case) interface{} {
	obs := &c13Obs{}
	q := 0
	if len(c.QoS) > 0 {
		q = c.QoS[0]
	}
	mp, err := persistenceMem.Load(nil, nil)
	if err != nil {
		obs.Err = err.Error()
		return obs
	}
	gate := newPersistGate(mp)
	defer gate.Release()
	b, err := NewBroker(BrokerOpts{Persist: gate})
	if err != nil {
		obs.Err = err.Error()
		return obs
	}
	defer b.Drop()
	ver := mqttp.ProtocolV311
	if c.SubVer == 5 {
		ver = mqttp.ProtocolV50
	}
	forever := uint32(0xFFFFFFFF)
	connectS := func() (*Auto, error) {
		cl := b.Dial()
		o := ConnectOpts{ID: "S", Ver: ver, Clean: false}
		if ver == mqttp.ProtocolV50 {
			o.Expiry = &forever
		}
		if _, err := cl.Connect(o); err != nil {
			return nil, err
		}
		return cl.Auto(false), nil
	}
	s, err := connectS()
	if err != nil {
		obs.Err = "S: " + err.Error()
		return obs
	}
	_ = s.SendL(mkSubscribe(ver, 1, []string{"t/#"}, []byte{byte(q)}))
	if !s.WaitFor(5*time.Second, func() bool { return len(s.Others) >= 1 }) {
		obs.Err = "no suback"
		return obs
	}
	wc := b.Dial()
	if _, err := wc.Connect(ConnectOpts{ID: "W", Ver: mqttp.ProtocolV311, Clean: true}); err != nil {
		obs.Err = "W: " + err.Error()
		return obs
	}
	w := wc.Auto(false)
	_ = w.SendL(mkSubscribe(mqttp.ProtocolV311, 1, []string{"w"}, []byte{0}))
	if !w.WaitFor(5*time.Second, func() bool { return len(w.Others) >= 1 }) {
		obs.Err = "W: no suback"
		return obs
	}
	pc := b.Dial()
	if _, err := pc.Connect(ConnectOpts{ID: "pub0", Ver: mqttp.ProtocolV311, Clean: true}); err != nil {
		obs.Err = "P: " + err.Error()
		return obs
	}
	pa := pc.Auto(false)
	d0 := b.Met.Disconnected()
	s.Close()
	deadline := time.Now().Add(5 * time.Second)
	for time.Now().Before(deadline) && b.Met.Disconnected() == d0 {
		time.Sleep(time.Millisecond)
	}
	time.Sleep(20 * time.Millisecond)
	pid := uint16(0)
	send := func(seq int) {
		pid++
		_ = pa.SendL(mkPublish(mqttp.ProtocolV311, "t/0", []byte{0, 0, byte(q), byte(seq >> 8), byte(seq)}, byte(q), false, pid))
	}
	n, k := c.N, c.Topics
	for i := 1; i <= n; i++ {
		send(i)
	}
	_ = pa.SendL(mkPublish(mqttp.ProtocolV311, "w", []byte{1}, 0, false, 0))
	if !w.WaitFor(5*time.Second, func() bool { return len(w.Pubs) >= 1 }) {
		obs.Err = "routing barrier"
		return obs
	}
	gate.ArmLoad("S", q > 0)
	type cres struct {
		a   *Auto
		err error
	}
	done := make(chan cres, 1)
	go func() { a, err := connectS(); done <- cres{a, err} }()
	entered := gate.WaitEntered(3 * time.Second)
	for i := n + 1; i <= n+k; i++ {
		send(i)
	}
	time.Sleep(100 * time.Millisecond) // they are routed: queued behind the backlog, or held until it is loaded
	gate.Release()
	var cr cres
	select {
	case cr = <-done:
	case <-time.After(6 * time.Second):
		cr.err = fmt.Errorf("no CONNACK")
	}
	if cr.err != nil || !entered {
		obs.Err = fmt.Sprintf("reconnect: %v (load reached: %v)", cr.err, entered)
		return obs
	}
	s2 := cr.a
	obs.Expected = n + k
	s2.WaitFor(5*time.Second, func() bool { return len(s2.Pubs) >= n+k })
	s2.mu.Lock()
	for _, m := range s2.Pubs {
		pl := m.Payload()
		if len(pl) == 5 && !m.Dup() {
			obs.Arr = append(obs.Arr, [5]int{0, int(pl[0]), int(pl[1]), int(pl[2]), int(pl[3])<<8 | int(pl[4])})
			obs.Got++
		}
	}
	s2.mu.Unlock()
	return obs
}

func (p *c13Prop) Suspect(oi interface{}) bool {
	o := oi.(*c13Obs)
	return o.Got < o.Expected
}

func (p *c13Prop) Coq(ci interface{}, oi interface{}) string {
	o := oi.(*c13Obs)
	it := make([]string, len(o.Arr))
	for i, a := range o.Arr {
		// key = (sub, pub, topic, qos) packed; seq
		key := uint64(a[0])<<24 | uint64(a[1])<<16 | uint64(a[2])<<8 | uint64(a[3])
		it[i] = fmt.Sprintf("(%s, %s)", cN(key), cN(uint64(a[4])))
	}
	return fmt.Sprintf("(mkCase %s %s %s)", cList(it), cNat(o.Expected), cBool(o.Err == ""))
}

func (p *c13Prop) Class(ci interface{}, oi interface{}) (string, bool) {
	c := ci.(*c13Case)
	if c.Kind == "gated" {
		return "gated-" + c.Provider, true
	}
	if c.Kind == "closerace" {
		return "closerace", true
	}
	if c.Kind == "loadrace" {
		return "loadrace", true
	}
	if c.Slow {
		return fmt.Sprintf("stream-slow-readers-rm%d", c.RM), true
	}
	return fmt.Sprintf("stream-p%d-t%d-s%d-rm%d", c.Pubs, c.Topics, c.Subs, c.RM), c.N > 1
}
