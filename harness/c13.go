package main

import (
	"encoding/json"
	"fmt"
	"sync"
	"time"
	"unsafe"

	"github.com/VolantMQ/vlapi/mqttp"
	"github.com/VolantMQ/vlapi/vlsubscriber"

	"github.com/VolantMQ/volantmq/metrics"
	"github.com/VolantMQ/volantmq/topics/mem"
	"github.com/VolantMQ/volantmq/topics/memlockfree"
	topicsTypes "github.com/VolantMQ/volantmq/topics/types"
)

// C13: (a) "stream": sequence-numbered streams from 1-3 publishers to 1-3 topics through
// clients.Manager to 1-3 subscribers; arrival order per (subscriber, publisher, topic, qos);
// (b) "gated": the two-worker witness of refute/C13.v replayed on the provider with a stub whose
// Publish holds the first message until the second one arrives (or 300 ms pass).

type c13Case struct {
	Kind     string `json:"kind"`
	Provider string `json:"provider,omitempty"` // gated: "lf" | "mem"
	Pubs     int    `json:"pubs,omitempty"`
	Topics   int    `json:"topics,omitempty"`
	Subs     int    `json:"subs,omitempty"`
	N        int    `json:"n,omitempty"`
	QoS      []int  `json:"qos,omitempty"` // per message index: qos of message k is QoS[k % len]
	RM       int    `json:"rm,omitempty"`
	SubVer   int    `json:"subver,omitempty"`
}

type c13Arr struct {
	Sub, Pub, Topic, QoS, Seq int
}

type c13Obs struct {
	Arr      [][5]int `json:"arr"`
	Expected int      `json:"expected"`
	Got      int      `json:"got"`
	Err      string   `json:"err,omitempty"`
}

type c13Prop struct{}

func init() { props["C13"] = &c13Prop{} }

func (p *c13Prop) ID() string { return "C13" }
func (p *c13Prop) Header() string {
	return "From Coq Require Import List NArith.\nImport ListNotations.\nFrom VMQ Require Import chk.C13chk.\n"
}
func (p *c13Prop) Parallel() int { return 6 }

func (p *c13Prop) Gen(r *Rng, i int, tier string) interface{} {
	if i%8 == 0 {
		pr := "lf"
		if r.Chance(30) {
			pr = "mem"
		}
		return &c13Case{Kind: "gated", Provider: pr}
	}
	c := &c13Case{Kind: "stream", Pubs: 1 + r.Intn(3), Topics: 1 + r.Intn(3), Subs: 1 + r.Intn(3)}
	c.N = 20 + r.Intn(60)
	if tier == "thorough" {
		c.N = 50 + r.Intn(450)
	}
	switch r.Intn(4) {
	case 0:
		c.QoS = []int{0}
	case 1:
		c.QoS = []int{1}
	case 2:
		c.QoS = []int{2}
	default:
		c.QoS = []int{r.Intn(3), r.Intn(3), r.Intn(3)}
	}
	c.RM = []int{1, 2, 0}[r.Intn(3)]
	c.SubVer = 5
	if c.RM == 0 && r.Bool() {
		c.SubVer = 4
	}
	return c
}

func (p *c13Prop) Decode(raw json.RawMessage) (interface{}, error) {
	c := &c13Case{}
	return c, json.Unmarshal(raw, c)
}

type gateStub struct {
	mu    sync.Mutex
	order []int
	seen2 chan struct{}
}

func (g *gateStub) Hash() uintptr { return uintptr(unsafe.Pointer(g)) }
func (g *gateStub) Publish(m *mqttp.Publish, _ mqttp.QosType, _ mqttp.SubscriptionOptions, _ []uint32) error {
	seq := int(m.Payload()[0])
	if seq == 1 {
		select {
		case <-g.seen2:
		case <-time.After(300 * time.Millisecond):
		}
	}
	g.mu.Lock()
	g.order = append(g.order, seq)
	if seq == 2 {
		close(g.seen2)
	}
	g.mu.Unlock()
	return nil
}

func newProvider(kind string) (topicsTypes.Provider, error) {
	m := metrics.New()
	cfg := topicsTypes.NewMemConfig()
	cfg.MetricsPackets = m.Packets()
	cfg.MetricsSubs = m.Subs()
	if kind == "mem" {
		return mem.NewMemProvider(cfg)
	}
	return memlockfree.NewMemProvider(cfg)
}

func (p *c13Prop) runGated(c *c13Case) interface{} {
	obs := &c13Obs{Expected: 2}
	prov, err := newProvider(c.Provider)
	if err != nil {
		obs.Err = err.Error()
		return obs
	}
	defer prov.Shutdown()
	g := &gateStub{seen2: make(chan struct{})}
	resp := prov.Subscribe(topicsTypes.SubscribeReq{Filter: "t", S: g, Params: vlsubscriber.SubscriptionParams{Ops: mqttp.SubscriptionOptions(0)}})
	if resp.Err != nil {
		obs.Err = resp.Err.Error()
		return obs
	}
	for seq := 1; seq <= 2; seq++ {
		m := mqttp.NewPublish(mqttp.ProtocolV311)
		_ = m.Set("t", []byte{byte(seq)}, mqttp.QoS0, false, false)
		m.SetPublishID(7)
		_ = prov.Publish(m)
	}
	deadline := time.Now().Add(5 * time.Second)
	for time.Now().Before(deadline) {
		g.mu.Lock()
		n := len(g.order)
		g.mu.Unlock()
		if n == 2 {
			break
		}
		time.Sleep(5 * time.Millisecond)
	}
	g.mu.Lock()
	for _, s := range g.order {
		obs.Arr = append(obs.Arr, [5]int{0, 0, 0, 0, s})
	}
	obs.Got = len(g.order)
	g.mu.Unlock()
	return obs
}

func (p *c13Prop) Run(ci interface{}) interface{} {
	c := ci.(*c13Case)
	if c.Kind == "gated" {
		return p.runGated(c)
	}
	obs := &c13Obs{}
	b, err := NewBroker(BrokerOpts{})
	if err != nil {
		obs.Err = err.Error()
		return obs
	}
	defer b.Close(10 * time.Second)
	subs := make([]*Auto, c.Subs)
	for s := range subs {
		cl := b.Dial()
		ver := mqttp.ProtocolV311
		if c.SubVer == 5 {
			ver = mqttp.ProtocolV50
		}
		if _, err := cl.Connect(ConnectOpts{ID: fmt.Sprintf("sub%d", s), Ver: ver, Clean: true, RecvMax: uint16(c.RM)}); err != nil {
			obs.Err = "sub connect: " + err.Error()
			return obs
		}
		a := cl.Auto(false)
		subs[s] = a
		_ = a.SendL(mkSubscribe(ver, 1, []string{"t/#"}, []byte{2}))
		if !a.WaitFor(5*time.Second, func() bool { return len(a.Others) >= 1 }) {
			obs.Err = "no suback"
			return obs
		}
	}
	var wg sync.WaitGroup
	for pi := 0; pi < c.Pubs; pi++ {
		wg.Add(1)
		go func(pi int) {
			defer wg.Done()
			cl := b.Dial()
			if _, err := cl.Connect(ConnectOpts{ID: fmt.Sprintf("pub%d", pi), Ver: mqttp.ProtocolV311, Clean: true}); err != nil {
				return
			}
			a := cl.Auto(false)
			seq := make([]int, c.Topics*3)
			for k := 0; k < c.N; k++ {
				t := k % c.Topics
				q := c.QoS[k%len(c.QoS)]
				if len(c.QoS) > 1 {
					q = c.QoS[(k/c.Topics)%len(c.QoS)]
				}
				seq[t*3+q]++
				payload := []byte{byte(pi), byte(t), byte(q), byte(seq[t*3+q] >> 8), byte(seq[t*3+q])}
				_ = a.SendL(mkPublish(mqttp.ProtocolV311, fmt.Sprintf("t/%d", t), payload, byte(q), false, uint16(k%60000+1)))
			}
			// keep the connection until the subscribers are done
			time.Sleep(10 * time.Millisecond)
		}(pi)
	}
	wg.Wait()
	obs.Expected = c.Pubs * c.N * c.Subs
	for si, a := range subs {
		a.WaitFor(8*time.Second, func() bool { return len(a.Pubs) >= c.Pubs*c.N })
		a.mu.Lock()
		for _, m := range a.Pubs {
			pl := m.Payload()
			if len(pl) == 5 {
				obs.Arr = append(obs.Arr, [5]int{si, int(pl[0]), int(pl[1]), int(pl[2]), int(pl[3])<<8 | int(pl[4])})
			}
		}
		obs.Got += len(a.Pubs)
		a.mu.Unlock()
	}
	return obs
}

func (p *c13Prop) Suspect(oi interface{}) bool {
	o := oi.(*c13Obs)
	return o.Got < o.Expected
}

func (p *c13Prop) Coq(ci interface{}, oi interface{}) string {
	o := oi.(*c13Obs)
	it := make([]string, len(o.Arr))
	for i, a := range o.Arr {
		// key = (sub, pub, topic, qos) packed; seq
		key := uint64(a[0])<<24 | uint64(a[1])<<16 | uint64(a[2])<<8 | uint64(a[3])
		it[i] = fmt.Sprintf("(%s, %s)", cN(key), cN(uint64(a[4])))
	}
	return fmt.Sprintf("(mkCase %s %s %s)", cList(it), cNat(o.Expected), cBool(o.Err == ""))
}

func (p *c13Prop) Class(ci interface{}, oi interface{}) (string, bool) {
	c := ci.(*c13Case)
	if c.Kind == "gated" {
		return "gated-" + c.Provider, true
	}
	return fmt.Sprintf("stream-p%d-t%d-s%d-rm%d", c.Pubs, c.Topics, c.Subs, c.RM), c.N > 1
}
