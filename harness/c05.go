package main

// generators for the session-manager properties

// a client id keeps its protocol version within a history (known finding C05-version-change-loses-queue:
// messages persisted for a session are encoded in the protocol version of the connection that was open
// then and cannot be decoded after a reconnect with another version)
func genConnect(r *Rng, id int, wills bool, v5mask int) sessOp {
	op := sessOp{Op: "connect", ID: id, V5: v5mask&(1<<uint(id)) != 0, Clean: r.Chance(30), Expiry: -1, WillDelay: -2}
	if op.V5 {
		op.Expiry = []int64{-1, 0, 1, 2, 4294967295}[r.Intn(5)]
	}
	if wills && r.Chance(50) {
		op.WillDelay = -1
		if op.V5 {
			op.WillDelay = []int{-1, 0, 1, 2}[r.Intn(4)]
		}
	}
	return op
}

func init() {
	// C05: session state persistence / Session Present
	props["C05"] = &sessProp{id: "C05", gen: func(r *Rng, i int, tier string) *sessCase {
		c := &sessCase{Preempt: true}
		if i%30 == 6 {
			doubleRestart(r, c)
			return c
		}
		if i%30 == 18 {
			resumeOutlivesRestoredExpiry(r, c)
			return c
		}
		v5mask := r.Intn(4) // which client ids speak MQTT 5 in this history
		timed := i%8 == 7
		n := 4 + r.Intn(9)
		connected := map[int]bool{}
		canSetExpiry := map[int]bool{} // DISCONNECT may carry an expiry only if CONNECT carried a non-zero one (else: protocol error by the client)
		if i%16 == 15 {
			v5mask |= 1
			takeoverThenWait(r, c, 0)
			for k := len(c.Ops) - 1; k >= 0; k-- {
				if c.Ops[k].ID == 0 && (c.Ops[k].Op == "connect" || c.Ops[k].Op == "disc") {
					connected[0] = c.Ops[k].Op == "connect"
					break
				}
			}
			canSetExpiry[0] = true
		}
		for k := 0; k < n; k++ {
			id := r.Intn(2)
			x := r.Intn(100)
			switch {
			case !connected[id] && x < 60:
				op := genConnect(r, id, false, v5mask)
				c.Ops = append(c.Ops, op)
				connected[id] = true
				canSetExpiry[id] = op.V5 && op.Expiry > 0
			case connected[id] && x < 21:
				if r.Chance(25) {
					c.Ops = append(c.Ops, sessOp{Op: "unsub", ID: id, T: r.Intn(2)})
				} else {
					c.Ops = append(c.Ops, sessOp{Op: "sub", ID: id, T: r.Intn(2), NL: r.Chance(40)})
				}
			case connected[id] && x < 25:
				c.Ops = append(c.Ops, sessOp{Op: "selfpub", ID: id, T: r.Intn(2)})
			case x < 50:
				c.Ops = append(c.Ops, sessOp{Op: "pub", T: r.Intn(2)})
			case connected[id] && x < 70:
				op := sessOp{Op: "disc", ID: id, Expiry: -1}
				if r.Chance(30) && canSetExpiry[id] {
					op.Expiry = []int64{0, 1, 2}[r.Intn(3)]
				}
				c.Ops = append(c.Ops, op)
				connected[id] = false
			case connected[id] && x < 85:
				c.Ops = append(c.Ops, sessOp{Op: "drop", ID: id})
				connected[id] = false
			case timed && x < 95:
				c.Ops = append(c.Ops, sessOp{Op: "wait", Ms: []int{1500, 2500}[r.Intn(2)]})
			default:
				c.Ops = append(c.Ops, sessOp{Op: "pub", T: r.Intn(2)})
			}
		}
		return c
	}}
}

func init() {
	// C11: will messages
	props["C11"] = &sessProp{id: "C11", gen: func(r *Rng, i int, tier string) *sessCase {
		if i%30 == 21 {
			// a client that has stopped reading: the broker's writer is blocked when the connection has to end
			return &sessCase{Stalled: 3}
		}
		if i%30 == 3 {
			// a DISCONNECT that is itself a protocol error does not suppress the Will
			return &sessCase{Stalled: 9}
		}
		if i%30 == 9 || i%30 == 19 || i%30 == 27 {
			// a Will with RETAIN=1, published at connection end / by the delay timer / at start-up
			return &sessCase{Stalled: 6 + (i%30)/10}
		}
		c := &sessCase{Preempt: true}
		if i%10 == 6 {
			restartWithPendingWill(r, c)
			return c
		}
		v5mask := r.Intn(4) // which client ids speak MQTT 5 in this history
		n := 3 + r.Intn(8)
		connected := map[int]bool{}
		canSetExpiry := map[int]bool{}
		for k := 0; k < n; k++ {
			id := r.Intn(2)
			x := r.Intn(100)
			switch {
			case !connected[id] || x < 12: // (re)connect, or take the session over while it is connected
				op := genConnect(r, id, true, v5mask)
				if r.Chance(70) {
					op.WillDelay = -1
					if op.V5 {
						op.WillDelay = []int{-1, 0, 1, 2}[r.Intn(4)]
					}
				}
				c.Ops = append(c.Ops, op)
				connected[id] = true
				canSetExpiry[id] = op.V5 && op.Expiry > 0
			case x < 30:
				op := sessOp{Op: "disc", ID: id, Expiry: -1, WithWill: r.Chance(35)}
				if r.Chance(20) && canSetExpiry[id] {
					op.Expiry = []int64{0, 1, 2}[r.Intn(3)]
				}
				c.Ops = append(c.Ops, op)
				connected[id] = false
			case x < 55:
				c.Ops = append(c.Ops, sessOp{Op: "drop", ID: id})
				connected[id] = false
			case x < 65:
				c.Ops = append(c.Ops, sessOp{Op: "proto", ID: id})
				connected[id] = false
			case x < 90:
				c.Ops = append(c.Ops, sessOp{Op: "wait", Ms: []int{600, 1500, 2500}[r.Intn(3)]})
			default:
				c.Ops = append(c.Ops, sessOp{Op: "pub", T: r.Intn(2)})
			}
		}
		c.Ops = append(c.Ops, sessOp{Op: "wait", Ms: 2500})
		return c
	}}
}

// a v5 session whose connection ends abnormally with a delayed will and a session expiry pending, then the broker is
// stopped and restarted after none / one / both of the two intervals have elapsed (the will is due exactly once)
func restartWithPendingWill(r *Rng, c *sessCase) {
	exp := int64(1 + r.Intn(2))
	delay := 1 + r.Intn(2)
	c.Ops = append(c.Ops, sessOp{Op: "connect", ID: 0, V5: true, Expiry: exp, WillDelay: delay})
	if r.Chance(50) {
		c.Ops = append(c.Ops, sessOp{Op: "sub", ID: 0, T: 0})
	}
	c.Ops = append(c.Ops, sessOp{Op: "drop", ID: 0}, sessOp{Op: "stop"})
	c.Ops = append(c.Ops, sessOp{Op: "wait", Ms: []int{400, 1500, 2600, 3300}[r.Intn(4)]})
	c.Ops = append(c.Ops, sessOp{Op: "restart"}, sessOp{Op: "wait", Ms: 400}, sessOp{Op: "pub", T: 0}, sessOp{Op: "wait", Ms: 2500})
}

// an offline v5 session with a session expiry that is far away lives through TWO graceful restarts without a reconnect
// in between: what the first start-up restored must be persisted again, unchanged, by the second shutdown
func doubleRestart(r *Rng, c *sessCase) {
	c.Ops = append(c.Ops, sessOp{Op: "connect", ID: 0, V5: true, Expiry: 4294967295, WillDelay: -2}, sessOp{Op: "sub", ID: 0, T: r.Intn(2)})
	if r.Bool() {
		c.Ops = append(c.Ops, sessOp{Op: "drop", ID: 0})
	} else {
		c.Ops = append(c.Ops, sessOp{Op: "disc", ID: 0, Expiry: -1})
	}
	c.Ops = append(c.Ops, sessOp{Op: "pub", T: 0}, sessOp{Op: "stop"}, sessOp{Op: "restart"})
	if r.Bool() {
		c.Ops = append(c.Ops, sessOp{Op: "pub", T: 1})
	}
	c.Ops = append(c.Ops, sessOp{Op: "stop"}, sessOp{Op: "restart"}, sessOp{Op: "pub", T: 0}, sessOp{Op: "pub", T: 1},
		sessOp{Op: "connect", ID: 0, V5: true, Expiry: 4294967295, WillDelay: -2}, sessOp{Op: "pub", T: 0})
}

// a v5 session with subscriptions and a SHORT session expiry is offline across a restart and comes back before the
// expiry is due: the timer restored at start-up must be cancelled by the resume - when its time passes the session is
// live, keeps receiving, and the next CONNECT finds it
func resumeOutlivesRestoredExpiry(r *Rng, c *sessCase) {
	c.Ops = append(c.Ops, sessOp{Op: "connect", ID: 0, V5: true, Expiry: 2, WillDelay: -2}, sessOp{Op: "sub", ID: 0, T: 0},
		sessOp{Op: "drop", ID: 0}, sessOp{Op: "stop"}, sessOp{Op: "restart"},
		sessOp{Op: "connect", ID: 0, V5: true, Expiry: 2, WillDelay: -2}, sessOp{Op: "wait", Ms: 2600}, sessOp{Op: "pub", T: 0},
		sessOp{Op: "connect", ID: 0, V5: true, Expiry: 2, WillDelay: -2}, sessOp{Op: "pub", T: 0})
}

func genPopulation(r *Rng, c *sessCase, v5mask int, wills bool, timed bool) {
	connected := map[int]bool{}
	canSetExpiry := map[int]bool{}
	n := 3 + r.Intn(8)
	for k := 0; k < n; k++ {
		id := r.Intn(2)
		x := r.Intn(100)
		switch {
		case !connected[id] && x < 65:
			op := genConnect(r, id, wills, v5mask)
			c.Ops = append(c.Ops, op)
			connected[id] = true
			canSetExpiry[id] = op.V5 && op.Expiry > 0
		case connected[id] && x < 30:
			if r.Chance(25) {
				c.Ops = append(c.Ops, sessOp{Op: "unsub", ID: id, T: r.Intn(2)})
			} else {
				c.Ops = append(c.Ops, sessOp{Op: "sub", ID: id, T: r.Intn(2), NL: r.Chance(40)})
			}
		case connected[id] && x < 35:
			c.Ops = append(c.Ops, sessOp{Op: "selfpub", ID: id, T: r.Intn(2)})
		case x < 47:
			c.Ops = append(c.Ops, sessOp{Op: "pub", T: r.Intn(2)})
		case x < 55:
			c.Ops = append(c.Ops, sessOp{Op: []string{"retain", "retain", "unretain"}[r.Intn(3)], T: r.Intn(4), V5: r.Chance(50)})
		case connected[id] && x < 70:
			op := sessOp{Op: "disc", ID: id, Expiry: -1, WithWill: r.Chance(30)}
			if r.Chance(25) && canSetExpiry[id] {
				op.Expiry = []int64{0, 1, 2}[r.Intn(3)]
			}
			c.Ops = append(c.Ops, op)
			connected[id] = false
		case connected[id] && x < 85:
			c.Ops = append(c.Ops, sessOp{Op: "drop", ID: id})
			connected[id] = false
		case timed && x < 95:
			c.Ops = append(c.Ops, sessOp{Op: "wait", Ms: []int{600, 1500, 2500}[r.Intn(3)]})
		default:
			c.Ops = append(c.Ops, sessOp{Op: "pub", T: r.Intn(2)})
		}
	}
}

func init() {
	// C20: shutdown over every kind of population
	props["C20"] = &sessProp{id: "C20", gen: func(r *Rng, i int, tier string) *sessCase {
		if i%30 == 14 {
			return &sessCase{Closing: true}
		}
		if i%30 == 21 {
			return &sessCase{Stalled: 2}
		}
		if i%60 == 37 {
			// shutdown with acknowledged messages still in the routing queue
			return &sessCase{Stalled: 11}
		}
		if i%30 == 7 {
			// what a shutdown hands to persistence is what the NEXT shutdown has to hand over again, unchanged, when the
			// session stays away: two shutdowns and restarts in a row
			c := &sessCase{Preempt: true}
			doubleRestart(r, c)
			return c
		}
		if i%30 == 29 {
			// the whole server: listeners, established connections and connections still in their handshake
			lc := &lisCase{}
			for k := 0; k < 2+r.Intn(4); k++ {
				lc.Conns = append(lc.Conns, r.Intn(4))
			}
			return &sessCase{Listener: lc}
		}
		c := &sessCase{Preempt: true}
		v5mask := r.Intn(4)
		genPopulation(r, c, v5mask, true, i%4 == 3)
		c.Ops = append(c.Ops, sessOp{Op: "stop"})
		return c
	}}
	// C16: graceful restart
	props["C16"] = &sessProp{id: "C16", gen: func(r *Rng, i int, tier string) *sessCase {
		c := &sessCase{Preempt: true}
		if i%10 == 6 {
			restartWithPendingWill(r, c)
			return c
		}
		if i%20 == 3 {
			doubleRestart(r, c)
			return c
		}
		if i%20 == 13 {
			resumeOutlivesRestoredExpiry(r, c)
			return c
		}
		v5mask := r.Intn(4)
		c.P31 = r.Chance(35)
		genPopulation(r, c, v5mask, i%3 == 2, i%5 == 4)
		c.Ops = append(c.Ops, sessOp{Op: "stop"})
		if i%5 == 4 && r.Chance(50) {
			// the broker is down while expiry intervals / will delays elapse
			c.Ops = append(c.Ops, sessOp{Op: "wait", Ms: []int{600, 1500, 2500}[r.Intn(3)]})
		}
		c.Ops = append(c.Ops, sessOp{Op: "restart"})
		// after the restart: publishes reach restored subscriptions, reconnects find their state
		cycles := 1
		for k := 0; k < 2+r.Intn(4); k++ {
			if cycles < 2 && r.Chance(15) {
				// a second shutdown / restart: what was removed after the first one must not come back
				c.Ops = append(c.Ops, sessOp{Op: "stop"}, sessOp{Op: "restart"})
				cycles++
			}
			switch r.Intn(4) {
			case 3:
				c.Ops = append(c.Ops, sessOp{Op: []string{"retain", "unretain", "unretain"}[r.Intn(3)], T: r.Intn(4), V5: r.Chance(50)})
			case 0:
				c.Ops = append(c.Ops, sessOp{Op: "pub", T: r.Intn(2)})
			case 1:
				op := genConnect(r, r.Intn(2), false, v5mask)
				op.Clean = r.Chance(15)
				c.Ops = append(c.Ops, op)
				if r.Chance(25) {
					// what was unsubscribed after one restart must not come back with the next one
					c.Ops = append(c.Ops, sessOp{Op: "unsub", ID: op.ID, T: 0}, sessOp{Op: "unsub", ID: op.ID, T: 1})
				} else if r.Chance(60) {
					c.Ops = append(c.Ops, sessOp{Op: "sub", ID: op.ID, T: r.Intn(4)})
				} else {
					// its restored subscriptions (No Local included) apply to its own publishes
					c.Ops = append(c.Ops, sessOp{Op: "selfpub", ID: op.ID, T: 0}, sessOp{Op: "selfpub", ID: op.ID, T: 1})
				}
			default:
				if i%5 == 4 {
					c.Ops = append(c.Ops, sessOp{Op: "wait", Ms: 1500})
				} else {
					c.Ops = append(c.Ops, sessOp{Op: "pub", T: r.Intn(2)})
				}
			}
		}
		return c
	}}
}

func init() {
	// C10: one live connection per client id; takeover / refusal; CONNECT always answered
	props["C10"] = &sessProp{id: "C10", gen: func(r *Rng, i int, tier string) *sessCase {
		if i%30 == 21 {
			// a client that has stopped reading: the broker's writer is blocked when the connection has to end
			return &sessCase{Stalled: 1}
		}
		if i%30 == 11 {
			// a slow reader with a backlog on its way is taken over: it must still be TOLD (a DISCONNECT it can decode)
			return &sessCase{Stalled: 4}
		}
		if i%30 == 17 {
			c := &sessCase{Preempt: true}
			resumeOutlivesRestoredExpiry(r, c)
			return c
		}
		if i%60 == 47 {
			// the reader of the connection that is taken over is busy when the take-over arrives
			return &sessCase{Stalled: 10}
		}
		c := &sessCase{Preempt: r.Chance(65)}
		v5mask := r.Intn(4)
		timed := i%4 == 3
		n := 4 + r.Intn(8)
		connected := map[int]bool{}
		canSetExpiry := map[int]bool{}
		ended := map[int]bool{}
		races := 0
		if timed && c.Preempt && i%8 == 7 {
			v5mask |= 1
			takeoverThenWait(r, c, 0)
			connected[0], ended[0], canSetExpiry[0] = true, false, true
			if last := c.Ops[len(c.Ops)-1]; last.Op == "pub" && c.Ops[len(c.Ops)-2].Op == "disc" {
				connected[0] = false
			}
			for k := len(c.Ops) - 1; k >= 0; k-- {
				if c.Ops[k].ID == 0 && (c.Ops[k].Op == "connect" || c.Ops[k].Op == "disc") {
					connected[0] = c.Ops[k].Op == "connect"
					break
				}
			}
		} else if timed {
			// a CONNECT aimed at the moment a will-delay / session-expiry timer of its identifier fires
			v5mask |= 1
			op := genConnect(r, 0, true, v5mask)
			op.Expiry = []int64{1, 2, 4294967295}[r.Intn(3)]
			op.WillDelay = []int{1, 2}[r.Intn(2)]
			c.Ops = append(c.Ops, op, sessOp{Op: "sub", ID: 0, T: 0})
			if r.Chance(50) {
				c.Ops = append(c.Ops, sessOp{Op: "drop", ID: 0})
			} else {
				c.Ops = append(c.Ops, sessOp{Op: "disc", ID: 0, Expiry: -1, WithWill: true})
			}
			c.Ops = append(c.Ops, sessOp{Op: "pub", T: 0})
			op2 := genConnect(r, 0, true, v5mask)
			op2.Clean = false
			op2.At = 1 + r.Intn(2)
			c.Ops = append(c.Ops, op2)
			connected[0], ended[0], canSetExpiry[0] = true, true, op2.Expiry > 0
		}
		for k := 0; k < n; k++ {
			id := r.Intn(2)
			x := r.Intn(100)
			switch {
			case x < 22 && races < 2: // N connections race on one identifier
				op := sessOp{Op: "race", ID: id, DropCur: connected[id] && r.Chance(40)}
				if !connected[id] && r.Chance(30) {
					// the racers queue behind a CONNECT whose CONNACK cannot be written (its session ends at once and
					// takes the identifier's container with it)
					op.Racers = append(op.Racers, sessOp{Op: "connect", ID: id, Abort: true, Clean: true, Expiry: -1, WillDelay: -2})
				}
				for j := 0; j < 2+r.Intn(2); j++ {
					ro := genConnect(r, id, true, v5mask)
					op.Racers = append(op.Racers, ro)
				}
				c.Ops = append(c.Ops, op)
				races++
				connected[id] = true // unless all are refused and the current one dropped: ops on a free id are skipped
				last := op.Racers[len(op.Racers)-1]
				canSetExpiry[id] = false
				_ = last
			case x < 45 || !connected[id] && x < 60: // connect: free identifier, take-over or refusal
				op := genConnect(r, id, true, v5mask)
				if timed && ended[id] && !connected[id] && r.Chance(70) {
					op.At = 1 + r.Intn(2)
				}
				c.Ops = append(c.Ops, op)
				if !connected[id] || c.Preempt {
					canSetExpiry[id] = op.V5 && op.Expiry > 0
				}
				connected[id] = true
			case connected[id] && x < 60:
				c.Ops = append(c.Ops, sessOp{Op: "sub", ID: id, T: r.Intn(2)})
			case x < 66:
				op := genConnect(r, id, false, v5mask)
				op.Op = "abort"
				c.Ops = append(c.Ops, op)
				if c.Preempt {
					connected[id] = false
				}
				ended[id] = true
			case x < 72:
				c.Ops = append(c.Ops, sessOp{Op: "pub", T: r.Intn(2)})
			case connected[id] && x < 84:
				op := sessOp{Op: "disc", ID: id, Expiry: -1, WithWill: r.Chance(40)}
				if r.Chance(30) && canSetExpiry[id] {
					op.Expiry = []int64{1, 2}[r.Intn(2)]
				}
				c.Ops = append(c.Ops, op)
				connected[id] = false
				ended[id] = true
			case connected[id] && x < 94:
				c.Ops = append(c.Ops, sessOp{Op: "drop", ID: id})
				connected[id] = false
				ended[id] = true
			case timed:
				c.Ops = append(c.Ops, sessOp{Op: "wait", Ms: []int{600, 1500}[r.Intn(2)]})
			default:
				c.Ops = append(c.Ops, sessOp{Op: "pub", T: r.Intn(2)})
			}
		}
		c.Ops = append(c.Ops, sessOp{Op: "pub", T: 0}, sessOp{Op: "pub", T: 1})
		return c
	}}
}

// takeoverThenWait: a v5 session with a finite expiry is taken over; the new connection stays longer than the
// interval of the old one (no timer of the taken-over connection may act on the live session), then the
// identifier is used again
func takeoverThenWait(r *Rng, c *sessCase, id int) {
	e1 := []int64{1, 2}[r.Intn(2)]
	first := sessOp{Op: "connect", ID: id, V5: true, Expiry: e1, WillDelay: -2}
	if r.Chance(40) {
		first.WillDelay = []int{0, 1, 2}[r.Intn(3)]
	}
	second := sessOp{Op: "connect", ID: id, V5: true, Expiry: []int64{1, 2, 4294967295}[r.Intn(3)], WillDelay: -2}
	c.Ops = append(c.Ops, first, sessOp{Op: "sub", ID: id, T: 0}, second, sessOp{Op: "sub", ID: id, T: 1},
		sessOp{Op: "wait", Ms: 2500}, sessOp{Op: "pub", T: 0}, sessOp{Op: "pub", T: 1})
	switch r.Intn(3) {
	case 0:
		c.Ops = append(c.Ops, sessOp{Op: "connect", ID: id, V5: true, Expiry: 2, WillDelay: -2}, sessOp{Op: "pub", T: 1})
	case 1:
		c.Ops = append(c.Ops, sessOp{Op: "disc", ID: id, Expiry: -1}, sessOp{Op: "pub", T: 0},
			sessOp{Op: "connect", ID: id, V5: true, Expiry: 2, WillDelay: -2})
	}
}
