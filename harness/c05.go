package main

// generators for the session-manager properties

// a client id keeps its protocol version within a history (known finding C05-version-change-loses-queue:
// messages persisted for a session are encoded in the protocol version of the connection that was open
// then and cannot be decoded after a reconnect with another version)
func genConnect(r *Rng, id int, wills bool, v5mask int) sessOp {
	op := sessOp{Op: "connect", ID: id, V5: v5mask&(1<<uint(id)) != 0, Clean: r.Chance(30), Expiry: -1, WillDelay: -2}
	if op.V5 {
		op.Expiry = []int64{-1, 0, 1, 2, 4294967295}[r.Intn(5)]
	}
	if wills && r.Chance(50) {
		op.WillDelay = -1
		if op.V5 {
			op.WillDelay = []int{-1, 0, 1, 2}[r.Intn(4)]
		}
	}
	return op
}

func init() {
	// C05: session state persistence / Session Present
	props["C05"] = &sessProp{id: "C05", gen: func(r *Rng, i int, tier string) *sessCase {
		c := &sessCase{Preempt: true}
		v5mask := r.Intn(4) // which client ids speak MQTT 5 in this history
		timed := i%8 == 7
		n := 4 + r.Intn(9)
		connected := map[int]bool{}
		canSetExpiry := map[int]bool{} // DISCONNECT may carry an expiry only if CONNECT carried a non-zero one (else: protocol error by the client)
		for k := 0; k < n; k++ {
			id := r.Intn(2)
			x := r.Intn(100)
			switch {
			case !connected[id] && x < 60:
				op := genConnect(r, id, false, v5mask)
				c.Ops = append(c.Ops, op)
				connected[id] = true
				canSetExpiry[id] = op.V5 && op.Expiry > 0
			case connected[id] && x < 25:
				c.Ops = append(c.Ops, sessOp{Op: "sub", ID: id, T: r.Intn(2)})
			case x < 50:
				c.Ops = append(c.Ops, sessOp{Op: "pub", T: r.Intn(2)})
			case connected[id] && x < 70:
				op := sessOp{Op: "disc", ID: id, Expiry: -1}
				if r.Chance(30) && canSetExpiry[id] {
					op.Expiry = []int64{0, 1, 2}[r.Intn(3)]
				}
				c.Ops = append(c.Ops, op)
				connected[id] = false
			case connected[id] && x < 85:
				c.Ops = append(c.Ops, sessOp{Op: "drop", ID: id})
				connected[id] = false
			case timed && x < 95:
				c.Ops = append(c.Ops, sessOp{Op: "wait", Ms: []int{1500, 2500}[r.Intn(2)]})
			default:
				c.Ops = append(c.Ops, sessOp{Op: "pub", T: r.Intn(2)})
			}
		}
		return c
	}}
}

func init() {
	// C11: will messages
	props["C11"] = &sessProp{id: "C11", gen: func(r *Rng, i int, tier string) *sessCase {
		c := &sessCase{Preempt: true}
		v5mask := r.Intn(4) // which client ids speak MQTT 5 in this history
		n := 3 + r.Intn(8)
		connected := map[int]bool{}
		canSetExpiry := map[int]bool{}
		for k := 0; k < n; k++ {
			id := r.Intn(2)
			x := r.Intn(100)
			switch {
			case !connected[id] || x < 12: // (re)connect, or take the session over while it is connected
				op := genConnect(r, id, true, v5mask)
				if r.Chance(70) {
					op.WillDelay = -1
					if op.V5 {
						op.WillDelay = []int{-1, 0, 1, 2}[r.Intn(4)]
					}
				}
				c.Ops = append(c.Ops, op)
				connected[id] = true
				canSetExpiry[id] = op.V5 && op.Expiry > 0
			case x < 30:
				op := sessOp{Op: "disc", ID: id, Expiry: -1, WithWill: r.Chance(35)}
				if r.Chance(20) && canSetExpiry[id] {
					op.Expiry = []int64{0, 1, 2}[r.Intn(3)]
				}
				c.Ops = append(c.Ops, op)
				connected[id] = false
			case x < 55:
				c.Ops = append(c.Ops, sessOp{Op: "drop", ID: id})
				connected[id] = false
			case x < 65:
				c.Ops = append(c.Ops, sessOp{Op: "proto", ID: id})
				connected[id] = false
			case x < 90:
				c.Ops = append(c.Ops, sessOp{Op: "wait", Ms: []int{600, 1500, 2500}[r.Intn(3)]})
			default:
				c.Ops = append(c.Ops, sessOp{Op: "pub", T: r.Intn(2)})
			}
		}
		c.Ops = append(c.Ops, sessOp{Op: "wait", Ms: 2500})
		return c
	}}
}

func genPopulation(r *Rng, c *sessCase, v5mask int, wills bool, timed bool) {
	connected := map[int]bool{}
	canSetExpiry := map[int]bool{}
	n := 3 + r.Intn(8)
	for k := 0; k < n; k++ {
		id := r.Intn(2)
		x := r.Intn(100)
		switch {
		case !connected[id] && x < 65:
			op := genConnect(r, id, wills, v5mask)
			c.Ops = append(c.Ops, op)
			connected[id] = true
			canSetExpiry[id] = op.V5 && op.Expiry > 0
		case connected[id] && x < 35:
			c.Ops = append(c.Ops, sessOp{Op: "sub", ID: id, T: r.Intn(2)})
		case x < 55:
			c.Ops = append(c.Ops, sessOp{Op: "pub", T: r.Intn(2)})
		case connected[id] && x < 70:
			op := sessOp{Op: "disc", ID: id, Expiry: -1, WithWill: r.Chance(30)}
			if r.Chance(25) && canSetExpiry[id] {
				op.Expiry = []int64{0, 1, 2}[r.Intn(3)]
			}
			c.Ops = append(c.Ops, op)
			connected[id] = false
		case connected[id] && x < 85:
			c.Ops = append(c.Ops, sessOp{Op: "drop", ID: id})
			connected[id] = false
		case timed && x < 95:
			c.Ops = append(c.Ops, sessOp{Op: "wait", Ms: []int{600, 1500, 2500}[r.Intn(3)]})
		default:
			c.Ops = append(c.Ops, sessOp{Op: "pub", T: r.Intn(2)})
		}
	}
}

func init() {
	// C20: shutdown over every kind of population
	props["C20"] = &sessProp{id: "C20", gen: func(r *Rng, i int, tier string) *sessCase {
		c := &sessCase{Preempt: true}
		v5mask := r.Intn(4)
		genPopulation(r, c, v5mask, true, i%4 == 3)
		c.Ops = append(c.Ops, sessOp{Op: "stop"})
		return c
	}}
	// C16: graceful restart
	props["C16"] = &sessProp{id: "C16", gen: func(r *Rng, i int, tier string) *sessCase {
		c := &sessCase{Preempt: true}
		v5mask := r.Intn(4)
		genPopulation(r, c, v5mask, i%3 == 2, i%5 == 4)
		c.Ops = append(c.Ops, sessOp{Op: "stop"}, sessOp{Op: "restart"})
		// after the restart: publishes reach restored subscriptions, reconnects find their state
		for k := 0; k < 2+r.Intn(4); k++ {
			switch r.Intn(3) {
			case 0:
				c.Ops = append(c.Ops, sessOp{Op: "pub", T: r.Intn(2)})
			case 1:
				op := genConnect(r, r.Intn(2), false, v5mask)
				op.Clean = r.Chance(15)
				c.Ops = append(c.Ops, op)
			default:
				if i%5 == 4 {
					c.Ops = append(c.Ops, sessOp{Op: "wait", Ms: 1500})
				} else {
					c.Ops = append(c.Ops, sessOp{Op: "pub", T: r.Intn(2)})
				}
			}
		}
		return c
	}}
}
