package main

import (
	"encoding/json"
	"fmt"
	"strings"
	"sync"
	"sync/atomic"
	"time"

	"github.com/VolantMQ/volantmq/types"
)

// C18: (seq) sequential operation sequences on types.Queue steered across every resize threshold;
// (conc) concurrent producers/consumers; (once) OnceWait with many callers; (pool) worker pool.

type c18Case struct {
	Kind string  `json:"kind"`
	Ops  [][2]int `json:"ops,omitempty"` // seq: (op, arg): 0 add v, 1 remove, 2 peek, 3 length, 4 get i (arg offset by 1e6)
	P    int     `json:"p,omitempty"`
	C    int     `json:"c,omitempty"`
	N    int     `json:"n,omitempty"`
	Size int     `json:"size,omitempty"`
	Queue int    `json:"queue,omitempty"`
	Spawn int    `json:"spawn,omitempty"`
	Drain bool   `json:"drain,omitempty"`
}

type c18Obs struct {
	Outs     []string   `json:"outs,omitempty"` // Coq terms
	Consumed [][][2]int `json:"consumed,omitempty"`
	Log      []int      `json:"log,omitempty"`
	Execs    []int      `json:"execs,omitempty"`
	Accepted int        `json:"accepted,omitempty"`
	MaxConc  int        `json:"maxconc,omitempty"`
	Err      string     `json:"err,omitempty"`
}

type c18Prop struct{}

func init() { props["C18"] = &c18Prop{} }

func (p *c18Prop) ID() string { return "C18" }
func (p *c18Prop) Header() string {
	return "From Coq Require Import List NArith ZArith.\nImport ListNotations.\nFrom VMQ Require Import model.Queue chk.C18chk.\n"
}
func (p *c18Prop) Parallel() int { return 4 }

func (p *c18Prop) Gen(r *Rng, i int, tier string) interface{} {
	switch i % 10 {
	case 7:
		return &c18Case{Kind: "conc", P: 1 + r.Intn(4), C: 1 + r.Intn(4), N: 50 + r.Intn(300)}
	case 8:
		return &c18Case{Kind: "once", N: 2 + r.Intn(31)}
	case 9:
		size := 1 + r.Intn(8)
		spawn := r.Intn(size + 1)
		q := 0
		if spawn > 0 {
			q = r.Intn(5)
		}
		// Drain: the tasks wait on a gate, so workers are busy and the queue fills; the pool is CLOSED with that
		// backlog, then the gate opens: what was accepted (Schedule returned nil) still runs, exactly once
		return &c18Case{Kind: "pool", Size: size, Queue: q, Spawn: spawn, N: 10 + r.Intn(60), Drain: q > 0 && r.Chance(40)}
	}
	c := &c18Case{Kind: "seq"}
	levels := []int{3, 15, 16, 17, 31, 32, 33, 63, 64, 65, 127, 128, 129, 255, 256, 257}
	maxOps := 700
	if i%100 == 50 {
		levels = []int{511, 512, 513, 1023, 1024, 1025}
		maxOps = 3500
	}
	if tier == "thorough" && i%200 == 100 {
		levels = []int{2047, 2048, 2049, 4095, 4096, 4097}
		maxOps = 14000
	}
	size, next := 0, 1
	for len(c.Ops) < maxOps {
		target := levels[r.Intn(len(levels))]
		if r.Chance(40) {
			target = r.Intn(target + 1)
		}
		for size != target && len(c.Ops) < maxOps {
			x := r.Intn(100)
			switch {
			case x < 6:
				c.Ops = append(c.Ops, [2]int{2, 0})
			case x < 10:
				c.Ops = append(c.Ops, [2]int{3, 0})
			case x < 16:
				idx := r.Intn(2*size+3) - size - 1
				c.Ops = append(c.Ops, [2]int{4, idx})
			case x < 26: // a step against the trend keeps head/tail moving around the ring
				if size < target {
					if size > 0 {
						c.Ops = append(c.Ops, [2]int{1, 0})
						size--
					}
				} else {
					c.Ops = append(c.Ops, [2]int{0, next})
					next++
					size++
				}
			default:
				if size < target {
					c.Ops = append(c.Ops, [2]int{0, next})
					next++
					size++
				} else {
					c.Ops = append(c.Ops, [2]int{1, 0})
					size--
				}
			}
		}
		if r.Chance(15) {
			break
		}
	}
	// removing from an empty queue
	if r.Chance(30) {
		for ; size > -2; size-- {
			c.Ops = append(c.Ops, [2]int{1, 0})
		}
	}
	return c
}

func (p *c18Prop) Decode(raw json.RawMessage) (interface{}, error) {
	c := &c18Case{}
	return c, json.Unmarshal(raw, c)
}

func valStr(v interface{}) string {
	if v == nil {
		return "RNil"
	}
	return fmt.Sprintf("(RVal %d%%N)", v.(int))
}

func (p *c18Prop) Run(ci interface{}) interface{} {
	c := ci.(*c18Case)
	obs := &c18Obs{}
	switch c.Kind {
	case "seq":
		q := types.NewQueue()
		for _, o := range c.Ops {
			switch o[0] {
			case 0:
				q.Add(o[1])
				obs.Outs = append(obs.Outs, "RNone")
			case 1:
				obs.Outs = append(obs.Outs, valStr(q.Remove()))
			case 2:
				obs.Outs = append(obs.Outs, valStr(q.Peek()))
			case 3:
				obs.Outs = append(obs.Outs, fmt.Sprintf("(RLen %d)", q.Length()))
			case 4:
				func() {
					defer func() {
						if r := recover(); r != nil {
							obs.Outs = append(obs.Outs, "RPanic")
						}
					}()
					obs.Outs = append(obs.Outs, valStr(q.Get(o[1])))
				}()
			}
		}
	case "conc":
		q := types.NewQueue()
		total := int64(c.P * c.N)
		var taken int64
		obs.Consumed = make([][][2]int, c.C)
		var wg sync.WaitGroup
		for pi := 0; pi < c.P; pi++ {
			wg.Add(1)
			go func(pi int) {
				defer wg.Done()
				for s := 1; s <= c.N; s++ {
					q.Add(pi<<20 | s)
				}
			}(pi)
		}
		deadline := time.Now().Add(10 * time.Second)
		for ci := 0; ci < c.C; ci++ {
			wg.Add(1)
			go func(ci int) {
				defer wg.Done()
				for atomic.LoadInt64(&taken) < total && time.Now().Before(deadline) {
					if v := q.Remove(); v != nil {
						atomic.AddInt64(&taken, 1)
						x := v.(int)
						obs.Consumed[ci] = append(obs.Consumed[ci], [2]int{x >> 20, x & 0xFFFFF})
					}
				}
			}(ci)
		}
		wg.Wait()
	case "once":
		var o types.OnceWait
		var mu sync.Mutex
		logf := func(e int) {
			mu.Lock()
			obs.Log = append(obs.Log, e)
			mu.Unlock()
		}
		var wg sync.WaitGroup
		start := make(chan struct{})
		for k := 0; k < c.N; k++ {
			wg.Add(1)
			go func() {
				defer wg.Done()
				<-start
				o.Do(func() {
					logf(0)
					time.Sleep(2 * time.Millisecond)
					logf(1)
				})
				logf(2)
			}()
		}
		close(start)
		wg.Wait()
	case "pool":
		pl := types.NewPool(c.Size, c.Queue, c.Spawn)
		execs := make([]int32, c.N)
		var running, maxc int32
		var wg sync.WaitGroup
		gate := make(chan struct{})
		if !c.Drain {
			close(gate)
		}
		to := 5 * time.Second
		if c.Drain {
			to = 5 * time.Millisecond // workers and queue are full soon: the rest is refused, not accepted
		}
		for k := 0; k < c.N; k++ {
			k := k
			wg.Add(1)
			err := pl.ScheduleTimeout(to, func() {
				<-gate
				n := atomic.AddInt32(&running, 1)
				for {
					m := atomic.LoadInt32(&maxc)
					if n <= m || atomic.CompareAndSwapInt32(&maxc, m, n) {
						break
					}
				}
				time.Sleep(200 * time.Microsecond)
				atomic.AddInt32(&execs[k], 1)
				atomic.AddInt32(&running, -1)
				wg.Done()
			})
			if err != nil {
				wg.Done()
				execs[k] = -1
			}
		}
		if c.Drain {
			_ = pl.Close()
			close(gate)
		}
		done := make(chan struct{})
		go func() { wg.Wait(); close(done) }()
		select {
		case <-done:
		case <-time.After(10 * time.Second):
			obs.Err = "accepted tasks did not all run"
		}
		time.Sleep(2 * time.Millisecond)
		for _, e := range execs {
			if e >= 0 {
				obs.Accepted++
				obs.Execs = append(obs.Execs, int(atomic.LoadInt32(&e)))
			}
		}
		obs.MaxConc = int(atomic.LoadInt32(&maxc))
		_ = pl.Close()
	}
	return obs
}

func (p *c18Prop) Coq(ci interface{}, oi interface{}) string {
	c := ci.(*c18Case)
	o := oi.(*c18Obs)
	switch c.Kind {
	case "seq":
		ops := make([]string, len(c.Ops))
		for i, x := range c.Ops {
			switch x[0] {
			case 0:
				ops[i] = fmt.Sprintf("OAdd %d%%N", x[1])
			case 1:
				ops[i] = "ORemove"
			case 2:
				ops[i] = "OPeek"
			case 3:
				ops[i] = "OLength"
			default:
				ops[i] = "OGet " + cZ(int64(x[1]))
			}
		}
		return fmt.Sprintf("(CSeq %s %s)", cList(ops), cList(o.Outs))
	case "conc":
		cs := make([]string, len(o.Consumed))
		for i, l := range o.Consumed {
			it := make([]string, len(l))
			for j, x := range l {
				it[j] = fmt.Sprintf("(%d, %d)", x[0], x[1])
			}
			cs[i] = cList(it)
		}
		return fmt.Sprintf("(CConc %d %d %s)", c.P, c.N, cList(cs))
	case "once":
		it := make([]string, len(o.Log))
		for i, x := range o.Log {
			it[i] = fmt.Sprintf("%d", x)
		}
		return fmt.Sprintf("(COnce %d %s)", c.N, cList(it))
	default:
		it := make([]string, len(o.Execs))
		for i, x := range o.Execs {
			it[i] = fmt.Sprintf("%d", x)
		}
		acc := o.Accepted
		if o.Err != "" {
			acc = -1
		}
		if acc < 0 {
			return fmt.Sprintf("(CPool %d %d %s %d)", c.Size, 999999, cList(it), o.MaxConc)
		}
		return fmt.Sprintf("(CPool %d %d %s %d)", c.Size, acc, cList(it), o.MaxConc)
	}
}

func (p *c18Prop) Class(ci interface{}, oi interface{}) (string, bool) {
	c := ci.(*c18Case)
	if c.Kind != "seq" {
		return c.Kind, true
	}
	max, size := 0, 0
	for _, o := range c.Ops {
		if o[0] == 0 {
			size++
		} else if o[0] == 1 && size > 0 {
			size--
		}
		if size > max {
			max = size
		}
	}
	b := 16
	for b < max {
		b *= 2
	}
	return "seq-peak<=" + strings.TrimSpace(fmt.Sprint(b)), max > 16
}
