package main

import (
	"context"
	"encoding/json"
	"fmt"
	"github.com/VolantMQ/vlapi/mqttp"
	"io"
	"net"
	"net/http"
	"strings"
	"sync"
	"time"

	gws "github.com/gobwas/ws"
	"github.com/gobwas/ws/wsutil"

	"github.com/VolantMQ/volantmq/auth"
	"github.com/VolantMQ/volantmq/metrics"
	"github.com/VolantMQ/volantmq/transport"
)

// C17: transport.NewWS on loopback, a stub Handler that reads with generated buffer sizes,
// a raw gobwas/ws client sending generated binary frames in lock-step (frame k+1 is sent only
// when every byte sent so far has been read, so a read that waits although bytes are available
// shows up as Blocked).

type c17Case struct {
	Kind   string `json:"kind"` // "stream" | "handshake"
	Frames []int  `json:"frames,omitempty"`
	Frags  []int  `json:"frags,omitempty"` // Frags[k] > 1: binary message k is sent as that many fragments (FIN=0, continuation frames): one payload for the reader
	Texts  []int  `json:"texts,omitempty"` // Texts[k] > 0: a TEXT frame of that many bytes goes out before binary frame k (never part of the stream)
	Sizes  []int  `json:"sizes,omitempty"`
	Proto  string `json:"proto,omitempty"`
	// kind "out": the broker side writes Out data frames of OutSize bytes while the client sends PINGs all the time (the
	// PONGs are written by the broker's reading side): what the client receives is a sequence of whole frames
	Out     int `json:"out,omitempty"`
	OutSize int `json:"outsize,omitempty"`
	// kind "empties": against the whole server - Empties empty binary frames, then a CONNECT in one frame: it is answered
	Empties int `json:"empties,omitempty"`
}

type c17Read struct {
	Kind  string   `json:"k"` // "read" | "eof" | "blocked"
	Runs  [][2]int `json:"runs,omitempty"`
	Bytes int      `json:"n,omitempty"`
}

type c17Obs struct {
	OutBytes int       `json:"outbytes,omitempty"` // kind "out": payload bytes received in order with the right content
	OutPongs int       `json:"outpongs,omitempty"`
	OutBad   string    `json:"outbad,omitempty"`
	Reads    []c17Read `json:"reads,omitempty"`
	Accepted bool      `json:"accepted,omitempty"`
	Err      string    `json:"err,omitempty"`
}

type c17Session struct {
	out, outSize int
	sizes        []int
	report       chan c17Read
	done         chan struct{}
}

type c17Prop struct {
	port     string
	prov     transport.Provider
	mu       sync.Mutex
	sessions map[string]*c17Session // keyed by request path is not available; keyed by remote addr
	pending  chan *c17Session
}

func init() { props["C17"] = &c17Prop{} }

func (p *c17Prop) ID() string { return "C17" }
func (p *c17Prop) Header() string {
	return "From Coq Require Import List NArith.\nImport ListNotations.\nFrom VMQ Require Import chk.C17chk.\n"
}
func (p *c17Prop) Suspect(oi interface{}) bool {
	for _, r := range oi.(*c17Obs).Reads {
		if r.Kind == "blocked" {
			return true
		}
	}
	return false
}
func (p *c17Prop) Parallel() int { return 1 } // one connection at a time: the handler pairs by arrival

func (p *c17Prop) OnConnection(c transport.Conn, _ *auth.Manager) error {
	s := <-p.pending
	defer close(s.done)
	defer c.Close()
	if s.out > 0 {
		// the reading side (where the PINGs are answered) and the writing side, as the connection's two goroutines
		rd := make(chan struct{})
		go func() {
			defer close(rd)
			buf := make([]byte, 64)
			for {
				if _, err := c.Read(buf); err != nil {
					return
				}
			}
		}()
		pos := 0
		for k := 0; k < s.out; k++ {
			buf := make([]byte, s.outSize)
			for j := range buf {
				buf[j] = byte((pos + j) % 251)
			}
			pos += len(buf)
			if _, err := c.Write(buf); err != nil {
				break
			}
		}
		select {
		case <-rd:
		case <-time.After(5 * time.Second):
		}
		return nil
	}
	for _, b := range s.sizes {
		buf := make([]byte, b)
		n, err := c.Read(buf)
		if n > 0 || err == nil {
			s.report <- c17Read{Kind: "read", Runs: toRuns(buf[:n]), Bytes: n}
		}
		if err != nil {
			s.report <- c17Read{Kind: "eof"}
			return nil
		}
	}
	return nil
}

func toRuns(b []byte) [][2]int {
	var runs [][2]int
	for i := 0; i < len(b); {
		j := i + 1
		for j < len(b) && int(b[j]) == (int(b[j-1])+1)%251 {
			j++
		}
		runs = append(runs, [2]int{int(b[i]), j - i})
		i = j
	}
	return runs
}

func (p *c17Prop) Setup(tier string) error {
	l, err := net.Listen("tcp", "127.0.0.1:0")
	if err != nil {
		return err
	}
	_, port, _ := net.SplitHostPort(l.Addr().String())
	l.Close()
	p.port = port
	p.pending = make(chan *c17Session, 1)
	cfg := transport.NewConfigWS(&transport.Config{Port: port})
	prov, err := transport.NewWS(cfg, &transport.InternalConfig{Handler: p, Metrics: metrics.New().Bytes()})
	if err != nil {
		return err
	}
	p.prov = prov
	go func() { _ = prov.Serve() }()
	for i := 0; i < 200; i++ {
		c, err := net.Dial("tcp", "127.0.0.1:"+port)
		if err == nil {
			c.Close()
			return nil
		}
		time.Sleep(10 * time.Millisecond)
	}
	return fmt.Errorf("ws listener did not come up")
}

func (p *c17Prop) Teardown() { _ = p.prov.Close() }

var c17Protos = []string{"mqttv3x1", "mqttv3.1x1", "mqttv5a0", "mqttV3", "", "mqtt", "mqttv3.1", "mqttv3.1.1", "mqttV3.1.1", "mqttv5.0", "mqttV5.0", "http", "mqt", "mqttx", "amqp", "mqttv4.0", "MQTT", "foo, bar", "wamp,soap", "foo,", "v10.stomp, v11.stomp", "mqtt, foo", "foo, mqtt"}

func (p *c17Prop) Gen(r *Rng, i int, tier string) interface{} {
	if i%10 == 9 {
		return &c17Case{Kind: "handshake", Proto: c17Protos[r.Intn(len(c17Protos))]}
	}
	if i%50 == 27 {
		return &c17Case{Kind: "out", Out: 500 + r.Intn(1500), OutSize: []int{1, 100, 200, 5000}[r.Intn(4)]}
	}
	bs := []int{1, 2, 3, 7, 16, 64}
	b := bs[r.Intn(len(bs))]
	nf := 1 + r.Intn(8)
	c := &c17Case{Kind: "stream"}
	total := 0
	for k := 0; k < nf; k++ {
		var f int
		switch r.Intn(9) {
		case 0:
			f = 1
		case 1:
			f = 2
		case 2:
			f = b - 1
		case 3:
			f = b
		case 4:
			f = b + 1
		case 5:
			f = 2 * b
		case 6:
			f = 3*b + 1
		case 7:
			f = 0
		default:
			f = r.Intn(3*b + 2)
		}
		if f < 0 {
			f = 0
		}
		if f > 200 {
			f = 200
		}
		c.Frames = append(c.Frames, f)
		total += f
		if r.Chance(12) {
			c.Texts = append(c.Texts, 1+r.Intn(2*b+2))
		} else {
			c.Texts = append(c.Texts, 0)
		}
		if r.Chance(15) {
			c.Frags = append(c.Frags, 2+r.Intn(3))
		} else {
			c.Frags = append(c.Frags, 1)
		}
	}
	// read sizes: mostly the same buffer size (as bufio does), sometimes varying
	vary := r.Chance(30)
	nreads := total + nf + 2
	if nreads > 400 {
		nreads = 400
	}
	if r.Chance(25) { // sometimes stop early
		nreads = 1 + r.Intn(nreads)
	}
	for k := 0; k < nreads; k++ {
		s := b
		if vary {
			s = bs[r.Intn(len(bs))]
		}
		c.Sizes = append(c.Sizes, s)
	}
	return c
}

func (p *c17Prop) Decode(raw json.RawMessage) (interface{}, error) {
	c := &c17Case{}
	err := json.Unmarshal(raw, c)
	return c, err
}

func (p *c17Prop) Run(ci interface{}) interface{} {
	c := ci.(*c17Case)
	if c.Kind == "handshake" {
		return p.runHandshake(c)
	}
	obs := &c17Obs{}
	if c.Kind == "out" {
		return p.runOut(c)
	}
	if c.Kind == "empties" {
		return p.runEmpties(c)
	}
	s := &c17Session{sizes: c.Sizes, report: make(chan c17Read, 1024), done: make(chan struct{})}
	p.pending <- s
	d := gws.Dialer{Protocols: []string{"mqtt"}, Timeout: 5 * time.Second}
	conn, _, _, err := d.Dial(context.Background(), "ws://127.0.0.1:"+p.port+"/")
	if err != nil {
		<-p.pending
		obs.Err = "dial: " + err.Error()
		return obs
	}
	defer conn.Close()
	sent, consumed, pos := 0, 0, 0
	next := 0
	closed := false
	handlerDone := false
	sendMore := func() {
		for !closed && sent == consumed {
			if next < len(c.Frames) {
				f := c.Frames[next]
				next++
				buf := make([]byte, f)
				for k := range buf {
					buf[k] = byte((pos + k) % 251)
				}
				pos += f
				sent += f
				if next-1 < len(c.Texts) && c.Texts[next-1] > 0 {
					// a data frame that is not binary: the protocol layer must never see its payload
					_ = wsutil.WriteClientText(conn, []byte(strings.Repeat("z", c.Texts[next-1])))
				}
				var err error
				if next-1 < len(c.Frags) && c.Frags[next-1] > 1 {
					err = writeFragments(conn, buf, c.Frags[next-1])
				} else {
					err = wsutil.WriteClientBinary(conn, buf)
				}
				if err != nil {
					// the handler finished its reads and closed first: not an observation
					closed = true
				}
				if f > 0 {
					return
				}
			} else {
				conn.Close()
				closed = true
			}
		}
	}
	sendMore()
	for !handlerDone {
		select {
		case rd := <-s.report:
			obs.Reads = append(obs.Reads, rd)
			consumed += rd.Bytes
			if rd.Kind == "eof" {
				// handler returns after eof
			}
			sendMore()
		case <-s.done:
			// drain
			for {
				select {
				case rd := <-s.report:
					obs.Reads = append(obs.Reads, rd)
					continue
				default:
				}
				break
			}
			handlerDone = true
		case <-time.After(3 * time.Second):
			obs.Reads = append(obs.Reads, c17Read{Kind: "blocked"})
			conn.Close()
			<-s.done
			handlerDone = true
		}
	}
	return obs
}

func (p *c17Prop) runEmpties(c *c17Case) interface{} {
	obs := &c17Obs{}
	_, srv, cleanup, msg := newLisServerCT(5)
	if msg != "" {
		obs.Err = msg
		return obs
	}
	defer cleanup.f()
	defer func() { _ = srv.Shutdown() }()
	port := freePort()
	if err := srv.ListenAndServe(transport.NewConfigWS(&transport.Config{AuthManager: cleanup.am, Host: "127.0.0.1", Port: port})); err != nil {
		obs.Err = "listener: " + err.Error()
		return obs
	}
	var conn net.Conn
	var err error
	for k := 0; k < 100; k++ {
		d := gws.Dialer{Protocols: []string{"mqtt"}, Timeout: 2 * time.Second}
		if conn, _, _, err = d.Dial(context.Background(), "ws://127.0.0.1:"+port+"/"); err == nil {
			break
		}
		time.Sleep(20 * time.Millisecond)
	}
	if err != nil {
		obs.Err = "dial: " + err.Error()
		return obs
	}
	defer conn.Close()
	for k := 0; k < c.Empties; k++ {
		if err := wsutil.WriteClientBinary(conn, nil); err != nil {
			obs.Err = "write: " + err.Error()
			return obs
		}
	}
	cp := mqttp.NewConnect(mqttp.ProtocolV311)
	cp.SetClean(true)
	_ = cp.SetClientID([]byte("e"))
	raw, _ := mqttp.Encode(cp)
	_ = wsutil.WriteClientBinary(conn, raw)
	_ = conn.SetReadDeadline(time.Now().Add(3 * time.Second))
	b, _, err := wsutil.ReadServerData(conn)
	obs.Accepted = err == nil && len(b) >= 4 && b[0]>>4 == 2 && b[3] == 0
	return obs
}

func (p *c17Prop) runOut(c *c17Case) interface{} {
	obs := &c17Obs{}
	s := &c17Session{out: c.Out, outSize: c.OutSize, report: make(chan c17Read, 1), done: make(chan struct{})}
	p.pending <- s
	d := gws.Dialer{Protocols: []string{"mqtt"}, Timeout: 5 * time.Second}
	conn, br, _, err := d.Dial(context.Background(), "ws://127.0.0.1:"+p.port+"/")
	if err != nil {
		<-p.pending
		obs.Err = "dial: " + err.Error()
		return obs
	}
	var rd io.Reader = conn
	if br != nil {
		rd = br // what the server sent right behind its handshake response is in the dialer's buffer
	}
	stop := make(chan struct{})
	var wmu sync.Mutex
	go func() {
		for {
			select {
			case <-stop:
				return
			default:
			}
			wmu.Lock()
			err := wsutil.WriteClientMessage(conn, gws.OpPing, nil)
			wmu.Unlock()
			if err != nil {
				return
			}
		}
	}()
	want := c.Out * c.OutSize
	_ = conn.SetReadDeadline(time.Now().Add(20 * time.Second))
	for obs.OutBytes < want && obs.OutBad == "" {
		h, err := gws.ReadHeader(rd)
		if err != nil {
			obs.OutBad = "read header: " + err.Error()
			break
		}
		if h.Rsv != 0 || h.Masked || h.Length > int64(c.OutSize) {
			obs.OutBad = fmt.Sprintf("not a frame header the broker writes: %+v after %d bytes", h, obs.OutBytes)
			break
		}
		pl := make([]byte, h.Length)
		if _, err := io.ReadFull(rd, pl); err != nil {
			obs.OutBad = "read payload: " + err.Error()
			break
		}
		switch h.OpCode {
		case gws.OpPong:
			obs.OutPongs++
		case gws.OpBinary:
			if !h.Fin || int(h.Length) != c.OutSize {
				obs.OutBad = fmt.Sprintf("data frame of %d bytes (fin=%v), expected %d", h.Length, h.Fin, c.OutSize)
			}
			for j, b := range pl {
				if b != byte((obs.OutBytes+j)%251) {
					obs.OutBad = fmt.Sprintf("payload byte %d is %d", obs.OutBytes+j, b)
					break
				}
			}
			obs.OutBytes += len(pl)
		default:
			obs.OutBad = fmt.Sprintf("frame with opcode %d after %d bytes", h.OpCode, obs.OutBytes)
		}
	}
	close(stop)
	conn.Close()
	<-s.done
	return obs
}

// writeFragments sends payload as one binary MESSAGE in parts frames: a binary frame with FIN=0, continuation frames,
// the last with FIN=1 (RFC 6455 5.4); the split points are spread evenly, a part may be empty
func writeFragments(conn net.Conn, payload []byte, parts int) error {
	for i := 0; i < parts; i++ {
		lo, hi := len(payload)*i/parts, len(payload)*(i+1)/parts
		op := gws.OpContinuation
		if i == 0 {
			op = gws.OpBinary
		}
		f := gws.MaskFrameInPlace(gws.NewFrame(op, i == parts-1, append([]byte{}, payload[lo:hi]...)))
		if err := gws.WriteFrame(conn, f); err != nil {
			return err
		}
	}
	return nil
}

func (p *c17Prop) runHandshake(c *c17Case) interface{} {
	obs := &c17Obs{}
	req, _ := http.NewRequest("GET", "http://127.0.0.1:"+p.port+"/", nil)
	req.Header.Set("Connection", "Upgrade")
	req.Header.Set("Upgrade", "websocket")
	req.Header.Set("Sec-WebSocket-Version", "13")
	req.Header.Set("Sec-WebSocket-Key", "dGhlIHNhbXBsZSBub25jZQ==")
	if c.Proto != "" {
		req.Header.Set("Sec-WebSocket-Protocol", c.Proto)
	}
	conn, err := net.DialTimeout("tcp", "127.0.0.1:"+p.port, 5*time.Second)
	if err != nil {
		obs.Err = err.Error()
		return obs
	}
	defer conn.Close()
	_ = req.Write(conn)
	_ = conn.SetReadDeadline(time.Now().Add(5 * time.Second))
	buf := make([]byte, 64)
	n, _ := conn.Read(buf)
	line := string(buf[:n])
	if strings.HasPrefix(line, "HTTP/1.1 101") {
		obs.Accepted = true
		// the upgraded connection reaches the handler: give it a session that reads nothing
		s := &c17Session{report: make(chan c17Read, 4), done: make(chan struct{})}
		p.pending <- s
		<-s.done
	}
	return obs
}

func (p *c17Prop) Coq(ci interface{}, oi interface{}) string {
	c := ci.(*c17Case)
	o := oi.(*c17Obs)
	if c.Kind == "handshake" {
		return fmt.Sprintf("(CHandshake %s %s)", cBytes([]byte(c.Proto)), cBool(o.Accepted))
	}
	if c.Kind == "empties" {
		return fmt.Sprintf("(CEmpties %s %s)", cNat(c.Empties), cBool(o.Accepted && o.Err == ""))
	}
	if c.Kind == "out" {
		return fmt.Sprintf("(COut %s %s %s %s)", cNat(c.Out), cNat(c.OutSize), cNat(o.OutBytes), cBool(o.OutBad == "" && o.Err == ""))
	}
	reads := make([]string, len(o.Reads))
	for i, r := range o.Reads {
		switch r.Kind {
		case "read":
			runs := make([]string, len(r.Runs))
			for j, ru := range r.Runs {
				runs[j] = fmt.Sprintf("(%s, %s)", cN(uint64(ru[0])), cNat(ru[1]))
			}
			reads[i] = "(ORead " + cList(runs) + ")"
		case "eof":
			reads[i] = "OEof"
		default:
			reads[i] = "OBlocked"
		}
	}
	if o.Err != "" {
		reads = append(reads, "OBlocked")
	}
	return fmt.Sprintf("(CStream %s %s %s)", cNats(c.Frames), cNats(c.Sizes), cList(reads))
}

func (p *c17Prop) Class(ci interface{}, oi interface{}) (string, bool) {
	c := ci.(*c17Case)
	if c.Kind == "handshake" {
		return "handshake", true
	}
	if c.Kind == "out" {
		return "outbound-under-pings", true
	}
	if c.Kind == "empties" {
		return "empty-frames-then-connect", true
	}
	big, exact := false, false
	for i, f := range c.Frames {
		b := c.Sizes[0]
		if i < len(c.Sizes) {
			b = c.Sizes[i]
		}
		if f > b {
			big = true
		}
		if f == b || f == 2*b {
			exact = true
		}
	}
	l := "stream"
	if big {
		l += "+frame>buf"
	}
	if exact {
		l += "+frame=k*buf"
	}
	return l, big
}
