package main

import (
	"crypto/sha256"
	"encoding/hex"
	"encoding/json"
	"fmt"
	"io/ioutil"
	"os"
	"os/exec"
	"path/filepath"
	"strings"
	"sync/atomic"
	"time"

	"github.com/VolantMQ/vlapi/mqttp"
)

// C15: (acl) the built-in authenticator of cmd/volantmq run on generated configurations through the
// verif-tagged test hook (cmd/volantmq/auth_verif_test.go, compiled once into a test binary);
// (chain) 1-3 scripted authenticators behind clients.Manager: CONNACK code, which authenticator's
// ACL governs publish (routed? retained? PUBACK reason) and subscribe (SUBACK code per filter).

type c15ACL struct {
	Read  string `json:"Read"`
	Write string `json:"Write"`
}
type c15Enh struct {
	User     string `json:"User"`
	Password string `json:"Password"`
	ACL      c15ACL `json:"ACL"`
}
type c15Cfg struct {
	Users      map[string]string `json:"Users"`
	EnhUsers   []c15Enh          `json:"EnhUsers"`
	DefaultACL c15ACL            `json:"DefaultACL"`
}
type c15Query struct {
	User     string `json:"user"`
	Password string `json:"password"`
	Topic    string `json:"topic"`
	Write    bool   `json:"write"`
}

type c15Case struct {
	Kind      string      `json:"kind"`
	Config    c15Cfg      `json:"config,omitempty"`
	PlainList [][2]string `json:"plain,omitempty"` // plain users in insertion order (name, password)
	File      []c15Enh    `json:"file,omitempty"`
	Queries   []c15Query  `json:"queries,omitempty"`
	Verdicts  []bool      `json:"verdicts,omitempty"`
	Refusal   int         `json:"refusal,omitempty"` // chain: how the authenticators word an ACL refusal (see progAuth.refusal)
	V5        bool        `json:"v5,omitempty"`
	// kind "alias": publishes of one v5 connection, each with a topic number (0: none, alias only) and an alias
	// (0: none); topic 9 is forbidden by the write ACL
	Pubs [][2]int `json:"pubs,omitempty"`
	// kind "will": a client whose user may not write nw0/ connects with a Will (QoS 1, RETAIN) on nw0/will (Forbidden)
	// or on free/will, and its connection is cut: a Will is a publish of that user like any other
	Forbidden bool `json:"forbidden,omitempty"`
	Delay     int  `json:"delay,omitempty"` // v5: Will Delay Interval in seconds (with a session expiry of 30 s)
}

type c15Obs struct {
	WillRouted   bool     `json:"willRouted,omitempty"`
	WillRetained bool     `json:"willRetained,omitempty"`
	LoadErr      string   `json:"loadErr,omitempty"`
	Password     []string `json:"password,omitempty"`
	ACL          []string `json:"acl,omitempty"`
	Connack      int      `json:"connack,omitempty"`
	Routed       []bool   `json:"routed,omitempty"`
	Retained     []bool   `json:"retained,omitempty"`
	Puback       []int    `json:"puback,omitempty"`
	Suback       []int    `json:"suback,omitempty"`
	SubackShared []int    `json:"subackShared,omitempty"` // v5: the same filters subscribed as $share/g/<filter>
	Undisturbed  bool     `json:"undisturbed,omitempty"`
	Alias        []int    `json:"alias,omitempty"` // per publish: 10+topic routed there | 1 denied | 2 connection closed
	Err          string   `json:"err,omitempty"`
}

type c15Prop struct {
	testBin string
	seq     int64
}

func init() { props["C15"] = &c15Prop{} }

func (p *c15Prop) ID() string { return "C15" }
func (p *c15Prop) Header() string {
	return "From Coq Require Import List NArith.\nImport ListNotations.\nFrom VMQ Require Import model.Auth chk.C15chk.\nOpen Scope N_scope.\n"
}
func (p *c15Prop) Parallel() int { return 8 }

func (p *c15Prop) Setup(tier string) error {
	dir, err := ioutil.TempDir("", "c15")
	if err != nil {
		return err
	}
	p.testBin = filepath.Join(dir, "authtest")
	cmd := exec.Command("go", "test", "-mod=mod", "-vet=off", "-c", "-tags", "verif", "-o", p.testBin, "./cmd/volantmq")
	cmd.Dir = "/repo"
	if out, err := cmd.CombinedOutput(); err != nil {
		p.testBin = ""
		fmt.Fprintln(os.Stderr, "C15: the verif hook of cmd/volantmq does not build:", string(out))
	}
	return nil
}
func (p *c15Prop) Teardown() {
	if p.testBin != "" {
		os.RemoveAll(filepath.Dir(p.testBin))
	}
}

func sha(s string) string {
	h := sha256.Sum256([]byte(s))
	return hex.EncodeToString(h[:])
}

var c15Prefixes = []string{"", "r/", "w/", "x"}
var c15Topics = []string{"r/a", "w/a", "x", "q", "xy"}

func pat(prefix string) string { return "^" + prefix + ".*$" }

func (p *c15Prop) Gen(r *Rng, i int, tier string) interface{} {
	if i%36 == 23 {
		return &c15Case{Kind: "q2swap", V5: r.Bool()}
	}
	if i%18 == 5 {
		c := &c15Case{Kind: "will", V5: r.Bool(), Forbidden: !r.Chance(30)}
		if c.V5 && r.Chance(40) {
			c.Delay = 1
		}
		return c
	}
	if i%9 == 8 {
		// topic aliases under the write ACL: topic 9 is forbidden; topics with / without alias and alias-only
		// publishes (also of aliases that were only ever used with the forbidden topic)
		c := &c15Case{Kind: "alias", V5: true}
		n := 3 + r.Intn(5)
		for k := 0; k < n; k++ {
			tp := []int{5, 6, 9, 9}[r.Intn(4)]
			al := r.Intn(4)
			switch x := r.Intn(10); {
			case x < 4:
				c.Pubs = append(c.Pubs, [2]int{tp, al})
			case x < 6:
				c.Pubs = append(c.Pubs, [2]int{tp, 0})
			default:
				// alias only: mostly an alias this connection has used before (also if only ever with the
				// forbidden topic), sometimes one it never used (protocol error: the connection ends)
				var used []int
				for _, q := range c.Pubs {
					if q[0] > 0 && q[1] > 0 {
						used = append(used, q[1])
					}
				}
				if len(used) > 0 && r.Chance(85) {
					c.Pubs = append(c.Pubs, [2]int{0, used[r.Intn(len(used))]})
				} else if len(used) == 0 && r.Chance(70) {
					c.Pubs = append(c.Pubs, [2]int{[]int{5, 9}[r.Intn(2)], 1 + r.Intn(3)})
				} else {
					c.Pubs = append(c.Pubs, [2]int{0, 1 + r.Intn(3)})
				}
			}
		}
		return c
	}
	if i%3 == 2 {
		n := 1 + r.Intn(3)
		c := &c15Case{Kind: "chain", V5: r.Bool()}
		for k := 0; k < n; k++ {
			c.Verdicts = append(c.Verdicts, r.Chance(45))
		}
		c.Refusal = []int{0, 0, 1, 2}[r.Intn(4)]
		return c
	}
	c := &c15Case{Kind: "acl"}
	optPat := func() string {
		if r.Chance(40) {
			return ""
		}
		return pat(c15Prefixes[r.Intn(len(c15Prefixes))])
	}
	c.Config.DefaultACL = c15ACL{Read: optPat(), Write: optPat()}
	names := []string{"u1", "u2", "e1", "e2", "e3"}
	c.Config.Users = map[string]string{}
	for _, u := range names[:2] {
		if r.Chance(60) {
			c.Config.Users[u] = sha("pw-" + u)
			c.PlainList = append(c.PlainList, [2]string{u, "pw-" + u})
		}
	}
	enh := func(u string) c15Enh {
		return c15Enh{User: u, Password: sha("pw-" + u), ACL: c15ACL{Read: optPat(), Write: optPat()}}
	}
	for _, u := range names[1:] { // u2 may be both plain and enhanced: the enhanced entry wins
		if r.Chance(55) {
			c.Config.EnhUsers = append(c.Config.EnhUsers, enh(u))
		}
	}
	for _, u := range names[2:] {
		if r.Chance(30) {
			c.File = append(c.File, enh(u))
		}
	}
	if r.Chance(12) {
		// a configuration without any user: the constructor installs "guest" / "guest" with the default rules
		c.Config.Users, c.Config.EnhUsers, c.File, c.PlainList = map[string]string{}, nil, nil, nil
		for k := 0; k < 8; k++ {
			q := c15Query{User: "guest", Password: "guest", Topic: c15Topics[r.Intn(len(c15Topics))], Write: r.Bool()}
			if r.Chance(25) {
				q.Password = "wrong"
			}
			if r.Chance(15) {
				q.User = "u1"
			}
			c.Queries = append(c.Queries, q)
		}
		return c
	}
	for k := 0; k < 10; k++ {
		u := append(names, "nobody")[r.Intn(len(names)+1)]
		pw := "pw-" + u
		if r.Chance(25) {
			pw = "wrong"
		}
		c.Queries = append(c.Queries, c15Query{User: u, Password: pw, Topic: c15Topics[r.Intn(len(c15Topics))], Write: r.Bool()})
	}
	return c
}

func (p *c15Prop) Decode(raw json.RawMessage) (interface{}, error) {
	c := &c15Case{}
	return c, json.Unmarshal(raw, c)
}

func (p *c15Prop) runACL(c *c15Case) *c15Obs {
	obs := &c15Obs{}
	if p.testBin == "" {
		obs.Err = "verif hook not built"
		return obs
	}
	dir := filepath.Dir(p.testBin)
	n := atomic.AddInt64(&p.seq, 1)
	in, out := filepath.Join(dir, fmt.Sprintf("in%d.json", n)), filepath.Join(dir, fmt.Sprintf("out%d.json", n))
	file := ""
	if len(c.File) > 0 {
		var sb strings.Builder
		for _, e := range c.File {
			fmt.Fprintf(&sb, "- user: %q\n  password: %q\n  acl:\n    read: %q\n    write: %q\n", e.User, e.Password, e.ACL.Read, e.ACL.Write)
		}
		file = sb.String()
	}
	payload := []map[string]interface{}{{"config": c.Config, "usersFileContent": file, "queries": c.Queries}}
	raw, _ := json.Marshal(payload)
	_ = ioutil.WriteFile(in, raw, 0o600)
	cmd := exec.Command(p.testBin, "-test.run", "TestVerifBuiltinAuth")
	cmd.Env = append(os.Environ(), "VERIF_AUTH_CASES="+in, "VERIF_AUTH_OUT="+out)
	cmd.Dir = "/repo/cmd/volantmq"
	if o, err := cmd.CombinedOutput(); err != nil {
		obs.Err = "hook run: " + err.Error() + ": " + string(o)
		return obs
	}
	res, err := ioutil.ReadFile(out)
	if err != nil {
		obs.Err = err.Error()
		return obs
	}
	var arr []c15Obs
	if err := json.Unmarshal(res, &arr); err != nil || len(arr) != 1 {
		obs.Err = "hook output"
		return obs
	}
	return &arr[0]
}

func (p *c15Prop) Run(ci interface{}) interface{} {
	c := ci.(*c15Case)
	if c.Kind == "acl" {
		return p.runACL(c)
	}
	if c.Kind == "will" {
		return p.runWill(c)
	}
	if c.Kind == "q2swap" {
		return p.runQ2Swap(c)
	}
	if c.Kind == "alias" {
		return p.runAlias(c)
	}
	obs := &c15Obs{}
	var auths []*progAuth
	for k := range c.Verdicts {
		k := k
		auths = append(auths, &progAuth{
			refusal:  c.Refusal,
			password: func(_, user, _ string) bool { return user != "tested" || c.Verdicts[k] },
			acl: func(_, user, topic string, write bool) bool {
				if user != "tested" {
					return true
				}
				if write {
					return !strings.HasPrefix(topic, fmt.Sprintf("nw%d/", k))
				}
				return !strings.HasPrefix(topic, fmt.Sprintf("nr%d/", k))
			},
		})
	}
	b, err := NewBroker(BrokerOpts{Auth: auths, SubsShared: true})
	if err != nil {
		obs.Err = err.Error()
		return obs
	}
	defer b.Drop()
	ver := mqttp.ProtocolV311
	if c.V5 {
		ver = mqttp.ProtocolV50
	}
	// a session already connected under the client id the tested CONNECT uses
	wc := b.Dial()
	if _, err := wc.Connect(ConnectOpts{ID: "watcher", Ver: mqttp.ProtocolV311, Clean: true, User: "other", Pass: "x"}); err != nil {
		obs.Err = "watcher: " + err.Error()
		return obs
	}
	w := wc.Auto(false)
	_ = w.SendL(mkSubscribe(mqttp.ProtocolV311, 1, []string{"#"}, []byte{1}))
	if !w.WaitFor(5*time.Second, func() bool { return len(w.Others) >= 1 }) {
		obs.Err = "watcher: no suback"
		return obs
	}
	accepted := false
	for _, v := range c.Verdicts {
		accepted = accepted || v
	}
	var prior *Auto
	if !accepted {
		pc := b.Dial()
		if _, err := pc.Connect(ConnectOpts{ID: "T", Ver: mqttp.ProtocolV311, Clean: true, User: "other", Pass: "x"}); err != nil {
			obs.Err = "prior: " + err.Error()
			return obs
		}
		prior = pc.Auto(false)
		_ = prior.SendL(mkSubscribe(mqttp.ProtocolV311, 1, []string{"prior/t"}, []byte{0}))
		if !prior.WaitFor(5*time.Second, func() bool { return len(prior.Others) >= 1 }) {
			obs.Err = "prior: no suback"
			return obs
		}
	}
	tc := b.Dial()
	ack, err := tc.Connect(ConnectOpts{ID: "T", Ver: ver, Clean: true, User: "tested", Pass: "pw"})
	if err != nil {
		obs.Err = "tested: " + err.Error()
		return obs
	}
	obs.Connack = int(ack.ReturnCode())
	if !accepted {
		// the refused attempt must not have disturbed the session connected under the same id
		_ = w.SendL(mkPublish(mqttp.ProtocolV311, "prior/t", []byte{7}, 0, false, 0))
		obs.Undisturbed = prior.WaitFor(5*time.Second, func() bool { return len(prior.Pubs) >= 1 }) && !prior.Closed()
		return obs
	}
	t := tc.Auto(false)
	for j := range c.Verdicts {
		topic := fmt.Sprintf("nw%d/t", j)
		before := w.NPubs()
		nack := len(t.Others)
		// the payload makes the packet about as long as the CONNECT was, user name and all: what the connection keeps
		// of its CONNECT must be its own
		_ = t.SendL(mkPublish(ver, topic, append([]byte{byte(j)}, []byte("xxxxxxxxxxxxx")...), 1, true, uint16(10+j)))
		if !t.WaitFor(5*time.Second, func() bool { return len(t.Others) > nack }) {
			obs.Err = "no puback"
			return obs
		}
		t.mu.Lock()
		if a, ok := t.Others[len(t.Others)-1].(*mqttp.Ack); ok {
			obs.Puback = append(obs.Puback, int(a.Reason()))
		} else {
			obs.Puback = append(obs.Puback, -1)
		}
		t.mu.Unlock()
		// barrier on the same connection: a QoS0 marker on a topic nobody forbids
		_ = t.SendL(mkPublish(ver, "marker/t", []byte{0xEE, byte(j)}, 0, false, 0))
		w.WaitFor(5*time.Second, func() bool {
			for _, m := range w.Pubs[before:] {
				if m.Topic() == "marker/t" {
					return true
				}
			}
			return false
		})
		routed := false
		w.mu.Lock()
		for _, m := range w.Pubs[before:] {
			if m.Topic() == topic {
				routed = true
			}
		}
		w.mu.Unlock()
		obs.Routed = append(obs.Routed, routed)
		time.Sleep(5 * time.Millisecond) // the retainer goroutine is asynchronous; a denied publish never reaches it
		r, _ := b.Topics.Retained(topic)
		if routed { // wait for the retain to land before judging
			deadline := time.Now().Add(2 * time.Second)
			for len(r) == 0 && time.Now().Before(deadline) {
				time.Sleep(time.Millisecond)
				r, _ = b.Topics.Retained(topic)
			}
		}
		obs.Retained = append(obs.Retained, len(r) > 0)
	}
	// one SUBSCRIBE with one filter per authenticator index
	var fs []string
	for j := range c.Verdicts {
		fs = append(fs, fmt.Sprintf("nr%d/f", j))
	}
	nack := len(t.Others)
	ops := make([]byte, len(fs))
	for k := range ops {
		ops[k] = 1
	}
	_ = t.SendL(mkSubscribe(ver, 99, fs, ops))
	if !t.WaitFor(5*time.Second, func() bool { return len(t.Others) > nack }) {
		obs.Err = "no suback"
		return obs
	}
	t.mu.Lock()
	if sa, ok := t.Others[len(t.Others)-1].(*mqttp.SubAck); ok {
		for _, rc := range sa.ReturnCodes() {
			obs.Suback = append(obs.Suback, int(rc))
		}
	}
	t.mu.Unlock()
	if c.V5 {
		// the read rules apply to the FILTER of a shared subscription, whatever share name the client picks
		var sfs []string
		for j := range c.Verdicts {
			sfs = append(sfs, fmt.Sprintf("$share/g%d/nr%d/f", j, j))
		}
		nack = len(t.Others)
		_ = t.SendL(mkSubscribe(ver, 98, sfs, ops))
		if !t.WaitFor(5*time.Second, func() bool { return len(t.Others) > nack || t.closed }) || t.Closed() {
			obs.Err = "no suback for the shared subscriptions"
			return obs
		}
		t.mu.Lock()
		if sa, ok := t.Others[len(t.Others)-1].(*mqttp.SubAck); ok {
			for _, rc := range sa.ReturnCodes() {
				obs.SubackShared = append(obs.SubackShared, int(rc))
			}
		}
		t.mu.Unlock()
	}
	return obs
}

func (p *c15Prop) runAlias(c *c15Case) interface{} {
	obs := &c15Obs{Alias: []int{}}
	auths := []*progAuth{{
		password: func(_, _, _ string) bool { return true },
		acl: func(_, user, topic string, write bool) bool {
			return !(user == "tested" && write && strings.HasPrefix(topic, "al9/"))
		},
	}}
	b, err := NewBroker(BrokerOpts{Auth: auths, MaxTopicAlias: 4})
	if err != nil {
		obs.Err = err.Error()
		return obs
	}
	defer b.Drop()
	wc := b.Dial()
	if _, err := wc.Connect(ConnectOpts{ID: "watcher", Ver: mqttp.ProtocolV311, Clean: true, User: "other", Pass: "x"}); err != nil {
		obs.Err = "watcher: " + err.Error()
		return obs
	}
	w := wc.Auto(false)
	_ = w.SendL(mkSubscribe(mqttp.ProtocolV311, 1, []string{"#"}, []byte{1}))
	if !w.WaitFor(5*time.Second, func() bool { return len(w.Others) >= 1 }) {
		obs.Err = "watcher: no suback"
		return obs
	}
	tc := b.Dial()
	if _, err := tc.Connect(ConnectOpts{ID: "T", Ver: mqttp.ProtocolV50, Clean: true, User: "tested", Pass: "pw"}); err != nil {
		obs.Err = "tested: " + err.Error()
		return obs
	}
	t := tc.Auto(false)
	for k, pa := range c.Pubs {
		topic := ""
		if pa[0] > 0 {
			topic = fmt.Sprintf("al%d/t", pa[0])
		}
		m := mqttp.NewPublish(mqttp.ProtocolV50)
		_ = m.SetQoS(1)
		if topic != "" {
			_ = m.SetTopic(topic)
		}
		m.SetPayload([]byte{0xA1, byte(k)})
		m.SetPacketID(mqttp.IDType(20 + k))
		if pa[1] > 0 {
			_ = m.PropertySet(mqttp.PropertyTopicAlias, uint16(pa[1]))
		}
		before := w.NPubs()
		nack := len(t.Others)
		if _, err := mqttp.Encode(m); err != nil {
			obs.Err = "encode: " + err.Error()
			return obs
		}
		_ = t.SendL(m)
		t.WaitFor(5*time.Second, func() bool { return len(t.Others) > nack })
		closed := t.Closed()
		if !closed {
			// barrier on the same connection
			_ = t.SendL(mkPublish(mqttp.ProtocolV50, "marker/t", []byte{0xEE, byte(k)}, 0, false, 0))
			w.WaitFor(5*time.Second, func() bool {
				for _, x := range w.Pubs[before:] {
					if x.Topic() == "marker/t" {
						return true
					}
				}
				return t.Closed()
			})
		} else {
			time.Sleep(20 * time.Millisecond)
		}
		code := 1
		w.mu.Lock()
		for _, x := range w.Pubs[before:] {
			if len(x.Payload()) == 2 && x.Payload()[0] == 0xA1 && x.Payload()[1] == byte(k) {
				var tn int
				fmt.Sscanf(x.Topic(), "al%d/t", &tn)
				code = 10 + tn
			}
		}
		w.mu.Unlock()
		if code == 1 && t.Closed() {
			code = 2
		}
		obs.Alias = append(obs.Alias, code)
		if t.Closed() {
			break
		}
	}
	return obs
}

func (p *c15Prop) Suspect(oi interface{}) bool { return oi.(*c15Obs).Err != "" }

func prefixOf(pattern string) string {
	return strings.TrimSuffix(strings.TrimPrefix(pattern, "^"), ".*$")
}
func cOptStr(pattern string) string {
	if pattern == "" {
		return "None"
	}
	return "(Some " + cBytes([]byte(prefixOf(pattern))) + ")"
}
func vc(s string) int {
	switch {
	case s == "allow":
		return 0
	case s == "deny":
		return 1
	}
	return 2
}

func (p *c15Prop) Coq(ci interface{}, oi interface{}) string {
	c := ci.(*c15Case)
	o := oi.(*c15Obs)
	bools := func(bs []bool) string {
		it := make([]string, len(bs))
		for i, b := range bs {
			it[i] = cBool(b)
		}
		return cList(it)
	}
	if c.Kind == "alias" {
		ps := make([]string, len(c.Pubs))
		for i, pa := range c.Pubs {
			t := "None"
			if pa[0] > 0 {
				t = fmt.Sprintf("(Some %d%%N)", pa[0])
			}
			ps[i] = fmt.Sprintf("(%s, %d%%N)", t, pa[1])
		}
		return fmt.Sprintf("(CAlias %s %s %s)", cList(ps), cInts(o.Alias), cBool(o.Err == ""))
	}
	if c.Kind == "q2swap" {
		return fmt.Sprintf("(CQ2Swap %s %s %s %s)", cBool(c.V5), cBool(o.WillRouted), cBool(o.WillRetained), cBool(o.Err == ""))
	}
	if c.Kind == "will" {
		return fmt.Sprintf("(CWill %s %s %d %s %s %s)", cBool(c.Forbidden), cBool(c.V5), o.Connack, cBool(o.WillRouted), cBool(o.WillRetained), cBool(o.Err == ""))
	}
	if c.Kind == "chain" {
		return fmt.Sprintf("(CChain %s %s %d %s %s %s %s %s %s %s)", bools(c.Verdicts), cBool(c.V5), o.Connack, bools(o.Routed), bools(o.Retained), cInts(o.Puback), cInts(o.Suback), cInts(o.SubackShared), cBool(o.Undisturbed), cBool(o.Err == ""))
	}
	enh := func(es []c15Enh) string {
		it := make([]string, len(es))
		for i, e := range es {
			it[i] = fmt.Sprintf("(mkEnh %s %s (mkACL %s %s))", cBytes([]byte(e.User)), cBytes([]byte(e.Password)), cOptStr(e.ACL.Read), cOptStr(e.ACL.Write))
		}
		return cList(it)
	}
	us := make([]string, len(c.PlainList))
	for i, u := range c.PlainList {
		us[i] = fmt.Sprintf("(%s, %s)", cBytes([]byte(u[0])), cBytes([]byte(sha(u[1]))))
	}
	cfg := fmt.Sprintf("(mkCfg %s %s %s (mkACL %s %s))", cList(us), enh(c.Config.EnhUsers), enh(c.File), cOptStr(c.Config.DefaultACL.Read), cOptStr(c.Config.DefaultACL.Write))
	qs := make([]string, 0, len(c.Queries))
	for i, q := range c.Queries {
		if i >= len(o.Password) || i >= len(o.ACL) {
			break
		}
		qs = append(qs, fmt.Sprintf("(mkQ %s %s %s %s %d %d)", cBytes([]byte(q.User)), cBytes([]byte(sha(q.Password))), cBytes([]byte(q.Topic)), cBool(q.Write), vc(o.Password[i]), vc(o.ACL[i])))
	}
	return fmt.Sprintf("(CAcl %s %s %s)", cfg, cList(qs), cBool(o.Err == "" && o.LoadErr == "" && len(qs) == len(c.Queries)))
}

func (p *c15Prop) Class(ci interface{}, oi interface{}) (string, bool) {
	c := ci.(*c15Case)
	if c.Kind == "alias" {
		return "alias", true
	}
	if c.Kind == "will" {
		return "will", true
	}
	if c.Kind == "q2swap" {
		return "q2swap", true
	}
	if c.Kind == "chain" {
		return fmt.Sprintf("chain-%d", len(c.Verdicts)), true
	}
	partial := false
	for _, e := range append(append([]c15Enh{}, c.Config.EnhUsers...), c.File...) {
		if (e.ACL.Read == "") != (e.ACL.Write == "") {
			partial = true
		}
	}
	if partial {
		return "acl+partial-user-acl", true
	}
	return "acl", len(c.Config.EnhUsers)+len(c.File) > 0
}

func (p *c15Prop) runWill(c *c15Case) interface{} {
	obs := &c15Obs{}
	au := &progAuth{
		password: func(_, _, _ string) bool { return true },
		acl: func(_, user, topic string, write bool) bool {
			return !(user == "tested" && write && strings.HasPrefix(topic, "nw0/"))
		},
	}
	b, err := NewBroker(BrokerOpts{Auth: []*progAuth{au}})
	if err != nil {
		obs.Err = err.Error()
		return obs
	}
	defer b.Drop()
	wc := b.Dial()
	if _, err := wc.Connect(ConnectOpts{ID: "watcher", Ver: mqttp.ProtocolV311, Clean: true, User: "other", Pass: "x"}); err != nil {
		obs.Err = "watcher: " + err.Error()
		return obs
	}
	w := wc.Auto(false)
	_ = w.SendL(mkSubscribe(mqttp.ProtocolV311, 1, []string{"#"}, []byte{1}))
	if !w.WaitFor(5*time.Second, func() bool { return len(w.Others) >= 1 }) {
		obs.Err = "watcher: no suback"
		return obs
	}
	ver := mqttp.ProtocolV311
	if c.V5 {
		ver = mqttp.ProtocolV50
	}
	topic := "free/will"
	if c.Forbidden {
		topic = "nw0/will"
	}
	will := mqttp.NewPublish(ver)
	_ = will.Set(topic, []byte{0x77}, 1, true, false)
	o := ConnectOpts{ID: "T", Ver: ver, Clean: true, User: "tested", Pass: "pw", Will: will}
	if c.Delay > 0 {
		_ = will.PropertySet(mqttp.PropertyWillDelayInterval, uint32(c.Delay))
		exp := uint32(30)
		o.Expiry = &exp
	}
	tc := b.Dial()
	ack, err := tc.Connect(o)
	if err != nil {
		obs.Err = "tested: " + err.Error()
		return obs
	}
	obs.Connack = int(ack.ReturnCode())
	tc.Close()
	wait := 700*time.Millisecond + time.Duration(c.Delay)*time.Second
	obs.WillRouted = w.WaitFor(wait, func() bool {
		for _, m := range w.Pubs {
			if m.Topic() == topic {
				return true
			}
		}
		return false
	})
	r, _ := b.Topics.Retained(topic)
	obs.WillRetained = len(r) > 0
	return obs
}

// q2swap: an authorised QoS 2 PUBLISH is waiting for its PUBREL; a second QoS 2 PUBLISH under the SAME packet identifier
// names a topic the user may not write; then the PUBREL: what is routed is the authorised message, never the other one
// (WillRouted: the authorised one was routed; WillRetained: the forbidden one was)
func (p *c15Prop) runQ2Swap(c *c15Case) interface{} {
	obs := &c15Obs{}
	au := &progAuth{
		password: func(_, _, _ string) bool { return true },
		acl: func(_, user, topic string, write bool) bool {
			return !(user == "tested" && write && strings.HasPrefix(topic, "nw0/"))
		},
	}
	b, err := NewBroker(BrokerOpts{Auth: []*progAuth{au}})
	if err != nil {
		obs.Err = err.Error()
		return obs
	}
	defer b.Drop()
	wc := b.Dial()
	if _, err := wc.Connect(ConnectOpts{ID: "watcher", Ver: mqttp.ProtocolV311, Clean: true, User: "other", Pass: "x"}); err != nil {
		obs.Err = "watcher: " + err.Error()
		return obs
	}
	w := wc.Auto(false)
	_ = w.SendL(mkSubscribe(mqttp.ProtocolV311, 1, []string{"#"}, []byte{1}))
	if !w.WaitFor(5*time.Second, func() bool { return len(w.Others) >= 1 }) {
		obs.Err = "watcher: no suback"
		return obs
	}
	ver := mqttp.ProtocolV311
	if c.V5 {
		ver = mqttp.ProtocolV50
	}
	tc := b.Dial()
	if _, err := tc.Connect(ConnectOpts{ID: "T", Ver: ver, Clean: true, User: "tested", Pass: "pw"}); err != nil {
		obs.Err = "tested: " + err.Error()
		return obs
	}
	// a raw client: nothing is answered by itself, the PUBREL is sent below
	_ = tc.Send(mkPublish(ver, "ok/t", []byte{1}, 2, false, 77))
	if pk, err := tc.Recv(5 * time.Second); err != nil || pk.Type() != mqttp.PUBREC {
		obs.Err = "no PUBREC"
		return obs
	}
	evil := mkPublish(ver, "nw0/t", []byte{2}, 2, true, 77)
	evil.SetDup(true)
	_ = tc.Send(evil)
	_, _ = tc.Recv(2 * time.Second)
	_ = tc.Send(mkAck(ver, mqttp.PUBREL, 77))
	_, _ = tc.Recv(2 * time.Second)
	_ = tc.Send(mkPublish(ver, "marker/t", []byte{0xEE}, 0, false, 0))
	w.WaitFor(3*time.Second, func() bool {
		for _, m := range w.Pubs {
			if m.Topic() == "marker/t" {
				return true
			}
		}
		return false
	})
	w.mu.Lock()
	for _, m := range w.Pubs {
		if m.Topic() == "ok/t" {
			obs.WillRouted = true
		}
		if m.Topic() == "nw0/t" {
			obs.WillRetained = true
		}
	}
	w.mu.Unlock()
	if r, _ := b.Topics.Retained("nw0/t"); len(r) > 0 {
		obs.WillRetained = true
	}
	return obs
}
