package main

import (
	"encoding/json"
	"fmt"
	"sort"
	"strings"
	"sync"
	"time"

	"github.com/VolantMQ/vlapi/mqttp"
	"github.com/VolantMQ/vlapi/vlsubscriber"

	topicsTypes "github.com/VolantMQ/volantmq/topics/types"
)

// C01 / C07: histories of subscribe / resubscribe / unsubscribe / retain-set / retain-clear / publish /
// Retained(filter) on both topic providers with recording stub subscribers.

type c01Op struct {
	Op    string `json:"op"` // sub | unsub | ret | pub | retq
	F     string `json:"f,omitempty"`
	S     int    `json:"s,omitempty"`
	QoS   int    `json:"qos,omitempty"`
	RH    int    `json:"rh,omitempty"`
	Tag   int    `json:"tag,omitempty"`
	Empty bool   `json:"empty,omitempty"`
	Exp   bool   `json:"exp,omitempty"`   // retained message already expired
	Share bool   `json:"share,omitempty"` // provider "broker", v5 sessions: the filter goes on the wire as $share/g<s>/<filter>
	// provider "broker", unsub: the UNSUBSCRIBE names a filter the session never held FIRST, then this one
	Pre bool `json:"pre,omitempty"`
}

type c01Case struct {
	Provider string  `json:"provider"`
	Ops      []c01Op `json:"ops"`
}

type c01Step struct {
	Recv []int `json:"recv,omitempty"`
	Tags []int `json:"tags,omitempty"`
}

type c01Obs struct {
	Steps []c01Step `json:"steps"`
	Err   string    `json:"err,omitempty"`
}

type c01Prop struct{ id string }

func init() {
	props["C01"] = &c01Prop{"C01"}
	props["C07"] = &c01Prop{"C07"}
}

func (p *c01Prop) ID() string { return p.id }
func (p *c01Prop) Header() string {
	return "From Coq Require Import List NArith.\nImport ListNotations.\nFrom VMQ Require Import model.Trie chk.C01chk.\nOpen Scope N_scope.\n"
}
func (p *c01Prop) Parallel() int { return 8 }

var c01Levels = []string{"a", "b", "", "$s", "a", "b", "\xc3\xa9"}

func genTopic(r *Rng) string {
	n := 1 + r.Intn(4)
	ls := make([]string, n)
	for i := range ls {
		ls[i] = c01Levels[r.Intn(len(c01Levels))]
		if i > 0 && ls[i] == "$s" && r.Bool() {
			ls[i] = "a"
		}
	}
	return strings.Join(ls, "/")
}

func genFilter(r *Rng) string {
	n := 1 + r.Intn(4)
	ls := make([]string, n)
	for i := range ls {
		switch x := r.Intn(10); {
		case x < 2:
			ls[i] = "+"
		case x == 2 && i == n-1:
			ls[i] = "#"
		default:
			ls[i] = c01Levels[r.Intn(len(c01Levels))]
		}
	}
	if r.Chance(20) {
		ls[n-1] = "#"
	}
	return strings.Join(ls, "/")
}

func (p *c01Prop) Gen(r *Rng, i int, tier string) interface{} {
	c := &c01Case{Provider: "lf"}
	if i%3 == 2 {
		c.Provider = "mem"
	}
	broker := i%10 == 7
	shared := map[string]bool{}
	restarts := false
	if broker {
		c.Provider = "broker"
		restarts = r.Chance(40)
	}
	n := 6 + r.Intn(30)
	var filters, topics []string // re-use what was used before: that is where pruning decides
	tag := 0
	var lastRet *c01Op
	for k := 0; k < n; k++ {
		x := r.Intn(100)
		pickF := func() string {
			if len(filters) > 0 && r.Chance(60) {
				return filters[r.Intn(len(filters))]
			}
			f := genFilter(r)
			if len(topics) > 0 && r.Chance(30) {
				f = topics[r.Intn(len(topics))] // a filter equal to a topic in use
			}
			filters = append(filters, f)
			return f
		}
		pickT := func() string {
			if len(topics) > 0 && r.Chance(55) {
				return topics[r.Intn(len(topics))]
			}
			t := genTopic(r)
			if len(filters) > 0 && r.Chance(35) {
				f := filters[r.Intn(len(filters))]
				f = strings.ReplaceAll(strings.ReplaceAll(f, "+", c01Levels[r.Intn(len(c01Levels))]), "#", "a/b")
				t = f
			}
			topics = append(topics, t)
			return t
		}
		switch {
		case x < 25:
			c.Ops = append(c.Ops, c01Op{Op: "sub", F: pickF(), S: 1 + r.Intn(3), QoS: r.Intn(3), RH: r.Intn(3)})
		case x < 40:
			c.Ops = append(c.Ops, c01Op{Op: "unsub", F: pickF(), S: 1 + r.Intn(3), Pre: broker && r.Chance(30)})
		case x < 60:
			tag++
			op := c01Op{Op: "ret", F: pickT(), Tag: tag, QoS: r.Intn(3)}
			if r.Chance(30) {
				op.Empty = true
			} else if r.Chance(8) {
				op.Exp = true
			}
			if lastRet != nil && r.Chance(20) {
				// the SAME payload on the same topic again, with another QoS / expiry: the store must
				// hold the most recent publish, not merely an equal payload
				op = *lastRet
				op.QoS = (op.QoS + 1 + r.Intn(2)) % 3
				op.Exp = !op.Exp && r.Chance(40)
			}
			if !op.Empty {
				cp := op
				lastRet = &cp
			}
			c.Ops = append(c.Ops, op)
		case x < 88:
			c.Ops = append(c.Ops, c01Op{Op: "pub", F: pickT()})
		default:
			c.Ops = append(c.Ops, c01Op{Op: "retq", F: pickF()})
		}
		if broker {
			// what a client can put on the wire: no zero-length topic or filter, the expiry of a retained message
			// is not in play; session 3 speaks MQTT 3.1.1 (no Retain Handling option); every subscription asks for
			// QoS 2, so a retained copy arrives with the QoS it is stored with
			op := &c.Ops[len(c.Ops)-1]
			if op.F == "" {
				op.F = "a"
			}
			if strings.HasPrefix(op.F, "$") && !strings.Contains(op.F, "/") {
				op.F += "/a" // the packet library refuses a '$' name that is a single level
			}
			op.Exp = false
			if op.Op == "sub" {
				op.QoS = 2
				if op.S == 3 {
					op.RH = 0
				}
			}
			if (op.Op == "sub" || op.Op == "unsub") && op.S != 3 {
				// a (session, filter) pair is a shared subscription throughout the history or never: SUBSCRIBE and
				// UNSUBSCRIBE then name the same subscription under any reading of the specification
				key := fmt.Sprintf("%d|%s", op.S, op.F)
				sh, ok := shared[key]
				if !ok {
					sh = r.Chance(25)
					shared[key] = sh
				}
				op.Share = sh
			}
		}
		if broker && restarts && k > 2 && r.Chance(8) {
			// shutdown and start over the same persistence: the sessions are durable and come back with their
			// subscriptions, the retained messages published with QoS 1/2 are back (C01 "the same matching after restart")
			c.Ops = append(c.Ops, c01Op{Op: "restart"})
		}
	}
	return c
}

func (p *c01Prop) Decode(raw json.RawMessage) (interface{}, error) {
	c := &c01Case{}
	return c, json.Unmarshal(raw, c)
}

type recStub struct {
	id   int
	mu   *sync.Mutex
	recv *[][2]int // (stub id, payload tag)
}

func (s *recStub) Hash() uintptr { return uintptr(1000 + s.id) }
func (s *recStub) Publish(m *mqttp.Publish, _ mqttp.QosType, _ mqttp.SubscriptionOptions, _ []uint32) error {
	tag := 0
	if len(m.Payload()) >= 2 {
		tag = int(m.Payload()[0])<<8 | int(m.Payload()[1])
	}
	s.mu.Lock()
	*s.recv = append(*s.recv, [2]int{s.id, tag})
	s.mu.Unlock()
	return nil
}

func (p *c01Prop) Run(ci interface{}) interface{} {
	c := ci.(*c01Case)
	if c.Provider == "broker" {
		return p.runBroker(c)
	}
	obs := &c01Obs{}
	prov, err := newProvider(c.Provider)
	if err != nil {
		obs.Err = err.Error()
		return obs
	}
	defer prov.Shutdown()
	var mu sync.Mutex
	var recv [][2]int
	stubs := map[int]*recStub{}
	stub := func(id int) *recStub {
		if s, ok := stubs[id]; ok {
			return s
		}
		s := &recStub{id: id, mu: &mu, recv: &recv}
		stubs[id] = s
		return s
	}
	// sentinel subscriber for the publish barrier
	sent := stub(99)
	if r := prov.Subscribe(topicsTypes.SubscribeReq{Filter: "zz/sentinel", S: sent, Params: vlsubscriber.SubscriptionParams{Ops: mqttp.SubscriptionOptions(0 | 0x20)}}); r.Err != nil {
		obs.Err = r.Err.Error()
		return obs
	}
	waitFor := func(cond func() bool) bool {
		deadline := time.Now().Add(5 * time.Second)
		for time.Now().Before(deadline) {
			if cond() {
				return true
			}
			time.Sleep(50 * time.Microsecond)
		}
		return false
	}
	nsent := 0
	pubBarrier := func() bool {
		nsent++
		m := mqttp.NewPublish(mqttp.ProtocolV311)
		_ = m.Set("zz/sentinel", []byte{0xff, 0xff}, 0, false, false)
		_ = prov.Publish(m)
		want := nsent
		return waitFor(func() bool {
			mu.Lock()
			defer mu.Unlock()
			n := 0
			for _, x := range recv {
				if x[0] == 99 {
					n++
				}
			}
			return n >= want
		})
	}
	retBarrier := func() bool {
		// the retainer is one goroutine serving a FIFO channel: when a later retain is visible, the earlier one is done
		m := mqttp.NewPublish(mqttp.ProtocolV311)
		_ = m.Set("zz/rsentinel", []byte{1}, 1, true, false)
		_ = prov.Retain(m)
		if !waitFor(func() bool { r, _ := prov.Retained("zz/rsentinel"); return len(r) == 1 }) {
			return false
		}
		m2 := mqttp.NewPublish(mqttp.ProtocolV311)
		_ = m2.Set("zz/rsentinel", []byte{}, 1, true, false)
		_ = prov.Retain(m2)
		return waitFor(func() bool { r, _ := prov.Retained("zz/rsentinel"); return len(r) == 0 })
	}
	tagsOf := func(ms []*mqttp.Publish) []int {
		t := []int{}
		for _, m := range ms {
			if len(m.Payload()) >= 2 {
				t = append(t, (int(m.Payload()[0])<<8|int(m.Payload()[1]))*4+int(m.QoS()))
			}
		}
		sort.Ints(t)
		return t
	}
	for k, op := range c.Ops {
		st := c01Step{}
		switch op.Op {
		case "sub":
			ops := byte(op.QoS) | byte(op.RH)<<4
			r := prov.Subscribe(topicsTypes.SubscribeReq{Filter: op.F, S: stub(op.S), Params: vlsubscriber.SubscriptionParams{Ops: mqttp.SubscriptionOptions(ops)}})
			if r.Err != nil {
				obs.Err = fmt.Sprintf("step %d: subscribe: %v", k, r.Err)
			}
			st.Tags = tagsOf(r.Retained)
			// what a subscription is handed is the subscriber's own copy: a session lowers its QoS to the granted
			// one and clears RETAIN unless Retain As Published is set. The store must not notice.
			for _, m := range r.Retained {
				_ = m.SetQoS(0)
				m.SetRetain(false)
			}
		case "unsub":
			_ = prov.UnSubscribe(topicsTypes.UnSubscribeReq{Filter: op.F, S: stub(op.S)})
		case "ret":
			m := mqttp.NewPublish(mqttp.ProtocolV311)
			pl := []byte{byte(op.Tag >> 8), byte(op.Tag)}
			if op.Empty {
				pl = []byte{}
			}
			_ = m.Set(op.F, pl, mqttp.QosType(op.QoS), true, false)
			if op.Exp {
				m.SetExpireAt(time.Now().Add(-time.Hour))
			}
			_ = prov.Retain(m)
			if !retBarrier() {
				obs.Err = fmt.Sprintf("step %d: retain barrier timed out", k)
			}
		case "pub":
			mu.Lock()
			before := len(recv)
			mu.Unlock()
			m := mqttp.NewPublish(mqttp.ProtocolV311)
			_ = m.Set(op.F, []byte{0, byte(k)}, 0, false, false)
			_ = prov.Publish(m)
			if !pubBarrier() {
				obs.Err = fmt.Sprintf("step %d: publish barrier timed out", k)
			}
			mu.Lock()
			st.Recv = []int{}
			for _, x := range recv[before:] {
				if x[0] != 99 && x[1] == k { // the sentinel itself also reaches '#' subscribers: keep this step's payload only
					st.Recv = append(st.Recv, x[0])
				}
			}
			mu.Unlock()
			sort.Ints(st.Recv)
		case "retq":
			r, _ := prov.Retained(op.F)
			st.Tags = tagsOf(r)
		}
		obs.Steps = append(obs.Steps, st)
		if obs.Err != "" {
			break
		}
	}
	return obs
}

func (p *c01Prop) Suspect(oi interface{}) bool { return oi.(*c01Obs).Err != "" }

func cInts(xs []int) string {
	u := make([]uint64, len(xs))
	for i, x := range xs {
		u[i] = uint64(x)
	}
	return cNs(u)
}

func (p *c01Prop) Coq(ci interface{}, oi interface{}) string {
	c := ci.(*c01Case)
	o := oi.(*c01Obs)
	hs := []string{}
	volatile := map[string]bool{} // topics whose retained message was published at QoS 0
	for i, op := range c.Ops {
		if i >= len(o.Steps) {
			break
		}
		st := o.Steps[i]
		if op.Op == "ret" {
			volatile[op.F] = !op.Empty && op.QoS == 0
		}
		switch op.Op {
		case "restart":
			// what a restart is to the index: every subscription of the (durable) sessions is back, every retained
			// message published with QoS 1/2 is back, the ones published with QoS 0 are not persisted - as if each of
			// them had been cleared
			ts := []string{}
			for t, v := range volatile {
				if v {
					ts = append(ts, t)
				}
			}
			sort.Strings(ts)
			for _, t := range ts {
				hs = append(hs, fmt.Sprintf("(HOp (ORetain %s (mkMsg 0 0 false) true true) None)", cBytes([]byte(t))))
				volatile[t] = false
			}
		case "sub":
			hs = append(hs, fmt.Sprintf("(HOp (OSub %s %d (mkSP %d false false %d 0)) (Some %s))", cBytes([]byte(op.F)), op.S, op.QoS, op.RH, cInts(st.Tags)))
		case "unsub":
			hs = append(hs, fmt.Sprintf("(HOp (OUnsub %s %d) None)", cBytes([]byte(op.F)), op.S))
		case "ret":
			// topics/mem replaces a QoS 0 retained message in two steps under its lock, the lock-free index in one store
			hs = append(hs, fmt.Sprintf("(HOp (ORetain %s (mkMsg %d %d %s) %s %s) None)", cBytes([]byte(op.F)), op.Tag, op.QoS, cBool(op.Exp), cBool(op.Empty), cBool(c.Provider != "mem")))
			if c.Provider == "broker" {
				// sent by a client, a retained publish (also the empty one that clears) is routed like any other
				hs = append(hs, fmt.Sprintf("(HPub %s %s)", cBytes([]byte(op.F)), cInts(st.Recv)))
			}
		case "pub":
			hs = append(hs, fmt.Sprintf("(HPub %s %s)", cBytes([]byte(op.F)), cInts(st.Recv)))
		case "retq":
			hs = append(hs, fmt.Sprintf("(HRetQ %s %s)", cBytes([]byte(op.F)), cInts(st.Tags)))
		}
	}
	return fmt.Sprintf("(mkCase %s %s)", cList(hs), cBool(o.Err == ""))
}

func (p *c01Prop) Class(ci interface{}, oi interface{}) (string, bool) {
	c := ci.(*c01Case)
	o := oi.(*c01Obs)
	nz := 0
	for _, s := range o.Steps {
		if len(s.Recv) > 0 || len(s.Tags) > 0 {
			nz++
		}
	}
	l := c.Provider
	if nz > 0 {
		l += "+deliveries"
	}
	return l, nz > 0
}
