package main

import (
	"encoding/json"
	"flag"
	"fmt"
	"io/ioutil"
	"os"
	"path/filepath"
	"runtime"
	"runtime/pprof"
	"sort"
	"strings"
	"sync"
	"sync/atomic"
	"time"
)

// ---------- deterministic PRNG (splitmix64); every random choice derives from it ----------

type Rng struct{ s uint64 }

func NewRng(seed uint64) *Rng { return &Rng{s: seed} }

func (r *Rng) U64() uint64 {
	r.s += 0x9E3779B97F4A7C15
	z := r.s
	z = (z ^ (z >> 30)) * 0xBF58476D1CE4E5B9
	z = (z ^ (z >> 27)) * 0x94D049BB133111EB
	return z ^ (z >> 31)
}
func (r *Rng) Intn(n int) int {
	if n <= 0 {
		return 0
	}
	return int(r.U64() % uint64(n))
}
func (r *Rng) Bool() bool          { return r.U64()&1 == 1 }
func (r *Rng) Chance(pct int) bool { return r.Intn(100) < pct }
func (r *Rng) Pick(xs []int) int   { return xs[r.Intn(len(xs))] }
func (r *Rng) Fork(i uint64) *Rng {
	return NewRng(r.s ^ (i+1)*0xD1B54A32D192ED03)
}

// ---------- Coq term printing ----------

func cList(items []string) string { return "[" + strings.Join(items, "; ") + "]" }
func cBool(b bool) string {
	if b {
		return "true"
	}
	return "false"
}
func cN(n uint64) string { return fmt.Sprintf("%d%%N", n) }
func cZ(n int64) string {
	if n < 0 {
		return fmt.Sprintf("(%d)%%Z", n)
	}
	return fmt.Sprintf("%d%%Z", n)
}
func cNat(n int) string { return fmt.Sprintf("%d%%nat", n) }
func cNs(ns []uint64) string {
	it := make([]string, len(ns))
	for i, n := range ns {
		it[i] = cN(n)
	}
	return cList(it)
}
func cNats(ns []int) string {
	it := make([]string, len(ns))
	for i, n := range ns {
		it[i] = cNat(n)
	}
	return cList(it)
}
func cBytes(b []byte) string {
	it := make([]string, len(b))
	for i, n := range b {
		it[i] = fmt.Sprintf("%d", n)
	}
	return "(" + cList(it) + "%N)"
}
func cOptN(p *uint64) string {
	if p == nil {
		return "None"
	}
	return "(Some " + cN(*p) + ")"
}

// ---------- generic property driver ----------

// A Prop generates cases, runs them on the implementation and prints them as Coq terms.
type Prop interface {
	ID() string
	// Header is the Coq preamble (Require Imports) for cases.v; the file must then be able
	// to evaluate `mismatches cases`.
	Header() string
	// Gen produces case number i (JSON-serialisable).
	Gen(r *Rng, i int, tier string) interface{}
	// Decode parses a JSON case (corpus / replay).
	Decode(raw json.RawMessage) (interface{}, error)
	// Run executes the case on the implementation and returns a JSON-serialisable observation.
	Run(c interface{}) interface{}
	// Coq renders (case, observation) as a Coq term of the property's `case` type.
	Coq(c interface{}, o interface{}) string
	// Class returns a short label for the input distribution and whether the case is non-trivial.
	Class(c interface{}, o interface{}) (label string, nontrivial bool)
}

type Setupper interface{ Setup(tier string) error }
type Teardowner interface{ Teardown() }

// Lingerer: how long the process stays alive after the last case
type Lingerer interface{ Linger() time.Duration }
type Paralleler interface{ Parallel() int }

// Suspecter lets a property flag an observation that took a long timeout (blocked, missing);
// after a few of them the driver stops issuing new generated cases so that a broken tree is
// reported in minutes, not hours.  The verdict itself is always Coq's.
type Suspecter interface{ Suspect(o interface{}) bool }

// Timeouter provides the observation recorded for a case that did not finish within the case
// timeout (the implementation hung); without it a hanging case aborts the whole run.
type Timeouter interface {
	TimeoutObs(c interface{}) interface{}
}

const caseTimeout = 180 * time.Second

var props = map[string]Prop{}

type caseRec struct {
	Case interface{} `json:"case"`
	Obs  interface{} `json:"obs"`
	Src  string      `json:"src"`
}

func init() { subcmds["run"] = runCmd }

func runCmd(args []string) int {
	fs := flag.NewFlagSet("run", flag.ExitOnError)
	prop := fs.String("prop", "", "property id")
	seed := fs.Uint64("seed", 1, "seed")
	n := fs.Int("n", 100, "generated cases")
	tier := fs.String("tier", "quick", "tier")
	out := fs.String("out", "", "output dir")
	casesFile := fs.String("cases", "", "JSON file with an array of cases to run instead of generating")
	corpus := fs.String("corpus", "", "corpus dir (JSON case files, run first)")
	shard := fs.Int("shard", 500, "cases per cases_K.v file")
	rng := fs.String("range", "", "a:b — run only generated cases with index in [a,b) (crash isolation)")
	genOnly := fs.Bool("genonly", false, "write cases.json (cases only) without running them")
	_ = fs.Parse(args)
	p, ok := props[*prop]
	if !ok {
		fmt.Fprintln(os.Stderr, "unknown property", *prop)
		return 2
	}
	t0 := time.Now()
	if s, ok := p.(Setupper); ok {
		if err := s.Setup(*tier); err != nil {
			fmt.Fprintln(os.Stderr, "setup:", err)
			return 3
		}
	}
	var recs []caseRec
	if *casesFile != "" {
		raw, err := ioutil.ReadFile(*casesFile)
		if err != nil {
			fmt.Fprintln(os.Stderr, err)
			return 2
		}
		var arr []json.RawMessage
		if err := json.Unmarshal(raw, &arr); err != nil {
			fmt.Fprintln(os.Stderr, err)
			return 2
		}
		for _, a := range arr {
			c, err := p.Decode(a)
			if err != nil {
				fmt.Fprintln(os.Stderr, err)
				return 2
			}
			recs = append(recs, caseRec{Case: c, Src: "file"})
		}
	} else {
		if *corpus != "" {
			files, _ := filepath.Glob(filepath.Join(*corpus, "*.json"))
			sort.Strings(files)
			for _, f := range files {
				raw, err := ioutil.ReadFile(f)
				if err != nil {
					continue
				}
				c, err := p.Decode(raw)
				if err != nil {
					fmt.Fprintln(os.Stderr, "corpus", f, err)
					return 2
				}
				recs = append(recs, caseRec{Case: c, Src: "corpus:" + filepath.Base(f)})
			}
		}
		base := NewRng(*seed)
		lo, hi := 0, *n
		if *rng != "" {
			fmt.Sscanf(*rng, "%d:%d", &lo, &hi)
			recs = nil // no corpus when isolating
		}
		for i := lo; i < hi && i < *n; i++ {
			recs = append(recs, caseRec{Case: p.Gen(base.Fork(uint64(i)), i, *tier), Src: "gen"})
		}
	}
	if *genOnly {
		_ = os.MkdirAll(*out, 0o755)
		cj, _ := json.Marshal(recs)
		_ = ioutil.WriteFile(filepath.Join(*out, "cases.json"), cj, 0o644)
		return 0
	}
	par := 8
	if pp, ok := p.(Paralleler); ok {
		par = pp.Parallel()
	}
	var wg sync.WaitGroup
	sem := make(chan struct{}, par)
	var suspects int32
	sus, _ := p.(Suspecter)
	ran := 0
	for i := range recs {
		if atomic.LoadInt32(&suspects) >= 3 && *casesFile == "" {
			break
		}
		wg.Add(1)
		sem <- struct{}{}
		ran++
		go func(i int) {
			defer wg.Done()
			defer func() { <-sem }()
			done := make(chan interface{}, 1)
			go func() { done <- p.Run(recs[i].Case) }()
			select {
			case o := <-done:
				recs[i].Obs = o
			case <-time.After(caseTimeout):
				if to, ok := p.(Timeouter); ok {
					recs[i].Obs = to.TimeoutObs(recs[i].Case)
				} else {
					fmt.Fprintf(os.Stderr, "case %d did not finish within %v: %+v\n", i, caseTimeout, recs[i].Case)
					os.Exit(3)
				}
			}
			if sus != nil && sus.Suspect(recs[i].Obs) {
				atomic.AddInt32(&suspects, 1)
			}
		}(i)
	}
	wg.Wait()
	recs = recs[:ran]
	if l, ok := p.(Lingerer); ok {
		// timers the implementation has left behind fire in goroutines of their own: a panic there takes
		// this process down and is reported as a crash
		time.Sleep(l.Linger())
	}
	if s, ok := p.(Teardowner); ok {
		s.Teardown()
	}
	// write outputs
	_ = os.MkdirAll(*out, 0o755)
	dist := map[string]int{}
	distinct := map[string]bool{}
	nontrivial := 0
	var nshards int
	for start := 0; start < len(recs) || start == 0; start += *shard {
		end := start + *shard
		if end > len(recs) {
			end = len(recs)
		}
		var sb strings.Builder
		sb.WriteString(p.Header())
		sb.WriteString("\nDefinition cases := [\n")
		for i := start; i < end; i++ {
			sb.WriteString("  ")
			sb.WriteString(p.Coq(recs[i].Case, recs[i].Obs))
			if i+1 < end {
				sb.WriteString(";")
			}
			sb.WriteString("\n")
		}
		sb.WriteString("].\nSet Printing Width 1000000. Set Printing Depth 1000000.\n")
		sb.WriteString("Definition M := Eval vm_compute in mismatches cases.\nPrint M.\n")
		_ = ioutil.WriteFile(filepath.Join(*out, fmt.Sprintf("cases_%d.v", nshards)), []byte(sb.String()), 0o644)
		nshards++
		if end >= len(recs) {
			break
		}
	}
	for i := range recs {
		l, nt := p.Class(recs[i].Case, recs[i].Obs)
		dist[l]++
		if nt {
			b, _ := json.Marshal(recs[i].Case)
			if !distinct[string(b)] {
				distinct[string(b)] = true
				nontrivial++
			}
		}
	}
	cj, _ := json.Marshal(recs)
	_ = ioutil.WriteFile(filepath.Join(*out, "cases.json"), cj, 0o644)
	ns := 3
	if len(recs) < ns {
		ns = len(recs)
	}
	stats := map[string]interface{}{
		"property":            p.ID(),
		"evaluations":         len(recs),
		"distinct_nontrivial": nontrivial,
		"distribution":        dist,
		"samples":             recs[:ns],
		"shards":              nshards,
		"shard_size":          *shard,
		"impl_wall_s":         time.Since(t0).Seconds(),
	}
	if os.Getenv("VH_MEM") != "" {
		for k := 0; k < 4; k++ {
			time.Sleep(3 * time.Second)
			runtime.GC()
			var m0 runtime.MemStats
			runtime.ReadMemStats(&m0)
			fmt.Fprintf(os.Stderr, "VH_MEM t=%ds goroutines=%d heap_alloc=%dMB\n", 3*(k+1), runtime.NumGoroutine(), m0.HeapAlloc>>20)
		}
		var ms runtime.MemStats
		runtime.ReadMemStats(&ms)
		fmt.Fprintf(os.Stderr, "VH_MEM goroutines=%d heap_alloc=%dMB heap_sys=%dMB\n", runtime.NumGoroutine(), ms.HeapAlloc>>20, ms.HeapSys>>20)
		if os.Getenv("VH_MEM") == "2" {
			buf := make([]byte, 1<<22)
			n := runtime.Stack(buf, true)
			_ = ioutil.WriteFile("/tmp/vh_stacks.txt", buf[:n], 0o644)
			if f, err := os.Create("/tmp/vh_heap.pprof"); err == nil {
				_ = pprof.WriteHeapProfile(f)
				f.Close()
			}
		}
	}
	sj, _ := json.MarshalIndent(stats, "", " ")
	_ = ioutil.WriteFile(filepath.Join(*out, "stats.json"), sj, 0o644)
	return 0
}
