package main

import (
	"encoding/json"
	"fmt"
	"io/ioutil"
	"os"
	"os/exec"
	"path/filepath"
	"sync/atomic"
	"time"

	"github.com/VolantMQ/vlapi/mqttp"
	persistenceMem "gitlab.com/VolantMQ/vlplugin/persistence/mem"
)

// C03 / C02: one durable subscriber S (v5, Receive Maximum r; or v3.1.1) under a generated history of
//   send(qos, expiry) by a publisher, ack(k-th outstanding handshake, optional v5 error on PUBREC),
//   close (abrupt), open(rm) (reconnect, no clean start).
// After every step: routing barrier (sentinel to a second subscriber W on a topic only W has),
// then writer barrier (two PINGREQ round trips on S).  The concrete events and what S received in
// that step go to Coq, which replays them through the writer model and the property oracle.

type c03Op struct {
	Op  string `json:"op"` // send | ack | close | open | flap (reconnect, read CONNACK only, drop while the broker's writer is blocked) | late (reconnect while a message routed to the offline session is held inside the persistence call)
	QoS int    `json:"qos,omitempty"`
	Exp int    `json:"exp,omitempty"` // 0 none, 1 = expiry interval 1 s (always elapsed when checked), 100
	K   int    `json:"k,omitempty"`
	Err bool   `json:"err,omitempty"`
	// Twice: the acknowledgement is sent a second time (v5 PUBREC with an error code / PUBACK / PUBCOMP: nothing is
	// outstanding under that identifier any more, it must free nothing); Bogus: a refusing PUBREC for an identifier
	// that was never in flight
	Twice bool `json:"twice,omitempty"`
	Bogus bool `json:"bogus,omitempty"`
	// Accept (with Bogus): the PUBREC for the identifier that was never in flight ACCEPTS, and a PUBCOMP for the
	// same identifier follows as an event of its own: no PUBREL may answer it, no slot may come back
	Accept bool `json:"accept,omitempty"`
	RM    int  `json:"rm,omitempty"`
	// LowRM: keep a reconnect Receive Maximum below the number of unacknowledged packets
	// (the region of known finding C03-reconnect-lower-rm); generated cases never set it
	LowRM bool `json:"lowrm,omitempty"`
}

type c03Case struct {
	V5  bool    `json:"v5"`
	RM  int     `json:"rm"`
	Big bool    `json:"big,omitempty"` // payloads padded to 3000 bytes (retransmissions do not fit one write)
	Ops []c03Op `json:"ops"`
	// aggregate kinds (corpus only; seconds each):
	// Wrap > 0: that many QoS 1 messages on ONE connection (Receive Maximum RM), every delivery acknowledged at once
	//           except the one that carries packet identifier 65535, which is never acknowledged: the identifiers
	//           go twice around the 16-bit space and meet the stuck one
	Wrap int `json:"wrap,omitempty"`
	// Bulk > 0: that many QoS 1 messages for the OFFLINE durable session, then a reconnect that acknowledges everything
	Bulk int `json:"bulk,omitempty"`
	// Tail > 0: that many QoS 1 messages on ONE connection, all acknowledged at once, then THREE more that are not; the
	//           connection ends and the session comes back: the three are sent again in the order in which they were sent
	//           (whatever the connection has counted up to by then)
	Tail int `json:"tail,omitempty"`
	// Owed: a QoS 2 delivery is answered with PUBREC while the broker's writer is blocked (the client has stopped reading
	//       and a burst of QoS 0 traffic fills the pipe), then the connection ends: the PUBREL is owed to the next
	//       connection - once - and after PUBCOMP the whole Receive Maximum is available again
	Owed bool `json:"owed,omitempty"`
	// AckOrder: run the verif hook of package connection (the identifier freed by an acknowledgement is reused at once)
	AckOrder bool `json:"ackorder,omitempty"`
	// Over: the durable session begins by TAKING OVER a connected clean session of the same client id: from the CONNACK
	// on it is as durable as any other
	Over bool `json:"over,omitempty"`
	// Alias: the (v5) subscriber announces Topic Alias Maximum 5: its QoS 1/2 deliveries go through the writer's alias copy
	Alias bool `json:"alias,omitempty"`
}

type c03Wire struct {
	K   int  `json:"k"` // 0 pubrel, 1..3 publish qos0..2
	ID  int  `json:"id"`
	Tag int  `json:"tag"`
	Dup bool `json:"dup,omitempty"`
}

type c03Step struct {
	Ev    string    `json:"ev"` // Coq term of the concrete event
	Wire  []c03Wire `json:"wire"`
	Blind bool      `json:"blind,omitempty"` // the client did not read during this step: nothing to compare
}

type c03Obs struct {
	Steps []c03Step    `json:"steps"`
	Items [][2]int     `json:"items,omitempty"` // wrap: [a,b] = run a..b, [id,-1] = id issued and never acknowledged
	Got   int          `json:"got,omitempty"`   // bulk: distinct messages received after the reconnect
	Ack   *ackOrderObs `json:"ack,omitempty"`
	Err   string       `json:"err,omitempty"`
}

type c03Prop struct {
	id      string
	hookBin string
}

type ackOrderObs struct {
	SameID   bool `json:"sameId"`
	Kept     bool `json:"kept"`
	Released bool `json:"released"`
	Quota    int  `json:"quota"`
}

// the verif hook of package connection is a test binary built once per run
func (p *c03Prop) Setup(tier string) error {
	dir, err := ioutil.TempDir("", "c03hook")
	if err != nil {
		return err
	}
	p.hookBin = filepath.Join(dir, "conntest")
	cmd := exec.Command("go", "test", "-mod=mod", "-vet=off", "-c", "-tags", "verif", "-o", p.hookBin, "./connection")
	cmd.Dir = "/repo"
	if out, err := cmd.CombinedOutput(); err != nil {
		p.hookBin = ""
		fmt.Fprintln(os.Stderr, "C03: the verif hook of package connection does not build:", string(out))
	}
	return nil
}

func (p *c03Prop) Teardown() {
	if p.hookBin != "" {
		os.RemoveAll(filepath.Dir(p.hookBin))
	}
}

func (p *c03Prop) runAckOrder() *c03Obs {
	obs := &c03Obs{Steps: []c03Step{}}
	if p.hookBin == "" {
		obs.Err = "the verif hook of package connection is not available"
		return obs
	}
	f, err := ioutil.TempFile("", "ackobs")
	if err != nil {
		obs.Err = err.Error()
		return obs
	}
	f.Close()
	defer os.Remove(f.Name())
	cmd := exec.Command(p.hookBin, "-test.run", "TestVerifAckRelease")
	cmd.Env = append(os.Environ(), "VERIF_ACK_OUT="+f.Name())
	if o, err := cmd.CombinedOutput(); err != nil {
		obs.Err = "hook run: " + err.Error() + ": " + string(o)
		return obs
	}
	raw, err := ioutil.ReadFile(f.Name())
	a := &ackOrderObs{}
	if err != nil || json.Unmarshal(raw, a) != nil {
		obs.Err = "hook output"
		return obs
	}
	obs.Ack = a
	return obs
}

func init() {
	props["C03"] = &c03Prop{id: "C03"}
	props["C02"] = &c03Prop{id: "C02"}
}

func (p *c03Prop) ID() string { return p.id }
func (p *c03Prop) Header() string {
	return "From Coq Require Import List NArith ZArith.\nImport ListNotations.\nFrom VMQ Require Import model.Flow model.Writer chk.C03chk.\nOpen Scope N_scope.\n"
}
func (p *c03Prop) Parallel() int { return 8 }

func (p *c03Prop) Gen(r *Rng, i int, tier string) interface{} {
	c := &c03Case{V5: !r.Chance(15)}
	c.RM = []int{1, 1, 2, 3, 10}[r.Intn(5)]
	if !c.V5 {
		c.RM = 65535
	}
	if i%6 == 5 {
		// unacknowledged messages in flight, the connection drops, the client comes back but drops again
		// before it has read its retransmissions (the broker's writer is blocked), then comes back for good
		c.Big = r.Chance(70)
		c.RM = []int{3, 10}[r.Intn(2)]
		if !c.V5 {
			c.RM = 65535
		}
		k := 2 + r.Intn(2)
		for j := 0; j < k; j++ {
			c.Ops = append(c.Ops, c03Op{Op: "send", QoS: 1 + r.Intn(2)})
		}
		if r.Chance(40) {
			c.Ops = append(c.Ops, c03Op{Op: "ack", K: r.Intn(3)})
		}
		c.Ops = append(c.Ops, c03Op{Op: "close"}, c03Op{Op: "flap", RM: c.RM})
		if r.Chance(40) {
			c.Ops = append(c.Ops, c03Op{Op: "flap", RM: c.RM})
		}
		c.Ops = append(c.Ops, c03Op{Op: "open", RM: c.RM})
		for j := 0; j < 8; j++ {
			c.Ops = append(c.Ops, c03Op{Op: "ack", K: 0})
		}
		return c
	}
	n := 4 + r.Intn(22)
	online := true
	reconnects := p.id == "C02" || r.Chance(50)
	c.Over = reconnects && r.Chance(20)
	c.Alias = c.V5 && r.Chance(30)
	for k := 0; k < n; k++ {
		x := r.Intn(100)
		switch {
		case x < 45:
			op := c03Op{Op: "send", QoS: []int{0, 1, 1, 2, 2}[r.Intn(5)]}
			if c.V5 && r.Chance(15) {
				op.Exp = []int{1, 100}[r.Intn(2)]
			}
			c.Ops = append(c.Ops, op)
		case x < 85:
			if !online && p.id == "C02" && r.Chance(20) {
				c.Ops = append(c.Ops, c03Op{Op: "restart"})
			} else if online {
				c.Ops = append(c.Ops, c03Op{Op: "ack", K: r.Intn(4), Err: c.V5 && r.Chance(10), Twice: r.Chance(12), Bogus: r.Chance(6), Accept: r.Chance(60)})
			} else {
				c.Ops = append(c.Ops, c03Op{Op: "send", QoS: 1 + r.Intn(2)})
			}
		default:
			if !reconnects {
				c.Ops = append(c.Ops, c03Op{Op: "send", QoS: 1})
			} else if online {
				c.Ops = append(c.Ops, c03Op{Op: "close"})
				if r.Chance(30) {
					c.Ops = append(c.Ops, c03Op{Op: "flap", RM: c.RM})
				}
				online = false
			} else {
				rm := c.RM
				if c.V5 && r.Chance(30) {
					rm = []int{1, 2, 3, 10}[r.Intn(4)]
				}
				if p.id == "C02" && r.Chance(25) {
					// the reconnect races with a message that is still on its way into persistence
					c.Ops = append(c.Ops, c03Op{Op: "late", RM: rm})
				} else {
					c.Ops = append(c.Ops, c03Op{Op: "open", RM: rm})
				}
				online = true
			}
		}
	}
	if !online {
		c.Ops = append(c.Ops, c03Op{Op: "open", RM: c.RM})
	}
	// drain: acknowledge everything that is outstanding
	for k := 0; k < 12; k++ {
		c.Ops = append(c.Ops, c03Op{Op: "ack", K: 0})
	}
	return c
}

func (p *c03Prop) Decode(raw json.RawMessage) (interface{}, error) {
	c := &c03Case{}
	return c, json.Unmarshal(raw, c)
}

type c03Out struct {
	id   int
	kind mqttp.Type // the acknowledgement the client owes
}

// long streams: no per-message barrier, the subscriber's log is compressed
func (p *c03Prop) runOwed(c *c03Case) *c03Obs {
	obs := &c03Obs{Steps: []c03Step{}}
	b, err := NewBroker(BrokerOpts{})
	if err != nil {
		obs.Err = err.Error()
		return obs
	}
	defer b.Drop()
	ver := mqttp.ProtocolV50
	forever := uint32(0xFFFFFFFF)
	connectS := func(small bool) (*Client, error) {
		cl := b.Dial()
		if small {
			cl = b.DialCap(64)
		}
		_, err := cl.Connect(ConnectOpts{ID: "S", Ver: ver, Clean: false, Expiry: &forever, RecvMax: 3})
		return cl, err
	}
	sc, err := connectS(true)
	if err != nil {
		obs.Err = "S: " + err.Error()
		return obs
	}
	_ = sc.Send(mkSubscribe(ver, 1, []string{"t"}, []byte{2}))
	if pk, err := sc.Recv(5 * time.Second); err != nil || pk.Type() != mqttp.SUBACK {
		obs.Err = "S: no suback"
		return obs
	}
	pc := b.Dial()
	if _, err := pc.Connect(ConnectOpts{ID: "P", Ver: mqttp.ProtocolV311, Clean: true}); err != nil {
		obs.Err = "P: " + err.Error()
		return obs
	}
	pa := pc.Auto(false)
	_ = pa.SendL(mkPublish(mqttp.ProtocolV311, "t", []byte{1}, 2, false, 1))
	pk, err := sc.Recv(5 * time.Second)
	m, ok := pk.(*mqttp.Publish)
	if err != nil || !ok {
		obs.Err = "S: the QoS 2 message did not arrive"
		return obs
	}
	id, _ := m.ID()
	// from here on S does not read: a burst of QoS 0 messages blocks the broker's writer in its Write
	for k := 0; k < 40; k++ {
		_ = pa.SendL(mkPublish(mqttp.ProtocolV311, "t", make([]byte, 100), 0, false, 0))
	}
	time.Sleep(100 * time.Millisecond)
	_ = sc.Send(mkAck(ver, mqttp.PUBREC, uint16(id)))
	time.Sleep(100 * time.Millisecond) // the reader takes the PUBREC; the writer cannot get to the PUBREL
	d0 := b.Met.Disconnected()
	sc.Close()
	deadline := time.Now().Add(5 * time.Second)
	for time.Now().Before(deadline) && b.Met.Disconnected() == d0 {
		time.Sleep(time.Millisecond)
	}
	sc2, err := connectS(false)
	if err != nil {
		obs.Err = "S: reconnect: " + err.Error()
		return obs
	}
	// everything the broker owes: read until a PINGRESP
	_ = sc2.Send(mqttp.NewPingReq(ver))
	pubrels := 0
	for {
		pk, err := sc2.Recv(5 * time.Second)
		if err != nil {
			obs.Err = "S: " + err.Error()
			return obs
		}
		if pk.Type() == mqttp.PINGRESP {
			break
		}
		if a, ok := pk.(*mqttp.Ack); ok && a.Type() == mqttp.PUBREL {
			pubrels++
			_ = sc2.Send(mkAck(ver, mqttp.PUBCOMP, uint16(id)))
		}
	}
	// nothing in flight now: three QoS 1 messages fit the Receive Maximum of 3 without any acknowledgement
	for k := 0; k < 3; k++ {
		_ = pa.SendL(mkPublish(mqttp.ProtocolV311, "t", []byte{byte(10 + k)}, 1, false, uint16(10+k)))
	}
	got := 0
	for got < 3 {
		pk, err := sc2.Recv(2 * time.Second)
		if err != nil {
			break
		}
		if pm, ok := pk.(*mqttp.Publish); ok && pm.QoS() == 1 {
			got++
		}
	}
	obs.Items = [][2]int{{pubrels, got}}
	return obs
}

func (p *c03Prop) runLong(c *c03Case) *c03Obs {
	obs := &c03Obs{Steps: []c03Step{}}
	b, err := NewBroker(BrokerOpts{})
	if err != nil {
		obs.Err = err.Error()
		return obs
	}
	defer b.Drop()
	ver := mqttp.ProtocolV311
	if c.V5 {
		ver = mqttp.ProtocolV50
	}
	forever := uint32(0xFFFFFFFF)
	connectS := func() (*Client, error) {
		cl := b.Dial()
		o := ConnectOpts{ID: "S", Ver: ver, Clean: false}
		if c.V5 {
			o.Expiry = &forever
			o.RecvMax = uint16(c.RM)
		}
		_, err := cl.Connect(o)
		return cl, err
	}
	sc, err := connectS()
	if err != nil {
		obs.Err = "S: " + err.Error()
		return obs
	}
	if err := sc.Send(mkSubscribe(ver, 1, []string{"t"}, []byte{1})); err != nil {
		obs.Err = "S: subscribe"
		return obs
	}
	if pk, err := sc.Recv(5 * time.Second); err != nil || pk.Type() != mqttp.SUBACK {
		obs.Err = "S: no suback"
		return obs
	}
	pc := b.Dial()
	if _, err := pc.Connect(ConnectOpts{ID: "P", Ver: mqttp.ProtocolV311, Clean: true}); err != nil {
		obs.Err = "P: " + err.Error()
		return obs
	}
	pa := pc.Auto(false)
	n := c.Wrap + c.Bulk
	if c.Tail > 0 {
		n = c.Tail + 3
	}
	publish := func() {
		for k := 0; k < n; k++ {
			pl := []byte{byte(k >> 24), byte(k >> 16), byte(k >> 8), byte(k)}
			for pa.SendL(mkPublish(mqttp.ProtocolV311, "t", pl, 1, false, uint16(k%65535+1))) != nil {
				time.Sleep(time.Millisecond)
			}
		}
	}
	publisherDone := func() bool {
		return pa.WaitFor(60*time.Second, func() bool {
			k := 0
			for _, o := range pa.Others {
				if o.Type() == mqttp.PUBACK {
					k++
				}
			}
			return k >= n
		})
	}
	// the subscriber's loop: acknowledge at once (wrap: except the first delivery with identifier 65535)
	consume := func(cl *Client, want int, stuckID int) (ids []int, distinct int) {
		seen := map[uint32]bool{}
		stuck := false
		for distinct < want {
			pk, err := cl.Recv(5 * time.Second)
			if err != nil {
				return
			}
			m, ok := pk.(*mqttp.Publish)
			if !ok {
				continue
			}
			id, _ := m.ID()
			ids = append(ids, int(id))
			if pl := m.Payload(); len(pl) == 4 {
				k := uint32(pl[0])<<24 | uint32(pl[1])<<16 | uint32(pl[2])<<8 | uint32(pl[3])
				if !seen[k] {
					seen[k] = true
					distinct++
				}
			}
			if int(id) == stuckID && !stuck {
				stuck = true
				continue
			}
			if cl.Send(mkAck(ver, mqttp.PUBACK, uint16(id))) != nil {
				return
			}
		}
		return
	}
	if c.Tail > 0 {
		go publish()
		// the first Tail messages are acknowledged as they come, the last three are only read
		if _, got := consume(sc, c.Tail, -1); got < c.Tail {
			obs.Err = fmt.Sprintf("tail: only %d of %d messages arrived", got, c.Tail)
			return obs
		}
		for k := 0; k < 3; k++ {
			if pk, err := sc.Recv(5 * time.Second); err != nil || pk.Type() != mqttp.PUBLISH {
				obs.Err = "tail: the last three messages did not arrive"
				return obs
			}
		}
		d0 := b.Met.Disconnected()
		sc.Close()
		deadline := time.Now().Add(5 * time.Second)
		for time.Now().Before(deadline) && b.Met.Disconnected() == d0 {
			time.Sleep(time.Millisecond)
		}
		sc2, err := connectS()
		if err != nil {
			obs.Err = "S: reconnect: " + err.Error()
			return obs
		}
		for k := 0; k < 3; k++ {
			pk, err := sc2.Recv(5 * time.Second)
			if err != nil {
				break
			}
			if m, ok := pk.(*mqttp.Publish); ok {
				if pl := m.Payload(); len(pl) == 4 && m.Dup() {
					obs.Items = append(obs.Items, [2]int{int(uint32(pl[0])<<24 | uint32(pl[1])<<16 | uint32(pl[2])<<8 | uint32(pl[3])), 0})
				}
				id, _ := m.ID()
				_ = sc2.Send(mkAck(ver, mqttp.PUBACK, uint16(id)))
			}
		}
		return obs
	}
	if c.Wrap > 0 {
		go publish()
		ids, got := consume(sc, n, 65535)
		if got < n {
			obs.Err = fmt.Sprintf("wrap: only %d of %d messages arrived (last identifiers %v)", got, n, tailInts(ids, 6))
		}
		// compress: runs of consecutive identifiers; the stuck one on its own
		stuckSeen := false
		for i := 0; i < len(ids); {
			if ids[i] == 65535 && !stuckSeen {
				stuckSeen = true
				obs.Items = append(obs.Items, [2]int{65535, -1})
				i++
				continue
			}
			j := i
			for j+1 < len(ids) && ids[j+1] == ids[j]+1 && !(ids[j+1] == 65535 && !stuckSeen) {
				j++
			}
			obs.Items = append(obs.Items, [2]int{ids[i], ids[j]})
			i = j + 1
		}
		return obs
	}
	// bulk: everything is routed while S is away
	d0 := b.Met.Disconnected()
	sc.Close()
	deadline := time.Now().Add(5 * time.Second)
	for time.Now().Before(deadline) && b.Met.Disconnected() == d0 {
		time.Sleep(time.Millisecond)
	}
	publish()
	if !publisherDone() {
		obs.Err = "bulk: the publisher was not acknowledged"
		return obs
	}
	time.Sleep(300 * time.Millisecond) // the routing worker drains its channel into persistence
	sc2, err := connectS()
	if err != nil {
		obs.Err = "S: reconnect: " + err.Error()
		return obs
	}
	_, obs.Got = consume(sc2, n, -1)
	return obs
}

func mkAckLike(ver mqttp.ProtocolVersion, a *mqttp.Ack) *mqttp.Ack {
	id, _ := a.ID()
	b := mkAck(ver, a.Type(), uint16(id))
	if ver == mqttp.ProtocolV50 && a.Reason() != 0 {
		b.SetReason(a.Reason())
	}
	return b
}

func tailInts(l []int, k int) []int {
	if len(l) > k {
		return l[len(l)-k:]
	}
	return l
}

func (p *c03Prop) Run(ci interface{}) interface{} {
	c := ci.(*c03Case)
	if c.AckOrder {
		return p.runAckOrder()
	}
	if c.Owed {
		return p.runOwed(c)
	}
	if c.Wrap > 0 || c.Bulk > 0 || c.Tail > 0 {
		return p.runLong(c)
	}
	obs := &c03Obs{}
	var gate *persistGate
	bo := BrokerOpts{Preempt: c.Over}
	for _, op := range c.Ops {
		if op.Op == "late" {
			mp, err := persistenceMem.Load(nil, nil)
			if err != nil {
				obs.Err = err.Error()
				return obs
			}
			gate = newPersistGate(mp)
			bo.Persist = gate
			break
		}
	}
	b, err := NewBroker(bo)
	if err != nil {
		obs.Err = err.Error()
		return obs
	}
	defer func() { b.Drop() }()
	if gate != nil {
		defer gate.Release()
	}
	ver := mqttp.ProtocolV311
	if c.V5 {
		ver = mqttp.ProtocolV50
	}
	forever := uint32(0xFFFFFFFF)
	connectS := func(rm int, first bool) (*Auto, error) {
		cl := b.Dial()
		o := ConnectOpts{ID: "S", Ver: ver, Clean: false}
		if c.V5 {
			o.Expiry = &forever
			o.RecvMax = uint16(rm)
			if c.Alias {
				o.AliasMax = 5
			}
		}
		if _, err := cl.Connect(o); err != nil {
			return nil, err
		}
		return cl.Auto(true), nil
	}
	if c.Over {
		oc := b.Dial()
		if _, err := oc.Connect(ConnectOpts{ID: "S", Ver: ver, Clean: true}); err != nil {
			obs.Err = "S (clean): " + err.Error()
			return obs
		}
		_ = oc.Auto(false)
	}
	s, err := connectS(c.RM, true)
	if err != nil {
		obs.Err = "S: " + err.Error()
		return obs
	}
	_ = s.SendL(mkSubscribe(ver, 1, []string{"t"}, []byte{2}))
	if !s.WaitFor(5*time.Second, func() bool { return len(s.Others) >= 1 }) {
		obs.Err = "S: no suback"
		return obs
	}
	wc := b.Dial()
	if _, err := wc.Connect(ConnectOpts{ID: "W", Ver: mqttp.ProtocolV311, Clean: true}); err != nil {
		obs.Err = "W: " + err.Error()
		return obs
	}
	w := wc.Auto(false)
	_ = w.SendL(mkSubscribe(mqttp.ProtocolV311, 1, []string{"w"}, []byte{0}))
	if !w.WaitFor(5*time.Second, func() bool { return len(w.Others) >= 1 }) {
		obs.Err = "W: no suback"
		return obs
	}
	pc := b.Dial()
	if _, err := pc.Connect(ConnectOpts{ID: "P", Ver: mqttp.ProtocolV50, Clean: true}); err != nil {
		obs.Err = "P: " + err.Error()
		return obs
	}
	pa := pc.Auto(false)

	online := true
	seenS := 0
	nSent := 0
	wSeen := 0
	var outstanding []c03Out
	pubID := uint16(0)
	curRM := c.RM        // Receive Maximum of the current connection of S
	queuedMaybe := false // messages may wait in the broker's queues (not yet transmitted for the first time)

	routeBarrier := func() bool {
		pubID++
		_ = pa.SendL(mkPublish(mqttp.ProtocolV50, "w", []byte{1}, 0, false, 0))
		wSeen++
		return w.WaitFor(5*time.Second, func() bool { return len(w.Pubs) >= wSeen })
	}
	pings := 0
	writerBarrier := func() bool {
		for i := 0; i < 2; i++ {
			pings++
			_ = s.SendL(mqttp.NewPingReq(ver))
			want := pings
			if !s.WaitFor(5*time.Second, func() bool {
				n := 0
				for _, o := range s.Others {
					if o.Type() == mqttp.PINGRESP {
						n++
					}
				}
				return n >= want
			}) {
				return false
			}
		}
		return true
	}
	collect := func(st *c03Step) {
		s.mu.Lock()
		all := append([]*mqttp.Publish{}, s.Pubs...)
		oth := append([]mqttp.IFace{}, s.Others...)
		s.mu.Unlock()
		_ = all
		_ = oth
	}
	_ = collect

	// S's packets in arrival order (PUBLISH and PUBREL interleaved): keep a merged log in Auto order.
	// Auto keeps two lists; rebuild the order with a sequence counter kept by a tap.
	type rec struct {
		w c03Wire
	}
	var log []rec
	logFrom := func() {
		s.mu.Lock()
		defer s.mu.Unlock()
		for ; seenS < len(s.Seq); seenS++ {
			switch m := s.Seq[seenS].(type) {
			case *mqttp.Publish:
				id, _ := m.ID()
				tag := 0
				if len(m.Payload()) > 0 {
					tag = int(m.Payload()[0])
				}
				log = append(log, rec{c03Wire{K: int(m.QoS()) + 1, ID: int(id), Tag: tag, Dup: m.Dup()}})
			case *mqttp.Ack:
				if m.Type() == mqttp.PUBREL {
					id, _ := m.ID()
					log = append(log, rec{c03Wire{K: 0, ID: int(id)}})
				}
			}
		}
	}

	for k, op := range c.Ops {
		st := c03Step{Wire: []c03Wire{}}
		before := len(log)
		switch op.Op {
		case "send":
			nSent++
			tag := nSent
			payload := []byte{byte(tag)}
			if c.Big {
				payload = append(payload, make([]byte, 2999)...)
			}
			if !online || (c.V5 && len(outstanding) >= curRM) {
				queuedMaybe = true
			}
			m := mkPublish(mqttp.ProtocolV50, "t", payload, byte(op.QoS), false, uint16(10000+k))
			pexp := "None"
			if op.Exp > 0 {
				_ = m.PropertySet(mqttp.PropertyPublicationExpiry, uint32(op.Exp))
				if op.Exp == 1 {
					pexp = "(Some 0%Z)"
				} else {
					pexp = "(Some 100%Z)"
				}
			}
			comps := pa.CountOthers(mqttp.PUBCOMP)
			_ = pa.SendL(m)
			if op.QoS == 2 {
				// a QoS 2 publish is routed when its PUBREL arrives: wait for the handshake to finish
				if !pa.WaitFor(5*time.Second, func() bool {
					n := 0
					for _, o := range pa.Others {
						if o.Type() == mqttp.PUBCOMP {
							n++
						}
					}
					return n > comps
				}) {
					obs.Err = fmt.Sprintf("step %d: publisher handshake did not complete", k)
				}
			}
			st.Ev = fmt.Sprintf("(ESend 0%%Z (mkPkt (KPub %d) 0 %d %s false))", op.QoS, tag, pexp)
			if !routeBarrier() {
				obs.Err = fmt.Sprintf("step %d: routing barrier timed out", k)
			}
		case "ack":
			if online && op.Bogus && (c.V5 || op.Accept) {
				id := 60000 + k
				a := mkAck(ver, mqttp.PUBREC, uint16(id))
				if !op.Accept {
					a.SetReason(mqttp.CodeUnspecifiedError)
				}
				st.Ev = fmt.Sprintf("(EAck %s (APubrec %d %s))", cBool(c.V5), id, cBool(!op.Accept))
				_ = s.SendL(a)
				if op.Accept {
					if !writerBarrier() {
						obs.Err = fmt.Sprintf("step %d: writer barrier timed out", k)
						break
					}
					logFrom()
					for _, r := range log[before:] {
						st.Wire = append(st.Wire, r.w)
					}
					obs.Steps = append(obs.Steps, st)
					before = len(log)
					st = c03Step{Ev: fmt.Sprintf("(EAck %s (APubcomp %d))", cBool(c.V5), id), Wire: []c03Wire{}}
					_ = s.SendL(mkAck(ver, mqttp.PUBCOMP, uint16(id)))
				}
				break
			}
			if !online || len(outstanding) == 0 {
				continue
			}
			i := op.K % len(outstanding)
			o := outstanding[i]
			a := mkAck(ver, o.kind, uint16(o.id))
			errFlag := false
			switch o.kind {
			case mqttp.PUBACK:
				st.Ev = fmt.Sprintf("(EAck %s (APuback %d))", cBool(c.V5), o.id)
			case mqttp.PUBCOMP:
				st.Ev = fmt.Sprintf("(EAck %s (APubcomp %d))", cBool(c.V5), o.id)
			case mqttp.PUBREC:
				if op.Err && c.V5 {
					a.SetReason(mqttp.CodeUnspecifiedError)
					errFlag = true
				}
				st.Ev = fmt.Sprintf("(EAck %s (APubrec %d %s))", cBool(c.V5), o.id, cBool(errFlag))
			}
			outstanding = append(outstanding[:i], outstanding[i+1:]...)
			_ = s.SendL(a)
			if op.Twice && (o.kind != mqttp.PUBREC || errFlag) {
				// the same acknowledgement again, as an event of its own (nothing is outstanding under the identifier)
				if !writerBarrier() {
					obs.Err = fmt.Sprintf("step %d: writer barrier timed out", k)
					break
				}
				logFrom()
				for _, r := range log[before:] {
					st.Wire = append(st.Wire, r.w)
					switch r.w.K {
					case 2:
						addOut(&outstanding, c03Out{r.w.ID, mqttp.PUBACK})
					case 3:
						addOut(&outstanding, c03Out{r.w.ID, mqttp.PUBREC})
					case 0:
						addOut(&outstanding, c03Out{r.w.ID, mqttp.PUBCOMP})
					}
				}
				obs.Steps = append(obs.Steps, st)
				before = len(log)
				reused := false
				for _, x := range outstanding {
					if x.id == o.id {
						reused = true // the identifier has been handed to a new message meanwhile: a late duplicate would acknowledge THAT
					}
				}
				if reused {
					continue
				}
				st = c03Step{Ev: st.Ev, Wire: []c03Wire{}}
				_ = s.SendL(mkAckLike(ver, a))
			}
		case "restart":
			// the broker is shut down and started again on the same persistence while S is away: to the session's
			// writer nothing has happened (what is pending is in persistence), so no event for the model
			if online || gate != nil {
				continue
			}
			pers := b.Persist
			stopped := make(chan struct{})
			go func() {
				atomic.StoreInt32(&b.mgrDown, 1)
				_ = b.Mgr.Stop()
				_ = b.Mgr.Shutdown()
				b.ShutdownTopics()
				close(stopped)
			}()
			select {
			case <-stopped:
			case <-time.After(10 * time.Second):
				obs.Err = fmt.Sprintf("step %d: shutdown did not return", k)
			}
			if obs.Err != "" {
				break
			}
			b.Drop2()
			nb, err := NewBroker(BrokerOpts{Persist: pers})
			if err != nil {
				obs.Err = fmt.Sprintf("step %d: restart: %v", k, err)
				break
			}
			b = nb
			wc = b.Dial()
			if _, err := wc.Connect(ConnectOpts{ID: "W", Ver: mqttp.ProtocolV311, Clean: true}); err != nil {
				obs.Err = "W: " + err.Error()
				break
			}
			w = wc.Auto(false)
			wSeen = 0
			_ = w.SendL(mkSubscribe(mqttp.ProtocolV311, 1, []string{"w"}, []byte{0}))
			if !w.WaitFor(5*time.Second, func() bool { return len(w.Others) >= 1 }) {
				obs.Err = "W: no suback"
				break
			}
			pc = b.Dial()
			if _, err := pc.Connect(ConnectOpts{ID: "P", Ver: mqttp.ProtocolV50, Clean: true}); err != nil {
				obs.Err = "P: " + err.Error()
				break
			}
			pa = pc.Auto(false)
			continue
		case "close":
			if !online {
				continue
			}
			d0, a0 := b.Met.Disconnected(), b.Met.AddStore()
			s.Close()
			deadline := time.Now().Add(5 * time.Second)
			for time.Now().Before(deadline) && !(b.Met.Disconnected() > d0 && b.Met.AddStore() > a0) {
				time.Sleep(time.Millisecond)
			}
			if !(b.Met.Disconnected() > d0 && b.Met.AddStore() > a0) {
				obs.Err = fmt.Sprintf("step %d: close was not processed", k)
			}
			logFrom()
			online = false
			st.Ev = "(EClose 0%Z)"
		case "flap":
			// only when everything pending is in flight (nothing waits for its FIRST transmission): then the
			// state after "reconnect, read nothing, drop" must be the state before
			if online || queuedMaybe || len(outstanding) == 0 {
				continue
			}
			rm := op.RM
			if c.V5 && rm < len(outstanding) {
				rm = len(outstanding)
			}
			if !c.V5 {
				rm = 65535
			}
			d0, a0 := b.Met.Disconnected(), b.Met.AddStore()
			fc := b.DialCap(16)
			fo := ConnectOpts{ID: "S", Ver: ver, Clean: false}
			if c.V5 {
				fo.Expiry = &forever
				fo.RecvMax = uint16(rm)
			}
			if _, err := fc.Connect(fo); err != nil {
				obs.Err = fmt.Sprintf("step %d: flap reconnect: %v", k, err)
				break
			}
			time.Sleep(30 * time.Millisecond) // the writer runs into the full pipe
			fc.Close()
			deadline := time.Now().Add(5 * time.Second)
			for time.Now().Before(deadline) && !(b.Met.Disconnected() > d0 && b.Met.AddStore() > a0) {
				time.Sleep(time.Millisecond)
			}
			if !(b.Met.Disconnected() > d0 && b.Met.AddStore() > a0) {
				obs.Err = fmt.Sprintf("step %d: flap close was not processed", k)
			}
			obs.Steps = append(obs.Steps, c03Step{Ev: fmt.Sprintf("(EOpen %d%%Z)", rm), Wire: []c03Wire{}, Blind: true})
			st.Ev = "(EClose 0%Z)"
		case "late":
			// a QoS 1 message is routed to the OFFLINE session and is still on its way into persistence (the
			// routing worker is held inside PacketStoreQoS12) while the client reconnects; then the worker goes on.
			// To the session this is: a message handed over while offline, then a reconnect.
			if online || gate == nil {
				continue
			}
			nSent++
			tag := nSent
			gate.Arm("S")
			acks := pa.CountOthers(mqttp.PUBACK)
			_ = pa.SendL(mkPublish(mqttp.ProtocolV50, "t", []byte{byte(tag)}, 1, false, uint16(10000+k)))
			if !gate.WaitEntered(5*time.Second) || !pa.WaitFor(5*time.Second, func() bool {
				n := 0
				for _, o := range pa.Others {
					if o.Type() == mqttp.PUBACK {
						n++
					}
				}
				return n > acks
			}) {
				obs.Err = fmt.Sprintf("step %d: the offline publish did not reach persistence / was not acknowledged", k)
				break
			}
			obs.Steps = append(obs.Steps, c03Step{Ev: fmt.Sprintf("(ESend 0%%Z (mkPkt (KPub 1) 0 %d None false))", tag), Wire: []c03Wire{}})
			if c.V5 && op.RM < len(outstanding)+1 {
				op.RM = len(outstanding) + 1
			}
			l0 := gate.Loads("S")
			type cres struct {
				a   *Auto
				err error
			}
			done := make(chan cres, 1)
			go func() { a, err := connectS(op.RM, false); done <- cres{a, err} }()
			// the reconnect either gets as far as loading the persisted backlog (then the held message is late), or
			// it waits for the routing worker: in both cases the worker is let go after a moment
			dl := time.Now().Add(300 * time.Millisecond)
			for time.Now().Before(dl) && gate.Loads("S") == l0 {
				time.Sleep(time.Millisecond)
			}
			gate.Release()
			var cr cres
			select {
			case cr = <-done:
			case <-time.After(6 * time.Second):
				cr.err = fmt.Errorf("no CONNACK")
			}
			if cr.err != nil {
				obs.Err = fmt.Sprintf("step %d: reconnect: %v", k, cr.err)
				break
			}
			s = cr.a
			seenS = 0
			pings = 0
			online = true
			rm := op.RM
			if !c.V5 {
				rm = 65535
			}
			curRM = rm
			st.Ev = fmt.Sprintf("(EOpen %d%%Z)", rm)
			if !routeBarrier() {
				obs.Err = fmt.Sprintf("step %d: routing barrier timed out", k)
			}
		case "open":
			if online {
				continue
			}
			if c.V5 && op.RM < len(outstanding) && !op.LowRM {
				// stay outside the known-finding region: the client announces a Receive Maximum
				// that covers what it has not acknowledged yet
				op.RM = len(outstanding)
			}
			var err error
			s2, err := connectS(op.RM, false)
			if err != nil {
				obs.Err = fmt.Sprintf("step %d: reconnect: %v", k, err)
				break
			}
			s = s2
			seenS = 0
			pings = 0
			online = true
			rm := op.RM
			if !c.V5 {
				rm = 65535
			}
			curRM = rm
			st.Ev = fmt.Sprintf("(EOpen %d%%Z)", rm)
		}
		if obs.Err != "" {
			break
		}
		if online {
			if !writerBarrier() {
				obs.Err = fmt.Sprintf("step %d: writer barrier timed out", k)
				break
			}
			logFrom()
		}
		for _, r := range log[before:] {
			st.Wire = append(st.Wire, r.w)
			switch r.w.K {
			case 2:
				addOut(&outstanding, c03Out{r.w.ID, mqttp.PUBACK})
			case 3:
				addOut(&outstanding, c03Out{r.w.ID, mqttp.PUBREC})
			case 0:
				addOut(&outstanding, c03Out{r.w.ID, mqttp.PUBCOMP})
			}
		}
		if (op.Op == "open" || op.Op == "late") && online && (!c.V5 || len(outstanding) < curRM) {
			queuedMaybe = false // the quota was not exhausted after the barrier: nothing is left waiting
		}
		obs.Steps = append(obs.Steps, st)
	}
	return obs
}

func addOut(l *[]c03Out, o c03Out) {
	for i, x := range *l {
		if x.id == o.id {
			(*l)[i] = o
			return
		}
	}
	*l = append(*l, o)
}

func (p *c03Prop) Suspect(oi interface{}) bool { return oi.(*c03Obs).Err != "" }

func (p *c03Prop) Coq(ci interface{}, oi interface{}) string {
	c := ci.(*c03Case)
	o := oi.(*c03Obs)
	steps := make([]string, len(o.Steps))
	for i, s := range o.Steps {
		ws := make([]string, len(s.Wire))
		for j, w := range s.Wire {
			ws[j] = fmt.Sprintf("(%d, %d, %d, %s)", w.K, w.ID, w.Tag, cBool(w.Dup))
		}
		steps[i] = fmt.Sprintf("(mkStep %s %s %s)", s.Ev, cList(ws), cBool(s.Blind))
	}
	rm := c.RM
	if !c.V5 {
		rm = 65535
	}
	extra := "None"
	if c.Wrap > 0 {
		it := make([]string, len(o.Items))
		for i, x := range o.Items {
			if x[1] < 0 {
				it[i] = fmt.Sprintf("WStuck %d", x[0])
			} else {
				it[i] = fmt.Sprintf("WRun %d %d", x[0], x[1])
			}
		}
		extra = fmt.Sprintf("(Some (XWrap %s))", cList(it))
	} else if c.Owed {
		pr, got := -1, -1
		if len(o.Items) == 1 {
			pr, got = o.Items[0][0], o.Items[0][1]
		}
		extra = fmt.Sprintf("(Some (XOwed %d%%Z %d%%Z))", pr, got)
	} else if c.Tail > 0 {
		ks := make([]string, len(o.Items))
		for i, x := range o.Items {
			ks[i] = fmt.Sprintf("%d%%Z", x[0])
		}
		extra = fmt.Sprintf("(Some (XTail %d%%Z %s))", c.Tail, cList(ks))
	} else if c.Bulk > 0 {
		extra = fmt.Sprintf("(Some (XBulk %d%%Z %d%%Z))", c.Bulk, o.Got)
	} else if c.AckOrder && o.Ack != nil {
		extra = fmt.Sprintf("(Some (XAckOrder %s %s %s %d%%Z))", cBool(o.Ack.SameID), cBool(o.Ack.Kept), cBool(o.Ack.Released), o.Ack.Quota)
	} else if c.AckOrder {
		extra = "(Some (XAckOrder false false false 0%Z))"
	}
	return fmt.Sprintf("(mkCase %d%%Z false %s %s %s)", rm, cList(steps), cBool(o.Err == ""), extra)
}

func (p *c03Prop) Class(ci interface{}, oi interface{}) (string, bool) {
	c := ci.(*c03Case)
	if c.Wrap > 0 {
		return "wrap-around-with-stuck-id", true
	}
	if c.Bulk > 0 {
		return "bulk-offline-backlog", true
	}
	if c.Tail > 0 {
		return "unacknowledged-tail-of-a-long-connection", true
	}
	if c.Owed {
		return "pubrel-owed-to-the-next-connection", true
	}
	if c.AckOrder {
		return "ack-frees-identifier-reused-at-once (hook)", true
	}
	rec, exp, late := false, false, false
	for _, op := range c.Ops {
		if op.Op == "open" || op.Op == "late" {
			rec = true
		}
		if op.Op == "late" {
			late = true
		}
		if op.Exp == 1 {
			exp = true
		}
	}
	l := fmt.Sprintf("rm%d", c.RM)
	if rec {
		l += "+reconnect"
	}
	if exp {
		l += "+expiry"
	}
	if late {
		l += "+late"
	}
	return l, true
}
