package main

import (
	"bytes"
	"encoding/json"
	"fmt"
	"sort"
	"time"

	"github.com/VolantMQ/vlapi/mqttp"
)

// C08: one publish (QoS, RETAIN, own or foreign session, publisher v3.1.1 / v5) against a session
// (v3.1.1 / v5) holding 1-3 matching subscriptions with generated options, overlap option on/off;
// and retained messages sent on subscribe.  Every PUBLISH the subscriber receives is decoded field by field.

type c08Sub struct {
	F   int  `json:"f"`
	QoS int  `json:"qos"`
	NL  bool `json:"nl,omitempty"`
	RAP bool `json:"rap,omitempty"`
	RH  int  `json:"rh,omitempty"`
	ID  int  `json:"id,omitempty"`
}

type c08Case struct {
	Kind    string   `json:"kind"` // live | retained
	PV      int      `json:"pv"`
	SV      int      `json:"sv"`
	Overlap bool     `json:"overlap,omitempty"`
	Self    bool     `json:"self,omitempty"`
	Subs    []c08Sub `json:"subs"`
	Resub   []c08Sub `json:"resub,omitempty"` // the same filters subscribed AGAIN with other parameters before the publish
	PQ      int      `json:"pq"`
	PR      bool     `json:"pr,omitempty"`
	// AliasPub (v5 publisher): the publish under test travels alias-only, on an alias that was first bound to another
	// topic and then re-bound to the topic of the test
	AliasPub bool `json:"aliaspub,omitempty"`
	// Resumed: the subscriber's session was created by a client of the OTHER protocol version and is resumed (no
	// clean start) by the connection under test - what is forwarded follows the version of the current connection
	Resumed bool `json:"resumed,omitempty"`
	// Kept (live kind, with Resumed, subscriber 3.1.1): the FIRST subscription is not made by the subscriber's connection
	// but was made - with Subscription Identifier 9 - by the earlier MQTT 5 connection of the session, and is kept: what
	// it is sent arrives without an identifier (3.1.1 cannot carry one), but arrives
	Kept bool `json:"kept,omitempty"`
	// Empty (live, with RETAIN): the payload has length zero - the publish that clears the topic's retained message
	// is still a publish: it is forwarded like any other
	Empty bool `json:"empty,omitempty"`
}

type c08Copy struct {
	QoS    int   `json:"qos"`
	Retain bool  `json:"retain,omitempty"`
	Dup    bool  `json:"dup,omitempty"`
	IDs    []int `json:"ids,omitempty"`
	Intact bool  `json:"intact"`
}

type c08Obs struct {
	Copies []c08Copy `json:"copies"`
	Err    string    `json:"err,omitempty"`
}

type c08Prop struct{}

func init() { props["C08"] = &c08Prop{} }

func (p *c08Prop) ID() string { return "C08" }
func (p *c08Prop) Header() string {
	return "From Coq Require Import List NArith.\nImport ListNotations.\nFrom VMQ Require Import model.Trie model.Deliver chk.C08chk.\nOpen Scope N_scope.\n"
}
func (p *c08Prop) Parallel() int { return 8 }

var c08Filters = []string{"t/a", "t/+", "t/#", "#", "+/a"}

func (p *c08Prop) Gen(r *Rng, i int, tier string) interface{} {
	c := &c08Case{Kind: "live", PV: 4 + r.Intn(2), SV: 4 + r.Intn(2), PQ: r.Intn(3), PR: r.Chance(35)}
	if i%5 == 4 {
		c.Kind = "retained"
		sub := c08Sub{F: r.Intn(len(c08Filters)), QoS: r.Intn(3), RH: r.Intn(3)}
		if c.SV == 5 {
			sub.RAP = r.Bool()
			if r.Chance(60) {
				sub.ID = 1 + r.Intn(20)
			}
		}
		c.Subs = []c08Sub{sub}
		c.PR = true
		c.PQ = r.Intn(3)
		return c
	}
	c.Overlap = r.Chance(40)
	c.Self = r.Chance(30)
	c.Resumed = r.Chance(15)
	c.Kept = c.Resumed && r.Chance(50)
	c.Empty = c.PR && r.Chance(30)
	c.AliasPub = c.PV == 5 && r.Chance(35)
	n := 1 + r.Intn(3)
	perm := []int{0, 1, 2, 3, 4}
	for k := range perm {
		j := k + r.Intn(len(perm)-k)
		perm[k], perm[j] = perm[j], perm[k]
	}
	nl, rap := r.Chance(30), r.Bool()
	for k := 0; k < n; k++ {
		s := c08Sub{F: perm[k], QoS: r.Intn(3), RH: 2}
		if c.SV == 5 {
			if c.Overlap { // the single merged copy: Retain-As-Published agrees (see C08_overlapping_copy_retain); No Local need not
				s.NL, s.RAP = nl != r.Chance(30), rap
			} else {
				s.NL, s.RAP = r.Chance(30), r.Bool()
			}
			if r.Chance(50) {
				s.ID = 1 + r.Intn(20)
			}
		}
		c.Subs = append(c.Subs, s)
	}
	if r.Chance(35) {
		// a SUBSCRIBE for a filter the session already holds replaces the subscription: options, granted QoS
		// and identifier are those of the latest one
		for _, old := range c.Subs {
			if r.Chance(60) {
				n := c08Sub{F: old.F, QoS: r.Intn(3), RH: 2}
				if c.SV == 5 {
					n.NL, n.RAP = old.NL, old.RAP
					if !c.Overlap {
						n.NL, n.RAP = r.Chance(30), r.Bool()
					}
					switch r.Intn(3) {
					case 0:
						n.ID = 0
					case 1:
						n.ID = 21 + r.Intn(20)
					default:
						n.ID = old.ID
					}
				}
				c.Resub = append(c.Resub, n)
			}
		}
	}
	return c
}

// effective subscriptions: the latest SUBSCRIBE per filter
func (c *c08Case) effective() []c08Sub {
	out := append([]c08Sub{}, c.Subs...)
	for _, n := range c.Resub {
		for i := range out {
			if out[i].F == n.F {
				out[i] = n
			}
		}
	}
	return out
}

func (p *c08Prop) Decode(raw json.RawMessage) (interface{}, error) {
	c := &c08Case{}
	return c, json.Unmarshal(raw, c)
}

func (p *c08Prop) Run(ci interface{}) interface{} {
	c := ci.(*c08Case)
	obs := &c08Obs{Copies: []c08Copy{}}
	b, err := NewBroker(BrokerOpts{Overlap: c.Overlap, SubsID: true, MaxTopicAlias: 5})
	if err != nil {
		obs.Err = err.Error()
		return obs
	}
	defer b.Drop()
	sv, pv := mqttp.ProtocolVersion(c.SV), mqttp.ProtocolVersion(c.PV)
	payload := []byte{0xC0, 0x08, 1, 2, 3}
	if c.Empty {
		payload = []byte{}
	}
	sc := b.Dial()
	aliasMax := uint16(0)
	if c.Kind == "retained" && c.SV == 5 {
		aliasMax = 5 // makes the writer add a Topic Alias property to the (single) retained copy
	}
	forever := uint32(0xFFFFFFFF)
	if c.Resumed {
		other := mqttp.ProtocolV50
		if sv == mqttp.ProtocolV50 {
			other = mqttp.ProtocolV311
		}
		oc := b.Dial()
		if _, err := oc.Connect(ConnectOpts{ID: "S", Ver: other, Clean: false, Expiry: &forever}); err != nil {
			obs.Err = "S (earlier connection): " + err.Error()
			return obs
		}
		// it leaves a subscription behind: the session's subscriber object is kept
		oa := oc.Auto(false)
		_ = oa.SendL(mkSubscribe(other, 1, []string{"zz/old"}, []byte{1}))
		if !oa.WaitFor(5*time.Second, func() bool { return len(oa.Others) >= 1 }) {
			obs.Err = "S (earlier connection): no suback"
			return obs
		}
		if c.Kept && other == mqttp.ProtocolV50 && c.Kind == "live" && len(c.Resub) == 0 {
			k := mkSubscribe(other, 2, []string{c08Filters[c.Subs[0].F]}, []byte{byte(c.Subs[0].QoS) | 0x20})
			_ = k.PropertySet(mqttp.PropertySubscriptionIdentifier, uint32(9))
			_ = oa.SendL(k)
			if !oa.WaitFor(5*time.Second, func() bool { return len(oa.Others) >= 2 }) {
				obs.Err = "S (earlier connection): no suback for the kept subscription"
				return obs
			}
		}
		before := b.Met.Disconnected()
		oc.Close()
		deadline := time.Now().Add(5 * time.Second)
		for b.Met.Disconnected() == before && time.Now().Before(deadline) {
			time.Sleep(time.Millisecond)
		}
	}
	if _, err := sc.Connect(ConnectOpts{ID: "S", Ver: sv, Clean: !c.Resumed, AliasMax: aliasMax, Expiry: &forever}); err != nil {
		obs.Err = "S: " + err.Error()
		return obs
	}
	s := sc.Auto(false)
	acks := 0
	subscribe := func(filter string, ops byte, id int) bool {
		m := mkSubscribe(sv, uint16(50+acks), []string{filter}, []byte{ops})
		if id > 0 && sv == mqttp.ProtocolV50 {
			_ = m.PropertySet(mqttp.PropertySubscriptionIdentifier, uint32(id))
		}
		_ = s.SendL(m)
		acks++
		want := acks
		return s.WaitFor(5*time.Second, func() bool {
			n := 0
			for _, o := range s.Others {
				if o.Type() == mqttp.SUBACK {
					n++
				}
			}
			return n >= want
		})
	}
	opsOf := func(x c08Sub) byte {
		o := byte(x.QoS)
		if sv == mqttp.ProtocolV50 {
			if x.NL {
				o |= 0x04
			}
			if x.RAP {
				o |= 0x08
			}
			o |= byte(x.RH) << 4
		}
		return o
	}
	if !subscribe("zz/sent", 1, 0) {
		obs.Err = "no suback"
		return obs
	}
	var pub *Auto
	if c.Self && c.Kind == "live" {
		pub = s
		pv = sv
	} else {
		pc := b.Dial()
		if _, err := pc.Connect(ConnectOpts{ID: "P", Ver: pv, Clean: true}); err != nil {
			obs.Err = "P: " + err.Error()
			return obs
		}
		pub = pc.Auto(false)
	}
	// the barrier messages travel on the SAME connection as the publish under test (one reader
	// goroutine per connection: packets of one connection reach the router in order)
	sentinel := func() bool {
		s.mu.Lock()
		start := len(s.Pubs)
		s.mu.Unlock()
		// one marker per writer queue: a QoS 0 one, and a QoS 1 one that must arrive AT QoS 1 (through the
		// dedicated QoS 1 subscription; copies through '#'-like subscriptions may be downgraded and overtake)
		_ = pub.SendL(mkPublish(pv, "zz/sent", []byte{0xA0}, 0, false, 0))
		_ = pub.SendL(mkPublish(pv, "zz/sent", []byte{0xA1}, 1, false, 77))
		return s.WaitFor(5*time.Second, func() bool {
			a0, a1 := false, false
			for _, m := range s.Pubs[start:] {
				if m.Topic() == "zz/sent" && len(m.Payload()) == 1 {
					if m.Payload()[0] == 0xA0 {
						a0 = true
					}
					if m.Payload()[0] == 0xA1 && m.QoS() == mqttp.QoS1 {
						a1 = true
					}
				}
			}
			return a0 && a1
		})
	}
	publish := func(retain bool) bool {
		comps := pub.CountOthers(mqttp.PUBCOMP)
		m := mkPublish(pv, "t/a", payload, byte(c.PQ), retain, 33)
		if c.AliasPub && pv == mqttp.ProtocolV50 {
			w := mkPublish(pv, "zz/warm", []byte{0xB1}, 0, false, 0)
			_ = w.PropertySet(mqttp.PropertyTopicAlias, uint16(1))
			_ = pub.SendL(w)
			rb := mkPublish(pv, "t/a", []byte{0xB2}, 0, false, 0)
			_ = rb.PropertySet(mqttp.PropertyTopicAlias, uint16(1))
			_ = pub.SendL(rb)
			_ = m.PropertySet(mqttp.PropertyTopicAlias, uint16(1))
			_ = m.SetTopic("")
		}
		_ = pub.SendL(m)
		if c.PQ == 2 {
			return pub.WaitFor(5*time.Second, func() bool {
				n := 0
				for _, o := range pub.Others {
					if o.Type() == mqttp.PUBCOMP {
						n++
					}
				}
				return n > comps
			})
		}
		return true
	}
	if c.Kind == "retained" {
		if !publish(true) {
			obs.Err = "publisher handshake"
			return obs
		}
		deadline := time.Now().Add(5 * time.Second)
		for time.Now().Before(deadline) {
			if r, _ := b.Topics.Retained("t/a"); len(r) == 1 {
				break
			}
			time.Sleep(time.Millisecond)
		}
		if !sentinel() { // the live copy of the retained publish (nobody subscribed yet) is out of the way
			obs.Err = "sentinel"
			return obs
		}
		x := c.Subs[0]
		if !subscribe(c08Filters[x.F], opsOf(x), x.ID) {
			obs.Err = "no suback"
			return obs
		}
	} else {
		for i, x := range append(append([]c08Sub{}, c.Subs...), c.Resub...) {
			if i == 0 && c.Kept && c.Resumed && sv != mqttp.ProtocolV50 && len(c.Resub) == 0 {
				continue // made by the earlier connection
			}
			if !subscribe(c08Filters[x.F], opsOf(x), x.ID) {
				obs.Err = "no suback"
				return obs
			}
		}
		if !publish(c.PR) {
			obs.Err = "publisher handshake"
			return obs
		}
	}
	if !sentinel() {
		obs.Err = "sentinel"
		return obs
	}
	s.mu.Lock()
	for i, m := range s.Pubs {
		if m.Topic() == "zz/sent" || m.Topic() == "zz/warm" || (len(m.Payload()) == 1 && m.Payload()[0] == 0xB2) {
			continue
		}
		cp := c08Copy{QoS: int(m.QoS()), Retain: m.Retain(), Dup: m.Dup(), Intact: m.Topic() == "t/a" && bytes.Equal(m.Payload(), payload)}
		if sv == mqttp.ProtocolV50 {
			// the codec keeps only the last of several Subscription Identifier properties: read them from the raw bytes
			cp.IDs = subIDs(s.PubRaw[i])
		}
		sort.Ints(cp.IDs)
		obs.Copies = append(obs.Copies, cp)
	}
	s.mu.Unlock()
	return obs
}

func (p *c08Prop) Suspect(oi interface{}) bool { return oi.(*c08Obs).Err != "" }

func (p *c08Prop) Coq(ci interface{}, oi interface{}) string {
	c := ci.(*c08Case)
	o := oi.(*c08Obs)
	sp := func(x c08Sub) string {
		if c.SV != 5 {
			return fmt.Sprintf("(mkSP %d false false 0 0)", x.QoS) // v3: no options beyond QoS (Retain Handling 0)
		}
		return fmt.Sprintf("(mkSP %d %s %s %d %d)", x.QoS, cBool(x.NL), cBool(x.RAP), x.RH, x.ID)
	}
	cs := make([]string, len(o.Copies))
	for i, x := range o.Copies {
		cs[i] = fmt.Sprintf("(mkOC %d %s %s %s %s)", x.QoS, cBool(x.Retain), cBool(x.Dup), cInts(x.IDs), cBool(x.Intact))
	}
	if c.Kind == "retained" {
		return fmt.Sprintf("(CRetained %s %d %s %s)", sp(c.Subs[0]), c.PQ, cList(cs), cBool(o.Err == ""))
	}
	eff := c.effective()
	ss := make([]string, len(eff))
	for i, x := range eff {
		ss[i] = sp(x)
	}
	return fmt.Sprintf("(CLive %s %s %s %d %s %s %s)", cBool(c.Overlap), cBool(c.Self), cList(ss), c.PQ, cBool(c.PR), cList(cs), cBool(o.Err == ""))
}

func (p *c08Prop) Class(ci interface{}, oi interface{}) (string, bool) {
	c := ci.(*c08Case)
	l := fmt.Sprintf("%s-p%d-s%d", c.Kind, c.PV, c.SV)
	if c.Overlap {
		l += "+overlap"
	}
	return l, true
}

// subIDs extracts every Subscription Identifier (property 0x0B) from a raw v5 PUBLISH.
func subIDs(raw []byte) []int {
	var ids []int
	if len(raw) < 2 {
		return ids
	}
	qos := (raw[0] >> 1) & 3
	uv := func(b []byte) (int, int) {
		v, n, sh := 0, 0, uint(0)
		for n < len(b) {
			v |= int(b[n]&0x7f) << sh
			n++
			if b[n-1] < 0x80 {
				break
			}
			sh += 7
		}
		return v, n
	}
	_, n := uv(raw[1:])
	off := 1 + n
	if off+2 > len(raw) {
		return ids
	}
	tl := int(raw[off])<<8 | int(raw[off+1])
	off += 2 + tl
	if qos > 0 {
		off += 2
	}
	if off >= len(raw) {
		return ids
	}
	pl, n := uv(raw[off:])
	off += n
	end := off + pl
	lp := func() {
		if off+2 <= len(raw) {
			off += 2 + (int(raw[off])<<8 | int(raw[off+1]))
		}
	}
	for off < end && off < len(raw) {
		id := raw[off]
		off++
		switch id {
		case 0x0B:
			v, n := uv(raw[off:])
			off += n
			ids = append(ids, v)
		case 0x01:
			off++
		case 0x02:
			off += 4
		case 0x23:
			off += 2
		case 0x08, 0x09, 0x03:
			lp()
		case 0x26:
			lp()
			lp()
		default:
			return ids
		}
	}
	return ids
}
