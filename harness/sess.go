package main

import (
	"encoding/json"
	"fmt"
	"sort"
	"strings"
	"sync"
	"sync/atomic"
	"time"
	"unsafe"

	"github.com/VolantMQ/vlapi/mqttp"
	"github.com/VolantMQ/vlapi/vlpersistence"
	"github.com/VolantMQ/vlapi/vlsubscriber"

	topicsTypes "github.com/VolantMQ/volantmq/topics/types"
)

// Session-manager histories (C05, C10, C11, C16, C20): connect(version, clean, expiry, will+delay) /
// subscribe / publish-by-other / DISCONNECT(with will?, new expiry) / drop / wait / stop / restart for two
// client ids, through clients.Manager.  Every step is followed by barriers; the concrete event list with
// the measured elapsed time before each event goes to Coq, which replays it through Sessions.v.

type sessOp struct {
	Op        string `json:"op"`
	ID        int    `json:"id,omitempty"`
	V5        bool   `json:"v5,omitempty"`
	V31       bool   `json:"v31,omitempty"` // connect, not V5: the client speaks MQTT 3.1 (protocol level 3), not 3.1.1
	Clean     bool   `json:"clean,omitempty"`
	Expiry    int64  `json:"expiry,omitempty"` // -1 absent
	WillDelay int    `json:"will,omitempty"`   // -2 no will, -1 will without delay property, >=0 delay seconds
	T         int    `json:"t,omitempty"`
	WithWill  bool   `json:"withwill,omitempty"`
	NL        bool   `json:"nl,omitempty"` // sub: No Local (v5 only); the op "selfpub" publishes from the session itself
	Ms        int    `json:"ms,omitempty"`
	// C10: concurrent CONNECTs on one identifier (op "race"), optionally with the attached connection being
	// dropped by its client at the same moment; and a CONNECT aimed at a timer deadline (At seconds after the
	// identifier's last connection end)
	Racers []sessOp `json:"racers,omitempty"`
	// a racer with Abort: its client is gone when the broker writes its CONNACK. The broker is kept inside that write
	// (a pipe that takes one byte) while the other racers arrive and queue for the identifier, then the write fails
	Abort   bool `json:"abort,omitempty"`
	DropCur bool `json:"dropcur,omitempty"`
	At      int  `json:"at,omitempty"`
}

type sessCase struct {
	Preempt bool     `json:"preempt"`
	Ops     []sessOp `json:"ops"`
	// C20 only: a listener-level case (the whole server with TCP / WebSocket listeners), see c20srv.go
	Listener *lisCase `json:"listener,omitempty"`
	// C20 only: Stop is called while a durable session's connection end is in progress, see c20srv.go
	Closing bool `json:"closing,omitempty"`
	// C10 / C19 / C20: a client that has stopped reading (1 take-over, 2 stop, 3 keep-alive), see c20srv.go
	Stalled int `json:"stalled,omitempty"`
	// P31: the publisher that does not speak MQTT 5 speaks MQTT 3.1 (protocol level 3), not 3.1.1
	P31 bool `json:"p31,omitempty"`
	// C20: that many rounds of "64 clean sessions end their connections at the moment Manager.Stop walks the session map"
	StopRace int `json:"stoprace,omitempty"`
}

type sessStep struct {
	Ev   string   `json:"ev"`
	Obs  [][4]int `json:"obs"`
	Race []string `json:"race,omitempty"`
	Ign  int      `json:"ign,omitempty"`
}

type sessObs struct {
	Steps []sessStep `json:"steps"`
	Lis   *lisObs    `json:"lis,omitempty"`
	Clo   *cloObs    `json:"clo,omitempty"`
	Sta   *stallObs  `json:"sta,omitempty"`
	Err   string     `json:"err,omitempty"`
}

type sessProp struct {
	id  string
	gen func(r *Rng, i int, tier string) *sessCase
}

func (p *sessProp) ID() string { return p.id }
func (p *sessProp) Header() string {
	return "From Coq Require Import List NArith ZArith.\nImport ListNotations.\nFrom VMQ Require Import model.Sessions chk.C05chk.\nOpen Scope Z_scope.\n"
}
func (p *sessProp) Parallel() int                              { return 24 }
func (p *sessProp) Linger() time.Duration                      { return 2600 * time.Millisecond }
func (p *sessProp) Gen(r *Rng, i int, tier string) interface{} { return p.gen(r, i, tier) }
func (p *sessProp) Decode(raw json.RawMessage) (interface{}, error) {
	c := &sessCase{}
	return c, json.Unmarshal(raw, c)
}
func (p *sessProp) Suspect(oi interface{}) bool { return oi.(*sessObs).Err != "" }
func (p *sessProp) TimeoutObs(c interface{}) interface{} {
	return &sessObs{Err: "the case did not finish: the broker hung (see the event list of the case)"}
}

type sessRun struct {
	c         *sessCase
	obs       *sessObs
	b         *Broker
	persist   vlpersistence.IFace
	pub       *Auto
	pub5      *Auto
	down      bool // between stop and restart
	wmu       sync.Mutex
	wrecv     [][2]int // provider-level recording stub: (kind 0 will / 1 marker, id or 0, tag) flattened as (id*1000+kind, tag)
	stopping  bool
	cur       map[int]*Auto // id -> attached client
	curCid    map[int]int
	all       map[int]*Auto // cid -> client
	seenPubs  map[int]int   // cid -> number of publishes already attributed
	seenW     int
	seenClose map[int]bool
	nextCid   int
	last      time.Time
	deadlines []time.Time
	ended     map[int]time.Time // id -> when its last connection end had been processed
	markers   int
}

func (r *sessRun) startBroker() error {
	// the watcher is a recording stub subscribed at the topics provider (not a session: Manager.Stop does not close
	// it), and it is there BEFORE the session manager starts: wills that became due while the broker was down are
	// published from inside NewManager
	r.wmu.Lock()
	r.wrecv = nil
	r.wmu.Unlock()
	r.seenW = 0
	st := &sessStub{r: r}
	b, err := NewBroker(BrokerOpts{Preempt: r.c.Preempt, Persist: r.persist, SubsID: true, OnTopics: func(tp topicsTypes.Provider) error {
		for _, f := range []string{"will/#", "marker"} {
			if resp := tp.Subscribe(topicsTypes.SubscribeReq{Filter: f, S: st, Params: vlsubscriber.SubscriptionParams{Ops: mqttp.SubscriptionOptions(0 | 0x20)}}); resp.Err != nil {
				return fmt.Errorf("watcher stub: %v", resp.Err)
			}
		}
		return nil
	}})
	if err != nil {
		return err
	}
	r.b = b
	r.persist = b.Persist
	pc := b.Dial()
	pver := mqttp.ProtocolV311
	if r.c.P31 {
		pver = mqttp.ProtocolV31
	}
	if _, err := pc.Connect(ConnectOpts{ID: "P", Ver: pver, Clean: true}); err != nil {
		return fmt.Errorf("publisher: %v", err)
	}
	r.pub = pc.Auto(false)
	pc5 := b.Dial()
	if _, err := pc5.Connect(ConnectOpts{ID: "P5", Ver: mqttp.ProtocolV50, Clean: true}); err != nil {
		return fmt.Errorf("publisher: %v", err)
	}
	r.pub5 = pc5.Auto(false)
	return nil
}

type sessStub struct{ r *sessRun }

func (s *sessStub) Hash() uintptr { return uintptr(unsafe.Pointer(s)) }
func (s *sessStub) Publish(m *mqttp.Publish, _ mqttp.QosType, _ mqttp.SubscriptionOptions, _ []uint32) error {
	s.r.wmu.Lock()
	defer s.r.wmu.Unlock()
	if m.Topic() == "marker" {
		s.r.wrecv = append(s.r.wrecv, [2]int{-1, 0})
	} else if strings.HasPrefix(m.Topic(), "will/") && len(m.Payload()) == 1 {
		var id int
		fmt.Sscanf(m.Topic(), "will/%d", &id)
		s.r.wrecv = append(s.r.wrecv, [2]int{id, int(m.Payload()[0])})
	}
	return nil
}

func (r *sessRun) marker() bool {
	if r.down {
		return true
	}
	r.markers++
	want := r.markers
	m := mqttp.NewPublish(mqttp.ProtocolV311)
	_ = m.Set("marker", []byte{0}, 0, false, false)
	_ = r.b.Topics.Publish(m)
	deadline := time.Now().Add(5 * time.Second)
	for time.Now().Before(deadline) {
		r.wmu.Lock()
		n := 0
		for _, x := range r.wrecv {
			if x[0] == -1 {
				n++
			}
		}
		r.wmu.Unlock()
		if n >= want {
			return true
		}
		time.Sleep(100 * time.Microsecond)
	}
	return false
}

func pingBarrier(a *Auto) bool {
	for i := 0; i < 2; i++ {
		n := a.CountOthers(mqttp.PINGRESP)
		_ = a.SendL(mqttp.NewPingReq(a.Ver))
		if !a.WaitFor(5*time.Second, func() bool {
			k := 0
			for _, o := range a.Others {
				if o.Type() == mqttp.PINGRESP {
					k++
				}
			}
			return k > n
		}) {
			return false
		}
	}
	return true
}

// collect gathers what became visible since the previous step
func (r *sessRun) collect() [][4]int {
	var o [][4]int
	var cids []int
	for cid := range r.all {
		cids = append(cids, cid)
	}
	sort.Ints(cids)
	for _, cid := range cids {
		a := r.all[cid]
		a.mu.Lock()
		for j, m := range a.Pubs[r.seenPubs[cid]:] {
			if len(m.Payload()) == 1 {
				bad := 0
				if a.Ver == mqttp.ProtocolV50 {
					// every subscription of a v5 client carries the identifier topic+1: it has to come back
					// with the message (also from a session restored after a restart)
					var tn int
					tn = sessTopicNum(m.Topic())
					ids := subIDs(a.PubRaw[r.seenPubs[cid]+j])
					if len(ids) != 1 || ids[0] != tn+1 {
						bad = 9
					}
				}
				o = append(o, [4]int{3, cid, int(m.Payload()[0]), bad})
			}
		}
		r.seenPubs[cid] = len(a.Pubs)
		closed := a.closed
		reason := -1
		for _, x := range a.Others {
			if d, ok := x.(*mqttp.Disconnect); ok {
				reason = int(d.ReasonCode())
			}
		}
		a.mu.Unlock()
		if closed && !r.seenClose[cid] {
			r.seenClose[cid] = true
			// only closures initiated by the broker are outputs; client-side closes are marked seen by the op itself
			// the broker closed this connection: a take-over (v5: DISCONNECT 0x8E first) or the shutdown (v5: 0x8B)
			k := 0
			if r.stopping {
				k = 1
			}
			if a.Ver == mqttp.ProtocolV50 {
				switch {
				case !r.stopping && reason == 0x8E, r.stopping && reason == 0x8B:
				default:
					k = 9 // closed without the DISCONNECT the protocol asks for
				}
			}
			o = append(o, [4]int{2, cid, k, 0})
		}
	}
	r.wmu.Lock()
	for _, x := range r.wrecv[r.seenW:] {
		if x[0] >= 0 {
			o = append(o, [4]int{4, x[0], x[1], 0})
		}
	}
	r.seenW = len(r.wrecv)
	r.wmu.Unlock()
	return o
}

func (r *sessRun) emit(ev string, o [][4]int) {
	if o == nil {
		o = [][4]int{}
	}
	r.obs.Steps = append(r.obs.Steps, sessStep{Ev: ev, Obs: o})
}

// tick emits the elapsed time since the previous event, after moving away from known deadlines
func (r *sessRun) tick() {
	for {
		moved := false
		now := time.Now()
		for _, d := range r.deadlines {
			if now.After(d.Add(-250*time.Millisecond)) && now.Before(d.Add(250*time.Millisecond)) {
				time.Sleep(time.Until(d.Add(260 * time.Millisecond)))
				moved = true
			}
		}
		if !moved {
			break
		}
	}
	now := time.Now()
	dt := int(now.Sub(r.last) / time.Millisecond)
	r.last = r.last.Add(time.Duration(dt) * time.Millisecond)
	if dt > 0 {
		if dt > 300 { // timers may have fired: let their effects arrive
			r.marker()
		}
		r.emit(fmt.Sprintf("(ETick %d)", dt), r.collect())
	}
}

func optZ(v int64) string {
	if v < 0 {
		return "None"
	}
	return fmt.Sprintf("(Some %d)", v*1000)
}

// loadMu: the kinds that load the machine (hundreds of sessions, hundreds of servers, a client flooding PINGREQs, thousands
// of messages into a shutdown) run alone - the timed cases next
// to them measure the broker's timers in wall-clock time
var loadMu sync.RWMutex

func (p *sessProp) Run(ci interface{}) interface{} {
	c := ci.(*sessCase)
	if c.Stalled == 10 || c.Stalled == 11 || c.Stalled == 16 || c.Stalled == 17 || c.StopRace > 0 {
		loadMu.Lock()
		defer loadMu.Unlock()
	} else {
		loadMu.RLock()
		defer loadMu.RUnlock()
	}
	if c.Listener != nil {
		lo, msg := runListener(c.Listener)
		return &sessObs{Lis: lo, Err: msg}
	}
	if c.Closing {
		co, msg := runStopDuringClose()
		return &sessObs{Clo: co, Err: msg}
	}
	if c.Stalled > 0 {
		so, msg := runStalled(c.Stalled - 1)
		return &sessObs{Sta: so, Err: msg}
	}
	if c.StopRace > 0 {
		// a panic in the broker ends the harness process: the check reports the crash with this case
		for i := 0; i < c.StopRace; i++ {
			if msg := stopRace(64); msg != "" {
				return &sessObs{Sta: &stallObs{}, Err: fmt.Sprintf("round %d: %s", i, msg)}
			}
		}
		return &sessObs{Sta: &stallObs{OK: true, Closed: true}}
	}
	r := &sessRun{c: c, obs: &sessObs{}, cur: map[int]*Auto{}, curCid: map[int]int{}, all: map[int]*Auto{}, seenPubs: map[int]int{}, seenClose: map[int]bool{}, ended: map[int]time.Time{}}
	if err := r.startBroker(); err != nil {
		r.obs.Err = err.Error()
		return r.obs
	}
	defer func() {
		if r.b != nil {
			r.b.Drop()
		}
	}()
	r.last = time.Now()
	fail := func(format string, a ...interface{}) interface{} {
		r.obs.Err = fmt.Sprintf(format, a...)
		return r.obs
	}
	stopped := false
	for k, op := range c.Ops {
		if stopped && op.Op == "wait" {
			// downtime: timers whose deadline passes now are due when the broker is back
			time.Sleep(time.Duration(op.Ms) * time.Millisecond)
			continue
		}
		if stopped && op.Op != "restart" {
			continue
		}
		if op.Op != "restart" {
			// (the time that passes until the broker is back is accounted for after the restart: nothing
			// can be observed before)
			r.tick()
		}
		switch op.Op {
		case "connect":
			if op.At > 0 && r.cur[op.ID] == nil && !r.ended[op.ID].IsZero() {
				// aim at the deadline of a timer of this identifier
				d := r.ended[op.ID].Add(time.Duration(op.At) * time.Second)
				if time.Until(d) > 320*time.Millisecond {
					time.Sleep(time.Until(d.Add(-300 * time.Millisecond)))
					r.tick()
					if left := time.Until(d); left > 200*time.Millisecond && left < 400*time.Millisecond {
						if msg := r.connectAtDeadline(k, op, d); msg != "" {
							return fail("%s", msg)
						}
						continue
					}
				}
			}
			cid, o, ev := r.connectOpts(k, op)
			cl := r.b.Dial()
			ack, err := cl.Connect(o)
			if err != nil {
				r.emit(ev, append(r.collect(), [4]int{6, cid, 0, 0}))
				return fail("step %d: CONNECT not answered: %v", k, err)
			}
			a := cl.Auto(false)
			r.all[cid] = a
			sp := 0
			if ack.SessionPresent() {
				sp = 1
			}
			obsl := [][4]int{{1, cid, sp, int(ack.ReturnCode())}}
			if ack.ReturnCode() == 0 {
				if old, ok := r.cur[op.ID]; ok && old != nil {
					old.WaitFor(5*time.Second, func() bool { return false }) // until closed
				}
				r.cur[op.ID], r.curCid[op.ID] = a, cid
				if !pingBarrier(a) {
					return fail("step %d: ping barrier", k)
				}
			} else {
				r.seenClose[cid] = true // a refused connection is closed by the broker: not an output of the model
				a.WaitFor(5*time.Second, func() bool { return false })
			}
			if !r.marker() { // a will published because of a take-over has reached the watcher
				return fail("step %d: marker", k)
			}
			r.emit(ev, append(obsl, r.collect()...))
		case "sub":
			a := r.cur[op.ID]
			if a == nil || a.Closed() {
				continue
			}
			n := a.CountOthers(mqttp.SUBACK)
			sopts := byte(1)
			nl := 0
			if op.NL && a.Ver == mqttp.ProtocolV50 {
				sopts |= 0x04
				nl = 1
			}
			sp := mkSubscribe(a.Ver, uint16(k+1), []string{sessTopic(op.T)}, []byte{sopts})
			if a.Ver == mqttp.ProtocolV50 {
				_ = sp.PropertySet(mqttp.PropertySubscriptionIdentifier, uint32(op.T+1))
			}
			_ = a.SendL(sp)
			if !a.WaitFor(5*time.Second, func() bool {
				j := 0
				for _, o := range a.Others {
					if o.Type() == mqttp.SUBACK {
						j++
					}
				}
				return j > n
			}) {
				return fail("step %d: no suback", k)
			}
			if !pingBarrier(a) { // the retained message of the topic has arrived
				return fail("step %d: ping barrier", k)
			}
			r.emit(fmt.Sprintf("(ESubscribe %d%%N %d%%N)", op.ID, op.T*2+nl), r.collect())
		case "unsub":
			// MQTT 3.x connections only: the packet library can neither encode a v5 UNSUBSCRIBE nor decode the
			// broker's v5 UNSUBACK (see the known finding C06-unsuback-no-codes)
			a := r.cur[op.ID]
			if a == nil || a.Closed() || a.Ver == mqttp.ProtocolV50 {
				continue
			}
			n := a.CountOthers(mqttp.UNSUBACK)
			u := mqttp.NewUnSubscribe(a.Ver)
			u.SetPacketID(mqttp.IDType(k + 1))
			tp, _ := mqttp.NewTopic([]byte(sessTopic(op.T)))
			_ = u.AddTopic(tp)
			_ = a.SendL(u)
			if !a.WaitFor(5*time.Second, func() bool {
				j := 0
				for _, o := range a.Others {
					if o.Type() == mqttp.UNSUBACK {
						j++
					}
				}
				return j > n
			}) {
				return fail("step %d: no unsuback", k)
			}
			r.emit(fmt.Sprintf("(EUnsubscribe %d%%N %d%%N)", op.ID, op.T), r.collect())
		case "pub", "retain", "unretain":
			pb := r.pub
			if op.V5 {
				pb = r.pub5
			}
			n := pb.CountOthers(mqttp.PUBACK)
			payload := []byte{byte(k + 1)}
			if op.Op == "unretain" {
				payload = []byte{}
			}
			_ = pb.SendL(mkPublish(pb.Ver, sessTopic(op.T), payload, 1, op.Op != "pub", uint16(k+1)))
			if !pb.WaitFor(5*time.Second, func() bool {
				j := 0
				for _, o := range pb.Others {
					if o.Type() == mqttp.PUBACK {
						j++
					}
				}
				return j > n
			}) {
				return fail("step %d: no puback", k)
			}
			if !r.marker() {
				return fail("step %d: marker", k)
			}
			for _, a := range r.cur {
				if a != nil && !a.Closed() {
					if !pingBarrier(a) {
						return fail("step %d: ping barrier", k)
					}
				}
			}
			switch op.Op {
			case "pub":
				r.emit(fmt.Sprintf("(EPublish %d%%N %d%%N)", k+1, op.T), r.collect())
			case "retain":
				r.emit(fmt.Sprintf("(ERetain %d%%N %d%%N)", k+1, op.T), r.collect())
			default:
				r.emit(fmt.Sprintf("(EUnretain %d%%N)", op.T), r.collect())
			}
		case "selfpub":
			a := r.cur[op.ID]
			if a == nil || a.Closed() {
				continue
			}
			n := a.CountOthers(mqttp.PUBACK)
			_ = a.SendL(mkPublish(a.Ver, sessTopic(op.T), []byte{byte(k + 1)}, 1, false, uint16(1000+k)))
			if !a.WaitFor(5*time.Second, func() bool {
				j := 0
				for _, o := range a.Others {
					if o.Type() == mqttp.PUBACK {
						j++
					}
				}
				return j > n
			}) {
				return fail("step %d: no puback for the session's own publish", k)
			}
			if !r.marker() {
				return fail("step %d: marker", k)
			}
			for _, b := range r.cur {
				if b != nil && !b.Closed() {
					if !pingBarrier(b) {
						return fail("step %d: ping barrier", k)
					}
				}
			}
			r.emit(fmt.Sprintf("(EPublishBy %d%%N %d%%N %d%%N)", op.ID, k+1, op.T), r.collect())
		case "disc", "drop", "proto":
			a := r.cur[op.ID]
			if a == nil || a.Closed() {
				continue
			}
			d0 := r.b.Met.Disconnected()
			ev := fmt.Sprintf("(EDrop %d%%N)", op.ID)
			if op.Op == "proto" {
				// a protocol error by the client (second CONNECT): the broker ends the connection abnormally
				cc := mqttp.NewConnect(a.Ver)
				_ = cc.SetClientID([]byte(fmt.Sprintf("s%d", op.ID)))
				_ = a.SendL(cc)
			} else if op.Op == "disc" {
				dp := mqttp.NewDisconnect(a.Ver)
				exp := "None"
				if a.Ver == mqttp.ProtocolV50 {
					if op.WithWill {
						dp.SetReasonCode(mqttp.CodeRefusedBadUsernameOrPassword) // 0x04: disconnect with will message
					}
					if op.Expiry >= 0 {
						_ = dp.PropertySet(mqttp.PropertySessionExpiryInterval, uint32(op.Expiry))
						exp = optZ(op.Expiry)
					}
				}
				_ = a.SendL(dp)
				ev = fmt.Sprintf("(EDisconnect %d%%N %s %s)", op.ID, cBool(op.WithWill && a.Ver == mqttp.ProtocolV50), exp)
			} else if op.Op == "drop" {
				a.Close()
			}
			r.seenClose[r.curCid[op.ID]] = true
			deadline := time.Now().Add(5 * time.Second)
			for r.b.Met.Disconnected() <= d0 && time.Now().Before(deadline) {
				time.Sleep(time.Millisecond)
			}
			if r.b.Met.Disconnected() <= d0 {
				return fail("step %d: connection end was not processed", k)
			}
			a.Close()
			r.cur[op.ID] = nil
			t0 := time.Now()
			r.ended[op.ID] = t0
			for _, s := range []int{1, 2} {
				r.deadlines = append(r.deadlines, t0.Add(time.Duration(s)*time.Second))
			}
			if !r.marker() {
				return fail("step %d: marker", k)
			}
			r.emit(ev, r.collect())
		case "abort":
			// the client is gone when the broker writes its CONNACK.  Only for a clean, will-less CONNECT.
			op.Clean, op.WillDelay = true, -2
			cid, o, ev := r.connectOpts(k, op)
			cl := r.b.Dial()
			cl.conn.(*bufConn).Deafen()
			_, _ = cl.Connect(o)
			select {
			case <-cl.done:
			case <-time.After(5 * time.Second):
				r.emit(ev, append(r.collect(), [4]int{6, cid, 0, 0}))
				return fail("step %d: CONNECT whose CONNACK cannot be written: processing did not finish", k)
			}
			cl.Close()
			r.seenClose[cid] = true
			if old := r.cur[op.ID]; old != nil && !old.Closed() && !c.Preempt {
				// refused: the attached connection stays as it is
			} else {
				if old != nil {
					old.WaitFor(5*time.Second, func() bool { return false })
					r.cur[op.ID] = nil
				}
				t0 := time.Now()
				r.ended[op.ID] = t0
				for _, s := range []int{1, 2} {
					r.deadlines = append(r.deadlines, t0.Add(time.Duration(s)*time.Second))
				}
			}
			if !r.marker() {
				return fail("step %d: marker", k)
			}
			r.obs.Steps = append(r.obs.Steps, sessStep{Ev: ev, Obs: r.collect(), Ign: cid})
			r.obs.Steps = append(r.obs.Steps, sessStep{Ev: fmt.Sprintf("(EDropC %d%%N %d%%N)", cid, op.ID), Obs: [][4]int{}, Ign: cid})
		case "race":
			if msg := r.race(k, op); msg != "" {
				return fail("%s", msg)
			}
		case "wait":
			time.Sleep(time.Duration(op.Ms) * time.Millisecond)
			r.tick()
		case "stop":
			done := make(chan struct{})
			r.stopping = true
			t0 := time.Now()
			for _, sec := range []int{1, 2} { // timers started by the connection ends of the shutdown
				r.deadlines = append(r.deadlines, t0.Add(time.Duration(sec)*time.Second))
			}
			atomic.StoreInt32(&r.b.mgrDown, 1)
			go func() {
				_ = r.b.Mgr.Stop()
				_ = r.b.Mgr.Shutdown()
				close(done)
			}()
			o := [][4]int{}
			select {
			case <-done:
				o = append(o, [4]int{5, 0, 0, 0})
			case <-time.After(8 * time.Second):
			}
			for id, a := range r.cur {
				if a != nil {
					a.WaitFor(2*time.Second, func() bool { return false })
					r.cur[id] = nil
				}
			}
			r.pub.WaitFor(2*time.Second, func() bool { return false })
			r.pub5.WaitFor(2*time.Second, func() bool { return false })
			r.marker()
			wills := r.collect()
			r.stopping = false
			r.b.ShutdownTopics()
			stopped = true
			r.down = true
			r.emit("EStop", append(o, wills...))
			if len(o) == 0 {
				return fail("step %d: Stop did not return", k)
			}
		case "restart":
			if !stopped {
				continue
			}
			authRegMu.Lock()
			authRegMu.Unlock()
			old := r.b
			old.Drop2()
			r.b = nil
			started := make(chan error, 1)
			go func() { started <- r.startBroker() }()
			select {
			case err := <-started:
				if err != nil {
					return fail("step %d: restart: %v", k, err)
				}
			case <-time.After(10 * time.Second):
				r.emit("ERestart", [][4]int{{7, 0, 0, 0}})
				return fail("step %d: restart hung (NewManager did not return)", k)
			}
			stopped = false
			r.down = false
			r.markers = 0
			// the model's restart takes no time; what has become due during the downtime and during the
			// start-up itself is published now: it belongs to the passage of time that follows
			r.emit("ERestart", nil)
			r.tick()
		}
	}
	return r.obs
}

func (p *sessProp) Coq(ci interface{}, oi interface{}) string {
	c := ci.(*sessCase)
	o := oi.(*sessObs)
	steps := make([]string, len(o.Steps))
	for i, s := range o.Steps {
		it := make([]string, len(s.Obs))
		for j, x := range s.Obs {
			it[j] = fmt.Sprintf("(%d%%N, %d%%N, %d%%N, %d%%N)", x[0], x[1], x[2], x[3])
		}
		steps[i] = fmt.Sprintf("(mkStep %s %s %s %d%%N)", s.Ev, cList(it), cList(s.Race), s.Ign)
	}
	lis := "None"
	if c.Listener != nil && o.Lis != nil {
		ks := make([]string, len(c.Listener.Conns))
		for i, k := range c.Listener.Conns {
			ks[i] = fmt.Sprintf("%d%%N", k)
		}
		cl := make([]string, len(o.Lis.Closed))
		for i, b := range o.Lis.Closed {
			cl[i] = cBool(b)
		}
		lis = fmt.Sprintf("(Some (SLis (mkLis %s %s %s %s %s)))", cList(ks), cBool(o.Lis.Returned), cList(cl), cBool(o.Lis.AcceptsAfter), cBool(o.Lis.LateConnack))
	}
	if c.Stalled > 0 && o.Sta != nil {
		lis = fmt.Sprintf("(Some (SStalled %d%%N %s %s))", c.Stalled-1, cBool(o.Sta.OK), cBool(o.Sta.Closed))
	}
	if c.StopRace > 0 && o.Sta != nil {
		lis = fmt.Sprintf("(Some (SStalled 9%%N %s %s))", cBool(o.Sta.OK), cBool(o.Sta.Closed))
	}
	if c.Closing && o.Clo != nil {
		lis = fmt.Sprintf("(Some (SClosing (mkClosing %s %s %d%%N)))", cBool(o.Clo.Early), cBool(o.Clo.Returned), o.Clo.UnAck)
	}
	return fmt.Sprintf("(mkCase %s %s %s %s)", cBool(c.Preempt), cList(steps), cBool(o.Err == ""), lis)
}

func (p *sessProp) Class(ci interface{}, oi interface{}) (string, bool) {
	c := ci.(*sessCase)
	if c.Listener != nil {
		return "listener", true
	}
	if c.Closing {
		return "stop-during-connection-end", true
	}
	if c.Stalled > 0 {
		return fmt.Sprintf("stalled-client-%d", c.Stalled), true
	}
	if c.StopRace > 0 {
		return "stop-vs-self-ending-sessions", true
	}
	timed, recon, wills := false, 0, false
	for _, op := range c.Ops {
		if op.Op == "wait" {
			timed = true
		}
		if op.Op == "connect" {
			recon++
			if op.WillDelay > -2 {
				wills = true
			}
		}
	}
	l := "untimed"
	if timed {
		l = "timed"
	}
	if wills {
		l += "+will"
	}
	return l, recon > 1
}

// connectOpts allocates a connection number and builds the CONNECT options and the model event of a connect op
func (r *sessRun) connectOpts(k int, op sessOp) (int, ConnectOpts, string) {
	r.nextCid++
	cid := r.nextCid
	ver := mqttp.ProtocolV311
	if op.V5 {
		ver = mqttp.ProtocolV50
	} else if op.V31 {
		ver = mqttp.ProtocolV31
	}
	o := ConnectOpts{ID: fmt.Sprintf("s%d", op.ID), Ver: ver, Clean: op.Clean}
	if op.V5 && op.Expiry >= 0 {
		e := uint32(op.Expiry)
		o.Expiry = &e
	}
	wl := "None"
	if op.WillDelay > -2 {
		tag := 150 + (k*4+cid)%100
		wm := mqttp.NewPublish(ver)
		_ = wm.Set(fmt.Sprintf("will/%d", op.ID), []byte{byte(tag)}, 0, false, false)
		d := 0
		if op.V5 && op.WillDelay >= 0 {
			_ = wm.PropertySet(mqttp.PropertyWillDelayInterval, uint32(op.WillDelay))
			d = op.WillDelay
		}
		o.Will = wm
		wl = fmt.Sprintf("(Some (mkWill %d%%N %d%%N %d))", tag, 100+op.ID, d*1000)
	}
	exp := "None"
	if op.V5 {
		exp = optZ(op.Expiry)
	}
	ev := fmt.Sprintf("(EConnect %d%%N %d%%N %s %s %s %s)", cid, op.ID, cBool(op.V5), cBool(op.Clean), exp, wl)
	return cid, o, ev
}

// connectAtDeadline: a timer of the identifier fires at d (within a few milliseconds); the CONNECT is sent at
// that moment.  Either order of the two is a correct outcome: the step is a race between the passage of
// time across the deadline and the CONNECT.
func (r *sessRun) connectAtDeadline(k int, op sessOp, d time.Time) string {
	cid, o, ev := r.connectOpts(k, op)
	cl := r.b.Dial()
	jitter := time.Duration(int64(k*7919+cid*104729)%5-2) * time.Millisecond
	time.Sleep(time.Until(d.Add(jitter)))
	ack, err := cl.Connect(o)
	if err != nil {
		r.emit(ev, append(r.collect(), [4]int{6, cid, 0, 0}))
		return fmt.Sprintf("step %d: CONNECT at a timer deadline not answered: %v", k, err)
	}
	a := cl.Auto(false)
	r.all[cid] = a
	sp := 0
	if ack.SessionPresent() {
		sp = 1
	}
	obsl := [][4]int{{1, cid, sp, int(ack.ReturnCode())}}
	r.cur[op.ID], r.curCid[op.ID] = a, cid
	if !pingBarrier(a) {
		return fmt.Sprintf("step %d: ping barrier", k)
	}
	// the model's clock moves 600 ms across the deadline
	r.last = r.last.Add(600 * time.Millisecond)
	if w := time.Until(r.last); w > 0 {
		time.Sleep(w)
	}
	if !r.marker() {
		return fmt.Sprintf("step %d: marker", k)
	}
	if !pingBarrier(a) {
		return fmt.Sprintf("step %d: ping barrier", k)
	}
	r.obs.Steps = append(r.obs.Steps, sessStep{Ev: "(ETick 600)", Obs: append(obsl, r.collect()...), Race: []string{ev}})
	return ""
}

// race: the racers send CONNECT for one identifier at the same moment (optionally the attached connection is
// closed by its client at that moment too)
func (r *sessRun) race(k int, op sessOp) string {
	type racer struct {
		cid   int
		o     ConnectOpts
		ev    string
		cl    *Client
		a     *Auto
		ack   *mqttp.ConnAck
		err   error
		abort bool
	}
	var rs []*racer
	aborting := false
	for _, ro := range op.Racers {
		ro.ID = op.ID
		if ro.Abort {
			ro.Clean, ro.WillDelay = true, -2
		}
		cid, o, ev := r.connectOpts(k, ro)
		x := &racer{cid: cid, o: o, ev: ev, abort: ro.Abort}
		if ro.Abort {
			x.cl = r.b.DialCap(1)
			aborting = true
		} else {
			x.cl = r.b.Dial()
		}
		rs = append(rs, x)
	}
	old := r.cur[op.ID]
	oldCid := r.curCid[op.ID]
	if old != nil && old.Closed() {
		old = nil
	}
	start := make(chan struct{})
	var wg sync.WaitGroup
	for _, x := range rs {
		wg.Add(1)
		go func(x *racer) {
			defer wg.Done()
			<-start
			if x.abort {
				// the broker gets stuck in the CONNACK write; the others queue behind it; then the write fails
				go func() { time.Sleep(120 * time.Millisecond); x.cl.conn.(*bufConn).Deafen() }()
				x.o.NoRead = true
				_, _ = x.cl.Connect(x.o)
				select {
				case <-x.cl.done:
				case <-time.After(5 * time.Second):
				}
				x.cl.Close()
				return
			}
			if aborting {
				time.Sleep(50 * time.Millisecond)
			}
			x.ack, x.err = x.cl.Connect(x.o)
			if x.err == nil {
				x.a = x.cl.Auto(false)
			}
		}(x)
	}
	ign := 0
	var evs []string
	if op.DropCur && old != nil {
		ign = oldCid
		evs = append(evs, fmt.Sprintf("(EDropC %d%%N %d%%N)", oldCid, op.ID))
		wg.Add(1)
		go func() {
			defer wg.Done()
			<-start
			old.Close()
		}()
		r.seenClose[oldCid] = true
	}
	close(start)
	wg.Wait()
	var obsl [][4]int
	accepted := 0
	for _, x := range rs {
		evs = append(evs, x.ev)
		if x.abort {
			evs = append(evs, fmt.Sprintf("(EDropC %d%%N %d%%N)", x.cid, op.ID))
			ign = x.cid
			r.seenClose[x.cid] = true
			continue
		}
		if x.err != nil {
			r.obs.Steps = append(r.obs.Steps, sessStep{Ev: evs[0], Obs: append(r.collect(), [4]int{6, x.cid, 0, 0}), Race: evs[1:], Ign: ign})
			return fmt.Sprintf("step %d: one of %d racing CONNECTs was not answered: %v", k, len(rs), x.err)
		}
		r.all[x.cid] = x.a
		sp := 0
		if x.ack.SessionPresent() {
			sp = 1
		}
		obsl = append(obsl, [4]int{1, x.cid, sp, int(x.ack.ReturnCode())})
		if x.ack.ReturnCode() == 0 {
			accepted++
		} else {
			r.seenClose[x.cid] = true
			x.a.WaitFor(5*time.Second, func() bool { return false })
		}
	}
	// all but one of the connections attached during the race get closed by the broker
	live := func() []*racer {
		var l []*racer
		for _, x := range rs {
			if !x.abort && x.ack.ReturnCode() == 0 && !x.a.Closed() {
				l = append(l, x)
			}
		}
		return l
	}
	want := 1
	if accepted == 0 {
		want = 0
	}
	deadline := time.Now().Add(5 * time.Second)
	for len(live()) > want && time.Now().Before(deadline) {
		time.Sleep(time.Millisecond)
	}
	if accepted > 0 && old != nil {
		old.WaitFor(5*time.Second, func() bool { return false })
	}
	l := live()
	if len(l) >= 1 {
		r.cur[op.ID], r.curCid[op.ID] = l[len(l)-1].a, l[len(l)-1].cid
	} else if accepted > 0 || (op.DropCur && old != nil) {
		r.cur[op.ID] = nil
	}
	// every connection end of the race has been processed by the manager: attached sessions = those the
	// harness holds (+ the publisher)
	wantLive := int64(2)
	for _, a := range r.cur {
		if a != nil && !a.Closed() {
			wantLive++
		}
	}
	dl := time.Now().Add(5 * time.Second)
	for r.b.Met.Connected()-r.b.Met.Disconnected() != wantLive && time.Now().Before(dl) {
		time.Sleep(time.Millisecond)
	}
	for _, x := range l {
		if !pingBarrier(x.a) {
			return fmt.Sprintf("step %d: ping barrier", k)
		}
	}
	if !r.marker() {
		return fmt.Sprintf("step %d: marker", k)
	}
	if r.cur[op.ID] == nil {
		t0 := time.Now()
		r.ended[op.ID] = t0
		for _, s := range []int{1, 2} {
			r.deadlines = append(r.deadlines, t0.Add(time.Duration(s)*time.Second))
		}
	}
	r.obs.Steps = append(r.obs.Steps, sessStep{Ev: evs[0], Obs: append(obsl, r.collect()...), Race: evs[1:], Ign: ign})
	if len(l) > 1 {
		return fmt.Sprintf("step %d: %d connections stay attached to one client identifier", k, len(l))
	}
	return ""
}

// topic numbers of the session histories: 0, 1 ordinary; 2 has an empty first level (leading slash); 3 has a first
// level that begins with '$' (no wildcard filter reaches it, '#' included)
func sessTopic(t int) string {
	if t == 2 {
		return "/t/2"
	}
	if t == 3 {
		return "$t/3"
	}
	return fmt.Sprintf("t/%d", t)
}

func sessTopicNum(topic string) int {
	var n int
	if i := strings.LastIndex(topic, "/"); i >= 0 {
		fmt.Sscanf(topic[i+1:], "%d", &n)
	}
	return n
}
