package main

import (
	"encoding/json"
	"fmt"
	"io"
	"os"
	"sort"
	"strings"
	"time"

	"github.com/VolantMQ/vlapi/mqttp"
)

// C04: generated sequences of PUBLISH(qos,id,dup,authorised?) / PUBREL(id) from one client, ids from a
// small pool (forces duplicates, reuse, unknown ids), server Receive Maximum 1..10, v3.1.1 / v5.
// After every packet: PINGREQ/PINGRESP barrier on the publisher connection, then a QoS0 and a QoS1
// sentinel from a helper client to the '#' watcher, so the responses and forwards caused by exactly
// that packet are attributed to it without any timing assumption.

type c04Ev struct {
	K    string `json:"k"` // "pub" | "rel"
	QoS  int    `json:"qos,omitempty"`
	ID   int    `json:"id"`
	Dup  bool   `json:"dup,omitempty"`
	Auth bool   `json:"auth,omitempty"`
	// rel, v5: the PUBREL carries reason code 0x92 "packet identifier not found" (the only other one it may carry): it is
	// a PUBREL like any other to the receiver
	R92 bool `json:"r92,omitempty"`
}

type c04Case struct {
	V5  bool    `json:"v5"`
	RM  int     `json:"rm"`
	Evs []c04Ev `json:"evs"`
	// Echo: before the sequence the client under test subscribes (QoS 1) and is sent that many messages which it never
	// acknowledges: the broker's OWN packet identifiers 1..Echo are in flight towards it - the two directions number
	// their exchanges independently, what the client sends under those identifiers is not affected
	Echo int `json:"echo,omitempty"`
	// Pipe: all packets are written back-to-back to a connection whose client reads slowly (16 bytes of pipe, 2 ms per
	// read): the broker's writer lags behind its reader; one observed step with all responses in wire order
	Pipe bool `json:"pipe,omitempty"`
}

type c04Step struct {
	Resp   [][3]int `json:"resp"` // (packet type, id, reason)
	Fwd    []int    `json:"fwd"`
	Closed bool     `json:"closed,omitempty"`
}

type c04Obs struct {
	Steps []c04Step `json:"steps"`
	Err   string    `json:"err,omitempty"`
}

type c04Prop struct{}

func init() { props["C04"] = &c04Prop{} }

func (p *c04Prop) ID() string { return "C04" }
func (p *c04Prop) Header() string {
	return "From Coq Require Import List NArith ZArith.\nImport ListNotations.\nFrom VMQ Require Import model.Inbound chk.C04chk.\n"
}
func (p *c04Prop) Parallel() int { return 8 }

func (p *c04Prop) Gen(r *Rng, i int, tier string) interface{} {
	c := &c04Case{V5: r.Bool(), RM: []int{1, 2, 2, 3, 10}[r.Intn(5)]}
	n := 3 + r.Intn(14)
	pool := []int{1, 2, 3, 4}
	if r.Chance(20) {
		pool = []int{1, 2, 3, 4, 5, 6, 7, 8, 9, 10, 11, 12}
	}
	for k := 0; k < n; k++ {
		var e c04Ev
		if r.Chance(35) {
			e = c04Ev{K: "rel", ID: pool[r.Intn(len(pool))], R92: r.Chance(20)}
		} else {
			q := []int{0, 1, 2, 2, 2}[r.Intn(5)]
			e = c04Ev{K: "pub", QoS: q, ID: pool[r.Intn(len(pool))], Auth: !r.Chance(12)}
			if q > 0 {
				e.Dup = r.Chance(25)
				if r.Chance(3) {
					e.ID = 0
				}
			}
		}
		c.Evs = append(c.Evs, e)
	}
	if i%10 != 9 && r.Chance(30) {
		c.Echo = 1 + r.Intn(3)
	}
	if i%10 == 9 {
		// the same kind of sequence, pipelined into a connection whose client reads slowly; every topic is authorised and
		// identifier 0 is left out (its packet cannot be encoded without patching)
		c.Pipe = true
		// no termination in the middle of a pipeline (what the writer still holds is cut off by the close: nothing to
		// compare): the Receive Maximum is never reached
		c.RM = 100
		for k := range c.Evs {
			c.Evs[k].Auth = true
			if c.Evs[k].K == "pub" && c.Evs[k].QoS > 0 && c.Evs[k].ID == 0 {
				c.Evs[k].ID = 1
			}
		}
	}
	return c
}

func (p *c04Prop) Decode(raw json.RawMessage) (interface{}, error) {
	c := &c04Case{}
	return c, json.Unmarshal(raw, c)
}

func (p *c04Prop) Run(ci interface{}) interface{} {
	c := ci.(*c04Case)
	obs := &c04Obs{}
	au := &progAuth{acl: func(_, _, topic string, write bool) bool { return !(write && strings.HasPrefix(topic, "deny/")) }}
	b, err := NewBroker(BrokerOpts{ReceiveMax: uint16(c.RM), Auth: []*progAuth{au}})
	if err != nil {
		obs.Err = err.Error()
		return obs
	}
	t0 := time.Now()
	defer func() {
		t1 := time.Now()
		ok := b.Close(10 * time.Second)
		if os.Getenv("VH_DEBUG") != "" {
			fmt.Fprintln(os.Stderr, "case took", t1.Sub(t0), "close", time.Since(t1), ok, obs.Err, len(obs.Steps), len(c.Evs), c.V5)
		}
	}()
	ver := mqttp.ProtocolV311
	if c.V5 {
		ver = mqttp.ProtocolV50
	}
	// watcher
	wc := b.Dial()
	if _, err := wc.Connect(ConnectOpts{ID: "watcher", Ver: mqttp.ProtocolV311, Clean: true}); err != nil {
		obs.Err = "watcher: " + err.Error()
		return obs
	}
	w := wc.Auto(false)
	_ = w.SendL(mkSubscribe(mqttp.ProtocolV311, 1, []string{"#"}, []byte{2}))
	if !w.WaitFor(5*time.Second, func() bool { return len(w.Others) >= 1 }) {
		obs.Err = "watcher: no suback"
		return obs
	}
	// helper publishing sentinels
	hc := b.Dial()
	if _, err := hc.Connect(ConnectOpts{ID: "helper", Ver: mqttp.ProtocolV311, Clean: true}); err != nil {
		obs.Err = "helper: " + err.Error()
		return obs
	}
	h := hc.Auto(false)
	// publisher under test (manual reads)
	pc := b.Dial()
	if _, err := pc.Connect(ConnectOpts{ID: "pub", Ver: ver, Clean: true}); err != nil {
		obs.Err = "pub: " + err.Error()
		return obs
	}
	if c.Echo > 0 && !c.Pipe {
		_ = pc.Send(mkSubscribe(ver, 900, []string{"echo/t"}, []byte{1}))
		if pk, err := pc.Recv(5 * time.Second); err != nil || pk.Type() != mqttp.SUBACK {
			obs.Err = "pub: no suback for the echo subscription"
			return obs
		}
		for k := 0; k < c.Echo; k++ {
			_ = h.SendL(mkPublish(mqttp.ProtocolV311, "echo/t", []byte{0xEC, byte(k)}, 1, false, uint16(800+k)))
		}
		for k := 0; k < c.Echo; k++ {
			if pk, err := pc.Recv(5 * time.Second); err != nil || pk.Type() != mqttp.PUBLISH {
				obs.Err = "pub: the echo messages did not arrive"
				return obs
			}
		}
	}
	if c.Pipe {
		pc = b.DialCap(16)
		if _, err := pc.Connect(ConnectOpts{ID: "pubpipe", Ver: ver, Clean: true}); err != nil {
			obs.Err = "pub: " + err.Error()
			return obs
		}
		pc.conn.(*bufConn).SetReadPause(2 * time.Millisecond)
		var all []byte
		for k, e := range c.Evs {
			var pkt mqttp.IFace
			if e.K == "rel" {
				a := mkAck(ver, mqttp.PUBREL, uint16(e.ID))
				if e.R92 && c.V5 {
					a.SetReason(mqttp.CodePacketIDNotFound)
				}
				pkt = a
			} else {
				m := mqttp.NewPublish(ver)
				_ = m.Set("ok/t", []byte{byte(k + 1)}, mqttp.QosType(e.QoS), false, e.Dup)
				if e.QoS > 0 {
					m.SetPacketID(mqttp.IDType(e.ID))
				}
				pkt = m
			}
			raw, _ := mqttp.Encode(pkt)
			all = append(all, raw...)
		}
		raw, _ := mqttp.Encode(mqttp.NewPingReq(ver))
		all = append(all, raw...)
		_ = pc.SendRaw(all)
		st := c04Step{Resp: [][3]int{}, Fwd: []int{}}
		for {
			rp, err := pc.Recv(10 * time.Second)
			if err != nil {
				if err == io.EOF {
					st.Closed = true
				} else {
					obs.Err = fmt.Sprintf("pipeline: %v", err)
				}
				break
			}
			if rp.Type() == mqttp.PINGRESP {
				break
			}
			switch a := rp.(type) {
			case *mqttp.Ack:
				id, _ := a.ID()
				st.Resp = append(st.Resp, [3]int{int(a.Type()), int(id), int(a.Reason())})
			case *mqttp.Disconnect:
				st.Resp = append(st.Resp, [3]int{int(a.Type()), 0, int(a.ReasonCode())})
			default:
				st.Resp = append(st.Resp, [3]int{int(rp.Type()), 0, 0})
			}
		}
		_ = h.SendL(mkPublish(mqttp.ProtocolV311, "ok/sentinel", []byte{0, 0}, 0, false, 0))
		_ = h.SendL(mkPublish(mqttp.ProtocolV311, "ok/sentinel", []byte{0, 0}, 1, false, 1))
		if !w.WaitFor(5*time.Second, func() bool {
			n := 0
			for _, m := range w.Pubs {
				if m.Topic() == "ok/sentinel" {
					n++
				}
			}
			return n >= 2
		}) {
			obs.Err = "pipeline: sentinels did not arrive"
		}
		w.mu.Lock()
		for _, m := range w.Pubs {
			if m.Topic() != "ok/sentinel" && len(m.Payload()) == 1 {
				st.Fwd = append(st.Fwd, int(m.Payload()[0]))
			}
		}
		w.mu.Unlock()
		sort.Ints(st.Fwd)
		obs.Steps = append(obs.Steps, st)
		return obs
	}
	seenW := 0
	for k, e := range c.Evs {
		st := c04Step{Resp: [][3]int{}, Fwd: []int{}}
		var pkt mqttp.IFace
		if e.K == "rel" {
			a := mkAck(ver, mqttp.PUBREL, uint16(e.ID))
			if e.R92 && c.V5 {
				a.SetReason(mqttp.CodePacketIDNotFound)
			}
			pkt = a
		} else {
			topic := "ok/t"
			if !e.Auth {
				topic = "deny/t"
			}
			m := mqttp.NewPublish(ver)
			_ = m.Set(topic, []byte{byte(k + 1)}, mqttp.QosType(e.QoS), false, e.Dup)
			if e.QoS > 0 {
				m.SetPacketID(mqttp.IDType(e.ID))
			}
			pkt = m
		}
		if pkt.Type() == mqttp.PUBLISH && e.QoS > 0 && e.ID == 0 {
			// the codec refuses to encode id 0: patch the id bytes of a packet encoded with id 1
			m := pkt.(*mqttp.Publish)
			m.SetPacketID(1)
			raw, _ := mqttp.Encode(m)
			// fixed header (2 bytes for short packets) + topic LP
			off := 2 + 2 + len(m.Topic())
			raw[off], raw[off+1] = 0, 0
			_ = pc.SendRaw(raw)
		} else {
			_ = pc.Send(pkt)
		}
		_ = pc.Send(mqttp.NewPingReq(ver))
		for {
			rp, err := pc.Recv(5 * time.Second)
			if err != nil {
				if err == io.EOF {
					st.Closed = true
				} else {
					obs.Err = fmt.Sprintf("step %d: %v", k, err)
				}
				break
			}
			if rp.Type() == mqttp.PINGRESP {
				break
			}
			switch a := rp.(type) {
			case *mqttp.Ack:
				id, _ := a.ID()
				st.Resp = append(st.Resp, [3]int{int(a.Type()), int(id), int(a.Reason())})
			case *mqttp.Disconnect:
				st.Resp = append(st.Resp, [3]int{int(a.Type()), 0, int(a.ReasonCode())})
			default:
				st.Resp = append(st.Resp, [3]int{int(rp.Type()), 0, 0})
			}
		}
		// sentinels: everything forwarded because of this packet precedes them at the watcher
		_ = h.SendL(mkPublish(mqttp.ProtocolV311, "ok/sentinel", []byte{0, byte(k)}, 0, false, 0))
		_ = h.SendL(mkPublish(mqttp.ProtocolV311, "ok/sentinel", []byte{0, byte(k)}, 1, false, uint16(k+1)))
		want := func() bool {
			n := 0
			for _, m := range w.Pubs[seenW:] {
				if m.Topic() == "ok/sentinel" {
					n++
				}
			}
			return n >= 2
		}
		if !w.WaitFor(5*time.Second, want) {
			obs.Err = fmt.Sprintf("step %d: sentinels did not arrive", k)
		}
		w.mu.Lock()
		for _, m := range w.Pubs[seenW:] {
			if m.Topic() != "ok/sentinel" && len(m.Payload()) == 1 {
				st.Fwd = append(st.Fwd, int(m.Payload()[0]))
			}
		}
		seenW = len(w.Pubs)
		w.mu.Unlock()
		sort.Ints(st.Fwd)
		obs.Steps = append(obs.Steps, st)
		if st.Closed || obs.Err != "" {
			break
		}
	}
	return obs
}

func (p *c04Prop) Suspect(oi interface{}) bool { return oi.(*c04Obs).Err != "" }

func (p *c04Prop) Coq(ci interface{}, oi interface{}) string {
	c := ci.(*c04Case)
	o := oi.(*c04Obs)
	evs := make([]string, len(c.Evs))
	for i, e := range c.Evs {
		if e.K == "rel" {
			evs[i] = fmt.Sprintf("(EPubrel %s)", cN(uint64(e.ID)))
		} else {
			evs[i] = fmt.Sprintf("(EPublish %s %s %s %s)", cN(uint64(e.QoS)), cN(uint64(e.ID)), cN(uint64(i+1)), cBool(e.Auth))
		}
	}
	steps := make([]string, len(o.Steps))
	for i, s := range o.Steps {
		rs := make([]string, len(s.Resp))
		for j, r := range s.Resp {
			rs[j] = fmt.Sprintf("(%s, %s, %s)", cN(uint64(r[0])), cN(uint64(r[1])), cN(uint64(r[2])))
		}
		fw := make([]uint64, len(s.Fwd))
		for j, f := range s.Fwd {
			fw[j] = uint64(f)
		}
		steps[i] = fmt.Sprintf("(mkStep %s %s %s)", cList(rs), cNs(fw), cBool(s.Closed))
	}
	return fmt.Sprintf("(mkCase %s %s %s %s %s %s)", cBool(c.V5), cZ(int64(c.RM)), cList(evs), cList(steps), cBool(o.Err == ""), cBool(c.Pipe))
}

func (p *c04Prop) Class(ci interface{}, oi interface{}) (string, bool) {
	c := ci.(*c04Case)
	if c.Pipe {
		return "pipelined", true
	}
	o := oi.(*c04Obs)
	dups, rels := 0, 0
	seen := map[int]bool{}
	for _, e := range c.Evs {
		if e.K == "rel" {
			rels++
		} else if e.QoS == 2 {
			if seen[e.ID] {
				dups++
			}
			seen[e.ID] = true
		}
	}
	l := "seq"
	if dups > 0 {
		l += "+dup-qos2"
	}
	if len(o.Steps) > 0 && o.Steps[len(o.Steps)-1].Closed {
		l += "+terminated"
	}
	return l, dups > 0 || rels > 0
}
